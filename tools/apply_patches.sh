#!/bin/sh
# tools/apply_patches.sh <dir with NN.diff + NN.msg> <test packages...>
# Applies each builder hand-over patch to /repo as its own `fix:` commit (message from the .msg file).
export GOFLAGS=-mod=mod GOPROXY=off GOSUMDB=off GOTOOLCHAIN=local
d=$1; shift
cd /repo || exit 1
for p in $(ls $d/*.diff | sort); do
  m=${p%.diff}.msg
  if ! patch -p1 -s --no-backup-if-mismatch --dry-run < $p >/dev/null 2>&1; then echo "SKIP (does not apply) $p"; continue; fi
  patch -p1 -s --no-backup-if-mismatch < $p
  if ! go build ./... >/tmp/apply_build.log 2>&1; then echo "BUILD FAILS $p"; git checkout -- . ; git clean -fdq; continue; fi
  git add -A
  git commit -q -F $m && echo "applied $(basename $p): $(head -1 $m | cut -c1-100)"
done
