#!/bin/sh
# Re-expands the cpp templates of /repo (the //go:generate lines) after a
# template (*.in) was edited for a `fix:` commit.  Verified: on the unchanged
# tree this reproduces every generated file byte for byte.
set -e
R=${1:-/repo}
for d in . algorithm/saga algorithm/cholesky; do
  (cd "$R/$d" && grep -h "^//go:generate cpp" *.go | sed 's#^//go:generate ##' | sh)
done
echo regenerated
