#!/usr/bin/env python3
"""tpatch.py <old-file> <new-file> <template>...  : replaces the exact text of <old-file> by <new-file> in every template (must occur exactly once in each)."""
import sys
old=open(sys.argv[1]).read(); new=open(sys.argv[2]).read()
for p in sys.argv[3:]:
    s=open(p).read()
    n=s.count(old)
    if n!=1:
        print("ERROR",p,"occurrences:",n); sys.exit(1)
    open(p,'w').write(s.replace(old,new))
    print("patched",p)
