#!/usr/bin/env python3
"""Validates a seeded change produced by an independent sub-agent and runs checks against it.

tools/seeded.py validate <dir with patch.diff, meta.json, demo> [--checks C11,C03] [--skip-suite] [--keep <name>]

Steps (all on scratch copies of /repo under /tmp, removed afterwards):
  1. clean copy: demo must PASS
  2. copy + patch: must build, demo must FAIL
  3. copy + patch: the existing test suite (packages of touched files, or everything) must pass
  4. each requested check is run with VERIF_REPO=<patched copy>; verdict recorded
With --keep the change is stored under /verif/seeded/<name>/ (patch.diff, demo, meta.json extended with what was run).
"""
import argparse, glob, json, os, shutil, subprocess, sys, tempfile, time

V = os.path.dirname(os.path.dirname(os.path.abspath(__file__)))
ENV = dict(os.environ, GOFLAGS="-mod=mod", GOPROXY="off", GOSUMDB="off", GOTOOLCHAIN="local")


def sh(cmd, cwd, timeout=3600):
    p = subprocess.run(cmd, shell=True, cwd=cwd, env=ENV, stdout=subprocess.PIPE, stderr=subprocess.STDOUT, text=True, timeout=timeout)
    return p.returncode, p.stdout


def copy_repo(dst):
    subprocess.run(["rsync", "-a", "--exclude", ".git", "/repo/", dst + "/"], check=True)


def place_demo(src, repo, meta):
    demo_dir = meta.get("demo_dir", ".") or "."
    files = []
    for f in glob.glob(os.path.join(src, "*")):
        b = os.path.basename(f)
        if b in ("meta.json",) or b.startswith("patch"):
            continue
        dst = os.path.join(repo, demo_dir, b)
        os.makedirs(os.path.dirname(dst), exist_ok=True)
        if os.path.isdir(f):
            shutil.copytree(f, dst, dirs_exist_ok=True)
        else:
            shutil.copy(f, dst)
        files.append(dst)
    return files


def main():
    ap = argparse.ArgumentParser()
    ap.add_argument("cmd")
    ap.add_argument("dir")
    ap.add_argument("--checks", default="")
    ap.add_argument("--skip-suite", action="store_true")
    ap.add_argument("--keep")
    a = ap.parse_args()
    src = os.path.abspath(a.dir)
    meta = json.load(open(os.path.join(src, "meta.json")))
    patch = os.path.join(src, "patch.diff")
    tmp = tempfile.mkdtemp(prefix="verif-seed-")
    # every scratch copy has its own path, hence its own entries in the Go build cache: a private cache that goes away
    # with the scratch copy keeps the shared one from filling the disk (and nobody has to trim it under running builds)
    ENV["GOCACHE"] = os.path.join(tmp, "gocache")
    os.environ["GOCACHE"] = ENV["GOCACHE"]
    res = {"validated_at_repo_head": subprocess.run(["git", "-C", "/repo", "rev-parse", "--short", "HEAD"], capture_output=True, text=True).stdout.strip()}
    try:
        clean, mut = os.path.join(tmp, "clean"), os.path.join(tmp, "mut")
        copy_repo(clean)
        copy_repo(mut)
        rc, out = sh(f"patch -p1 -s --no-backup-if-mismatch < {patch}", mut)
        res["patch_applies"] = rc == 0
        if rc != 0:
            print("PATCH DOES NOT APPLY\n", out[-2000:])
            res["error"] = out[-500:]
            print(json.dumps(res, indent=1))
            return 1
        rc, out = sh("go build ./...", mut)
        res["builds"] = rc == 0
        if rc != 0:
            print("DOES NOT BUILD\n", out[-2000:])
        demo_cmd = meta["demo_cmd"]
        if "<repo>" in demo_cmd or "cp " in demo_cmd:
            # the demo file is already placed in demo_dir: keep only the go invocation
            k = max(demo_cmd.rfind("go test"), demo_cmd.rfind("go run"))
            demo_cmd = demo_cmd[k:]
        place_demo(src, clean, meta)
        place_demo(src, mut, meta)
        rc_c, out_c = sh(demo_cmd, clean, 1800)
        rc_m, out_m = sh(demo_cmd, mut, 1800)
        res["demo_passes_on_clean"] = rc_c == 0
        res["demo_fails_on_patched"] = rc_m != 0
        if rc_c != 0:
            print("DEMO FAILS ON CLEAN TREE:\n", out_c[-1500:])
        if rc_m == 0:
            print("DEMO PASSES ON PATCHED TREE:\n", out_m[-1500:])
        # remove the demo before running the suite
        for f in place_demo(src, mut, meta):
            if os.path.isdir(f):
                shutil.rmtree(f, ignore_errors=True)
            else:
                os.remove(f)
        if not a.skip_suite:
            pkgs = sorted({"./" + os.path.dirname(f) if os.path.dirname(f) else "." for f in meta.get("files", [])}) or ["./..."]
            # root package changes can affect everything that imports it: run the whole suite then
            if "." in pkgs:
                pkgs = ["./..."]
            t0 = time.time()
            rc, out = sh("go test -vet=off -count=1 -timeout 40m " + " ".join(pkgs), mut, 3600)
            bad = [l for l in out.split("\n") if l.startswith("FAIL") or l.startswith("--- FAIL") or l.startswith("panic:")]
            bad = [l for l in bad if "algorithm/adam" not in l and l.strip() != "FAIL"]
            res["existing_tests_pass"] = not bad
            res["existing_tests_cmd"] = "go test -vet=off -count=1 " + " ".join(pkgs)
            res["existing_tests_wall_s"] = round(time.time() - t0)
            if bad:
                print("EXISTING TESTS FAIL:\n", "\n".join(bad[:10]))
        if a.skip_suite and "existing_tests_pass" in meta.get("validation", {}):
            # carried over from the last validation that ran the suite
            pv = meta["validation"]
            for k in ("existing_tests_pass", "existing_tests_cmd", "existing_tests_wall_s"):
                if k in pv:
                    res[k] = pv[k]
            res["existing_tests_validated_at_repo_head"] = pv.get("existing_tests_validated_at_repo_head", pv.get("validated_at_repo_head"))
        res["checks"] = {}
        for cid in [c for c in a.checks.split(",") if c]:
            env = dict(ENV, VERIF_REPO=mut)
            t0 = time.time()
            p = subprocess.run([os.path.join(V, "check"), cid], cwd=V, env=env, stdout=subprocess.PIPE, stderr=subprocess.STDOUT, text=True)
            sigs = [l.strip()[len("signature: "):] for l in p.stdout.split("\n") if l.strip().startswith("signature: ")]
            verdict = {0: "held (MISSED)", 1: "violated (CAUGHT)", 2: "inconclusive"}.get(p.returncode, f"rc={p.returncode}")
            res["checks"][cid] = {"verdict": verdict, "distinct_signatures": len(sigs), "example_signatures": sigs[:3], "wall_s": round(time.time() - t0)}
            print(cid, verdict, len(sigs), "signatures", sigs[:2])
        print(json.dumps(res, indent=1))
        if a.keep:
            dst = os.path.join(V, "seeded", a.keep)
            if os.path.realpath(dst) != os.path.realpath(src):
                shutil.rmtree(dst, ignore_errors=True)
                os.makedirs(dst)
                for f in glob.glob(os.path.join(src, "*")):
                    if os.path.isdir(f):
                        shutil.copytree(f, os.path.join(dst, os.path.basename(f)))
                    else:
                        shutil.copy(f, dst)
            meta.pop("validation", None)
            meta["validation"] = res
            json.dump(meta, open(os.path.join(dst, "meta.json"), "w"), indent=1)
    finally:
        import hashlib
        shutil.rmtree(os.path.join(V, ".build", "scratch-" + hashlib.md5(os.path.realpath(os.path.join(tmp, "mut")).encode()).hexdigest()[:10]), ignore_errors=True)
        shutil.rmtree(tmp, ignore_errors=True)
    return 0


if __name__ == "__main__":
    sys.exit(main())
