#!/bin/sh
# tools/mutant.sh <patch.diff> <ID> [check args...]
# Applies a patch to a scratch copy of /repo (outside /repo and /verif), runs the
# check of one property against it and removes the copy.  Evidence and replay
# files of scratch runs go to .build/, never to evidence/ or replays/.
set -e
patch=$(readlink -f "$1"); id=$2; shift 2
d=$(mktemp -d /tmp/verif-mut-XXXXXX)
trap 'rm -rf "$d"' EXIT
rsync -a --exclude .git /repo/ "$d/repo/"
(cd "$d/repo" && patch -p1 -s < "$patch")
cd "$(dirname "$0")/.."
VERIF_REPO="$d/repo" ./check "$id" "$@" || true
