#!/usr/bin/env python3
"""Lists open known findings that were not observed in any of the quick runs at the given seeds."""
import json,subprocess,sys,re,os,collections
V=os.path.dirname(os.path.dirname(os.path.abspath(__file__)))
seeds=[1,2,3,7,42]
ids=sys.argv[1:] or sorted({json.loads(l)['property'] for l in open(V+'/known_findings.jsonl') if l.strip() and not l.startswith('#') and json.loads(l)['status']=='open'})
for pid in ids:
    obs=collections.Counter()
    for s in seeds:
        p=subprocess.run([V+'/check',pid,'--seed',str(s)],cwd=V,capture_output=True,text=True)
        for l in p.stdout.split('\n'):
            m=re.match(r'KNOWN-FINDING: property=\S+ (.*?) -- .*\(observed (\d+)x in this run\)$',l)
            if m: obs[m.group(1)]+=int(m.group(2))
    zero=[k for k,v in obs.items() if v==0]
    print(pid,'open:',len(obs),'never observed at quick seeds',seeds,':',len(zero))
    for k in zero: print('   ',k)
