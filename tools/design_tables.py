#!/usr/bin/env python3
"""Regenerates the generated tables of DESIGN.md (between the markers
<!-- BEGIN:<name> --> and <!-- END:<name> -->): fixed/open findings per property and
the seeded-change table (which check catches which independently written change)."""
import json, os, glob, re, collections
def esc(x): return str(x).replace('|','\\|')
V=os.path.dirname(os.path.dirname(os.path.abspath(__file__)))
known=[json.loads(l) for l in open(V+'/known_findings.jsonl') if l.strip() and not l.startswith('#')]
fixed=[e for e in known if e['status']=='fixed']; opn=[e for e in known if e['status']=='open']
out=[]
out.append('| property | repaired (`fix:` commits) | open findings (signatures) |\n|---|---|---|')
props=sorted({e['property'] for e in known})
for p in props:
    f=[e for e in fixed if e['property']==p]; o=[e for e in opn if e['property']==p]
    out.append(f"| {p} | {len(f)} | {len(o)} |")
t1='\n'.join(out)
out=['| commit | property | what failed |\n|---|---|---|']
for e in fixed: out.append(f"| {e['commit']} | {e['property']} | {esc(e['what'][:220])} |")
t2='\n'.join(out)
# open findings grouped by root cause text
out=['| property | signatures | what fails (first entry of the group) |\n|---|---|---|']
grp=collections.OrderedDict()
for e in opn:
    k=(e['property'],e['what'][:90])
    grp.setdefault(k,[]).append(e)
for (p,_),es in grp.items():
    out.append(f"| {p} | {len(es)} | `{es[0]['signature']}` — {esc(es[0]['what'][:260])} |")
t3='\n'.join(out)
out=['| seeded change | property | what it does | needs | verdict of the checks run against it |\n|---|---|---|---|---|']
for d in sorted(glob.glob(V+'/seeded/*/meta.json')):
    m=json.load(open(d)); name=os.path.basename(os.path.dirname(d))
    v=m.get('validation',{})
    ch='; '.join(f"{k}: {x['verdict']}" for k,x in v.get('checks',{}).items())
    for k,x in m.get('later_checks',{}).items(): ch+=f"; {k}: {x}"
    out.append(f"| {name} | {m.get('property')} | {esc(str(m.get('summary'))[:200])} | {esc(str(m.get('needs'))[:160])} | {ch} |")
t4='\n'.join(out)
p=V+'/DESIGN.md'; s=open(p).read()
for name,t in [('findings-summary',t1),('fixed-list',t2),('open-list',t3),('seeded-table',t4)]:
    b=f'<!-- BEGIN:{name} -->'; e=f'<!-- END:{name} -->'
    if b in s:
        s=re.sub(re.escape(b)+'.*?'+re.escape(e), lambda m_: b+'\n'+t+'\n'+e, s, flags=re.S)
    else:
        print('marker missing',name)
open(p,'w').write(s)
print('tables regenerated')
