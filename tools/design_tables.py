#!/usr/bin/env python3
"""Regenerates the generated tables of DESIGN.md (between the markers
<!-- BEGIN:<name> --> and <!-- END:<name> -->): fixed/open findings per property and
the seeded-change table (which check catches which independently written change)."""
import json, os, glob, re, collections
def esc(x): return str(x).replace('|','\\|')
V=os.path.dirname(os.path.dirname(os.path.abspath(__file__)))
known=[json.loads(l) for l in open(V+'/known_findings.jsonl') if l.strip() and not l.startswith('#')]
fixed=[e for e in known if e['status']=='fixed']; opn=[e for e in known if e['status']=='open']
out=[]
out.append('| property | repaired (`fix:` commits) | open findings (signatures) |\n|---|---|---|')
props=sorted({e['property'] for e in known})
for p in props:
    f=[e for e in fixed if e['property']==p]; o=[e for e in opn if e['property']==p]
    out.append(f"| {p} | {len(f)} | {len(o)} |")
t1='\n'.join(out)
out=['| commit | property | what failed |\n|---|---|---|']
for e in fixed: out.append(f"| {e['commit']} | {e['property']} | {esc(e['what'][:220])} |")
t2='\n'.join(out)
# open findings grouped by root cause text
out=['| property | signatures | what fails (first entry of the group) |\n|---|---|---|']
grp=collections.OrderedDict()
for e in opn:
    k=(e['property'],e['what'][:90])
    grp.setdefault(k,[]).append(e)
for (p,_),es in grp.items():
    out.append(f"| {p} | {len(es)} | `{es[0]['signature']}` — {esc(es[0]['what'][:260])} |")
t3='\n'.join(out)
out=['| seeded change | round | what it does | needs | verdict of the checks run against it | first missed by, strengthened |\n|---|---|---|---|---|---|']
tot={};caught={}
for d in sorted(glob.glob(V+'/seeded/*/meta.json'), key=lambda x:(os.path.basename(os.path.dirname(x)).split('-')[0], int(os.path.basename(os.path.dirname(x)).split('-')[1]))):
    m=json.load(open(d)); name=os.path.basename(os.path.dirname(d))
    k=int(name.split('-')[1]); rnd=(k-1)//3+1
    v=m.get('validation',{})
    ch='; '.join(f"{k}: {x['verdict']}" for k,x in v.get('checks',{}).items())
    for k,x in m.get('later_checks',{}).items(): ch+=f"; {k}: {x}"
    tot[rnd]=tot.get(rnd,0)+1
    if 'CAUGHT' in ch: caught[rnd]=caught.get(rnd,0)+1
    out.append(f"| {name} | {rnd} | {esc(str(m.get('summary'))[:200])} | {esc(str(m.get('needs'))[:160])} | {ch} | {esc(str(m.get('first_missed','')))} |")
out.append('')
out.append('Caught by at least one check on the final machinery: '+', '.join(f"round {r}: {caught.get(r,0)}/{tot[r]}" for r in sorted(tot)))
t4='\n'.join(out)
p=V+'/DESIGN.md'; s=open(p).read()
for name,t in [('findings-summary',t1),('fixed-list',t2),('open-list',t3),('seeded-table',t4)]:
    b=f'<!-- BEGIN:{name} -->'; e=f'<!-- END:{name} -->'
    if b in s:
        s=re.sub(re.escape(b)+'.*?'+re.escape(e), lambda m_: b+'\n'+t+'\n'+e, s, flags=re.S)
    else:
        print('marker missing',name)
open(p,'w').write(s)
print('tables regenerated')
