#!/bin/sh
# tools/validate_round.sh <outdir prefix e.g. /tmp/seedout2-> <offset e.g. 3> <ID> [extra checks]
# Validates the three changes of one sub-agent round (suite of the touched packages included) and stores them as <ID>-<k+offset>.
cd "$(dirname "$0")/.."
pre=$1; off=$2; id=$3; extra=$4
mkdir -p .build/reval
for k in 1 2 3; do
  n=$((k+off))
  [ -f "$pre$id/$k/patch.diff" ] || { echo "$id-$n: no patch"; continue; }
  python3 tools/seeded.py validate "$pre$id/$k" --checks "$id${extra:+,$extra}" --keep "$id-$n" > ".build/reval/$id-$n.log" 2>&1
  echo "$id-$n: $(grep -E "^C[0-9]+ " .build/reval/$id-$n.log | tr '\n' ';') $(grep -E 'TESTS FAIL|DOES NOT|DEMO (FAILS|PASSES)' .build/reval/$id-$n.log | head -2)"
done
