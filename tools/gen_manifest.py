#!/usr/bin/env python3-vt
"""Regenerates MANIFEST.json from driver/props.py (claimed checks) and
driver/manifest_meta.py (level texts, not_applicable reasons)."""
import json, os, subprocess, sys
V = os.path.dirname(os.path.dirname(os.path.abspath(__file__)))
sys.path.insert(0, os.path.join(V, "driver"))
from props import PROPS, META
from manifest_meta import NOT_APPLICABLE, HOOK_COMMITS
all_ids = [json.loads(l)["id"] for l in open(os.path.join(V, "properties.jsonl"))]
checks = []
claimed = [l.strip() for l in open(os.path.join(V, "driver", "claimed.txt")) if l.strip() and not l.startswith("#")]
for pid in all_ids:
    if pid not in PROPS or pid not in META or pid not in claimed:
        continue
    m = META[pid]
    checks.append({
        "property_id": pid,
        "quick_cmd": f"./check {pid} --tier quick",
        "thorough_cmd": f"./check {pid} --tier thorough",
        "evidence_file": f"/verif/evidence/{pid}.json",
        "replay_cmd_template": f"./check {pid} --replay {{path}}",
        "engine": "vworker+driver",
        "level_claimed": {"category": "exploration", "text": m["text"], "design_ref": m["design_ref"]},
        "level_note": m["note"],
        "technique": m["technique"],
    })
na = [{"property_id": pid, "reason": NOT_APPLICABLE.get(pid, "monitor designed (DESIGN.md section 3) but not built yet; not claimed")}
      for pid in all_ids if pid not in [c["property_id"] for c in checks]]
man = {
    "version": 1,
    "setup_cmd": "./setup.sh",
    "hooks": {
        "guard": "verif",
        "enable": "go build -tags verif (package github.com/pbenner/autodiff/verifhook: Tick/Yield/Event/Count forward to function variables set by the worker; empty inlinable functions without the tag)",
        "baseline_off_cmd": "/verif/tools/baseline_off.sh",
        "source_commits": HOOK_COMMITS,
        "add_only": True,
    },
    "engines": [
        {"name": "vworker+driver", "path": "/verif/harness/cmd/vworker, /verif/driver/run.py",
         "serves_properties": [c["property_id"] for c in checks],
         "kind_free_text": "Go worker processes drive the real library (built from /repo's working tree with -tags verif) through seeded case lists and run in-process monitors (reference models, differentials, defining equations); a Python driver shards, watches, runs offline oracles (mpmath/numpy), matches known findings and writes evidence"},
    ],
    "checks": checks,
    "not_applicable": na,
    "notes": "Runtime monitoring only: verdicts are 'held on the executions observed'. Exit 0 held, 1 violated (VIOLATION line), 2 inconclusive (INCONCLUSIVE line; coverage below the stated minimum or a lost worker). Known findings: /verif/known_findings.jsonl.",
}
json.dump(man, open(os.path.join(V, "MANIFEST.json"), "w"), indent=1)
import jsonschema
jsonschema.validate(man, json.load(open("/root/.vp/MANIFEST.schema.json")))
print("MANIFEST.json written:", len(checks), "checks,", len(na), "not claimed")
