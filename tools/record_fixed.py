#!/usr/bin/env python3
"""tools/record_fixed.py 'subject-substring=CNN' ... : appends `fixed` entries to known_findings.jsonl for fix: commits of /repo not recorded yet."""
import json,subprocess,sys,os
V=os.path.dirname(os.path.dirname(os.path.abspath(__file__)))
attr=dict(a.rsplit('=',1) for a in sys.argv[1:])
known=[json.loads(l) for l in open(V+'/known_findings.jsonl') if l.strip() and not l.startswith('#')]
have={e.get('commit') for e in known if e['status']=='fixed'}
log=subprocess.run(['git','-C','/repo','log','--format=%h\t%s','64329c4..HEAD'],capture_output=True,text=True).stdout.strip().split('\n')
with open(V+'/known_findings.jsonl','a') as f:
    for line in reversed(log):
        h,s=line.split('\t',1)
        if not s.startswith('fix:') or h in have: continue
        prop=[p for k,p in attr.items() if k in s]
        if not prop: print('UNATTRIBUTED',h,s); continue
        what=s[5:]
        f.write(json.dumps({"status":"fixed","property":prop[0],"commit":h,"what":what,"line":f"fixed: property={prop[0]} {h} {what}"})+'\n')
        print('recorded',prop[0],h)
