#!/bin/sh
# Re-validates every stored seeded change against the current /repo head (patch applies, demo passes/fails,
# verdict of the property's own check and of the cross-checks recorded before; the existing-suite verdict is
# carried over from the validation that ran it unless FULL=1).
# usage: tools/revalidate_all.sh [parallelism] [ids...]
cd "$(dirname "$0")/.."
P=${1:-3}; shift 2>/dev/null
IDS="$*"; [ -z "$IDS" ] && IDS=$(ls seeded)
SKIP="--skip-suite"; [ -n "$FULL" ] && SKIP=""
mkdir -p .build/reval
for id in $IDS; do
  own=${id%%-*}
  extra=$(python3 -c "import json;d=json.load(open('seeded/$id/meta.json'));print(','.join(sorted(set(d.get('validation',{}).get('checks',{}))-{'$own'})))")
  echo "$id $own${extra:+,$extra} $SKIP"
done | xargs -P "$P" -L 1 sh -c 'python3 tools/seeded.py validate seeded/$0 --checks $1 $2 --keep $0 > .build/reval/$0.log 2>&1; echo "$0 done: $(grep -E "^C[0-9]+ " .build/reval/$0.log | cut -c1-34 | tr "\n" ";") $(grep -E "TESTS FAIL|DOES NOT|DEMO (FAILS|PASSES)" .build/reval/$0.log | head -2)"'
