#!/bin/sh
# Runs the repository's own test suite with the `verif' build tag OFF and
# compares the set of passing tests with BASELINE.json (stable_pass).
export GOFLAGS=-mod=mod GOPROXY=off GOSUMDB=off GOTOOLCHAIN=local
out=$(mktemp /tmp/verif-baseline-XXXXXX.json)
trap 'rm -f "$out"' EXIT
(cd /repo && go test -json -vet=off -count=1 -timeout 25m ./... > "$out" 2>/dev/null)
python3 - "$out" <<'PY'
import json, sys
passed = set()
for line in open(sys.argv[1]):
    try:
        e = json.loads(line)
    except Exception:
        continue
    if e.get("Action") == "pass" and e.get("Test"):
        passed.add(e["Package"] + "::" + e["Test"])
try:
    base = json.load(open("/root/.vp/BASELINE.json"))["stable_pass"]
except Exception:
    base = []
missing = [t for t in base if t not in passed]
print(f"passed={len(passed)} baseline={len(base)} missing={len(missing)}")
for t in missing[:20]:
    print("MISSING", t)
sys.exit(1 if missing else 0)
PY
