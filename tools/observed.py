#!/usr/bin/env python3
"""tools/observed.py [--seeds "1 2 3"] [--thorough] ID... : runs the checks and writes .build/observed-<ID>.json:
{signature: total observed count} for every open known finding, plus the unlisted signatures seen."""
import json,subprocess,sys,re,os,collections,argparse
V=os.path.dirname(os.path.dirname(os.path.abspath(__file__)))
ap=argparse.ArgumentParser(); ap.add_argument('--seeds',default='1 2 3'); ap.add_argument('--thorough',action='store_true'); ap.add_argument('ids',nargs='+')
a=ap.parse_args()
for pid in a.ids:
    obs=collections.Counter(); unl=collections.Counter(); res=[]
    runs=[('quick',s) for s in a.seeds.split()]+([('thorough','1')] if a.thorough else [])
    for tier,s in runs:
        p=subprocess.run([V+'/check',pid,'--seed',s,'--tier',tier],cwd=V,capture_output=True,text=True)
        for l in p.stdout.split('\n'):
            m=re.match(r'KNOWN-FINDING: property=\S+ (.*?) -- .*\(observed (\d+)x in this run\)$',l)
            if m: obs[m.group(1)]+=int(m.group(2))
            m=re.match(r'\s+signature: (.*)$',l)
            if m: unl[m.group(1)+' @'+tier+'/'+s]+=1
            if l.startswith('RESULT') or l.startswith('INCONCLUSIVE'): res.append(l[:200])
    json.dump({'observed':obs,'unlisted':unl,'results':res},open(V+'/.build/observed-%s.json'%pid,'w'),indent=1)
    print(pid,'open',len(obs),'unobserved',sum(1 for v in obs.values() if v==0),'unlisted',len(unl)); sys.stdout.flush()
    for r in res: print('   ',r)
