#!/usr/bin/env python3
"""tools/merge_findings.py CNN [--seeds 1,2,3]
Runs ./check CNN --propose at the given seeds against the current tree, intersects the
unlisted signatures with the builder's candidate file findings/cNN.jsonl (keeping its
descriptions) and appends those to known_findings.jsonl.  Signatures that fire but are
not in the candidate file are printed as UNEXPLAINED (triage them by hand)."""
import json, os, subprocess, sys
V=os.path.dirname(os.path.dirname(os.path.abspath(__file__)))
pid=sys.argv[1]
seeds=[1,2,3]
if '--seeds' in sys.argv: seeds=[int(x) for x in sys.argv[sys.argv.index('--seeds')+1].split(',')]
cand={}
fp=os.path.join(V,'findings',pid.lower()+'.jsonl')
if os.path.exists(fp):
    for l in open(fp):
        if l.strip() and not l.startswith('#'):
            e=json.loads(l); cand[e['signature']]=e
firing={}
for s in seeds:
    p=subprocess.run([os.path.join(V,'check'),pid,'--propose','--seed',str(s)],cwd=V,capture_output=True,text=True)
    for l in p.stdout.split('\n'):
        if l.startswith('{"status"'):
            e=json.loads(l); firing.setdefault(e['signature'],e)
known={json.loads(l)['signature'] for l in open(os.path.join(V,'known_findings.jsonl')) if l.strip() and not l.startswith('#') and json.loads(l).get('status')=='open'}
add=[];unexpl=[]
for sig,e in sorted(firing.items()):
    if sig in known: continue
    if sig in cand: add.append(cand[sig])
    else: unexpl.append(e)
gone=[s for s in cand if s not in firing and s not in known]
with open(os.path.join(V,'known_findings.jsonl'),'a') as f:
    for e in add: f.write(json.dumps(e)+'\n')
print(pid,'added',len(add),'open findings; candidates no longer firing:',len(gone),'; UNEXPLAINED:',len(unexpl))
for e in unexpl: print('  UNEXPLAINED',e['signature'],'::',e['what'][:120])
for s in gone: print('  gone',s)
