#!/bin/sh
# tools/sweep.sh "<seeds>" [ids...] : runs the quick tier of every (given) check at the given seeds and prints one line per run
cd "$(dirname "$0")/.."
seeds=${1:-"1 2 3 7 42"}; shift
ids=${@:-$(grep -v '^#' driver/claimed.txt)}
for id in $ids; do for s in $seeds; do
  r=$(./check $id --seed $s 2>&1 | grep -E "^RESULT|^INCONCLUSIVE" | tr '\n' ' ' | cut -c1-260)
  echo "$id seed=$s :: $r"
done; done
