HOOK_COMMITS = ["9d19645"]

NOT_APPLICABLE = {}

META = {
    "C19": {
        "text": "Lock-step set model plus structural invariant walker over every operation of ~7.7k (quick) / ~450k (thorough) random histories and the "
                "exhaustive enumeration of all short histories over a 4-key universe with a live iterator; held on the histories executed, which the "
                "evidence lists by operation, rotation/delete case (Count hook) and distinct tree shapes. Not a proof: longer histories and larger trees are sampled only.",
        "design_ref": "DESIGN.md section 3, C19",
        "note": "Trusted: the Go map model and the invariant walker in harness/c19; the successor semantics of live iterators stated in DESIGN.md.",
        "technique": "runtime monitoring: lock-step reference model (set) + invariant hook walk after every operation; Count-hook coverage",
    },
}
