HOOK_COMMITS = ["9d19645"]

# properties deliberately not claimed, with the reason
NOT_APPLICABLE = {}
