HOOK_COMMITS = ["9d19645", "6f04d2b", "8d9bf84"]

# properties deliberately not claimed, with the reason
NOT_APPLICABLE = {}
