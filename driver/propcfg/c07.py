# configuration of the C07 check (driver) and its MANIFEST entry

CFG = {
 'rule': 'one case = one call of one routine (bfgs.Run, newton.RunRoot/RunCrit/RunMin, rprop.Run/RunGradient, gradientDescent.Run, adam.Run/RunGradient, '
         'saga.Run with the four objective signatures, lineSearch.Run, blahut.Run/RunNaive) on a seeded member of a parametrised objective family with '
         'closed-form value/gradient/Hessian/minimiser (SPD quadratics n=1..6 kappa<=1e4, separable cosh and quartic, chained Rosenbrock, ridge logistic loss, '
         'polynomial systems with planted simple/double roots, 1-D line functions, finite-sum least squares / logistic problems, random row-stochastic channels), '
         'random start in a box, random epsilon / step / eta / Hessian options, box or half-space constraints in ~45% of the runs, explicit iteration cap. '
         'non-trivial = the routine evaluated the objective at more than the start point; distinct by hash of objective parameters + start + options',
 'tolerances': {
   'stopping rule re-evaluation': 'q_ref < epsilon*(1+1e-6) + 64*2^-53*S, S = norm of the per-component sums of |terms| the closed form accumulates (condition-scaled rounding allowance, DESIGN 2.4)',
   'distance on SPD quadratics': '|x*-c| <= (epsilon*(1+1e-6) + 64*2^-53*S)/lambda_min, lambda_min = planted smallest eigenvalue - 1e-10*lambda_max',
   'hook consistency': '|value_lib - value_ref| <= 64*2^-53*S per value / gradient component / Jacobian / Hessian entry',
   'strong Wolfe': 'c1=1e-4, c2=0.9, both inequalities with the allowance 64*2^-53*S of the two closed-form evaluations; judged only when fewer than MaxEval evaluations (incl. alpha=0) were used',
   'saga': 'max|x-xs|/max|x| <= epsilon*gamma*(1+1e-12) over all coordinates, xs observed at the first evaluation of the last epoch',
   'blahut': 'lambda=1, p0>0: C_ref - I(p_T) <= -log(min p0)/T + 1e-10 with C_ref the lower end of a 1e-12-tight capacity bracket from an independent reference iteration; '
             'I(p_t)-1e-12 <= J_t <= I(p_t+1)+1e-12 for hook values; returned vector sums to 1 within 1e-12 and has no negative/NaN entry',
   'constraints': 'exact: the same predicate that was handed to the routine',
 },
 'assumptions': [
   'stopping rules read from the sources: |grad|<eps (bfgs, newton crit/min, rprop, gradientDescent, adam), |F|<eps (newton root), saga.EvalStopping, strong Wolfe (lineSearch), Arimoto bound (blahut)',
   'iteration caps are passed explicitly; the number of iterations taken is read from the Tick hook of the main loop; a run whose count equals the cap is not judged',
   'a panic or an error return is a loud failure and is not judged by C07 (counted in outcome:*)',
   'SAGA: only the stopping rule is judged (no distance bound follows from a relative-step criterion of a stochastic method)',
 ],
 'min_cov': {},
}

META = {
 'design_ref': 'DESIGN.md section 3, C07',
 'technique': 'runtime monitoring: hooked optimisation traces + re-evaluation of the stopping rule with closed-form references',
 'text': 'Each optimiser / root finder is run on thousands of seeded members of objective families whose value, gradient, Hessian and minimiser are known in closed form '
         '(computed without the library\'s AD). When a run ends without error, hook stop or iteration cap the monitor re-evaluates the routine\'s own stopping rule at the '
         'returned point (condition-scaled rounding allowance only), the distance to the minimiser on SPD quadratics, user constraints at the returned point and at every '
         'iterate handed to the hook, and that values/gradients handed to hooks are f and grad f at the x handed with them. Held on the runs executed; coverage per routine, '
         'family, option and outcome is in the evidence.',
 'note': 'Trusted: the closed-form families in harness/c07/families.go, Go math, the Tick hook counts.',
}
