# configuration of the C18 check (driver) and its MANIFEST entry

# minimum coverage counters: half of the smallest value seen on the unchanged tree at seeds 1,2,3,7,42 (quick tier)
MIN_COV = {}

CFG = {
 'rule': 'ROUND TRIPS: (json.scalar) every mutable scalar type x value class {+-0, smallest/random subnormal, smallest normal, +-max, random bit pattern, '
         'long decimal, integer at 2^24/2^31/2^53/2^63 boundaries, power of ten; integers: 0, +-1, min, max, min+1, max-1, full-range random, beyond 2^53} '
         'x derivative class {none, allocated-zero, gradient, gradient+Hessian, zero gradient+Hessian, gradient+zero Hessian} x fresh/dirty target; '
         '(json.scalar-const) the seven constant scalar types, MarshalJSON executed in a child process (an unbounded recursion cannot be recovered in-process); '
         '(json.vector, json.matrix, table.vector, table.matrix) every element type x dense/sparse(/sparse-const) x view {full, slice, slice of slice, '
         'row/col/diag of a matrix, row of a transposed/sliced matrix, appended; matrices: full, slice, T, slice.T, T.slice, slice.slice, T.T, slice.T.slice, '
         'vector.AsMatrix} x fresh/dirty target x plain/gzip; (config.dist) every distribution family of statistics/{scalar,vector,matrix}Distribution '
         '(42 families incl. mixtures of wrapped distributions, HMM / constrained / hierarchical / shape HMMs with state maps, start and final states, '
         'trees of depth 1 and 2) ExportConfig -> WriteJson -> ReadJson -> Import{Scalar,Vector,Matrix}PdfConfig (ImportConfig on a zero value for the '
         'families that are in no registry), Float64 and Real64 parameters. The decoded object is compared with the snapshot of the source taken through '
         'the public read API: dimensions, every element value (bit-exact for dense storage, == for sparse storage which cannot carry -0), derivative '
         'slots where the format carries them (dense Real JSON; missing slots read as 0, N/Order not compared), the set of non-zero positions visited by '
         'the iterator (sparse); distributions: type, GetParameters, LogPdf at two probe points inside the support. A failing case is re-run from a compact '
         'copy / into a fresh target / uncompressed to find the smallest configuration that reproduces it (this is the configuration named in the '
         'signature). MALFORMED INPUT: (malformed.json, malformed.table, malformed.config; thorough also malformed.bytes) one textual mutation (truncate, '
         'delete / duplicate / swap / replace a token or field or line, flip or insert a byte, empty, gzip damage) or one structural mutation (index >= '
         'length, negative or duplicate index, length / shape mismatch, negative or zero dimensions, wrong field type, dropped field, null element, ragged '
         'or mis-sized Hessian, ragged table, missing header, whitespace-only line; configurations: too few / null / mistyped parameters, dropped or '
         'mistyped named fields, inconsistent N, state out of range, too few / too many / misnamed nested distributions, unknown or foreign name) of a valid '
         'serialisation with dimensions <= 10; the mutated document is classified by an independent reading of the format (the class goes into the '
         'signature), the decoder must return an error or an object on which every in-range read, a full iteration, String() and re-encoding succeed with '
         'non-negative consistent dimensions (distributions: GetParameters, ExportConfig, LogPdf at the probes). non-trivial = round trip of an object with '
         '>= 1 non-zero element (distinct by type, view, configuration and content) or a mutated document that the independent reading classifies as '
         'defective (distinct by decoder and document)',
 'tolerances': 'containers and scalars: exact (bit pattern of the float64/float32 value, == for integers and derivative slots). distributions whose '
               'parameters are stored as given: exact. distributions that keep parameters on a transformed scale (categorical, mixtures, HMMs: log '
               'probabilities, renormalised on import): |dp| <= 8*(n+2)*2^-52*(1+|p|), n = size of the normalised group (what exp, log and a log-sum '
               'over n terms lose); constrained HMMs: |dp| <= 1e-8*(1+|p|), the stopping residual of the Newton normalisation in '
               'generic/constrainedHmm.go; LogPdf of these families: 4*(L+1)*max parameter tolerance + 16*2^-52*|f|, L = probe length; -Inf and NaN '
               'must match exactly',
 'assumptions': ['finite values only (encoding/json rejects NaN and +-Inf); distributions whose GetParameters contains NaN are skipped and counted',
                 'views whose construction or whose read through ConstAt panics are skipped and counted (C10 decides those)',
                 'a whitespace table cannot carry the shape of an r x 0 or 0 x c matrix: table round trips use shapes >= 1 x 1 (JSON round trips include empty shapes)',
                 'the source snapshot of constant sparse vectors is taken through Int64At/Float64At (ConstAt of the integer instantiations answers with a ConstFloat64)'],
 'min_cov': MIN_COV,
}

META = {'design_ref': 'DESIGN.md section 3, C18',
 'technique': 'runtime monitoring: differential round-trip oracle on observable-state snapshots (exact policy) + mutation-based hostile inputs judged by an '
              'independent classifier of the document and a consistency walk over the decoded object',
 'note': 'Trusted: encoding/json, compress/gzip and strconv of the Go standard library (used by the independent classifier), the snapshot reader in '
         'harness/internal/snap, the catalogue of distribution generators in harness/c18/distcat. Known findings of this property are listed per decoder x '
         'defect class; the witness of each is re-executed by every run.',
 'text': 'Every scalar, vector and matrix type (all nine element types, constant scalars, dense / sparse / sparse-const storage, slices, transposes and '
         'nested views) is written as JSON and as a table file (plain and gzip) and read back, every distribution family is sent through ExportConfig -> '
         'JSON -> Import; the result is compared exactly with the source (values incl. -0, subnormals, extreme magnitudes and integers at the type bounds, '
         'derivative slots, dimensions, non-zero pattern, parameters, LogPdf). About 200k (quick) / 3M (thorough) mutated serialisations are fed to every '
         'decoder; a decoder must answer with an error or a consistent object. Held on the executions observed, which the evidence lists per type, view, '
         'value class, mutation class and decoder outcome; not a proof: shapes are small (<= 16 elements per axis) and one mutation is applied per document.'}
