# configuration of the C18 check (driver) and its MANIFEST entry

CFG = {
 'rule': 'wip',
 'min_cov': {},
}

META = {'design_ref': 'DESIGN.md section 3, C18', 'note': 'wip', 'technique': 'runtime monitoring', 'text': 'wip'}
