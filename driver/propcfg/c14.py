# configuration of the C14 check (driver) and its MANIFEST entry
import importlib

def _tol():
    try:
        return importlib.import_module("oracles.c14").TOLERANCES
    except Exception as e:  # noqa
        return "see driver/oracles/c14.py (%s)" % e

CFG = {
    'oracle': 'c14',
    'rule': 'placeholder',
    'tolerances': _tol(),
    'assumptions': [],
    'min_cov': {},
}

META = {'design_ref': 'DESIGN.md section 3, C14', 'note': '', 'technique': '', 'text': ''}
