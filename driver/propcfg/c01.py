# configuration of the C01 check (driver) and its MANIFEST entry
CFG = {
    "oracle": "c01",
    "rule": "placeholder",
    "min_cov": {},
    "tolerances": {},
    "assumptions": [],
}
META = {
    "design_ref": "DESIGN.md section 3, C01",
    "technique": "runtime monitoring: event log + offline checker (independent mpmath jets, local + global, error-bound tracking)",
    "text": "placeholder",
    "note": "placeholder",
}
