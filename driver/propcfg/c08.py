# configuration of the C08 check (driver) and its MANIFEST entry

_ELEM = ['Int8', 'Int16', 'Int32', 'Int64', 'Int', 'Float32', 'Float64', 'Real32', 'Real64']

_min = {
    # enumerated (type x operation [generic and concrete] x alias pattern [x derivative orders]) combinations: every one is a directed case
    'max:scalar-combos': 2291, 'max:vector-combos': 1890, 'max:matrix-combos': 1755,
    # explicit rejections by the API were observed (counted, not judged)
    'alias-rejected-by-api:vector:MdotV': 300, 'alias-rejected-by-api:vector:VdotM': 300,
    'alias-rejected-by-api:vector:MDOTV': 150, 'alias-rejected-by-api:vector:VDOTM': 150,
}
for _t in _ELEM:
    _min['judged:scalar:' + _t] = 5000
    for _s in ('dense', 'sparse'):
        _min['judged:vector:%s/%s' % (_t, _s)] = 2500
    _min['judged:matrix:%s/dense' % _t] = 3500
    _min['judged:matrix:%s/sparse' % _t] = 1500
for _p, _n in {'r=a': 40000, 'r=b': 20000, 'r=a=b': 20000, 'r=a=t': 600, 't=a': 5000, 't=b': 5000, 't=r': 5000, 't0=t1': 2500, 't0=t2': 1200,
               't1=t2': 1200, 't0=r': 2500, 't1=r': 2500, 't2=r': 1200}.items():
    _min['scalar-alias:' + _p] = _n
for _p, _n in {'r=a': 8000, 'r=b': 4500, 'r=a=b': 4000, 'overlap-a:lag': 8000, 'overlap-a:lead': 8000, 'overlap-b:lag': 4500, 'overlap-b:lead': 4500,
               's=r[i]': 4000, 'r=a,s=r[i]': 4000}.items():
    _min['vector-alias:' + _p] = _n
for _p, _n in {'r=a': 7000, 'r=b': 4000, 'r=a=b': 4000, 'a=r.T': 7000, 'b=r.T': 4000, 'overlap-a:lag': 7000, 'overlap-a:lead': 7000,
               'overlap-b:lag': 4000, 'overlap-b:lead': 4000, 's=r[i,j]': 3000}.items():
    _min['matrix-alias:' + _p] = _n
# MdotM / MDOTM with BOTH factors aliasing the receiver in different ways (monitors matrix.double.*)
_min['max:matrix-double-alias-combos'] = 108
for _p in ('a=r.T,b=r', 'a=r,b=r.T', 'a=view(r),b=r', 'a=r,b=view(r)'):
    _min['matrix-alias:' + _p] = 3500
# receiver histories (monitors *.history.*): Real cases whose aliased operand object / container elements went through 2-4 earlier
# assignments of changing derivative order before the aliased call
_min.update({'max:scalar-history-combos': 1302, 'max:vector-history-combos': 420, 'max:matrix-history-combos': 414,
             'history-applied:scalar': 40000, 'history-cases:vector': 12000, 'history-cases:matrix': 12000})
# MdotV / VdotM with a non-square matrix: result and vector operand of different length, slices of one parent placed anywhere
_min.update({'max:vector-nonsquare-combos': 54, 'vector-alias:overlap-b:any': 10000, 'vector-alias:overlap-a:any': 10000,
             'nonsquare-placement:disjoint': 2000, 'nonsquare-placement:overlap,other': 12000,
             'nonsquare-placement:overlap,shorter-starts-at-offset>=its-length': 7000})
# the reallocation path: receiver = operand of lower derivative order than another operand
_min.update({'scalar-recv-lower-order:r=a': 4000, 'scalar-recv-lower-order:r=b': 4000, 'scalar-recv-lower-order:t=a': 2500,
             'scalar-recv-lower-order:t=b': 2500, 'scalar-recv-lower-order:t=r': 2500})
for _op in ['Abs', 'Neg', 'Sqrt', 'Sin', 'Sinh', 'Cos', 'Cosh', 'Tan', 'Tanh', 'Exp', 'Log', 'Log1p', 'Log1pExp', 'Logistic', 'Erf', 'Erfc',
            'LogErfc', 'Gamma', 'Lgamma', 'Mlgamma', 'GammaP', 'BesselI', 'ABS', 'NEG', 'SQRT', 'EXP', 'LOG', 'LOG1P']:
    _min['scalar-op:' + _op] = 600
for _op in ['Min', 'Max', 'Add', 'Sub', 'Mul', 'Div', 'Pow', 'MIN', 'MAX', 'ADD', 'SUB', 'MUL', 'DIV', 'POW', 'SmoothMax']:
    _min['scalar-op:' + _op] = 3500
for _op in ['LogAdd', 'LogSub', 'LOGADD', 'LOGSUB', 'LogSmoothMax']:
    _min['scalar-op:' + _op] = 7000
_min['scalar-op:Sigmoid'] = 2500
for _op in ['VaddV', 'VsubV', 'VmulV', 'VdivV', 'VADDV', 'VSUBV', 'VMULV', 'VDIVV']:
    _min['vector-op:' + _op] = 3300
for _op in ['VaddS', 'VsubS', 'VmulS', 'VdivS', 'VADDS', 'VSUBS', 'VMULS', 'VDIVS']:
    _min['vector-op:' + _op] = 2300
_min.update({'vector-op:MdotV': 1400, 'vector-op:VdotM': 1400, 'vector-op:MDOTV': 700, 'vector-op:VDOTM': 700})
for _op in ['MaddM', 'MsubM', 'MmulM', 'MdivM', 'MdotM']:
    _min['matrix-op:' + _op] = 4500
    _min['matrix-op:' + _op.upper()] = 2200
for _op in ['MaddS', 'MsubS', 'MmulS', 'MdivS']:
    _min['matrix-op:' + _op] = 2500
    _min['matrix-op:' + _op.upper()] = 1200

CFG = {
    'rule': 'differential: r.Op(operands) is evaluated with a fresh (zero) receiver and independently built operands (reference) and again with '
            'the objects arranged by an alias pattern; the observable receiver state (value, N, order, every derivative slot; every element '
            'of a container) must be equal. Directed monitors enumerate every combination element type (9) x operation (generic method and, '
            'where it exists, the concrete capital-letter method through reflection) x alias pattern (x derivative orders 0/1/2 of both '
            'operands for Real receivers) with 3-6 operand draws each; random monitors draw combination and operands from the seed. '
            'Scalars: 34 operations (Abs ... BesselI, Min/Max/Add/Sub/Mul/Div/Pow, LogAdd/LogSub/Sigmoid/SmoothMax/LogSmoothMax with '
            'caller-supplied temporaries); patterns r=a, r=b, r=a=b, t=a, t=b, t=r, r=a=t, t[i]=t[j], t[i]=r; operands of other element '
            'types, constant types, orders and N (constant receiver acquiring derivatives; reallocation path). Vectors (dense and sparse): '
            'V{add,sub,mul,div}{V,S}, MdotV, VdotM; patterns r=a, r=b, r=a=b, receiver and operand overlapping slices of one parent (operand '
            'starting before = lag / after = lead), scalar operand = element of the receiver. Matrices (dense and sparse): '
            'M{add,sub,mul,div}{M,S}, MdotM with result = left, = right, = both, operand = transpose view of the receiver, overlapping '
            'slices, scalar operand = element of the receiver; MdotM/MDOTM additionally with both factors aliasing the receiver in '
            'different ways (a = r.T() & b = r, a = r & b = r.T(), a = full-range Slice view of r & b = r, a = r & b = view). Monitors vector.nonsquare.*: MdotV / VdotM (generic and concrete, dense and sparse, all types) with a NON-square matrix, result '
            '(length n) and vector operand (length m != n) slices of one parent of length max(n,m) or one more, every placement for n, m in 1..5 '
            '(overlap anywhere incl. the shorter slice at an offset >= its own length and at the very end, and disjoint placements); an '
            'overlap must be rejected by the API or give the fresh-receiver result. Monitors *.history.*: the Real cases again, but the object that is receiver/temporary and operand at once (for containers: every '
            'stored element of the aliased receiver) first goes through 1-4 library assignments of changing derivative order (2 -> 1 -> 0 -> '
            '2 ..., same and different N) and is restored through the library to the prescribed observable state before the aliased call; '
            'the reference uses freshly built operands; a divergence that disappears with plainly built operands is classed needs-history. '
            'non-trivial = the reference evaluation returned; distinct by type, operation, '
            'pattern and explicit operands.',
    'min_cov': _min,
    'tolerances': 'exact policy (DESIGN.md 2.4): == on value and every derivative slot (-0 == +0, NaN == NaN, missing slots read as zero); both '
                  'evaluations run the same code on the same operand values (dyadic grid k/8, small integers), so any difference is a '
                  'read-after-write difference.',
    'assumptions': [
        'a panic of the aliased call whose message contains "must be different" (the API\'s alias rejection) counts as rejected and is not judged',
        'a case whose reference evaluation panics (integer division by zero, operands with different numbers of variables, ...) is not judged',
        'an aliased call that panics with "integer divide by zero" although the reference returns is reported as a wrong result (operand '
        'clobbered to zero through the alias)',
        'the fresh receiver of the reference is a zero scalar / null vector / null matrix of the receiver type',
        'signatures fold the element types instantiated from one template (plain = Int8..Float64, real = Real32/Real64), the generic and the '
        'concrete method, and the four element-wise operations of one shape (VopV, VopS, MopM, MopS); the witness names the exact call',
    ],
}

META = {
    'design_ref': 'DESIGN.md section 3, C08',
    'technique': 'runtime monitoring: differential execution aliased vs fresh receiver on independently built operands, exact comparison of '
                 'observable state',
    'text': 'Every scalar operation (34, generic and concrete) of every scalar type under every alias pattern of receiver, operands and '
            'temporaries and every derivative-order combination, and the element-wise and product operations of dense and sparse vectors '
            'and matrices of all nine element types with the result aliasing an operand directly or through overlapping slices and '
            'transposes, are compared against the evaluation with a fresh receiver. Held on the ~0.3M (quick) / ~7M (thorough) cases '
            'executed except for the listed open findings (read-after-write hazards, by alias pattern).',
    'note': 'Trusted: the public read API used for snapshots and gen.* builders; the reference evaluation (same library code without aliasing).',
}
