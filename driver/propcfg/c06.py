# configuration of the C06 check (driver) and its MANIFEST entry

CFG = {
    'rule': 'placeholder',
    'tolerances': 'placeholder',
}
META = {'design_ref': 'DESIGN.md section 3, C06', 'note': '', 'technique': '', 'text': ''}
