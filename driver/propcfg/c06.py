# configuration of the C06 check (driver) and its MANIFEST entry

CFG = {
    'rule': (
        "Three in-process monitors, every oracle written in Go in harness/c06 (own LU with partial pivoting and refinement, Cholesky, cyclic Jacobi "
        "eigen/SVD, inverse iteration; no call into the library). "
        "(a) paths: the same numbers (n = 1..6; SPD with prescribed condition number, integer Gram matrices, indefinite, general with prescribed "
        "singular values, forced pivot orders, exact zeros, exactly singular, upper triangular) are run through the specialised DenseFloat64 / "
        "DenseFloat32 path and through every way of reaching the generic path (DenseReal*, SparseFloat*, SparseReal*, InSitu objects whose L / D / S / B "
        "have another element type, a / x / b of mixed types) of cholesky (plain, LDL, LDL+ForcePD), gaussJordan (plain, UpperTriangular, Submatrix), "
        "matrixInverse (plain, PositiveDefinite, UpperTriangular), determinant (PositiveDefinite, +LogScale): same outcome (error / panic / ok), same "
        "nil-ness of optional results, values within the condition-scaled tolerance; saga dense vs sparse gradients (Objective1/2, no / L1 / L2 / "
        "Tikhonov proximal operator, fixed seed) bit for bit; rprop.RunGradient vs rprop.Run on separable quadratics within the two stopping tolerances. "
        "(b) identities: Real64 / Real32 inputs with every entry or a random subset activated (order 1 and 2; constants plain or allocated with zero "
        "derivative; variable indices shuffled; symmetric arguments either with one variable shared by (i,j),(j,i) or with independent variables whose "
        "gradient / Hessian slots are folded onto symmetric directions; InSitu objects fresh or reused after a call on c*D1*A*D2 with the variable "
        "assignment permuted, or of the other derivative order) through determinant (cofactor; PositiveDefinite; LogScale), matrixInverse (3 variants), "
        "gaussJordan (A X = B and A x = b, A, B, b activated), backSubstitution, cholesky (3 variants), MdotM / MdotV / VdotM / Outer / VdotV (dense and "
        "sparse operands), eigensystem eigenvalues (general and Symmetric), svd singular values: values equal to the float path, first and second "
        "derivatives equal to the closed forms (A^-T, cofactors and second minors, -A^-1 U A^-1 and its derivative, A^-1(dB - dA X), L Phi(L^-1 U L^-T) "
        "and its derivative, y^T U x and the second-order perturbation series, u^T U v). "
        "(c) differential: gramSchmidt, hessenbergReduction, householderTridiagonalization, householderBidiagonalization, qrAlgorithm (default, "
        "Epsilon=2.2e-16, Symmetric), eigensystem eigenvectors, svd factors, msqrt: derivatives along up to 6 (order 1) / 3 (order 2) activated entries "
        "against central differences of the routine's own Float64 result, Romberg-extrapolated over three step sizes, used only where the three levels "
        "agree, the base point lies on the same branch and every stencil point needs the same number of loop iterations (Tick hook). "
        "(c.helpers) Matrix.Jacobian / Matrix.Hessian of all 18 matrix types on integer polynomial maps (degree 3) at integer points, receiver fresh or "
        "prefilled, argument vector Real64 / Real32, dense / sparse, plain / carrying derivatives of an earlier computation / of another variable "
        "count: exact equality. "
        "A case whose float result violates the routine's defining equation is skipped as value-level-defect (reported by C04/C05). "
        "non-trivial = judged case (float path succeeded, admissible conditioning); distinct by routine, options, element type, order, activation and "
        "the input values."
    ),
    'tolerances': {
        'policy': 'condition-scaled (DESIGN.md 2.4); K = 32',
        'a: value equality across paths': 'K * n * eps_T * kappa * max|result|; kappa = cond2(A) (Jacobi) for Cholesky-based routines, condInf(A) (own LU inverse) for Gauss-Jordan; '
                                          'not judged (outcome only) for kappa > 1e7 (64 bit) / 1e4 (32 bit), singular and indefinite inputs; ForcePD on indefinite input: element growth max|L|^2/max|A| instead of kappa',
        'a: saga': 'exact (both paths perform the same float operations; explicit zeros add exactly)',
        'a: rprop': '2 * epsilon / min q_i (each path stops with |grad| < epsilon, grad_i = q_i (x_i - c_i))',
        'b: values magic vs float': 'K * dim * eps_T * kappa * scale of the result',
        'b: first / second derivatives': 'K * dim * eps_T * kappa * S1 * |U|  /  K * dim * eps_T * kappa * S2 * |U| |V| with S1, S2 the norm-wise size of the derivative '
                                         '(e.g. |A^-1|^2, 2 |A^-1|^3 for the inverse; products of row sums of |A| for cofactors); cases with kappa > 1e6 (Real64) / 1e3 (Real32) are not judged',
        'b: eigenvalues / singular values': 'max(1e-6, K n eps kappa) of the norm-wise size of the derivative (iterative routines; stated, detects O(1) errors); '
                                            'relative gaps < 0.02 and eigenvalue condition > 20 are not judged',
        'c: finite differences': '1e-6 of max(|derivative|, |output|/|input|^k) (stated: detects wrong / missing / stale derivatives); slots whose last two '
                                 'Romberg levels differ by more than 1e-7 (1e-6 at order 2) of that scale are not judged',
        'c.helpers': 'exact (small integers)',
        'value-level admission': 'residual |A X - B| <= 1e-9 (1e-3 in 32 bit) * (|A||X| + |B|); reconstruction / orthogonality to 1e-8; reference values to min(64 * tolerance, 1%)',
        'failure classes': 'derivative failures of the iterative routines are re-run at 4 inputs within a relative distance of 1e-9: d1:unstable = not reproduced '
                           'or error < 5%, d1:wrong = reproduced O(1) error, d2:unstable = any second-order failure',
    },
    'assumptions': [
        'routines whose argument is mathematically symmetric may read one triangle only: their identities are asserted on symmetric directions (shared variable or folded slots)',
        'a derivative failure is reported under the fresh-InSitu signature when the fresh execution shows it too; reuse signatures name reuse-only failures',
        'InSitu reuse with another NUMBER of variables is not exercised: the library rejects mixing variable counts with a panic by design',
        'the reference linear algebra of harness/c06/ref.go is trusted to a few n*eps*kappa (refined LU inverse, Jacobi)',
    ],
    'min_cov': {},
}

META = {
    'design_ref': 'DESIGN.md section 3, C06',
    'technique': 'runtime monitoring: differential execution (specialised vs generic path, magic vs float), in-process analytic oracle (matrix-calculus identities), '
                 'finite-difference differential against the routine\'s own float result, Tick-hook iteration counts',
    'note': 'Trusted: harness/c06/ref.go (LU, Cholesky, Jacobi eigen/SVD, inverse iteration) and the closed-form derivative formulas in harness/c06/oracles.go; '
            'monitor (c) trusts the float path of the routine itself (it detects inconsistent, not jointly wrong, derivatives).',
    'text': 'Specialised-vs-generic path differential on ~60k (quick) / 1.5M (thorough) inputs over 11 routine/option cells and up to 7 container/InSitu mixes; '
            'analytic first- and second-derivative identities on ~80k / 2M activated executions of 20 routine cells (Real64 and Real32, full / subset / shared / '
            'folded activation, fresh and reused InSitu); finite-difference differential on ~16k / 440k executions of 11 cells; Jacobian/Hessian helpers of all 18 '
            'matrix types on polynomial maps. Held on the executions observed (coverage per cell in the evidence), except for the listed known findings. Not a proof: '
            'sizes n <= 6, condition numbers <= 1e6, second-order slots sampled (<= 40 pairs per case).',
}
