# configuration of the C13 check (driver) and its MANIFEST entry
import importlib


def _tol():
    try:
        return importlib.import_module("oracles.c13").TOLERANCES
    except Exception as e:  # noqa
        return "see driver/oracles/c13.py (%s)" % e


CFG = {
    'oracle': 'c13',
    'rule': 'one case = 4-13 argument points of one function family, every point pushed through all functions of the family '
            '(GammaP/GammaQ/GammaLower/GammaUpper/GammaPfirstDerivative/GammaPsecondDerivative; Digamma/Trigamma/Polygamma; BesselI/LogBesselI with the '
            'orders v-1, v+1; Zeta, Factorial, BernoulliNumber; Mgamma/Mlgamma, LogErfc, LogAdd/LogSub, scalar Gamma/Lgamma; helpers SinPi/CosPi/Powm1). '
            'Directed lists: every algorithm-selection threshold read from /repo/special (series / continued fraction / Temme / finite sums / log forms in '
            'gamma.go; small-argument series / Temme / CF1 / CF2 / asymptotic in bessel.go and besselLog.go; 2.46e-2 and 8 in erfc.go; reflection, '
            'asymptotic and transition limits of digamma, trigamma, polygamma; pieces of zeta.go) crossed with orders on the order thresholds, each with '
            'the cluster {0, +-1 ulp, +-8 ulp, *(1+-1e-3)} (thorough: also +-2, +-64 ulp, *(1+-1e-6)); witnesses of the pre-survey defects. Sweeps: seeded '
            'log-uniform / uniform / near-pole / integer and half-integer order mixtures. The worker only records (function, arguments, result) as hex '
            'floats; the offline oracle compares with an mpmath reference under the conditioning-scaled tolerance and evaluates the complements and '
            'recurrences of the statement on the recorded outputs. non-trivial = case with at least one evaluation whose reference is finite and non-zero '
            'and that was judged against it; distinct by monitor + argument list hash.',
    'tolerances': _tol(),
    'assumptions': [
        'domains: incomplete gamma a > 0, x >= 0 (finite); BesselI/LogBesselI any finite order, x >= 0, or x < 0 with integer order; Mgamma/Mlgamma '
        'x > (k-1)/2; LogSub(a,b) a >= b; LogAdd/LogSub accept -Inf; Polygamma order n >= 0; Factorial n >= 0; Powm1 base > 0. NaN and +Inf arguments '
        'are not generated.',
        'BernoulliNumber(1): both conventions (+1/2 returned by the library, -1/2 of mpmath) are accepted.',
        'Gamma/Lgamma are observed through the scalar wrappers ad.Float64.Gamma/Lgamma (the package special exports no plain gamma); Lgamma documents '
        'NaN where Gamma < 0. Erf/Erfc wrappers are left to C01/C02.',
        'incomplete-gamma orders are swept up to 1e6 (directed list) / 1e6 (sweeps), Bessel orders up to |v| = 5000: the reference cost grows with '
        'sqrt(a) resp. |v|.',
        'helpers SinPi, CosPi, Powm1 are exported by /repo/special and used by the listed functions; they are judged with the same rule although the '
        'statement does not name them.',
    ],
    'mem_gb': 4,
    'min_cov': {},
}

META = {
    'design_ref': 'DESIGN.md section 3, C13',
    'technique': 'runtime monitoring: recorded (function, arguments, result) event log of the real library under directed threshold clusters and seeded '
                 'sweeps; offline checker with an independent high-precision reference (mpmath) and a conditioning-scaled tolerance; recurrences and '
                 'complements checked on the recorded outputs',
    'text': 'Every exported special function is evaluated on ~3e5 (quick) / ~5e6 (thorough) arguments placed on and around all algorithm-selection '
            'thresholds and swept over the domain; each returned float64 is compared offline with a 50-digit mpmath reference under '
            '|got-ref| <= K eps (|ref| + sum |x_k df/dx_k|), NaN/Inf are accepted only at poles, undefined logarithms and overflow, and P+Q=1, '
            'Gamma(x+1)=x Gamma(x), psi(x+1)=psi(x)+1/x, the Bessel three-term recurrence and log-variant = log(plain variant) are evaluated on the '
            'library\'s own outputs. Held means: no deviation on the arguments executed, which the evidence lists per function and per evaluation branch.',
    'note': 'Trusted: mpmath 1.3 (psi, zeta, besseli, erfc, gamma, loggamma, bernoulli) at 60+ digits; the own series / Legendre continued fraction '
            'for P and Q written in mpf arithmetic (cross-checked against mpmath.gammainc); the reflection formula used for polygamma references at '
            'x < -8; central differences for the partial derivatives without closed form.',
}
