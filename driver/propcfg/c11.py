# configuration of the C11 check (driver) and its MANIFEST entry

CFG = {
    "rule": "for each of the nine element types: random histories (40 steps quick / 100 thorough) on a sparse vector (dim 0-12) and a sparse matrix (0-5 x 0-5) "
            "over the public alphabet At (creates), At.Set, writing zero, Set from dense/sparse with all zero patterns, Reset, Swap (present/absent classes), "
            "Permute, Sort, ReverseOrder, Slice (read), AppendScalar/AppendVector, element-wise arithmetic with fresh operands / in place / as operand of a "
            "dense or sparse receiver, Map/MapSet, Clone, live iterators advanced between mutations; matrices additionally SetIdentity, SwapRows/Columns, "
            "Permute*/SymmetricPermutation, Row/Col/Diag, T (optionally continuing on the transpose), Tip, MdotM, Outer. After EVERY step every in-range "
            "ConstAt/Float64At is compared (exact policy) with a dense model made of free-standing library scalars, Dim/Dims with the model, and (every step "
            "in half of the histories, else with p=0.15 and at the end) a fresh ConstIterator must visit exactly the model's non-zero positions once in "
            "ascending order; live iterators must yield ascending, currently non-zero positions with the model's value. Operands from the dyadic grid so "
            "results are order independent. non-trivial = history with >=1 mutation followed by >=1 full read; distinct by type+trace hash. An element "
            "is 'non-zero' iff its value or any derivative slot is non-zero (the containers' own nullScalar rule).",
    "min_cov": {"vec-op:Swap": 300, "vec-op:Permute": 100, "vec-op:Sort": 50, "vec-op:Set": 100, "vec-op:arith": 300, "vec-op:arith-inplace": 100,
                "vec-op:arith-operand": 100, "vec-op:AppendVector": 100, "vec-op:iter-next": 300, "vec-op:Slice": 100,
                "mat-op:Swap": 200, "mat-op:Tip": 50, "mat-op:T": 50, "mat-op:MdotM": 50, "mat-op:Set": 50, "mat-op:SetIdentity": 50,
                "mat-op:PermuteRows": 20, "mat-op:Slice": 50, "mat-op:iter-next": 100},
    "min_evaluations": 30000,
    "tolerances": "exact comparison (== with -0==+0, NaN==NaN; missing derivative slots read as 0); operands k/8 resp. small integers, divisors powers of two",
    "assumptions": ["the model applies the library's own scalar operations (Add/Sub/Mul/Div of the element type) to free-standing scalars: scalar arithmetic is C01/C02's subject",
                    "Permute(pi) is modelled as the library's dense vectors implement it: interchanges i <-> pi[i] for pi[i] > i in ascending i",
                    "live iterators are dropped by the monitor at operations that rebuild the container (Permute, Sort, ReverseOrder, Append*, continuing on a clone/transpose)"],
}

META = {
    "text": "Lock-step dense reference model over ~115k (quick) / ~3.6M (thorough) random histories on sparse vectors and matrices of all nine element types, "
            "judged after every step by complete read-back, fresh iteration and live-iterator checks. Held on the histories executed (operation and "
            "argument-class counts in the evidence); longer histories, larger dimensions and other interleavings are not covered.",
    "design_ref": "DESIGN.md section 3, C11",
    "note": "Trusted: the model in harness/c11 (free-standing library scalars updated with the library's scalar arithmetic), internal/snap comparison; "
            "reflection on the private entry map is used only to label argument classes, never for a verdict.",
    "technique": "runtime monitoring: lock-step dense reference model over random operation histories, complete read-back + iteration check after every step",
}
