# configuration of the C16 check (driver) and its MANIFEST entry

CFG = {
 'rule': '(a) closed-form estimators (scalar normal / exponential / Poisson / geometric / negative binomial / categorical through Estimate, '
         'EstimateOnData and the batch interface; vector normal d=1..3; wrappers ScalarIid, ScalarId, ScalarBatchId) on data sets of size 1..200 '
         '(regular, repeats, all-equal, integer, large offset, wide range, zeros) with no / finite / partly -Inf log-weights and random configured '
         'bounds (SigmaMin, LambdaMax): bounds respected and no admissible perturbation theta +- {1e-3,1e-5}*scale*e_k raises the independently '
         'written weighted log-likelihood; numeric estimator (newton, bfgs, rprop on normal / exponential / gamma): closed-form gradient norm below '
         'the estimator epsilon.  (b) EM trajectories (scalar and vector mixtures, vector and matrix HMMs incl. start / single final state / shared '
         'emissions, mixture-of-mixtures, HMM-of-mixtures) with a sequential pool: the likelihood reported to hook i+1 equals LogPdf of the model '
         'handed to hook i, and the log-likelihood of successive models never decreases.  non-trivial = judged case with >=2 observations (closed '
         'form) / >=2 hook calls (EM); distinct by configuration+data hash',
 'tolerances': 'closed form: L(theta_perturbed) - L(theta_hat) <= K*eps*(sum|terms| at both points), K=16, eps=2^-53 (Kahan sums); perturbation '
               'steps below 64 ulp of the parameter are not applied; numeric: ||grad|| <= epsilon_estimator + K*eps*sum|gradient terms|; EM pairing: '
               '2*sum_l K*eps*(|log p_l| + A_l + k) + n*eps*sum|log p_l| (A_l = posterior-weighted |log terms|; for HMMs A bounded by the largest '
               '|term| per position); EM monotonicity: 1e-9*|L| (DESIGN.md) plus the evaluation allowances',
 'assumptions': ['the closed-form likelihoods in harness/c16/lik.go are the parametrisations of the library (checked against its LogPdf by C14/C15)',
                 'data sets whose weighted MLE lies outside the library\'s parameter domain (Poisson / geometric / negative binomial on all-zero '
                 'counts, singular weighted covariance, all weights -Inf) are executed but not judged',
                 'LogPdf of mixtures and HMMs is C15\'s subject; C16 uses it as the reference for the hooks',
                 'sequential thread pool only (parallel schedules are C17)',
                 'logistic regression, the Stein / log-transform / translation estimators and the shape HMM are not driven'],
 'min_cov': {
             'data:all-equal': 468,
             'data:all-zero': 203,
             'data:integer': 135,
             'data:large': 200,
             'data:missing-category': 120,
             'data:offset': 37,
             'data:regular': 946,
             'data:repeats': 334,
             'data:wide': 136,
             'data:with-zeros': 279,
             'directed:closed.scalar': 2,
             'directed:closed.vector': 8,
             'directed:closed.wrapper': 5,
             'directed:em.hmm': 7,
             'directed:em.hmm.options': 2,
             'directed:em.mixture.scalar': 2,
             'directed:em.mixture.vector': 4,
             'directed:numeric': 2,
             'em-family:ScalarId:normal': 27,
             'em-family:ScalarId:poisson': 27,
             'em-family:categorical': 112,
             'em-family:exponential': 123,
             'em-family:geometric': 136,
             'em-family:negativeBinomial': 113,
             'em-family:normal': 139,
             'em-family:poisson': 131,
             'em-family:vectorNormal': 55,
             'em-hmm-restriction:final': 31,
             'em-hmm-restriction:none': 172,
             'em-hmm-restriction:start': 33,
             'em-hmm-restriction:start+final': 10,
             'em-hmm:OptimizeTransitions=false': 12,
             'em-hmm:shared-emissions': 36,
             'em:matrixHmm': 46,
             'em:nested:hmm': 29,
             'em:nested:mixture': 26,
             'em:pairing-checked': 8043,
             'em:scalarMixture': 401,
             'em:step-checked': 8036,
             'em:vectorHmm': 237,
             'em:vectorMixture': 202,
             'entry:Estimate': 1321,
             'entry:EstimateOnData': 1322,
             'entry:batch': 1280,
             'estimator:categorical': 493,
             'estimator:exponential': 479,
             'estimator:geometric': 477,
             'estimator:negativeBinomial': 477,
             'estimator:normal': 483,
             'estimator:poisson': 471,
             'estimator:vector-normal': 1004,
             'judged-estimates': 3803,
             'mvn:dim=1': 322,
             'mvn:dim=2': 321,
             'mvn:dim=3': 313,
             'mvn:floor-active': 276,
             'mvn:floor-inactive': 384,
             'numeric-method:bfgs': 20,
             'numeric-method:newton': 39,
             'numeric:exponential': 19,
             'numeric:gamma': 18,
             'numeric:judged': 54,
             'numeric:normal': 39,
             'perturbation:evaluated': 33550,
             'perturbation:projected-onto-bound': 7016,
             'size:n=1': 486,
             'size:n=2-5': 504,
             'size:n>5': 1939,
             'weights:unweighted': 719,
             'weights:weighted': 1481,
             'weights:weighted+(-Inf)': 738,
             'wrapped:categorical': 156,
             'wrapped:exponential': 158,
             'wrapped:geometric': 154,
             'wrapped:negativeBinomial': 162,
             'wrapped:normal': 162,
             'wrapped:poisson': 155,
             'wrapper:ScalarBatchId': 240,
             'wrapper:ScalarId': 247,
             'wrapper:ScalarIid': 238,
             'wrapper:ScalarIid(n=-1)': 240,
            },
 'parallel': 16,
}

META = {
 'design_ref': 'DESIGN.md section 3, C16',
 'technique': 'runtime monitoring: defining-equation oracle (independent closed-form likelihood + perturbation test), hook trace of the EM drivers '
              'judged against LogPdf of the models they hand out',
 'text': 'Closed-form estimators are judged by an independently written weighted log-likelihood (bounds + perturbation test), the numeric '
         'estimator by its closed-form gradient, EM drivers by their hook trace (pairing with LogPdf, monotonicity) on ~12k (quick) / ~300k '
         '(thorough) generated data sets and ~2k / ~50k EM runs; held on the executions observed, listed by estimator, entry point, data and '
         'weight class. Not a proof: perturbations of relative size 1e-3 and 1e-5 cannot see errors below ~1e-5 of the parameter scale.',
 'note': 'Trusted: harness/c16/lik.go (closed forms, Kahan sums), the library\'s LogPdf for mixtures/HMMs (C15).',
}
