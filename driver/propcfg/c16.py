# configuration of the C16 check (driver) and its MANIFEST entry

CFG = {
 'rule': '(a) closed-form estimators (scalar normal / exponential / Poisson / geometric / negative binomial / categorical through Estimate, '
         'EstimateOnData and the batch interface; vector normal d=1..3; wrappers ScalarIid, ScalarId, ScalarBatchId) on data sets of size 1..200 '
         '(regular, repeats, all-equal, integer, large offset, wide range, zeros) with no / finite / partly -Inf log-weights and random configured '
         'bounds (SigmaMin, LambdaMax): bounds respected and no admissible perturbation theta +- {1e-3,1e-5}*scale*e_k raises the independently '
         'written weighted log-likelihood; numeric estimator (newton, bfgs, rprop on normal / exponential / gamma): closed-form gradient norm below '
         'the estimator epsilon.  (b) EM trajectories (scalar and vector mixtures, the summarised-data DiscreteMixtureEstimator via SetData+Estimate judged on the expanded data and differentially against the raw-data MixtureEstimator, vector and matrix HMMs incl. start / single final state / shared '
         'emissions, mixture-of-mixtures, HMM-of-mixtures) with a sequential pool: the likelihood reported to hook i+1 equals LogPdf of the model '
         'handed to hook i, and the log-likelihood of successive models never decreases.  non-trivial = judged case with >=2 observations (closed '
         'form) / >=2 hook calls (EM); distinct by configuration+data hash',
 'tolerances': 'closed form: L(theta_perturbed) - L(theta_hat) <= K*eps*(sum|terms| at both points), K=16, eps=2^-53 (Kahan sums); perturbation '
               'steps below 64 ulp of the parameter are not applied; numeric: ||grad|| <= epsilon_estimator + K*eps*sum|gradient terms|; EM pairing: '
               '2*sum_l K*eps*(|log p_l| + A_l + k) + n*eps*sum|log p_l| (A_l = posterior-weighted |log terms|; for HMMs A bounded by the largest '
               '|term| per position); EM monotonicity: 1e-9*|L| (DESIGN.md) plus the evaluation allowances',
 'assumptions': ['the closed-form likelihoods in harness/c16/lik.go are the parametrisations of the library (checked against its LogPdf by C14/C15)',
                 'data sets whose weighted MLE lies outside the library\'s parameter domain (Poisson / geometric / negative binomial on all-zero '
                 'counts, singular weighted covariance, all weights -Inf) are executed but not judged',
                 'LogPdf of mixtures and HMMs is C15\'s subject; C16 uses it as the reference for the hooks',
                 'sequential thread pool only (parallel schedules are C17)',
                 'logistic regression, the Stein / log-transform / translation estimators and the shape HMM are not driven'],
 'min_cov': {
             'data:all-equal': 1423,
             'data:all-zero': 627,
             'data:integer': 404,
             'data:large': 640,
             'data:missing-category': 363,
             'data:offset': 201,
             'data:regular': 2868,
             'data:repeats': 1027,
             'data:wide': 406,
             'data:with-zeros': 851,
             'directed:closed.scalar': 2,
             'directed:closed.vector': 5,
             'directed:closed.wrapper': 5,
             'directed:em.hmm': 7,
             'directed:em.hmm.options': 2,
             'directed:em.mixture.discrete': 1,
             'directed:em.mixture.scalar': 2,
             'directed:em.mixture.vector': 4,
             'directed:numeric': 2,
             'em-family:ScalarId:normal': 138,
             'em-family:ScalarId:poisson': 139,
             'em-family:categorical': 542,
             'em-family:exponential': 581,
             'em-family:geometric': 612,
             'em-family:negativeBinomial': 539,
             'em-family:normal': 620,
             'em-family:poisson': 608,
             'em-family:vectorNormal': 291,
             'em-hmm-restriction:final': 165,
             'em-hmm-restriction:none': 505,
             'em-hmm-restriction:start': 167,
             'em-hmm-restriction:start+final': 34,
             'em-hmm:OptimizeTransitions=false': 18,
             'em-hmm:shared-emissions': 167,
             'em:matrixHmm': 217,
             'em:nested:hmm': 141,
             'em:nested:mixture': 139,
             'em:pairing-checked': 37558,
             'em:scalarMixture': 1201,
             'em:step-checked': 37528,
             'em:summarisedMixture': 1200,
             'em:vectorHmm': 695,
             'em:vectorMixture': 602,
             'entry:Estimate': 3957,
             'entry:EstimateOnData': 3982,
             'entry:batch': 3954,
             'estimator:categorical': 1462,
             'estimator:exponential': 1459,
             'estimator:geometric': 1482,
             'estimator:negativeBinomial': 1454,
             'estimator:normal': 1466,
             'estimator:poisson': 1468,
             'estimator:vector-normal': 3002,
             'judged-estimates': 12488,
             'mvn:dim=1': 1003,
             'mvn:dim=2': 978,
             'mvn:dim=3': 978,
             'mvn:floor-active': 868,
             'mvn:floor-inactive': 1208,
             'numeric-method:bfgs': 107,
             'numeric-method:newton': 195,
             'numeric:exponential': 107,
             'numeric:gamma': 55,
             'numeric:judged': 264,
             'numeric:normal': 203,
             'perturbation:evaluated': 108642,
             'perturbation:projected-onto-bound': 22953,
             'size:n=1': 1465,
             'size:n=2-5': 1549,
             'size:n>5': 5836,
             'summarised:counts=1': 139,
             'summarised:counts>1': 1037,
             'summarised:differential-step': 12899,
             'weights:unweighted': 2180,
             'weights:weighted': 4441,
             'weights:weighted+(-Inf)': 2233,
             'wrapped:categorical': 483,
             'wrapped:exponential': 490,
             'wrapped:geometric': 477,
             'wrapped:negativeBinomial': 483,
             'wrapped:normal': 497,
             'wrapped:poisson': 471,
             'wrapper:ScalarBatchId': 725,
             'wrapper:ScalarId': 755,
             'wrapper:ScalarIid': 747,
             'wrapper:ScalarIid(n=-1)': 713,
            },
 'parallel': 16,
}

META = {
 'design_ref': 'DESIGN.md section 3, C16',
 'technique': 'runtime monitoring: defining-equation oracle (independent closed-form likelihood + perturbation test), hook trace of the EM drivers '
              'judged against LogPdf of the models they hand out',
 'text': 'Closed-form estimators are judged by an independently written weighted log-likelihood (bounds + perturbation test), the numeric '
         'estimator by its closed-form gradient, EM drivers by their hook trace (pairing with LogPdf, monotonicity) on ~12k (quick) / ~300k '
         '(thorough) generated cases (of which ~6k / ~95k EM runs); held on the executions observed, listed by estimator, entry point, data and '
         'weight class. Not a proof: perturbations of relative size 1e-3 and 1e-5 cannot see errors below ~1e-5 of the parameter scale.',
 'note': 'Trusted: harness/c16/lik.go (closed forms, Kahan sums), the library\'s LogPdf for mixtures/HMMs (C15).',
}
