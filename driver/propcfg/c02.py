# configuration of the C02 check (driver) and its MANIFEST entry

CFG = {
    "oracle": "c02",
    "rule": "placeholder",
    "min_cov": {},
    "tolerances": {},
    "assumptions": [],
}

META = {
    "design_ref": "DESIGN.md section 3, C02",
    "technique": "runtime monitoring: event log + offline checker (named-function table in mpmath), cross-type differential, in-process Go integer reference",
    "text": "placeholder",
    "note": "placeholder",
}
