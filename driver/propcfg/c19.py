# configuration of the C19 check (driver) and its MANIFEST entry

CFG = {'assumptions': ['iterator semantics: Next moves to the successor, in the current set, of the value last returned (validated against the unchanged '
                 'tree)',
                 'exported AvlNode fields (Left/Right/Parent/Balance/Deleted) are read directly by the structural invariant walker'],
 'min_cov': {'exhaustive-histories': 1000,
             'hook:avl.delete.leaf': 100,
             'hook:avl.delete.leftOnly': 100,
             'hook:avl.delete.rightOnly': 100,
             'hook:avl.delete.twoChildren': 100,
             'hook:avl.rotateLL': 100,
             'hook:avl.rotateLR': 100,
             'hook:avl.rotateRL': 100,
             'hook:avl.rotateRR': 100,
             'next-after-delete-of-current': 100,
             'next-on-snapshot-iterator': 20000,
             'op:safeIter': 1000,
             'op:safeIterFrom': 2000},
 'rule': 'random histories (50-400 operations: Insert/Delete/Clone/Iterator/IteratorFrom/iterator Clone/Next/FindNode/FindNodeLE) over dense '
         "universes of 4-64 keys, sparse extreme keys and iterator-stress histories aimed at the iterator's current element, plus the exhaustive "
         'enumeration of all histories of length L over {ins k, del k, next} with 4 keys and one live iterator; after EVERY operation: return value, '
         'membership of every universe key, BST order, parent links, stored balance = height difference in {-1,0,1}, no reachable deleted node, full '
         'ascending iteration, every live iterator at the model successor. snapshot-iterators: SafeIterator / SafeIteratorFrom are created, the tree is then '
         'mutated around and ahead of their position (deletes, inserts, clones) and every Next must follow the set AS IT WAS at creation. non-trivial = history with >=1 structural mutation followed by >=1 read '
         '(Next/Find) (exhaustive groups count once per group of 2000 histories); distinct by universe+history hash'}

META = {'design_ref': 'DESIGN.md section 3, C19',
 'note': 'Trusted: the Go map model and the invariant walker in harness/c19; the successor semantics of live iterators stated in DESIGN.md.',
 'technique': 'runtime monitoring: lock-step reference model (set) + invariant hook walk after every operation; Count-hook coverage',
 'text': 'Lock-step set model plus structural invariant walker over every operation of ~38k (quick) / ~550k (thorough) random histories (incl. snapshot iterators: SafeIterator / SafeIteratorFrom under mutation of the tree) and the '
         'exhaustive enumeration of all short histories over a 4-key universe with a live iterator; held on the histories executed, which the '
         'evidence lists by operation, rotation/delete case (Count hook) and distinct tree shapes. Not a proof: longer histories and larger trees '
         'are sampled only.'}
