# configuration of the C09 check (driver) and its MANIFEST entry (provisional)
CFG = {'rule': 'provisional', 'min_cov': {}}
META = {'design_ref': 'DESIGN.md section 3, C09', 'note': '', 'technique': '', 'text': ''}
