# configuration of the C09 check (driver) and its MANIFEST entry

_ELEM = ['Int8', 'Int16', 'Int32', 'Int64', 'Int', 'Float32', 'Float64', 'Real32', 'Real64']
_REAL = ('Real32', 'Real64')

_min = {}
# pairs discovered by reflection per type (counts measured on the unchanged tree; a pairing that silently stops
# matching makes the run inconclusive, a pair added later is exercised automatically)
for _t in _ELEM:
    _min['max:pairs:' + _t] = 20
    _min['max:pairs:Dense%sVector' % _t] = 19 if _t in _REAL else 16
    _min['max:pairs:Sparse%sVector' % _t] = 18
    _min['max:pairs:Dense%sMatrix' % _t] = 19
    _min['max:pairs:Sparse%sMatrix' % _t] = 8
    for _s in ('Dense', 'Sparse'):
        for _k in ('VectorIterator', 'VectorJointIterator', 'MatrixIterator', 'MatrixJointIterator'):
            _min['max:pairs:%s%s%s' % (_s, _t, _k)] = 1  # Get/GET, exercised by the iterator walks
    # invocations judged (both variants returned and were compared) per receiver type, quick tier
    _min['judged:' + _t] = 8000
    _min['judged:Dense%sVector' % _t] = 6000
    _min['judged:Sparse%sVector' % _t] = 7000
    _min['judged:Dense%sMatrix' % _t] = 7000
    _min['judged:Sparse%sMatrix' % _t] = 3000
_min.update({
    'max:pairs-total': 807,
    'max:pairs-executable': 735,
    'distinct pair': 735,            # every executable pair got its own directed case
    'distinct wellexercised': 735,   # ... in which at least half of the operand sets were judged (not rejected by both variants)
    'real-order:1': 15000, 'real-order:2': 15000,
    'recv-view:slice': 30000, 'recv-view:T': 8000, 'recv-view:sliceT': 5000,
})
# aliased invocations (monitors alias, alias.random): pair x alias-combination cases
_min.update({
    'max:alias-combinations': 2537, 'distinct alias-pair': 517,
    'alias-judged:scalar/': 15000, 'alias-judged:vector/dense': 18000, 'alias-judged:vector/sparse': 18000,
    'alias-judged:matrix/dense': 35000, 'alias-judged:matrix/sparse': 900,
    'alias-operand:recv': 60000, 'alias-operand:view': 40000, 'alias-operand:T': 15000, 'alias-operand:elem': 12000,
    'alias-both-rejected:MdotV': 500, 'alias-both-rejected:VdotM': 500,  # the API's alias rejection, by both variants
})
# non-finite operands and -0 (monitors special, special.random): the 330 pairs of the float-like element types
_min.update({
    'max:special-pairs': 330, 'distinct special-pair': 330,
    'special-judged:scalar/': 12000, 'special-judged:vector/dense': 10000, 'special-judged:vector/sparse': 10000,
    'special-judged:matrix/dense': 12000, 'special-judged:matrix/sparse': 5000,
})
for _op in ['Abs', 'Add', 'AppendVector', 'At', 'Col', 'ConstAt', 'Diag', 'Div', 'Equals', 'Exp', 'Greater', 'Iterator', 'IteratorFrom',
            'JointIterator', 'Log', 'Log1p', 'LogAdd', 'LogSub', 'MaddM', 'MaddS', 'Max', 'MdivM', 'MdivS', 'MdotM', 'MdotV', 'Min', 'MmulM',
            'MmulS', 'MsubM', 'MsubS', 'Mul', 'Neg', 'Outer', 'Pow', 'Row', 'Set', 'Sign', 'Slice', 'Smaller', 'Sqrt', 'Sub', 'VaddS', 'VaddV',
            'VdivS', 'VdivV', 'VdotM', 'VmulS', 'VmulV', 'VsubS', 'VsubV']:
    _min['op:' + _op] = 3000

CFG = {
    'rule': 'method pairs (generic M / concrete NAME with strings.ToUpper(M) == NAME minus underscores, plus the aliases AppendVector/APPEND and '
            'ConstAt/AT_) are discovered by reflection on a hand-written registry of the 60 exported scalar/vector/matrix types of the root '
            'package (iterator types are reached through return types). Monitor "pairs": one case per discovered pair, running the directed '
            'operand sets (every sign combination of receiver and scalar operands x derivative order for scalars; 12 zero-pattern triples, zero '
            'divisors, value-equal operands for Equals for containers) followed by seeded random sets (120 quick / 1500 thorough per pair). '
            'Monitors "alias" / "alias.random": every pair whose operands can alias the receiver (a container parameter of the receiver\'s type: the '
            'receiver itself, a full-range Slice of it, for matrices its transpose; a scalar parameter of a container\'s element type: one of '
            'its elements; a scalar parameter of a scalar receiver\'s type: the receiver) is invoked in BOTH variants under every combination '
            'of these alias options (2537 pair x combination cases, 40 / 400 operand draws each) and the two results are compared with each '
            'other; an alias that one variant rejects must be rejected by the other. '
            'Monitors "special" / "special.random": the pairs of the float-like element types (330) with -Inf, +Inf, NaN and -0: scalar '
            'pairs under every assignment of {finite, -Inf, +Inf, NaN, -0} to their scalar operands (at least one special; the receiver '
            'special in 20 %), container pairs with special elements (-Inf, +Inf, NaN) and special scalar operands at random; same '
            'comparison (NaN == NaN, -0 == +0). '
            'Monitor "random": one random invocation per case (random pair, dyadic k/8 values, small integers for integer types, derivative '
            'seeds for Real types with order 0/1/2, absent / stored-zero / zero-with-derivative entries, receivers that are slices or transposes '
            'of a larger parent, occasional dimension mismatches and out-of-range indices). Both variants are invoked through reflect on '
            'independently built copies of receiver and operands (operands built as the concrete parameter types); compared: receiver state '
            '(every element, N, every derivative slot; parent of a view), return values (scalars, vectors, matrices element-wise; iterators by '
            'walking Ok/Index/Get|GET/Next, positions where every element is null ignored), and the receiver again after writing through a '
            'returned scalar/vector/matrix. A panic of both variants is "rejected, not judged"; a panic of one only is a violation. '
            'non-trivial = both variants returned and at least one operand or the receiver is non-zero; distinct by pair + explicit operands.',
    'min_cov': _min,
    'tolerances': 'exact policy (DESIGN.md 2.4: == on value and every derivative slot, -0 == +0, NaN == NaN, absent sparse entry == 0; operands on '
                  'the dyadic grid k/8, |k| <= 48, small integers for integer types). Scalar Exp/Log/Log1p/Pow/Sqrt/LogAdd/LogSub: 1 ulp of the '
                  'storage type per slot (never needed on the unchanged tree: counter equal-within-1ulp stays absent).',
    'assumptions': [
        'the registry of exported concrete types in harness/c09/registry.go is complete (written by hand from `grep "^type [A-Z]" /repo/*.go`); '
        'constant scalars, sparse constant vectors and DenseGradient have no generic/concrete pairs',
        'whether a sparse or joint iterator visits a position at which every element is null (value and derivatives zero) is representation, not result',
        'non-finite operands and -0 are generated by the special monitors only (float-like element types; -0 only as a scalar operand, the '
        'element builders cannot store it); zero divisors are included and classed zero-divisor',
    ],
}

META = {
    'design_ref': 'DESIGN.md section 3, C09',
    'technique': 'runtime monitoring: differential execution of reflection-discovered method pairs on cloned operands, exact comparison of '
                 'observable state',
    'text': 'Every generic/concrete method pair discovered by reflection on every exported scalar, vector and matrix type (807 pairs, 735 '
            'invocable with generated operands, 72 iterator Get/GET pairs exercised by walking returned iterators) is invoked on independently '
            'built equal receivers and operands; receiver state, return values and write-through behaviour of returned views are compared '
            'exactly. Held on the ~0.39M (quick) / ~9M (thorough) invocations executed, which the evidence lists per receiver type and '
            'operation; open findings are listed by pair and input class.',
    'note': 'Trusted: the public read API (ConstAt/GetDerivative/GetHessian) used for snapshots, the hand-written type registry, the shape rules '
            'for MdotM/MdotV/VdotM/Outer/AppendVector/Slice (a pair whose operands are rejected by both variants more than half of the time '
            'lowers "distinct wellexercised" and makes the run inconclusive).',
}
