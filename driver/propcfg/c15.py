# configuration of the C15 check (driver) and its MANIFEST entry

CFG = {
 'rule': 'HMMs with m=1..4 states on sequences of length n=1..6 (<=4096 hidden paths), stochastic pi / transition rows with exact zeros, '
         'absorbing, unreachable, left-to-right, permutation, skewed and fully symmetric (all paths tied) patterns, identity / permuted / shared '
         'state maps, every start/final restriction subset (directed list: all subsets x all shapes m<=3 (quick) m<=4 (thorough) x 3 patterns), ten '
         'emission families (categorical with zero entries, normal, Poisson, exponential, gamma, binomial, geometric, negative binomial, mixed), '
         'Float64 and Real64 models; vector HMMs, matrix HMMs (ScalarIid / ScalarId / multivariate normal emissions), constrained and hierarchical '
         'transition matrices, the classifiers HmmClassifier / HmmPosterior; Baum-Welch one-step runs on data sets of 1..4 sequences (vector and '
         'matrix estimators); scalar / vector / matrix mixtures with 1..5 components (zero and unnormalised weights) and all component subsets. '
         'Oracle: enumeration of all m^n paths in log space (compensated log-sum-exp) from the public Pi/Tr/Tf and directly evaluated emissions; '
         'Pi/Tr/Tf themselves against restriction+renormalisation recomputed from the user input. non-trivial = judged case with m>=2 states '
         '(k>=2 components), n>=2 observations and positive likelihood; distinct by parameters+observations hash',
 'tolerances': 'log-scale results: K*eps*(|f| + A + ops), K=16, eps=2^-53, A = posterior-weighted sum of |log terms| of the paths entering the '
               'log-sum (first-order condition sum), ops = n*m^2+m log-additions; -Inf (probability zero) must be reproduced exactly; Viterbi: '
               'joint log-probability of the returned path >= enumerated maximum - K*eps*(sum|terms|+n) (ties accepted); normalisation: '
               '|sum-1| <= K*eps*(m+|logL|+max|log gamma|+A); parameters Pi/Tr/Tf/LogWeights: K*eps*(1+|log p|)',
 'assumptions': ['path-probability convention (DESIGN.md C15): Pi restricted to the start states and renormalised, Tr for transitions 1..n-2, Tf '
                 '(columns of non-final states removed, rows renormalised) for the last transition only',
                 'n=1 with a final-state restriction, a start restriction without mass, and conditioning on zero-likelihood data are generated '
                 'and executed but not judged (counted under skipped:/not judged)',
                 'emission log-densities are taken from the library (their correctness is C14); the HMM/mixture recursions are what is judged',
                 'BaumWelchStep is not callable from outside the package (unexported temporaries); its likelihood is observed through the '
                 'Baum-Welch hook of a one-step estimator run with a sequential pool'],
 'min_cov': {
             'bw:matrix': 1458,
             'bw:optimize-emissions': 1485,
             'bw:optimize-transitions': 4923,
             'bw:sequences=1': 1248,
             'bw:sequences=2': 1201,
             'bw:sequences=3': 1222,
             'bw:sequences=4': 1186,
             'bw:vector': 4489,
             'class:m=1,n=1,none': 429,
             'class:m=1,n=1,start': 334,
             'class:m=1,n=2,final': 327,
             'class:m=1,n=2,none': 418,
             'class:m=1,n=2,start': 324,
             'class:m=1,n=2,start+final': 321,
             'class:m=1,n>=3,final': 1275,
             'class:m=1,n>=3,none': 1587,
             'class:m=1,n>=3,start': 1313,
             'class:m=1,n>=3,start+final': 1263,
             'class:m>=2,n=1,none': 1372,
             'class:m>=2,n=1,start': 947,
             'class:m>=2,n=2,final': 1081,
             'class:m>=2,n=2,none': 1368,
             'class:m>=2,n=2,start': 932,
             'class:m>=2,n=2,start+final': 969,
             'class:m>=2,n>=3,final': 4139,
             'class:m>=2,n>=3,none': 5244,
             'class:m>=2,n>=3,start': 3629,
             'class:m>=2,n>=3,start+final': 3696,
             'components:1': 2438,
             'components:2': 2455,
             'components:3': 2483,
             'components:4': 2458,
             'components:5': 2450,
             'elem:Float64': 37005,
             'elem:Real64': 9858,
             'family:binomial': 4166,
             'family:categorical': 4445,
             'family:exponential': 4258,
             'family:gamma': 4178,
             'family:geometric': 4192,
             'family:mixed-count': 4238,
             'family:mixed-real': 4208,
             'family:negbin': 4233,
             'family:normal': 4480,
             'family:poisson': 4184,
             'mixture:matrix': 2474,
             'mixture:scalar': 4958,
             'mixture:vector': 4951,
             'query:BaumWelchStep-likelihood': 4923,
             'query:HmmClassifier.Eval': 26564,
             'query:HmmPosterior.Eval': 24488,
             'query:Likelihood': 82908,
             'query:Likelihood:zero-weight-subset(not judged)': 14021,
             'query:LogPdf': 43925,
             'query:MixtureLikelihood.Eval': 33154,
             'query:MixturePosterior.Eval': 37167,
             'query:Posterior': 93270,
             'query:Posterior:all-states': 28943,
             'query:Posterior:probability-zero': 21271,
             'query:Posterior:random': 57887,
             'query:Posterior:single-path': 28943,
             'query:Posterior:zero-likelihood(not judged)': 3657,
             'query:PosteriorMarginals': 28943,
             'query:PosteriorMarginals:zero-likelihood-rejected': 2449,
             'query:Viterbi': 31425,
             'query:Viterbi:all-paths-zero(any path maximal)': 2449,
             'query:Viterbi:tie-accepted': 1542,
             'query:restriction': 16198,
             'semantics:Pi': 28941,
             'semantics:Tf': 30504,
             'semantics:Tf:final-unreachable-row': 1221,
             'semantics:Tf:final-unreachable-row,i-final(not judged)': 1473,
             'semantics:Tr': 30504,
             'semantics:start-mass-zero(not judged)': 1526,
             'state-map:identity': 16262,
             'state-map:permutation': 7453,
             'state-map:shared-emissions': 6562,
             'tr-pattern:absorbing': 3597,
             'tr-pattern:dense': 3579,
             'tr-pattern:dyadic': 3390,
             'tr-pattern:left-right': 3505,
             'tr-pattern:permutation': 3486,
             'tr-pattern:skewed': 3469,
             'tr-pattern:symmetric': 1758,
             'tr-pattern:unreachable': 3491,
             'tr-pattern:zeros': 3661,
             'variant:constrained': 857,
             'variant:hierarchical': 978,
             'vector-pdf:id': 1310,
             'vector-pdf:iid': 1303,
             'vector-pdf:normal': 1288,
             'zero-class:allzero': 3083,
             'zero-class:dense': 16828,
             'zero-class:zeros': 23750,
             'max:paths': 4096,
            },
}

META = {
 'design_ref': 'DESIGN.md section 3, C15',
 'technique': 'runtime monitoring: in-process reference by explicit enumeration of all hidden paths (defining equation), differential '
              'float64-specialised vs generic recursion',
 'text': 'Every query of the HMM and mixture types (LogPdf, PosteriorMarginals, Posterior of state-set sequences, Viterbi, Baum-Welch step '
         'likelihood, mixture LogPdf/Likelihood/Posterior, classifiers) is compared with the explicit enumeration of all m^n hidden paths on '
         '~110k (quick) / ~1.7M (thorough) generated models; held on the models executed, listed in the evidence by shape, restriction class, '
         'zero class, family and wrapper. Not a proof: only models with at most 4096 paths are enumerable.',
 'note': 'Trusted: the enumerator and compensated log-sum-exp in harness/c15/enum.go; the emission densities of the library (C14).',
}
