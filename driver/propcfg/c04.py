# configuration of the C04 check (driver) and its MANIFEST entry

CFG = {
 'rule': 'placeholder',
 'min_cov': {},
 'tolerances': {},
}

META = {'design_ref': 'DESIGN.md section 3, C04', 'note': '', 'technique': 'runtime monitoring', 'text': 'placeholder'}
