# configuration of the C03 check (driver) and its MANIFEST entry

CFG = {
    "rule": "one case = one operation (VaddV..VdivV, VaddS..VdivS, VdotV, MdotV, VdotM, MaddM..MdivM, MaddS..MdivS, MdotM, Outer, vector/matrix Set, SetIdentity, "
            "Reset, Equals, AsDense*/AsSparse* incl. cross-type, construction from index/value lists, AsMatrix/AsConstMatrix) on one set of mathematical "
            "operands for one element type, executed in EVERY storage combination (receiver dense|sparse x each operand dense|sparse|sparse-const) with a "
            "receiver prepared in one of five prior-content classes (empty, explicitly stored zeros, unrelated non-zeros, full, entries carrying derivative "
            "slots of another shape) and operands with seven zero patterns (none, leading, trailing, interleaved, all-zero, random, explicitly stored zeros), "
            "dimensions 0..7, rectangular matrices 0..5 x 0..5; every result element (value and derivative slots) is compared exactly with a dense model computed "
            "with free-standing library scalars, hence all storage combinations with each other. non-trivial = at least one position where one operand is "
            "zero/absent and another is not (or a receiver with prior content for the receiver-only operations); distinct by type+operation+operands hash. "
            "constvec/<T> (seven non-Real types): lock-step histories of 4..14 read-only steps on a SparseConst<T>Vector built from an unsorted index/value list "
            "with zero values (New), a sorted list (Unsafe) or a dense vector, and on its ConstSlice views (from 0 and with offset, nested) and clones: ConstAt, "
            "Float64At/Float32At/IntAt, ConstIterator, ConstIteratorFrom (incl. behind the last entry), ConstJointIterator with a dense vector containing zeros, "
            "use as operand of dense and sparse receivers (VaddV/VmulV/VsubV), Equals against a dense copy and a copy differing in one position, dense.Set; every "
            "observation is compared with a []float64 model of each object, and all objects are re-read at the end (reads must not change any other object)",
    "min_cov": {"op:VaddV": 100, "op:VmulV": 100, "op:VdivV": 100, "op:VmulS": 100, "op:VdotV": 300, "op:MdotV": 300, "op:VdotM": 300, "op:MaddM": 100, "op:MmulM": 100,
                "op:MdotM": 300, "op:Outer": 300, "op:Vector.Set": 300, "op:Matrix.Set": 300, "op:SetIdentity": 300, "op:Reset": 300, "op:Equals": 600,
                "op:AsSparseVector": 300, "op:AsDenseMatrix": 300, "op:NewSparseVector": 300, "op:NewSparseMatrix": 300, "op:AsMatrix": 300,
                "type:Int8": 500, "type:Int16": 500, "type:Int32": 500, "type:Int64": 500, "type:Int": 500, "type:Float32": 500, "type:Float64": 500, "type:Real32": 500, "type:Real64": 500,
                "combo:recv=sparse,a=sparse-const,b=dense": 50, "combo:recv=dense,a=sparse,b=sparse": 50,
                "constvec:op:ConstSlice": 20000, "constvec:slice-from-0": 10000, "constvec:slice-offset": 8000, "constvec:op:ConstAt": 40000, "constvec:op:ConstIterator": 40000,
                "constvec:op:ConstIteratorFrom": 8000, "constvec:op:ConstJointIterator": 8000, "constvec:op:operand:dense-recv": 8000, "constvec:op:operand:sparse-recv": 8000,
                "constvec:op:Equals": 8000, "constvec:op:TypedAt": 8000, "constvec:built:New": 5000, "constvec:built:Unsafe(sorted)": 2500, "constvec:zero-values-in-list": 4000},
    "min_evaluations": 100000,
    "tolerances": "exact comparison (== with -0==+0, NaN==NaN; missing derivative slots read as 0); operands k/8 resp. small integers, divisors powers of two; Equals uses epsilon 0.5 with perturbations 0, 0.25, 1",
    "assumptions": ["expected element = fresh library scalar of the receiver's element type .Op(a_i, b_i): scalar arithmetic itself is C01/C02's subject",
                    "non-finite operands are excluded (a structural zero times Inf is NaN in dense and absent in sparse storage; the property does not speak about it)"],
}

META = {
    "text": "Differential over all storage combinations plus dense reference model, on ~800k (quick) / ~8M (thorough) generated operand sets covering every "
            "listed operation, element type, prior receiver content and zero pattern; held on the cases executed (per-operation, per-type and per-combination "
            "counts in the evidence), plus lock-step histories on the read-only sparse vectors and their ConstSlice views against a per-object []float64 model. "
            "Larger dimensions and non-finite values are not covered.",
    "design_ref": "DESIGN.md section 3, C03",
    "note": "Trusted: the dense model in harness/c03 built from the library's scalar operations; internal/snap comparison; the dyadic operand grid that makes "
            "exact comparison order independent.",
    "technique": "runtime monitoring: storage-combination differential + dense reference model, exact comparison on a dyadic grid",
}
