# configuration of the C17 check (driver) and its MANIFEST entry

CFG = {
 'race': True,            # second worker binary built with -race; reports classified by driver/oracles/c17_race.py
 'race_shards': 8,
 'gomaxprocs': 4,         # >1 so that pool threads really run in parallel; schedules come from GOMAXPROCS x Yield plans
 'race_gomaxprocs': 4,
 'rule': 'every entry point of /repo/statistics that takes a threadpool.ThreadPool (30: closed-form scalar estimators normal / Poisson / '
         'exponential / geometric / negative binomial / categorical / log-transform / translation through Estimate and EstimateOnData, weighted '
         'and unweighted; vector normal, ScalarId, ScalarIid, matrix VectorId; EM of scalar, summarised-data, vector and matrix mixtures; Baum-Welch '
         'of vector, matrix and shape HMMs and of an HMM with mixture emissions (nested job groups); EvaluateLogPdf of the eight data-set types; '
         'the numeric estimator (Newton); sparse L1 logistic regression) is run once with the zero-value pool (sequential reference) and then with '
         'threadpool.New(k, b) under seeded perturbation plans of the Yield hooks (none / Gosched bursts / 0-200 us sleeps / mixed / submitting '
         'thread late at Wait / workers slow / some threads consistently slow).  grid = full product entry x k in {1,2,3,4,8,17} x b in {1,100} x '
         '{fewer, equal, more jobs than threads} (1080 cases x 6 repetitions quick, x 10 thorough); random (1920 quick / 60000 thorough '
         'cases) = random entry, k also in 2..20, b in '
         '{1,2,5,100}, option combination and bad observation at random.  errors = 17 entries whose jobs evaluate densities (EM / Baum-Welch '
         'estimators, the eight EvaluateLogPdf data sets, the numeric estimator) x the same grid, with one observation no component can explain '
         '(non-integer / negative count, value outside the categories, +Inf): the outcome of the sequential run (error or nil, outputs) is the '
         'reference; options = the 8 EM / Baum-Welch entries x {OptimizeEmissions=false, OptimizeWeights/Transitions=false, both} x the same '
         'grid (includes pools larger than the number of observations / records); densities = every scalar density '
         'type of the library (21: the estimators\' families, PdfTranslation / PdfLogTransform from the wrapper estimators and around other '
         'densities, nested PdfTranslation, Mixture, gamma, chi-squared, generalised gamma, Cauchy, Laplace, GEV, generalised Pareto, Pareto, '
         'power law, beta, binomial, negative binomial) x the four scalar data-set EvaluateLogPdf entries x k in {2,4,17} with 8-24 '
         'observations per thread; the wrapper estimators / densities are also components of the mixture and HMM estimators and of the vector '
         '/ matrix data sets (ScalarId, ScalarIid, VectorId, VectorIid over them).  Per parallel run: (1) outputs (likelihood per step, all parameters / the table of log densities) against the sequential '
         'run; (2) Event log: same multiset of (site, item) as the sequential run (lost / double), nothing logged after the call returned (late), '
         'thread id < k and used by one goroutine per call; (4) watchdog in logical steps.  (3) the race build runs one case in two of the same '
         'list (no Event hook there, its mutex would order the threads for the detector).  non-trivial = parallel run with k >= 2 that was judged '
         'and in which >= 2 goroutines executed jobs; distinct by entry+variant+k+b+items+data hash',
 'tolerances': 'differential: |a-b| <= K * terms * eps * max(1,|a|,|b|), eps = 2^-52, terms = number of accumulated contributions (observations x '
               'components / states^2); K = 2^10 for closed forms (one reduction; the generated '
               'data keep the condition of the closed forms below 1e3) and for value / gradient / Hessian of the numeric estimator\'s objective at '
               'bit-identical variables while the optimiser trajectory is identical (scaled by the largest entry of the evaluation; line-search '
               'evaluations and everything after a divergence of the Newton trajectory are not judged), K = 2^16 for 1-3 EM / Baum-Welch steps and the final Newton parameters '
               '(each step amplifies by the Lipschitz constant of the EM map; the number of steps is fixed by epsilon = -1e300 so it cannot depend '
               'on rounding).  Observed maxima are in monitor_counters ("max:observed |diff|/(terms*eps*scale)").  One lost or doubled '
               'contribution moves an output by >= ~1e-3/n relative (every observation has a distinct value and >= 1/(4n) of the weight), i.e. '
               '>= 1e3 allowances at K = 2^16 (the mutants move outputs by 1e7..1e14 allowances).  EvaluateLogPdf tables: bit-identical (no reduction).  Logistic regression: pool of 1 == sequential '
               'bit-identical; k > 1: repetitions bit-identical with each other (see assumptions).  Error path: a parallel run that returns nil where the sequential run returned an error is charged '
               '(error-lost) when no repetition of >= 3 returned the error; a loss in some repetitions only is the thread pool dependency '
               '(its job wrapper runs wg.Done before the worker stores the error: 8 of 12e6 runs of a program using only threadpool) and is '
               'counted, not charged.  Deadlock: no Event/Yield for 20 s wall AND '
               '< 0.5 s process CPU in that window AND every goroutine of the call blocked in the dump; otherwise not judged.',
 'assumptions': ['the zero-value threadpool.ThreadPool executes jobs inline on the caller (threadpool@0302c226b91e) and is the sequential reference',
                 'sparse L1 logistic regression with k > 1 threads is by design another estimator than the sequential one (k SAGA workers on '
                 'their own samples, parameters combined by the median after every epoch): it is checked for schedule independence at fixed k '
                 'and against the race detector, its difference to the sequential estimate is recorded but not judged',
                 'race reports whose two access stacks lie inside github.com/pbenner/threadpool are counted and not charged',
                 'schedules are those the Go scheduler produces at GOMAXPROCS=4 under the perturbation plans; no systematic enumeration',
                 'normal scale parameters are floored at SigmaMin = 0.3 in every workload: a component that collapses onto one or two '
                 'observations would otherwise get sigma = sqrt(rounding noise of E[x^2]-E[x]^2) (C16 finding on one-pass moments), which no '
                 're-association bound covers',
                 'classifiers take no thread pool; ScalarBatchId / VectorBatchId are driven through the shape HMM only'],
 'min_cov': {
             'density:beta': 9,
             'density:binomial': 9,
             'density:categorical': 9,
             'density:cauchy': 9,
             'density:chiSquared': 9,
             'density:gamma': 9,
             'density:generalizedGamma': 9,
             'density:gev': 10,
             'density:gpareto': 9,
             'density:laplace': 9,
             'density:logTransform': 9,
             'density:logTransform(laplace)': 9,
             'density:mixture(normal,normal)': 9,
             'density:negativeBinomial': 9,
             'density:normal': 8,
             'density:pareto': 9,
             'density:poisson': 9,
             'density:powerLaw': 10,
             'density:translation': 10,
             'density:translation(gamma)': 10,
             'density:translation(translation(normal))': 9,
             'distinct option cells': 537,
             'error-path:cases': 693,
             'error-path:parallel run reports the error too': 2169,
             'error-path:reports the error:matrixEstimator.HmmStdDataSet.EvaluateLogPdf': 37,
             'error-path:reports the error:matrixEstimator.MixtureStdDataSet.EvaluateLogPdf': 38,
             'error-path:reports the error:matrixEstimator.hmm': 38,
             'error-path:reports the error:matrixEstimator.mixture': 37,
             'error-path:reports the error:matrixEstimator.shapeHmm': 40,
             'error-path:reports the error:scalarEstimator.MixtureStdDataSet.EvaluateLogPdf': 39,
             'error-path:reports the error:scalarEstimator.MixtureSummarizedDataSet.EvaluateLogPdf': 34,
             'error-path:reports the error:scalarEstimator.mixture': 38,
             'error-path:reports the error:scalarEstimator.mixture_discrete': 37,
             'error-path:reports the error:vectorEstimator.HmmStdDataSet.EvaluateLogPdf': 36,
             'error-path:reports the error:vectorEstimator.HmmSummarizedDataSet.EvaluateLogPdf': 39,
             'error-path:reports the error:vectorEstimator.MixtureStdDataSet.EvaluateLogPdf': 37,
             'error-path:reports the error:vectorEstimator.hmm': 40,
             'error-path:reports the error:vectorEstimator.hmm(mixture-emissions)': 34,
             'error-path:reports the error:vectorEstimator.mixture': 36,
             'error-path:sequential run reports the error': 610,
             'options:OptimizeEmissions=false': 309,
             'options:OptimizeWeights/Transitions=false': 316,
             'options:nothing-optimized': 313,
             'branch:all-jobs-on-submitting-thread': 2034,
             'branch:some-thread-never-used': 6574,
             'branch:thread-0-never-used': 2165,
             'buf:1': 1157,
             'buf:100': 811,
             'calls:parallel': 14253,
             'calls:sequential': 2670,
             'distinct cells': 1086,
             'distinct completion orders (all entries)': 5361,
             'distinct completion orders matrixEstimator.HmmStdDataSet.EvaluateLogPdf': 174,
             'distinct completion orders matrixEstimator.MixtureStdDataSet.EvaluateLogPdf': 178,
             'distinct completion orders matrixEstimator.ShapeHmmDataSet.EvaluateLogPdf': 162,
             'distinct completion orders matrixEstimator.hmm': 183,
             'distinct completion orders matrixEstimator.mixture': 186,
             'distinct completion orders matrixEstimator.shapeHmm': 189,
             'distinct completion orders matrixEstimator.vectorId': 172,
             'distinct completion orders scalarEstimator.MixtureStdDataSet.EvaluateLogPdf': 157,
             'distinct completion orders scalarEstimator.MixtureSummarizedDataSet.EvaluateLogPdf': 68,
             'distinct completion orders scalarEstimator.categorical': 172,
             'distinct completion orders scalarEstimator.exponential': 158,
             'distinct completion orders scalarEstimator.geometric': 149,
             'distinct completion orders scalarEstimator.logTransform': 148,
             'distinct completion orders scalarEstimator.mixture': 182,
             'distinct completion orders scalarEstimator.mixture_discrete': 168,
             'distinct completion orders scalarEstimator.negativeBinomial': 142,
             'distinct completion orders scalarEstimator.normal': 138,
             'distinct completion orders scalarEstimator.numeric': 163,
             'distinct completion orders scalarEstimator.poisson': 165,
             'distinct completion orders scalarEstimator.translation': 155,
             'distinct completion orders vectorEstimator.HmmStdDataSet.EvaluateLogPdf': 166,
             'distinct completion orders vectorEstimator.HmmSummarizedDataSet.EvaluateLogPdf': 81,
             'distinct completion orders vectorEstimator.MixtureStdDataSet.EvaluateLogPdf': 156,
             'distinct completion orders vectorEstimator.hmm': 194,
             'distinct completion orders vectorEstimator.hmm(mixture-emissions)': 186,
             'distinct completion orders vectorEstimator.logisticRegression': 109,
             'distinct completion orders vectorEstimator.mixture': 140,
             'distinct completion orders vectorEstimator.normal': 149,
             'distinct completion orders vectorEstimator.scalarId': 164,
             'distinct completion orders vectorEstimator.scalarIid': 173,
             'distinct job-to-thread maps (all entries)': 5850,
             'distinct job-to-thread maps matrixEstimator.HmmStdDataSet.EvaluateLogPdf': 185,
             'distinct job-to-thread maps matrixEstimator.MixtureStdDataSet.EvaluateLogPdf': 196,
             'distinct job-to-thread maps matrixEstimator.ShapeHmmDataSet.EvaluateLogPdf': 184,
             'distinct job-to-thread maps matrixEstimator.hmm': 207,
             'distinct job-to-thread maps matrixEstimator.mixture': 187,
             'distinct job-to-thread maps matrixEstimator.shapeHmm': 216,
             'distinct job-to-thread maps matrixEstimator.vectorId': 180,
             'distinct job-to-thread maps scalarEstimator.MixtureStdDataSet.EvaluateLogPdf': 166,
             'distinct job-to-thread maps scalarEstimator.MixtureSummarizedDataSet.EvaluateLogPdf': 131,
             'distinct job-to-thread maps scalarEstimator.categorical': 183,
             'distinct job-to-thread maps scalarEstimator.exponential': 163,
             'distinct job-to-thread maps scalarEstimator.geometric': 163,
             'distinct job-to-thread maps scalarEstimator.logTransform': 169,
             'distinct job-to-thread maps scalarEstimator.mixture': 193,
             'distinct job-to-thread maps scalarEstimator.mixture_discrete': 179,
             'distinct job-to-thread maps scalarEstimator.negativeBinomial': 152,
             'distinct job-to-thread maps scalarEstimator.normal': 147,
             'distinct job-to-thread maps scalarEstimator.numeric': 180,
             'distinct job-to-thread maps scalarEstimator.poisson': 182,
             'distinct job-to-thread maps scalarEstimator.translation': 159,
             'distinct job-to-thread maps vectorEstimator.HmmStdDataSet.EvaluateLogPdf': 180,
             'distinct job-to-thread maps vectorEstimator.HmmSummarizedDataSet.EvaluateLogPdf': 133,
             'distinct job-to-thread maps vectorEstimator.MixtureStdDataSet.EvaluateLogPdf': 178,
             'distinct job-to-thread maps vectorEstimator.hmm': 214,
             'distinct job-to-thread maps vectorEstimator.hmm(mixture-emissions)': 202,
             'distinct job-to-thread maps vectorEstimator.logisticRegression': 108,
             'distinct job-to-thread maps vectorEstimator.mixture': 149,
             'distinct job-to-thread maps vectorEstimator.normal': 169,
             'distinct job-to-thread maps vectorEstimator.scalarId': 176,
             'distinct job-to-thread maps vectorEstimator.scalarIid': 177,
             'entry:matrixEstimator.HmmStdDataSet.EvaluateLogPdf': 84,
             'entry:matrixEstimator.MixtureStdDataSet.EvaluateLogPdf': 87,
             'entry:matrixEstimator.ShapeHmmDataSet.EvaluateLogPdf': 73,
             'entry:matrixEstimator.hmm': 83,
             'entry:matrixEstimator.mixture': 88,
             'entry:matrixEstimator.shapeHmm': 86,
             'entry:matrixEstimator.vectorId': 81,
             'entry:scalarEstimator.MixtureStdDataSet.EvaluateLogPdf': 80,
             'entry:scalarEstimator.MixtureSummarizedDataSet.EvaluateLogPdf': 78,
             'entry:scalarEstimator.categorical': 81,
             'entry:scalarEstimator.exponential': 74,
             'entry:scalarEstimator.geometric': 73,
             'entry:scalarEstimator.logTransform': 88,
             'entry:scalarEstimator.mixture': 82,
             'entry:scalarEstimator.mixture_discrete': 84,
             'entry:scalarEstimator.negativeBinomial': 73,
             'entry:scalarEstimator.normal': 72,
             'entry:scalarEstimator.numeric': 80,
             'entry:scalarEstimator.poisson': 90,
             'entry:scalarEstimator.translation': 72,
             'entry:vectorEstimator.HmmStdDataSet.EvaluateLogPdf': 88,
             'entry:vectorEstimator.HmmSummarizedDataSet.EvaluateLogPdf': 76,
             'entry:vectorEstimator.MixtureStdDataSet.EvaluateLogPdf': 82,
             'entry:vectorEstimator.hmm': 86,
             'entry:vectorEstimator.hmm(mixture-emissions)': 78,
             'entry:vectorEstimator.logisticRegression': 79,
             'entry:vectorEstimator.mixture': 75,
             'entry:vectorEstimator.normal': 83,
             'entry:vectorEstimator.scalarId': 76,
             'entry:vectorEstimator.scalarIid': 90,
             'events-checked': 894899,
             'outputs-compared:EM': 3779,
             'outputs-compared:closed-form': 6003,
             'outputs-compared:schedule-only': 399,
             'outputs-compared:table(exact)': 3665,
             'partition:jobs<threads': 791,
             'partition:jobs=threads': 976,
             'partition:jobs>threads': 895,
             'plan:gosched': 1723,
             'plan:hold-main': 1745,
             'plan:hold-workers': 1726,
             'plan:mixed': 1756,
             'plan:none': 3561,
             'plan:sleep': 1722,
             'plan:stagger': 1755,
             'pool:1': 352,
             'pool:17': 361,
             'pool:2': 354,
             'pool:3': 384,
             'pool:4': 370,
             'pool:8': 369,
             'calls:parallel under the race detector': 2500,
             'race canary reports (detector self-test, not charged)': 6},
}

META = {'design_ref': 'DESIGN.md section 3, C17',
 'technique': 'runtime monitoring: differential against the sequential run under seeded schedule perturbation (Yield hooks), offline check of '
              'the Event hook log (exactly-once, thread-id ownership), Go race detector (sanitizer build), progress watchdog in logical steps',
 'text': 'All 30 thread-pool entry points of the statistics packages are executed with pool sizes 1,2,3,4,8,17 (and random sizes up to 20), '
         'buffer sizes 1 and 100, and fewer / equal / more jobs than threads, under seeded perturbation plans of the schedule; estimates, '
         'likelihoods and log-density tables are compared with the sequential run up to re-association of the reductions, the hook log is checked '
         'for lost, doubled and late contributions and for thread ids shared between goroutines, the same workload runs under the Go race '
         'detector, and a watchdog counting hook events reports calls whose goroutines are all blocked.  Held on the schedules observed (the '
         'evidence lists distinct job-to-thread maps and completion orders per entry point); interleavings the Go scheduler did not produce '
         'and races in code the workload does not drive are out of reach.',
 'note': 'Trusted: threadpool dependency semantics, the hooks of commit 8d9bf84, runtime.Stack goroutine ids, the race detector.'}
