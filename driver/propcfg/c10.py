# configuration of the C10 check (driver) and its MANIFEST entry

CFG = {
    "rule": "parent matrices with distinct entries (k+1 at storage position k, a quarter zeroed/absent, Real types with derivative slots) and a view "
            "descriptor: EVERY Slice(r0,r1,c0,c1) of every shape up to 3x3 (quick) / 4x4 (thorough) alone, followed by T(), and applied to the transpose, "
            "plus random compositions of Slice and T of depth 1-3 on parents up to 5x5 / 6x6, dense and sparse, all nine element types; vector slices and "
            "nested vector slices. Per case: (1) addressing - ConstAt/At/Float64At of every view index equals the parent element given by the symbolic "
            "composition of the descriptor, out-of-view indices panic; (2) write-through of At(i,j).Set through the view to exactly the mapped parent "
            "element, independence of Row/Col/Diag/CloneMatrix/AsDense/AsSparse copies, Tip() == former T() on owning matrices; (3) view == deep copy: "
            "31 read-only operations (iterators incl. From and Joint, String, Table, MarshalJSON, Export, AsVector/AsConstVector as length+multiset, rows, "
            "columns, diagonals, IsSymmetric, Reduce, Mnorm, Mtrace, Equals, the view as operand of MaddM/MsubM/MmulM/MmulS/MdotM (left and right)/MdotV/"
            "VdotM/Set into dense and sparse receivers, T and Slice of the view) give identical fingerprints on the view and on a compact deep copy built from "
            "the model, the parent stays unchanged; 18 mutating operations with the view as receiver (4 per case, each on a fresh parent) leave the view "
            "equal to the deep copy and change the parent only inside the window. non-trivial = non-empty proper view; distinct by type+storage+parent+descriptor hash",
    "min_cov": {"addressing": 5000, "write-through:present": 2000, "write-through:absent-or-zero": 500, "copies": 2000, "Tip": 50,
                "read-op:ConstIterator": 3000, "read-op:JointIterator": 3000, "read-op:Export": 3000, "read-op:operand:MdotM-left": 3000,
                "write-op:recv:Reset": 300, "write-op:recv:MdotM": 300, "write-op:recv:SymmetricPermutation": 50, "write-op:recv:Iterator-write": 300,
                "view-class:S": 1000, "view-class:ST": 1000, "view-class:TS": 1000, "view-class:STS": 20, "vector-addressing": 2000, "vector-write-through:present": 500},
    "min_evaluations": 15000,
    "tolerances": "exact comparison (== with -0==+0, NaN==NaN; missing derivative slots read as 0); textual results (String/Table/JSON/Export) byte for byte",
    "assumptions": ["Slice(r0,r1,c0,c1).At(i,j) = At(r0+i,c0+j), T().At(i,j) = At(j,i): the symbolic composition in harness/c10 (vmodel) is the definition",
                    "AsVector/AsConstVector are compared as length + multiset because the interface documents their order as unspecified",
                    "reference views = Slice, T, vector Slice; copies = Row, Col, Diag, Clone*, As*; AsMatrix/AsVector write-through is not judged (unspecified)"],
}

META = {
    "text": "Symbolic index model plus view-vs-deep-copy differential over all slice bounds of small shapes (enumerated) and random nested compositions, for "
            "every element type and both storages; ~45k (quick) / ~4.3M (thorough) view cases x ~37 operations each. Held on the views and operations "
            "executed (view-class and per-operation counts in the evidence); deeper nestings and larger parents are sampled only.",
    "design_ref": "DESIGN.md section 3, C10",
    "note": "Trusted: the affine index model (vmodel) and the deep-copy builder in harness/c10; internal/snap comparison.",
    "technique": "runtime monitoring: lock-step index model + view-vs-deep-copy differential, exhaustive over slice bounds of small shapes",
}
