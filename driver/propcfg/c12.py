# configuration of the C12 check (driver) and its MANIFEST entry

# minimum coverage counters: half of the smallest value seen on the unchanged tree at seeds 1,2,3,7,42 (quick tier)
MIN_COV = {}

CFG = {
 'rule': 'COPIES: (copy.scalar) CloneScalar / CloneConstScalar / CloneMagicScalar / typed Clone of the nine scalar types; (copy.vector, copy.matrix) '
         'CloneVector|Matrix, CloneConst*, CloneMagic*, typed Clone, As{Dense,Sparse}{Vector,Matrix}(same and other element type), As{Dense,Sparse}Magic* of '
         'every element type x dense/sparse storage x view {full, slice, slice of slice; matrices also T, slice.T, T.slice, T.T}; (copy.iterator) every '
         'Clone*Iterator of const / mutable / magic / joint iterators of vectors and matrices, positioned after a random number of steps; (copy.avl) '
         'AvlTree.Clone and AvlIterator.Clone; (copy.gradient) DenseGradient.Clone; (dist, modes 0/1) Clone and Clone{Scalar,Vector,Matrix}Pdf of all 42 '
         'distribution families; estimator and classifier clones inside input.estimator / input.classifier. Procedure: snapshot source (and the parent of a '
         'view), copy, compare copy with source (elements, derivative slots, dimensions, iteration sequence; distributions: type, parameters, LogPdf at '
         'probes), check that copying left the source unchanged, then apply 2-5 seeded mutations (element write, in-place arithmetic, derivative write '
         'without reallocation, Set, Map, bulk arithmetic with self as operand, Reset, reorder, writes through sub-views / T() / AsVector(); distributions: '
         'SetParameters; trees: Insert/Delete; iterators: draining) to ONE side (source, parent of the source, or copy) and re-snapshot the OTHER side after '
         'every mutation. INPUTS: (input.op) every vector / matrix / scalar operation of the interfaces with a receiver distinct from the operands, operands '
         'of every element type, dense or sparse, plain or views (parents are watched too); (input.algorithm) all 24 packages under algorithm/ (29 entry '
         'points) x every option combination (options enumerated as bits, documented in-situ buffers passed empty; the in-place API of gaussJordan, '
         'givensRotation.Apply*, householder.Apply* is exercised only for its read-only arguments) x element type Float64/Real64/Float32/Real32 x input '
         'handed over as plain matrix, slice of a larger matrix or transposed view; optimizers get x0 of all nine element types; loop budget 20000 ticks '
         '(exceeded -> skipped:no-return); (dist, mode 2) constructor argument scalars of every distribution family are overwritten after construction: '
         'parameters and LogPdf must not move (vector / matrix arguments: recorded as observation, not judged); (dist, mode 3) LogPdf arguments and '
         'constructor arguments unchanged by LogPdf; (input.estimator) 13 estimators x weighted/unweighted x SetData+Estimate / EstimateOnData: data, log '
         'weights and constructor slices unchanged, a clone taken before keeps its parameters; (input.classifier) Eval arguments unchanged. Every argument '
         'is snapshotted before and compared after under the exact policy (bit patterns of values and derivative slots, N/Order, dimensions, iteration '
         'sequence, String()). A failing option combination is minimised by clearing option bits on the same generator stream. non-trivial = copy of an '
         'object with content followed by >= 1 mutation / a call that ran with >= 1 watched argument; distinct by routine, view, options and content',
 'tolerances': 'exact comparison (bit patterns; -0 and +0 are different values for unchanged-input checks; copies are compared with ==, missing derivative slots read as 0)',
 'assumptions': ['member conversions AsMatrix / AsVector / AsConstMatrix and Slice / T are documented views that share storage and are not copies',
                 'Convert*Scalar is not a clone (C02 decides it); Reset() on a view and the coordinates of dense-matrix iterators are C10 subjects: views '
                 'whose construction or element-wise read panics are skipped and counted',
                 'SetParameters of vector/matrix mixtures calls itself without bound (would kill the worker): those two families are cloned and compared but not mutated',
                 'operand values come from the dyadic grid k/8 (integers for conversions between element types) so that in-place arithmetic stays exact'],
 'min_cov': MIN_COV,
}

META = {'design_ref': 'DESIGN.md section 3, C12',
 'technique': 'runtime monitoring: observable-state snapshots (public read API) before/after every copy, mutation and call; seeded mutation histories on '
              'one side of a copy with the other side as the monitored object',
 'note': 'Trusted: the snapshot reader (harness/internal/snap + harness/c12/shots.go), the generators in harness/c18/distcat. The monitor observes through '
         'the public read API only; state that no read can reach is outside the property.',
 'text': 'Every Clone*/As* of every scalar, vector and matrix type (incl. views and sparse storage), iterator clones, AvlTree.Clone, DenseGradient.Clone and '
         'the Clone* of all distribution families, estimators and classifiers are compared with their source and then exposed to seeded mutation sequences on '
         'one side while the other side is re-snapshotted after each step. Every operation of the container interfaces, all 29 algorithm entry points with '
         'all option combinations, distribution constructors, LogPdf, estimators and classifiers are run with snapshotted arguments that must be bit-identical '
         'afterwards. Held on the executions observed (coverage per routine, view class, mutation class and option cell in the evidence); not a proof: '
         'sharing that no sequence of the listed mutations exposes stays invisible.'}
