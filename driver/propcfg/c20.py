# configuration of the C20 check (driver) and its MANIFEST entry

CFG = {
 'hang_is_violation': True,
 'rule': 'placeholder',
 'min_cov': {},
}

META = {
 'design_ref': 'DESIGN.md section 3, C20',
 'technique': 'runtime monitoring',
 'text': 'placeholder',
 'note': '',
}
