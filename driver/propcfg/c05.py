# configuration of the C05 check (driver) and its MANIFEST entry

CFG = {
 'rule': 'placeholder',
 'min_cov': {},
 'tolerances': {},
}

META = {'design_ref': 'DESIGN.md section 3, C05', 'note': '', 'technique': 'runtime monitoring', 'text': 'placeholder'}
