"""Per-property configuration of the driver: sharding, minimum coverage that a
run must observe (otherwise inconclusive), the non-triviality rule printed in
the evidence, tolerances and assumptions."""

PROPS = {
    "C19": {
        "rule": "random histories (50-400 operations: Insert/Delete/Clone/Iterator/IteratorFrom/iterator Clone/Next/FindNode/FindNodeLE) over dense "
                "universes of 4-64 keys, sparse extreme keys and iterator-stress histories aimed at the iterator's current element, plus the exhaustive "
                "enumeration of all histories of length L over {ins k, del k, next} with 4 keys and one live iterator; after EVERY operation: return value, "
                "membership of every universe key, BST order, parent links, stored balance = height difference in {-1,0,1}, no reachable deleted node, full "
                "ascending iteration, every live iterator at the model successor. non-trivial = history with >=1 structural mutation followed by >=1 read "
                "(Next/Find) (exhaustive groups count once per group of 2000 histories); distinct by universe+history hash",
        "min_cov": {"hook:avl.rotateLL": 100, "hook:avl.rotateLR": 100, "hook:avl.rotateRR": 100, "hook:avl.rotateRL": 100,
                    "hook:avl.delete.twoChildren": 100, "hook:avl.delete.leaf": 100, "hook:avl.delete.leftOnly": 100, "hook:avl.delete.rightOnly": 100,
                    "next-after-delete-of-current": 100, "exhaustive-histories": 1000},
        "assumptions": ["iterator semantics: Next moves to the successor, in the current set, of the value last returned (validated against the unchanged tree)",
                        "exported AvlNode fields (Left/Right/Parent/Balance/Deleted) are read directly by the structural invariant walker"],
    },
}
