"""Collects the per-property configuration modules driver/propcfg/cNN.py.

Each module defines
  CFG  : dict for the driver — "rule" (how cases are generated and what makes one non-trivial/distinct; printed in the evidence), optional
         "min_cov" {counter: minimum} (a run below it is INCONCLUSIVE), "oracle" (module name under driver/oracles with judge(files, opts)),
         "race" (also run the -race worker), "hang_is_violation", "shards", "parallel", "mem_gb", "gomaxprocs", "tolerances", "assumptions"
  META : dict for MANIFEST.json — "text", "design_ref", "note", "technique"
"""
import importlib, os, pkgutil
PROPS, META = {}, {}
_d = os.path.join(os.path.dirname(os.path.abspath(__file__)), "propcfg")
for _f in sorted(os.listdir(_d)):
    if _f.startswith("c") and _f.endswith(".py"):
        _m = importlib.import_module("propcfg." + _f[:-3])
        _id = _f[:-3].upper()
        PROPS[_id] = _m.CFG
        META[_id] = _m.META
