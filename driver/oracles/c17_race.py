"""C17, monitor 3: classification of Go race detector reports.

run.py collects the text blocks "WARNING: DATA RACE ..." from <rundir>/race.*
and calls classify(race_reports, cov).  A report has two access stacks (the
racing accesses) followed by goroutine creation stacks.

* a report whose two access stacks contain no frame outside
  github.com/pbenner/threadpool (and the Go runtime) is a dependency report:
  counted in cov, not charged to the repository;
* the report of the harness' own deliberate race (c17.raceCanary, once per race
  worker) is counted as detector self-test and not charged;
* the other reports are deduplicated by the entry point of each access stack
  (outermost github.com/pbenner/autodiff frame of the job that performs the
  access, see _entry; the "entry-point pair"), then by the pair of stacks
  with line numbers stripped;
* every distinct entry-point pair becomes one violation
  C17|race|<entry a> <> <entry b>; the number of distinct stack pairs and of raw
  reports is given in the detail.

The case a report belongs to is recovered from the "race-attrib" data events
the race worker writes after every library call during which the detector's
report counter moved (harness/c17/c17.go), matched by pid and report ordinal.
"""
import glob, json, os, re

LIB = "github.com/pbenner/autodiff"
DEP = "github.com/pbenner/threadpool"
HARNESS = "verifharness/"
CANARY = "race canary reports (detector self-test, not charged)"

_re_access = re.compile(r"^(Read|Write|Previous read|Previous write|Atomic read|Atomic write|Previous atomic read|Previous atomic write)\b.* by (main goroutine|goroutine \d+)", re.I)
_re_line = re.compile(r":\d+( \+0x[0-9a-f]+)?$")


def _stacks(block):
    """-> list of (header, [function names]) for the access stacks of a report."""
    stacks, cur = [], None
    lines = block.split("\n")
    i = 0
    while i < len(lines):
        l = lines[i].rstrip()
        s = l.strip()
        if _re_access.match(s):
            cur = (s, [])
            stacks.append(cur)
        elif s.startswith("Goroutine ") or s.startswith("Location ") or s.startswith("Mutex "):
            cur = None
        elif cur is not None and s and not l.startswith("      ") and l.startswith("  ") and "(" in s:
            # a function line "  pkg.func(...)"; the next line is the file position
            fn = s[:s.rfind("(")] if s.endswith(")") else s
            cur[1].append(fn)
        i += 1
    return stacks[:2]


def _entry(frames):
    """Entry point of an access stack: the outermost library frame of the job the
    access belongs to, i.e. the outermost github.com/pbenner/autodiff frame
    below (called from) the innermost thread-pool frame; for an access outside
    any job (e.g. the merge loop after Wait) the outermost library frame (the
    API entry).  Taking the outermost library frame of the whole stack would
    name one and the same job `EstimateOnData' when the submitting thread runs
    it inside Wait and `<job closure>' when a worker runs it."""
    k = 0
    while k < len(frames) and not frames[k].startswith(LIB):
        k += 1  # the access itself may sit in pool / runtime / sync code called by the library
    inner = []
    for f in frames[k:]:  # innermost first
        if f.startswith(DEP):
            break
        inner.append(f)
    lib = [f for f in inner if f.startswith(LIB) and "/verifhook." not in f]
    return _short(lib[-1]) if lib else None


def _short(fn):
    fn = fn.replace(LIB + "/", "").replace(LIB + ".", "")
    fn = re.sub(r"\.func\d+(\.\d+)*$", ".func", fn)
    return fn


def _innermost(frames):
    lib = [f for f in frames if f.startswith(LIB) and "/verifhook." not in f]
    return _short(lib[0]) if lib else (frames[0] if frames else "?")


def _attribution(rundir=None):
    """(pid, ordinal) -> case id, from the race shards' data events; and block text -> (pid, ordinal)."""
    here = os.path.dirname(os.path.dirname(os.path.dirname(os.path.abspath(__file__))))
    rundir = rundir or os.path.join(here, ".build", "run", "C17")
    by_pid = {}
    for f in glob.glob(os.path.join(rundir, "shardrace_*.jsonl")) + glob.glob(os.path.join(rundir, "replay.jsonl")):
        try:
            for line in open(f, errors="replace"):
                if '"race-attrib"' not in line:
                    continue
                e = json.loads(line)
                by_pid.setdefault(e["pid"], []).append((e["reports_after"] - e["reports_new"], e["reports_after"], e.get("case"), e.get("entry"), e.get("cfg")))
        except Exception:
            pass
    where = {}
    for rf in glob.glob(os.path.join(rundir, "race.*")):
        try:
            pid = int(rf.rsplit(".", 1)[1])
        except ValueError:
            continue
        k = 0
        for block in open(rf, errors="replace").read().split("==================")[1:]:
            if "WARNING: DATA RACE" in block:
                where.setdefault(block, (pid, k))
                k += 1
    return by_pid, where


def classify(race_reports, cov, rundir=None):
    by_pid, where = _attribution(rundir)
    groups = {}
    dep = 0
    harness_only = 0
    for block in race_reports:
        st = _stacks(block)
        if len(st) < 2:
            cov["race reports: unparsed"] = cov.get("race reports: unparsed", 0) + 1
            continue
        frames = [s[1] for s in st]
        if any("c17.raceCanary" in f for fr in frames for f in fr):
            cov[CANARY] = cov.get(CANARY, 0) + 1
            continue
        outside = [f for fr in frames for f in fr if not f.startswith(DEP) and not f.startswith("runtime.") and not f.startswith("sync.") and not f.startswith("sync/")]
        if not outside:
            dep += 1
            continue
        entries = [_entry(fr) for fr in frames]
        if entries[0] is None and entries[1] is None:
            # neither access is below a library frame: the harness itself
            harness_only += 1
            key = "harness:" + " <> ".join(sorted(_innermost(fr) for fr in frames))
        else:
            key = " <> ".join(sorted(e or "(outside the library)" for e in entries))
        pair = tuple(sorted(" < ".join(_re_line.sub("", f) for f in fr) for fr in frames))
        g = groups.setdefault(key, {"pairs": {}, "n": 0, "first": block, "inner": sorted(_innermost(fr) for fr in frames), "hdr": [s[0] for s in st]})
        g["n"] += 1
        g["pairs"][pair] = g["pairs"].get(pair, 0) + 1
    cov.setdefault(CANARY, 0)
    cov["race reports: total"] = cov.get("race reports: total", 0) + len(race_reports)
    cov["race reports: inside the threadpool dependency only (not charged)"] = cov.get("race reports: inside the threadpool dependency only (not charged)", 0) + dep
    cov["race reports: distinct entry-point pairs"] = cov.get("race reports: distinct entry-point pairs", 0) + len(groups)
    cov["race reports: distinct stack pairs"] = cov.get("race reports: distinct stack pairs", 0) + sum(len(g["pairs"]) for g in groups.values())
    viols = []
    for key, g in sorted(groups.items()):
        case, extra = None, ""
        w = where.get(g["first"])
        if w:
            pid, k = w
            for lo, hi, cs, entry, cfg in by_pid.get(pid, []):
                if lo <= k < hi:
                    case, extra = cs, f" (first seen in case {cs}: {entry}, {cfg})"
                    break
        if case is None:
            # any attributed case of the same process, else the first case of the grid
            if w and by_pid.get(w[0]):
                case = by_pid[w[0]][0][2]
            case = case or "grid#0"
        viols.append({
            "case": case,
            "sig": "C17|race|" + key,
            "race": True,
            "detail": f"data race between {g['inner'][0]} and {g['inner'][1]}: {g['n']} report(s), {len(g['pairs'])} distinct stack pair(s){extra}; " + " / ".join(g["hdr"]),
            "witness": {"report": g["first"][:6000], "stack_pairs": [list(p) for p in list(g["pairs"])[:4]]},
        })
    return viols
