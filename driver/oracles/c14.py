"""Offline oracle of C14 (probability distributions are proper and consistent).

Reads the raw events written by harness/c14 (hex floats) and judges them
against textbook log-densities evaluated in mpmath under the parametrisation
of each constructor:

  pts   pointwise LogPdf: formula (condition-scaled tolerance), support
        (-Inf outside, never finite / NaN; a continuous boundary point may carry
        -Inf or the limit of the formula), Float64- vs Real64-held parameters
  quad  normalisation: sum of w_i exp(LogPdf(x_i)) over the nodes of a tanh-sinh
        rule (weights written by the worker and validated here by applying the
        same nodes and weights to the reference density); discrete families
        summed with the reference tail
  cdf   Cdf / LogCdf on a grid: value against the reference CDF, monotone,
        0 below / 1 above the support, dCdf/dx (library AD) = reference density
  wrap  log-transform / translation / mixture / iid / independent product
        against the composition rule applied to the base reference
  mvwrap vector / matrix Mixture, VectorId, VectorIid with heterogeneous components against the composition rule applied
        to the component values (logsumexp with the normalised weights / sum over blocks or rows)
  mv    multivariate normal, t, skew-normal, inverse Wishart, normal inverse
        Wishart against closed forms (cross-checked with scipy.stats at import)
"""
import hashlib
import json
import math
import os
from multiprocessing import Pool

import mpmath as mp

mp.mp.dps = 40
mpf = mp.mpf
EPS = mpf(2) ** -53
NINF, PINF = mpf('-inf'), mpf('inf')

# ---- fixed constants of the oracle (printed in the evidence via propcfg) ----
K_LP = 16        # ulp allowance factor of a log-density: tol = K_LP*eps*(sum|terms| + sum|theta_k dlp/dtheta_k| + |x dlp/dx|)
K_CDF = 64       # same for Cdf values (absolute scale 1) and the AD derivative of Cdf
ILL = mpf(10) ** -6   # points whose tolerance exceeds ILL*max(1,|lp|) are not judged for the formula
Q_TOL = 1e-8     # |sum w_i exp(LogPdf(x_i)) - 1| (DESIGN.md C14 (iii))
Q_CONV = 1e-9    # the rule must reproduce the reference integral to this accuracy, else the case is not judged
REL_STEP = mpf(2) ** -30
LG_FLOOR = 4     # a log-gamma term counts with max(|value|, LG_FLOOR): Go's math.Lgamma has an absolute error of up to 45 eps on (0,2)
                 # (measured against mpmath on a grid of 9000 arguments), i.e. K_LP*LG_FLOOR = 64 eps are allowed per lgamma

TOLERANCES = {
    "formula": "|LogPdf - ref| <= K*eps*(sum|additive terms of the textbook formula| + sum_k|theta_k dlp/dtheta_k| + |x dlp/dx|), K=%d, eps=2^-53, "
               "ref and partials in mpmath at 40 digits; not judged if the bound exceeds 1e-6*max(1,|ref|)" % K_LP,
    "support": "exact: -Inf outside the support; continuous boundary points: -Inf or the limit of the formula; never NaN",
    "normalisation": "|Q-1| <= %g (+ K*eps*4/|xi| for GEV / GPD), judged only if the same nodes/weights applied to the reference density give |Q_ref-I_ref| <= %g "
                     "(discrete: reference tail beyond the last summed atom <= %g)" % (Q_TOL, Q_CONV, Q_CONV),
    "cdf": "|Cdf - F_ref|, |exp(LogCdf) - F_ref| <= K*eps*(1 + |x f(x)| + sum_k|theta_k dF/dtheta_k|), K=%d; monotone up to the sum of the two "
           "tolerances; |dCdf/dx - f_ref| <= K*eps*f_ref*(1 + lp bound/eps) + K*eps*|dF bound|" % K_CDF,
    "type": "Float64- vs Real64-held parameters: same outcome kind and |difference| <= 2*formula tolerance (bit-identical where no tolerance is defined)",
    "multivariate": "formula tolerance with the quadratic-form / log-determinant terms scaled by n*cond_2(Sigma) (cases with cond > 1e8 not judged)",
}


def Hx(s):
    return float.fromhex(s)


def M(s):
    return mpf(float.fromhex(s))


def parse(s):
    """-> ('v', float) | ('err', msg) | ('panic', msg) | ('noderiv', '')"""
    if s.startswith('err:'):
        return ('err', s[4:])
    if s.startswith('panic:'):
        return ('panic', s[6:])
    if s == 'noderiv':
        return ('noderiv', '')
    return ('v', float.fromhex(s))


def sexp(v):
    """exp that never builds numbers with astronomically large exponents (exp(-exp(1e9)) would not return)."""
    if v < -100000:
        return mpf(0)
    if v > 10000000:
        return PINF
    return mp.exp(v)


def xlog(c, v):
    """c*log(v) with 0*log(0) = 0 and log(0) = -inf."""
    if c == 0:
        return mpf(0)
    if v == 0:
        return NINF if c > 0 else PINF
    return c * mp.log(v)


def xmul(c, v):
    """c*v with 0*inf = 0."""
    if c == 0 or v == 0:
        return mpf(0)
    return c * v


def lg(x, sign=1):
    """a log-gamma term of a formula (marked, see LG_FLOOR)"""
    return ('lg', sign * mp.loggamma(x))


def tval(t):
    return t[1] if isinstance(t, tuple) else t


def tmag(t):
    return max(abs(t[1]), mpf(LG_FLOOR)) if isinstance(t, tuple) else abs(t)


def tsum(terms):
    terms = [tval(t) for t in terms]
    pos = any(t == PINF for t in terms)
    neg = any(t == NINF for t in terms)
    if pos and neg:
        return mp.nan
    if pos:
        return PINF
    if neg:
        return NINF
    return mp.fsum(terms)


# ---------------------------------------------------------------------------
# scalar families: support, additive terms of the log-density, CDF
# ---------------------------------------------------------------------------

class Fam:
    def __init__(self, name, support, terms, cdf=None, cont=None, discrete=False, extra=None, fuzzy=None):
        self.name, self.support, self.terms, self.cdf, self.cont, self.discrete = name, support, terms, cdf, cont, discrete
        # extra(P, x): additional error multiplier (units of eps) of a textbook evaluation of the formula where the formula
        # itself contains a cancellation (1 + xi*z for small xi, 1 - exp(x) for x -> 0-)
        self.extra = extra
        # fuzzy(P): absolute uncertainty of the end points of the support when they are not parameters themselves
        # (mu - sigma/xi is rounded by any evaluation); points that close to an end point are judged as "no NaN" only
        self.fuzzy = fuzzy
        self.cdf_extra = None


def _whole(P):
    return (NINF, PINF)


def _gp_support(P):
    mu, s, xi = P
    return (mu, PINF) if xi >= 0 else (mu, mu - s / xi)


def _gp_terms(P, x):
    mu, s, xi = P
    z = (x - mu) / s
    if xi == 0:
        return [-mp.log(s), -z]
    return [-mp.log(s), xlog(-(1 + 1 / xi), 1 + xi * z)]


def _gp_cdf(P, x):
    mu, s, xi = P
    z = (x - mu) / s
    if xi == 0:
        return -mp.expm1(-z)
    return -mp.expm1(-mp.log1p(xi * z) / xi)


def _gev_support(P):
    mu, s, xi = P
    if xi > 0:
        return (mu - s / xi, PINF)
    if xi < 0:
        return (NINF, mu - s / xi)
    return (NINF, PINF)


def _gev_terms(P, x):
    mu, s, xi = P
    z = (x - mu) / s
    if xi == 0:
        return [-mp.log(s), -z, -sexp(-z)]
    t = 1 + xi * z
    if t == 0:
        # end point of the support: t^(-1/xi) -> +inf (xi > 0) or 0 (xi < 0)
        return [-mp.log(s), xlog(-(1 + 1 / xi), t), NINF if xi > 0 else mpf(0)]
    return [-mp.log(s), -(1 + 1 / xi) * mp.log(t), -sexp(-mp.log(t) / xi)]


def _gev_cdf(P, x):
    mu, s, xi = P
    z = (x - mu) / s
    if xi == 0:
        return sexp(-sexp(-z))
    return sexp(-sexp(-mp.log1p(xi * z) / xi))


def _xi_extra(P, x):
    mu, s, xi = P
    if xi == 0:
        return mpf(0)
    z = (x - mu) / s
    t = 1 + xi * z
    if t <= 0:
        return mpf(0)
    rel = (1 + abs(xi * z) / t) + (abs(x) + abs(mu)) / abs(x - mu) * abs(xi * z) / t if x != mu else mpf(1)
    return rel * (abs(1 + 1 / xi) + abs(1 / xi) * sexp(-mp.log(t) / xi))


def _xi_cdf_extra(gev):
    """error multiplier of a textbook evaluation of the CDF: t = 1 + xi*z is rounded before it is raised to -1/xi"""
    def extra(P, x):
        mu, s, xi = P
        if xi == 0:
            return mpf(0)
        z = (x - mu) / s
        t = 1 + xi * z
        if t <= 0:
            return mpf(0)
        rel = 1 + abs(xi * z) / t + ((abs(x) + abs(mu)) / abs(x - mu) * abs(xi * z) / t if x != mu else 0)
        S = sexp(-mp.log(t) / xi)
        if gev:
            S = S * sexp(-S)
        return rel * abs(1 / xi) * S
    return extra


def _xi_fuzzy(P):
    mu, s, xi = P
    if xi == 0:
        return mpf(0)
    return 8 * EPS * (abs(mu) + abs(s / xi))


def _betalog_extra(P, x):
    a, b = P
    if x >= 0:
        return mpf(0)
    return abs(b - 1) * sexp(x) / (-mp.expm1(x))


def _log1m_extra(coef):
    """rounding of 1 - p before the logarithm: absolute error eps/(1-p) times the coefficient of log(1-p)"""
    def extra(P, x):
        c, p = coef(P, x)
        if p >= 1:
            return mpf(0)
        return abs(c) / (1 - p)
    return extra


def _binom_terms(P, k):
    th, n = P
    return [lg(n + 1), lg(k + 1, -1), lg(n - k + 1, -1), xlog(k, th), xlog(n - k, 1 - th)]


def _nb_terms(P, k):
    r, p = P
    return [lg(r + k), lg(k + 1, -1), lg(r, -1), xlog(k, p), xlog(r, 1 - p)]


def _beta_terms(P, x):
    a, b = P
    return [lg(a + b), lg(a, -1), lg(b, -1), xlog(a - 1, x), xlog(b - 1, 1 - x)]


def _betalog_terms(P, x):
    a, b = P
    one_m = -mp.expm1(x)  # 1 - exp(x)
    return [lg(a + b), lg(a, -1), lg(b, -1), xmul(a - 1, x), xlog(b - 1, one_m)]


def _cat_terms(P, k):
    return [xlog(1, P[int(k)])]


def _cat_cdf(P, k):
    if k < 0:
        return mpf(0)
    return mp.fsum(P[:int(k) + 1]) if k < len(P) else mp.fsum(P)


def _laplace_cdf(P, x):
    mu, s = P
    if x < mu:
        return sexp((x - mu) / s) / 2
    return 1 - sexp(-(x - mu) / s) / 2


FAMS = {}


def _reg(*a, **k):
    f = Fam(*a, **k)
    FAMS[f.name] = f


_reg('normal', _whole, lambda P, x: [-mp.log(2 * mp.pi) / 2, -mp.log(P[1]), -((x - P[0]) / P[1]) ** 2 / 2],
     cdf=lambda P, x: mp.ncdf((x - P[0]) / P[1]))
_reg('laplace', _whole, lambda P, x: [-mp.log(2), -mp.log(P[1]), -abs(x - P[0]) / P[1]], cdf=_laplace_cdf)
_reg('cauchy', _whole, lambda P, x: [mp.log(P[1]), -mp.log(mp.pi), -mp.log((x - P[0]) ** 2 + P[1] ** 2)])
_reg('pareto', lambda P: (P[0], PINF), lambda P, x: [mp.log(P[1]), P[1] * mp.log(P[0]), -(P[1] + 1) * mp.log(x)],
     cdf=lambda P, x: -mp.expm1(P[1] * mp.log(P[0] / x)))
_reg('gpareto', _gp_support, _gp_terms, cdf=_gp_cdf, extra=_xi_extra, fuzzy=_xi_fuzzy)
FAMS['gpareto'].cdf_extra = _xi_cdf_extra(False)
_reg('gev', _gev_support, _gev_terms, cdf=_gev_cdf, extra=_xi_extra, fuzzy=_xi_fuzzy)
FAMS['gev'].cdf_extra = _xi_cdf_extra(True)
_reg('gamma', lambda P: (mpf(0), PINF), lambda P, x: [P[0] * mp.log(P[1]), lg(P[0], -1), xlog(P[0] - 1, x), -P[1] * x],
     cdf=lambda P, x: mp.gammainc(P[0], 0, P[1] * x, regularized=True))
_reg('beta', lambda P: (mpf(0), mpf(1)), _beta_terms, extra=lambda P, x: abs(P[0] - 1) + abs(P[1] - 1))
_reg('beta.log', lambda P: (NINF, mpf(0)), _betalog_terms, extra=_betalog_extra)
_reg('binomial', lambda P: (mpf(0), P[1]), _binom_terms, cont=[0], discrete=True, extra=_log1m_extra(lambda P, k: (P[1] - k, P[0])))
_reg('negbinomial', lambda P: (mpf(0), PINF), _nb_terms, discrete=True, extra=_log1m_extra(lambda P, k: (P[0], P[1])))
_reg('poisson', lambda P: (mpf(0), PINF), lambda P, k: [xlog(k, P[0]), -P[0], lg(k + 1, -1)], discrete=True)
_reg('geometric', lambda P: (mpf(0), PINF), lambda P, k: [mp.log(P[0]), xlog(k, 1 - P[0])], discrete=True,
     extra=_log1m_extra(lambda P, k: (k, P[0])))
_reg('categorical', lambda P: (mpf(0), mpf(len(P) - 1)), _cat_terms, cdf=_cat_cdf, cont=[], discrete=True)
_reg('chisq', lambda P: (mpf(0), PINF),
     lambda P, x: [xlog(P[0] / 2 - 1, x), -x / 2, -(P[0] / 2) * mp.log(2), lg(P[0] / 2, -1)],
     cdf=lambda P, x: mp.gammainc(P[0] / 2, 0, x / 2, regularized=True))
_reg('exponential', lambda P: (mpf(0), PINF), lambda P, x: [mp.log(P[0]), -P[0] * x], cdf=lambda P, x: -mp.expm1(-P[0] * x))
_reg('gengamma', lambda P: (mpf(0), PINF),
     lambda P, x: [mp.log(P[2]), -P[1] * mp.log(P[0]), lg(P[1] / P[2], -1), xlog(P[1] - 1, x),
                   -(sexp(P[2] * mp.log(x / P[0])) if x > 0 else mpf(0))])
_reg('powerlaw', lambda P: (P[1], PINF), lambda P, x: [mp.log(P[0] - 1), -mp.log(P[1]), -P[0] * mp.log(x / P[1])],
     cdf=lambda P, x: -mp.expm1((1 - P[0]) * mp.log(x / P[1])))
_reg('delta', lambda P: (P[0], P[0]), lambda P, x: [mpf(0)], cont=[], discrete=True)


def classify(f, P, x):
    lo, hi = f.support(P)
    if f.discrete:
        if f.name != 'delta' and x != mp.floor(x):
            return 'outside:non-integer'
        if x < lo:
            return 'outside:below'
        if x > hi:
            return 'outside:above'
        return 'interior'
    if f.fuzzy is not None:
        d = f.fuzzy(P)
        if d > 0:
            if mp.isfinite(lo) and lo != P[0] and abs(x - lo) <= d:
                return 'boundary:lower~'
            if mp.isfinite(hi) and abs(x - hi) <= d:
                return 'boundary:upper~'
    if x < lo:
        return 'outside:below'
    if x > hi:
        return 'outside:above'
    if x == lo:
        return 'boundary:lower'
    if x == hi:
        return 'boundary:upper'
    return 'interior'


def lp_inside(f, P, x):
    """log-density at a point of the closed support (may be +-inf)."""
    return tsum(f.terms(P, x))


def lp_safe(f, P, x):
    """log-density if x is strictly inside the support of P, else None."""
    try:
        if classify(f, P, x) != 'interior':
            return None
        v = lp_inside(f, P, x)
    except Exception:
        return None
    if not mp.isfinite(v):
        return None
    return v


def partial_sum(fun, args):
    """sum_k |a_k d fun / d a_k| by central differences with relative step 2^-30 (one-sided where one of the two
    perturbed points leaves the domain); None if both do."""
    tot = mpf(0)
    f0 = None
    for k, a in enumerate(args):
        if a is None or a == 0:
            continue
        h = abs(a) * REL_STEP
        up = list(args)
        dn = list(args)
        up[k] = a + h
        dn[k] = a - h
        fu, fd = fun(up), fun(dn)
        if fu is None and fd is None:
            return None
        if fu is None or fd is None:
            if f0 is None:
                f0 = fun(list(args))
            if f0 is None:
                return None
            tot += abs(a * ((fu if fu is not None else fd) - f0) / h)
        else:
            tot += abs(a * (fu - fd) / (2 * h))
    return tot


def lp_tol(f, P, x):
    """(lp, tolerance or None) at an interior point."""
    terms = f.terms(P, x)
    lp = tsum(terms)
    if not mp.isfinite(lp):
        return lp, mpf(0)   # a point of the support without mass: exactly -inf is expected
    base = mp.fsum(tmag(t) for t in terms)
    cont = f.cont if f.cont is not None else list(range(len(P)))
    args = [P[k] if k in cont else None for k in range(len(P))] + [None if f.discrete else x]

    def fun(a):
        PP = [a[k] if a[k] is not None else P[k] for k in range(len(P))]
        xx = a[-1] if a[-1] is not None else x
        return lp_safe(f, PP, xx)
    if f.name == 'categorical':
        cond = mpf(1)
    else:
        cond = partial_sum(fun, args)
    if cond is None:
        return lp, None
    if f.extra is not None:
        cond += f.extra(P, x)
    return lp, K_LP * EPS * (base + cond)


def ref_point(f, P, x):
    """-> dict(cls, lp, tol, mode) ; mode: 'formula' | 'neginf' | 'either' | 'finite-only'"""
    cls = classify(f, P, x)
    if cls.startswith('outside'):
        return dict(cls=cls, mode='neginf', lp=NINF, tol=None)
    if cls.endswith('~'):
        return dict(cls=cls, mode='no-nan', lp=None, tol=None)
    if cls.startswith('boundary'):
        return dict(cls=cls, mode='either', lp=lp_inside(f, P, x), tol=None)
    lp, tol = lp_tol(f, P, x)
    if mp.isfinite(lp) and abs(lp) > mpf('1.7e308'):
        return dict(cls=cls, mode='formula', lp=NINF if lp < 0 else PINF, tol=mpf(0))
    if tol is None:
        return dict(cls=cls, mode='finite-only', lp=lp, tol=tol)
    if mp.isfinite(lp) and tol > ILL * max(1, abs(lp)):
        return dict(cls=cls, mode='ill-conditioned', lp=lp, tol=tol)   # not judged beyond "not NaN"
    return dict(cls=cls, mode='formula', lp=lp, tol=tol)


def fmt(v):
    if isinstance(v, float):
        return repr(v)
    return mp.nstr(v, 20)


def judge_value(ref, got):
    """got = parse() result.  -> None (held) | (kind, text)"""
    kind, val = got
    cls, mode = ref['cls'], ref['mode']
    if kind == 'panic':
        return ('panic', 'LogPdf panics: ' + val)
    if kind == 'err':
        if cls == 'outside:non-integer':
            return None   # a loud rejection of a non-integer argument of a discrete family is accepted
        if mode == 'neginf':
            return ('support', 'LogPdf returns error "%s" instead of -Inf' % val)
        return ('formula', 'LogPdf returns error "%s" at a point of the support (expected %s)' % (val, fmt(ref['lp'])))
    v = val
    if math.isnan(v):
        return ('support' if mode in ('neginf', 'either', 'no-nan') else 'formula',
                'LogPdf = NaN (expected %s)' % (fmt(ref['lp']) if ref['lp'] is not None else 'a value next to the end of the support'))
    if mode == 'neginf':
        if v == -math.inf:
            return None
        return ('support', 'LogPdf = %r outside the support (expected -Inf)' % v)
    if mode == 'either':
        if v == -math.inf:
            return None
        lim = ref['lp']
        if mp.isinf(lim):
            if (v == math.inf and lim == PINF):
                return None
            return ('support', 'LogPdf = %r on the boundary of the support (expected -Inf or the limit %s)' % (v, fmt(lim)))
        if abs(mpf(v) - lim) <= K_LP * EPS * 64 * (1 + abs(lim)):
            return None
        return ('support', 'LogPdf = %r on the boundary of the support (expected -Inf or the limit %s)' % (v, fmt(lim)))
    if mode in ('no-nan', 'ill-conditioned'):
        return None
    if mode == 'finite-only':
        if math.isinf(v) and mp.isfinite(ref['lp']):
            return ('support', 'LogPdf = %r inside the support (expected about %s)' % (v, fmt(ref['lp'])))
        return None
    lp, tol = ref['lp'], ref['tol']
    if mp.isinf(lp):
        if v == float(lp):
            return None
        return ('formula', 'LogPdf = %r at a point of the support that carries no mass (expected %s)' % (v, fmt(lp)))
    if math.isinf(v):
        if abs(lp) > mpf('1.7e308'):
            return None
        return ('formula' if v > 0 else 'support', 'LogPdf = %r inside the support (expected %s)' % (v, fmt(lp)))
    if abs(mpf(v) - lp) <= tol:
        return None
    return ('formula', 'LogPdf = %r, expected %s (difference %s, tolerance %s)' % (v, fmt(lp), mp.nstr(mpf(v) - lp, 5), mp.nstr(tol, 5)))


class Out:
    def __init__(self):
        self.viol, self.cov, self.samples, self.evals = [], {}, [], 0

    def v(self, case, sig, detail, witness):
        self.viol.append({"case": case, "sig": sig, "detail": detail, "witness": witness})

    def c(self, key, n=1):
        self.cov[key] = self.cov.get(key, 0) + n


def type_check(out, e, sig_head, cls, ref, a, b, wit):
    """Float64- vs Real64-held parameters."""
    out.c('type:compared')
    if a == b:
        out.c('type:bit-identical')
        return
    if a[0] != b[0]:
        out.v(e['case'], sig_head + '|' + cls + '|type', 'Float64-held parameters give %s, Real64-held give %s' % (a, b), wit)
        return
    if a[0] != 'v':
        return
    x, y = a[1], b[1]
    if math.isnan(x) and math.isnan(y):
        return
    tol = ref.get('tol') if ref else None
    if ref and ref['mode'] == 'formula' and tol is not None and not (math.isinf(x) or math.isinf(y) or math.isnan(x) or math.isnan(y)):
        if abs(mpf(x) - mpf(y)) <= 2 * tol:
            return
    out.v(e['case'], sig_head + '|' + cls + '|type', 'Float64-held parameters give %r, Real64-held give %r' % (x, y), wit)


# ---------------------------------------------------------------------------
# pts
# ---------------------------------------------------------------------------

def do_pts(e, out):
    f = FAMS[e['fam']]
    P = [M(s) for s in e['params']]
    head = 'C14|%s|%s' % (e['fam'] + ('.' + e['via'] if e.get('via') else ''), e['pclass'])
    for i, xs in enumerate(e['x']):
        x = M(xs)
        try:
            ref = ref_point(f, P, x)
        except Exception as ex:   # the oracle must never die silently
            out.v(e['case'], 'C14|oracle|%s|reference-failed' % e['fam'], 'reference evaluation failed: %r at x=%s P=%s' % (ex, xs, e['params']), None)
            continue
        out.c('class:%s/%s' % (e['fam'], ref['cls'].split(':')[0]))
        out.c('judged:' + ref['mode'])
        wit = {"family": e['fam'], "params": [Hx(s) for s in e['params']], "x": Hx(xs), "point class": ref['cls'],
               "expected": fmt(ref['lp']) if ref['lp'] is not None else None}
        res = {}
        for ty in ('Float64', 'Real64'):
            got = parse(e['lp' + ty][i])
            res[ty] = got
            out.evals += 1
            bad = judge_value(ref, got)
            if bad:
                w = dict(wit, type=ty, observed=e['lp' + ty][i])
                out.v(e['case'], '%s|%s|%s' % (head, ref['cls'], bad[0]), '%s(%s).LogPdf(%r): %s' % (e['fam'], [Hx(s) for s in e['params']], Hx(xs), bad[1]), w)
        type_check(out, e, head, ref['cls'], ref, res['Float64'], res['Real64'], wit)


# ---------------------------------------------------------------------------
# quadrature
# ---------------------------------------------------------------------------

def quad_sum(xs, lws, lps, reffn, illfn=None):
    """-> (Q_lib, Q_ref, problems, used) ; nodes on/outside the reference support are dropped from both sums, and so are
    nodes with a NaN / +Inf library value at which a textbook evaluation is ill-conditioned (illfn)"""
    ql, qr = mpf(0), mpf(0)
    problems = []
    used = 0
    for xh, lwh, lph in zip(xs, lws, lps):
        x, lw = M(xh), M(lwh)
        r = reffn(x)
        if r is None:      # boundary / outside: not part of the integral
            continue
        got = parse(lph)
        if got[0] != 'v':
            if r + lw > -80:
                problems.append('LogPdf(%r) -> %s' % (Hx(xh), lph))
            continue
        v = got[1]
        used += 1
        if math.isnan(v) or v == math.inf:
            if illfn is not None and illfn(x):
                continue
            if r + lw > -80 or v == math.inf:
                problems.append('LogPdf(%r) = %r' % (Hx(xh), v))
            continue
        if v > -math.inf:
            a = mpf(v) + lw
            if a > -2000:
                ql += sexp(a)
        if r > NINF:
            a = r + lw
            if a > -2000:
                qr += sexp(a)
    return ql, qr, problems, used


def do_quad(e, out):
    f = FAMS[e['fam']]
    P = [M(s) for s in e['params']]
    head = 'C14|%s|%s' % (e['fam'] + ('.' + e['via'] if e.get('via') else ''), e['pclass'])
    wit = {"family": e['fam'], "params": [Hx(s) for s in e['params']], "type": e['type']}
    out.evals += len(e['x'])
    if e['disc']:
        s_lib, s_ref = mpf(0), mpf(0)
        bad = []
        for xh, lph in zip(e['x'], e['lp']):
            k = M(xh)
            r = lp_inside(f, P, k)
            if r > NINF:
                s_ref += sexp(r)
            got = parse(lph)
            if got[0] != 'v' or math.isnan(got[1]) or got[1] == math.inf:
                bad.append('LogPdf(%r) -> %s' % (Hx(xh), lph))
                continue
            if got[1] > -math.inf:
                s_lib += sexp(mpf(got[1]))
        tail = 1 - s_ref
        if abs(tail) > Q_CONV and tail > 0:
            out.c('quad:not-converged')
            return
        if tail < -Q_CONV:
            out.v(e['case'], 'C14|oracle|%s|reference-not-normalised' % e['fam'], 'reference pmf sums to %s' % fmt(s_ref), wit)
            return
        out.c('quad:judged')
        out.c('quad:judged:' + e['fam'])
        if bad or abs(s_lib - 1) > Q_TOL:
            out.v(e['case'], head + '|atoms|normalisation',
                  '%s(%s): sum of exp(LogPdf(k)) over k=%r..%r is %s (reference tail beyond: %s)%s' % (
                      e['fam'], wit['params'], Hx(e['x'][0]), Hx(e['x'][-1]), mp.nstr(s_lib, 15), mp.nstr(tail, 3),
                      '; ' + '; '.join(bad[:3]) if bad else ''), dict(wit, sum=mp.nstr(s_lib, 17)))
        return

    def reffn(x):
        if classify(f, P, x) != 'interior':
            return None
        return lp_inside(f, P, x)
    def illfn(x):
        return ref_point(f, P, x)['mode'] in ('ill-conditioned', 'finite-only', 'no-nan')
    ql, qr, problems, used = quad_sum(e['x'], e['lw'], e['lp'], reffn, illfn)
    if abs(qr - 1) > Q_CONV:
        out.c('quad:not-converged')
        out.c('quad:not-converged:' + e['fam'])
        return
    out.c('quad:judged')
    out.c('quad:judged:' + e['fam'])
    qtol = mpf(Q_TOL)
    if e['fam'] in ('gev', 'gpareto') and P[2] != 0:
        qtol += K_LP * EPS * 4 / abs(P[2])   # textbook evaluation of 1 + xi*z for |xi| -> 0 (see _xi_extra)
    if problems or abs(ql - 1) > qtol:
        out.v(e['case'], head + '|support-interior|normalisation',
              '%s(%s): integral of exp(LogPdf) over the support = %s (same nodes and weights on the reference density: 1%+.2e)%s' % (
                  e['fam'], wit['params'], mp.nstr(ql, 15), float(qr - 1), '; ' + '; '.join(problems[:3]) if problems else ''),
              dict(wit, integral=mp.nstr(ql, 17), nodes=used))


# ---------------------------------------------------------------------------
# CDF
# ---------------------------------------------------------------------------

def cdf_ref(f, P, x):
    lo, hi = f.support(P)
    if x < lo:
        return mpf(0)
    if x >= hi:
        return mpf(1)
    if x == lo and not f.discrete:
        return mpf(0)
    if f.discrete:
        return f.cdf(P, mp.floor(x))   # step function: sum_{j <= floor(x)} pmf(j)
    return f.cdf(P, x)


def cdf_region(f, P, x):
    lo, hi = f.support(P)
    if x < lo:
        return 'below-support'
    if x > hi:
        return 'above-support'
    if x == lo and not f.discrete:
        return 'lower-end'
    if x == hi and not f.discrete:
        return 'upper-end'
    if f.discrete and x != mp.floor(x):
        return 'interior:between-atoms'
    return 'interior'


def do_cdf(e, out):
    f = FAMS[e['fam']]
    P = [M(s) for s in e['params']]
    head = 'C14|%s|%s' % (e['fam'] + ('.' + e['via'] if e.get('via') else ''), e['pclass'])
    xs = [M(s) for s in e['x']]
    n = len(xs)
    F, tolF, reg, dens, dtol = [], [], [], [], []
    cont = f.cont if f.cont is not None else list(range(len(P)))
    fz = f.fuzzy(P) if f.fuzzy is not None else mpf(0)
    lo, hi = f.support(P)
    for x in xs:
        Fx = cdf_ref(f, P, x)
        r = cdf_region(f, P, x)
        if fz > 0 and ((mp.isfinite(lo) and lo != P[0] and abs(x - lo) <= fz) or (mp.isfinite(hi) and abs(x - hi) <= fz)):
            r = 'end~'   # next to an end point that no evaluation can locate exactly
        if r == 'interior' and e['fam'] in ('gamma', 'chisq'):
            # Cdf = special.GammaP(a, z): label the regions of its argument plane (C13 judges GammaP itself)
            a, z = (P[0], P[1] * x) if e['fam'] == 'gamma' else (P[0] / 2, x / 2)
            if a < 1:
                r = 'interior[GammaP:a<1]'
            elif a >= 20 and 0.5 * a < z < 1.5 * a:
                r = 'interior[GammaP:a>=20,0.5a<z<1.5a]'
        F.append(Fx)
        reg.append(r)
        if r.startswith('interior'):
            args = [P[k] if k in cont else None for k in range(len(P))] + [None if f.discrete else x]

            def fun(a, x=x):
                PP = [a[k] if a[k] is not None else P[k] for k in range(len(P))]
                xx = a[-1] if a[-1] is not None else x
                if not cdf_region(f, PP, xx).startswith('interior'):
                    return None
                return cdf_ref(f, PP, xx)
            cond = partial_sum(fun, args)
            if cond is not None and f.cdf_extra is not None:
                cond += f.cdf_extra(P, x)
            tolF.append(None if cond is None else K_CDF * EPS * (1 + cond))
            d, dt = None, None
            if not f.discrete and cond is not None and Fx > 0:
                lp, tl = lp_tol(f, P, x)
                if tl is not None and mp.isfinite(lp) and lp > -660:
                    d = sexp(lp)
                    # relative error of the density bound + the 1-S cancellation of a CDF written as 1 - survival (eps/F)
                    dt = K_CDF * EPS * d * (1 + tl / (K_LP * EPS) + cond + 1 / Fx)
                    if dt > ILL * d:
                        d, dt = None, None
            dens.append(d)
            dtol.append(dt)
        elif r == 'end~':
            tolF.append(None)
            dens.append(None)
            dtol.append(None)
        else:
            tolF.append(K_CDF * EPS)
            out_ = r in ('below-support', 'above-support')
            dens.append(mpf(0) if out_ else None)
            dtol.append(mpf(0) if out_ else None)
    for ty in ('Float64', 'Real64'):
        cv = [parse(s) for s in e['cdf' + ty]]
        lv = [parse(s) for s in e['lcdf' + ty]]
        out.evals += 2 * n
        seen = set()

        def viol(i, sub, text):
            sig = '%s|%s/%s|cdf' % (head, reg[i], sub)
            if (sig, ty) in seen:
                return
            seen.add((sig, ty))
            out.v(e['case'], sig, '%s(%s) at x=%r (%s-held): %s' % (e['fam'], [Hx(s) for s in e['params']], Hx(e['x'][i]), ty, text),
                  {"family": e['fam'], "params": [Hx(s) for s in e['params']], "x": Hx(e['x'][i]), "type": ty, "region": reg[i],
                   "reference F": mp.nstr(F[i], 17)})
        prev = None     # last grid point whose Cdf value agreed with the reference
        held = [False] * n
        for i in range(n):
            out.c('cdf:' + reg[i])
            ok = True
            for nm, g in (('Cdf', cv[i]), ('LogCdf', lv[i])):
                if g[0] != 'v':
                    viol(i, 'value', '%s -> %s: %s (reference F = %s)' % (nm, g[0], g[1], mp.nstr(F[i], 10)))
                    ok = False
            if not ok:
                continue
            c, l = cv[i][1], lv[i][1]
            if math.isnan(c) or math.isnan(l):
                viol(i, 'value', 'Cdf = %r, LogCdf = %r (reference F = %s)' % (c, l, mp.nstr(F[i], 10)))
                continue
            if tolF[i] is None:
                slack = float(K_CDF * EPS)
                if not (-slack <= c <= 1 + slack) or l > slack:
                    viol(i, 'value', 'Cdf = %r, LogCdf = %r is not a probability' % (c, l))
                continue
            if abs(mpf(c) - F[i]) > tolF[i]:
                viol(i, 'value', 'Cdf = %r, reference F = %s (tolerance %s)' % (c, mp.nstr(F[i], 17), mp.nstr(tolF[i], 3)))
                continue
            el = sexp(mpf(l)) if l > -math.inf else mpf(0)
            if abs(el - F[i]) > tolF[i] or mpf(l) > tolF[i]:
                viol(i, 'value', 'exp(LogCdf) = %s (LogCdf = %r), reference F = %s (tolerance %s)' % (mp.nstr(el, 17), l, mp.nstr(F[i], 17), mp.nstr(tolF[i], 3)))
                continue
            out.c('cdf:value-held')
            held[i] = True
            if prev is not None and mpf(c) < mpf(prev[1]) - tolF[i] - tolF[prev[0]]:
                viol(i, 'monotone', 'Cdf decreases: Cdf(%r) = %r but Cdf(%r) = %r' % (Hx(e['x'][prev[0]]), prev[1], Hx(e['x'][i]), c))
            prev = (i, c)
        if ty == 'Real64' and 'dcdf' in e and not f.discrete:
            for i in range(n):
                if dens[i] is None or not held[i]:   # a wrong value already explains a wrong derivative
                    continue
                g = parse(e['dcdf'][i])
                out.evals += 1
                if g[0] == 'panic':
                    viol(i, 'derivative', 'Cdf with a Real64 variable argument panics: %s' % g[1])
                elif g[0] == 'err':
                    viol(i, 'derivative', 'Cdf with a Real64 variable argument returns error: %s' % g[1])
                elif g[0] == 'noderiv':
                    # a result without derivative slots is a constant: derivative zero
                    if dens[i] != 0:
                        viol(i, 'derivative', 'Cdf of a Real64 variable carries no derivative (density = %s)' % mp.nstr(dens[i], 10))
                    else:
                        out.c('cdf:derivative-judged')
                else:
                    d = g[1]
                    out.c('cdf:derivative-judged')
                    if math.isnan(d) or abs(mpf(d) - dens[i]) > dtol[i]:
                        viol(i, 'derivative', 'dCdf/dx by AD = %r, density = %s (tolerance %s)' % (d, mp.nstr(dens[i], 17), mp.nstr(dtol[i], 3)))
    out.c('cdf:judged:' + e['fam'])


# ---------------------------------------------------------------------------
# wrappers
# ---------------------------------------------------------------------------

def base_of(b):
    return FAMS[b['fam']], [M(s) for s in b['params']]


def dlp_dx(f, P, y):
    """|y * d lp / d y| at an interior point (None if not computable)."""
    return partial_sum(lambda a: lp_safe(f, P, a[0]), [y])


def wrap_ref(e, x):
    """-> dict(cls, mode, lp, tol) for a scalar wrapper"""
    kind = e['kind']
    if kind == 'translation':
        f, P = base_of(e['base'])
        c = M(e['c'])
        y = x + c
        yf = mpf(float(x) + float(c))
        r = ref_point(f, P, y)
        if classify(f, P, yf) != r['cls']:
            return dict(cls=r['cls'], mode='skip', lp=None, tol=None)
        if r['mode'] == 'formula':
            r['tol'] = r['tol'] + K_LP * EPS * abs(r['lp'])
        return r
    if kind == 'logtransform':
        f, P = base_of(e['base'])
        c = M(e['c'])
        if x + c <= 0:
            if x + c == 0 and x == 0:
                return dict(cls='boundary:lower', mode='either', lp=NINF, tol=None)
            return dict(cls='outside:below', mode='neginf', lp=NINF, tol=None)
        y = mp.log(x + c)
        r = ref_point(f, P, y)
        if r['mode'] == 'neginf':
            return r
        if r['mode'] != 'formula':
            return dict(cls=r['cls'], mode='skip', lp=None, tol=None)
        dy = dlp_dx(f, P, y)   # |y dlp/dy|
        if dy is None:
            return dict(cls=r['cls'], mode='skip', lp=None, tol=None)
        lp = r['lp'] - y
        # rounding of x+c, of log(.) and of the final subtraction
        slope = (dy / abs(y) if y != 0 else mpf(0)) + 1
        tol = r['tol'] + K_LP * EPS * (abs(y) + abs(lp) + slope * (2 + abs(y)))
        # X = exp(Y) - c lives on (-c, inf); the unchanged tree truncates at x < 0
        cls = 'interior' if x >= 0 else 'interior:-c<x<0'
        return dict(cls=cls, mode='formula', lp=lp, tol=tol)
    if kind == 'mixture':
        w = [M(s) for s in e['weights']]
        tot = mp.fsum(w)
        comps = []
        any_in, any_bd = False, False
        for wj, b in zip(w, e['bases']):
            f, P = base_of(b)
            r = ref_point(f, P, x)
            if r['cls'].startswith('boundary'):
                any_bd = True
            if wj == 0:
                continue
            comps.append((mp.log(wj / tot), r))
            if r['cls'] == 'interior':
                any_in = True
            if r['cls'].startswith('boundary'):
                any_bd = True
        if any_bd:
            return dict(cls='boundary-of-a-component', mode='skip', lp=None, tol=None)
        if not any_in:
            return dict(cls='outside', mode='neginf', lp=NINF, tol=None)
        if any(r['mode'] not in ('formula', 'neginf') for _, r in comps):
            return dict(cls='interior', mode='skip', lp=None, tol=None)
        vals = [(lw + r['lp'], lw, r) for lw, r in comps if r['mode'] == 'formula' and mp.isfinite(r['lp'])]
        if not vals:
            return dict(cls='interior', mode='formula', lp=NINF, tol=mpf(0))
        m = max(v for v, _, _ in vals)
        lp = m + mp.log(mp.fsum(sexp(v - m) for v, _, _ in vals))
        tol = mpf(0)
        for v, lw, r in vals:
            resp = sexp(v - lp)
            tol += resp * (r['tol'] + K_LP * EPS * (abs(lw) + abs(v) + 2))
        tol += K_LP * EPS * (abs(lp) + len(w))
        return dict(cls='interior', mode='formula', lp=lp, tol=tol)
    raise ValueError(kind)


def wrap_name(e):
    return e['kind']


def wrap_desc(e):
    if e['kind'] in ('translation', 'logtransform'):
        return '%s(%s(%s), c=%r)' % (e['kind'], e['base']['fam'], [Hx(s) for s in e['base']['params']], Hx(e['c']))
    if e['kind'] == 'mixture':
        return 'mixture(weights=%s, %s)' % ([Hx(s) for s in e['weights']], ', '.join('%s(%s)' % (b['fam'], [Hx(s) for s in b['params']]) for b in e['bases']))
    return e['kind']


def do_wrap(e, out):
    kind = e['kind']
    head = 'C14|%s|%s' % (wrap_name(e), e['pclass'])
    if kind in ('iid', 'id'):
        return do_product(e, out, head)
    wit0 = {k: e[k] for k in ('kind', 'c', 'base', 'bases', 'weights') if k in e}
    for i, xs in enumerate(e['x']):
        x = M(xs)
        try:
            ref = wrap_ref(e, x)
        except Exception as ex:
            out.v(e['case'], 'C14|oracle|%s|reference-failed' % kind, 'reference evaluation failed: %r' % ex, None)
            continue
        out.c('wrap:%s/%s' % (kind, ref['mode']))
        if ref['mode'] == 'skip':
            continue
        wit = dict(wit0, x=Hx(xs), expected=fmt(ref['lp']), **{"point class": ref['cls']})
        res = {}
        for ty in ('Float64', 'Real64'):
            got = parse(e['lp' + ty][i])
            res[ty] = got
            out.evals += 1
            bad = judge_value(ref, got)
            if bad:
                out.v(e['case'], '%s|%s|%s' % (head, ref['cls'], bad[0]), '%s at x=%r: %s' % (wrap_desc(e), Hx(xs), bad[1]),
                      dict(wit, type=ty, observed=e['lp' + ty][i]))
        type_check(out, e, head, ref['cls'], ref, res['Float64'], res['Real64'], wit)
    if 'qx' in e:
        expected = mpf(1)
        iref = mpf(1)

        def reffn(x):
            r = wrap_ref_density(e, x)
            return r
        ql, qr, problems, used = quad_sum(e['qx'], e['qlw'], e['qlp'], reffn)
        out.evals += len(e['qx'])
        if abs(qr - iref) > Q_CONV:
            out.c('quad:not-converged')
            out.c('quad:not-converged:' + kind)
            return
        out.c('quad:judged')
        out.c('quad:judged:' + kind)
        if problems or abs(ql - expected) > Q_TOL:
            out.v(e['case'], head + '|support-interior|normalisation',
                  '%s: integral of exp(LogPdf) = %s (composition rule on the same nodes: %s)%s' % (
                      wrap_desc(e), mp.nstr(ql, 15), mp.nstr(qr, 15), '; ' + '; '.join(problems[:3]) if problems else ''),
                  dict(wit0, integral=mp.nstr(ql, 17), type=e.get('qtype')))


def wrap_ref_density(e, x):
    """reference log-density of a scalar wrapper for the quadrature (None = drop the node)."""
    kind = e['kind']
    if kind == 'translation':
        f, P = base_of(e['base'])
        c = M(e['c'])
        y = x + c
        # the library sees the rounded sum: drop nodes that rounding moves onto / across an end point
        if classify(f, P, y) != 'interior' or classify(f, P, mpf(float(x) + float(c))) != 'interior':
            return None
        return lp_inside(f, P, y)
    if kind == 'logtransform':
        f, P = base_of(e['base'])
        c = M(e['c'])
        if x + c <= 0 or (x == 0 and c == 0):
            return None
        y = mp.log(x + c)
        if classify(f, P, y) != 'interior':
            return None
        return lp_inside(f, P, y) - y
    if kind == 'mixture':
        w = [M(s) for s in e['weights']]
        tot = mp.fsum(w)
        vals = []
        for wj, b in zip(w, e['bases']):
            f, P = base_of(b)
            cl = classify(f, P, x)
            if cl.startswith('boundary'):
                return None
            if wj == 0:
                continue
            if cl == 'interior':
                v = lp_inside(f, P, x)
                if v > NINF:
                    vals.append(mp.log(wj / tot) + v)
        if not vals:
            return NINF
        m = max(vals)
        return m + mp.log(mp.fsum(sexp(v - m) for v in vals))
    raise ValueError(kind)


def do_product(e, out, head):
    bases = [base_of(b) for b in e['bases']]
    for i, xv in enumerate(e['xv']):
        x = [M(s) for s in xv]
        coords = []
        for j, xj in enumerate(x):
            f, P = bases[j] if e['kind'] == 'id' else bases[0]
            coords.append(ref_point(f, P, xj))
        if any(r['cls'].startswith('boundary') or r['cls'] == 'outside:non-integer' for r in coords):
            out.c('wrap:product/skip')
            continue
        if any(r['cls'].startswith('outside') for r in coords):
            ref = dict(cls='outside', mode='neginf', lp=NINF, tol=None)
        elif any(r['mode'] != 'formula' for r in coords):
            out.c('wrap:product/skip')
            continue
        else:
            lp = tsum([r['lp'] for r in coords])
            tol = mp.fsum(r['tol'] for r in coords) + K_LP * EPS * len(coords) * (abs(lp) if mp.isfinite(lp) else 0)
            ref = dict(cls='interior', mode='formula', lp=lp, tol=tol)
        out.c('wrap:product/' + ref['mode'])
        wit = {"kind": e['kind'], "n": e['n'], "bases": e['bases'], "x": [Hx(s) for s in xv], "expected": fmt(ref['lp'])}
        res = {}
        for ty in ('Float64', 'Real64'):
            got = parse(e['lp' + ty][i])
            res[ty] = got
            out.evals += 1
            bad = judge_value(ref, got)
            if bad:
                out.v(e['case'], '%s|%s|%s' % (head, ref['cls'], bad[0]), '%s (n=%s) at x=%s: %s' % (e['kind'], e['n'], wit['x'], bad[1]),
                      dict(wit, type=ty, observed=e['lp' + ty][i]))
        type_check(out, e, head, ref['cls'], ref, res['Float64'], res['Real64'], wit)


# ---------------------------------------------------------------------------
# multivariate families
# ---------------------------------------------------------------------------

def log_ncdf(t):
    """log of the standard normal CDF for any t (mp.ncdf cannot take |t| beyond ~1e100)."""
    if t < -mpf(10) ** 6:
        return -t * t / 2 - mp.log(-t) - mp.log(2 * mp.pi) / 2 + mp.log1p(-1 / (t * t))
    if t > mpf(10) ** 6:
        return mpf(0)
    return mp.log(mp.ncdf(t))


def mat_of(v, n):
    return mp.matrix([[v[i * n + j] for j in range(n)] for i in range(n)])


def spd_info(A):
    """-> (logdet, inverse, cond_2) or None if A is not symmetric positive definite"""
    n = A.rows
    for i in range(n):
        for j in range(i):
            if A[i, j] != A[j, i]:
                return None
    try:
        L = mp.cholesky(A)
    except Exception:
        return None
    logdet = 2 * mp.fsum(mp.log(L[i, i]) for i in range(n))
    inv = mp.inverse(A)
    if n == 1:
        cond = mpf(1)
    else:
        ev = mp.eigsy(A, eigvals_only=True)
        cond = max(ev) / min(ev)
    return logdet, inv, cond


def quadform(inv, d):
    n = len(d)
    return mp.fsum(d[i] * inv[i, j] * d[j] for i in range(n) for j in range(n))


def mvn_lp(x, mu, S):
    """-> (lp, bound, cond, q, logdet, qerr); bound and qerr are the error multipliers (in units of eps) of a textbook
    evaluation with the conditioning of S folded in; None if S is not symmetric positive definite."""
    n = len(mu)
    info = spd_info(S)
    if info is None:
        return None
    logdet, inv, cond = info
    d = [x[i] - mu[i] for i in range(n)]
    q = quadform(inv, d)
    qa = mp.fsum(abs(d[i] * inv[i, j] * d[j]) for i in range(n) for j in range(n))
    g = [mp.fsum(inv[i, j] * d[j] for j in range(n)) for i in range(n)]
    xc = 2 * mp.fsum((abs(x[i]) + abs(mu[i])) * abs(g[i]) for i in range(n))
    qerr = n * cond * qa + xc + q
    lp = -mpf(n) / 2 * mp.log(2 * mp.pi) - logdet / 2 - q / 2
    bound = n * mp.log(2 * mp.pi) / 2 + abs(logdet) / 2 + n * cond + qerr / 2
    return lp, bound, cond, q, logdet, qerr


def mv_ref(e, i):
    """-> dict(cls, mode, lp, tol)"""
    fam, n = e['fam'], e['n']
    g = lambda k: [M(s) for s in e['p_' + k]]
    if fam in ('mvnormal', 'mvt', 'skewnormal'):
        x = [M(s) for s in e['xv'][i]]
    if fam == 'mvnormal':
        r = mvn_lp(x, g('mu'), mat_of(g('sigma'), n))
        lp, bound, cond = r[0], r[1], r[2]
    elif fam == 'mvt':
        nu, mu, S = g('nu')[0], g('mu'), mat_of(g('sigma'), n)
        r = mvn_lp(x, mu, S)
        cond, q, logdet = r[2], r[3], r[4]
        terms = [mp.loggamma((nu + n) / 2), -mp.loggamma(nu / 2), -logdet / 2, -mpf(n) / 2 * mp.log(nu * mp.pi), -(nu + n) / 2 * mp.log1p(q / nu)]
        lp = mp.fsum(terms)
        bound = mp.fsum(abs(t) for t in terms) + 2 * LG_FLOOR + n * cond + (nu + n) / 2 / (nu + q) * r[5] + (nu + n) / 2 * (q / nu) / (1 + q / nu)
    elif fam == 'skewnormal':
        xi, Om, al, sc = g('xi'), mat_of(g('omega'), n), g('alpha'), g('scale')
        K = mp.matrix(n, n)
        for a in range(n):
            for b in range(n):
                K[a, b] = sc[a] * sc[b] * Om[a, b]
        r = mvn_lp(x, xi, K)
        cond = r[2]
        z = [(x[a] - xi[a]) / sc[a] for a in range(n)]
        t = mp.fsum(al[a] * z[a] for a in range(n))
        ta = mp.fsum(abs(al[a] * z[a]) * (1 + (abs(x[a]) + abs(xi[a])) / max(abs(x[a] - xi[a]), mpf(10) ** -300)) for a in range(n))
        lcdf = log_ncdf(t)
        haz = sexp(-t * t / 2 - mp.log(2 * mp.pi) / 2 - lcdf) if abs(t) < mpf(10) ** 6 else (abs(t) if t < 0 else mpf(0))
        lp = mp.log(2) + r[0] + lcdf
        bound = mp.log(2) + r[1] + abs(lcdf) + haz * (ta + abs(t)) + 4
    elif fam == 'iwishart':
        nu, S = g('nu')[0], mat_of(g('S'), n)
        X = mat_of([M(s) for s in e['xm'][i]], n)
        si, xi_ = spd_info(S), spd_info(X)
        if xi_ is None:
            return dict(cls='outside:not-pd', mode='neginf-or-error', lp=NINF, tol=None)
        lp, bound, cond = iw_lp(nu, S, si, X, xi_, n)
    elif fam == 'niw':
        kappa, nu, mu0, L = g('kappa')[0], g('nu')[0], g('mu'), mat_of(g('lambda'), n)
        m = [M(s) for s in e['xv'][i]]
        Sg = mat_of([M(s) for s in e['xm'][i]], n)
        si, xi_ = spd_info(L), spd_info(Sg)
        r = mvn_lp(m, mu0, Sg / kappa)
        lp2, bound2, cond2 = iw_lp(nu, L, si, Sg, xi_, n)
        lp, bound, cond = r[0] + lp2, r[1] + bound2 + abs(r[0]) + abs(lp2), max(r[2], cond2)
    else:
        raise ValueError(fam)
    if cond > mpf(10) ** 8:
        return dict(cls='interior', mode='skip', lp=lp, tol=None)
    return dict(cls='interior', mode='formula', lp=lp, tol=K_LP * EPS * bound)


def iw_lp(nu, S, si, X, xi_, n):
    logdetS, _, condS = si
    logdetX, invX, condX = xi_
    tr = mp.fsum(S[a, b] * invX[b, a] for a in range(n) for b in range(n))
    tra = mp.fsum(abs(S[a, b] * invX[b, a]) for a in range(n) for b in range(n))
    lmg = mpf(n * (n - 1)) / 4 * mp.log(mp.pi) + mp.fsum(mp.loggamma(nu / 2 - mpf(j) / 2) for j in range(n))
    terms = [nu / 2 * logdetS, -nu * n / 2 * mp.log(2), -lmg, -(nu + n + 1) / 2 * logdetX, -tr / 2]
    lp = mp.fsum(terms)
    bound = mp.fsum(abs(t) for t in terms) + n * LG_FLOOR + n * condS * (1 + nu / 2) + n * condX * ((nu + n + 1) / 2 + tra)
    return lp, bound, max(condS, condX)


def do_mv(e, out):
    fam, n = e['fam'], e['n']
    head = 'C14|%s|%s' % (fam, e['pclass'])
    npts = len(e['lpFloat64'])
    for i in range(npts):
        try:
            ref = mv_ref(e, i)
        except Exception as ex:
            out.v(e['case'], 'C14|oracle|%s|reference-failed' % fam, 'reference evaluation failed: %r' % ex, None)
            continue
        out.c('mv:%s/%s' % (fam, ref['mode']))
        if ref['mode'] == 'skip':
            continue
        wit = {"family": fam, "n": n, "params": {k[2:]: [Hx(s) for s in v] for k, v in e.items() if k.startswith('p_')},
               "x": [Hx(s) for s in e['xv'][i]] if 'xv' in e else None, "X": [Hx(s) for s in e['xm'][i]] if 'xm' in e else None,
               "expected": fmt(ref['lp'])}
        res = {}
        for ty in ('Float64', 'Real64'):
            got = parse(e['lp' + ty][i])
            res[ty] = got
            out.evals += 1
            if ref['mode'] == 'neginf-or-error':
                if got[0] == 'err' or (got[0] == 'v' and got[1] == -math.inf):
                    continue
                out.v(e['case'], '%s|%s|support' % (head, ref['cls']),
                      '%s.LogPdf of a matrix that is not positive definite gives %s (expected an error or -Inf)' % (fam, e['lp' + ty][i]),
                      dict(wit, type=ty, observed=e['lp' + ty][i]))
                continue
            bad = judge_value(ref, got)
            if bad:
                out.v(e['case'], '%s|%s|%s' % (head, ref['cls'], bad[0]), '%s (n=%d): %s' % (fam, n, bad[1]),
                      dict(wit, type=ty, observed=e['lp' + ty][i]))
        if ref['mode'] == 'formula':
            type_check(out, e, head, ref['cls'], ref, res['Float64'], res['Real64'], wit)
    if 'qx' in e:
        def reffn(x):
            ee = dict(e)
            if fam == 'iwishart':
                if x <= 0:
                    return None
                ee['xm'] = [[float(x).hex()]]
            else:
                ee['xv'] = [[float(x).hex()]]
            return mv_ref(ee, 0)['lp']
        ql, qr, problems, used = quad_sum(e['qx'], e['qlw'], e['qlp'], reffn)
        out.evals += len(e['qx'])
        if abs(qr - 1) > Q_CONV:
            out.c('quad:not-converged')
            out.c('quad:not-converged:' + fam)
            return
        out.c('quad:judged')
        out.c('quad:judged:' + fam)
        if problems or abs(ql - 1) > Q_TOL:
            out.v(e['case'], head + '|support-interior|normalisation',
                  '%s (n=1): integral of exp(LogPdf) = %s (reference density on the same nodes: 1%+.2e)%s' % (
                      fam, mp.nstr(ql, 15), float(qr - 1), '; ' + '; '.join(problems[:3]) if problems else ''),
                  {"family": fam, "params": {k[2:]: [Hx(s) for s in v] for k, v in e.items() if k.startswith('p_')}, "integral": mp.nstr(ql, 17)})



# ---------------------------------------------------------------------------
# wrappers over vector / matrix distributions: composition rule on the component values
# ---------------------------------------------------------------------------

def do_mvwrap(e, out):
    fam = e['fam']
    head = 'C14|%s|%s' % (fam, e['pclass'])
    mix = fam in ('vmixture', 'mmixture')
    if mix:
        w = [M(s) for s in e['weights']]
        tot = mp.fsum(w)
        lw = [mp.log(x / tot) if x > 0 else NINF for x in w]
    res = {}
    npts = len(e['lpFloat64'])
    for i in range(npts):
        for ty in ('Float64', 'Real64'):
            comp = [parse(s) for s in e['comp' + ty][i]]
            got = parse(e['lp' + ty][i])
            res[ty] = got
            out.evals += 1
            wit = {"wrapper": fam, "components": e.get('kinds'), "argument": (e.get('xv') or e.get('xm'))[i], "component values": e['comp' + ty][i],
                   "type": ty, "observed": e['lp' + ty][i]}
            if any(c[0] != 'v' for c in comp):
                # a component rejects the argument (outside its support): the wrapper has to reject it as well or return -Inf
                out.c('mvwrap:%s/component-rejects' % fam)
                if got[0] == 'panic' or (got[0] == 'v' and (math.isnan(got[1]) or got[1] > -math.inf)):
                    if got[0] == 'panic' or not mix:
                        out.v(e['case'], head + '|outside|support', '%s over %s: a component rejects the argument (%s) but the wrapper returns %s' % (
                            fam, e.get('kinds'), [c for c in e['comp' + ty][i] if not c.startswith(('0x', '-0x', '+', '-I', 'N'))][:1], e['lp' + ty][i]), wit)
                continue
            vals = [c[1] for c in comp]
            if any(math.isnan(v) for v in vals):
                out.c('mvwrap:%s/skip' % fam)
                continue
            if mix:
                terms = [lw[j] + mpf(v) for j, v in enumerate(vals) if lw[j] > NINF and v > -math.inf]
                if any(v == math.inf for v in vals):
                    out.c('mvwrap:%s/skip' % fam)
                    continue
                if not terms:
                    exp, tol = NINF, mpf(0)
                else:
                    m = max(terms)
                    exp = m + mp.log(mp.fsum(sexp(t - m) for t in terms))
                    tol = K_LP * EPS * (abs(exp) + max(abs(t) for t in terms) + max(abs(l) for l in lw if l > NINF) + len(terms) + 2)
            else:
                if any(v == -math.inf for v in vals) and any(v == math.inf for v in vals):
                    out.c('mvwrap:%s/skip' % fam)
                    continue
                if any(math.isinf(v) for v in vals):
                    exp, tol = (NINF if any(v == -math.inf for v in vals) else PINF), mpf(0)
                else:
                    exp = mp.fsum(mpf(v) for v in vals)
                    tol = K_LP * EPS * (mp.fsum(abs(mpf(v)) for v in vals) + abs(exp))
            out.c('mvwrap:%s/formula' % fam)
            wit['expected'] = fmt(exp)
            if got[0] != 'v':
                out.v(e['case'], head + '|interior|' + ('panic' if got[0] == 'panic' else 'formula'),
                      '%s over %s: LogPdf -> %s: %s (composition rule: %s)' % (fam, e.get('kinds'), got[0], got[1], fmt(exp)), wit)
                continue
            v = got[1]
            ok = (not math.isnan(v)) and ((mp.isinf(exp) and v == float(exp)) or (mp.isfinite(exp) and not math.isinf(v) and abs(mpf(v) - exp) <= tol))
            if not ok:
                out.v(e['case'], head + '|interior|formula', '%s over %s: LogPdf = %r, composition rule on the component values gives %s (tolerance %s)' % (
                    fam, e.get('kinds'), v, fmt(exp), mp.nstr(tol, 3)), wit)
        a, b = res['Float64'], res['Real64']
        out.c('type:compared')
        if a == b:
            out.c('type:bit-identical')
        elif a[0] != b[0]:
            out.v(e['case'], head + '|interior|type', 'Float64-held parameters give %s, Real64-held give %s' % (a, b), None)


# ---------------------------------------------------------------------------
# self check of the reference table (scipy.stats, mp.quad)
# ---------------------------------------------------------------------------

def self_check():
    """Returns a list of problems of the oracle's own reference table."""
    bad = []
    try:
        import numpy as np
        import scipy.stats as st
        S = [[2.0, 0.5], [0.5, 1.0]]
        X = [[1.0, 0.3], [0.3, 2.0]]
        e = {'fam': 'mvnormal', 'n': 2, 'p_mu': [v.hex() for v in (0.0, 1.0)], 'p_sigma': [v.hex() for r in S for v in r], 'xv': [[(0.3).hex(), (0.2).hex()]]}
        a = float(mv_ref(e, 0)['lp'])
        b = st.multivariate_normal([0, 1], S).logpdf([0.3, 0.2])
        if abs(a - b) > 1e-12:
            bad.append('mvnormal closed form %r vs scipy %r' % (a, b))
        e = {'fam': 'mvt', 'n': 2, 'p_nu': [(3.5).hex()], 'p_mu': [v.hex() for v in (0.0, 1.0)], 'p_sigma': [v.hex() for r in S for v in r],
             'xv': [[(0.3).hex(), (0.2).hex()]]}
        a = float(mv_ref(e, 0)['lp'])
        b = st.multivariate_t([0, 1], S, df=3.5).logpdf([0.3, 0.2])
        if abs(a - b) > 1e-12:
            bad.append('mvt closed form %r vs scipy %r' % (a, b))
        e = {'fam': 'iwishart', 'n': 2, 'p_nu': [(4.0).hex()], 'p_S': [v.hex() for r in S for v in r], 'xm': [[v.hex() for r in X for v in r]]}
        a = float(mv_ref(e, 0)['lp'])
        b = st.invwishart(df=4, scale=np.array(S)).logpdf(np.array(X))
        if abs(a - b) > 1e-12:
            bad.append('inverse Wishart closed form %r vs scipy %r' % (a, b))
        e = {'fam': 'skewnormal', 'n': 1, 'p_xi': [(0.5).hex()], 'p_omega': [(1.0).hex()], 'p_alpha': [(2.0).hex()], 'p_scale': [(1.5).hex()],
             'xv': [[(1.25).hex()]]}
        a = float(mv_ref(e, 0)['lp'])
        b = st.skewnorm(2.0, loc=0.5, scale=1.5).logpdf(1.25)
        if abs(a - b) > 1e-12:
            bad.append('skew normal closed form %r vs scipy %r' % (a, b))
        checks = [('normal', [0.5, 2.0], st.norm(0.5, 2.0), 1.3), ('laplace', [0.5, 2.0], st.laplace(0.5, 2.0), 1.3),
                  ('cauchy', [0.5, 2.0], st.cauchy(0.5, 2.0), 1.3), ('pareto', [2.0, 3.0], st.pareto(3.0, scale=2.0), 2.5),
                  ('gpareto', [0.5, 2.0, 0.3], st.genpareto(0.3, loc=0.5, scale=2.0), 1.3),
                  ('gev', [0.5, 2.0, 0.3], st.genextreme(-0.3, loc=0.5, scale=2.0), 1.3),
                  ('gamma', [2.5, 2.0], st.gamma(2.5, scale=0.5), 1.3), ('beta', [2.5, 1.5], st.beta(2.5, 1.5), 0.3),
                  ('chisq', [3.5], st.chi2(3.5), 1.3), ('exponential', [2.0], st.expon(scale=0.5), 1.3),
                  ('gengamma', [2.0, 3.0, 1.5], st.gengamma(2.0, 1.5, scale=2.0), 1.3),
                  ('binomial', [0.3, 10], st.binom(10, 0.3), 4), ('negbinomial', [2.5, 0.3], st.nbinom(2.5, 0.7), 4),
                  ('poisson', [2.5], st.poisson(2.5), 4), ('geometric', [0.3], st.geom(0.3, loc=-1), 4)]
        for name, P, d, x in checks:
            f = FAMS[name]
            a = float(lp_inside(f, [mpf(p) for p in P], mpf(x)))
            b = d.logpdf(x) if hasattr(d.dist, 'pdf') else d.logpmf(x)
            if abs(a - b) > 1e-10 * max(1, abs(b)):
                bad.append('%s reference %r vs scipy %r' % (name, a, b))
            if f.cdf is not None:
                a = float(f.cdf([mpf(p) for p in P], mpf(x)))
                b = d.cdf(x)
                if abs(a - b) > 1e-10:
                    bad.append('%s reference cdf %r vs scipy %r' % (name, a, b))
    except ImportError:
        pass
    # every continuous reference density integrates to one (mp.quad, split at the mode / break points)
    for name, P, pts in [('normal', [0.5, 2], [NINF, 0.5, PINF]), ('laplace', [0.5, 2], [NINF, 0.5, PINF]), ('cauchy', [0.5, 2], [NINF, 0.5, PINF]),
                         ('pareto', [2, 3], [2, 4, PINF]), ('gpareto', [0.5, 2, 0.3], [0.5, 3, PINF]), ('gpareto', [0.5, 2, 0], [0.5, 3, PINF]),
                         ('gpareto', [0.5, 2, -0.5], [0.5, 2, 4.5]), ('gev', [0.5, 2, 0.3], [mpf(0.5) - 2 / mpf('0.3'), 0.5, 5, PINF]),
                         ('gev', [0.5, 2, 0], [NINF, 0.5, PINF]), ('gev', [0.5, 2, -0.5], [NINF, 0.5, 4.5]),
                         ('gamma', [2.5, 2], [0, 0.75, PINF]), ('beta', [2.5, 1.5], [0, 0.75, 1]), ('chisq', [3.5], [0, 1.5, PINF]),
                         ('exponential', [2], [0, 1, PINF]), ('gengamma', [2, 3, 1.5], [0, 2, PINF]), ('powerlaw', [2.5, 2], [2, 4, PINF])]:
        f = FAMS[name]
        PP = [mpf(p) for p in P]
        val = mp.quad(lambda x: sexp(lp_inside(f, PP, x)) if classify(f, PP, x) == 'interior' else mpf(0), [mpf(p) for p in pts])
        if abs(val - 1) > mpf(10) ** -12:
            bad.append('reference density of %s%s integrates to %s' % (name, P, mp.nstr(val, 15)))
    return bad


# ---------------------------------------------------------------------------
# driver interface
# ---------------------------------------------------------------------------

HANDLERS = {'pts': do_pts, 'quad': do_quad, 'cdf': do_cdf, 'wrap': do_wrap, 'mv': do_mv, 'mvwrap': do_mvwrap}


def judge_file(path):
    out = Out()
    try:
        f = open(path)
    except FileNotFoundError:
        return out.__dict__
    with f:
        for line in f:
            if '"ev":"data"' not in line and '"ev": "data"' not in line:
                continue
            try:
                e = json.loads(line)
            except Exception:
                continue
            if e.get('ev') != 'data':
                continue
            h = HANDLERS.get(e.get('k'))
            if h is None:
                continue
            try:
                h(e, out)
            except Exception as ex:
                import traceback
                out.v(e.get('case'), 'C14|oracle|%s|handler-failed' % e.get('k'), 'oracle handler failed: %r\n%s' % (ex, traceback.format_exc()[-1500:]), None)
            out.c('events:' + e['k'])
    return out.__dict__


def judge(files, opts):
    files = [f for f in files if os.path.exists(f)]
    n = max(1, min(int(opts.get('ncpu', 4)), len(files) or 1))
    if len(files) <= 1:
        results = [judge_file(f) for f in files]
    else:
        with Pool(n) as pool:
            results = pool.map(judge_file, files, chunksize=1)
    viol, cov, evals = [], {}, 0
    for r in results:
        viol += r['viol']
        evals += r['evals']
        for k, v in r['cov'].items():
            cov[k] = cov.get(k, 0) + v
    note = 'oracle self-check (scipy.stats closed forms, mp.quad of every reference density = 1): passed'
    problems = self_check()
    if problems:
        for p in problems:
            viol.append({"case": None, "sig": "C14|oracle|self-check|reference-table", "detail": p, "witness": None})
        note = 'oracle self-check FAILED: ' + '; '.join(problems)
    # cap the number of reported occurrences per signature (the driver keeps counts)
    return {"violations": viol, "coverage": cov, "nontrivial": [], "samples": [], "evaluations": evals, "note": note}


if __name__ == '__main__':
    import sys
    r = judge(sys.argv[1:], {'ncpu': 16})
    by = {}
    for v in r['violations']:
        by.setdefault(v['sig'], []).append(v)
    for s, vs in sorted(by.items()):
        print(len(vs), s)
        print('     ', vs[0]['detail'][:300])
    print(json.dumps(r['coverage'], indent=0, sort_keys=True)[:6000])
    print(r['note'], r['evaluations'])
