"""Offline oracle of C02: every scalar type computes the function its method names.

Reads the data events written by harness/c02 (operand values as held by the
operand types, receiver value after the call, both as hex floats), evaluates the
NAMED function (table in oracles/c01.py, written from README.md / the doc
comments) in mpmath and compares with

    tolerance = K * eps_T * (|f| + sum_k |x_k df/dx_k|)

eps_T = machine epsilon of the receiver's storage type, K a fixed constant per
operation family (printed in the evidence).  IEEE special operands are judged
against the explicit table SPECIAL.  On top: cross-type differential (Real vs
Float of equal width bit-equal; 32-bit vs 64-bit within the two tolerances).
"""
import json, math, os, struct, sys
from collections import Counter
from multiprocessing import Pool

import mpmath as mp

from . import c01 as T

mpf = mp.mpf

EPS = {"Float32": 2.0 ** -23, "Real32": 2.0 ** -23, "Float64": 2.0 ** -52, "Real64": 2.0 ** -52}
MAXF = {"Float32": 3.4028234663852886e38, "Real32": 3.4028234663852886e38, "Float64": 1.7976931348623157e308, "Real64": 1.7976931348623157e308}
MINNORMAL = {"Float32": 2.0 ** -126, "Real32": 2.0 ** -126, "Float64": 2.0 ** -1022, "Real64": 2.0 ** -1022}
INTBITS = {"Int8": 8, "Int16": 16, "Int32": 32, "Int64": 64, "Int": 64}

FAMILY = {}
for _n in "Neg Abs Min Max Add Sub Mul Div Sqrt".split():
    FAMILY[_n] = "arith"
for _n in "Sin Cos Tan Sinh Cosh Tanh Exp Log Log1p Pow".split():
    FAMILY[_n] = "elementary"
for _n in "Erf Erfc LogErfc".split():
    FAMILY[_n] = "erf"
for _n in "Gamma Lgamma Mlgamma GammaP BesselI LogBesselI".split():
    FAMILY[_n] = "gamma"
for _n in "Log1pExp Logistic Sigmoid LogAdd LogSub SmoothMax LogSmoothMax Vmean Vnorm VdotV Mnorm Mtrace".split():
    FAMILY[_n] = "composite"

# K: what a textbook evaluation with Go's math package loses, in units of eps*(|f|+sum|x f'|)
K = {"arith": 1, "elementary": 4, "composite": 8, "erf": 16, "gamma": 64}

TOLERANCES = {
    "policy": "condition-scaled (DESIGN.md 2.4): |observed - f| <= K * eps_T * (|f| + sum_k |x_k df/dx_k|), f and its partial derivatives "
              "evaluated in mpmath at 60 digits at the operand values as held by the operand types",
    "eps_T": "2^-23 for Float32/Real32 receivers, 2^-52 for Float64/Real64 and for integer receivers (which convert a float64 result)",
    "K": K,
    "reductions": "K + n for a reduction over n elements (accumulation)",
    "LogSmoothMax": "additional term max_i|alpha x_i + log x_i| * |f| in the condition sum: a quantity carried on log scale in type T has "
                    "absolute error eps_T*|log value|",
    "underflow": "results below the smallest normal number of T are only required to stay below twice that number",
    "overflow": "|f| beyond the largest finite number of T: +-Inf of the right sign is accepted",
    "integer receivers": "primitive float operations converted to the integer type: truncation of f towards zero; both neighbours accepted "
                         "when f is within the tolerance of an integer; results outside the type's range are not judged",
    "cross-type": "Float64 vs Real64 bit-equal; Float32 vs Real32 bit-equal when every operand is representable in float32; "
                  "32-bit vs 64-bit receivers within the sum of their two tolerances",
    "special values": "explicit IEEE table (oracles/c02.py: SPECIAL); the sign of zero is judged for Neg only",
}


def fromhex(s):
    return float.fromhex(s)


def cls(x):
    if x != x:
        return "nan"
    if x == math.inf:
        return "inf"
    if x == -math.inf:
        return "-inf"
    if x == 0:
        return "-0" if math.copysign(1, x) < 0 else "0"
    return repr(float(x))


def _sp(*pairs):
    return {tuple(k if isinstance(k, tuple) else (k,)): v for k, v in pairs}


LOG2 = math.log(2.0)
_trig = _sp(("inf", "nan"), ("-inf", "nan"), ("nan", "nan"))
SPECIAL = {
    "Neg": _sp(("0", "-0"), ("-0", "0"), ("inf", "-inf"), ("-inf", "inf"), ("nan", "nan")),
    "Abs": _sp(("0", "0"), ("-0", "0"), ("inf", "inf"), ("-inf", "inf"), ("nan", "nan")),
    "Sqrt": _sp(("inf", "inf"), ("-inf", "nan"), ("nan", "nan"), ("-1.0", "nan")),
    "Exp": _sp(("inf", "inf"), ("-inf", "0"), ("nan", "nan")),
    "Log": _sp(("inf", "inf"), ("-inf", "nan"), ("nan", "nan"), ("0", "-inf"), ("-1.0", "nan")),
    "Log1p": _sp(("inf", "inf"), ("-inf", "nan"), ("nan", "nan"), ("-1.0", "-inf"), ("-2.0", "nan")),
    "Sin": _trig, "Cos": _trig, "Tan": _trig,
    "Sinh": _sp(("inf", "inf"), ("-inf", "-inf"), ("nan", "nan")),
    "Cosh": _sp(("inf", "inf"), ("-inf", "inf"), ("nan", "nan")),
    "Tanh": _sp(("inf", 1.0), ("-inf", -1.0), ("nan", "nan")),
    "Erf": _sp(("inf", 1.0), ("-inf", -1.0), ("nan", "nan")),
    "Erfc": _sp(("inf", "0"), ("-inf", 2.0), ("nan", "nan")),
    "LogErfc": _sp(("inf", "-inf"), ("-inf", LOG2), ("nan", "nan")),
    "Logistic": _sp(("inf", 1.0), ("-inf", "0"), ("nan", "nan")),
    "Sigmoid": _sp(("inf", 1.0), ("-inf", "0"), ("nan", "nan")),
    "Log1pExp": _sp(("inf", "inf"), ("-inf", "0"), ("nan", "nan")),
    "Gamma": _sp(("inf", "inf"), ("nan", "nan")),
    "Lgamma": _sp(("inf", "inf"), ("nan", "nan")),
    "Add": _sp((("inf", "1.0"), "inf"), (("inf", "-inf"), "nan"), (("nan", "1.0"), "nan"), (("1.0", "nan"), "nan"),
               (("-inf", "-inf"), "-inf"), (("inf", "inf"), "inf")),
    "Sub": _sp((("inf", "1.0"), "inf"), (("inf", "-inf"), "inf"), (("nan", "1.0"), "nan"), (("1.0", "nan"), "nan"),
               (("-inf", "-inf"), "nan"), (("inf", "inf"), "nan")),
    "Mul": _sp((("inf", "0"), "nan"), (("inf", "-1.0"), "-inf"), (("inf", "inf"), "inf"), (("nan", "1.0"), "nan"),
               (("0", "nan"), "nan"), (("-inf", "2.0"), "-inf")),
    "Div": _sp((("1.0", "0"), "inf"), (("1.0", "-0"), "-inf"), (("-1.0", "0"), "-inf"), (("0", "0"), "nan"), (("1.0", "inf"), "0"),
               (("inf", "inf"), "nan"), (("inf", "2.0"), "inf"), (("nan", "1.0"), "nan"), (("-3.0", "inf"), "0")),
    "Min": _sp((("inf", "1.0"), 1.0), (("1.0", "inf"), 1.0), (("-inf", "1.0"), "-inf"), (("1.0", "-inf"), "-inf"), (("-inf", "inf"), "-inf")),
    "Max": _sp((("inf", "1.0"), "inf"), (("1.0", "inf"), "inf"), (("-inf", "1.0"), 1.0), (("1.0", "-inf"), 1.0), (("-inf", "inf"), "inf")),
    "Pow": _sp((("0", "-1.0"), "inf"), (("inf", "1.0"), "inf"), (("inf", "-1.0"), "0"), (("2.0", "inf"), "inf"), (("2.0", "-inf"), "0"),
               (("0.5", "inf"), "0"), (("-8.0", "0.5"), "nan"), (("nan", "1.0"), "nan"), (("1.0", "nan"), 1.0), (("nan", "0"), 1.0),
               (("0", "0"), 1.0)),
    "LogAdd": _sp((("-inf", "1.0"), 1.0), (("1.0", "-inf"), 1.0), (("-inf", "-inf"), "-inf"), (("inf", "1.0"), "inf"),
                  (("1.0", "inf"), "inf"), (("inf", "inf"), "inf"), (("nan", "1.0"), "nan")),
    "LogSub": _sp((("1.0", "-inf"), 1.0), (("2.0", "2.0"), "-inf"), (("inf", "1.0"), "inf")),
}


def f32(v):
    return struct.unpack("f", struct.pack("f", v))[0]


def same_special(got, want, judge_sign, width32=False):
    if isinstance(want, float) and width32:
        want = f32(want)
    if want == "nan":
        return got != got
    if want == "inf":
        return got == math.inf
    if want == "-inf":
        return got == -math.inf
    if want in ("0", "-0"):
        if got != 0:
            return False
        if judge_sign:
            return (math.copysign(1, got) < 0) == (want == "-0")
        return True
    return got == want


bucket, gammap_method, label = T.bucket, T.gammap_method, T.label


class Ref:
    __slots__ = ("f", "cond", "kind", "n")


def reference(op, x, y, par, k, shape):
    """value of the named function and its condition sum; kind: 'num' | 'nan' | 'inf' | '-inf'"""
    r = Ref()
    r.kind, r.n = "num", 0
    X = [mpf(v) for v in x]
    if op in T.MON:
        f, f1, _ = T.MON[op]
        p = mpf(par) if par is not None else None
        if op == "Lgamma" and T.gamma_sign(X[0]) < 0:
            r.kind, r.f, r.cond = "nan", None, None
            return r
        r.f = f(X[0], p, k)
        if X[0] == 0:
            r.cond = abs(r.f)  # x * f'(x) -> 0 for every operation of the table that is defined at 0
        else:
            r.cond = abs(r.f) + abs(X[0] * f1(X[0], p, k))
        return r
    if op in ("Min", "Max"):
        r.f = min(X) if op == "Min" else max(X)
        r.cond = abs(r.f)
        return r
    if op in T.DY:
        if op == "Div" and X[1] == 0:
            r.f = r.cond = None
            r.kind = "nan" if X[0] == 0 else ("inf" if (X[0] > 0) == (math.copysign(1, x[1]) > 0) else "-inf")
            return r
        f, fx, fy = T.DY[op][:3]
        r.f = f(X[0], X[1])
        if op == "Pow" and X[0] <= 0:
            # integer exponent (or base 0): the exponent is not perturbed
            gx = X[1] * mp.power(X[0], X[1] - 1) if X[0] != 0 else mpf(0)
            r.cond = abs(r.f) + abs(X[0] * gx)
        else:
            r.cond = abs(r.f) + abs(X[0] * fx(X[0], X[1])) + abs(X[1] * fy(X[0], X[1]))
        return r
    n = len(X)
    r.n = n
    if op in ("SmoothMax", "LogSmoothMax"):
        a = mpf(par)
        s, g, da = T.smoothmax(X, a)
        r.f = s
        r.cond = abs(s) + sum(abs(xi * gi) for xi, gi in zip(X, g)) + abs(a * da)
        if op == "LogSmoothMax":
            r.cond += max(abs(a * xi + mp.log(xi)) for xi in X) * abs(s)
        return r
    if op == "Vmean":
        r.f = sum(X) / n
        r.cond = abs(r.f) + sum(abs(v) for v in X) / n
        return r
    if op == "Vnorm":
        r.f = mp.sqrt(sum(v * v for v in X))
        r.cond = 2 * r.f
        return r
    if op == "VdotV":
        Y = [mpf(v) for v in y]
        r.f = sum(a * b for a, b in zip(X, Y))
        r.cond = abs(r.f) + 2 * sum(abs(a * b) for a, b in zip(X, Y))
        return r
    if op == "Mnorm":
        r.f = mp.sqrt(sum(v * v for v in X))
        r.cond = 2 * r.f
        return r
    if op == "Mtrace":
        rows, cols = shape
        d = [X[i * cols + i] for i in range(rows)]
        r.n = rows
        r.f = sum(d)
        r.cond = abs(r.f) + sum(abs(v) for v in d)
        return r
    raise KeyError(op)


def f32_exact(v):
    if v != v or v in (math.inf, -math.inf):
        return True
    try:
        return struct.unpack("f", struct.pack("f", v))[0] == v
    except OverflowError:
        return False


def bits_equal(a, b):
    return (a != a and b != b) or (a == b)


def describe(ev):
    d = {k: ev[k] for k in ("op", "cls", "ot", "vt", "x", "y", "par", "k", "shape", "order", "scratch") if k in ev}
    d["x_decimal"] = [fromhex(s) for s in ev["x"]]
    return d


def judge_event(ev, out):
    op, cl = ev["op"], ev["cls"]
    x = [fromhex(s) for s in ev["x"]]
    y = [fromhex(s) for s in ev.get("y", [])]
    par = fromhex(ev["par"]) if "par" in ev else None
    k = ev.get("k", 0)
    res = {t: fromhex(s) for t, s in ev["res"].items()}
    case = ev.get("case")
    cov = out["cov"]

    def viol(mon, recv, lab, kind, detail):
        out["viol"].append({"case": case, "sig": "C02|%s|%s|recv=%s|%s|%s" % (mon, op, recv, lab, kind), "detail": detail,
                            "witness": describe(ev)})

    if cl == "special":
        key = tuple(cls(v) for v in x)
        want = SPECIAL.get(op, {}).get(key)
        lab = "x=" + ",".join(key)
        if want is None:
            out["errors"].append("special point %s%r is not in the table SPECIAL" % (op, key))
            return
        for recv, got in res.items():
            cov["special-judged:" + op] += 1
            if not same_special(got, want, op == "Neg", recv.endswith("32")):
                viol("special", recv, lab, "value", "%s.%s(%s) = %r, IEEE / the named function give %r" % (recv, op, ", ".join(key), got, want))
        fl = [r for r in ("Float64", "Real64") if r in res]
        if len(fl) == 2 and not bits_equal(res["Float64"], res["Real64"]):
            if same_special(res["Float64"], want, False) and same_special(res["Real64"], want, False):
                viol("diff", "Float64~Real64", lab, "value", "Float64 gives %r, Real64 gives %r" % (res["Float64"], res["Real64"]))
        return

    lab = label(op, x, par, k, ev)
    if ev.get("scratch") and op in ("LogAdd", "LogSub", "Sigmoid", "SmoothMax", "LogSmoothMax"):
        lab += ",scratch:" + ev["scratch"]  # stale / reused receiver and scratch arguments are their own input class
    try:
        ref = reference(op, x, y, par, k, ev.get("shape"))
    except Exception as e:  # the table cannot evaluate the point: not judged, counted
        cov["unjudged:reference-failed:" + op] += 1
        out["errors"].append("%s %s: %r" % (op, x, e))
        return
    out["evals"] += 1
    fam = FAMILY[op]
    kk = K[fam] + ref.n
    bad = set()
    tol = {}
    for recv, got in res.items():
        if recv in INTBITS:
            # primitive float operation converted to an integer type
            if ref.kind != "num":
                cov["unjudged:int-nonfinite"] += 1
                continue
            t = float(kk * EPS["Float64"] * ref.cond)
            f = ref.f
            lim = 2.0 ** (INTBITS[recv] - 1)
            if abs(f) + t >= lim - 1 or abs(f) > 2.0 ** 52:
                cov["unjudged:int-out-of-range"] += 1
                continue
            lo, hi = int(mp.floor(f - t)) if f - t >= 0 else int(mp.ceil(f - t)), int(mp.floor(f + t)) if f + t >= 0 else int(mp.ceil(f + t))
            cov["judged-int:" + op] += 1
            cov["judged:" + op + "/" + recv] += 1
            if not (min(lo, hi) <= got <= max(lo, hi)) or got != math.trunc(got):
                bad.add(recv)
                viol("named", recv, lab, "value", "%s.%s(%s%s) = %r, the named function gives %s (truncated %d)" % (
                    recv, op, x, "" if par is None else "; par=%r" % par, got, mp.nstr(f, 17), int(f)))
            continue
        eps = EPS[recv]
        cov["judged:" + op + "/" + recv] += 1
        if ref.kind != "num":
            ok = same_special(got, ref.kind, False)
            if not ok:
                bad.add(recv)
                viol("named", recv, lab, "value", "%s.%s(%s) = %r, expected %s" % (recv, op, x, got, ref.kind))
            continue
        f = ref.f
        t = kk * eps * ref.cond
        tol[recv] = t
        af = abs(f)
        if (got != got or got in (math.inf, -math.inf)) and t >= af / 2 and af + t < MAXF[recv]:
            # the first-order bound says nothing here: f(x~) for x~ within eps_T of x may be singular (e.g. operands equal after rounding to T)
            cov["unjudged:ill-conditioned"] += 1
            continue
        if got != got:
            bad.add(recv)
            viol("named", recv, lab, "value", "%s.%s(%s%s) = NaN, the named function gives %s" % (recv, op, x, "" if par is None else "; par=%r" % par, mp.nstr(f, 17)))
            continue
        if got in (math.inf, -math.inf):
            if af + t >= MAXF[recv] and (got > 0) == (f > 0):
                cov["overflow-accepted"] += 1
                continue
            bad.add(recv)
            viol("named", recv, lab, "value", "%s.%s(%s) = %r, the named function gives %s" % (recv, op, x, got, mp.nstr(f, 17)))
            continue
        if af < MINNORMAL[recv]:
            cov["underflow-range"] += 1
            if abs(got) <= 2 * MINNORMAL[recv]:
                continue
        err = abs(mpf(got) - f)
        if t > 0:
            ratio = float(err / t)
            key = op + "/" + ("32" if eps > 1e-10 else "64")
            if ratio > out["worst"].get(key, (0, None))[0] and ratio <= 1:
                out["worst"][key] = (ratio, x)
        if err > t:
            bad.add(recv)
            viol("named", recv, lab, "value", "%s.%s(%s%s) = %r, the named function gives %s; |error| = %s > tolerance %s (K=%d, eps=%g, condition sum %s)" % (
                recv, op, x, "" if par is None else "; par=%r" % par, got, mp.nstr(f, 17), mp.nstr(err, 3), mp.nstr(t, 3), kk, eps, mp.nstr(ref.cond, 3)))
    # cross-type differential
    for a, b in (("Float64", "Real64"), ("Float32", "Real32")):
        if a in res and b in res and a not in bad and b not in bad:
            exact = a == "Float64" or all(f32_exact(v) for v in x + y + ([par] if (par is not None and "vt" in ev) else []))
            if exact:
                cov["diff-exact:" + a + "~" + b] += 1
                if not bits_equal(res[a], res[b]):
                    viol("diff", a + "~" + b, lab, "value", "%s(%s): %s gives %r, %s gives %r; tracking derivatives must not change the value" % (
                        op, x, a, res[a], b, res[b]))
    for a in ("Float32", "Real32"):
        for b in ("Float64", "Real64"):
            if a in res and b in res and a not in bad and b not in bad and a in tol and b in tol:
                cov["diff-width"] += 1
                ra, rb = res[a], res[b]
                if ra in (math.inf, -math.inf) or rb in (math.inf, -math.inf) or ra != ra or rb != rb:
                    continue
                if abs(ref.f) < MINNORMAL[a]:
                    continue
                if abs(mpf(ra) - mpf(rb)) > tol[a] + tol[b]:
                    viol("diff", a + "~" + b, lab, "value", "%s(%s): %s gives %r, %s gives %r" % (op, x, a, ra, b, rb))


def work(chunk):
    mp.mp.dps = 60
    out = {"viol": [], "cov": Counter(), "evals": 0, "worst": {}, "errors": []}
    for ev in chunk:
        try:
            judge_event(ev, out)
        except Exception as e:  # a defect of the oracle itself must be visible, not silent
            out["errors"].append("oracle exception on %s: %r" % (json.dumps(ev)[:300], e))
            out["cov"]["oracle-exceptions"] += 1
    return out


def judge(files, opts):
    events = []
    for f in files:
        try:
            with open(f) as fh:
                for line in fh:
                    if '"ev":"data"' not in line:
                        continue
                    try:
                        e = json.loads(line)
                    except Exception:
                        continue
                    if e.get("ev") == "data" and "op" in e:
                        events.append(e)
        except FileNotFoundError:
            pass
    ncpu = max(1, min(opts.get("ncpu", 4), 16))
    chunks = [events[i::ncpu * 4] for i in range(ncpu * 4)]
    chunks = [c for c in chunks if c]
    if len(events) < 50:
        outs = [work(c) for c in chunks]
    else:
        with Pool(ncpu) as pool:
            outs = pool.map(work, chunks)
    viols, cov, evals, worst, errors = [], Counter(), 0, {}, []
    for o in outs:
        viols += o["viol"]
        cov.update(o["cov"])
        evals += o["evals"]
        errors += o["errors"]
        for k, v in o["worst"].items():
            if v[0] > worst.get(k, (0, None))[0]:
                worst[k] = v
    if errors:
        viols.append({"case": None, "sig": "C02|oracle|internal|error", "detail": "; ".join(errors[:5]), "witness": None})
    samples = [{"monitor": "oracle", "worst error/tolerance ratio of accepted results per operation and width":
                {k: round(v[0], 3) for k, v in sorted(worst.items())}}]
    return {"violations": viols, "coverage": dict(cov), "nontrivial": [], "samples": samples, "evaluations": evals,
            "note": "offline oracle: named-function table (driver/oracles/c01.py, mpmath %s at 60 digits); trusted base: mpmath" % mp.__version__}
