"""Offline oracle of C01 and the textbook function table shared with C02.

Part 1 (this section) is the table of the mathematical functions the scalar
operations are NAMED after (README.md / doc comments), each with its first and
second derivative written from the textbook definition -- not from the
library's decomposition.  Everything is evaluated in mpmath.

Part 2 (further below) is the second-order jet arithmetic and the local /
global checks of C01.
"""
import mpmath as mp

mp.mp.dps = 60
mpf = mp.mpf
ZERO, ONE, TWO = mpf(0), mpf(1), mpf(2)
SQRTPI = mp.sqrt(mp.pi)


class OutOfDomain(Exception):
    pass


def sigma(x):
    """1/(1+e^-x), stable on both sides"""
    if x >= 0:
        return 1 / (1 + mp.exp(-x))
    e = mp.exp(x)
    return e / (1 + e)


def sigma1(x):
    """sigma' = sigma (1 - sigma) = e^-|x| / (1 + e^-|x|)^2"""
    e = mp.exp(-abs(x))
    return e / (1 + e) ** 2


def sigma2(x):
    """sigma'' = sigma' (1 - 2 sigma) = -sigma' tanh(x/2)"""
    return -sigma1(x) * mp.tanh(x / 2)


def log1pexp(x):
    if x > 0:
        return x + mp.log1p(mp.exp(-x))
    return mp.log1p(mp.exp(x))


def lgamma_abs(x):
    """log |Gamma(x)|"""
    if x > 0:
        return mp.loggamma(x)
    return mp.log(abs(mp.gamma(x)))


def gamma_sign(x):
    if x > 0:
        return 1
    return 1 if int(mp.floor(x)) % 2 == 0 else -1


def _erf1(x):
    return 2 / SQRTPI * mp.exp(-x * x)


def _lerfc_r(x):
    # (log erfc)' = erfc'/erfc
    return -_erf1(x) / mp.erfc(x)


def _tan1(x):
    t = mp.tan(x)
    return 1 + t * t


def _sech2(x):
    c = mp.cosh(x)
    return 1 / (c * c)


def _gammap1(a, x):
    # d/dx P(a,x) = x^(a-1) e^-x / Gamma(a)
    return mp.exp((a - 1) * mp.log(x) - x - mp.loggamma(a))


def _bi(v, x):
    return mp.besseli(v, x)


def _bi1(v, x):
    return (_bi(v - 1, x) + _bi(v + 1, x)) / 2


def _bi2(v, x):
    return (_bi(v - 2, x) + 2 * _bi(v, x) + _bi(v + 2, x)) / 4


# monadic operations: name -> (f, f', f'') as functions of (x, par, k)
MON = {
    "Neg": (lambda x, p, k: -x, lambda x, p, k: -ONE, lambda x, p, k: ZERO),
    "Abs": (lambda x, p, k: abs(x), lambda x, p, k: mp.sign(x), lambda x, p, k: ZERO),
    "Sqrt": (lambda x, p, k: mp.sqrt(x), lambda x, p, k: 1 / (2 * mp.sqrt(x)), lambda x, p, k: -1 / (4 * x * mp.sqrt(x))),
    "Sin": (lambda x, p, k: mp.sin(x), lambda x, p, k: mp.cos(x), lambda x, p, k: -mp.sin(x)),
    "Cos": (lambda x, p, k: mp.cos(x), lambda x, p, k: -mp.sin(x), lambda x, p, k: -mp.cos(x)),
    "Tan": (lambda x, p, k: mp.tan(x), lambda x, p, k: _tan1(x), lambda x, p, k: 2 * mp.tan(x) * _tan1(x)),
    "Sinh": (lambda x, p, k: mp.sinh(x), lambda x, p, k: mp.cosh(x), lambda x, p, k: mp.sinh(x)),
    "Cosh": (lambda x, p, k: mp.cosh(x), lambda x, p, k: mp.sinh(x), lambda x, p, k: mp.cosh(x)),
    "Tanh": (lambda x, p, k: mp.tanh(x), lambda x, p, k: _sech2(x), lambda x, p, k: -2 * mp.tanh(x) * _sech2(x)),
    "Exp": (lambda x, p, k: mp.exp(x), lambda x, p, k: mp.exp(x), lambda x, p, k: mp.exp(x)),
    "Log": (lambda x, p, k: mp.log(x), lambda x, p, k: 1 / x, lambda x, p, k: -1 / (x * x)),
    "Log1p": (lambda x, p, k: mp.log1p(x), lambda x, p, k: 1 / (1 + x), lambda x, p, k: -1 / ((1 + x) * (1 + x))),
    "Log1pExp": (lambda x, p, k: log1pexp(x), lambda x, p, k: sigma(x), lambda x, p, k: sigma1(x)),
    "Logistic": (lambda x, p, k: sigma(x), lambda x, p, k: sigma1(x), lambda x, p, k: sigma2(x)),
    "Sigmoid": (lambda x, p, k: sigma(x), lambda x, p, k: sigma1(x), lambda x, p, k: sigma2(x)),
    "Erf": (lambda x, p, k: mp.erf(x), lambda x, p, k: _erf1(x), lambda x, p, k: -2 * x * _erf1(x)),
    "Erfc": (lambda x, p, k: mp.erfc(x), lambda x, p, k: -_erf1(x), lambda x, p, k: 2 * x * _erf1(x)),
    "LogErfc": (lambda x, p, k: mp.log(mp.erfc(x)), lambda x, p, k: _lerfc_r(x),
                lambda x, p, k: -2 * x * _lerfc_r(x) - _lerfc_r(x) ** 2),
    "Gamma": (lambda x, p, k: mp.gamma(x), lambda x, p, k: mp.gamma(x) * mp.psi(0, x),
              lambda x, p, k: mp.gamma(x) * (mp.psi(0, x) ** 2 + mp.psi(1, x))),
    # Lgamma: log Gamma(x) as a real function: log|Gamma| where Gamma > 0; the caller handles Gamma < 0
    "Lgamma": (lambda x, p, k: lgamma_abs(x), lambda x, p, k: mp.psi(0, x), lambda x, p, k: mp.psi(1, x)),
    "Mlgamma": (lambda x, p, k: mpf(k * (k - 1)) / 4 * mp.log(mp.pi) + sum(lgamma_abs(x + mpf(1 - j) / 2) for j in range(1, k + 1)),
                lambda x, p, k: sum(mp.psi(0, x + mpf(1 - j) / 2) for j in range(1, k + 1)),
                lambda x, p, k: sum(mp.psi(1, x + mpf(1 - j) / 2) for j in range(1, k + 1))),
    "GammaP": (lambda x, p, k: mp.gammainc(p, 0, x, regularized=True), lambda x, p, k: _gammap1(p, x),
               lambda x, p, k: _gammap1(p, x) * ((p - 1) / x - 1)),
    "BesselI": (lambda x, p, k: _bi(p, x), lambda x, p, k: _bi1(p, x), lambda x, p, k: _bi2(p, x)),
    "LogBesselI": (lambda x, p, k: mp.log(_bi(p, x)), lambda x, p, k: _bi1(p, x) / _bi(p, x),
                   lambda x, p, k: _bi2(p, x) / _bi(p, x) - (_bi1(p, x) / _bi(p, x)) ** 2),
}


def _logsub_q(a, b):
    e = mp.exp(b - a)
    return e / (1 - e) ** 2


# dyadic operations: name -> (f, fx, fy, fxx, fxy, fyy) as functions of (x, y)
DY = {
    "Add": (lambda x, y: x + y, lambda x, y: ONE, lambda x, y: ONE, lambda x, y: ZERO, lambda x, y: ZERO, lambda x, y: ZERO),
    "Sub": (lambda x, y: x - y, lambda x, y: ONE, lambda x, y: -ONE, lambda x, y: ZERO, lambda x, y: ZERO, lambda x, y: ZERO),
    "Mul": (lambda x, y: x * y, lambda x, y: y, lambda x, y: x, lambda x, y: ZERO, lambda x, y: ONE, lambda x, y: ZERO),
    "Div": (lambda x, y: x / y, lambda x, y: 1 / y, lambda x, y: -x / (y * y), lambda x, y: ZERO, lambda x, y: -1 / (y * y),
            lambda x, y: 2 * x / (y * y * y)),
    "Pow": (lambda x, y: mp.power(x, y), lambda x, y: y * mp.power(x, y - 1), lambda x, y: mp.power(x, y) * mp.log(x),
            lambda x, y: y * (y - 1) * mp.power(x, y - 2), lambda x, y: mp.power(x, y - 1) * (1 + y * mp.log(x)),
            lambda x, y: mp.power(x, y) * mp.log(x) ** 2),
    # log(e^x + e^y)
    "LogAdd": (lambda x, y: max(x, y) + mp.log1p(mp.exp(-abs(x - y))), lambda x, y: sigma(x - y), lambda x, y: sigma(y - x),
               lambda x, y: sigma1(x - y), lambda x, y: -sigma1(x - y), lambda x, y: sigma1(x - y)),
    # log(e^x - e^y), x > y
    "LogSub": (lambda x, y: x + mp.log(-mp.expm1(y - x)), lambda x, y: -1 / mp.expm1(y - x), lambda x, y: mp.exp(y - x) / mp.expm1(y - x),
               lambda x, y: -_logsub_q(x, y), lambda x, y: _logsub_q(x, y), lambda x, y: -_logsub_q(x, y)),
}


def smoothmax(xs, alpha):
    """sum x_i e^(alpha x_i) / sum e^(alpha x_i) and its gradient w.r.t. (x_1..x_n, alpha)"""
    m = max(alpha * x for x in xs)
    w = [mp.exp(alpha * x - m) for x in xs]
    sw = sum(w)
    w = [wi / sw for wi in w]
    s = sum(wi * x for wi, x in zip(w, xs))
    grad = [wi * (1 + alpha * (x - s)) for wi, x in zip(w, xs)]
    dalpha = sum(wi * x * x for wi, x in zip(w, xs)) - s * s
    return s, grad, dalpha
