"""Offline oracle of C01 and the textbook function table shared with C02.

Part 1 (this section) is the table of the mathematical functions the scalar
operations are NAMED after (README.md / doc comments), each with its first and
second derivative written from the textbook definition -- not from the
library's decomposition.  Everything is evaluated in mpmath.

Part 2 (further below) is the second-order jet arithmetic and the local /
global checks of C01.
"""
import mpmath as mp

mp.mp.dps = 60
mpf = mp.mpf
ZERO, ONE, TWO = mpf(0), mpf(1), mpf(2)
SQRTPI = mp.sqrt(mp.pi)


class OutOfDomain(Exception):
    pass


def sigma(x):
    """1/(1+e^-x), stable on both sides"""
    if x >= 0:
        return 1 / (1 + mp.exp(-x))
    e = mp.exp(x)
    return e / (1 + e)


def sigma1(x):
    """sigma' = sigma (1 - sigma) = e^-|x| / (1 + e^-|x|)^2"""
    e = mp.exp(-abs(x))
    return e / (1 + e) ** 2


def sigma2(x):
    """sigma'' = sigma' (1 - 2 sigma) = -sigma' tanh(x/2)"""
    return -sigma1(x) * mp.tanh(x / 2)


def log1pexp(x):
    if x > 0:
        return x + mp.log1p(mp.exp(-x))
    return mp.log1p(mp.exp(x))


def lgamma_abs(x):
    """log |Gamma(x)|"""
    if x > 0:
        return mp.loggamma(x)
    return mp.log(abs(mp.gamma(x)))


def gamma_sign(x):
    if x > 0:
        return 1
    return 1 if int(mp.floor(x)) % 2 == 0 else -1


def _erf1(x):
    return 2 / SQRTPI * mp.exp(-x * x)


def _lerfc_r(x):
    # (log erfc)' = erfc'/erfc
    return -_erf1(x) / mp.erfc(x)


def _tan1(x):
    t = mp.tan(x)
    return 1 + t * t


def _sech2(x):
    c = mp.cosh(x)
    return 1 / (c * c)


def _gammap1(a, x):
    # d/dx P(a,x) = x^(a-1) e^-x / Gamma(a)
    return mp.exp((a - 1) * mp.log(x) - x - mp.loggamma(a))


def _bi(v, x):
    return mp.besseli(v, x)


def _bi1(v, x):
    return (_bi(v - 1, x) + _bi(v + 1, x)) / 2


def _bi2(v, x):
    return (_bi(v - 2, x) + 2 * _bi(v, x) + _bi(v + 2, x)) / 4


# monadic operations: name -> (f, f', f'') as functions of (x, par, k)
MON = {
    "Neg": (lambda x, p, k: -x, lambda x, p, k: -ONE, lambda x, p, k: ZERO),
    "Abs": (lambda x, p, k: abs(x), lambda x, p, k: mp.sign(x), lambda x, p, k: ZERO),
    "Sqrt": (lambda x, p, k: mp.sqrt(x), lambda x, p, k: 1 / (2 * mp.sqrt(x)), lambda x, p, k: -1 / (4 * x * mp.sqrt(x))),
    "Sin": (lambda x, p, k: mp.sin(x), lambda x, p, k: mp.cos(x), lambda x, p, k: -mp.sin(x)),
    "Cos": (lambda x, p, k: mp.cos(x), lambda x, p, k: -mp.sin(x), lambda x, p, k: -mp.cos(x)),
    "Tan": (lambda x, p, k: mp.tan(x), lambda x, p, k: _tan1(x), lambda x, p, k: 2 * mp.tan(x) * _tan1(x)),
    "Sinh": (lambda x, p, k: mp.sinh(x), lambda x, p, k: mp.cosh(x), lambda x, p, k: mp.sinh(x)),
    "Cosh": (lambda x, p, k: mp.cosh(x), lambda x, p, k: mp.sinh(x), lambda x, p, k: mp.cosh(x)),
    "Tanh": (lambda x, p, k: mp.tanh(x), lambda x, p, k: _sech2(x), lambda x, p, k: -2 * mp.tanh(x) * _sech2(x)),
    "Exp": (lambda x, p, k: mp.exp(x), lambda x, p, k: mp.exp(x), lambda x, p, k: mp.exp(x)),
    "Log": (lambda x, p, k: mp.log(x), lambda x, p, k: 1 / x, lambda x, p, k: -1 / (x * x)),
    "Log1p": (lambda x, p, k: mp.log1p(x), lambda x, p, k: 1 / (1 + x), lambda x, p, k: -1 / ((1 + x) * (1 + x))),
    "Log1pExp": (lambda x, p, k: log1pexp(x), lambda x, p, k: sigma(x), lambda x, p, k: sigma1(x)),
    "Logistic": (lambda x, p, k: sigma(x), lambda x, p, k: sigma1(x), lambda x, p, k: sigma2(x)),
    "Sigmoid": (lambda x, p, k: sigma(x), lambda x, p, k: sigma1(x), lambda x, p, k: sigma2(x)),
    "Erf": (lambda x, p, k: mp.erf(x), lambda x, p, k: _erf1(x), lambda x, p, k: -2 * x * _erf1(x)),
    "Erfc": (lambda x, p, k: mp.erfc(x), lambda x, p, k: -_erf1(x), lambda x, p, k: 2 * x * _erf1(x)),
    "LogErfc": (lambda x, p, k: mp.log(mp.erfc(x)), lambda x, p, k: _lerfc_r(x),
                lambda x, p, k: -2 * x * _lerfc_r(x) - _lerfc_r(x) ** 2),
    "Gamma": (lambda x, p, k: mp.gamma(x), lambda x, p, k: mp.gamma(x) * mp.psi(0, x),
              lambda x, p, k: mp.gamma(x) * (mp.psi(0, x) ** 2 + mp.psi(1, x))),
    # Lgamma: log Gamma(x) as a real function: log|Gamma| where Gamma > 0; the caller handles Gamma < 0
    "Lgamma": (lambda x, p, k: lgamma_abs(x), lambda x, p, k: mp.psi(0, x), lambda x, p, k: mp.psi(1, x)),
    "Mlgamma": (lambda x, p, k: mpf(k * (k - 1)) / 4 * mp.log(mp.pi) + sum(lgamma_abs(x + mpf(1 - j) / 2) for j in range(1, k + 1)),
                lambda x, p, k: sum(mp.psi(0, x + mpf(1 - j) / 2) for j in range(1, k + 1)),
                lambda x, p, k: sum(mp.psi(1, x + mpf(1 - j) / 2) for j in range(1, k + 1))),
    "GammaP": (lambda x, p, k: mp.gammainc(p, 0, x, regularized=True), lambda x, p, k: _gammap1(p, x),
               lambda x, p, k: _gammap1(p, x) * ((p - 1) / x - 1)),
    "BesselI": (lambda x, p, k: _bi(p, x), lambda x, p, k: _bi1(p, x), lambda x, p, k: _bi2(p, x)),
    "LogBesselI": (lambda x, p, k: mp.log(_bi(p, x)), lambda x, p, k: _bi1(p, x) / _bi(p, x),
                   lambda x, p, k: _bi2(p, x) / _bi(p, x) - (_bi1(p, x) / _bi(p, x)) ** 2),
}


def _logsub_q(a, b):
    e = mp.exp(b - a)
    return e / (1 - e) ** 2


# dyadic operations: name -> (f, fx, fy, fxx, fxy, fyy) as functions of (x, y)
DY = {
    "Add": (lambda x, y: x + y, lambda x, y: ONE, lambda x, y: ONE, lambda x, y: ZERO, lambda x, y: ZERO, lambda x, y: ZERO),
    "Sub": (lambda x, y: x - y, lambda x, y: ONE, lambda x, y: -ONE, lambda x, y: ZERO, lambda x, y: ZERO, lambda x, y: ZERO),
    "Mul": (lambda x, y: x * y, lambda x, y: y, lambda x, y: x, lambda x, y: ZERO, lambda x, y: ONE, lambda x, y: ZERO),
    "Div": (lambda x, y: x / y, lambda x, y: 1 / y, lambda x, y: -x / (y * y), lambda x, y: ZERO, lambda x, y: -1 / (y * y),
            lambda x, y: 2 * x / (y * y * y)),
    "Pow": (lambda x, y: mp.power(x, y), lambda x, y: y * mp.power(x, y - 1), lambda x, y: mp.power(x, y) * mp.log(x),
            lambda x, y: y * (y - 1) * mp.power(x, y - 2), lambda x, y: mp.power(x, y - 1) * (1 + y * mp.log(x)),
            lambda x, y: mp.power(x, y) * mp.log(x) ** 2),
    # log(e^x + e^y)
    "LogAdd": (lambda x, y: max(x, y) + mp.log1p(mp.exp(-abs(x - y))), lambda x, y: sigma(x - y), lambda x, y: sigma(y - x),
               lambda x, y: sigma1(x - y), lambda x, y: -sigma1(x - y), lambda x, y: sigma1(x - y)),
    # log(e^x - e^y), x > y
    "LogSub": (lambda x, y: x + mp.log(-mp.expm1(y - x)), lambda x, y: -1 / mp.expm1(y - x), lambda x, y: mp.exp(y - x) / mp.expm1(y - x),
               lambda x, y: -_logsub_q(x, y), lambda x, y: _logsub_q(x, y), lambda x, y: -_logsub_q(x, y)),
}


def smoothmax(xs, alpha):
    """sum x_i e^(alpha x_i) / sum e^(alpha x_i) and its gradient w.r.t. (x_1..x_n, alpha)"""
    m = max(alpha * x for x in xs)
    w = [mp.exp(alpha * x - m) for x in xs]
    sw = sum(w)
    w = [wi / sw for wi in w]
    s = sum(wi * x for wi, x in zip(w, xs))
    grad = [wi * (1 + alpha * (x - s)) for wi, x in zip(w, xs)]
    dalpha = sum(wi * x * x for wi, x in zip(w, xs)) - s * s
    return s, grad, dalpha


# region / branch labels of an operand tuple (part of the signatures of C01 and C02)
import math

_LOG2 = math.log(2.0)


def bucket(x):
    """[2^k, 2^(k+1)) bucket label of a positive number"""
    if x <= 0:
        return "<=0"
    k = math.floor(math.log2(x))
    lo, hi = 2.0 ** k, 2.0 ** (k + 1)
    f = lambda v: ("%g" % v)
    return "[%s,%s)" % (f(lo), f(hi))


def gammap_method(a, x):
    """evaluation method special.gamma_incomplete_imp selects for the regularised P(a,x) (mirrors its decision tree: the region label)"""
    is_int = is_half = False
    if a < 30 and a <= x + 1.0 and x < 709.0:
        fa = math.floor(a)
        if fa == a:
            is_int = True
        elif abs(fa - a) == 0.5:
            is_half = True
    if is_int and x > 0.6:
        return 0
    if is_half and x > 0.2:
        return 1
    if x < 2.0 ** -52 and a > 1:
        return 6
    if x < 0.5:
        return 2 if -0.4 / math.log(x) < a else 3
    if x < 1.1:
        return 2 if x * 0.75 < a else 3
    if a > 20:
        sigma = abs((x - a) / a)
        if a > 200:
            if 20 / a > sigma * sigma:
                return 5
        elif sigma < 0.4:
            return 5
    return 2 if x - 1.0 / (3.0 * x) < a else 4


def label(op, x, par, k, ev):
    """branch / region label of the operand tuple (part of the signature)"""
    if op == "Log1pExp":
        v = x[0]
        return "(-inf,-37]" if v <= -37 else "(-37,18]" if v <= 18 else "(18,33.3]" if v <= 33.3 else "(33.3,inf)"
    if op in ("Sigmoid", "Logistic"):
        return "x>=0" if x[0] >= 0 else "x<0"
    if op == "LogErfc":
        v = x[0]
        if v * v < 2.4607833005759251e-02:
            return "|x|<0.157"
        return "x>8" if v > 8 else "x in (0.157,8]" if v > 0 else "x<-0.157"
    if op in ("Neg", "Abs"):
        return "x>0" if x[0] > 0 else "x<0" if x[0] < 0 else "x=0"
    if op == "Pow":
        return "base>0" if x[0] > 0 else "base<0,integer exponent" if x[0] < 0 else "base=0"
    if op in ("Gamma", "Lgamma"):
        if x[0] > 0:
            return "x>0"
        return "x<0,Gamma>0" if gamma_sign(mpf(x[0])) > 0 else "x<0,Gamma<0"
    if op in ("Min", "Max", "LogAdd"):
        return "a=b" if x[0] == x[1] else "a<b" if x[0] < x[1] else "a>b"
    if op == "LogSub":
        return "a-b<log2" if x[0] - x[1] < _LOG2 else "a-b>=log2"
    if op == "Div":
        return "zero-divisor" if x[1] == 0 else "domain"
    if op == "GammaP":
        return "boost-method=%d" % gammap_method(par, x[0])
    if op in ("BesselI", "LogBesselI"):
        if par == 0 or par == 1:
            return "v=%g" % par
        return "v>0,x/v<0.25" if x[0] / par < 0.25 else "v>0,x/v>=0.25"
    if op == "Mlgamma":
        return "k=%d" % k
    if "vt" in ev:
        return ev["vt"].split("/")[0]
    return "domain"




# =============================================================================
# Part 2: second-order jets with running error bounds, local and global check
# =============================================================================
import json
import os
from collections import Counter
from multiprocessing import Pool

INF = mpf("inf")

# unit round-off of the storage type
EPS_T = {"Real64": mpf(2) ** -53, "Real32": mpf(2) ** -24}
# per-operation ulp allowances (DESIGN.md C01, feasibility check)
U = {"elementary": 16, "erf": 64, "gamma": 512}
UFAM = {}
for _n in "Erf Erfc LogErfc".split():
    UFAM[_n] = "erf"
for _n in "Gamma Lgamma Mlgamma GammaP BesselI LogBesselI".split():
    UFAM[_n] = "gamma"
# operations the library implements as a sequence of primitives: local bound by error tracking through the
# canonical stable decomposition of the definition
COMPOSITE = set("Logistic Sigmoid Log1pExp LogAdd LogSub SmoothMax LogSmoothMax Vnorm Mnorm Vmean VdotV Mtrace".split())
REDUCTIONS = set("SmoothMax LogSmoothMax Vnorm Mnorm Vmean VdotV Mtrace".split())
# a slot whose bound exceeds this fraction of its magnitude is ill-conditioned: skipped and counted
ILL = {"Real64": mpf("1e-6"), "Real32": mpf("0.05")}

C01_TOLERANCES = {
    "policy": "error-bound tracking (DESIGN.md 2.4): reference jets in mpmath at 60 digits, every slot carries a first-order absolute error bound",
    "eps": "unit round-off of the storage type: 2^-53 (Real64), 2^-24 (Real32)",
    "u (ulp allowance per primitive, in units of eps * sum|terms of the chain rule|)": U,
    "local check, primitive operation": "|observed - reference| <= u * eps * sum|terms| per slot, operands = recorded jets (exact)",
    "local check, composite operation": "4 x bound tracked through the canonical stable decomposition (u = 16 per primitive of the decomposition)",
    "composite operations, norm-wise floor": "a gradient / Hessian entry of a composite operation may additionally deviate by 16 * eps * (largest entry of "
                                             "that tensor): intermediates of that size are rounded; entries outside the structural support stay exact",
    "global check": "4 x bound tracked from the inputs through every statement; same norm-wise floor; slots with bound > %s (Real64) / %s (Real32) of |slot| are "
                    "ill-conditioned: skipped and counted" % (ILL["Real64"], ILL["Real32"]),
    "exact": "slots outside the structural support, Hessian symmetry, accessors and Matrix.Jacobian/Hessian: bit-equal",
}


def en_add(a, b):
    return (a[0] + b[0], a[1] + b[1])


def en_sub(a, b):
    return (a[0] - b[0], a[1] + b[1])


def en_mul(a, b):
    return (a[0] * b[0], abs(a[0]) * b[1] + abs(b[0]) * a[1] + a[1] * b[1])


def en_scale(a, c):
    return (a[0] * c, a[1] * abs(c))


def en_inv(b):
    m = abs(b[0])
    if m <= b[1] or m == 0:
        return (1 / b[0] if b[0] != 0 else INF, INF)
    return (1 / b[0], b[1] / (m * (m - b[1])))


EZ = (ZERO, ZERO)


class J:
    """second-order jet; every slot is (value, absolute error bound)"""
    __slots__ = ("v", "g", "h", "n", "o")

    def __init__(self, n, o):
        self.n, self.o = n, o
        self.v = EZ
        self.g = [EZ] * n
        self.h = {(i, j): EZ for i in range(n) for j in range(i, n)} if o >= 2 else None


def jconst(c, n, o):
    r = J(n, o)
    r.v = (mpf(c), ZERO)
    return r


def from_record(rec, n, o):
    """recorded jet (hex floats) -> J with zero error; slots beyond the recorded N / order read as zero"""
    r = J(n, o)
    r.v = (mpf(float.fromhex(rec["v"])), ZERO)
    rn = rec.get("n", 0)
    g = rec.get("g")
    if g:
        for i in range(min(n, rn)):
            r.g[i] = (mpf(float.fromhex(g[i])), ZERO)
    h = rec.get("h")
    if h and o >= 2:
        for i in range(min(n, rn)):
            for j in range(i, min(n, rn)):
                r.h[(i, j)] = (mpf(float.fromhex(h[i * rn + j])), ZERO)
    return r


UA = 8  # allowance for combining the chain-rule terms (a handful of products and sums), in units of eps * sum|terms|


class Ctx:
    """evaluation context: eps of the storage type, allowance u of the current primitive, underflow floor of the storage type"""
    __slots__ = ("eps", "u", "floor")

    def __init__(self, eps, u=16, floor=ZERO):
        self.eps, self.u, self.floor = eps, u, floor


def chain1(cx, c, A):
    """f(A) from the coefficients c = [(f,e),(f1,e),(f2,e)]"""
    out = J(A.n, A.o)
    ue, fl = UA * cx.eps, cx.floor
    out.v = (c[0][0], c[0][1] + ue * abs(c[0][0]) + fl)
    for i in range(A.n):
        t = en_mul(c[1], A.g[i])
        out.g[i] = (t[0], t[1] + ue * abs(t[0]) + (fl if t[0] != 0 else ZERO))
    if A.o >= 2:
        for (i, j), hij in A.h.items():
            t1 = en_mul(c[1], hij)
            t2 = en_mul(c[2], en_mul(A.g[i], A.g[j]))
            sa = abs(t1[0]) + abs(t2[0])
            out.h[(i, j)] = (t1[0] + t2[0], t1[1] + t2[1] + ue * sa + (fl if sa != 0 else ZERO))
    return out


def chain2(cx, c, A, B):
    """f(A,B) from c = (f, fx, fy, fxx, fxy, fyy), each (value, err)"""
    f, fx, fy, fxx, fxy, fyy = c
    out = J(A.n, max(A.o, B.o))
    ue, fl = UA * cx.eps, cx.floor
    out.v = (f[0], f[1] + ue * abs(f[0]) + fl)
    for i in range(A.n):
        t1, t2 = en_mul(fx, A.g[i]), en_mul(fy, B.g[i])
        sa = abs(t1[0]) + abs(t2[0])
        out.g[i] = (t1[0] + t2[0], t1[1] + t2[1] + ue * sa + (fl if sa != 0 else ZERO))
    if out.o >= 2:
        ah = A.h if A.h is not None else {}
        bh = B.h if B.h is not None else {}
        for (i, j) in out.h:
            # the two cross products are separate terms (they may cancel exactly; each is rounded on its own)
            ts = [en_mul(fx, ah.get((i, j), EZ)), en_mul(fy, bh.get((i, j), EZ)), en_mul(fxx, en_mul(A.g[i], A.g[j])),
                  en_mul(fyy, en_mul(B.g[i], B.g[j])), en_mul(fxy, en_mul(A.g[i], B.g[j])), en_mul(fxy, en_mul(B.g[i], A.g[j]))]
            sa = sum(abs(t[0]) for t in ts)
            out.h[(i, j)] = (sum(t[0] for t in ts), sum(t[1] for t in ts) + ue * sa + (fl if sa != 0 else ZERO))
    return out


def j_add(cx, A, B):
    one = (ONE, ZERO)
    return chain2(cx, (en_add(A.v, B.v), one, one, EZ, EZ, EZ), A, B)


def j_sub(cx, A, B):
    return chain2(cx, (en_sub(A.v, B.v), (ONE, ZERO), (-ONE, ZERO), EZ, EZ, EZ), A, B)


def j_mul(cx, A, B):
    return chain2(cx, (en_mul(A.v, B.v), B.v, A.v, EZ, (ONE, ZERO), EZ), A, B)


def j_div(cx, A, B):
    iy = en_inv(B.v)
    iy2 = en_mul(iy, iy)
    q = en_mul(A.v, iy)
    return chain2(cx, (q, iy, en_scale(en_mul(A.v, iy2), -1), EZ, en_scale(iy2, -1), en_scale(en_mul(q, iy2), 2)), A, B)


def j_neg(cx, A):
    return chain1(cx, [en_scale(A.v, -1), (-ONE, ZERO), EZ], A)


def j_shift(cx, A, c):
    """A + exact constant"""
    return chain1(cx, [(A.v[0] + c, A.v[1]), (ONE, ZERO), EZ], A)


def j_scale(cx, A, c):
    return chain1(cx, [en_scale(A.v, c), (mpf(c), ZERO), EZ], A)


DELTA = mpf(2) ** -40


def coeffs1(cx, name, x, par, k):
    """(f, f1, f2) of a table function at (value, err).  Every coefficient c_k gets the allowance of a backward-stable
    evaluation, u*eps*(|c_k| + |x dc_k/dx|) (its own rounding plus one ulp of the argument), and the propagated error |dc_k/dx|*err."""
    f, f1, f2 = MON[name]
    v, e = x
    c0, c1, c2 = f(v, par, k), f1(v, par, k), f2(v, par, k)
    # third derivative by a finite difference (relative step 2^-40 at 60 digits)
    h = v * DELTA if v != 0 else DELTA
    try:
        c3 = (f2(v + h, par, k) - c2) / h
    except Exception:
        c3 = (c2 - f2(v - h, par, k)) / h
    ue = cx.u * cx.eps
    av = abs(v)
    return [(c0, abs(c1) * e + ue * (abs(c0) + av * abs(c1))),
            (c1, abs(c2) * e + ue * (abs(c1) + av * abs(c2))),
            (c2, abs(c3) * e + ue * (abs(c2) + av * abs(c3)))]


def j_fun(cx, name, A, par=None, k=0):
    return chain1(cx, coeffs1(cx, name, A.v, par, k), A)


def all_zero_derivs(B):
    if any(g[0] != 0 or g[1] != 0 for g in B.g):
        return False
    if B.h is not None and any(h[0] != 0 or h[1] != 0 for h in B.h.values()):
        return False
    return True


def j_pow(cx, A, B):
    x, ex = A.v
    y, ey = B.v
    fs = DY["Pow"]
    ue = cx.u * cx.eps
    if all_zero_derivs(B):
        # constant exponent: a function of x alone (defined for x < 0 with integer y, x = 0 with y >= 0)
        def cf(xx):
            return [mp.power(xx, y), y * mp.power(xx, y - 1) if y != 0 else ZERO, y * (y - 1) * mp.power(xx, y - 2) if (y != 0 and y != 1) else ZERO,
                    y * (y - 1) * (y - 2) * mp.power(xx, y - 3) if y not in (0, 1, 2) else ZERO]
        c = cf(x)
        ax = abs(x)
        cc = [(c[i], abs(c[i + 1]) * ex + ue * (abs(c[i]) + ax * abs(c[i + 1]))) for i in range(3)]
        if ey:
            # the exponent is derivative-free but carries an error bound of its own (a rounded intermediate of the global
            # evaluation): every coefficient depends on it, d/dy of x^y, y x^(y-1), y(y-1) x^(y-2)
            if x <= 0:
                raise OutOfDomain("Pow at a non-positive base with an exponent known only up to its error bound")
            lx = mp.log(x)
            dyc = [abs(c[0] * lx), abs(mp.power(x, y - 1) * (1 + y * lx)), abs(mp.power(x, y - 2) * ((2 * y - 1) + y * (y - 1) * lx))]
            cc = [(cc[i][0], cc[i][1] + ey * dyc[i]) for i in range(3)]
        return chain1(cx, cc, A)
    if x <= 0:
        raise OutOfDomain("Pow with a variable exponent needs a positive base")
    vals = [fn(x, y) for fn in fs]
    # sensitivity of every coefficient to x and y (finite differences with relative step 2^-40)
    hx, hy = x * DELTA, (y * DELTA if y != 0 else DELTA)
    dx = [abs(fn(x + hx, y) - v) / abs(hx) for fn, v in zip(fs, vals)]
    dy = [abs(fn(x, y + hy) - v) / abs(hy) for fn, v in zip(fs, vals)]
    c = [(v, a * ex + b * ey + ue * (abs(v) + abs(x) * a + abs(y) * b)) for v, a, b in zip(vals, dx, dy)]
    return chain2(cx, c, A, B)


def j_select(cx, A):
    """copy of A into a scalar of the storage type (one rounding per slot)"""
    return chain1(cx, [A.v, (ONE, ZERO), EZ], A)


class NotDifferentiable(Exception):
    """the value is defined, the derivatives are not (kink / tie / pole of a derivative)"""

    def __init__(self, value, why):
        self.value, self.why = value, why


def sigmoid_j(cx, A):
    one = jconst(1, A.n, A.o)
    if A.v[0] >= 0:
        e = j_fun(cx, "Exp", j_neg(cx, A))
        return j_div(cx, one, j_shift(cx, e, ONE))
    e = j_fun(cx, "Exp", A)
    return j_div(cx, e, j_shift(cx, e, ONE))


def log1pexp_j(cx, A):
    if A.v[0] > 0:
        return j_add(cx, A, j_fun(cx, "Log1p", j_fun(cx, "Exp", j_neg(cx, A))))
    return j_fun(cx, "Log1p", j_fun(cx, "Exp", A))


def logadd_j(cx, A, B):
    if A.v[0] == -INF:
        return j_select(cx, B)
    if B.v[0] == -INF:
        return j_select(cx, A)
    m, o = (A, B) if A.v[0] >= B.v[0] else (B, A)
    return j_add(cx, m, j_fun(cx, "Log1p", j_fun(cx, "Exp", j_sub(cx, o, m))))


def logsub_j(cx, A, B):
    if B.v[0] == -INF:
        return j_select(cx, A)
    if A.v[0] == B.v[0]:
        raise NotDifferentiable(-INF, "LogSub of equal operands")
    if A.v[0] < B.v[0]:
        raise OutOfDomain("LogSub needs a > b")
    return j_add(cx, A, j_fun(cx, "Log1p", j_neg(cx, j_fun(cx, "Exp", j_sub(cx, B, A)))))


def j_sum(cx, js):
    r = js[0]
    for x in js[1:]:
        r = j_add(cx, r, x)
    return r


def lse_j(cx, zs):
    m = max(z.v[0] for z in zs)
    return j_shift(cx, j_fun(cx, "Log", j_sum(cx, [j_fun(cx, "Exp", j_shift(cx, z, -m)) for z in zs])), m)


def smoothmax_j(cx, xs, alpha):
    m = max(alpha * x.v[0] for x in xs)
    ws = [j_fun(cx, "Exp", j_shift(cx, j_scale(cx, x, alpha), -m)) for x in xs]
    num = j_sum(cx, [j_mul(cx, x, w) for x, w in zip(xs, ws)])
    return j_div(cx, num, j_sum(cx, ws))


def logsmoothmax_j(cx, xs, alpha):
    if any(x.v[0] <= 0 for x in xs):
        raise OutOfDomain("LogSmoothMax needs positive elements")
    zs = [j_scale(cx, x, alpha) for x in xs]
    num = lse_j(cx, [j_add(cx, z, j_fun(cx, "Log", x)) for z, x in zip(zs, xs)])
    return j_fun(cx, "Exp", j_sub(cx, num, lse_j(cx, zs)))


def norm_j(cx, xs):
    s = j_sum(cx, [j_mul(cx, x, x) for x in xs])
    if s.v[0] == 0:
        raise NotDifferentiable(ZERO, "norm of the zero vector")
    return j_fun(cx, "Sqrt", s)


FLOOR = {"Real64": mpf(2) ** -1022, "Real32": mpf(2) ** -126}


def apply_op(T_, op, args, args2, par, k, shape):
    """the mathematical operation on jets (with error bounds).  Raises OutOfDomain / NotDifferentiable."""
    cx = Ctx(EPS_T[T_], U[UFAM.get(op, "elementary")], FLOOR[T_])
    A = args[0]
    if op in ("Add", "Sub", "Mul", "Div"):
        if op == "Div" and args[1].v[0] == 0:
            raise OutOfDomain("division by zero")
        return {"Add": j_add, "Sub": j_sub, "Mul": j_mul, "Div": j_div}[op](cx, A, args[1])
    if op == "Neg":
        return j_neg(cx, A)
    if op == "Abs":
        if A.v[0] == 0:
            raise NotDifferentiable(ZERO, "Abs at 0")
        if abs(A.v[0]) <= A.v[1]:
            raise OutOfDomain("Abs of a value that is zero within its error bound")
        return j_select(cx, A) if A.v[0] > 0 else j_neg(cx, A)
    if op in ("Min", "Max"):
        a, b = A.v[0], args[1].v[0]
        if a == b:
            raise NotDifferentiable(a, op + " of equal operands")
        if abs(a - b) <= A.v[1] + args[1].v[1]:
            # the operands are ordered by values the oracle only knows up to their bounds (global evaluation)
            raise OutOfDomain(op + " of operands that are equal within their error bounds")
        return j_select(cx, A if ((a < b) == (op == "Min")) else args[1])
    if op == "Pow":
        return j_pow(cx, A, args[1])
    if op == "Sqrt":
        if A.v[0] < 0:
            raise OutOfDomain("Sqrt of a negative number")
        if A.v[0] == 0:
            raise NotDifferentiable(ZERO, "Sqrt at 0")
    if op in ("Logistic", "Sigmoid"):
        return sigmoid_j(cx, A)
    if op == "Log1pExp":
        return log1pexp_j(cx, A)
    if op == "LogAdd":
        return logadd_j(cx, A, args[1])
    if op == "LogSub":
        return logsub_j(cx, A, args[1])
    if op == "SmoothMax":
        return smoothmax_j(cx, args, par)
    if op == "LogSmoothMax":
        return logsmoothmax_j(cx, args, par)
    if op in ("Vnorm", "Mnorm"):
        return norm_j(cx, args)
    if op == "Vmean":
        return j_scale(cx, j_sum(cx, args), ONE / len(args))
    if op == "VdotV":
        return j_sum(cx, [j_mul(cx, a, b) for a, b in zip(args, args2)])
    if op == "Mtrace":
        rows, cols = shape
        return j_sum(cx, [args[i * cols + i] for i in range(rows)])
    if op in MON:
        x = A.v[0]
        if op in ("Log",) and x <= 0 or op == "Log1p" and x <= -1:
            raise OutOfDomain(op)
        if op in ("Gamma", "Lgamma") and x <= 0 and x == mp.floor(x):
            raise OutOfDomain("pole")
        if op == "Mlgamma" and x <= mpf(k - 1) / 2:
            raise OutOfDomain("Mlgamma")
        if op in ("GammaP", "BesselI", "LogBesselI") and x <= 0:
            raise OutOfDomain(op)
        r = j_fun(cx, op, A, par, k)
        if op == "Lgamma" and gamma_sign(x) < 0:
            r.v = ("nan", ZERO)  # library convention: log Gamma is not real where Gamma < 0
        return r
    raise KeyError(op)


def in_domain_table(op, xs, par, k):
    """C01 domain table (mirror of harness/c01/model.go:admissible): random programs are judged only at statements whose
    recorded operand values lie inside it (a wrong value upstream can push a later statement outside)."""
    for v in xs:
        if v != v or v in (float("inf"), float("-inf")) or abs(v) > 1e6:
            return False
    a = xs[0]
    frac = lambda v: abs(v - round(v))
    if op in ("Neg", "Abs", "Add", "Sub", "Mul", "Min", "Max"):
        return True
    if op == "Div":
        return abs(xs[1]) > 1e-3
    if op in ("Sqrt", "Log"):
        return a > 1e-3
    if op == "Log1p":
        return a > -0.99
    if op == "Exp":
        return abs(a) < 20
    if op in ("Sinh", "Cosh"):
        return abs(a) < 15
    if op in ("Sin", "Cos"):
        return abs(a) < 50
    if op == "Tan":
        return abs(a) < 50 and abs(math.cos(a)) > 0.05
    if op == "Tanh":
        return abs(a) < 30
    if op in ("Log1pExp", "Logistic", "Sigmoid"):
        return abs(a) < 40
    if op in ("Erf", "Erfc"):
        return abs(a) < 5
    if op == "LogErfc":
        return -4 < a < 25
    if op == "Gamma":
        return (0.1 < a < 20) or (-6 < a < 0 and frac(a) > 0.05)
    if op == "Lgamma":
        return (0.1 < a < 100) or (-6 < a < 0 and frac(a) > 0.05)
    if op == "Mlgamma":
        return (k - 1) / 2.0 + 0.1 < a < 100
    if op == "GammaP":
        return 0.01 < a < 50
    if op in ("BesselI", "LogBesselI"):
        return 0.05 < a < 30
    if op == "Pow":
        y = xs[1]
        if a == 0:
            return 2 <= y <= 4
        return a > 1e-3 and abs(y) <= 4 and abs(y * math.log(a)) < 30
    if op == "LogAdd":
        return abs(a) < 50 and abs(xs[1]) < 50
    if op == "LogSub":
        return abs(a) < 50 and abs(xs[1]) < 50 and a > xs[1] + 1e-3
    if op == "SmoothMax":
        return all(abs(par * v) < 30 and abs(v) < 1e3 for v in xs)
    if op == "LogSmoothMax":
        return all(0.01 < v < 30 and abs(par * v) < 30 for v in xs)
    if op in ("Vnorm", "Mnorm"):
        return all(abs(v) < 1e4 for v in xs) and math.sqrt(sum(v * v for v in xs)) >= 1e-3
    return all(abs(v) < 1e4 for v in xs)


DOMAIN_TABLE = {
    "Neg Abs Add Sub Mul Min Max": "|x| <= 1e6", "Div": "|y| > 1e-3", "Sqrt Log": "x > 1e-3", "Log1p": "x > -0.99", "Exp": "|x| < 20",
    "Sinh Cosh": "|x| < 15", "Sin Cos": "|x| < 50", "Tan": "|x| < 50, |cos x| > 0.05", "Tanh": "|x| < 30", "Log1pExp Logistic Sigmoid": "|x| < 40",
    "Erf Erfc": "|x| < 5", "LogErfc": "-4 < x < 25", "Gamma": "0.1 < x < 20 or -6 < x < 0 with distance > 0.05 from the poles",
    "Lgamma": "0.1 < x < 100 or -6 < x < 0 (off the poles)", "Mlgamma": "(k-1)/2 + 0.1 < x < 100, k = 1..4", "GammaP": "0.01 < x < 50, a in {0.3,0.5,1,2.5,4,7.25,12}",
    "BesselI LogBesselI": "0.05 < x < 30, v in {0,0.5,1,1.5,2,3.25}", "Pow": "x > 1e-3, |y| <= 4, |y log x| < 30, or x = 0 with a constant exponent in [2,4] (negative base / base 0 with constant exponent: directed list)",
    "LogAdd LogSub": "|a|,|b| < 50, LogSub: a > b + 1e-3", "SmoothMax": "|alpha x_i| < 30", "LogSmoothMax": "0.01 < x_i < 30, |alpha x_i| < 30",
    "Vnorm Mnorm": "norm >= 1e-3", "directed list": "branch boundaries and special operands outside these margins (Log1pExp thresholds +-1 ulp, Sigmoid/Abs at +-0, ties, -Inf in LogAdd/LogSub, Pow at base 0 / negative base, Tanh and LogErfc at large x)",
}


def hexf(s):
    return float.fromhex(s)


def resolve(ref, inputs, results, n, o):
    kind = ref[0]
    if kind == "v":
        return inputs[ref[1]]
    if kind == "n":
        return results[ref[1]]
    return jconst(hexf(ref[1]), n, o)


def slot_items(rec, n, o):
    """observed slots of a recorded jet as {(kind,i,j): float}"""
    out = {("value", 0, 0): hexf(rec["v"])}
    rn, ro = rec.get("n", 0), rec.get("o", 0)
    g, h = rec.get("g"), rec.get("h")
    for i in range(n):
        out[("grad", i, 0)] = hexf(g[i]) if (g and i < rn) else 0.0
    if o >= 2:
        for i in range(n):
            for j in range(i, n):
                out[("hess", i, j)] = hexf(h[i * rn + j]) if (h and i < rn and j < rn) else 0.0
    return out


def expected_items(E):
    out = {("value", 0, 0): E.v}
    for i in range(E.n):
        out[("grad", i, 0)] = E.g[i]
    if E.h is not None:
        for (i, j), x in E.h.items():
            out[("hess", i, j)] = x
    return out


def isfinite(x):
    return mp.isfinite(x)


def compare(obs, exp, factor, support, ill=None, floor_eps=None):
    """-> list of (kind, i, j, observed, expected, err, tol), number judged, number skipped"""
    bad, judged, skipped = [], 0, 0
    worst = 0.0
    fl = {"value": ZERO, "grad": ZERO, "hess": ZERO}
    if floor_eps is not None:
        # sequences of primitives round intermediates of the size of the largest entry of a derivative tensor
        for (kind, i, j), ev in exp.items():
            if kind != "value" and ev[0] != "nan" and mp.isfinite(ev[0]):
                fl[kind] = max(fl[kind], abs(ev[0]))
        fl = {k: 16 * floor_eps * v for k, v in fl.items()}
    for key, ob in obs.items():
        kind, i, j = key
        ev = exp.get(key)
        if ev is None:
            continue
        val, err = ev
        if val == "nan":
            judged += 1
            if ob == ob:
                bad.append((kind, i, j, ob, "NaN (log Gamma where Gamma < 0)", None, None))
            continue
        if not (isfinite(val) and isfinite(err)):
            if kind == "value" and val in (INF, -INF) and err == 0:
                judged += 1
                if ob != float(val):
                    bad.append((kind, i, j, ob, val, None, None))
            else:
                skipped += 1
            continue
        if ill is not None and err > ill * abs(val):
            skipped += 1
            continue
        judged += 1
        k2 = kind
        if kind != "value" and support is not None and (i not in support or (kind == "hess" and j not in support)):
            k2 = "zero"
        if ob != ob or ob in (float("inf"), float("-inf")):
            bad.append((k2, i, j, ob, val, None, factor * err))
            continue
        d = abs(mpf(ob) - val)
        tol = factor * err
        if k2 != "zero" and tol < fl[kind]:
            tol = fl[kind]
        if d > tol:
            bad.append((k2, i, j, ob, val, d, tol))
        elif tol > 0:
            worst = max(worst, float(d / tol))
    return bad, judged, skipped, worst


def stmt_label(st, args, par, k):
    op = st["op"]
    xs = [float(a.v[0]) if a.v[0] not in (INF, -INF) else float(a.v[0]) for a in args[:2]]
    if op in REDUCTIONS:
        # a coordinate exactly at zero is its own input class (shortcuts for zero entries lose derivative terms)
        zero = any(a.v[0] == 0 for a in args)
        return st.get("st", "dense") + (",coordinate exactly 0" if zero else "")
    lab = label(op, xs, par, k, {})
    if op == "Pow":
        lab += ",variable exponent" if not all_zero_derivs(args[1]) else ",constant exponent %s" % (
            "1" if xs[1] == 1 else "0" if xs[1] == 0 else "2" if xs[1] == 2 else "integer" if xs[1] == int(xs[1]) else "non-integer")
    if op == "Tanh":
        lab = "|x|<=2" if abs(xs[0]) <= 2 else "2<|x|<=4" if abs(xs[0]) <= 4 else "|x|>4"
    if op in ("BesselI", "LogBesselI"):
        v = float(par)
        lab = ("v=%g" % v if v in (0, 1, 2) else "0<v<2" if v < 2 else "v>2") + (",x/v<0.25" if (v > 0 and xs[0] / v < 0.25) else "")
    if op in ("Logistic", "Sigmoid", "Erf", "Erfc"):
        a = abs(xs[0])
        lab = ("x>=0" if xs[0] >= 0 else "x<0") + (",|x|<=4" if a <= 4 else ",|x|>4")
    if op == "Log1pExp" and lab == "(-37,18]":
        lab = "(-37,4]" if xs[0] <= 4 else "(4,18]"
    if op == "LogErfc" and lab == "x in (0.157,8]":
        lab = "x in (0.157,1]" if xs[0] <= 1 else "x in (1,3]" if xs[0] <= 3 else "x in (3,8]"
    if op in ("LogAdd", "LogSub") and (xs[0] == float("-inf") or xs[1] == float("-inf")):
        lab = "operand=-Inf"
    return lab


def judge_program(ev, out):
    T_, order, N = ev["T"], ev["order"], ev["N"]
    eps = EPS_T[T_]
    cfg = T_
    case = ev.get("case")
    cov = out["cov"]
    direct = ev.get("direct")

    def viol(mon, op, lab, kind, detail, si=None):
        w = {"T": T_, "order": order, "N": N, "inputs": ev["inputs"], "stmts": ev["stmts"], "failed_statement": si}
        out["viol"].append({"case": case, "sig": "C01|%s|%s|%s|%s|%s" % (mon, op, cfg, lab, kind), "detail": detail, "witness": w})

    # inputs
    inputs = [from_record(r, N, order) for r in ev["inputs"]]
    supp_in = []
    for i, r in enumerate(ev["inputs"]):
        if direct:
            supp_in.append(set(range(N)))
            continue
        supp_in.append({i})
        want = {("value", 0, 0): hexf(r["v"])}
        ob = slot_items(r, N, order)
        okseed = r.get("n") == N and r.get("o") == order and all(
            v == (1.0 if (k[0] == "grad" and k[1] == i) else (ob[("value", 0, 0)] if k[0] == "value" else 0.0)) for k, v in ob.items())
        cov["seed-judged"] += 1
        cov["seed:%s/%s" % (ev.get("seedmode"), ev.get("history", "fresh objects"))] += 1
        if not okseed:
            viol("seed", str(ev.get("seedmode")), str(ev.get("history", "fresh objects")), "seed",
                 "input %d after activation by %s (%s) is not a clean seed (g = e_i, H = 0, N = %d, order = %d): %s" % (
                     i, ev.get("seedmode"), ev.get("history"), N, order, json.dumps(r)))
    results, supports = [], []
    gl = list(inputs)           # global evaluation: jets with tracked error from the inputs
    gres = []
    glob_ok = True
    local_failed = False
    stmts = ev["stmts"]
    pan = ev.get("panic")
    for si, st in enumerate(stmts):
        op = st["op"]
        par = mpf(hexf(st["par"])) if "par" in st else None
        k = st.get("k", 0)
        shape = st.get("shape")
        refs, refs2 = st["a"], st.get("b") or []
        args = [resolve(r, inputs, results, N, order) for r in refs]
        args2 = [resolve(r, inputs, results, N, order) for r in refs2]
        supp = set()
        for r in refs + refs2:
            if r[0] == "v":
                supp |= supp_in[r[1]]
            elif r[0] == "n":
                supp |= supports[r[1]]
        try:
            lab = stmt_label(st, args + args2 if op in REDUCTIONS else args, par, k)
        except (ValueError, OverflowError, ZeroDivisionError):
            lab = "outside the domain"  # operands pushed out of the domain by a wrong value upstream
        cov["stmt:%s" % op] += 1
        cov["branch:%s:%s" % (op, lab)] += 1
        for r in refs + refs2:
            cov["operand-kind:" + r[0]] += 1
        if "res" not in st:
            # the statement panicked: judged if the operands are inside the mathematical domain
            try:
                apply_op(T_, op, args, args2, par, k, shape)
                indomain = True
            except (OutOfDomain, ZeroDivisionError, ValueError, TypeError):
                indomain = False
            except NotDifferentiable:
                indomain = True
            if pan and indomain:
                viol("exec", pan.get("frame", "?"), st.get("stale", "clean"), "panic",
                     "statement %d (%s) panicked inside its domain: %s" % (si, op, pan.get("msg", "")), si)
            else:
                cov["skipped:panic-out-of-domain-after-divergence"] += 1
            break
        rec = st["res"]
        # expected N / order of the result: those of the operands
        want_n = max([0] + [ev["inputs"][r[1]].get("n", 0) if r[0] == "v" else stmts[r[1]]["res"].get("n", 0) for r in refs + refs2 if r[0] in "vn"])
        want_o = max([0] + [ev["inputs"][r[1]].get("o", 0) if r[0] == "v" else stmts[r[1]]["res"].get("o", 0) for r in refs + refs2 if r[0] in "vn"])
        if want_o == 0 or want_n == 0:
            want_n = want_o = 0
        rn_, ro_ = rec.get("n", 0), rec.get("o", 0)
        if ro_ > want_o or (ro_ >= 1 and rn_ > want_n):
            # derivative state that cannot come from the operands: left over in the receiver
            viol("local", "Reset-based accumulation", st.get("stale", "clean"), "order",
                 "statement %d (%s): the result reports N=%d, order=%d; its operands carry N=%d, order=%d (state before the call: %s)" % (
                     si, op, rn_, ro_, want_n, want_o, st.get("stale", "clean")), si)
            cov["skipped:contaminated-by-stale-receiver"] += 1
            glob_ok = False
            break
        obs = slot_items(rec, N, order)
        results.append(from_record(rec, N, order))
        supports.append(supp)
        if not direct:
            vals = [float(a.v[0]) for a in args + args2]
            try:
                inside = in_domain_table(op, vals, float(par) if par is not None else None, k)
            except (ValueError, OverflowError):
                inside = False
            if not inside:
                cov["skipped:outside-domain-table:" + op] += 1
                glob_ok = False
                gres.append(None)
                continue
        # ---- local check
        try:
            E = apply_op(T_, op, args, args2, par, k, shape)
            exp = expected_items(E)
        except NotDifferentiable as e:
            exp = {("value", 0, 0): (e.value, ZERO)}
            cov["not-differentiable:" + e.why] += 1
        except (OutOfDomain, ZeroDivisionError, ValueError, TypeError) as e:
            cov["skipped:out-of-domain:" + op] += 1
            glob_ok = False
            gl_res = None
            gres.append(None)
            continue
        factor = 4 if op in COMPOSITE else 1
        bad, judged, skipped, worst = compare(obs, exp, factor, None if direct else supp, None, EPS_T[T_] if op in COMPOSITE else None)
        out["evals"] += 1
        cov["local-slots-judged"] += judged
        cov["local-slots-skipped"] += skipped
        key = op + "/" + T_[-2:]
        if worst > out["worst"].get(key, 0):
            out["worst"][key] = worst
        seen = set()
        for (kind, i, j, ob, val, d, tol) in bad:
            if kind in seen:
                continue
            seen.add(kind)
            local_failed = True
            viol("local", op, lab, kind,
                 "order %d, statement %d: %s%s slot (%d,%d) = %r, reference %s%s" % (
                     order, si, op, "(par=%s)" % mp.nstr(par, 6) if par is not None else "", i, j, ob,
                     val if isinstance(val, str) else mp.nstr(val, 17),
                     "" if d is None else "; |error| %s > tolerance %s" % (mp.nstr(d, 3), mp.nstr(tol, 3))), si)
        # ---- global evaluation
        if glob_ok and not direct:
            try:
                ga = [resolve(r, gl[:len(inputs)], gres, N, order) for r in refs]
                gb = [resolve(r, gl[:len(inputs)], gres, N, order) for r in refs2]
                if any(x is None for x in ga + gb):
                    raise OutOfDomain("upstream")
                g = apply_op(T_, op, ga, gb, par, k, shape)
                gres.append(None if g.v[0] == "nan" else g)
            except (NotDifferentiable, OutOfDomain, ZeroDivisionError, ValueError, TypeError):
                gres.append(None)
        else:
            gres.append(None)
    else:
        # every statement ran: global check of the final node
        if not direct and stmts:
            if local_failed:
                cov["global-skipped:local-violation-in-program"] += 1
            elif gres and gres[-1] is not None:
                E = gres[-1]
                if E.v[0] == "nan":
                    cov["global-skipped:nan-convention"] += 1
                else:
                    obs = slot_items(stmts[-1]["res"], N, order)
                    bad, judged, skipped, worst = compare(obs, expected_items(E), 4, supports[-1], ILL[T_], EPS_T[T_])
                    cov["global-programs-judged"] += 1
                    cov["global-slots-judged"] += judged
                    cov["global-slots-ill-conditioned"] += skipped
                    if worst > out["worst"].get("global/" + T_[-2:], 0):
                        out["worst"]["global/" + T_[-2:]] = worst
                    seen = set()
                    for (kind, i, j, ob, val, d, tol) in bad:
                        if kind in seen:
                            continue
                        seen.add(kind)
                        viol("global", stmts[-1]["op"], "%d statements" % len(stmts), kind,
                             "final node slot (%d,%d) = %r, whole program from the inputs gives %s%s" % (
                                 i, j, ob, mp.nstr(val, 17), "" if d is None else "; |error| %s > tolerance %s" % (mp.nstr(d, 3), mp.nstr(tol, 3))))
            else:
                cov["global-skipped:not-evaluable"] += 1


def work(task):
    """one task = every nsplit-th data event of one shard file, streamed (the parent never holds the event log)"""
    path, j, nsplit = task
    mp.mp.dps = 60
    out = {"viol": [], "cov": Counter(), "evals": 0, "worst": {}, "errors": [], "events": 0}
    seen = {}
    try:
        fh = open(path)
    except FileNotFoundError:
        return out
    n = -1
    with fh:
        for line in fh:
            if '"ev":"data"' not in line:
                continue
            n += 1
            if n % nsplit != j:
                continue
            try:
                ev = json.loads(line)
            except Exception:
                continue  # torn last line of a killed worker
            if ev.get("ev") != "data" or "stmts" not in ev:
                continue
            out["events"] += 1
            nv = len(out["viol"])
            try:
                judge_program(ev, out)
            except Exception as e:  # a defect of the oracle must be visible
                import traceback
                out["errors"].append("oracle exception on case %s: %r %s" % (ev.get("case"), e, traceback.format_exc()[-600:]))
            # the first two observations of a signature keep their witness (the whole program); later ones are counted with
            # case and detail only, so that a signature observed 10^5 times does not cost gigabytes
            for v in out["viol"][nv:]:
                seen[v["sig"]] = seen.get(v["sig"], 0) + 1
                if seen[v["sig"]] > 2:
                    v["witness"] = None
                    v["detail"] = v["detail"][:200]
    return out


def judge(files, opts):
    ncpu = max(1, min(opts.get("ncpu", 4), 16))
    nsplit = max(1, (4 * ncpu) // max(1, len(files)))
    tasks = [(f, j, nsplit) for j in range(nsplit) for f in files]
    if len(files) <= 1 and opts.get("tier") != "thorough" and os.path.exists(files[0]) and os.path.getsize(files[0]) < 1 << 20:
        outs = [work(t) for t in tasks]
    else:
        with Pool(ncpu, maxtasksperchild=8) as pool:
            outs = pool.map(work, tasks, chunksize=1)
    viols, cov, evals, worst, errors = [], Counter(), 0, {}, []
    for o in outs:
        viols += o["viol"]
        cov.update(o["cov"])
        evals += o["evals"]
        errors += o["errors"]
        for k, v in o["worst"].items():
            worst[k] = max(worst.get(k, 0), v)
    if errors:
        viols.append({"case": None, "sig": "C01|oracle|internal|error", "detail": " ;; ".join(errors[:3]), "witness": None})
    samples = [{"monitor": "oracle", "worst |error|/tolerance of accepted slots per operation and type": {k: round(v, 3) for k, v in sorted(worst.items())}}]
    return {"violations": viols, "coverage": dict(cov), "nontrivial": [], "samples": samples, "evaluations": evals,
            "note": "offline oracle: independent second-order jet arithmetic with error-bound tracking (driver/oracles/c01.py, mpmath %s, 60 digits)" % mp.__version__}
