"""Offline oracle of C13 (special functions are accurate over their whole domain).

Input : the worker's data events  {"case": id, "e": [[fn, [ints], [hex floats], hex result | "panic:.."], ...]}
Verdict per evaluation (DESIGN.md 2.4 "condition-scaled", section 3 C13):

    |got - ref| <= K * eps * ( |ref| + sum_k |x_k * d ref / d x_k| )

ref     mpmath at DPS digits (own series / continued fraction in mpf arithmetic for the
        incomplete gamma family, cross-checked against mpmath.gammainc on a sample)
eps     2^-52,  K = 64  (256 for the Bessel and the incomplete-gamma family)
partials analytic where a closed form exists, central differences in mpf otherwise;
        they are evaluated lazily (only when the check does not already pass without them)
special values
        |ref| > MaxFloat64          -> +-Inf of the right sign or NaN accepted (overflow)
        |ref| < 2^-1022             -> additionally 0 and K units of 2^-1074 accepted (underflow)
        ref mathematically +-inf    -> that infinity or NaN accepted
        ref undefined (pole, log of a negative number) -> not judged, counted
        NaN / Inf anywhere else     -> violation (kinds nan / inf)
In the same pass the complements and recurrences of the property statement are evaluated on
the library's own outputs with the sum of the members' tolerances:
    P + Q = 1,  Gamma(x+1) = x Gamma(x),  psi(x+1) = psi(x) + 1/x,
    I(v-1,x) - I(v+1,x) = (2v/x) I(v,x),  log-variant = log(plain variant).
A recurrence whose member already failed its own accuracy check is counted as explained,
not reported a second time.

Signature: C13|<family>|<function>|<branch label>|<argument class>|<failure kind>
(branch label = evaluation method the source selects for the argument, recomputed here from
the thresholds in /repo/special; failure kind in panic nan inf sign gross accuracy recurrence).
"""
import hashlib, json, math, os, sys
from multiprocessing import Pool

import mpmath as mp
from mpmath import mpf

DPS = 50
EPS = 2.0 ** -52
K_DEFAULT = 64
K_WIDE = 256
TOLERANCES = {
    "policy": "condition-scaled: |got-ref| <= K*eps*(|ref| + sum_k |x_k d ref/d x_k|)",
    "eps": "2^-52", "K": K_DEFAULT, "K(BesselI, LogBesselI, GammaP/Q/Lower/Upper, GammaP derivatives)": K_WIDE,
    "reference": "mpmath %d digits (working precision raised adaptively where a complement cancels)" % DPS,
    "overflow": "|ref| > MaxFloat64: +-Inf (right sign) or NaN accepted",
    "underflow": "|ref| < 2^-970 (= 2^-1022/eps, where a factor of the result may itself be subnormal): absolute error K*2^-1022 accepted (includes flush to zero)",
    "poles": "NaN/Inf accepted when a pole lies within the relative distance K*eps of the argument",
    "subnormal arguments": "judged like any other argument; their failures carry the branch label 'subnormal-argument' (Go's math.Log is wrong for subnormals on amd64)",
    "undefined": "poles / log of negative values: not judged",
    "recurrences": "sum of the members' tolerances (same conditioning rule) + 4 eps of the largest term",
    "gross": "failure kind 'gross' = error > 0.1*(|ref|+cond); 'sign' = sign opposite to a reference that is > 8 tol away from 0",
}

mp.mp.dps = DPS + 10
FMAX = mpf(sys.float_info.max)
MINNORM = mpf(2) ** -1022
DENORM = mpf(2) ** -1074
UFZONE = mpf(2) ** -970      # 2^-1022 / eps: a factor of such a result may itself be subnormal
MAXLOG = 709.0
MINLOG = -744.0
FEPS = 2.0 ** -52

UNDEF = "undef"


class Ref:
    """value: mpf | mp.inf | -mp.inf (mathematically infinite) | UNDEF; overflow flag for |value| beyond float range
    given symbolically; cond: lazily evaluated sum_k |x_k d f/d x_k|."""
    __slots__ = ("val", "_cond", "_fn", "K", "sign_any")

    def __init__(self, val, cond_fn=None, K=K_DEFAULT, sign_any=False):
        self.val = val
        self._fn = cond_fn
        self._cond = None
        self.K = K
        self.sign_any = sign_any  # BernoulliNumber(1): both sign conventions accepted

    def cond(self):
        if self._cond is None:
            try:
                c = self._fn() if self._fn else mpf(0)
                c = abs(c)
                if not mp.isfinite(c):
                    c = mp.inf
            except Exception:
                c = mp.inf  # cannot bound the conditioning -> nothing can fail on accuracy
            self._cond = c
        return self._cond

    def tol(self, full):
        t = abs(self.val)
        if full:
            t = t + self.cond()
        return self.K * EPS * t


def fd(f, x, rel=mpf(10) ** -25):
    """central difference d f / d x in mpf (working precision DPS+10 leaves > 15 digits)."""
    h = abs(x) * rel if x != 0 else rel
    return (f(x + h) - f(x - h)) / (2 * h)


# ---------------------------------------------------------------------------------------------
# incomplete gamma: own reference in mpf arithmetic
# ---------------------------------------------------------------------------------------------

def _exp_guard(lp, a):
    """exp(lp) but exactly 0 when the result is far below every float even after scaling with Gamma(a)
    (mp.exp of astronomically negative arguments is slow and the value is irrelevant)."""
    if lp < -50000 - 2 * abs(a) * max(1, mp.log(a + 2)):
        return mpf(0)
    return mp.exp(lp)


def _pq_at(a, x, dps):
    """(P, Q, direct) at working precision dps; direct = 'P' or 'Q' (the one computed without subtraction)."""
    with mp.workdps(dps):
        a = +a
        x = +x
        tiny = mpf(10) ** (-dps + 6)
        if x < a + 1:
            lp = a * mp.log(x) - x - mp.loggamma(a + 1)
            term = mpf(1)
            s = mpf(1)
            n = 0
            while True:
                n += 1
                term = term * x / (a + n)
                s += term
                if term < s * tiny:
                    break
                if n > 5000000:
                    raise ArithmeticError("series too long")
            P = _exp_guard(lp, a) * s
            return P, 1 - P, "P"
        # modified Lentz for the Legendre continued fraction of Gamma(a,x)
        lp = a * mp.log(x) - x - mp.loggamma(a)
        fpmin = mpf(10) ** (-10 * dps)
        b = x + 1 - a
        c = 1 / fpmin
        d = 1 / b
        h = d
        i = 0
        while True:
            i += 1
            an = -i * (i - a)
            b += 2
            d = an * d + b
            if d == 0:
                d = fpmin
            c = b + an / c
            if c == 0:
                c = fpmin
            d = 1 / d
            delta = d * c
            h *= delta
            if abs(delta - 1) < tiny:
                break
            if i > 5000000:
                raise ArithmeticError("continued fraction too long")
        Q = _exp_guard(lp, a) * h
        return 1 - Q, Q, "Q"


_PQ_CACHE = {}


def pq(a, x):
    """cached front end of _pq (the four incomplete-gamma functions share one evaluation per point)."""
    k = (a, x)
    r = _PQ_CACHE.get(k)
    if r is None:
        if len(_PQ_CACHE) > 20000:
            _PQ_CACHE.clear()
        r = _PQ_CACHE[k] = _pq(a, x)
    return r


def _pq(a, x):
    """regularised P(a,x), Q(a,x) for a > 0, x >= 0, both with >= DPS correct digits (or exactly 0 below 1e-700)."""
    if x == 0:
        return mpf(0), mpf(1)
    dps = DPS + 20
    if a < 1 and x < a + 1:
        dps += min(700, int(-mp.log10(a)) + 5)   # Q = 1 - P ~ a * E1(x): that many digits cancel
    while True:
        P, Q, direct = _pq_at(a, x, dps)
        other = Q if direct == "P" else P
        # digits lost in the complement
        if other == 0:
            lost = dps
        else:
            lost = max(0, -int(mp.floor(mp.log10(abs(other)))))
        if dps - lost >= DPS + 8 or dps >= 800:
            break
        dps = min(800, max(lost + DPS + 20, 2 * dps))
    return +P, +Q


def _lg(a):
    return mp.loggamma(a)


def _gamma_or_inf(a):
    """Gamma(a) for a > 0 as mpf (exponent range of mpf is unbounded)."""
    return mp.exp(mp.loggamma(a))


def ref_gammainc(fn, a, x):
    K = K_WIDE
    if fn in ("GammaP", "GammaQ", "GammaLower", "GammaUpper"):
        P, Q = pq(a, x)
        # d/dx of P
        def dpx():
            if x == 0:
                return mpf(0)
            return _exp_guard((a - 1) * mp.log(x) - x - _lg(a), a)

        def dpa():
            return fd(lambda t: pq(t, x)[0], a)
        if fn == "GammaP":
            return Ref(P, lambda: abs(x * dpx()) + abs(a * dpa()), K)
        if fn == "GammaQ":
            return Ref(Q, lambda: abs(x * dpx()) + abs(a * dpa()), K)
        G = _gamma_or_inf(a)
        psi = mp.psi(0, a)
        if fn == "GammaLower":
            return Ref(P * G, lambda: abs(x * dpx() * G) + abs(a * G * (dpa() + P * psi)), K)
        return Ref(Q * G, lambda: abs(x * dpx() * G) + abs(a * G * (-dpa() + Q * psi)), K)
    if fn == "GammaPfirstDerivative":
        if x == 0:
            if a > 1:
                return Ref(mpf(0), None, K)
            if a == 1:
                return Ref(mpf(1), None, K)
            return Ref(mp.inf, None, K)
        f = _exp_guard((a - 1) * mp.log(x) - x - _lg(a), a)
        return Ref(f, lambda: abs(x * f * ((a - 1) / x - 1)) + abs(a * f * (mp.log(x) - mp.psi(0, a))), K)
    if fn == "GammaPsecondDerivative":
        if x == 0:
            if a > 2:
                return Ref(mpf(0), None, K)
            if a == 2:
                return Ref(mpf(1), None, K)
            if a > 1:
                return Ref(mp.inf, None, K)
            if a == 1:
                return Ref(mpf(-1), None, K)
            return Ref(-mp.inf, None, K)
        f = _exp_guard((a - 1) * mp.log(x) - x - _lg(a), a)
        u = (a - 1) / x - 1
        g = f * u
        return Ref(g, lambda: abs(x * f * (u * u - (a - 1) / (x * x))) + abs(a * (f * (mp.log(x) - mp.psi(0, a)) * u + f / x)), K)
    raise KeyError(fn)


# ---------------------------------------------------------------------------------------------
# other references
# ---------------------------------------------------------------------------------------------

def is_int(x):
    return x == mp.floor(x)


_COT = {0: [0, 1]}   # C_n: d^n/dx^n cot(pi x) = pi^n C_n(cot(pi x)); integer coefficients, lowest degree first


def cot_poly(n):
    """C_0(c) = c,  C_{k+1}(c) = -(1 + c^2) C_k'(c)."""
    k = max(i for i in _COT if i <= n)
    p = _COT[k]
    while k < n:
        d = [i * p[i] for i in range(1, len(p))]          # derivative
        q = [0] * (len(d) + 2)
        for i, c in enumerate(d):
            q[i] -= c
            q[i + 2] -= c
        p = q
        k += 1
        _COT[k] = p
    return p


def psi_n(n, x):
    """polygamma of order n at real non-pole x; reflection psi_n(x) = (-1)^n psi_n(1-x) - pi^(n+1) C_n(cot(pi x))
    for x < -8 (mpmath walks the recurrence there, one step per unit), mpmath otherwise."""
    if x > -8:
        return mp.psi(n, x)
    with mp.workdps(mp.mp.dps + 30):
        c = mp.cospi(x) / mp.sinpi(x)
        p = cot_poly(n)
        acc = mpf(0)
        for coef in reversed(p):
            acc = acc * c + coef
        r = (-1) ** n * mp.psi(n, 1 - x) - mp.pi ** (n + 1) * acc
    return +r


def ref_polygamma(n, x):
    if x <= 0 and is_int(x):
        return Ref(UNDEF)
    try:
        v = psi_n(n, x)
    except (ZeroDivisionError, ValueError):
        return Ref(UNDEF)
    return Ref(v, lambda: x * psi_n(n + 1, x))


def ref_zeta(s):
    if s == 1:
        return Ref(UNDEF)
    v = mp.zeta(s)
    return Ref(v, lambda: s * fd(mp.zeta, s))


def ref_factorial(n):
    return Ref(mp.factorial(n))


def ref_bernoulli(n):
    return Ref(mp.bernoulli(n), sign_any=(n == 1))


def ref_mgamma(x, k, log):
    args = [x + mpf(1 - i) / 2 for i in range(1, k + 1)]
    lg = mpf(k * (k - 1)) / 4 * mp.log(mp.pi) + sum(mp.loggamma(t) for t in args)
    dlog = lambda: sum(mp.psi(0, t) for t in args)
    if log:
        return Ref(lg, lambda: x * dlog())
    v = mp.exp(lg)
    return Ref(v, lambda: x * v * dlog())


def ref_logerfc(x):
    if x > 100000:
        u = 1 / (2 * x * x)
        v = -x * x - mp.log(x * mp.sqrt(mp.pi)) + mp.log1p(-u + 3 * u * u - 15 * u ** 3)
        return Ref(v, lambda: x * (-2 * x - 1 / x))
    e = mp.erfc(x)
    if abs(x) < 1:
        with mp.workdps(mp.mp.dps + 330):   # erfc(x) = 1 - erf(x): keep the digits of erf down to |x| = 1e-308
            v = mp.log1p(-mp.erf(x))
        v = +v
    else:
        v = mp.log(e)
    return Ref(v, lambda: x * (-2 * mp.exp(-x * x) / (mp.sqrt(mp.pi) * e)))


def ref_logadd(a, b):
    if a == -mp.inf and b == -mp.inf:
        return Ref(-mp.inf)
    if a == -mp.inf:
        return Ref(b, lambda: b)
    if b == -mp.inf:
        return Ref(a, lambda: a)
    m = max(a, b)
    d = -abs(a - b)
    v = m + mp.log1p(mp.exp(d))
    def c():
        sa = 1 / (1 + mp.exp(b - a))
        return abs(a) * sa + abs(b) * (1 - sa)
    return Ref(v, c)


def ref_logsub(a, b):
    if a == b:
        return Ref(-mp.inf)
    if a < b:
        return Ref(UNDEF)
    if b == -mp.inf:
        return Ref(a, lambda: a)
    d = b - a
    em1 = -mp.expm1(d)              # 1 - e^(b-a), exact down to the smallest differences
    v = a + (mp.log(em1) if d > -1 else mp.log1p(-mp.exp(d)))
    return Ref(v, lambda: abs(a / em1) + abs(b * (1 - em1) / em1))


def ref_gamma(x):
    if x <= 0 and is_int(x):
        return Ref(UNDEF)
    if x > 200:
        v = mp.exp(mp.loggamma(x)) if x < 1e6 else mpf(10) ** 400
        return Ref(v)
    v = mp.gamma(x)
    return Ref(v, lambda: x * v * mp.psi(0, x))


def ref_lgamma(x):
    if x <= 0 and is_int(x):
        return Ref(UNDEF)
    if x < 0 and int(mp.floor(x)) % 2 != 0:
        return Ref(UNDEF)  # Gamma(x) < 0: the wrapper documents NaN, log undefined
    if x > 0:
        v = mp.loggamma(x)
    else:
        v = mp.log(abs(mp.gamma(x)))
    return Ref(v, lambda: x * mp.psi(0, x))


def _besseli(v, x):
    """I_v(x) for real v, x >= 0, or x < 0 and integer v."""
    if v < 0 and is_int(v):
        v = -v  # I_{-n} = I_n; mpmath evaluates negative integer orders as a (slow, cancelling) limit
    if x < 0:
        r = mp.besseli(v, -x)
        return -r if int(v) % 2 != 0 else r
    return mp.besseli(v, x)


def ref_besseli(v, x, log):
    K = K_WIDE
    if x == 0:
        if v == 0:
            val = mpf(1)
        elif v > 0 or is_int(v):
            val = mpf(0)
        else:
            # |I_v(x)| -> infinity, sign of 1/Gamma(v+1)
            val = mp.inf if int(mp.floor(v)) % 2 != 0 else -mp.inf
            if not log:
                return Ref(val, None, K)
            return Ref(val if val > 0 else UNDEF, None, K)
        if log:
            return Ref(mp.log(val) if val > 0 else -mp.inf, None, K)
        return Ref(val, None, K)
    I = _besseli(v, x)
    if isinstance(I, mp.mpc):
        I = I.real
    def dx():
        return _besseli(v + 1, x) + v / x * I
    def dv():
        r = fd(lambda t: mp.besseli(t, abs(x)), v)
        return r.real if isinstance(r, mp.mpc) else r
    if not log:
        return Ref(I, lambda: abs(x * dx()) + abs(v * dv()), K)
    if I < 0:
        return Ref(UNDEF)
    if I == 0:
        return Ref(-mp.inf, None, K)
    L = mp.log(I)
    if abs(I - 1) < mpf(10) ** -8:
        # log I cancels: re-evaluate I with as many extra digits as are lost (I - 1 ~ v log(x/2) + x^2/4)
        with mp.workdps(mp.mp.dps + 700):
            L = mp.log1p(_besseli(v, x) - 1)
        L = +L
    return Ref(L, lambda: abs(x * dx() / I) + abs(v * dv() / I), K)


def ref_sinpi(x):
    return Ref(mp.sinpi(x), lambda: mp.pi * x * mp.cospi(x))


def ref_cospi(x):
    return Ref(mp.cospi(x), lambda: mp.pi * x * mp.sinpi(x))


def ref_powm1(a, z):
    v = mp.powm1(a, z)
    return Ref(v, lambda: abs(z * a ** z) + abs(z * mp.log(a) * a ** z))


def reference(fn, ns, xs):
    if fn in ("GammaP", "GammaQ", "GammaLower", "GammaUpper", "GammaPfirstDerivative", "GammaPsecondDerivative"):
        return ref_gammainc(fn, xs[0], xs[1])
    if fn == "Digamma":
        return ref_polygamma(0, xs[0])
    if fn == "Trigamma":
        return ref_polygamma(1, xs[0])
    if fn == "Polygamma":
        return ref_polygamma(ns[0], xs[0])
    if fn == "Zeta":
        return ref_zeta(xs[0])
    if fn == "Factorial":
        return ref_factorial(ns[0])
    if fn == "BernoulliNumber":
        return ref_bernoulli(ns[0])
    if fn == "Mgamma":
        return ref_mgamma(xs[0], ns[0], False)
    if fn == "Mlgamma":
        return ref_mgamma(xs[0], ns[0], True)
    if fn == "LogErfc":
        return ref_logerfc(xs[0])
    if fn == "LogAdd":
        return ref_logadd(xs[0], xs[1])
    if fn == "LogSub":
        return ref_logsub(xs[0], xs[1])
    if fn == "Gamma":
        return ref_gamma(xs[0])
    if fn == "Lgamma":
        return ref_lgamma(xs[0])
    if fn == "BesselI":
        return ref_besseli(xs[0], xs[1], False)
    if fn == "LogBesselI":
        return ref_besseli(xs[0], xs[1], True)
    if fn == "SinPi":
        return ref_sinpi(xs[0])
    if fn == "CosPi":
        return ref_cospi(xs[0])
    if fn == "Powm1":
        return ref_powm1(xs[0], xs[1])
    raise KeyError(fn)


# ---------------------------------------------------------------------------------------------
# region labels (branch the source selects + coarse argument class)
# ---------------------------------------------------------------------------------------------

FAMILY = {
    "GammaP": "gammainc", "GammaQ": "gammainc", "GammaLower": "gammainc", "GammaUpper": "gammainc",
    "GammaPfirstDerivative": "gammainc", "GammaPsecondDerivative": "gammainc",
    "Digamma": "psi", "Trigamma": "psi", "Polygamma": "psi",
    "BesselI": "bessel", "LogBesselI": "bessel",
    "Zeta": "zeta", "Factorial": "zeta", "BernoulliNumber": "zeta",
    "Mgamma": "misc", "Mlgamma": "misc", "LogErfc": "misc", "LogAdd": "misc", "LogSub": "misc", "Gamma": "misc", "Lgamma": "misc",
    "SinPi": "helpers", "CosPi": "helpers", "Powm1": "helpers",
}


def order_class(v):
    if v == math.floor(v):
        return "int"
    if abs(v - math.floor(v)) == 0.5:
        return "half"
    return "frac"


def a_band(a):
    if a < 1:
        return "a<1"
    if a < 10:
        return "1<=a<10"
    if a < 170:
        return "10<=a<170"
    return "a>=170"


def ginc_method(a, x, normalised, invert):
    """mirrors the selection in gamma_incomplete_imp (special/gamma.go)."""
    if a >= 170 and int(a) >= 170 and not normalised:
        if invert and a * 4 < x:
            return "logs>cf"
        if not invert and a > 4 * x:
            return "logs>series"
        return "logs>" + ginc_method(a, x, True, invert)
    is_int_ = is_half = False
    if a < 30 and a <= x + 1.0 and x < MAXLOG:
        fa = math.floor(a)
        if fa == a:
            is_int_ = True
        elif abs(fa - a) == 0.5:
            is_half = True
    if is_int_ and x > 0.6:
        return "finite-sum-int"
    if is_half and x > 0.2:
        return "finite-sum-half"
    if x < FEPS and a > 1:
        return "tiny-x"
    if x < 0.5:
        if x == 0 or -0.4 / math.log(x) < a:
            return "series"
        return "small-a-upper"
    if x < 1.1:
        return "series" if x * 0.75 < a else "small-a-upper"
    if normalised and a > 20:
        sigma = abs((x - a) / a)
        if a > 200:
            if 20 / a > sigma * sigma:
                return "temme"
        elif sigma < 0.4:
            return "temme"
    if x - 1.0 / (3.0 * x) < a:
        return "series"
    return "cf"


def x_band(x, cuts):
    """label of the first cut that x does not exceed."""
    for c, name in cuts:
        if x <= c:
            return name
    return cuts[-1][1].replace("<=", ">")


def region(fn, ns, xs, refval=None):
    """(branch label, argument class) of an evaluation; xs are Python floats.  Labels only name the cell a
    failure is filed under, they never take part in a verdict."""
    br, ac = region0(fn, ns, xs)
    if fn == "LogBesselI" and refval is not None and refval is not UNDEF and mp.isfinite(refval) and abs(refval) < 2.0 ** -4:
        ac += ",|log I|<2^-4"   # I ~ 1: the logarithm is computed to absolute, not relative, accuracy
    return br, ac


def region0(fn, ns, xs):
    if any(x != 0 and abs(x) < 2.0 ** -1022 for x in xs):
        return "subnormal-argument", "-"
    if fn in ("GammaP", "GammaQ", "GammaLower", "GammaUpper"):
        a, x = xs
        normalised = fn in ("GammaP", "GammaQ")
        invert = fn in ("GammaQ", "GammaUpper")
        if x == 0:
            return "x=0", a_band(a)
        m = ginc_method(a, x, normalised, invert)
        if m.endswith("cf") and a < 10 and x > 1e30:
            m += ":x>1e30"   # small-a prefix: (x/10)^a overflows while exp(10-x) underflows
        return m, a_band(a)
    if fn in ("GammaPfirstDerivative", "GammaPsecondDerivative"):
        a, x = xs
        if x == 0:
            return "x=0", ("a<1" if a < 1 else "a=1" if a == 1 else "a>1")
        xb = "x<=1e-100" if x <= 1e-100 else "x<=1e-9" if x <= 1e-9 else "x>1e-9"
        if a < 10:
            return ("prefix:a<10" + (":x>1e30" if x > 1e30 else "")), a_band(a) + "," + xb
        return "prefix:a>=10", a_band(a) + "," + xb
    if fn == "Digamma" or (fn == "Polygamma" and ns[0] == 0):
        x = xs[0]
        pre = ""
        if x <= -1:
            pre = "reflect>"
            x = 1 - x
        if x >= 10:
            return pre + "asymptotic", "x>=10"
        if x > 2:
            return pre + "downward-recurrence", "2<x<10"
        if x < 1:
            return pre + "upward-recurrence", "x<1"
        return pre + "[1,2]", "1<=x<=2"
    if fn == "Trigamma" or (fn == "Polygamma" and ns[0] == 1):
        x = xs[0]
        pre = ""
        if x <= 0:
            pre = "reflect>"
            x = 1 - x
        if x < 1:
            return pre + "x<1", "x<1"
        if x <= 2:
            return pre + "[1,2]", "1<=x<=2"
        if x <= 4:
            return pre + "(2,4]", "2<x<=4"
        return pre + "(4,inf)", "x>4"
    if fn == "Polygamma":
        n, x = ns[0], xs[0]
        pre = ""
        if x < 0:
            pre = "reflect>"
            x = 1 - x
        small = min(5.0 / n, 0.25)
        if x < small:
            br = "nearzero"
        elif x > 6 + 4.0 * n:
            br = "asymptotic"
            if 1022 < (n + 1) * math.log2(x) < 1076:
                br = "asymptotic:x^-(n+1)-subnormal"   # the leading power is subnormal but not 0 (0 switches to the log form)
        elif x == 1:
            br = "x=1"
        elif x == 0.5:
            br = "x=1/2"
        else:
            br = "transition"
        return pre + br, ("n<=20" if n <= 20 else "n>20")
    if fn in ("BesselI", "LogBesselI"):
        v, x = xs
        pre = ""
        if x < 0:
            pre = "x<0>"
            x = -x
        if x == 0:
            return pre + "x=0", ("v=0" if v == 0 else "v>0" if v > 0 else "v<0," + ("int" if v == math.floor(v) else "non-int"))
        xb = x_band(x, ((1e-100, "x<=1e-100"), (2, "x<=2"), (100, "x<=100"), (708, "x<=708")))
        if v == 0.5:
            return pre + "v=1/2", xb
        if v == 0 or v == 1:
            return pre + ("i01:x<7.75" if x < 7.75 else "i01:x<500" if x < 500 else "i01:x>=500"), xb
        if v > 0 and x / v < 0.25:
            return pre + "small-z-series", xb
        av = abs(v)
        k = "temme" if x <= 2 else "cf2"
        try:
            lim = ((4.0 * av * av + 10.0) / (8.0 * x)) ** 4 / 24.0
        except OverflowError:
            lim = math.inf
        if lim < FEPS * 10 and x > 100:
            i = "asymptotic"
        elif av > 0 and x / av < 0.25:
            i = "small-z-series"
        else:
            i = "cf1"
        return pre + ("reflect>" if v < 0 else "") + k + "+" + i, xb
    if fn == "Zeta":
        s = xs[0]
        if s > 53:
            return "s>53", "s>53"
        if s == math.floor(s):
            if s < 0:
                return "integer", ("s<0,odd" if int(-s) & 1 else "s<0,even") + (",s<=-250" if s <= -250 else "")
            return "integer", ("s>=0,even" if int(s) & 1 == 0 else "s>=0,odd")
        if abs(s) < 1.49012e-08:
            return "|s|<sqrt(eps)", "s~0"
        if s < 0:
            # Boost switches to the log form at 1-s > 170; the port did at 1-s > 21 (length of its factorial table)
            return ("reflect:1-s<=21" if 1 - s <= 21 else "reflect:21<1-s<=170" if 1 - s <= 170 else "reflect:1-s>170"), ("s<=-250" if s <= -250 else "-250<s<0")
        for hi in (1, 2, 4, 7, 15, 36, 56):
            if s <= hi:
                return "prec:s<=%d" % hi, "s>0"
        return "prec:s>56", "s>0"
    if fn == "Factorial":
        n = ns[0]
        return ("table" if n < 21 else "gamma"), ("n<21" if n < 21 else "21<=n<=170" if n <= 170 else "n>170")
    if fn == "BernoulliNumber":
        n = ns[0]
        return "akiyama-tanigawa", ("n<=1" if n <= 1 else "even" if n % 2 == 0 else "odd")
    if fn in ("Mgamma", "Mlgamma"):
        k = ns[0]
        x = xs[0]
        d = x - (k - 1) / 2.0
        return "product", ("k=1" if k == 1 else "k>1") + (",x-(k-1)/2<2^-20" if d < 2.0 ** -20 else ",x-(k-1)/2<1" if d < 1 else ",x-(k-1)/2>=1")
    if fn == "LogErfc":
        x = xs[0]
        if x * x < 2.4607833005759251e-02:
            return "series-at-0", "|x|<0.157"
        if x > 8:
            return "rational-x>8", ("8<x<1e51" if x < 1e51 else "x>=1e51")
        return "log(erfc)", ("x<0" if x < 0 else "0<x<=8")
    if fn in ("LogAdd", "LogSub"):
        a, b = xs
        if math.isinf(a) or math.isinf(b):
            return "inf-argument", "-inf"
        d = abs(a - b)
        return "log1p(exp)", ("equal" if d == 0 else "|a-b|<2^-20" if d < 2.0 ** -20 else "|a-b|<1" if d < 1 else "|a-b|<40" if d < 40 else "|a-b|>=40")
    if fn in ("Gamma", "Lgamma"):
        x = xs[0]
        return "math." + fn, ("x<0" if x < 0 else "x<1" if x < 1 else "x<172" if x < 172 else "x>=172")
    if fn in ("SinPi", "CosPi"):
        x = abs(xs[0])
        return "reduction", ("|x|<1/2" if x < 0.5 else "|x|<2^52" if x < 2.0 ** 52 else "|x|>=2^52")
    if fn == "Powm1":
        a, z = xs
        p = math.log(a) * z
        return ("expm1" if (abs(a) < 1 or abs(z) < 1) and abs(p) < 2 else "pow-1"), ("a<1" if a < 1 else "a>=1")
    return "?", "?"


# ---------------------------------------------------------------------------------------------
# judging
# ---------------------------------------------------------------------------------------------

def parse_float(h):
    return float.fromhex(h)


def to_mp(f):
    if math.isinf(f):
        return mp.inf if f > 0 else -mp.inf
    return mpf(f)


def fmt_args(ns, xs):
    return ", ".join([str(n) for n in ns] + [repr(x) for x in xs])


def near_pole(fn, ns, xs, K):
    """True when a pole of the function lies within the relative distance K*eps of an argument: there the
    conditioning neighbourhood of the argument contains the pole and NaN/Inf is as good as any other value."""
    def negint(t):
        return t < 0 and abs(t - round(t)) <= K * EPS * abs(t)
    if fn in ("Digamma", "Trigamma", "Polygamma", "Gamma", "Lgamma"):
        return negint(xs[0])
    if fn in ("Mgamma", "Mlgamma"):
        return any(negint(xs[0] + (1 - i) / 2.0) or abs(xs[0] + (1 - i) / 2.0) <= K * EPS * abs(xs[0]) for i in range(1, ns[0] + 1))
    if fn == "Zeta":
        return abs(xs[0] - 1) <= K * EPS
    return False


def judge_value(got, ref, pole=False):
    """returns (status, kind, info): status in pass / fail / undefined / overflow-ok / underflow-ok / singular-ok"""
    rv = ref.val
    if rv is UNDEF:
        return "undefined", None, ""
    if rv == mp.inf or rv == -mp.inf:
        if math.isnan(got) or (math.isinf(got) and (got > 0) == (rv > 0)):
            return "singular-ok", None, ""
        if math.isinf(got):
            return "fail", "sign", "expected %s" % mp.nstr(rv)
        return "fail", "accuracy", "finite value at a point where the function is %s" % mp.nstr(rv)
    arv = abs(rv)
    if ref.sign_any and not (math.isnan(got) or math.isinf(got)):
        if abs(abs(mpf(got)) - arv) <= ref.tol(False):
            return "pass", None, ""
    # overflow zone
    if arv > FMAX:
        if math.isnan(got) or (math.isinf(got) and ((got > 0) == (rv > 0))):
            return "overflow-ok", None, ""
        if math.isinf(got):
            return "fail", "sign", "overflow with the wrong sign"
        g = mpf(got)
        if abs(g - rv) <= ref.tol(True):
            return "overflow-ok", None, ""
        return "fail", "accuracy", "finite value where the function overflows (ref %s)" % mp.nstr(rv, 8)
    if (math.isnan(got) or math.isinf(got)) and pole:
        return "near-pole-ok", None, ""
    if math.isnan(got):
        return "fail", "nan", ""
    if math.isinf(got):
        if arv + ref.tol(True) >= FMAX:
            return "overflow-ok", None, ""
        return "fail", "inf", ""
    g = mpf(got)
    err = abs(g - rv)
    if err <= ref.tol(False):
        return "pass", None, ""
    if arv < UFZONE and err <= ref.K * MINNORM:
        return "underflow-ok", None, ""
    tol = ref.tol(True)
    if err <= tol:
        return "pass-cond", None, ""
    scale = arv + ref.cond()
    if g != 0 and rv != 0 and (g > 0) != (rv > 0) and arv > 8 * tol:
        kind = "sign"
    elif err > scale / 10:
        kind = "gross"
    else:
        kind = "accuracy"
    return "fail", kind, "err=%s tol=%s (|ref|=%s cond=%s K=%d)" % (mp.nstr(err, 4), mp.nstr(tol, 4), mp.nstr(arv, 4), mp.nstr(ref.cond(), 4), ref.K)


def case_hash(cid, evs):
    h = hashlib.sha1()
    h.update(cid.split("#")[0].encode())
    for e in evs:
        h.update(json.dumps(e[:3]).encode())
    return h.hexdigest()[:16]


class Acc:
    def __init__(self):
        self.viol = []
        self.cov = {}
        self.nt = []
        self.samples = []
        self.n = 0

    def c(self, k, n=1):
        self.cov[k] = self.cov.get(k, 0) + n


def judge_case(cid, evs, acc):
    """judges all evaluations of one case, then the recurrences among them."""
    table = {}   # (fn, ns, xs) -> dict(got, ref, status)
    nontrivial = False
    for e in evs:
        fn, ns, hxs, res = e
        ns = tuple(ns)
        xs = tuple(parse_float(h) for h in hxs)
        key = (fn, ns, hxs if isinstance(hxs, tuple) else tuple(hxs))
        if key in table:
            continue
        acc.n += 1
        fam = FAMILY.get(fn, "misc")
        try:
            br, ac = region(fn, ns, xs)
        except Exception as ex:  # labels never decide a verdict
            br, ac = "?", "?"
        acc.c("evaluated:" + fn)
        acc.c("branch:%s:%s" % (fn, br))
        sigbase = "C13|%s|%s|%s|%s|" % (fam, fn, br, ac)
        call = "%s(%s)" % (fn, fmt_args(ns, xs))
        if res.startswith("panic:") or res.startswith("budget:"):
            acc.viol.append({"case": cid, "sig": sigbase + "panic", "detail": "%s panicked on an argument of its domain: %s" % (call, res),
                             "witness": {"fn": fn, "ints": list(ns), "args": list(hxs), "args_decimal": [repr(x) for x in xs], "result": res}})
            table[key] = {"got": None, "ref": None, "status": "fail", "xs": xs, "ns": ns}
            continue
        got = parse_float(res)
        try:
            ref = reference(fn, ns, tuple(to_mp(x) for x in xs))
            status, kind, info = judge_value(got, ref, near_pole(fn, ns, xs, ref.K))
        except Exception as ex:
            acc.c("reference-unavailable:" + fn)
            table[key] = {"got": got, "ref": None, "status": "noref", "xs": xs, "ns": ns}
            continue
        table[key] = {"got": got, "ref": ref, "status": status, "xs": xs, "ns": ns}
        if status == "fail":
            try:
                br, ac = region(fn, ns, xs, ref.val)
            except Exception:
                pass
            if kind == "inf" and br != "subnormal-argument" and FMAX >= abs(ref.val) >= mpf(2) ** 1023:
                br, ac = "result-in-top-binade", "-"   # Go's math.Exp (amd64) already returns +Inf for arguments in (709.43, 709.78]
            sigbase = "C13|%s|%s|%s|%s|" % (fam, fn, br, ac)
            if br == "subnormal-argument":
                kind = "wrong"
            refs = mp.nstr(ref.val, 20) if ref.val is not UNDEF else UNDEF
            acc.viol.append({"case": cid, "sig": sigbase + kind,
                             "detail": "%s = %r, reference %s; %s" % (call, got, refs, info),
                             "witness": {"fn": fn, "ints": list(ns), "args": list(hxs), "args_decimal": [repr(x) for x in xs],
                                         "got": res, "got_decimal": repr(got), "reference": refs, "branch": br, "class": ac}})
            acc.c("failed:" + fn)
        else:
            acc.c("status:" + status)
            if status in ("pass", "pass-cond", "underflow-ok"):
                acc.c("judged:" + fn)
                if ref.val != 0 and status != "underflow-ok":
                    nontrivial = True
                    if len(acc.samples) < 3 and (acc.n % 97 == 1):
                        acc.samples.append({"monitor": "oracle", "case": cid, "case_written_out": {
                            "call": call, "got": repr(got), "reference": mp.nstr(ref.val, 25), "tolerance_without_cond": mp.nstr(ref.tol(False), 5), "status": status}})
    if nontrivial:
        acc.nt.append(case_hash(cid, evs))
    recurrences(cid, table, acc)


def _fin(t):
    return t is not None and t["got"] is not None and t["ref"] is not None and not math.isnan(t["got"]) and not math.isinf(t["got"]) \
        and t["ref"].val is not UNDEF and mp.isfinite(t["ref"].val)


def _rec_check(cid, acc, name, fn, member_keys, table, resid, terms, tols_fn, label_key, detail_fn):
    """resid: mpf residual of the identity on the library's outputs; tols_fn(full) -> tolerance."""
    acc.c("rec-evaluated:" + name)
    members = [table[k] for k in member_keys]
    big = max([abs(t) for t in terms] + [mpf(0)])
    tol = tols_fn(False) + 4 * EPS * big
    if abs(resid) <= tol:
        acc.c("rec-held:" + name)
        return
    tol = tols_fn(True) + 4 * EPS * big
    if abs(resid) <= tol:
        acc.c("rec-held:" + name)
        return
    if any(m["status"] == "fail" for m in members):
        acc.c("rec-explained-by-accuracy:" + name)
        return
    if any(m["status"] in ("underflow-ok", "overflow-ok") for m in members):
        acc.c("rec-skipped-range:" + name)
        return
    t = table[label_key]
    br, ac = region(fn, t["ns"], t["xs"])
    acc.viol.append({"case": cid, "sig": "C13|%s|%s|%s|%s|recurrence" % (FAMILY[fn], name, br, ac),
                     "detail": "%s: residual %s exceeds %s" % (detail_fn(), mp.nstr(resid, 6), mp.nstr(tol, 4)),
                     "witness": {"identity": name, "members": [[k[0], list(k[1]), list(k[2]), repr(table[k]["got"])] for k in member_keys]}})


def recurrences(cid, table, acc):
    for key, t in list(table.items()):
        fn, ns, hxs = key
        if not _fin(t):
            continue
        xs = t["xs"]
        if fn == "GammaP":
            k2 = ("GammaQ", ns, hxs)
            q = table.get(k2)
            if _fin(q):
                P, Q = mpf(t["got"]), mpf(q["got"])
                _rec_check(cid, acc, "P+Q=1", fn, [key, k2], table, P + Q - 1, [P, Q, 1],
                           lambda full: t["ref"].tol(full) + q["ref"].tol(full), key,
                           lambda: "GammaP+GammaQ-1 at (a,x)=(%r,%r)" % xs)
        elif fn == "Gamma":
            x = xs[0]
            y = x + 1
            if y - 1 == x and x != 0:
                # find the partner by value (hex formatting of Go and Python differ)
                for kk, tt in table.items():
                    if kk[0] == "Gamma" and tt["xs"][0] == y and _fin(tt):
                        g0, g1 = mpf(t["got"]), mpf(tt["got"])
                        _rec_check(cid, acc, "Gamma(x+1)=x*Gamma(x)", fn, [key, kk], table, g1 - mpf(x) * g0, [g1, mpf(x) * g0],
                                   lambda full: tt["ref"].tol(full) + abs(mpf(x)) * t["ref"].tol(full), key,
                                   lambda: "Gamma(x+1)-x*Gamma(x) at x=%r" % x)
                        break
        elif fn == "Digamma":
            x = xs[0]
            y = x + 1
            if y - 1 == x and x != 0:
                for kk, tt in table.items():
                    if kk[0] == "Digamma" and tt["xs"][0] == y and _fin(tt):
                        d0, d1 = mpf(t["got"]), mpf(tt["got"])
                        _rec_check(cid, acc, "psi(x+1)=psi(x)+1/x", fn, [key, kk], table, d1 - d0 - 1 / mpf(x), [d1, d0, 1 / mpf(x)],
                                   lambda full: tt["ref"].tol(full) + t["ref"].tol(full), key,
                                   lambda: "Digamma(x+1)-Digamma(x)-1/x at x=%r" % x)
                        break
        elif fn == "BesselI":
            v, x = xs
            if x == 0:
                continue
            lo = hi = None
            for kk, tt in table.items():
                if kk[0] == "BesselI" and tt["xs"][1] == x:
                    if tt["xs"][0] == v - 1 and (v - 1) + 1 == v:
                        lo = (kk, tt)
                    if tt["xs"][0] == v + 1 and (v + 1) - 1 == v:
                        hi = (kk, tt)
            if lo and hi and _fin(lo[1]) and _fin(hi[1]):
                Im, Ip, I0 = mpf(lo[1]["got"]), mpf(hi[1]["got"]), mpf(t["got"])
                f = 2 * mpf(v) / mpf(x)
                _rec_check(cid, acc, "I(v-1)-I(v+1)=(2v/x)I(v)", fn, [key, lo[0], hi[0]], table, Im - Ip - f * I0, [Im, Ip, f * I0],
                           lambda full: lo[1]["ref"].tol(full) + hi[1]["ref"].tol(full) + abs(f) * t["ref"].tol(full), key,
                           lambda: "I(v-1,x)-I(v+1,x)-(2v/x)I(v,x) at (v,x)=(%r,%r)" % (v, x))
            # log-variant
            k2 = ("LogBesselI", ns, hxs)
            l = table.get(k2)
            if l is not None and l["got"] is not None and l["ref"] is not None and t["got"] > 2.0 ** -1022 and not math.isnan(l["got"]) \
                    and not math.isinf(l["got"]) and l["ref"].val is not UNDEF and mp.isfinite(l["ref"].val):
                I0 = mpf(t["got"])
                L = mpf(l["got"])
                _rec_check(cid, acc, "LogBesselI=log(BesselI)", "LogBesselI", [k2, key], table, L - mp.log(I0), [L],
                           lambda full: l["ref"].tol(full) + t["ref"].tol(full) / abs(t["ref"].val), k2,
                           lambda: "LogBesselI-log(BesselI) at (v,x)=(%r,%r)" % (v, x))
        elif fn == "Mgamma":
            k2 = ("Mlgamma", ns, hxs)
            l = table.get(k2)
            if _fin(l) and t["got"] > 2.0 ** -1022:
                G = mpf(t["got"])
                L = mpf(l["got"])
                _rec_check(cid, acc, "Mlgamma=log(Mgamma)", "Mlgamma", [k2, key], table, L - mp.log(G), [L],
                           lambda full: l["ref"].tol(full) + t["ref"].tol(full) / abs(t["ref"].val), k2,
                           lambda: "Mlgamma-log(Mgamma) at x=%r k=%d" % (xs[0], ns[0]))
    # Lgamma = log(Gamma)
    for key, t in list(table.items()):
        fn, ns, hxs = key
        if fn != "Lgamma" or not _fin(t):
            continue
        g = table.get(("Gamma", ns, hxs))
        if _fin(g) and g["got"] > 2.0 ** -1022:
            G = mpf(g["got"])
            L = mpf(t["got"])
            _rec_check(cid, acc, "Lgamma=log(Gamma)", "Lgamma", [key, ("Gamma", ns, hxs)], table, L - mp.log(G), [L],
                       lambda full: t["ref"].tol(full) + g["ref"].tol(full) / abs(g["ref"].val), key,
                       lambda: "Lgamma-log(Gamma) at x=%r" % t["xs"][0])


def work(chunk):
    mp.mp.dps = DPS + 10
    acc = Acc()
    for cid, evs in chunk:
        try:
            judge_case(cid, evs, acc)
        except Exception as ex:  # an oracle bug must not look like a held property
            acc.c("oracle-error")
            acc.viol.append({"case": cid, "sig": "C13|oracle|internal-error|%s" % type(ex).__name__, "detail": "oracle raised %r" % (ex,), "witness": None})
    return acc.viol, acc.cov, acc.nt, acc.samples, acc.n


def load_cases(files):
    cases = []
    for f in files:
        try:
            fh = open(f)
        except FileNotFoundError:
            continue
        with fh:
            for line in fh:
                if '"ev":"data"' not in line:
                    continue
                try:
                    e = json.loads(line)
                except Exception:
                    continue
                if e.get("ev") == "data" and "e" in e:
                    cases.append((e.get("case", "?"), e["e"]))
    return cases


def judge(files, opts):
    cases = load_cases(files)
    ncpu = int(opts.get("ncpu") or os.cpu_count() or 4)
    # interleave so that every chunk gets a mix of cheap and expensive families
    nchunks = max(1, min(len(cases), ncpu * 12))
    chunks = [cases[i::nchunks] for i in range(nchunks)]
    viol, cov, nt, samples, n = [], {}, [], [], 0
    if len(cases) <= 4:
        results = [work(c) for c in chunks]
    else:
        with Pool(ncpu) as pool:
            results = list(pool.imap_unordered(work, chunks))
    for v, c, t, s, k in results:
        viol += v
        for kk, vv in c.items():
            cov[kk] = cov.get(kk, 0) + vv
        nt += t
        samples += s
        n += k
    viol.sort(key=lambda v: (v["sig"], v["case"]))
    return {"violations": viol, "coverage": cov, "nontrivial": nt, "samples": samples[:4], "evaluations": n,
            "note": "oracle: mpmath %d digits, eps=2^-52, K=%d/%d; %d evaluations judged offline" % (DPS, K_DEFAULT, K_WIDE, n)}


if __name__ == "__main__":
    r = judge(sys.argv[1:], {"ncpu": os.cpu_count()})
    by = {}
    for v in r["violations"]:
        by.setdefault(v["sig"], []).append(v)
    for s, vs in sorted(by.items()):
        print(len(vs), s)
        print("    ", vs[0]["detail"][:300])
    print(json.dumps({k: v for k, v in sorted(r["coverage"].items()) if not k.startswith("branch:")}, indent=0)[:6000])
    print(r["evaluations"], "evaluations", len(r["nontrivial"]), "nontrivial")
