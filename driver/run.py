#!/usr/bin/env python3-vt
"""Driver of the runtime-monitoring checks (see DESIGN.md section 2).

./check <ID> [--tier quick|thorough] [--seed N] [--replay FILE] [--propose]

Builds the worker from /repo's current working tree with -tags verif, runs the
property's case list in parallel worker processes, runs the offline oracle if
the property has one, matches violations against known_findings.jsonl, writes
evidence/<ID>.json and replay files, prints verdict lines and sets the exit
code: 0 held, 1 violated, 2 inconclusive.
"""
import argparse, math, glob, hashlib, importlib, json, os, re, resource, shutil, signal, subprocess, sys, time
from concurrent.futures import ThreadPoolExecutor

VERIF = os.path.dirname(os.path.dirname(os.path.abspath(__file__)))
REPO = os.environ.get("VERIF_REPO", "/repo")
BUILD = os.path.join(VERIF, ".build")
if REPO != "/repo":
    # runs against a scratch copy never share binaries, run directories or evidence with runs against /repo
    import hashlib
    BUILD = os.path.join(BUILD, "scratch-" + hashlib.md5(os.path.realpath(REPO).encode()).hexdigest()[:10])
HARNESS = os.path.join(VERIF, "harness")
NCPU = os.cpu_count() or 4

GOENV = dict(os.environ, GOFLAGS="-mod=mod", GOPROXY="off", GOSUMDB="off", GOTOOLCHAIN="local")

sys.path.insert(0, os.path.dirname(os.path.abspath(__file__)))
from props import PROPS  # per-property configuration


# Case-list multiples: (quick k, thorough k, regex of the monitors whose lists are stretched).  Only monitors whose case index
# is nothing but a PRNG stream address are named (no enumerations, no directed lists); sized so that the quick tier of a check
# takes 10-30 s and the thorough tier roughly 5-15 minutes on 16 idle cores.
CASE_SCALE = {
    "C01": (1, 6, r"^programs$"),
    "C02": (2, 10, r"^(intwrap|pred)$"),
    "C03": (2, 4, r"^(ops|constvec)/"),
    "C04": (8, 30, r"^(inverse|solve|backsub|det|singular|views)$"),
    "C05": (8, 16, r"."),
    "C06": (1, 2, r"^(a|b|c|b\.forcepd|c\.helpers)$"),
    "C07": (1, 3, r"^(bfgs|newton|rprop|rprop\.constrained|gradientDescent|adam|saga|lineSearch|blahut)$"),
    "C08": (1, 3, r"\.random$"),
    "C09": (1, 3, r"^(alias\.)?random$"),
    "C10": (2, 8, r"^(nested|vector-slice)/"),
    "C11": (2, 6, r"^(vector|matrix)/"),
    "C13": (1, 2, r"\.sweep$"),
    "C15": (3, 12, r"^(hmm|hmm\.matrix|hmm\.bw|hmm\.variants|mixture)$"),
    "C16": (3, 10, r"^(closed|numeric|em)\b"),
    "C19": (4, 1, r"^(dense|sparse-keys|iterator-stress|snapshot-iterators)$"),
    "C20": (1, 4, r"^no-return\.small-int$"),
}

RACE_FILES = set()  # event files written by workers of the -race build


def log(*a):
    print(*a, file=sys.stderr, flush=True)


def build(prop, race=False):
    os.makedirs(BUILD, exist_ok=True)
    out = os.path.join(BUILD, f"vworker-{prop}" + ("-race" if race else ""))
    shutil.copyfile(os.path.join(REPO, "go.sum"), os.path.join(HARNESS, "go.sum"))
    modfile = []
    if REPO != "/repo":
        # scratch copies of the repository (mutant validation): alternate go.mod
        src = open(os.path.join(HARNESS, "go.mod")).read().replace("=> /repo", "=> " + REPO)
        alt = os.path.join(BUILD, "alt.go.mod")
        open(alt, "w").write(src)
        shutil.copyfile(os.path.join(HARNESS, "go.sum"), os.path.join(BUILD, "alt.go.sum"))
        modfile = ["-modfile=" + alt]
    cmd = ["go", "build"] + modfile + ["-tags", "verif,p" + prop] + (["-race"] if race else []) + ["-o", out, "./cmd/vworker"]
    t0 = time.time()
    r = subprocess.run(cmd, cwd=HARNESS, env=GOENV, stdout=subprocess.PIPE, stderr=subprocess.STDOUT, text=True)
    if r.returncode != 0:
        return None, r.stdout
    log(f"[build] {'race ' if race else ''}worker built in {time.time()-t0:.1f}s")
    return out, ""


def limits(mem_gb):
    def f():
        lim = int(mem_gb * (1 << 30))
        resource.setrlimit(resource.RLIMIT_AS, (lim, lim))
        resource.setrlimit(resource.RLIMIT_CORE, (0, 0))
    return f


def read_events(path):
    evs = []
    try:
        with open(path) as f:
            for line in f:
                line = line.strip()
                if not line:
                    continue
                try:
                    evs.append(json.loads(line))
                except Exception:
                    pass  # torn last line of a killed worker
    except FileNotFoundError:
        pass
    return evs


def run_shard(binary, prop, seed, tier, shard, nshards, rundir, cfg, extra_env=None, tag=""):
    """Runs one shard to completion, restarting after lost cases.  Returns
    (list of event files, list of lost-case records)."""
    files, lost = [], []
    after = ""
    for attempt in range(cfg.get("max_restarts", 40)):
        out = os.path.join(rundir, f"shard{tag}_{shard}.{attempt}.jsonl")
        err = os.path.join(rundir, f"shard{tag}_{shard}.{attempt}.stderr")
        cmd = [binary, prop, "--seed", str(seed), "--tier", tier, "--shard", str(shard),
               "--nshards", str(nshards), "--out", out]
        if after:
            cmd += ["--after", after]
        env = dict(GOENV, GOMAXPROCS=str(cfg.get("gomaxprocs", 2)), GOTRACEBACK="all")
        if extra_env:
            env.update(extra_env)
        with open(err, "w") as ef:
            try:
                p = subprocess.run(cmd, stdout=ef, stderr=subprocess.STDOUT, env=env, cwd=rundir,
                                   preexec_fn=limits(cfg.get("mem_gb", 12)), timeout=cfg.get("wall_timeout_s", 7200))
                rc = p.returncode
            except subprocess.TimeoutExpired:
                rc = -999
        files.append(out)
        if tag == "race":
            RACE_FILES.add(out)
        evs = read_events(out)
        if rc == 0 and evs and evs[-1].get("ev") == "done":
            return files, lost
        # find the case that was open when the worker died
        open_case = None
        for e in evs:
            if e.get("ev") == "begin":
                open_case = e["case"]
            elif e.get("ev") == "end" and e.get("case") == open_case:
                open_case = None
        kind = "hang" if rc == 97 else ("wall-timeout" if rc == -999 else "crash")
        tail = ""
        try:
            with open(err, errors="replace") as ef:
                tail = ef.read()[-6000:]
        except Exception:
            pass
        lost.append({"case": open_case, "kind": kind, "rc": rc, "stderr_tail": tail, "shard": shard})
        if open_case is None or rc == -999:
            break
        after = open_case
    return files, lost


def load_known(prop):
    paths = [os.path.join(VERIF, "known_findings.jsonl")]
    if os.environ.get("VERIF_KNOWN_EXTRA"):  # builders' candidate lists (testing only; never used by registered commands)
        paths.append(os.path.join(VERIF, os.environ["VERIF_KNOWN_EXTRA"]))
    entries = []
    for path in paths:
        if not os.path.exists(path):
            continue
        for line in open(path):
            line = line.strip()
            if line and not line.startswith("#"):
                e = json.loads(line)
                if e.get("property") == prop:
                    entries.append(e)
    return entries


def validate_evidence(ev):
    try:
        import jsonschema
        schema = json.load(open("/root/.vp/EVIDENCE.schema.json"))
        jsonschema.validate(ev, schema)
        return None
    except FileNotFoundError:
        return None
    except Exception as e:  # noqa
        return str(e)[:500]


def main():
    ap = argparse.ArgumentParser()
    ap.add_argument("prop")
    ap.add_argument("--tier", default=os.environ.get("VERIF_TIER", "quick"))
    ap.add_argument("--seed", type=int, default=int(os.environ.get("VERIF_SEED", "1") or 1))
    ap.add_argument("--replay")
    ap.add_argument("--propose", action="store_true", help="print candidate known-finding entries for unlisted signatures")
    ap.add_argument("--shards", type=int, default=0)
    a = ap.parse_args()
    prop = a.prop
    if prop not in PROPS:
        print(f"unknown property {prop}")
        return 2
    cfg = PROPS[prop]
    t0 = time.time()
    # thorough tier: cheap checks run a multiple of their case list (same PRNG addressing, longer lists)

    replay = None
    if a.replay:
        replay = json.load(open(a.replay))
        a.seed, a.tier = replay["seed"], replay["tier"]
    qk, tk, sre = CASE_SCALE.get(prop, (1, 1, ""))
    GOENV["VERIF_CASES_SCALE"] = str(tk if a.tier == "thorough" else qk)
    GOENV["VERIF_CASES_SCALE_RE"] = sre

    binary, err = build(prop, race=False)
    if binary is None:
        print(err)
        print(f"INCONCLUSIVE property={prop} reason=harness-does-not-build-against-current-tree")
        return 2
    race_binary = None
    if cfg.get("race"):
        race_binary, err = build(prop, race=True)
        if race_binary is None:
            print(err)
            print(f"INCONCLUSIVE property={prop} reason=race-build-failed")
            return 2

    rundir = os.path.join(BUILD, "run", prop)
    shutil.rmtree(rundir, ignore_errors=True)
    os.makedirs(rundir, exist_ok=True)

    files, lost = [], []
    if replay:
        out = os.path.join(rundir, "replay.jsonl")
        b = race_binary if replay.get("race") and race_binary else binary
        env = dict(GOENV, GOTRACEBACK="all")
        if replay.get("race") and race_binary:
            env.update({"GORACE": f"halt_on_error=0 exitcode=0 log_path={rundir}/race", "VERIF_RACE": "1",
                        "GOMAXPROCS": str(cfg.get("race_gomaxprocs", 4))})
        env.update(replay.get("env", {}))
        with open(os.path.join(rundir, "replay.stderr"), "w") as ef:
            p = subprocess.run([b, prop, "--seed", str(a.seed), "--tier", a.tier, "--only", replay["case"], "--out", out],
                               stdout=ef, stderr=subprocess.STDOUT, env=env, cwd=rundir)
        files = [out]
        evs = read_events(out)
        if not (evs and evs[-1].get("ev") == "done"):
            lost.append({"case": replay["case"], "kind": "hang" if p.returncode == 97 else "crash", "rc": p.returncode,
                         "stderr_tail": open(os.path.join(rundir, "replay.stderr"), errors="replace").read()[-6000:], "shard": 0})
    else:
        nshards = a.shards or cfg.get("shards", NCPU)
        jobs = []
        with ThreadPoolExecutor(max_workers=cfg.get("parallel", NCPU)) as ex:
            for s in range(nshards):
                jobs.append(ex.submit(run_shard, binary, prop, a.seed, a.tier, s, nshards, rundir, cfg))
            if race_binary:
                rs = cfg.get("race_shards", 8)
                renv = {"GORACE": f"halt_on_error=0 exitcode=0 log_path={rundir}/race", "VERIF_RACE": "1",
                        "GOMAXPROCS": str(cfg.get("race_gomaxprocs", 4))}
                for s in range(rs):
                    jobs.append(ex.submit(run_shard, race_binary, prop, a.seed, a.tier, s, rs, rundir, cfg, renv, "race"))
            for j in jobs:
                f, l = j.result()
                files += f
                lost += l

    # ---- aggregate -------------------------------------------------------
    cov, nts, samples, viols = {}, set(), [], []
    evaluations, skipped, done_files = 0, {}, 0
    sets = {}
    for f in files:
        for e in read_events(f):
            ev = e.get("ev")
            if ev == "end":
                evaluations += 1
                if "nt" in e:
                    nts.add(e["nt"])
                if "skip" in e:
                    k = e["skip"].split(":")[0]
                    skipped[k] = skipped.get(k, 0) + 1
            elif ev == "viol":
                if f in RACE_FILES:
                    e["race"] = True
                viols.append(e)
            elif ev == "cov":
                for k, v in e["k"].items():
                    if k.startswith("set:"):
                        _, name, val = k.split(":", 2)
                        sets.setdefault(name, set()).add(val)
                    elif k.startswith("max:"):
                        cov[k] = max(cov.get(k, 0), v)
                    else:
                        cov[k] = cov.get(k, 0) + v
            elif ev == "sample":
                if sum(1 for s in samples if s.get("monitor") == e.get("monitor")) < 2:
                    samples.append({"monitor": e.get("monitor"), "case": e.get("case"), "case_written_out": e.get("v")})
            elif ev == "done":
                done_files += 1
    for name, vals in sets.items():
        cov[f"distinct {name}"] = len(vals)

    # offline oracle
    oracle_note = None
    if cfg.get("oracle"):
        mod = importlib.import_module("oracles." + cfg["oracle"])
        ores = mod.judge(files, {"tier": a.tier, "seed": a.seed, "ncpu": NCPU, "rundir": rundir})
        viols += ores.get("violations", [])
        for k, v in ores.get("coverage", {}).items():
            cov[k] = cov.get(k, 0) + v
        nts |= set(ores.get("nontrivial", []))
        samples += ores.get("samples", [])[:4]
        oracle_note = ores.get("note")
        if ores.get("evaluations"):
            cov["oracle evaluations"] = ores["evaluations"]

    # race detector reports
    race_reports = []
    if cfg.get("race") and not replay or (replay and replay.get("race")):
        for rf in glob.glob(os.path.join(rundir, "race.*")):
            txt = open(rf, errors="replace").read()
            for block in txt.split("==================")[1:]:
                if "WARNING: DATA RACE" in block:
                    race_reports.append(block)
        mod = importlib.import_module("oracles.c17_race")
        try:
            viols += mod.classify(race_reports, cov, rundir)
        except TypeError:
            viols += mod.classify(race_reports, cov)

    # lost cases (hang / crash)
    inconclusive = []
    for l in lost:
        mon = (l["case"] or "?").split("#")[0]
        if l["case"] is None:
            inconclusive.append(f"worker-lost-without-open-case(shard {l['shard']}, rc {l['rc']})")
            continue
        if l["kind"] == "hang":
            frame = "?"
            m = re.findall(r"github\.com/pbenner/autodiff[\w/\.\(\)\*]*", l["stderr_tail"])
            if cfg.get("hang_is_violation"):
                # running goroutine inside the library: first autodiff frame of the dump
                full = ""
                try:
                    full = l["stderr_tail"]
                except Exception:
                    pass
                frame = m[0] if m else "?"
                viols.append({"case": l["case"], "sig": f"{prop}|{mon}|no-return|cpu-watchdog", "detail": "no return within CPU budget; " + frame,
                              "witness": {"stderr_tail": full[-1500:]}})
            else:
                skipped["no-return(cpu-watchdog)"] = skipped.get("no-return(cpu-watchdog)", 0) + 1
        elif l["kind"] == "crash":
            # fatal runtime error (stack overflow, concurrent map write, OOM): the process died inside a case
            reason = "fatal"
            mm = re.search(r"(fatal error: [^\n]*|panic: [^\n]*|runtime: [^\n]*|signal: [^\n]*)", l["stderr_tail"])
            if mm:
                reason = mm.group(1)[:80]
            viols.append({"case": l["case"], "sig": f"{prop}|{mon}|process-died|{reason}", "detail": l["stderr_tail"][-1500:], "witness": None})
        else:
            inconclusive.append(f"wall-timeout(shard {l['shard']})")

    # ---- known findings ---------------------------------------------------
    known = load_known(prop)
    open_sigs = {e["signature"]: e for e in known if e.get("status") == "open"}
    by_sig = {}
    for v in viols:
        by_sig.setdefault(v["sig"], []).append(v)
    unlisted = {s: vs for s, vs in by_sig.items() if s not in open_sigs}
    listed = {s: vs for s, vs in by_sig.items() if s in open_sigs}

    RPL = os.path.join(VERIF, "replays") if REPO == "/repo" else os.path.join(BUILD, "replays-scratch")
    os.makedirs(os.path.join(RPL, prop), exist_ok=True)
    lines = []
    for sig, e in sorted(open_sigs.items()):
        n = len(listed.get(sig, []))
        lines.append(f"KNOWN-FINDING: property={prop} {sig} -- {e.get('what','')} (observed {n}x in this run)")
    replay_paths = []
    for sig, vs in sorted(unlisted.items()):
        v = vs[0]
        h = hashlib.sha1(sig.encode()).hexdigest()[:10]
        path = os.path.join(RPL, prop, f"{h}.json")
        json.dump({"property": prop, "seed": a.seed, "tier": a.tier, "case": v["case"], "signature": sig,
                   "detail": v.get("detail"), "witness": v.get("witness"), "occurrences_in_run": len(vs),
                   "race": bool(v.get("race")), "replay_cmd": f"./check {prop} --replay {path}"},
                  open(path, "w"), indent=1, default=str)
        replay_paths.append(path)
        lines.append(f"VIOLATION property={prop} replay={path}")
        lines.append(f"  signature: {sig}")
        lines.append("  " + (v.get("detail") or "").split("\n")[0][:300])

    if a.propose:
        for sig, vs in sorted(unlisted.items()):
            print(json.dumps({"status": "open", "property": prop, "signature": sig, "witness": vs[0]["case"],
                              "what": (vs[0].get("detail") or "").split("\n")[0][:200]}))

    # ---- minimum coverage (inconclusive if a promised cell is empty) -----
    if not replay:
        for key, minimum in cfg.get("min_cov", {}).items():
            # The stored minima are 60 % of the smallest count seen at a handful of seeds.  Counts of rare cells
            # fluctuate like Poisson counts from seed to seed (a cell with 45 expected hits shows 23 about once in
            # a thousand seeds), so the threshold is lowered by three standard deviations of the expected count
            # (minimum/0.6); that changes nothing for large cells (10000 -> 9613) and keeps the guard against empty
            # or collapsed cells (27 -> 7, 100 -> 61).
            slack = 3.0 * math.sqrt(max(minimum, 0) / 0.6)
            eff = minimum if minimum <= 1 else max(1, int(minimum - slack))
            if cov.get(key, 0) < eff:
                inconclusive.append(f"coverage:{key}={cov.get(key,0)}<{eff} (configured {minimum})")
        if evaluations < cfg.get("min_evaluations", 1):
            inconclusive.append(f"evaluations={evaluations}")

    # ---- evidence ----------------------------------------------------------
    if not replay:
        if not samples:
            samples = [{"note": "no sample emitted"}]
        evd = {
            "property_id": prop, "tier": a.tier, "seed": a.seed, "level": "exploration",
            "coverage": {
                "evaluations": evaluations, "distinct_nontrivial": len(nts), "rule": cfg["rule"],
                "samples": samples[:12],
                "skipped_not_judged": skipped,
                "monitor_counters": dict(sorted(cov.items())),
                "violations_by_signature": {s: len(v) for s, v in sorted(by_sig.items())},
                "known_findings_open": sorted(open_sigs),
                "worker_shards_completed": done_files, "lost_cases": [{k: l[k] for k in ("case", "kind", "rc")} for l in lost],
                "tolerances": cfg.get("tolerances", "exact comparison"),
                "case_list_multiple": {"k": int(GOENV.get("VERIF_CASES_SCALE", "1")), "monitors": GOENV.get("VERIF_CASES_SCALE_RE", "")},
                "exhaustive": False,
            },
            "assumptions": cfg.get("assumptions", []) + ([oracle_note] if oracle_note else []),
            "wall_s": round(time.time() - t0, 2),
            "violations": len(unlisted),
        }
        if inconclusive:
            evd["coverage"]["inconclusive"] = inconclusive
        bad = validate_evidence(evd)
        if bad:
            log("[evidence] schema validation failed:", bad)
        evdir = os.path.join(VERIF, "evidence") if REPO == "/repo" else os.path.join(BUILD, "evidence-scratch")
        os.makedirs(evdir, exist_ok=True)
        json.dump(evd, open(os.path.join(evdir, prop + ".json"), "w"), indent=1, default=str)

    for l in lines:
        print(l)
    wall = time.time() - t0
    summary = f"property={prop} tier={a.tier} seed={a.seed} cases={evaluations} nontrivial={len(nts)} violations={len(viols)} unlisted_signatures={len(unlisted)} known={len(listed)} wall={wall:.1f}s"
    if unlisted:
        print("RESULT violated " + summary)
        return 1
    if inconclusive:
        print(f"INCONCLUSIVE property={prop} reason={';'.join(inconclusive)[:400]}")
        print("RESULT inconclusive " + summary)
        return 2
    print("RESULT held " + summary)
    return 0


if __name__ == "__main__":
    sys.exit(main())
