package c09

import (
	"fmt"
	"math"
	"reflect"
	"strings"

	ad "github.com/pbenner/autodiff"

	"verifharness/internal/fw"
	"verifharness/internal/gen"
	"verifharness/internal/prng"
	"verifharness/internal/snap"
)

/* operand model
 * -------------------------------------------------------------------------- */

// Arg is the explicit description of a receiver or operand; Build constructs a
// fresh library object from it (as often as needed, so that the generic and
// the concrete variant work on deep, independent copies).
type Arg struct {
	Kind  string // scalar | vector | matrix | int | float
	T     gen.ElemType
	J     gen.Jet        // scalar
	V     gen.VectorSpec // vector
	M     gen.MatrixSpec // matrix
	View  string         // plain | slice | T | sliceT  (containers)
	I     int
	F     float64
	Const bool // scalar: build the constant type (only for interface-typed parameters)
	// Alias: the operand is not built on its own but derived from the receiver
	// object of the same invocation: recv (the receiver itself), view (a
	// full-range Slice of it), T (its transpose view), elem (its element I).
	// The spec fields then describe the receiver's content (for the classes).
	Alias string
}

// Derive returns the aliased operand for the built receiver.
func (a Arg) Derive(recv reflect.Value) reflect.Value {
	switch obj := recv.Interface().(type) {
	case ad.Matrix:
		rows, cols := obj.Dims()
		switch a.Alias {
		case "recv":
			return recv
		case "view":
			return reflect.ValueOf(obj.Slice(0, rows, 0, cols))
		case "T":
			return reflect.ValueOf(obj.T())
		case "elem":
			return reflect.ValueOf(obj.At(a.I/cols, a.I%cols))
		}
	case ad.Vector:
		switch a.Alias {
		case "recv":
			return recv
		case "view":
			return reflect.ValueOf(obj.Slice(0, obj.Dim()))
		case "elem":
			return reflect.ValueOf(obj.At(a.I))
		}
	default:
		if a.Alias == "recv" {
			return recv
		}
	}
	panic("c09: cannot derive alias " + a.Alias)
}

// Built is a constructed operand: the object handed to the method and, for
// views, the parent whose storage it shares.
type Built struct {
	V      reflect.Value
	Parent any
}

const border = 3 // value of the parent cells outside a view

func (a Arg) Build() Built {
	switch a.Kind {
	case "int":
		return Built{V: reflect.ValueOf(a.I)}
	case "float":
		return Built{V: reflect.ValueOf(a.F)}
	case "scalar":
		if a.Const {
			return Built{V: reflect.ValueOf(constScalar(a.T, a.J.V))}
		}
		s := ad.NewScalar(a.T.T, 0)
		gen.SetScalar(s, a.J)
		return Built{V: reflect.ValueOf(s)}
	case "vector":
		n := len(a.V.Vals)
		if a.View == "slice" {
			p := gen.NullVector(a.T, a.V.Storage, n+2)
			p.At(0).SetFloat64(border)
			p.At(n + 1).SetFloat64(border)
			v := p.Slice(1, n+1)
			fillVector(v, a.V)
			return Built{V: reflect.ValueOf(v), Parent: p}
		}
		return Built{V: reflect.ValueOf(a.V.Build())}
	case "matrix":
		R, C := a.M.R, a.M.C
		switch a.View {
		case "T":
			p := gen.NullMatrix(a.T, a.M.Storage, C, R)
			m := p.T()
			fillMatrix(m, a.M)
			return Built{V: reflect.ValueOf(m), Parent: p}
		case "slice", "sliceT":
			pr, pc := R+2, C+2
			if a.View == "sliceT" {
				pr, pc = C+2, R+2
			}
			p := gen.NullMatrix(a.T, a.M.Storage, pr, pc)
			for i := 0; i < pr; i++ {
				for j := 0; j < pc; j++ {
					if i == 0 || j == 0 || i == pr-1 || j == pc-1 {
						p.At(i, j).SetFloat64(border)
					}
				}
			}
			m := p.Slice(1, pr-1, 1, pc-1)
			if a.View == "sliceT" {
				m = m.T()
			}
			fillMatrix(m, a.M)
			return Built{V: reflect.ValueOf(m), Parent: p}
		}
		return Built{V: reflect.ValueOf(a.M.Build())}
	}
	panic("bad arg kind " + a.Kind)
}

func constScalar(t gen.ElemType, v float64) ad.ConstScalar {
	switch t.Name {
	case "Int8":
		return ad.ConstInt8(v)
	case "Int16":
		return ad.ConstInt16(v)
	case "Int32":
		return ad.ConstInt32(v)
	case "Int64":
		return ad.ConstInt64(v)
	case "Int":
		return ad.ConstInt(v)
	case "Float32":
		return ad.ConstFloat32(v)
	}
	return ad.ConstFloat64(v)
}

func fillVector(v ad.Vector, s gen.VectorSpec) {
	for i, j := range s.Vals {
		if j.V != 0 || j.D != nil {
			gen.SetScalar(v.At(i), j)
		} else if s.Stored[i] && s.Storage == gen.Sparse {
			v.At(i)
		}
	}
}

func fillMatrix(m ad.Matrix, s gen.MatrixSpec) {
	for i := 0; i < s.R; i++ {
		for k := 0; k < s.C; k++ {
			j := s.Vals[i*s.C+k]
			if j.V != 0 || j.D != nil {
				gen.SetScalar(m.At(i, k), j)
			} else if s.Stored[i*s.C+k] && s.Storage == gen.Sparse {
				m.At(i, k)
			}
		}
	}
}

func (a Arg) String() string {
	if a.Alias != "" {
		if a.Alias == "elem" {
			return fmt.Sprintf("<element %d of the receiver>", a.I)
		}
		return "<" + map[string]string{"recv": "the receiver itself", "view": "full-range Slice of the receiver", "T": "T() of the receiver"}[a.Alias] + ">"
	}
	switch a.Kind {
	case "int":
		return fmt.Sprint(a.I)
	case "float":
		return fmt.Sprint(a.F)
	case "scalar":
		c := ""
		if a.Const {
			c = "const "
		}
		return fmt.Sprintf("%s%s%s", c, a.T.Name, jetString(a.J))
	case "vector":
		return fmt.Sprintf("%s/%s/view=%s%s", a.T.Name, a.V.Storage, a.View, jetsString(a.V.Vals, a.V.Stored))
	case "matrix":
		return fmt.Sprintf("%s/%s/%dx%d/view=%s%s", a.T.Name, a.M.Storage, a.M.R, a.M.C, a.View, jetsString(a.M.Vals, a.M.Stored))
	}
	return "?"
}

func jetString(j gen.Jet) string {
	if j.D == nil {
		return fmt.Sprintf("(%v)", j.V)
	}
	if j.H == nil {
		return fmt.Sprintf("(%v d%v)", j.V, j.D)
	}
	return fmt.Sprintf("(%v d%v h%v)", j.V, j.D, j.H)
}

func jetsString(js []gen.Jet, stored []bool) string {
	var b strings.Builder
	b.WriteByte('[')
	for i, j := range js {
		if i > 0 {
			b.WriteByte(' ')
		}
		switch {
		case j.V == 0 && j.D == nil && stored != nil && stored[i]:
			b.WriteString("0s")
		case j.V == 0 && j.D == nil:
			b.WriteString("_")
		case j.D == nil:
			fmt.Fprintf(&b, "%v", j.V)
		default:
			b.WriteString(jetString(j))
		}
	}
	b.WriteByte(']')
	return b.String()
}

/* element states (input classes)
 * -------------------------------------------------------------------------- */

func jetHasDeriv(j gen.Jet) bool {
	for _, d := range j.D {
		if d != 0 {
			return true
		}
	}
	for _, h := range j.H {
		if h != 0 {
			return true
		}
	}
	return false
}

// elemState: 0 (zero without derivatives: an absent sparse entry, a stored
// zero — which the sparse iterators delete on the fly — or a dense zero) |
// zd (zero value with a non-zero derivative) | nz.
func elemState(j gen.Jet) string {
	switch {
	case j.V != 0:
		return "nz"
	case jetHasDeriv(j):
		return "zd"
	}
	return "0"
}

func sign(v float64) string {
	switch {
	case math.IsNaN(v):
		return "NaN"
	case math.IsInf(v, 1):
		return "+Inf"
	case math.IsInf(v, -1):
		return "-Inf"
	case v == 0 && math.Signbit(v):
		return "-0"
	case v < 0:
		return "-"
	case v > 0:
		return "+"
	}
	return "0"
}

// container view of an Arg: element list and storage.
func (a Arg) elems() ([]gen.Jet, []bool, string, bool) {
	switch a.Kind {
	case "vector":
		return a.V.Vals, a.V.Stored, a.V.Storage, true
	case "matrix":
		return a.M.Vals, a.M.Stored, a.M.Storage, true
	}
	return nil, nil, "", false
}

func (a Arg) shape() [2]int {
	switch a.Kind {
	case "vector":
		return [2]int{len(a.V.Vals), -1}
	case "matrix":
		return [2]int{a.M.R, a.M.C}
	}
	return [2]int{-1, -1}
}

/* generation
 * -------------------------------------------------------------------------- */

// genCtx carries the per-case choices shared by all operands.
type genCtx struct {
	r     *prng.Rand
	nvar  int
	order int
	unit  bool // directed scalar sets: operands of prescribed sign have magnitude 1
}

func (g *genCtx) jet(t gen.ElemType, v float64) gen.Jet {
	return gen.RandJet(t, g.r, v, g.nvar, g.order)
}

func signedValue(t gen.ElemType, r *prng.Rand, s int) float64 {
	if s == 0 {
		return 0
	}
	v := math.Abs(t.NonZero(r))
	return float64(s) * v
}

func (g *genCtx) scalar(t gen.ElemType, sgn int, useSign bool) Arg {
	v := t.Value(g.r)
	if useSign {
		v = signedValue(t, g.r, sgn)
		if g.unit {
			v = float64(sgn)
		}
	}
	return Arg{Kind: "scalar", T: t, J: g.jet(t, v)}
}

// zd: turn some exact zeros of a real-typed spec into "zero value, non-zero
// derivative" elements.
func (g *genCtx) sprinkleZD(t gen.ElemType, vals []gen.Jet, stored []bool) {
	if !t.IsReal || g.order == 0 || g.nvar == 0 {
		return
	}
	for i := range vals {
		if vals[i].V == 0 && vals[i].D == nil && g.r.Chance(0.15) {
			j := gen.RandJet(t, g.r, 0, g.nvar, g.order)
			j.D[g.r.Intn(g.nvar)] = 1
			vals[i] = j
			stored[i] = true
		}
	}
}

func (g *genCtx) vector(t gen.ElemType, storage, pattern string, n int, divisor bool) Arg {
	s := gen.GenVector(t, storage, pattern, n, g.r, g.nvar, g.order, divisor)
	g.sprinkleZD(t, s.Vals, s.Stored)
	return Arg{Kind: "vector", T: t, V: s, View: "plain"}
}

func (g *genCtx) matrix(t gen.ElemType, storage, pattern string, rows, cols int, divisor bool) Arg {
	s := gen.GenMatrix(t, storage, pattern, rows, cols, g.r, g.nvar, g.order, divisor)
	g.sprinkleZD(t, s.Vals, s.Stored)
	return Arg{Kind: "matrix", T: t, M: s, View: "plain"}
}

/* parameter kinds
 * -------------------------------------------------------------------------- */

var (
	tConstScalar = reflect.TypeOf((*ad.ConstScalar)(nil)).Elem()
	tConstVector = reflect.TypeOf((*ad.ConstVector)(nil)).Elem()
	tConstMatrix = reflect.TypeOf((*ad.ConstMatrix)(nil)).Elem()
	tScalar      = reflect.TypeOf((*ad.Scalar)(nil)).Elem()
	tVector      = reflect.TypeOf((*ad.Vector)(nil)).Elem()
	tMatrix      = reflect.TypeOf((*ad.Matrix)(nil)).Elem()
)

// paramKind: scalar | vector | matrix | int | float | "" (unsupported);
// mutable says whether a constant object may be passed.
func paramKind(t reflect.Type) (kind string, mutable bool) {
	switch t.Kind() {
	case reflect.Int:
		return "int", false
	case reflect.Float64:
		return "float", false
	}
	if e := byType[t]; e != nil {
		switch e.Kind {
		case KScalar:
			return "scalar", true
		case KVector:
			return "vector", true
		case KMatrix:
			return "matrix", true
		}
		return "", false
	}
	if t.Kind() == reflect.Interface {
		switch {
		case t.Implements(tConstMatrix) && tMatrix.Implements(t):
			return "matrix", t.Implements(tMatrix)
		case t.Implements(tConstVector) && tVector.Implements(t):
			return "vector", t.Implements(tVector)
		case t.Implements(tConstScalar) && tScalar.Implements(t):
			return "scalar", t.Implements(tScalar)
		}
		// interfaces wider than Scalar/Vector/Matrix (Magic*)
		switch {
		case t.Implements(tMatrix):
			return "matrix", true
		case t.Implements(tVector):
			return "vector", true
		case t.Implements(tScalar):
			return "scalar", true
		}
	}
	return "", false
}

func paramSupported(t reflect.Type) bool {
	k, _ := paramKind(t)
	return k != ""
}

/* snapshots
 * -------------------------------------------------------------------------- */

// State is the observable state of a scalar, vector or matrix (plus the parent
// of a view), or of a plain Go value.
type State struct {
	Kind   string // scalar | vector | matrix | bool | int | nil | iterator | other
	Absent bool   // scalar: nil interface / nil pointer / nil ptr field (an absent sparse entry)
	S      snap.Elem
	V      snap.Vec
	M      snap.Mat
	PV     *snap.Vec
	PM     *snap.Mat
	B      bool
	I      int64
	Seq    []Step
	SeqErr string
	Desc   string
}

// Step is one position of an iterator walk.
type Step struct {
	Idx    []int64
	Vals   []snap.Elem
	Absent []bool
}

func isNilScalar(v reflect.Value) bool {
	if !v.IsValid() {
		return true
	}
	for v.Kind() == reflect.Interface {
		if v.IsNil() {
			return true
		}
		v = v.Elem()
	}
	if v.Kind() == reflect.Ptr {
		return v.IsNil()
	}
	if v.Kind() == reflect.Struct {
		if f := v.FieldByName("ptr"); f.IsValid() && f.Kind() == reflect.Ptr {
			return f.IsNil()
		}
	}
	return false
}

func unwrap(v reflect.Value) reflect.Value {
	for v.IsValid() && v.Kind() == reflect.Interface && !v.IsNil() {
		v = v.Elem()
	}
	return v
}

// Snapshot reads the observable state of a value through the public read API.
func Snapshot(v reflect.Value, parent any) State {
	if !v.IsValid() {
		return State{Kind: "nil"}
	}
	switch v.Kind() {
	case reflect.Bool:
		return State{Kind: "bool", B: v.Bool()}
	case reflect.Int, reflect.Int64:
		return State{Kind: "int", I: v.Int()}
	}
	if v.Kind() == reflect.Interface && v.IsNil() {
		return State{Kind: "scalar", Absent: true}
	}
	u := unwrap(v)
	t := u.Type()
	var st State
	switch {
	case t.Implements(tConstMatrix):
		if u.Kind() == reflect.Ptr && u.IsNil() {
			return State{Kind: "nil"}
		}
		st = State{Kind: "matrix", M: snap.Matrix(u.Interface().(ad.ConstMatrix))}
	case t.Implements(tConstVector):
		if u.Kind() == reflect.Ptr && u.IsNil() {
			return State{Kind: "nil"}
		}
		st = State{Kind: "vector", V: snap.Vector(u.Interface().(ad.ConstVector))}
	case t.Implements(tConstScalar):
		if isNilScalar(u) {
			return State{Kind: "scalar", Absent: true}
		}
		st = State{Kind: "scalar", S: snap.Scalar(u.Interface().(ad.ConstScalar))}
	default:
		if _, ok := t.MethodByName("Ok"); ok {
			return State{Kind: "iterator"}
		}
		return State{Kind: "other", Desc: t.String()}
	}
	switch p := parent.(type) {
	case ad.ConstMatrix:
		m := snap.Matrix(p)
		st.PM = &m
	case ad.ConstVector:
		w := snap.Vector(p)
		st.PV = &w
	}
	return st
}

/* comparison
 * -------------------------------------------------------------------------- */

func ulpClose(a, b float64, bits int) bool {
	if a == b || (math.IsNaN(a) && math.IsNaN(b)) {
		return true
	}
	if math.IsNaN(a) || math.IsNaN(b) || math.IsInf(a, 0) || math.IsInf(b, 0) {
		return false
	}
	if bits == 32 {
		x, y := float32(a), float32(b)
		return x == y || math.Nextafter32(x, y) == y
	}
	return math.Nextafter(a, b) == b
}

// diffElem compares two scalar states: exact policy; with ulp == true every
// slot may differ by one unit in the last place of the storage type.
func diffElem(a, b snap.Elem, isInt bool, ulp bool, bits int) (string, bool) {
	d := snap.Diff(a, b, isInt)
	if d == "" || !ulp || isInt {
		return d, false
	}
	if !ulpClose(a.F, b.F, bits) {
		return d, false
	}
	n := a.N
	if b.N > n {
		n = b.N
	}
	at := func(e snap.Elem, i int) float64 {
		if i < len(e.D) {
			return e.D[i]
		}
		return 0
	}
	ht := func(e snap.Elem, i, j int) float64 {
		if e.H == nil || i >= e.N || j >= e.N {
			return 0
		}
		return e.H[i*e.N+j]
	}
	for i := 0; i < n; i++ {
		if !ulpClose(at(a, i), at(b, i), bits) {
			return d, false
		}
		for j := 0; j < n; j++ {
			if !ulpClose(ht(a, i, j), ht(b, i, j), bits) {
				return d, false
			}
		}
	}
	return "", true
}

// Difference describes where two states differ.
type Difference struct {
	Msg   string
	Kind  string // value | deriv | hess | element | return | dims | parent | sequence
	Index int    // flattened element index (-1 if not applicable)
	Ulp   bool   // equal only under the 1-ulp allowance
}

func zeroElem() snap.Elem { return snap.Elem{} }

// DiffState compares two states of the same role.
func DiffState(a, b State, isInt, ulp bool, bits int) *Difference {
	if a.Kind != b.Kind {
		// an absent scalar against a present zero is equal
		return &Difference{Msg: fmt.Sprintf("kind %s vs %s", a.Kind, b.Kind), Kind: "return", Index: -1}
	}
	var within bool
	switch a.Kind {
	case "bool":
		if a.B != b.B {
			return &Difference{Msg: fmt.Sprintf("%v vs %v", a.B, b.B), Kind: "return", Index: -1}
		}
	case "int":
		if a.I != b.I {
			return &Difference{Msg: fmt.Sprintf("%v vs %v", a.I, b.I), Kind: "return", Index: -1}
		}
	case "scalar":
		ea, eb := a.S, b.S
		if a.Absent {
			ea = zeroElem()
		}
		if b.Absent {
			eb = zeroElem()
		}
		d, w := diffElem(ea, eb, isInt, ulp, bits)
		if d != "" {
			return &Difference{Msg: d, Kind: snap.Kind(d), Index: -1}
		}
		within = within || w
	case "vector":
		if a.V.Dim != b.V.Dim {
			return &Difference{Msg: fmt.Sprintf("dim %d vs %d", a.V.Dim, b.V.Dim), Kind: "dims", Index: -1}
		}
		for i := range a.V.E {
			d, w := diffElem(a.V.E[i], b.V.E[i], isInt, ulp, bits)
			if d != "" {
				return &Difference{Msg: fmt.Sprintf("[%d] %s", i, d), Kind: snap.Kind(d), Index: i}
			}
			within = within || w
		}
	case "matrix":
		if a.M.R != b.M.R || a.M.C != b.M.C {
			return &Difference{Msg: fmt.Sprintf("dims %dx%d vs %dx%d", a.M.R, a.M.C, b.M.R, b.M.C), Kind: "dims", Index: -1}
		}
		for i := range a.M.E {
			d, w := diffElem(a.M.E[i], b.M.E[i], isInt, ulp, bits)
			if d != "" {
				return &Difference{Msg: fmt.Sprintf("[%d,%d] %s", i/a.M.C, i%a.M.C, d), Kind: snap.Kind(d), Index: i}
			}
			within = within || w
		}
	case "iterator":
		a.Seq, b.Seq = dropNullSteps(a.Seq), dropNullSteps(b.Seq)
		if a.SeqErr != b.SeqErr {
			return &Difference{Msg: fmt.Sprintf("walk: %q vs %q", a.SeqErr, b.SeqErr), Kind: "sequence", Index: -1}
		}
		n := len(a.Seq)
		if len(b.Seq) < n {
			n = len(b.Seq)
		}
		for k := 0; k < n; k++ {
			sa, sb := a.Seq[k], b.Seq[k]
			if fmt.Sprint(sa.Idx) != fmt.Sprint(sb.Idx) {
				return &Difference{Msg: fmt.Sprintf("step %d: index %v vs %v", k, sa.Idx, sb.Idx), Kind: "sequence", Index: -1}
			}
			if len(sa.Vals) != len(sb.Vals) {
				return &Difference{Msg: fmt.Sprintf("step %d: %d vs %d values", k, len(sa.Vals), len(sb.Vals)), Kind: "sequence", Index: -1}
			}
			for q := range sa.Vals {
				ea, eb := sa.Vals[q], sb.Vals[q]
				if sa.Absent[q] {
					ea = zeroElem()
				}
				if sb.Absent[q] {
					eb = zeroElem()
				}
				if d := snap.Diff(ea, eb, isInt); d != "" {
					return &Difference{Msg: fmt.Sprintf("step %d (index %v) value %d: %s", k, sa.Idx, q, d), Kind: "sequence", Index: -1}
				}
			}
		}
		if len(a.Seq) != len(b.Seq) {
			idx := func(s []Step) []string {
				var r []string
				for _, x := range s {
					r = append(r, fmt.Sprint(x.Idx))
				}
				return r
			}
			return &Difference{Msg: fmt.Sprintf("visits %d vs %d positions: %v vs %v", len(a.Seq), len(b.Seq), idx(a.Seq), idx(b.Seq)), Kind: "sequence", Index: -1}
		}
	}
	if a.PV != nil && b.PV != nil {
		if d := snap.DiffVec(*a.PV, *b.PV, isInt); d != "" {
			return &Difference{Msg: "parent of view: " + d, Kind: "parent", Index: -1}
		}
	}
	if a.PM != nil && b.PM != nil {
		if d := snap.DiffMat(*a.PM, *b.PM, isInt); d != "" {
			return &Difference{Msg: "parent of view: " + d, Kind: "parent", Index: -1}
		}
	}
	if within {
		return &Difference{Ulp: true, Index: -1}
	}
	return nil
}

/* iterator walk
 * -------------------------------------------------------------------------- */

func nullElem(e snap.Elem) bool {
	if e.F != 0 {
		return false
	}
	for _, d := range e.D {
		if d != 0 {
			return false
		}
	}
	for _, h := range e.H {
		if h != 0 {
			return false
		}
	}
	return true
}

// dropNullSteps removes the positions at which every element is absent or
// null (zero value, zero derivatives): whether a joint or sparse iterator
// visits such a position is a matter of representation (stored zeros), not a
// result.
func dropNullSteps(seq []Step) []Step {
	var r []Step
	for _, st := range seq {
		null := true
		for q := range st.Vals {
			if !st.Absent[q] && !nullElem(st.Vals[q]) {
				null = false
			}
		}
		if !null {
			r = append(r, st)
		}
	}
	return r
}

// Walk drives an iterator with Ok/Index/<getter>/Next for at most max steps.
func Walk(it reflect.Value, getter string, max int) ([]Step, string) {
	it = unwrap(it)
	if !it.IsValid() || (it.Kind() == reflect.Ptr && it.IsNil()) {
		return nil, "nil iterator"
	}
	mOk, mIdx, mNext, mGet := it.MethodByName("Ok"), it.MethodByName("Index"), it.MethodByName("Next"), it.MethodByName(getter)
	if !mOk.IsValid() || !mIdx.IsValid() || !mNext.IsValid() || !mGet.IsValid() {
		return nil, "not an iterator (" + getter + ")"
	}
	var seq []Step
	errs := ""
	p := fw.Call(func() {
		for k := 0; ; k++ {
			if !mOk.Call(nil)[0].Bool() {
				return
			}
			if k >= max {
				errs = "no end"
				return
			}
			st := Step{}
			for _, x := range mIdx.Call(nil) {
				st.Idx = append(st.Idx, x.Int())
			}
			for _, x := range mGet.Call(nil) {
				if isNilScalar(x) {
					st.Vals = append(st.Vals, snap.Elem{})
					st.Absent = append(st.Absent, true)
					continue
				}
				u := unwrap(x)
				cs, ok := u.Interface().(ad.ConstScalar)
				if !ok {
					errs = "getter returned " + u.Type().String()
					return
				}
				st.Vals = append(st.Vals, snap.Scalar(cs))
				st.Absent = append(st.Absent, false)
			}
			seq = append(seq, st)
			mNext.Call(nil)
		}
	})
	if p != nil {
		errs = "panic: " + p.Msg
	}
	return seq, errs
}
