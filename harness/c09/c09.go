package c09

import (
	"fmt"
	"math"
	"reflect"
	"sort"
	"strings"

	ad "github.com/pbenner/autodiff"

	"verifharness/internal/fw"
	"verifharness/internal/gen"
	"verifharness/internal/prng"
)

// Operations whose result is a transcendental function of the operands: the
// two variants may legitimately round differently, compared to 1 ulp of the
// storage type (DESIGN.md 2.4).  Everything else is compared exactly.
var transcendental = map[string]bool{
	"Exp": true, "Log": true, "Log1p": true, "Pow": true, "Sqrt": true, "LogAdd": true, "LogSub": true,
}

/* plans
 * -------------------------------------------------------------------------- */

// Plan is one explicit invocation: the pair, the receiver and the operands.
type Plan struct {
	P    *Pair
	Recv Arg
	Args []Arg
	// Special: operands (or container elements) were replaced by -Inf, +Inf,
	// NaN or -0 (monitors special / special.random)
	Special bool
}

func (pl Plan) witness() map[string]any {
	as := make([]string, len(pl.Args))
	for i, a := range pl.Args {
		as[i] = a.String()
	}
	return map[string]any{"type": pl.P.E.Name, "generic": pl.P.Generic, "concrete": pl.P.Concrete,
		"generic_sig": pl.P.G.Type.String(), "concrete_sig": pl.P.C.Type.String(),
		"receiver": pl.Recv.String(), "operands": as}
}

var patterns = gen.ZeroPatterns

// directed zero-pattern triples (receiver, first operand, second operand)
var patternTriples = [][3]string{
	{"all-zero", "none", "none"},                              // absent receiver entries, full operands
	{"all-zero", "interleaved", "none"},                       //
	{"none", "all-zero", "none"},                              // absent operand entries under a full receiver
	{"none", "none", "all-zero"},                              //
	{"explicit-stored", "explicit-stored", "explicit-stored"}, // stored zeros everywhere
	{"interleaved", "interleaved", "interleaved"},             // common absent positions
	{"leading", "trailing", "none"},                           //
	{"trailing", "leading", "random"},                         //
	{"random", "explicit-stored", "none"},                     //
	{"none", "none", "none"},                                  //
	{"explicit-stored", "none", "explicit-stored"},
	{"all-zero", "all-zero", "all-zero"},
}

func isDivName(n string) bool { return strings.Contains(strings.ToLower(n), "div") }

// makePlan draws the receiver and operands of one invocation of p.  d >= 0
// selects the d-th directed combination (signs for scalars, zero-pattern
// triples for containers); d < 0 is fully random.
func makePlan(p *Pair, r *prng.Rand, d int) Plan { return makePlanOpt(p, r, d, false) }

// makePlanOpt: with square set, all dimensions are chosen so that any operand
// may be replaced by (a view of) the receiver: square matrices, inner
// dimensions equal to the receiver's, no deliberate mismatches.
func makePlanOpt(p *Pair, r *prng.Rand, d int, square bool) Plan {
	e := p.E
	T := e.Elem
	g := &genCtx{r: r}
	if T.IsReal {
		g.nvar = 1 + r.Intn(2)
		g.order = r.Intn(3)
		if d >= 0 && e.Kind == KScalar {
			g.order = d % 3
			d /= 3
		}
	}
	pl := Plan{P: p}
	nIn := p.C.Type.NumIn()
	// kinds of the parameters
	kinds := make([]string, nIn)
	nScalar := 0
	for i := 1; i < nIn; i++ {
		kinds[i], _ = paramKind(p.C.Type.In(i))
		if kinds[i] == "scalar" {
			nScalar++
		}
	}
	pats := [3]string{r.Pick(patterns), r.Pick(patterns), r.Pick(patterns)}
	if d >= 0 && e.Kind != KScalar {
		pats = patternTriples[d%len(patternTriples)]
	}
	div := isDivName(p.Generic)
	mismatch := d < 0 && r.Chance(0.03) && !square

	var n, R, C int
	switch e.Kind {
	case KScalar:
		sg, use := 0, false
		if d >= 0 {
			sg, use = d%3-1, true
			d /= 3
			// with a zero directed receiver the signed operands are exactly
			// -1 / 0 / +1 (exponent and factor 1 are branch points of their own)
			g.unit = sg == 0
		}
		pl.Recv = g.scalar(T, sg, use)
		if T.IsReal && r.Chance(0.3) {
			// a receiver without derivative storage (constant) that acquires it from the operands
			pl.Recv.J = gen.Jet{V: pl.Recv.J.V}
		}
	case KVector:
		n = r.Range(1, 5)
		if d < 0 && r.Chance(0.04) && !square {
			n = 0
		}
		pl.Recv = g.vector(T, e.Storage, pats[0], n, false)
		if r.Chance(0.2) {
			pl.Recv.View = "slice"
		}
	case KMatrix:
		R, C = r.Range(1, 4), r.Range(1, 4)
		if r.Chance(0.5) || p.Generic == "Diag" || square {
			C = R
		}
		pl.Recv = g.matrix(T, e.Storage, pats[0], R, C, false)
		switch x := r.Intn(20); {
		case x < 3:
			pl.Recv.View = "slice"
		case x < 6 && e.Storage == gen.Dense:
			pl.Recv.View = "T"
		case x < 8 && e.Storage == gen.Dense:
			pl.Recv.View = "sliceT"
		}
	default:
		panic("receiver kind " + e.Kind)
	}

	// operands
	k := r.Range(1, 4) // inner dimension of products
	if square {
		k = n + R // one of them is zero
	}
	nCont := 0
	var ints []int
	for i := 1; i < nIn; i++ {
		ct := p.C.Type.In(i)
		et := T
		st := e.Storage
		if st == "" {
			st = gen.Dense
		}
		if re := byType[ct]; re != nil {
			et = re.Elem
			if re.Storage != "" {
				st = re.Storage
			}
		} else if kinds[i] == "vector" || kinds[i] == "matrix" {
			// interface-typed container parameter: any storage
			st = []string{gen.Dense, gen.Sparse}[r.Intn(2)]
		}
		last := i == nIn-1
		switch kinds[i] {
		case "int":
			ints = append(ints, i)
			pl.Args = append(pl.Args, Arg{Kind: "int"})
		case "float":
			pl.Args = append(pl.Args, Arg{Kind: "float", F: r.PickF([]float64{0, 1e-8, 0.125, 1, 100})})
		case "scalar":
			var a Arg
			switch {
			case e.Kind == KScalar && d >= 0:
				a = g.scalar(et, d%3-1, true)
				d /= 3
				if T.IsReal { // directed: operand with / without derivative storage
					if d%2 == 1 {
						a.J = gen.Jet{V: a.J.V}
					}
					d /= 2
				}
			case div && last:
				switch x := r.Intn(25); {
				case x == 0 || (d >= 0 && d%4 == 3): // zero divisor (directed: every fourth set)
					a = g.scalar(et, 0, true)
				case x == 1:
					a = g.scalar(et, 0, false)
				default:
					a = Arg{Kind: "scalar", T: et, J: g.jet(et, et.Divisor(r))}
				}
			default:
				a = g.scalar(et, 0, false)
			}
			if e.Kind == KScalar && T.IsReal && d < 0 && r.Chance(0.25) {
				a.J = gen.Jet{V: a.J.V} // constant operand
			}
			pl.Args = append(pl.Args, a)
		case "vector":
			pat := pats[(1+nCont)%3]
			nCont++
			dim := n
			switch {
			case e.Kind == KVector && p.Generic == "MdotV":
				dim = k
			case e.Kind == KVector && p.Generic == "VdotM":
				dim = k
			case e.Kind == KVector && p.Generic == "AppendVector":
				dim = r.Range(0, 4)
			case e.Kind == KMatrix && p.Generic == "Outer":
				dim = []int{R, C}[(nCont-1)%2]
			case e.Kind == KMatrix:
				dim = R
			case e.Kind == KScalar:
				dim = r.Range(1, 4)
			}
			if mismatch && r.Bool() {
				dim++
			}
			a := g.vector(et, st, pat, dim, div && last && r.Chance(0.85))
			if p.Generic == "Equals" && e.Kind == KVector && r.Bool() {
				a = copyForEquals(pl.Recv, st, r)
			}
			pl.Args = append(pl.Args, a)
		case "matrix":
			pat := pats[(1+nCont)%3]
			nCont++
			rr, cc := R, C
			switch {
			case e.Kind == KVector && p.Generic == "MdotV":
				rr, cc = n, k
			case e.Kind == KVector && p.Generic == "VdotM":
				rr, cc = k, n
			case e.Kind == KMatrix && p.Generic == "MdotM":
				if nCont == 1 {
					rr, cc = R, k
				} else {
					rr, cc = k, C
				}
			case e.Kind == KScalar:
				rr, cc = 2, 2
			}
			if mismatch && r.Bool() {
				rr++
			}
			a := g.matrix(et, st, pat, rr, cc, div && last && r.Chance(0.85))
			if p.Generic == "Equals" && e.Kind == KMatrix && r.Bool() {
				a = copyForEquals(pl.Recv, st, r)
			}
			if r.Chance(0.15) {
				// sparse T() builds a new matrix and panics on slices (a C10 matter): plain slices only
				a.View = "slice"
				if st == gen.Dense {
					a.View = []string{"slice", "T", "sliceT"}[r.Intn(3)]
				}
			}
			pl.Args = append(pl.Args, a)
		default:
			panic("unsupported parameter " + ct.String())
		}
	}
	// integer parameters: positions / bounds
	if len(ints) > 0 {
		vals := make([]int, len(ints))
		pick := func(hi int) int { // [0,hi)
			if hi <= 0 {
				return 0
			}
			return r.Intn(hi)
		}
		oob := d < 0 && r.Chance(0.03) && !square
		switch {
		case e.Kind == KVector && p.Generic == "Slice" && len(ints) == 2:
			a, b := r.Range(0, n), r.Range(0, n)
			if a > b {
				a, b = b, a
			}
			vals[0], vals[1] = a, b
		case e.Kind == KVector && p.Generic == "IteratorFrom":
			vals[0] = r.Range(0, n)
		case e.Kind == KVector:
			for q := range vals {
				vals[q] = pick(n)
				if oob {
					vals[q] = n
				}
			}
		case e.Kind == KMatrix && p.Generic == "Slice" && len(ints) == 4:
			a, b := r.Range(0, R), r.Range(0, R)
			if a > b {
				a, b = b, a
			}
			c, dd := r.Range(0, C), r.Range(0, C)
			if c > dd {
				c, dd = dd, c
			}
			vals[0], vals[1], vals[2], vals[3] = a, b, c, dd
		case e.Kind == KMatrix && p.Generic == "Col":
			vals[0] = pick(C)
			if oob {
				vals[0] = C
			}
		case e.Kind == KMatrix:
			for q := range vals {
				if q%2 == 0 {
					vals[q] = pick(R)
					if oob {
						vals[q] = R
					}
				} else {
					vals[q] = pick(C)
				}
			}
		default:
			for q := range vals {
				vals[q] = r.Intn(3)
			}
		}
		for q, i := range ints {
			pl.Args[i-1].I = vals[q]
		}
	}
	return pl
}

// copyForEquals returns an operand equal in value to the receiver, possibly
// with a different representation of its zeros (stored vs absent).
func copyForEquals(recv Arg, storage string, r *prng.Rand) Arg {
	a := recv
	a.View = "plain"
	switch recv.Kind {
	case "vector":
		a.V.Storage = storage
		a.V.Vals = append([]gen.Jet(nil), recv.V.Vals...)
		a.V.Stored = append([]bool(nil), recv.V.Stored...)
		for i := range a.V.Stored {
			if a.V.Vals[i].V == 0 && a.V.Vals[i].D == nil && r.Chance(0.3) {
				a.V.Stored[i] = !a.V.Stored[i]
			}
		}
		if r.Chance(0.3) && len(a.V.Vals) > 0 {
			i := r.Intn(len(a.V.Vals))
			a.V.Vals[i] = gen.Jet{V: a.V.Vals[i].V + 1}
		}
	case "matrix":
		a.M.Storage = storage
		a.M.Vals = append([]gen.Jet(nil), recv.M.Vals...)
		a.M.Stored = append([]bool(nil), recv.M.Stored...)
		for i := range a.M.Stored {
			if a.M.Vals[i].V == 0 && a.M.Vals[i].D == nil && r.Chance(0.3) {
				a.M.Stored[i] = !a.M.Stored[i]
			}
		}
		if r.Chance(0.3) && len(a.M.Vals) > 0 {
			i := r.Intn(len(a.M.Vals))
			a.M.Vals[i] = gen.Jet{V: a.M.Vals[i].V + 1}
		}
	}
	return a
}

/* execution
 * -------------------------------------------------------------------------- */

type result struct {
	panic *fw.Panic
	recv  Built
	rets  []reflect.Value
	rs    State   // receiver after the call
	ret   []State // return values
}

func getterOf(it reflect.Value, concrete bool) string {
	if concrete {
		return "GET"
	}
	it = unwrap(it)
	if it.IsValid() {
		if it.MethodByName("Get").IsValid() {
			return "Get"
		}
	}
	return "GetConst"
}

func run(pl Plan, concrete bool) (res result) {
	name := pl.P.Generic
	if concrete {
		name = pl.P.Concrete
	}
	res.recv = pl.Recv.Build()
	args := make([]reflect.Value, len(pl.Args))
	for i, a := range pl.Args {
		if a.Alias != "" {
			if p := fw.Call(func() { args[i] = a.Derive(res.recv.V) }); p != nil {
				p.Msg = "building the aliased operand: " + p.Msg
				res.panic = p
				return
			}
			continue
		}
		args[i] = a.Build().V
	}
	m := res.recv.V.MethodByName(name)
	res.panic = fw.Call(func() { res.rets = m.Call(args) })
	if res.panic != nil {
		return
	}
	if p := fw.Call(func() {
		res.rs = Snapshot(res.recv.V, res.recv.Parent)
		for _, rv := range res.rets {
			st := Snapshot(rv, nil)
			if st.Kind == "iterator" {
				max := 4*(len(pl.Recv.V.Vals)+len(pl.Recv.M.Vals)) + 16
				st.Seq, st.SeqErr = Walk(rv, getterOf(rv, concrete), max)
			}
			res.ret = append(res.ret, st)
		}
	}); p != nil {
		p.Msg = "reading the result: " + p.Msg
		res.panic = p
	}
	return
}

// writeThrough writes a sentinel through the returned scalar / vector /
// matrix and re-reads the receiver: a returned view must alias the receiver
// in both variants or in neither.
func writeThrough(res *result) (State, bool) {
	done := false
	p := fw.Call(func() {
		for _, rv := range res.rets {
			if !rv.IsValid() || isNilScalar(rv) {
				continue
			}
			switch x := unwrap(rv).Interface().(type) {
			case ad.Matrix:
				if r, c := x.Dims(); r > 0 && c > 0 {
					x.At(r-1, c-1).SetFloat64(5)
					done = true
				}
			case ad.Vector:
				if n := x.Dim(); n > 0 {
					x.At(n - 1).SetFloat64(5)
					done = true
				}
			case ad.Scalar:
				x.SetFloat64(5)
				done = true
			}
		}
	})
	if p != nil || !done {
		return State{}, false
	}
	var st State
	if p := fw.Call(func() { st = Snapshot(res.recv.V, res.recv.Parent) }); p != nil {
		return State{}, false
	}
	return st, true
}

// Finding is one observed divergence between the two variants.
type Finding struct {
	Role string // recv | ret0 | ret1 | write-through | panic
	D    *Difference
	Msg  string
}

// compare runs both variants and reports the first divergence (nil if none),
// whether the invocation was judged (both returned) and whether equality
// needed the 1-ulp allowance.
func compare(pl Plan) (f *Finding, judged bool, ulpUsed bool, bothPanic bool) {
	g := run(pl, false)
	c := run(pl, true)
	switch {
	case g.panic != nil && c.panic != nil:
		return nil, false, false, true
	case g.panic != nil:
		return &Finding{Role: "panic-generic-only", Msg: fmt.Sprintf("%s panics (%s at %s), %s returns", pl.P.Generic, g.panic.Msg, g.panic.Frame, pl.P.Concrete)}, true, false, false
	case c.panic != nil:
		return &Finding{Role: "panic-concrete-only", Msg: fmt.Sprintf("%s panics (%s at %s), %s returns", pl.P.Concrete, c.panic.Msg, c.panic.Frame, pl.P.Generic)}, true, false, false
	}
	T := pl.P.E.Elem
	ulp := pl.P.E.Kind == KScalar && transcendental[pl.P.Generic]
	if d := DiffState(g.rs, c.rs, T.IsInt, ulp, T.Bits); d != nil {
		if d.Msg != "" {
			return &Finding{Role: "recv", D: d, Msg: fmt.Sprintf("receiver after %s vs after %s: %s", pl.P.Generic, pl.P.Concrete, d.Msg)}, true, false, false
		}
		ulpUsed = true
	}
	for i := range g.ret {
		if i >= len(c.ret) {
			break
		}
		a, b := g.ret[i], c.ret[i]
		if a.Kind == "other" || b.Kind == "other" {
			continue
		}
		if d := DiffState(a, b, T.IsInt, ulp, T.Bits); d != nil {
			if d.Msg != "" {
				return &Finding{Role: fmt.Sprintf("ret%d", i), D: d, Msg: fmt.Sprintf("return value %d of %s vs %s: %s", i, pl.P.Generic, pl.P.Concrete, d.Msg)}, true, false, false
			}
			ulpUsed = true
		}
	}
	// aliasing of returned objects
	sg, okg := writeThrough(&g)
	sc, okc := writeThrough(&c)
	if okg && okc {
		if d := DiffState(sg, sc, T.IsInt, false, T.Bits); d != nil && d.Msg != "" {
			return &Finding{Role: "write-through", D: d, Msg: fmt.Sprintf("receiver after writing through the value returned by %s vs %s: %s", pl.P.Generic, pl.P.Concrete, d.Msg)}, true, ulpUsed, false
		}
	}
	return nil, true, ulpUsed, false
}

/* input classes and signatures
 * -------------------------------------------------------------------------- */

// containersOf lists receiver and container operands that share the
// receiver's shape (element-wise participants).
func (pl Plan) participants() (names []string, args []Arg) {
	names = append(names, "r")
	args = append(args, pl.Recv)
	sh := pl.Recv.shape()
	letter := 'a'
	for _, a := range pl.Args {
		if a.Kind == "int" || a.Kind == "float" {
			continue
		}
		if a.Kind == pl.Recv.Kind && (a.Kind == "vector" || (a.Kind == "matrix" && a.shape() == sh)) {
			names = append(names, string(letter))
			args = append(args, a)
		}
		letter++
	}
	return
}

// allZeroVisited: is there a position <= idx (idx < 0: anywhere) at which
// every element-wise participant has value zero while at least one of them
// makes a joint iterator visit the position (a dense participant, or a sparse
// entry with zero value and non-zero derivative; plain stored zeros of sparse
// vectors are deleted by the iterators)?  At such a position the generic joint
// iterators report Ok() == false.
func allZeroVisited(args []Arg, idx int) bool {
	if len(args) == 0 {
		return false
	}
	if _, _, _, ok := args[0].elems(); !ok {
		return false
	}
	n := 0
	for _, a := range args {
		if vals, _, _, _ := a.elems(); len(vals) > n {
			n = len(vals)
		}
	}
	if idx >= 0 && idx < n {
		n = idx + 1
	}
	for i := 0; i < n; i++ {
		allZero, visited := true, false
		for _, a := range args {
			vals, _, storage, _ := a.elems()
			if i >= len(vals) {
				continue
			}
			if vals[i].V != 0 {
				allZero = false
				break
			}
			if storage == gen.Dense || elemState(vals[i]) == "zd" {
				visited = true
			}
		}
		if allZero && visited {
			return true
		}
	}
	return false
}

// oneSided: a position where exactly one element-wise participant is
// non-zero.
func oneSided(args []Arg) bool {
	if len(args) < 2 {
		return false
	}
	vals0, _, _, ok := args[0].elems()
	if !ok {
		return false
	}
	for i := range vals0 {
		n := 0
		for _, a := range args {
			vals, _, _, _ := a.elems()
			if i < len(vals) && elemState(vals[i]) != "0" {
				n++
			}
		}
		if n == 1 {
			return true
		}
	}
	return false
}

// classOf computes the input class of a failing invocation.
func classOf(pl Plan, f *Finding) string {
	var parts []string
	letter := 'a'
	zeroDiv := false
	for i, a := range pl.Args {
		switch a.Kind {
		case "int", "float":
			continue
		case "scalar":
			if pl.P.E.Kind == KScalar {
				parts = append(parts, string(letter)+sign(a.J.V))
			} else if a.J.V == 0 {
				if isDivName(pl.P.Generic) && i == len(pl.Args)-1 {
					zeroDiv = true
				} else {
					parts = append(parts, string(letter)+"0")
				}
			}
		}
		letter++
	}
	if pl.P.E.Kind == KScalar {
		return strings.Join(parts, ",")
	}
	if zeroDiv {
		return "zero-divisor"
	}
	if f.D != nil && f.D.Kind == "parent" {
		return "view"
	}
	names, args := pl.participants()
	idx := -1
	if f.D != nil {
		idx = f.D.Index
	}
	if (f.Role == "recv" || f.Role == "write-through") && idx >= 0 {
		if allZeroVisited(args, idx) {
			return "allzero-position"
		} else {
			var abs []string
			for q, a := range args {
				vals, _, _, _ := a.elems()
				if idx < len(vals) && elemState(vals[idx]) == "0" {
					abs = append(abs, names[q])
				}
			}
			if len(abs) > 0 {
				parts = append(parts, "zero:"+strings.Join(abs, "+"))
			}
		}
	} else if allZeroVisited(args, -1) {
		return "allzero-position"
	} else if oneSided(args) {
		parts = append(parts, "onesided-position")
	}
	if len(parts) == 0 {
		return "plain"
	}
	return strings.Join(parts, ",")
}

func kindOf(pl Plan, f *Finding) string {
	if f.D == nil {
		return f.Role
	}
	k := f.D.Kind
	if k == "hess" {
		k = "deriv"
	}
	if pl.P.E.Kind != KScalar && (k == "value" || k == "deriv" || k == "hess") {
		k = "element"
	}
	return f.Role + "-" + k
}

// signature of a finding; for scalar receivers the prior receiver state is
// part of the class only if the divergence disappears with a zero receiver.
func signature(pl Plan, f *Finding) string {
	if pl.Special {
		return fmt.Sprintf("C09|pair|%s.%s/%s|%s|%s", pl.P.E.Name, pl.P.Generic, pl.P.Concrete, specialClass(pl), kindOf(pl, f))
	}
	if al := pl.aliasLabel(); al != "" {
		// the alias pattern is the input class of an aliased invocation
		return fmt.Sprintf("C09|pair|%s.%s/%s|alias:%s|%s", pl.P.E.Name, pl.P.Generic, pl.P.Concrete, al, kindOf(pl, f))
	}
	class := classOf(pl, f)
	if pl.P.E.Kind == KScalar {
		q := pl
		q.Recv = Arg{Kind: "scalar", T: pl.Recv.T, J: gen.Jet{}}
		if f2, _, _, _ := compare(q); f2 == nil || kindOf(q, f2) != kindOf(pl, f) {
			class += ",r" + sign(pl.Recv.J.V)
		}
	}
	return fmt.Sprintf("C09|pair|%s.%s/%s|%s|%s", pl.P.E.Name, pl.P.Generic, pl.P.Concrete, class, kindOf(pl, f))
}

/* aliased invocations
 * -------------------------------------------------------------------------- */

// aliasLabel: "a=recv+b=T" for the aliased operands of a plan ("" if none).
func (pl Plan) aliasLabel() string {
	var parts []string
	letter := 'a'
	for _, a := range pl.Args {
		if a.Kind == "int" || a.Kind == "float" {
			continue
		}
		if a.Alias != "" {
			parts = append(parts, string(letter)+"="+a.Alias)
		}
		letter++
	}
	return strings.Join(parts, "+")
}

// aliasOptions: the ways parameter i (1-based) of the pair can alias the
// receiver: a container parameter of the receiver's own type (or an
// interface-typed container parameter of the receiver's kind) can be the
// receiver, a full-range Slice of it or (matrices) its transpose; a scalar
// parameter of the element type of a container receiver can be one of its
// elements; a scalar parameter of a scalar receiver's type can be the receiver.
func aliasOptions(p *Pair, i int) []string {
	ct := p.C.Type.In(i)
	kind, _ := paramKind(ct)
	e := p.E
	switch {
	case e.Kind == KScalar && ct == e.Type:
		return []string{"recv"}
	case e.Kind == KVector && kind == "vector" && (ct == e.Type || ct.Kind() == reflect.Interface):
		return []string{"recv", "view"}
	case e.Kind == KMatrix && kind == "matrix" && (ct == e.Type || ct.Kind() == reflect.Interface):
		return []string{"recv", "view", "T"}
	case (e.Kind == KVector || e.Kind == KMatrix) && kind == "scalar":
		if re := byType[ct]; re != nil && re.Kind == KScalar && re.Elem.Name == e.Elem.Name {
			return []string{"elem"}
		}
	}
	return nil
}

// aliasCombos enumerates the assignments of alias options (or "" =
// independent operand) to the parameters, at least one of them aliased.
func aliasCombos(p *Pair) [][]string {
	n := p.C.Type.NumIn() - 1
	res := [][]string{{}}
	for i := 1; i <= n; i++ {
		opts := append([]string{""}, aliasOptions(p, i)...)
		var next [][]string
		for _, c := range res {
			for _, o := range opts {
				next = append(next, append(append([]string(nil), c...), o))
			}
		}
		res = next
	}
	var out [][]string
	for _, c := range res {
		for _, o := range c {
			if o != "" {
				out = append(out, c)
				break
			}
		}
	}
	return out
}

// makeAliasPlan: a random plan whose operands alias the receiver as given.
func makeAliasPlan(p *Pair, r *prng.Rand, combo []string) Plan {
	pl := makePlanOpt(p, r, -1, true)
	for i, al := range combo {
		if al == "" {
			continue
		}
		a := pl.Recv
		a.View = "plain"
		a.Alias = al
		switch al {
		case "T":
			a.M.Vals, a.M.Stored = transposeSpec(pl.Recv.M)
		case "elem":
			n := len(pl.Recv.V.Vals) + len(pl.Recv.M.Vals)
			idx := 0
			if n > 0 {
				idx = r.Intn(n)
			}
			j := gen.Jet{}
			if pl.Recv.Kind == "vector" && n > 0 {
				j = pl.Recv.V.Vals[idx]
			} else if n > 0 {
				j = pl.Recv.M.Vals[idx]
			}
			a = Arg{Kind: "scalar", T: pl.Recv.T, J: j, I: idx, Alias: "elem"}
		}
		pl.Args[i] = a
	}
	return pl
}

func transposeSpec(m gen.MatrixSpec) ([]gen.Jet, []bool) {
	v := make([]gen.Jet, len(m.Vals))
	s := make([]bool, len(m.Vals))
	for i := 0; i < m.R; i++ {
		for j := 0; j < m.C; j++ {
			v[j*m.R+i] = m.Vals[i*m.C+j]
			s[j*m.R+i] = m.Stored[i*m.C+j]
		}
	}
	return v, s
}

/* non-finite operands and negative zero
 * -------------------------------------------------------------------------- */

var specials = []float64{math.Inf(-1), math.Inf(1), math.NaN(), math.Copysign(0, -1)}

func isSpecial(v float64) bool {
	return math.IsNaN(v) || math.IsInf(v, 0) || (v == 0 && math.Signbit(v))
}

// specialClass: scalar receivers — the exact label of every scalar operand
// (and of a special receiver); containers — the set of special values present
// among operands and receiver, plus the labels of special scalar operands.
func specialClass(pl Plan) string {
	var parts []string
	if pl.P.E.Kind == KScalar {
		if isSpecial(pl.Recv.J.V) {
			parts = append(parts, "r"+sign(pl.Recv.J.V))
		}
		letter := 'a'
		for _, a := range pl.Args {
			if a.Kind == "int" || a.Kind == "float" {
				continue
			}
			if a.Kind == "scalar" {
				parts = append(parts, string(letter)+sign(a.J.V))
			}
			letter++
		}
		return "nonfinite:" + strings.Join(parts, ",")
	}
	// containers: one class — which special value sits where is in the witness
	return "nonfinite"
}

// scalarParams: indices (into Args) of the scalar operands.
func scalarParams(pl Plan) []int {
	var r []int
	for i, a := range pl.Args {
		if a.Kind == "scalar" {
			r = append(r, i)
		}
	}
	return r
}

// makeSpecialPlan: a random plan with special values.  For scalar receivers
// combo assigns to every scalar operand an index into specials (or -1 =
// finite); for containers (combo nil) elements and scalar operands are
// replaced at random, at least one of them.
func makeSpecialPlan(p *Pair, r *prng.Rand, combo []int) Plan {
	pl := makePlan(p, r, -1)
	pl.Special = true
	if p.E.Kind == KScalar {
		for q, i := range scalarParams(pl) {
			if q < len(combo) && combo[q] >= 0 {
				pl.Args[i].J.V = specials[combo[q]]
			}
		}
		if r.Chance(0.2) {
			pl.Recv.J.V = specials[r.Intn(len(specials))]
		}
		return pl
	}
	n := 0
	sprinkle := func(js []gen.Jet, prob float64) {
		for i := range js {
			if r.Chance(prob) {
				js[i].V = specials[r.Intn(3)] // -0 cannot be stored through the element builders: scalars only
				n++
			}
		}
	}
	for try := 0; try < 8 && n == 0; try++ {
		for i := range pl.Args {
			a := &pl.Args[i]
			switch a.Kind {
			case "scalar":
				if r.Chance(0.5) {
					a.J.V = specials[r.Intn(len(specials))]
					n++
				}
			case "vector":
				a.V.Vals = append([]gen.Jet(nil), a.V.Vals...)
				sprinkle(a.V.Vals, 0.25)
			case "matrix":
				a.M.Vals = append([]gen.Jet(nil), a.M.Vals...)
				sprinkle(a.M.Vals, 0.2)
			}
		}
		if r.Chance(0.3) {
			switch pl.Recv.Kind {
			case "vector":
				pl.Recv.V.Vals = append([]gen.Jet(nil), pl.Recv.V.Vals...)
				sprinkle(pl.Recv.V.Vals, 0.25)
			case "matrix":
				pl.Recv.M.Vals = append([]gen.Jet(nil), pl.Recv.M.Vals...)
				sprinkle(pl.Recv.M.Vals, 0.2)
			}
		}
	}
	return pl
}

// specialCombos: every assignment of {finite, -Inf, +Inf, NaN, -0} to k scalar
// operands with at least one special value.
func specialCombos(k int) [][]int {
	res := [][]int{{}}
	for i := 0; i < k; i++ {
		var next [][]int
		for _, c := range res {
			for v := -1; v < len(specials); v++ {
				next = append(next, append(append([]int(nil), c...), v))
			}
		}
		res = next
	}
	var out [][]int
	for _, c := range res {
		for _, v := range c {
			if v >= 0 {
				out = append(out, c)
				break
			}
		}
	}
	return out
}

/* monitors
 * -------------------------------------------------------------------------- */

// AllPairs discovers the pairs of every registered type (and of the iterator
// types reached through return values) in a deterministic order.
func AllPairs() (all []*Pair, perType map[string]int, entries []*Entry) {
	perType = map[string]int{}
	var iters []*Entry
	seen := map[reflect.Type]bool{}
	for _, e := range Registry {
		ps := Discover(e)
		perType[e.Name] = len(ps)
		entries = append(entries, e)
		all = append(all, ps...)
		for _, it := range IteratorTypes(ps) {
			if !seen[it.Type] {
				seen[it.Type] = true
				iters = append(iters, it)
			}
		}
	}
	sort.Slice(iters, func(i, j int) bool { return iters[i].Name < iters[j].Name })
	for _, it := range iters {
		ps := Discover(it)
		perType[it.Name] = len(ps)
		entries = append(entries, it)
		// iterator pairs (Get/GET) are exercised by the walks over the
		// iterators returned by Iterator/ITERATOR etc., not invoked on their own
		for _, p := range ps {
			p.Exec, p.Why = false, "iterator-walk"
		}
		all = append(all, ps...)
	}
	return
}

func allZeroInputs(pl Plan) bool {
	nz := func(a Arg) bool {
		switch a.Kind {
		case "scalar":
			return a.J.V != 0
		case "vector":
			for _, j := range a.V.Vals {
				if j.V != 0 {
					return true
				}
			}
		case "matrix":
			for _, j := range a.M.Vals {
				if j.V != 0 {
					return true
				}
			}
		}
		return false
	}
	if nz(pl.Recv) {
		return false
	}
	for _, a := range pl.Args {
		if nz(a) {
			return false
		}
	}
	return true
}

// exercise runs one plan, records coverage and violations; returns whether it
// was judged.
func exercise(cs *fw.Case, pl Plan, seen map[string]int) bool {
	p := pl.P
	f, judged, ulpUsed, bothPanic := compare(pl)
	if bothPanic {
		if pl.aliasLabel() != "" {
			cs.Cover("alias-both-rejected:" + p.Generic)
			return false
		}
		cs.Cover("both-panic:" + p.E.Kind)
		return false
	}
	if pl.Special {
		cs.Cover("special-judged:" + p.E.Kind + "/" + p.E.Storage)
	}
	if al := pl.aliasLabel(); al != "" {
		cs.Cover("alias-judged:" + p.E.Kind + "/" + p.E.Storage)
		for _, a := range pl.Args {
			if a.Alias != "" {
				cs.Cover("alias-operand:" + a.Alias)
			}
		}
	}
	cs.Cover("judged:" + p.E.Name)
	cs.Cover("op:" + p.Generic)
	if p.E.Kind != KScalar {
		cs.Cover("recv-view:" + pl.Recv.View)
	}
	if p.E.Elem.IsReal {
		cs.Cover(fmt.Sprintf("real-order:%d", orderOf(pl)))
	}
	if ulpUsed {
		cs.Cover("equal-within-1ulp:" + p.E.Name + "." + p.Generic)
	}
	if f != nil {
		sig := signature(pl, f)
		seen[sig]++
		if seen[sig] == 1 {
			cs.Violation(sig, f.Msg, pl.witness())
		}
	}
	return judged
}

func orderOf(pl Plan) int {
	o := pl.Recv.J.Order()
	for _, a := range pl.Args {
		switch a.Kind {
		case "scalar":
			if a.J.Order() > o {
				o = a.J.Order()
			}
		case "vector":
			for _, j := range a.V.Vals {
				if j.Order() > o {
					o = j.Order()
				}
			}
		case "matrix":
			for _, j := range a.M.Vals {
				if j.Order() > o {
					o = j.Order()
				}
			}
		}
	}
	if pl.Recv.Kind == "vector" {
		for _, j := range pl.Recv.V.Vals {
			if j.Order() > o {
				o = j.Order()
			}
		}
	}
	if pl.Recv.Kind == "matrix" {
		for _, j := range pl.Recv.M.Vals {
			if j.Order() > o {
				o = j.Order()
			}
		}
	}
	return o
}

func Run(c *fw.Ctx) {
	all, perType, entries := AllPairs()
	for _, e := range entries {
		c.CoverMax("max:pairs:"+e.Name, int64(perType[e.Name]))
		c.CoverMax("max:pairs-of-kind:"+e.Kind+"/"+e.Storage, int64(perType[e.Name]))
	}
	var exec []*Pair
	for _, p := range all {
		if p.Exec && (p.E.Kind == KScalar || p.E.Kind == KVector || p.E.Kind == KMatrix) {
			exec = append(exec, p)
		} else {
			why := p.Why
			if why == "" {
				why = "receiver-kind"
			}
			c.Cover("set:not-invoked("+why+"):"+p.Key(), 1)
		}
	}
	c.CoverMax("max:pairs-total", int64(len(all)))
	c.CoverMax("max:pairs-executable", int64(len(exec)))

	// one case per discovered pair: the directed operand sets (every sign
	// combination for scalars, the zero-pattern triples for containers)
	// followed by seeded random sets
	sets := c.N(120, 1500)
	c.Cases("pairs", len(exec), func(cs *fw.Case) {
		p := exec[cs.Index]
		cs.C.Cover("set:pair:"+p.Key(), 1)
		seen := map[string]int{}
		judged := 0
		ndir := len(patternTriples)
		if p.E.Kind == KScalar {
			ndir = 3
			if p.E.Elem.IsReal {
				ndir = 9
			}
			for i := 1; i < p.C.Type.NumIn(); i++ {
				if k, _ := paramKind(p.C.Type.In(i)); k == "scalar" {
					ndir *= 3
					if p.E.Elem.IsReal {
						ndir *= 2
					}
				}
			}
		}
		var first *Plan
		for s := 0; s < sets || s < ndir; s++ {
			d := -1
			if s < ndir {
				d = s
			}
			pl := makePlan(p, cs.R, d)
			if exercise(cs, pl, seen) {
				judged++
				if first == nil && !allZeroInputs(pl) {
					q := pl
					first = &q
				}
			}
		}
		if 2*judged >= sets {
			cs.C.Cover("set:wellexercised:"+p.Key(), 1)
		}
		if first != nil {
			cs.Nontrivial(p.Key(), first.Recv.String(), fmt.Sprint(first.Args))
			cs.Sample(first.witness())
		}
	})

	// the pairs whose operands can alias the receiver, invoked under identical
	// alias patterns (operand = the receiver, a full-range Slice of it, its
	// transpose, one of its elements): equal operands must give equal results
	// whatever the aliasing, and an alias that one variant rejects must be
	// rejected by the other.  One case per pair x alias combination.
	type aliasCase struct {
		p     *Pair
		combo []string
	}
	var acs []aliasCase
	for _, p := range exec {
		for _, cb := range aliasCombos(p) {
			acs = append(acs, aliasCase{p, cb})
		}
	}
	c.CoverMax("max:alias-combinations", int64(len(acs)))
	reps := c.N(40, 400)
	c.Cases("alias", len(acs), func(cs *fw.Case) {
		ac := acs[cs.Index]
		cs.C.Cover("set:alias-pair:"+ac.p.Key(), 1)
		seen := map[string]int{}
		var first *Plan
		for s := 0; s < reps; s++ {
			pl := makeAliasPlan(ac.p, cs.R, ac.combo)
			if exercise(cs, pl, seen) && first == nil && !allZeroInputs(pl) {
				q := pl
				first = &q
			}
		}
		if first != nil {
			cs.Nontrivial(ac.p.Key(), first.aliasLabel(), first.Recv.String(), fmt.Sprint(first.Args))
			cs.Sample(first.witness())
		}
	})
	c.Cases("alias.random", c.N(60000, 1500000), func(cs *fw.Case) {
		if len(acs) == 0 {
			return
		}
		ac := acs[cs.R.Intn(len(acs))]
		pl := makeAliasPlan(ac.p, cs.R, ac.combo)
		if exercise(cs, pl, map[string]int{}) && !allZeroInputs(pl) {
			cs.Nontrivial(ac.p.Key(), pl.aliasLabel(), pl.Recv.String(), fmt.Sprint(pl.Args))
		}
	})

	// non-finite operands (-Inf, +Inf, NaN) and -0: the float-like element types
	// (the integer types have no such values).  Scalar pairs: every assignment
	// of {finite, -Inf, +Inf, NaN, -0} to the scalar operands with at least one
	// special value; container pairs: special elements / scalar operands at
	// random.  One case per pair.
	var sp []*Pair
	for _, p := range exec {
		if !p.E.Elem.IsInt {
			sp = append(sp, p)
		}
	}
	c.CoverMax("max:special-pairs", int64(len(sp)))
	spReps := c.N(3, 30)
	spSets := c.N(80, 800)
	c.Cases("special", len(sp), func(cs *fw.Case) {
		p := sp[cs.Index]
		cs.C.Cover("set:special-pair:"+p.Key(), 1)
		seen := map[string]int{}
		var first *Plan
		run1 := func(pl Plan) {
			if exercise(cs, pl, seen) && first == nil {
				q := pl
				first = &q
			}
		}
		if p.E.Kind == KScalar {
			k := 0
			for i := 1; i < p.C.Type.NumIn(); i++ {
				if kd, _ := paramKind(p.C.Type.In(i)); kd == "scalar" {
					k++
				}
			}
			if k == 0 { // Sign/SIGN: the receiver only
				for rep := 0; rep < 5*spReps; rep++ {
					pl := makeSpecialPlan(p, cs.R, nil)
					pl.Recv.J.V = specials[rep%len(specials)]
					run1(pl)
				}
			}
			for _, cb := range specialCombos(k) {
				for rep := 0; rep < spReps; rep++ {
					run1(makeSpecialPlan(p, cs.R, cb))
				}
			}
		} else {
			for s := 0; s < spSets; s++ {
				run1(makeSpecialPlan(p, cs.R, nil))
			}
		}
		if first != nil {
			cs.Nontrivial(p.Key(), "special", first.Recv.String(), fmt.Sprint(first.Args))
			cs.Sample(first.witness())
		}
	})
	c.Cases("special.random", c.N(60000, 1500000), func(cs *fw.Case) {
		if len(sp) == 0 {
			return
		}
		p := sp[cs.R.Intn(len(sp))]
		var cb []int
		if p.E.Kind == KScalar {
			for i := 0; i < 3; i++ {
				cb = append(cb, cs.R.Intn(len(specials)+1)-1)
			}
		}
		pl := makeSpecialPlan(p, cs.R, cb)
		if exercise(cs, pl, map[string]int{}) {
			cs.Nontrivial(p.Key(), "special", pl.Recv.String(), fmt.Sprint(pl.Args))
		}
	})

	// seeded random invocations, one per case (replayable individually)
	c.Cases("random", c.N(300000, 8000000), func(cs *fw.Case) {
		if len(exec) == 0 {
			return
		}
		p := exec[cs.R.Intn(len(exec))]
		pl := makePlan(p, cs.R, -1)
		if exercise(cs, pl, map[string]int{}) && !allZeroInputs(pl) {
			cs.Nontrivial(p.Key(), pl.Recv.String(), fmt.Sprint(pl.Args))
			if cs.Index < 2 {
				cs.Sample(pl.witness())
			}
		}
	})
}
