package c09

import (
	"reflect"
	"sort"
	"strings"
)

// Pair is a generic method and the concrete (capital-letter) method that the
// naming convention of the README pairs it with.
type Pair struct {
	E        *Entry
	Generic  string
	Concrete string
	G, C     reflect.Method
	// Exec is false when the two signatures cannot be driven with the same
	// operands (different arity / unsupported parameter type); Why says why.
	Exec bool
	Why  string
}

func (p *Pair) Key() string { return p.E.Name + "." + p.Generic + "/" + p.Concrete }

// aliases: concrete methods whose generic counterpart does not follow the
// upper-case rule (DESIGN.md C09).  A concrete name claimed here is not
// matched by the name rule again (AT_ is the non-creating read, i.e. ConstAt,
// not At).
var aliases = map[string]string{
	"AppendVector": "APPEND",
	"ConstAt":      "AT_",
}

func isUpperName(n string) bool {
	return strings.ToUpper(n) == n && strings.ToLower(n) != n
}

// Discover lists the method pairs of a type: a method M and a method whose
// name with underscores removed equals strings.ToUpper(M), plus the aliases.
func Discover(e *Entry) []*Pair {
	t := e.Type
	names := make([]string, 0, t.NumMethod())
	has := map[string]bool{}
	for i := 0; i < t.NumMethod(); i++ {
		names = append(names, t.Method(i).Name)
		has[t.Method(i).Name] = true
	}
	sort.Strings(names)
	claimed := map[string]bool{}
	var res []*Pair
	add := func(g, c string) {
		mg, _ := t.MethodByName(g)
		mc, _ := t.MethodByName(c)
		p := &Pair{E: e, Generic: g, Concrete: c, G: mg, C: mc}
		p.Exec, p.Why = executable(p)
		res = append(res, p)
	}
	for g, c := range aliases {
		if has[g] && has[c] {
			claimed[c] = true
		}
	}
	for _, g := range names {
		if isUpperName(g) {
			continue
		}
		if c, ok := aliases[g]; ok && has[c] {
			add(g, c)
		}
		up := strings.ToUpper(g)
		for _, c := range names {
			if c == g || !isUpperName(c) || claimed[c] {
				continue
			}
			if strings.ReplaceAll(c, "_", "") == up {
				add(g, c)
			}
		}
	}
	sort.Slice(res, func(i, j int) bool { return res[i].Key() < res[j].Key() })
	return res
}

// executable: both methods take the same number of parameters and return the
// same number of results.
func executable(p *Pair) (bool, string) {
	g, c := p.G.Type, p.C.Type
	if g.NumIn() != c.NumIn() {
		return false, "arity"
	}
	if g.NumOut() != c.NumOut() {
		return false, "results"
	}
	if g.IsVariadic() || c.IsVariadic() {
		return false, "variadic"
	}
	for i := 1; i < c.NumIn(); i++ {
		if !paramSupported(c.In(i)) {
			return false, "param:" + c.In(i).String()
		}
		if !paramSupported(g.In(i)) {
			return false, "param:" + g.In(i).String()
		}
	}
	return true, ""
}

// IteratorTypes returns the concrete iterator types reachable through the
// return types of the paired concrete methods of e (derived registry entries).
func IteratorTypes(ps []*Pair) []*Entry {
	seen := map[reflect.Type]bool{}
	var res []*Entry
	for _, p := range ps {
		for i := 0; i < p.C.Type.NumOut(); i++ {
			rt := p.C.Type.Out(i)
			if seen[rt] || byType[rt] != nil {
				continue
			}
			if _, ok := rt.MethodByName("Ok"); !ok {
				continue
			}
			if _, ok := rt.MethodByName("Next"); !ok {
				continue
			}
			seen[rt] = true
			n := rt.String()
			n = strings.TrimPrefix(n, "*")
			n = strings.TrimPrefix(n, "autodiff.")
			res = append(res, &Entry{Name: n, Kind: KIterator, Elem: p.E.Elem, Storage: p.E.Storage, Type: rt})
		}
	}
	sort.Slice(res, func(i, j int) bool { return res[i].Name < res[j].Name })
	return res
}
