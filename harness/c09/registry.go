// Package c09: generic (interface-typed) and concrete (capital-letter) methods
// are interchangeable (DESIGN.md, C09).
//
// Go reflection cannot enumerate the types of a package, so the exported
// concrete types of the root package are listed here by hand (from the
// source: `grep '^type [A-Z]' *.go`); everything else — which methods exist,
// which of them form a generic/concrete pair, what parameters they take — is
// discovered by reflection at run time.
package c09

import (
	"reflect"

	ad "github.com/pbenner/autodiff"

	"verifharness/internal/gen"
)

// Kinds of registered types.
const (
	KScalar      = "scalar"
	KConstScalar = "constscalar"
	KVector      = "vector"
	KConstVector = "constvector"
	KMatrix      = "matrix"
	KIterator    = "iterator" // derived: discovered through return types
)

// Entry is one exported concrete type of the root package.
type Entry struct {
	Name    string
	Kind    string
	Elem    gen.ElemType
	Storage string
	Zero    func() any // an instance, in the form the library's constructors return
	Type    reflect.Type
}

func et(n string) gen.ElemType { return gen.TypeByName(n) }

// Registry: 16 scalar types, 9 dense + 9 sparse vectors, 7 sparse const
// vectors, DenseGradient, 9 dense + 9 sparse matrices.  Iterator types are
// reached through the return types of the methods of these.
var Registry = []*Entry{
	// mutable scalars
	{Name: "Int8", Kind: KScalar, Elem: et("Int8"), Zero: func() any { return ad.NewInt8(0) }},
	{Name: "Int16", Kind: KScalar, Elem: et("Int16"), Zero: func() any { return ad.NewInt16(0) }},
	{Name: "Int32", Kind: KScalar, Elem: et("Int32"), Zero: func() any { return ad.NewInt32(0) }},
	{Name: "Int64", Kind: KScalar, Elem: et("Int64"), Zero: func() any { return ad.NewInt64(0) }},
	{Name: "Int", Kind: KScalar, Elem: et("Int"), Zero: func() any { return ad.NewInt(0) }},
	{Name: "Float32", Kind: KScalar, Elem: et("Float32"), Zero: func() any { return ad.NewFloat32(0) }},
	{Name: "Float64", Kind: KScalar, Elem: et("Float64"), Zero: func() any { return ad.NewFloat64(0) }},
	{Name: "Real32", Kind: KScalar, Elem: et("Real32"), Zero: func() any { return ad.NewReal32(0) }},
	{Name: "Real64", Kind: KScalar, Elem: et("Real64"), Zero: func() any { return ad.NewReal64(0) }},
	// constant scalars
	{Name: "ConstInt8", Kind: KConstScalar, Elem: et("Int8"), Zero: func() any { return ad.ConstInt8(0) }},
	{Name: "ConstInt16", Kind: KConstScalar, Elem: et("Int16"), Zero: func() any { return ad.ConstInt16(0) }},
	{Name: "ConstInt32", Kind: KConstScalar, Elem: et("Int32"), Zero: func() any { return ad.ConstInt32(0) }},
	{Name: "ConstInt64", Kind: KConstScalar, Elem: et("Int64"), Zero: func() any { return ad.ConstInt64(0) }},
	{Name: "ConstInt", Kind: KConstScalar, Elem: et("Int"), Zero: func() any { return ad.ConstInt(0) }},
	{Name: "ConstFloat32", Kind: KConstScalar, Elem: et("Float32"), Zero: func() any { return ad.ConstFloat32(0) }},
	{Name: "ConstFloat64", Kind: KConstScalar, Elem: et("Float64"), Zero: func() any { return ad.ConstFloat64(0) }},
	// dense vectors
	{Name: "DenseInt8Vector", Kind: KVector, Elem: et("Int8"), Storage: gen.Dense, Zero: func() any { return ad.NullDenseInt8Vector(1) }},
	{Name: "DenseInt16Vector", Kind: KVector, Elem: et("Int16"), Storage: gen.Dense, Zero: func() any { return ad.NullDenseInt16Vector(1) }},
	{Name: "DenseInt32Vector", Kind: KVector, Elem: et("Int32"), Storage: gen.Dense, Zero: func() any { return ad.NullDenseInt32Vector(1) }},
	{Name: "DenseInt64Vector", Kind: KVector, Elem: et("Int64"), Storage: gen.Dense, Zero: func() any { return ad.NullDenseInt64Vector(1) }},
	{Name: "DenseIntVector", Kind: KVector, Elem: et("Int"), Storage: gen.Dense, Zero: func() any { return ad.NullDenseIntVector(1) }},
	{Name: "DenseFloat32Vector", Kind: KVector, Elem: et("Float32"), Storage: gen.Dense, Zero: func() any { return ad.NullDenseFloat32Vector(1) }},
	{Name: "DenseFloat64Vector", Kind: KVector, Elem: et("Float64"), Storage: gen.Dense, Zero: func() any { return ad.NullDenseFloat64Vector(1) }},
	{Name: "DenseReal32Vector", Kind: KVector, Elem: et("Real32"), Storage: gen.Dense, Zero: func() any { return ad.NullDenseReal32Vector(1) }},
	{Name: "DenseReal64Vector", Kind: KVector, Elem: et("Real64"), Storage: gen.Dense, Zero: func() any { return ad.NullDenseReal64Vector(1) }},
	// sparse vectors
	{Name: "SparseInt8Vector", Kind: KVector, Elem: et("Int8"), Storage: gen.Sparse, Zero: func() any { return ad.NullSparseInt8Vector(1) }},
	{Name: "SparseInt16Vector", Kind: KVector, Elem: et("Int16"), Storage: gen.Sparse, Zero: func() any { return ad.NullSparseInt16Vector(1) }},
	{Name: "SparseInt32Vector", Kind: KVector, Elem: et("Int32"), Storage: gen.Sparse, Zero: func() any { return ad.NullSparseInt32Vector(1) }},
	{Name: "SparseInt64Vector", Kind: KVector, Elem: et("Int64"), Storage: gen.Sparse, Zero: func() any { return ad.NullSparseInt64Vector(1) }},
	{Name: "SparseIntVector", Kind: KVector, Elem: et("Int"), Storage: gen.Sparse, Zero: func() any { return ad.NullSparseIntVector(1) }},
	{Name: "SparseFloat32Vector", Kind: KVector, Elem: et("Float32"), Storage: gen.Sparse, Zero: func() any { return ad.NullSparseFloat32Vector(1) }},
	{Name: "SparseFloat64Vector", Kind: KVector, Elem: et("Float64"), Storage: gen.Sparse, Zero: func() any { return ad.NullSparseFloat64Vector(1) }},
	{Name: "SparseReal32Vector", Kind: KVector, Elem: et("Real32"), Storage: gen.Sparse, Zero: func() any { return ad.NullSparseReal32Vector(1) }},
	{Name: "SparseReal64Vector", Kind: KVector, Elem: et("Real64"), Storage: gen.Sparse, Zero: func() any { return ad.NullSparseReal64Vector(1) }},
	// constant vectors
	{Name: "SparseConstInt8Vector", Kind: KConstVector, Elem: et("Int8"), Storage: gen.Sparse, Zero: func() any { return ad.NewSparseConstInt8Vector([]int{0}, []int8{1}, 1) }},
	{Name: "SparseConstInt16Vector", Kind: KConstVector, Elem: et("Int16"), Storage: gen.Sparse, Zero: func() any { return ad.NewSparseConstInt16Vector([]int{0}, []int16{1}, 1) }},
	{Name: "SparseConstInt32Vector", Kind: KConstVector, Elem: et("Int32"), Storage: gen.Sparse, Zero: func() any { return ad.NewSparseConstInt32Vector([]int{0}, []int32{1}, 1) }},
	{Name: "SparseConstInt64Vector", Kind: KConstVector, Elem: et("Int64"), Storage: gen.Sparse, Zero: func() any { return ad.NewSparseConstInt64Vector([]int{0}, []int64{1}, 1) }},
	{Name: "SparseConstIntVector", Kind: KConstVector, Elem: et("Int"), Storage: gen.Sparse, Zero: func() any { return ad.NewSparseConstIntVector([]int{0}, []int{1}, 1) }},
	{Name: "SparseConstFloat32Vector", Kind: KConstVector, Elem: et("Float32"), Storage: gen.Sparse, Zero: func() any { return ad.NewSparseConstFloat32Vector([]int{0}, []float32{1}, 1) }},
	{Name: "SparseConstFloat64Vector", Kind: KConstVector, Elem: et("Float64"), Storage: gen.Sparse, Zero: func() any { return ad.NewSparseConstFloat64Vector([]int{0}, []float64{1}, 1) }},
	{Name: "DenseGradient", Kind: KConstVector, Elem: et("Float64"), Storage: gen.Dense, Zero: func() any { return ad.DenseGradient{S: ad.NewReal64(0)} }},
	// dense matrices
	{Name: "DenseInt8Matrix", Kind: KMatrix, Elem: et("Int8"), Storage: gen.Dense, Zero: func() any { return ad.NullDenseInt8Matrix(1, 1) }},
	{Name: "DenseInt16Matrix", Kind: KMatrix, Elem: et("Int16"), Storage: gen.Dense, Zero: func() any { return ad.NullDenseInt16Matrix(1, 1) }},
	{Name: "DenseInt32Matrix", Kind: KMatrix, Elem: et("Int32"), Storage: gen.Dense, Zero: func() any { return ad.NullDenseInt32Matrix(1, 1) }},
	{Name: "DenseInt64Matrix", Kind: KMatrix, Elem: et("Int64"), Storage: gen.Dense, Zero: func() any { return ad.NullDenseInt64Matrix(1, 1) }},
	{Name: "DenseIntMatrix", Kind: KMatrix, Elem: et("Int"), Storage: gen.Dense, Zero: func() any { return ad.NullDenseIntMatrix(1, 1) }},
	{Name: "DenseFloat32Matrix", Kind: KMatrix, Elem: et("Float32"), Storage: gen.Dense, Zero: func() any { return ad.NullDenseFloat32Matrix(1, 1) }},
	{Name: "DenseFloat64Matrix", Kind: KMatrix, Elem: et("Float64"), Storage: gen.Dense, Zero: func() any { return ad.NullDenseFloat64Matrix(1, 1) }},
	{Name: "DenseReal32Matrix", Kind: KMatrix, Elem: et("Real32"), Storage: gen.Dense, Zero: func() any { return ad.NullDenseReal32Matrix(1, 1) }},
	{Name: "DenseReal64Matrix", Kind: KMatrix, Elem: et("Real64"), Storage: gen.Dense, Zero: func() any { return ad.NullDenseReal64Matrix(1, 1) }},
	// sparse matrices
	{Name: "SparseInt8Matrix", Kind: KMatrix, Elem: et("Int8"), Storage: gen.Sparse, Zero: func() any { return ad.NullSparseInt8Matrix(1, 1) }},
	{Name: "SparseInt16Matrix", Kind: KMatrix, Elem: et("Int16"), Storage: gen.Sparse, Zero: func() any { return ad.NullSparseInt16Matrix(1, 1) }},
	{Name: "SparseInt32Matrix", Kind: KMatrix, Elem: et("Int32"), Storage: gen.Sparse, Zero: func() any { return ad.NullSparseInt32Matrix(1, 1) }},
	{Name: "SparseInt64Matrix", Kind: KMatrix, Elem: et("Int64"), Storage: gen.Sparse, Zero: func() any { return ad.NullSparseInt64Matrix(1, 1) }},
	{Name: "SparseIntMatrix", Kind: KMatrix, Elem: et("Int"), Storage: gen.Sparse, Zero: func() any { return ad.NullSparseIntMatrix(1, 1) }},
	{Name: "SparseFloat32Matrix", Kind: KMatrix, Elem: et("Float32"), Storage: gen.Sparse, Zero: func() any { return ad.NullSparseFloat32Matrix(1, 1) }},
	{Name: "SparseFloat64Matrix", Kind: KMatrix, Elem: et("Float64"), Storage: gen.Sparse, Zero: func() any { return ad.NullSparseFloat64Matrix(1, 1) }},
	{Name: "SparseReal32Matrix", Kind: KMatrix, Elem: et("Real32"), Storage: gen.Sparse, Zero: func() any { return ad.NullSparseReal32Matrix(1, 1) }},
	{Name: "SparseReal64Matrix", Kind: KMatrix, Elem: et("Real64"), Storage: gen.Sparse, Zero: func() any { return ad.NullSparseReal64Matrix(1, 1) }},
}

var byType = map[reflect.Type]*Entry{}

func init() {
	for _, e := range Registry {
		e.Type = reflect.TypeOf(e.Zero())
		byType[e.Type] = e
	}
}

// EntryOf returns the registry entry of a concrete type (nil if unknown).
func EntryOf(t reflect.Type) *Entry { return byType[t] }
