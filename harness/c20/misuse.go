// Loud failure (DESIGN.md C20 part b): every public vector / matrix / scalar
// operation is called by reflection with mismatched dimensions, out-of-range
// indices (also outside a view but inside its parent), derivative order 3 and
// operands carrying different numbers of variables.  The call must panic or
// return a non-nil error.
//
// One case = (container kind, storage, operation group, misuse class).  Inside
// the case the monitor loops over the nine element types, the methods of the
// group (generic and concrete-typed spellings) and the receiver variants
// (plain / view / transposed) and folds what it saw, so that one missing guard
// in a template yields one signature:
//
//	C20|silent|Vector.Slice|sparse;methods=all;types=all9;recv=any|index:to>dim|returned
package c20

import (
	"fmt"
	"reflect"
	"sort"
	"strings"

	ad "github.com/pbenner/autodiff"

	"verifharness/internal/fw"
	"verifharness/internal/gen"
	"verifharness/internal/prng"
)

type env struct {
	r       *prng.Rand
	t       gen.ElemType
	storage string
}

func (e *env) val() float64 { return float64(e.r.Range(1, 3)) }

func (e *env) vecS(storage string, n int) ad.Vector {
	if n < 0 {
		n = 0
	}
	v := gen.NullVector(e.t, storage, n)
	for i := 0; i < n; i++ {
		v.At(i).SetFloat64(e.val())
	}
	return v
}

func (e *env) vec(n int) ad.Vector { return e.vecS(e.storage, n) }

func (e *env) matS(storage string, r, c int) ad.Matrix {
	if r < 0 {
		r = 0
	}
	if c < 0 {
		c = 0
	}
	m := gen.NullMatrix(e.t, storage, r, c)
	for i := 0; i < r; i++ {
		for j := 0; j < c; j++ {
			m.At(i, j).SetFloat64(e.val())
		}
	}
	return m
}

func (e *env) mat(r, c int) ad.Matrix { return e.matS(e.storage, r, c) }

func (e *env) scalar() ad.Scalar { return ad.NewScalar(e.t.T, e.val()) }

// other returns the operand storage for generic (interface-typed) parameters.
func (e *env) other(concrete bool) string {
	if concrete || e.r.Chance(0.6) {
		return e.storage
	}
	if e.storage == gen.Dense {
		return gen.Sparse
	}
	return gen.Dense
}

// receiver variants
var vecVariants = []string{"plain", "view"}
var matVariants = []string{"plain", "view", "transposed", "transposed-view"}

// recvVec builds a receiver of dimension n; for "view" it is a slice of a
// parent with one extra element in front and two behind.
//
// The second result snapshots the elements of the parent that lie outside the
// view (nil for a receiver that is not a view): nothing a call on the view is
// allowed to write.
func (e *env) recvVec(variant string, n int) (ad.Vector, func() string) {
	if variant == "plain" {
		return e.vec(n), nil
	}
	p := e.vec(n + 3)
	outside := func() string {
		var s string
		if pn := fw.Call(func() {
			for i := 0; i < p.Dim(); i++ {
				if i < 1 || i > n {
					s += fmt.Sprintf("[%d]=%v ", i, p.ConstAt(i).GetFloat64())
				}
			}
		}); pn != nil {
			return "unreadable:" + pn.Msg
		}
		return s
	}
	return p.Slice(1, n+1), outside
}

func (e *env) recvMat(variant string, r, c int) (ad.Matrix, func() string) {
	outside := func(p ad.Matrix, vr, vc int) func() string {
		return func() string {
			var s string
			if pn := fw.Call(func() {
				pr, pc := p.Dims()
				for i := 0; i < pr; i++ {
					for j := 0; j < pc; j++ {
						if i < 1 || i > vr || j < 1 || j > vc {
							s += fmt.Sprintf("[%d,%d]=%v ", i, j, p.ConstAt(i, j).GetFloat64())
						}
					}
				}
			}); pn != nil {
				return "unreadable:" + pn.Msg
			}
			return s
		}
	}
	switch variant {
	case "plain":
		return e.mat(r, c), nil
	case "view":
		p := e.mat(r+3, c+3)
		return p.Slice(1, r+1, 1, c+1), outside(p, r, c)
	case "transposed":
		return e.mat(c, r).T(), nil
	default:
		p := e.mat(c+3, r+3)
		return p.Slice(1, c+1, 1, r+1).T(), outside(p, c, r)
	}
}

// alt is one concrete misuse call.
type alt struct {
	recv   any
	parent func() string // snapshot of the parent's elements outside the view (nil if the receiver is no view)
	args   []any
	note   string
}

type group struct {
	Kind      string // Vector | Matrix | Scalar
	Name      string
	Methods   []string
	Classes   []string
	Variants  []string
	MagicOnly bool
	// Build returns the calls for a class ("valid" = admissible baseline).
	Build func(e *env, variant, class string, concrete bool) []alt
}

func isConcrete(method string) bool {
	// concrete-typed spellings are all upper case (AT, SLICE, VADDV, MDOTM, ...)
	return method == strings.ToUpper(method)
}

/* ---------------------------------------------------------------------------
 * vector groups
 * ------------------------------------------------------------------------- */

func vecGroups() []group {
	idxMethods := []string{"At", "AT", "ConstAt", "MagicAt", "Int8At", "Int16At", "Int32At", "Int64At", "IntAt", "Float32At", "Float64At", "AT_"}
	var gs []group
	gs = append(gs, group{Kind: "Vector", Name: "At", Methods: idxMethods, Classes: []string{"index<0", "index>=dim"}, Variants: vecVariants,
		Build: func(e *env, variant, class string, concrete bool) []alt {
			n := e.r.Range(2, 5)
			mk := func(i int) alt {
				v, p := e.recvVec(variant, n)
				return alt{v, p, []any{i}, fmt.Sprintf("dim=%d index=%d", n, i)}
			}
			switch class {
			case "valid":
				return []alt{mk(e.r.Intn(n))}
			case "index<0":
				return []alt{mk(-1)}
			default:
				return []alt{mk(n), mk(n + 1)} // n / n+1 lie inside the parent of a view
			}
		}})
	gs = append(gs, group{Kind: "Vector", Name: "Slice", Methods: []string{"Slice", "SLICE", "ConstSlice", "MagicSlice"},
		Classes: []string{"index:from<0", "index:to>dim", "index:from>to"}, Variants: vecVariants,
		Build: func(e *env, variant, class string, concrete bool) []alt {
			n := e.r.Range(3, 6)
			mk := func(i, j int) alt {
				v, p := e.recvVec(variant, n)
				return alt{v, p, []any{i, j}, fmt.Sprintf("dim=%d slice(%d,%d)", n, i, j)}
			}
			switch class {
			case "valid":
				return []alt{mk(1, n-1)}
			case "index:from<0":
				return []alt{mk(-1, 2)}
			case "index:to>dim":
				return []alt{mk(0, n+1), mk(1, n+2)}
			default:
				return []alt{mk(2, 1)}
			}
		}})
	gs = append(gs, group{Kind: "Vector", Name: "Swap", Methods: []string{"Swap"}, Classes: []string{"index<0", "index>=dim"}, Variants: vecVariants,
		Build: func(e *env, variant, class string, concrete bool) []alt {
			n := e.r.Range(2, 5)
			mk := func(i, j int) alt {
				v, p := e.recvVec(variant, n)
				return alt{v, p, []any{i, j}, fmt.Sprintf("dim=%d swap(%d,%d)", n, i, j)}
			}
			switch class {
			case "valid":
				return []alt{mk(0, n-1)}
			case "index<0":
				return []alt{mk(-1, 0)}
			default:
				return []alt{mk(0, n), mk(n+1, 1)}
			}
		}})
	gs = append(gs, group{Kind: "Vector", Name: "Set", Methods: []string{"Set", "SET"}, Classes: []string{"dim-mismatch", "degenerate-operand"}, Variants: vecVariants,
		Build: func(e *env, variant, class string, concrete bool) []alt {
			n := e.r.Range(2, 5)
			mk := func(k int) alt {
				v, p := e.recvVec(variant, n)
				return alt{v, p, []any{e.vecS(e.other(concrete), k)}, fmt.Sprintf("receiver dim=%d argument dim=%d", n, k)}
			}
			if class == "valid" {
				return []alt{mk(n)}
			}
			if class == "degenerate-operand" {
				// one operand of dimension 0 / 1 against a receiver of another size
				return []alt{mk(0), mk(1)}
			}
			return []alt{mk(n + 1), mk(n - 1)}
		}})
	vv := func(name string, methods []string) group {
		return group{Kind: "Vector", Name: name, Methods: methods, Classes: []string{"a-dim-mismatch", "b-dim-mismatch", "receiver-dim-mismatch", "degenerate-operand"}, Variants: vecVariants,
			Build: func(e *env, variant, class string, concrete bool) []alt {
				n := e.r.Range(2, 5)
				mk := func(nr, na, nb int) alt {
					v, p := e.recvVec(variant, nr)
					st := e.other(concrete)
					return alt{v, p, []any{e.vecS(st, na), e.vecS(st, nb)}, fmt.Sprintf("receiver dim=%d a dim=%d b dim=%d", nr, na, nb)}
				}
				switch class {
				case "valid":
					return []alt{mk(n, n, n)}
				case "a-dim-mismatch":
					return []alt{mk(n, n+1, n), mk(n, n-1, n)}
				case "b-dim-mismatch":
					return []alt{mk(n, n, n+1), mk(n, n, n-1)}
				case "degenerate-operand":
					return []alt{mk(n, 0, n), mk(n, n, 0), mk(0, n, n), mk(n, 0, 0), mk(0, 0, n), mk(n, 1, n), mk(1, n, n)}
				default:
					return []alt{mk(n+1, n, n), mk(n-1, n, n)}
				}
			}}
	}
	gs = append(gs, vv("VaddV", []string{"VaddV", "VADDV"}), vv("VsubV", []string{"VsubV", "VSUBV"}), vv("VmulV", []string{"VmulV", "VMULV"}), vv("VdivV", []string{"VdivV", "VDIVV"}))
	vs := func(name string, methods []string) group {
		return group{Kind: "Vector", Name: name, Methods: methods, Classes: []string{"a-dim-mismatch", "degenerate-operand"}, Variants: vecVariants,
			Build: func(e *env, variant, class string, concrete bool) []alt {
				n := e.r.Range(2, 5)
				mk := func(na int) alt {
					v, p := e.recvVec(variant, n)
					return alt{v, p, []any{e.vecS(e.other(concrete), na), e.scalar()}, fmt.Sprintf("receiver dim=%d a dim=%d", n, na)}
				}
				if class == "valid" {
					return []alt{mk(n)}
				}
				if class == "degenerate-operand" {
					v0, p0 := e.recvVec(variant, 0)
					return []alt{mk(0), mk(1), {v0, p0, []any{e.vecS(e.other(concrete), n), e.scalar()}, fmt.Sprintf("receiver dim=0 a dim=%d", n)}}
				}
				return []alt{mk(n + 1), mk(n - 1)}
			}}
	}
	gs = append(gs, vs("VaddS", []string{"VaddS", "VADDS"}), vs("VsubS", []string{"VsubS", "VSUBS"}), vs("VmulS", []string{"VmulS", "VMULS"}), vs("VdivS", []string{"VdivS", "VDIVS"}))
	gs = append(gs, group{Kind: "Vector", Name: "MdotV", Methods: []string{"MdotV", "MDOTV"}, Classes: []string{"receiver-dim-mismatch", "inner-dim-mismatch", "degenerate-operand"}, Variants: vecVariants,
		Build: func(e *env, variant, class string, concrete bool) []alt {
			r, c := e.r.Range(2, 4), e.r.Range(2, 4)
			mk := func(nr, nb int) alt {
				v, p := e.recvVec(variant, nr)
				st := e.other(concrete)
				return alt{v, p, []any{e.matS(st, r, c), e.vecS(st, nb)}, fmt.Sprintf("receiver dim=%d matrix %dx%d vector dim=%d", nr, r, c, nb)}
			}
			// degenerate matrix (0 rows / 0 columns) with vectors that do not fit it
			mkd := func(nr, mr, mc, nb int) alt {
				v, p := e.recvVec(variant, nr)
				st := e.other(concrete)
				return alt{v, p, []any{e.matS(st, mr, mc), e.vecS(st, nb)}, fmt.Sprintf("receiver dim=%d matrix %dx%d vector dim=%d", nr, mr, mc, nb)}
			}
			switch class {
			case "degenerate-operand":
				return []alt{mkd(r, 0, c, c), mkd(r, r, 0, c), mkd(0, r, c, c), mk(r, 0), mkd(r, 0, 0, c), mkd(r, 0, c, 0), mkd(r+1, r, 0, 0), mkd(r, 1, 1, c)}
			case "valid":
				return []alt{mk(r, c)}
			case "receiver-dim-mismatch":
				return []alt{mk(r+1, c), mk(r-1, c)}
			default:
				return []alt{mk(r, c+1), mk(r, c-1)}
			}
		}})
	gs = append(gs, group{Kind: "Vector", Name: "VdotM", Methods: []string{"VdotM", "VDOTM"}, Classes: []string{"receiver-dim-mismatch", "inner-dim-mismatch", "degenerate-operand"}, Variants: vecVariants,
		Build: func(e *env, variant, class string, concrete bool) []alt {
			r, c := e.r.Range(2, 4), e.r.Range(2, 4)
			mk := func(nr, na int) alt {
				v, p := e.recvVec(variant, nr)
				st := e.other(concrete)
				return alt{v, p, []any{e.vecS(st, na), e.matS(st, r, c)}, fmt.Sprintf("receiver dim=%d vector dim=%d matrix %dx%d", nr, na, r, c)}
			}
			// degenerate matrix (0 rows / 0 columns) with vectors that do not fit it
			mkd := func(nr, na, mr, mc int) alt {
				v, p := e.recvVec(variant, nr)
				st := e.other(concrete)
				return alt{v, p, []any{e.vecS(st, na), e.matS(st, mr, mc)}, fmt.Sprintf("receiver dim=%d vector dim=%d matrix %dx%d", nr, na, mr, mc)}
			}
			switch class {
			case "degenerate-operand":
				return []alt{mkd(c, r, 0, c), mkd(c, r, r, 0), mkd(c+1, 0, 0, c), mkd(0, r, r, c), mk(c, 0), mkd(c, r, 0, 0), mkd(c, r+1, r, 0), mkd(c, r, 1, 1)}
			case "valid":
				return []alt{mk(c, r)}
			case "receiver-dim-mismatch":
				return []alt{mk(c+1, r), mk(c-1, r)}
			default:
				return []alt{mk(c, r+1), mk(c, r-1)}
			}
		}})
	gs = append(gs, group{Kind: "Vector", Name: "Equals", Methods: []string{"Equals", "EQUALS"}, Classes: []string{"dim-mismatch", "degenerate-operand"}, Variants: vecVariants,
		Build: func(e *env, variant, class string, concrete bool) []alt {
			n := e.r.Range(2, 5)
			mk := func(k int) alt {
				v, p := e.recvVec(variant, n)
				return alt{v, p, []any{e.vecS(e.other(concrete), k), 1e-8}, fmt.Sprintf("receiver dim=%d argument dim=%d", n, k)}
			}
			if class == "valid" {
				return []alt{mk(n)}
			}
			if class == "degenerate-operand" {
				return []alt{mk(0), mk(1)}
			}
			return []alt{mk(n + 1), mk(n - 1)}
		}})
	gs = append(gs, group{Kind: "Vector", Name: "Permute", Methods: []string{"Permute"}, Classes: []string{"length-mismatch", "index-out-of-range"}, Variants: vecVariants,
		Build: func(e *env, variant, class string, concrete bool) []alt {
			n := e.r.Range(3, 5)
			mk := func(pi []int) alt {
				v, p := e.recvVec(variant, n)
				return alt{v, p, []any{pi}, fmt.Sprintf("dim=%d permutation=%v", n, pi)}
			}
			pi := e.r.Perm(n)
			switch class {
			case "valid":
				return []alt{mk(pi)}
			case "length-mismatch":
				short := make([]int, n-1)
				for i := range short {
					short[i] = (i + 1) % (n - 1)
				}
				return []alt{mk(short), mk(append(e.r.Perm(n), 0))}
			default:
				q := append([]int(nil), pi...)
				for i := range q {
					if q[i] == 0 {
						q[i] = n
					}
				}
				q2 := append([]int(nil), pi...)
				for i := range q2 {
					if q2[i] == n-1 {
						q2[i] = -1
					}
				}
				return []alt{mk(q), mk(q2)}
			}
		}})
	gs = append(gs, group{Kind: "Vector", Name: "AsMatrix", Methods: []string{"AsMatrix", "AsConstMatrix", "AsMagicMatrix", "To*Matrix"}, Classes: []string{"rows*cols!=dim", "negative-dimensions"}, Variants: vecVariants,
		Build: func(e *env, variant, class string, concrete bool) []alt {
			mk := func(n, r, c int) alt {
				v, p := e.recvVec(variant, n)
				return alt{v, p, []any{r, c}, fmt.Sprintf("dim=%d as %dx%d", n, r, c)}
			}
			switch class {
			case "valid":
				return []alt{mk(6, 2, 3)}
			case "rows*cols!=dim":
				return []alt{mk(6, 2, 2), mk(6, 2, 4), mk(5, 2, 3)}
			default:
				return []alt{mk(6, -2, -3)}
			}
		}})
	gs = append(gs, group{Kind: "Vector", Name: "Variables", Methods: []string{"Variables"}, Classes: []string{"derivative-order=3"}, Variants: vecVariants, MagicOnly: true,
		Build: func(e *env, variant, class string, concrete bool) []alt {
			n := e.r.Range(2, 4)
			mk := func(o int) alt {
				v, p := e.recvVec(variant, n)
				return alt{v, p, []any{o}, fmt.Sprintf("dim=%d order=%d", n, o)}
			}
			if class == "valid" {
				return []alt{mk(2)}
			}
			return []alt{mk(3), mk(4)}
		}})
	return gs
}

/* ---------------------------------------------------------------------------
 * matrix groups
 * ------------------------------------------------------------------------- */

func matGroups() []group {
	var gs []group
	atMethods := []string{"At", "AT", "ConstAt", "MagicAt", "Int8At", "Int16At", "Int32At", "Int64At", "IntAt", "Float32At", "Float64At"}
	gs = append(gs, group{Kind: "Matrix", Name: "At", Methods: atMethods, Classes: []string{"index<0", "row-index>=rows", "col-index>=cols"}, Variants: matVariants,
		Build: func(e *env, variant, class string, concrete bool) []alt {
			r, c := e.r.Range(2, 4), e.r.Range(2, 4)
			mk := func(i, j int) alt {
				m, p := e.recvMat(variant, r, c)
				return alt{m, p, []any{i, j}, fmt.Sprintf("%dx%d index (%d,%d)", r, c, i, j)}
			}
			switch class {
			case "valid":
				return []alt{mk(e.r.Intn(r), e.r.Intn(c))}
			case "index<0":
				return []alt{mk(-1, 0), mk(0, -1)}
			case "row-index>=rows":
				return []alt{mk(r, 0), mk(r+1, c-1)}
			default:
				return []alt{mk(0, c), mk(r-1, c+1)}
			}
		}})
	rc := func(name string, methods []string, row bool) group {
		return group{Kind: "Matrix", Name: name, Methods: methods, Classes: []string{"index<0", "index>=dim"}, Variants: matVariants,
			Build: func(e *env, variant, class string, concrete bool) []alt {
				r, c := e.r.Range(2, 4), e.r.Range(2, 4)
				lim := c
				if row {
					lim = r
				}
				mk := func(i int) alt {
					m, p := e.recvMat(variant, r, c)
					return alt{m, p, []any{i}, fmt.Sprintf("%dx%d index %d", r, c, i)}
				}
				switch class {
				case "valid":
					return []alt{mk(e.r.Intn(lim))}
				case "index<0":
					return []alt{mk(-1)}
				default:
					return []alt{mk(lim), mk(lim + 1)}
				}
			}}
	}
	gs = append(gs, rc("Row", []string{"Row", "ROW", "ConstRow"}, true), rc("Col", []string{"Col", "COL", "ConstCol"}, false))
	gs = append(gs, group{Kind: "Matrix", Name: "Diag", Methods: []string{"Diag", "DIAG", "ConstDiag"}, Classes: []string{"non-square"}, Variants: matVariants,
		Build: func(e *env, variant, class string, concrete bool) []alt {
			n := e.r.Range(2, 4)
			mk := func(r, c int) alt {
				m, p := e.recvMat(variant, r, c)
				return alt{m, p, nil, fmt.Sprintf("%dx%d", r, c)}
			}
			if class == "valid" {
				return []alt{mk(n, n)}
			}
			return []alt{mk(n, n+1), mk(n+1, n)}
		}})
	gs = append(gs, group{Kind: "Matrix", Name: "Slice", Methods: []string{"Slice", "SLICE", "ConstSlice", "MagicSlice"},
		Classes: []string{"index:from<0", "index:row-to>rows", "index:col-to>cols", "index:from>to"}, Variants: matVariants,
		Build: func(e *env, variant, class string, concrete bool) []alt {
			r, c := e.r.Range(3, 5), e.r.Range(3, 5)
			mk := func(a, b, cc, d int) alt {
				m, p := e.recvMat(variant, r, c)
				return alt{m, p, []any{a, b, cc, d}, fmt.Sprintf("%dx%d slice(%d,%d,%d,%d)", r, c, a, b, cc, d)}
			}
			switch class {
			case "valid":
				return []alt{mk(1, r, 0, c-1)}
			case "index:from<0":
				return []alt{mk(-1, 2, 0, 2), mk(0, 2, -1, 2)}
			case "index:row-to>rows":
				return []alt{mk(0, r+1, 0, c), mk(1, r+2, 0, 1)}
			case "index:col-to>cols":
				return []alt{mk(0, r, 0, c+1), mk(0, 1, 1, c+2)}
			default:
				return []alt{mk(2, 1, 0, c), mk(0, r, 2, 1)}
			}
		}})
	gs = append(gs, group{Kind: "Matrix", Name: "Swap", Methods: []string{"Swap"}, Classes: []string{"index<0", "index>=dim"}, Variants: matVariants,
		Build: func(e *env, variant, class string, concrete bool) []alt {
			r, c := e.r.Range(2, 4), e.r.Range(2, 4)
			mk := func(a, b, cc, d int) alt {
				m, p := e.recvMat(variant, r, c)
				return alt{m, p, []any{a, b, cc, d}, fmt.Sprintf("%dx%d swap(%d,%d,%d,%d)", r, c, a, b, cc, d)}
			}
			switch class {
			case "valid":
				return []alt{mk(0, 0, r-1, c-1)}
			case "index<0":
				return []alt{mk(-1, 0, 0, 0), mk(0, 0, 0, -1)}
			default:
				return []alt{mk(r, 0, 0, 0), mk(0, 0, 0, c), mk(0, c+1, 1, 1)}
			}
		}})
	sw := func(name string, row bool) group {
		return group{Kind: "Matrix", Name: name, Methods: []string{name}, Classes: []string{"index<0", "index>=dim"}, Variants: matVariants,
			Build: func(e *env, variant, class string, concrete bool) []alt {
				r := e.r.Range(2, 4)
				c := r // the routine accepts square matrices only
				lim := c
				if row {
					lim = r
				}
				mk := func(i, j int) alt {
					m, p := e.recvMat(variant, r, c)
					return alt{m, p, []any{i, j}, fmt.Sprintf("%dx%d %s(%d,%d)", r, c, name, i, j)}
				}
				switch class {
				case "valid":
					return []alt{mk(0, lim-1)}
				case "index<0":
					return []alt{mk(-1, 0), mk(0, -1)}
				default:
					return []alt{mk(0, lim), mk(lim+1, 0)}
				}
			}}
	}
	gs = append(gs, sw("SwapRows", true), sw("SwapColumns", false))
	pm := func(name string, which string) group {
		classes := []string{"length-mismatch", "index-out-of-range"}
		if which == "sym" {
			classes = append(classes, "non-square")
		}
		return group{Kind: "Matrix", Name: name, Methods: []string{name}, Classes: classes, Variants: matVariants,
			Build: func(e *env, variant, class string, concrete bool) []alt {
				r := e.r.Range(3, 4)
				c := r // the routines accept square matrices only
				lim := r
				if which == "cols" {
					lim = c
				}
				mk := func(rr, cc int, pi []int) alt {
					m, p := e.recvMat(variant, rr, cc)
					return alt{m, p, []any{pi}, fmt.Sprintf("%dx%d %s(%v)", rr, cc, name, pi)}
				}
				switch class {
				case "valid":
					return []alt{mk(r, c, e.r.Perm(lim))}
				case "length-mismatch":
					// shorter: a rotation of 0..lim-2; longer: a permutation of 0..lim-1 plus a surplus entry
					short := make([]int, lim-1)
					for i := range short {
						short[i] = (i + 1) % (lim - 1)
					}
					return []alt{mk(r, c, short), mk(r, c, append(e.r.Perm(lim), 0))}
				case "index-out-of-range":
					q := e.r.Perm(lim)
					for i := range q {
						if q[i] == 0 {
							q[i] = lim
						}
					}
					q2 := e.r.Perm(lim)
					for i := range q2 {
						if q2[i] == lim-1 {
							q2[i] = -1
						}
					}
					return []alt{mk(r, c, q), mk(r, c, q2)}
				default:
					return []alt{mk(r, r+1, e.r.Perm(r)), mk(r+1, r, e.r.Perm(r))}
				}
			}}
	}
	gs = append(gs, pm("PermuteRows", "rows"), pm("PermuteColumns", "cols"), pm("SymmetricPermutation", "sym"))
	gs = append(gs, group{Kind: "Matrix", Name: "Set", Methods: []string{"Set"}, Classes: []string{"dims-mismatch", "transposed-shape", "degenerate-operand"}, Variants: matVariants,
		Build: func(e *env, variant, class string, concrete bool) []alt {
			r := e.r.Range(2, 3)
			c := r + e.r.Range(1, 2)
			mk := func(ar, ac int) alt {
				m, p := e.recvMat(variant, r, c)
				return alt{m, p, []any{e.matS(e.other(concrete), ar, ac)}, fmt.Sprintf("receiver %dx%d argument %dx%d", r, c, ar, ac)}
			}
			switch class {
			case "valid":
				return []alt{mk(r, c)}
			case "dims-mismatch":
				return []alt{mk(r+1, c), mk(r, c-1), mk(r-1, c+1)}
			case "degenerate-operand":
				return []alt{mk(0, c), mk(r, 0), mk(0, 0), mk(1, 1)}
			default:
				return []alt{mk(c, r)}
			}
		}})
	mm := func(name string, methods []string) group {
		return group{Kind: "Matrix", Name: name, Methods: methods, Classes: []string{"a-dims-mismatch", "b-dims-mismatch", "receiver-dims-mismatch", "transposed-shape-operand", "degenerate-operand"}, Variants: matVariants,
			Build: func(e *env, variant, class string, concrete bool) []alt {
				r := e.r.Range(2, 3)
				c := r + e.r.Range(1, 2)
				mk := func(rr, rc, ar, ac, br, bc int) alt {
					m, p := e.recvMat(variant, rr, rc)
					st := e.other(concrete)
					return alt{m, p, []any{e.matS(st, ar, ac), e.matS(st, br, bc)}, fmt.Sprintf("receiver %dx%d a %dx%d b %dx%d", rr, rc, ar, ac, br, bc)}
				}
				switch class {
				case "valid":
					return []alt{mk(r, c, r, c, r, c)}
				case "a-dims-mismatch":
					return []alt{mk(r, c, r+1, c, r, c), mk(r, c, r, c-1, r, c)}
				case "b-dims-mismatch":
					return []alt{mk(r, c, r, c, r+1, c), mk(r, c, r, c, r, c-1)}
				case "receiver-dims-mismatch":
					return []alt{mk(r+1, c, r, c, r, c), mk(r, c-1, r, c, r, c)}
				case "degenerate-operand":
					return []alt{mk(r, c, 0, c, r, c), mk(r, c, r, 0, r, c), mk(r, c, r, c, 0, c), mk(r, c, r, c, r, 0), mk(r, c, 0, 0, 0, 0),
						mk(0, c, r, c, r, c), mk(r, 0, r, c, r, c), mk(0, 0, r, c, r, c), mk(r, c, 1, 1, r, c), mk(r, c, r, c, 1, 1)}
				default:
					return []alt{mk(r, c, c, r, r, c), mk(r, c, r, c, c, r)}
				}
			}}
	}
	gs = append(gs, mm("MaddM", []string{"MaddM", "MADDM"}), mm("MsubM", []string{"MsubM", "MSUBM"}), mm("MmulM", []string{"MmulM", "MMULM"}), mm("MdivM", []string{"MdivM", "MDIVM"}))
	ms := func(name string, methods []string) group {
		return group{Kind: "Matrix", Name: name, Methods: methods, Classes: []string{"a-dims-mismatch", "degenerate-operand"}, Variants: matVariants,
			Build: func(e *env, variant, class string, concrete bool) []alt {
				r := e.r.Range(2, 3)
				c := r + e.r.Range(1, 2)
				mk := func(ar, ac int) alt {
					m, p := e.recvMat(variant, r, c)
					return alt{m, p, []any{e.matS(e.other(concrete), ar, ac), e.scalar()}, fmt.Sprintf("receiver %dx%d a %dx%d", r, c, ar, ac)}
				}
				if class == "valid" {
					return []alt{mk(r, c)}
				}
				if class == "degenerate-operand" {
					m0, p0 := e.recvMat(variant, 0, c)
					return []alt{mk(0, c), mk(r, 0), mk(0, 0), mk(1, 1),
						{m0, p0, []any{e.matS(e.other(concrete), r, c), e.scalar()}, fmt.Sprintf("receiver 0x%d a %dx%d", c, r, c)}}
				}
				return []alt{mk(r+1, c), mk(r, c-1), mk(c, r)}
			}}
	}
	gs = append(gs, ms("MaddS", []string{"MaddS", "MADDS"}), ms("MsubS", []string{"MsubS", "MSUBS"}), ms("MmulS", []string{"MmulS", "MMULS"}), ms("MdivS", []string{"MdivS", "MDIVS"}))
	gs = append(gs, group{Kind: "Matrix", Name: "MdotM", Methods: []string{"MdotM", "MDOTM"}, Classes: []string{"inner-dim-mismatch", "receiver-rows-mismatch", "receiver-cols-mismatch", "degenerate-operand"}, Variants: matVariants,
		Build: func(e *env, variant, class string, concrete bool) []alt {
			r, k, c := e.r.Range(2, 3), e.r.Range(2, 4), e.r.Range(2, 3)
			mk := func(rr, rc, ar, ac, br, bc int) alt {
				m, p := e.recvMat(variant, rr, rc)
				st := e.other(concrete)
				return alt{m, p, []any{e.matS(st, ar, ac), e.matS(st, br, bc)}, fmt.Sprintf("receiver %dx%d a %dx%d b %dx%d", rr, rc, ar, ac, br, bc)}
			}
			switch class {
			case "valid":
				return []alt{mk(r, c, r, k, k, c)}
			case "inner-dim-mismatch":
				return []alt{mk(r, c, r, k, k+1, c), mk(r, c, r, k+1, k, c)}
			case "degenerate-operand":
				// empty factor (0 rows / 0 columns) or empty receiver with shapes that do not fit
				return []alt{mk(r, c, r, 0, k, c), mk(r, c, r, k, 0, c), mk(r, c, 0, k, k, c), mk(r, c, r, k, k, 0), mk(r, c, 0, 0, k, c),
					mk(0, c, r, k, k, c), mk(r, 0, r, k, k, c), mk(0, 0, r, k, k, c), mk(r+1, c, r, 0, 0, c), mk(r, c, 1, 1, k, c)}
			case "receiver-rows-mismatch":
				return []alt{mk(r+1, c, r, k, k, c), mk(r-1, c, r, k, k, c)}
			default:
				return []alt{mk(r, c+1, r, k, k, c), mk(r, c-1, r, k, k, c)}
			}
		}})
	gs = append(gs, group{Kind: "Matrix", Name: "Outer", Methods: []string{"Outer", "OUTER"}, Classes: []string{"a-dim-mismatch", "b-dim-mismatch", "degenerate-operand"}, Variants: matVariants,
		Build: func(e *env, variant, class string, concrete bool) []alt {
			r, c := e.r.Range(2, 4), e.r.Range(2, 4)
			mk := func(na, nb int) alt {
				m, p := e.recvMat(variant, r, c)
				st := e.other(concrete)
				return alt{m, p, []any{e.vecS(st, na), e.vecS(st, nb)}, fmt.Sprintf("receiver %dx%d a dim=%d b dim=%d", r, c, na, nb)}
			}
			switch class {
			case "valid":
				return []alt{mk(r, c)}
			case "a-dim-mismatch":
				return []alt{mk(r+1, c), mk(r-1, c)}
			case "degenerate-operand":
				m0, p0 := e.recvMat(variant, 0, c)
				st := e.other(concrete)
				return []alt{mk(0, c), mk(r, 0), mk(0, 0), mk(1, c), mk(r, 1),
					{m0, p0, []any{e.vecS(st, r), e.vecS(st, c)}, fmt.Sprintf("receiver 0x%d a dim=%d b dim=%d", c, r, c)}}
			default:
				return []alt{mk(r, c+1), mk(r, c-1)}
			}
		}})
	gs = append(gs, group{Kind: "Matrix", Name: "Equals", Methods: []string{"Equals", "EQUALS"}, Classes: []string{"dims-mismatch", "degenerate-operand"}, Variants: matVariants,
		Build: func(e *env, variant, class string, concrete bool) []alt {
			r := e.r.Range(2, 3)
			c := r + e.r.Range(1, 2)
			mk := func(ar, ac int) alt {
				m, p := e.recvMat(variant, r, c)
				return alt{m, p, []any{e.matS(e.other(concrete), ar, ac), 1e-8}, fmt.Sprintf("receiver %dx%d argument %dx%d", r, c, ar, ac)}
			}
			if class == "valid" {
				return []alt{mk(r, c)}
			}
			if class == "degenerate-operand" {
				return []alt{mk(0, c), mk(r, 0), mk(0, 0), mk(1, 1)}
			}
			return []alt{mk(r+1, c), mk(r, c-1), mk(c, r)}
		}})
	gs = append(gs, group{Kind: "Matrix", Name: "Jacobian", Methods: []string{"Jacobian"}, Classes: []string{"receiver-dims-mismatch"}, Variants: []string{"plain", "view"},
		Build: func(e *env, variant, class string, concrete bool) []alt {
			r, c := e.r.Range(2, 3), e.r.Range(2, 3)
			f := func(x ad.ConstVector) ad.ConstVector {
				y := ad.NullDenseReal64Vector(r)
				for i := 0; i < r; i++ {
					y.AT(i).Mul(x.ConstAt(i%x.Dim()), x.ConstAt((i+1)%x.Dim()))
				}
				return y
			}
			mk := func(rr, rc int) alt {
				m, p := e.recvMat(variant, rr, rc)
				x := ad.NullDenseReal64Vector(c)
				for i := 0; i < c; i++ {
					x.AT(i).SetFloat64(e.val())
				}
				return alt{m, p, []any{f, ad.MagicVector(x)}, fmt.Sprintf("receiver %dx%d for f: R^%d -> R^%d", rr, rc, c, r)}
			}
			if class == "valid" {
				return []alt{mk(r, c)}
			}
			return []alt{mk(r+1, c), mk(r, c+1), mk(r-1, c)}
		}})
	gs = append(gs, group{Kind: "Matrix", Name: "Hessian", Methods: []string{"Hessian"}, Classes: []string{"receiver-dims-mismatch"}, Variants: []string{"plain", "view"},
		Build: func(e *env, variant, class string, concrete bool) []alt {
			n := e.r.Range(2, 3)
			f := func(x ad.ConstVector) ad.ConstScalar {
				y := ad.NullReal64()
				t := ad.NullReal64()
				for i := 0; i < x.Dim(); i++ {
					t.Mul(x.ConstAt(i), x.ConstAt((i+1)%x.Dim()))
					y.Add(y, t)
				}
				return y
			}
			mk := func(rr, rc int) alt {
				m, p := e.recvMat(variant, rr, rc)
				x := ad.NullDenseReal64Vector(n)
				for i := 0; i < n; i++ {
					x.AT(i).SetFloat64(e.val())
				}
				return alt{m, p, []any{f, ad.MagicVector(x)}, fmt.Sprintf("receiver %dx%d for f: R^%d -> R", rr, rc, n)}
			}
			if class == "valid" {
				return []alt{mk(n, n)}
			}
			return []alt{mk(n+1, n+1), mk(n, n+1), mk(n-1, n-1)}
		}})
	gs = append(gs, group{Kind: "Matrix", Name: "Variables", Methods: []string{"Variables"}, Classes: []string{"derivative-order=3"}, Variants: []string{"plain", "view"}, MagicOnly: true,
		Build: func(e *env, variant, class string, concrete bool) []alt {
			mk := func(o int) alt {
				m, p := e.recvMat(variant, 2, 2)
				return alt{m, p, []any{o}, fmt.Sprintf("2x2 order=%d", o)}
			}
			if class == "valid" {
				return []alt{mk(2)}
			}
			return []alt{mk(3), mk(4)}
		}})
	return gs
}

/* ---------------------------------------------------------------------------
 * scalar groups (operations with container arguments, derivative bookkeeping)
 * ------------------------------------------------------------------------- */

func scalarGroups() []group {
	var gs []group
	plain := []string{"plain"}
	gs = append(gs, group{Kind: "Scalar", Name: "VdotV", Methods: []string{"VdotV"}, Classes: []string{"dim-mismatch", "degenerate-operand"}, Variants: plain,
		Build: func(e *env, variant, class string, concrete bool) []alt {
			n := e.r.Range(2, 5)
			mk := func(na, nb int) alt {
				return alt{e.scalar(), nil, []any{e.vecS(e.other(false), na), e.vecS(e.other(false), nb)}, fmt.Sprintf("a dim=%d b dim=%d", na, nb)}
			}
			if class == "valid" {
				return []alt{mk(n, n)}
			}
			if class == "degenerate-operand" {
				return []alt{mk(0, n), mk(n, 0), mk(1, n), mk(n, 1)}
			}
			return []alt{mk(n, n+1), mk(n+1, n)}
		}})
	gs = append(gs, group{Kind: "Scalar", Name: "Mtrace", Methods: []string{"Mtrace"}, Classes: []string{"non-square"}, Variants: plain,
		Build: func(e *env, variant, class string, concrete bool) []alt {
			n := e.r.Range(2, 4)
			mk := func(r, c int) alt {
				return alt{e.scalar(), nil, []any{e.matS(e.other(false), r, c)}, fmt.Sprintf("%dx%d", r, c)}
			}
			if class == "valid" {
				return []alt{mk(n, n)}
			}
			return []alt{mk(n, n+1), mk(n+1, n)}
		}})
	gs = append(gs, group{Kind: "Scalar", Name: "SetVariable", Methods: []string{"SetVariable"}, Classes: []string{"derivative-order=3", "index>=n"}, Variants: plain, MagicOnly: true,
		Build: func(e *env, variant, class string, concrete bool) []alt {
			mk := func(i, n, o int) alt {
				return alt{e.scalar(), nil, []any{i, n, o}, fmt.Sprintf("SetVariable(%d,%d,%d)", i, n, o)}
			}
			switch class {
			case "valid":
				return []alt{mk(1, 3, 2)}
			case "derivative-order=3":
				return []alt{mk(1, 3, 3), mk(0, 2, 4)}
			default:
				return []alt{mk(3, 3, 1), mk(-1, 3, 1)}
			}
		}})
	gs = append(gs, group{Kind: "Scalar", Name: "Alloc", Methods: []string{"Alloc"}, Classes: []string{"derivative-order=3"}, Variants: plain, MagicOnly: true,
		Build: func(e *env, variant, class string, concrete bool) []alt {
			mk := func(n, o int) alt { return alt{e.scalar(), nil, []any{n, o}, fmt.Sprintf("Alloc(%d,%d)", n, o)} }
			if class == "valid" {
				return []alt{mk(3, 2)}
			}
			return []alt{mk(3, 3), mk(2, 4)}
		}})
	armed := func(e *env, n, order int) ad.Scalar {
		s := e.scalar()
		s.(ad.MagicScalar).Alloc(n, order)
		return s
	}
	gs = append(gs, group{Kind: "Scalar", Name: "GetDerivative", Methods: []string{"GetDerivative", "SetDerivative"}, Classes: []string{"index>=n", "index<0"}, Variants: plain, MagicOnly: true,
		Build: func(e *env, variant, class string, concrete bool) []alt {
			n := e.r.Range(2, 4)
			mk := func(i int) alt {
				return alt{armed(e, n, 1), nil, []any{i, 1.5}, fmt.Sprintf("n=%d order=1 index=%d", n, i)}
			}
			switch class {
			case "valid":
				return []alt{mk(n - 1)}
			case "index>=n":
				return []alt{mk(n), mk(n + 1)}
			default:
				return []alt{mk(-1)}
			}
		}})
	gs = append(gs, group{Kind: "Scalar", Name: "GetHessian", Methods: []string{"GetHessian", "SetHessian"}, Classes: []string{"index>=n", "index<0"}, Variants: plain, MagicOnly: true,
		Build: func(e *env, variant, class string, concrete bool) []alt {
			n := e.r.Range(2, 4)
			mk := func(i, j int) alt {
				return alt{armed(e, n, 2), nil, []any{i, j, 1.5}, fmt.Sprintf("n=%d order=2 index=(%d,%d)", n, i, j)}
			}
			switch class {
			case "valid":
				return []alt{mk(n-1, 0)}
			case "index>=n":
				return []alt{mk(n, 0), mk(0, n)}
			default:
				return []alt{mk(-1, 0), mk(0, -1)}
			}
		}})
	dy := func(name string, methods []string) group {
		return group{Kind: "Scalar", Name: name, Methods: methods, Classes: []string{"operands-with-different-numbers-of-variables"}, Variants: plain, MagicOnly: true,
			Build: func(e *env, variant, class string, concrete bool) []alt {
				mk := func(na, nb, order int) alt {
					a, b := armed(e, na, order), armed(e, nb, order)
					a.(ad.MagicScalar).SetDerivative(0, 1)
					b.(ad.MagicScalar).SetDerivative(nb-1, 1)
					return alt{e.scalar(), nil, []any{a, b}, fmt.Sprintf("a carries %d variables, b carries %d (order %d)", na, nb, order)}
				}
				if class == "valid" {
					return []alt{mk(3, 3, 2)}
				}
				return []alt{mk(2, 3, 1), mk(3, 2, 2)}
			}}
	}
	gs = append(gs, dy("Add", []string{"Add", "ADD"}), dy("Sub", []string{"Sub", "SUB"}), dy("Mul", []string{"Mul", "MUL"}), dy("Div", []string{"Div", "DIV"}), dy("Pow", []string{"Pow", "POW"}))
	return gs
}

/* ---------------------------------------------------------------------------
 * the reflective driver
 * ------------------------------------------------------------------------- */

// resolve finds the method; "To*Matrix" stands for the type's ToXxxMatrix.
func resolve(recv any, name string) (reflect.Value, string, bool) {
	rv := reflect.ValueOf(recv)
	if name == "To*Matrix" {
		t := rv.Type()
		for i := 0; i < t.NumMethod(); i++ {
			if n := t.Method(i).Name; strings.HasPrefix(n, "To") && strings.HasSuffix(n, "Matrix") {
				return rv.Method(i), n, true
			}
		}
		return reflect.Value{}, "", false
	}
	m := rv.MethodByName(name)
	return m, name, m.IsValid()
}

// invoke converts the arguments to the parameter types and calls.
func invoke(m reflect.Value, args []any) (out []reflect.Value, p *fw.Panic, ok bool) {
	mt := m.Type()
	if mt.IsVariadic() || mt.NumIn() > len(args) {
		return nil, nil, false
	}
	in := make([]reflect.Value, mt.NumIn())
	for i := range in { // surplus trailing arguments of a group (e.g. the value of SetDerivative) are dropped for getters
		if args[i] == nil {
			return nil, nil, false
		}
		v := reflect.ValueOf(args[i])
		pt := mt.In(i)
		switch {
		case v.Type().AssignableTo(pt):
		case v.Kind() != reflect.Interface && v.Type().ConvertibleTo(pt) && pt.Kind() != reflect.Interface && v.Kind() == pt.Kind():
			v = v.Convert(pt)
		default:
			return nil, nil, false
		}
		in[i] = v
	}
	p = fw.Call(func() { out = m.Call(in) })
	return out, p, true
}

// loud: the call panicked or its last result is a non-nil error.
func loud(out []reflect.Value, p *fw.Panic) bool {
	if p != nil {
		return true
	}
	if len(out) > 0 {
		last := out[len(out)-1]
		if last.Type().Implements(reflect.TypeOf((*error)(nil)).Elem()) && !last.IsNil() {
			return true
		}
	}
	return false
}

func describeResult(out []reflect.Value) string {
	var parts []string
	for _, o := range out {
		if !o.IsValid() {
			continue
		}
		var x any
		if o.CanInterface() {
			x = o.Interface()
		}
		switch v := x.(type) {
		case ad.ConstMatrix:
			if v != nil && !(o.Kind() == reflect.Ptr && o.IsNil()) {
				r, c := 0, 0
				if p := fw.Call(func() { r, c = v.Dims() }); p == nil {
					parts = append(parts, fmt.Sprintf("%dx%d matrix", r, c))
				}
			}
		case ad.ConstVector:
			if v != nil && !(o.Kind() == reflect.Ptr && o.IsNil()) {
				d := 0
				if p := fw.Call(func() { d = v.Dim() }); p == nil {
					parts = append(parts, fmt.Sprintf("vector of dim %d", d))
				}
			}
		case error:
			parts = append(parts, "error "+v.Error())
		default:
			if o.Kind() == reflect.Bool || o.Kind() == reflect.Float64 || o.Kind() == reflect.Int {
				parts = append(parts, fmt.Sprint(x))
			}
		}
	}
	return strings.Join(parts, ", ")
}

type silentObs struct {
	method, typ, variant, kind, note string
}

func storageTypes(g group) []gen.ElemType {
	if g.MagicOnly {
		return gen.Types[7:]
	}
	return gen.Types
}

// runGroupCase executes one (group, storage, class) case.
func runGroupCase(cs *fw.Case, g group, storage, label, class string) {
	var silent []silentObs
	exists := map[string]map[string]bool{} // method -> types where it exists and its admissible baseline works
	calls := 0
	for _, t := range storageTypes(g) {
		for _, variant := range g.Variants {
			for _, method := range g.Methods {
				e := &env{r: cs.R, t: t, storage: storage}
				conc := isConcrete(method)
				// admissible baseline first: the spec of the group must describe a valid call
				var base, alts []alt
				if pb := fw.Call(func() {
					base = g.Build(e, variant, "valid", conc)
					alts = g.Build(e, variant, class, conc)
				}); pb != nil {
					// the receiver variant itself cannot be constructed (e.g. T() of a sliced sparse matrix): not a misuse matter
					cs.Cover(fmt.Sprintf("receiver-construction-panicked:%s/%s/%s", g.Kind, label, variant))
					continue
				}
				m, mname, ok := resolve(base[0].recv, method)
				if !ok {
					continue
				}
				out, p, ok := invoke(m, base[0].args)
				if !ok {
					cs.Cover("not-callable:" + g.Kind + "." + mname)
					continue
				}
				if loud(out, p) {
					// the admissible call itself fails (another property's business); misuse of it is not judged
					cs.Cover(fmt.Sprintf("baseline-failed:%s.%s/%s", g.Kind, mname, label))
					continue
				}
				if exists[mname] == nil {
					exists[mname] = map[string]bool{}
				}
				exists[mname][t.Name+"/"+variant] = true
				for _, a := range alts {
					m, _, _ := resolve(a.recv, method)
					before := ""
					if a.parent != nil {
						before = a.parent()
					}
					out, p, ok := invoke(m, a.args)
					if !ok {
						continue
					}
					calls++
					if loud(out, p) {
						cs.Cover("rejected:" + g.Kind + "." + g.Name)
						continue
					}
					kind := "returned"
					note := a.note + " -> returned normally"
					if d := describeResult(out); d != "" {
						note += " (" + d + ")"
					}
					if a.parent != nil {
						if after := a.parent(); after != before {
							kind = "returned,parent-modified-outside-view"
							note += fmt.Sprintf("; parent elements outside the view before: %s after: %s", before, after)
						}
					}
					silent = append(silent, silentObs{mname, t.Name, variant, kind, note})
					break // one alternative is enough
				}
			}
		}
	}
	cs.C.Cover("misuse-call-count", int64(calls))
	cs.Cover("set:cell:" + g.Kind + "." + g.Name + "/" + label + "/" + class)
	cs.Nontrivial(g.Kind, g.Name, label, class, cs.Index)
	if len(silent) == 0 {
		return
	}
	// ---- fold ---------------------------------------------------------------
	// A method is "full" when every (type, receiver variant) cell in which it exists accepted
	// the misuse with the same failure kind.  Full methods of one kind are reported together
	// (one missing guard in a template = one signature); the others one by one with their cells.
	mlabel := func(m string) string {
		if strings.HasPrefix(m, "To") && strings.HasSuffix(m, "Matrix") {
			return "To<T>Matrix"
		}
		return m
	}
	cells := map[string]map[string]string{} // method label -> type/variant -> kind
	notes := map[string]string{}
	for _, s := range silent {
		l := mlabel(s.method)
		if cells[l] == nil {
			cells[l] = map[string]string{}
		}
		cells[l][s.typ+"/"+s.variant] = s.kind
		if _, ok := notes[l]; !ok {
			notes[l] = fmt.Sprintf("%s %s (%s receiver): %s", s.typ, s.method, s.variant, s.note)
		}
	}
	appl := map[string]map[string]bool{}
	for m, tv := range exists {
		l := mlabel(m)
		if appl[l] == nil {
			appl[l] = map[string]bool{}
		}
		for k := range tv {
			appl[l][k] = true
		}
	}
	// per method: silent types T', silent variants V', kind; foldable if the silent cells are
	// exactly (T' x V') restricted to the cells where the method exists
	type status struct {
		key     string
		product bool
	}
	groups := map[string][]string{}
	var raw []string
	for l, c := range cells {
		T, V, K := set{}, set{}, set{}
		for tv, k := range c {
			p := strings.SplitN(tv, "/", 2)
			T.add(p[0])
			V.add(p[1])
			K.add(k)
		}
		applT := set{}
		want := 0
		for tv := range appl[l] {
			p := strings.SplitN(tv, "/", 2)
			applT.add(p[0])
			if T[p[0]] && V[p[1]] {
				want++
			}
		}
		if len(K) != 1 || want != len(c) {
			raw = append(raw, l)
			continue
		}
		tl := "ALL"
		if len(T) != len(applT) {
			tl = strings.Join(T.sorted(), "+")
		}
		key := strings.Join(V.sorted(), "+") + "|" + K.sorted()[0] + "|" + tl
		groups[key] = append(groups[key], l)
	}
	emit := func(methods []string, foldable bool) {
		sort.Strings(methods)
		types, variants, kinds, applT, applV := set{}, set{}, set{}, set{}, set{}
		var obsl []string
		for _, m := range methods {
			for tv, k := range cells[m] {
				p := strings.SplitN(tv, "/", 2)
				types.add(p[0])
				variants.add(p[1])
				kinds.add(k)
				obsl = append(obsl, m+":"+tv+"/"+k)
			}
			for tv := range appl[m] {
				p := strings.SplitN(tv, "/", 2)
				applT.add(p[0])
				applV.add(p[1])
			}
		}
		sort.Strings(obsl)
		ml := "methods=" + strings.Join(methods, "+")
		if len(methods) == len(appl) && len(methods) > 1 {
			ml = "methods=all"
		}
		cfg := label + ";" + ml
		if foldable {
			cfg += ";" + foldTypes(types, applT)
			if v := foldSet("recv", variants, applV); v != "" {
				cfg += ";" + v
			}
		} else {
			cfg += ";cells=" + strings.Join(obsl, "+")
		}
		kind := strings.Join(kinds.sorted(), "+")
		sig := fmt.Sprintf("C20|silent|%s.%s|%s|%s|%s", g.Kind, g.Name, cfg, class, kind)
		cs.Violation(sig, fmt.Sprintf("misuse accepted silently (no panic, no error). First observation: %s. All observations (method:type/receiver/kind): %s",
			notes[methods[0]], strings.Join(obsl, " ")), map[string]any{"group": g.Kind + "." + g.Name, "storage": label, "class": class, "methods": methods, "observations": obsl})
	}
	var keys []string
	for k := range groups {
		keys = append(keys, k)
	}
	sort.Strings(keys)
	for _, k := range keys {
		emit(groups[k], true)
	}
	sort.Strings(raw)
	for _, m := range raw {
		emit([]string{m}, false)
	}
}

type set map[string]bool

func (s set) add(x string) { s[x] = true }
func (s set) sorted() []string {
	var l []string
	for k := range s {
		l = append(l, k)
	}
	sort.Strings(l)
	return l
}

var typeOrder = map[string]int{"Int8": 0, "Int16": 1, "Int32": 2, "Int64": 3, "Int": 4, "Float32": 5, "Float64": 6, "Real32": 7, "Real64": 8}

func foldTypes(got, appl set) string {
	l := got.sorted()
	sort.Slice(l, func(i, j int) bool { return typeOrder[l[i]] < typeOrder[l[j]] })
	if len(got) == len(appl) {
		if len(appl) == 9 {
			return "types=all9"
		}
		return fmt.Sprintf("types=all%d(%s)", len(appl), strings.Join(l, "+"))
	}
	return "types=" + strings.Join(l, "+")
}

func foldSet(name string, got, appl set) string {
	if len(got) == len(appl) {
		if len(appl) == 1 {
			return ""
		}
		return name + "=any"
	}
	return name + "=" + strings.Join(got.sorted(), "+")
}

type cell struct {
	g       group
	storage string
	class   string
}

func misuseCells() []cell {
	var cells, late []cell
	for _, g := range append(append(vecGroups(), matGroups()...), scalarGroups()...) {
		storages := []string{gen.Dense, gen.Sparse}
		if g.Kind == "Scalar" {
			storages = []string{"scalar"}
		}
		for _, st := range storages {
			for _, cl := range g.Classes {
				if cl == "degenerate-operand" {
					late = append(late, cell{g, st, cl}) // appended below: the indices of the older cells stay what the findings name
					continue
				}
				cells = append(cells, cell{g, st, cl})
			}
		}
	}
	return append(cells, late...)
}

func runMisuse(c *fw.Ctx) {
	cells := misuseCells()
	reps := c.N(4, 40)
	c.Cases("silent.containers", reps*len(cells), func(cs *fw.Case) {
		cl := cells[cs.Index%len(cells)]
		if cs.Index < len(cells) {
			cs.R = prng.For(20261003, "silent.containers", cs.Index) // first pass independent of VERIF_SEED
		}
		st := cl.storage
		if st == "scalar" {
			st = gen.Dense
		}
		runGroupCase(cs, cl.g, st, cl.storage, cl.class)
	})
	runAlgorithmMisuse(c)
}
