// Bounded progress of the optimisation / root finding / line search loops
// under degenerate objectives and option values (DESIGN.md C20 part a).
package c20

import (
	"errors"
	"fmt"
	"math"
	"strings"

	ad "github.com/pbenner/autodiff"
	"github.com/pbenner/autodiff/algorithm/adam"
	"github.com/pbenner/autodiff/algorithm/bfgs"
	"github.com/pbenner/autodiff/algorithm/blahut"
	"github.com/pbenner/autodiff/algorithm/gradientDescent"
	"github.com/pbenner/autodiff/algorithm/lineSearch"
	"github.com/pbenner/autodiff/algorithm/newton"
	"github.com/pbenner/autodiff/algorithm/rprop"
	"github.com/pbenner/autodiff/algorithm/saga"

	"verifharness/internal/fw"
	"verifharness/internal/prng"
)

// optBudget: loop iterations (all Tick sites together) one call may use.  On
// the well-behaved objective used here (a 2-d quadratic with condition number
// <= 4, or a channel / finite sum of that size) every routine needs fewer
// than 10^3 iterations with its default options.
const optBudget = 100000

// routines whose iteration runs a whole line search (about 100 objective
// evaluations) get a smaller budget; they need < 50 iterations on the
// well-behaved objective
func budgetFor(routine string) int64 {
	switch routine {
	case "bfgs.Run", "newton.RunMin", "newton.RunCrit", "newton.RunRoot":
		return 5000
	}
	return optBudget
}

// foldObj maps the concrete objective behaviour to the class used in signatures.
func foldObj(obj string) string {
	switch obj {
	case "nan", "nan-away-from-start", "inf":
		return "objective:non-finite"
	case "error", "error-after-3-evaluations":
		return "objective:returns-error"
	case "quadratic":
		return "objective:well-behaved"
	case "constant":
		return "objective:constant"
	}
	switch {
	case strings.HasPrefix(obj, "quadratic*"):
		return "objective:extreme-scale"
	case obj == "start=NaN" || obj == "start=+Inf" || obj == "start=-Inf":
		return "start:non-finite"
	case strings.HasPrefix(obj, "start="):
		return "start:extreme-magnitude"
	case obj == "channel:NaN-entry" || obj == "channel:+Inf-entry":
		return "channel:non-finite"
	case strings.HasPrefix(obj, "channel:entries="):
		return "channel:extreme-magnitude"
	}
	return obj
}

// extreme objective classes (follow-up): the well-behaved quadratic multiplied by a factor whose
// products underflow / overflow, and start points of extreme magnitude or with a non-finite coordinate
var extremeObjClasses = []string{"quadratic*1e-200", "quadratic*1e-320", "quadratic*1e+200", "quadratic*1e+308",
	"start=1e-200", "start=1e+200", "start=1e+308", "start=NaN", "start=+Inf", "start=-Inf"}

// foldOpts keeps the inadmissible option values of a scenario, folded
// (epsilon=0 and epsilon<0 -> epsilon<=0, ...); admissible values are dropped.
func foldOpts(opts string) string {
	var keep []string
	depth := 0
	tok := ""
	var toks []string
	for _, ch := range opts {
		switch {
		case ch == '(':
			depth++
		case ch == ')':
			depth--
		}
		if ch == ',' && depth == 0 {
			toks = append(toks, tok)
			tok = ""
			continue
		}
		tok += string(ch)
	}
	toks = append(toks, tok)
	for _, t := range toks {
		switch t {
		case "epsilon=0", "epsilon<0":
			keep = append(keep, "epsilon<=0")
		case "step<0", "step=0":
			keep = append(keep, "step<=0")
		case "stepSize<0", "stepSize=0":
			keep = append(keep, "stepSize<=0")
		case "eta=(1,1)", "eta=(0.5,1.2)", "eta=(-1,-1)":
			keep = append(keep, "eta=inadmissible")
		case "gamma=0", "gamma<0":
			keep = append(keep, "gamma<=0")
		case "beta1=1", "beta2=1":
			keep = append(keep, t)
		case "alpha1<0", "alpha1=0", "alpha1=+Inf", "alpha1=NaN", "maxEval=0", "maxEval<0", "steps=0", "steps<0":
			keep = append(keep, t)
		default:
			if len(t) > 12 && t[:12] == "constraints=" {
				keep = append(keep, t)
			}
		}
	}
	if len(keep) == 0 {
		return "admissible-options"
	}
	r := keep[0]
	for _, k := range keep[1:] {
		r += "," + k
	}
	return r
}

var errInjected = errors.New("objective failed (injected)")

// objective behaviours
var objClasses = []string{"quadratic", "nan", "nan-away-from-start", "inf", "constant", "error", "error-after-3-evaluations"}

type objective struct {
	class string
	a, b  float64 // f = a (x0-1)^2 + b (x1+0.5)^2 [+ more coordinates]
	x0    []float64
	evals int
	scale float64 // factor of the objective (1 except for the extreme-scale classes)
}

func newObjective(r *prng.Rand, class string) *objective {
	o := &objective{class: class, a: r.Uniform(0.5, 2), b: r.Uniform(0.5, 2), x0: []float64{r.Uniform(1.5, 3), r.Uniform(-3, -1.5)}, scale: 1}
	switch class {
	case "quadratic*1e-200":
		o.scale = 1e-200
	case "quadratic*1e-320":
		o.scale = 1e-320
	case "quadratic*1e+200":
		o.scale = 1e200
	case "quadratic*1e+308":
		o.scale = 1e308
	case "start=1e-200":
		o.x0[0] = 1e-200
	case "start=1e+200":
		o.x0[0] = 1e200
	case "start=1e+308":
		o.x0[0], o.x0[1] = 1e308, -1e308
	case "start=NaN":
		o.x0[1] = math.NaN()
	case "start=+Inf":
		o.x0[0] = math.Inf(1)
	case "start=-Inf":
		o.x0[1] = math.Inf(-1)
	}
	return o
}

func (o *objective) atStart(x ad.ConstVector) bool {
	for i := range o.x0 {
		if x.ConstAt(i).GetFloat64() != o.x0[i] {
			return false
		}
	}
	return true
}

// scalar evaluates the objective with library scalars.
func (o *objective) scalar(x ad.ConstVector) (ad.MagicScalar, error) {
	o.evals++
	y := ad.NullReal64()
	t := ad.NullReal64()
	t.Sub(x.ConstAt(0), ad.ConstFloat64(1))
	t.Mul(t, t)
	t.Mul(t, ad.ConstFloat64(o.a))
	y.Add(y, t)
	t.Sub(x.ConstAt(1), ad.ConstFloat64(-0.5))
	t.Mul(t, t)
	t.Mul(t, ad.ConstFloat64(o.b))
	y.Add(y, t)
	if o.scale != 1 {
		y.Mul(y, ad.ConstFloat64(o.scale))
	}
	switch o.class {
	case "nan":
		y.Mul(y, ad.ConstFloat64(math.NaN()))
	case "nan-away-from-start":
		if !o.atStart(x) {
			y.Mul(y, ad.ConstFloat64(math.NaN()))
		}
	case "inf":
		y.Mul(y, ad.ConstFloat64(math.Inf(1)))
	case "constant":
		y.Mul(y, ad.ConstFloat64(0))
		y.Add(y, ad.ConstFloat64(3))
	case "error":
		return nil, errInjected
	case "error-after-3-evaluations":
		if o.evals > 3 {
			return nil, errInjected
		}
	}
	return y, nil
}

// gradient is the explicit-gradient form of the same behaviours.
func (o *objective) gradient(x, g ad.DenseFloat64Vector) error {
	o.evals++
	g[0] = 2 * o.a * (x[0] - 1)
	g[1] = 2 * o.b * (x[1] + 0.5)
	if o.scale != 1 {
		g[0], g[1] = g[0]*o.scale, g[1]*o.scale
	}
	switch o.class {
	case "nan":
		g[0], g[1] = math.NaN(), math.NaN()
	case "nan-away-from-start":
		if x[0] != o.x0[0] || x[1] != o.x0[1] {
			g[0], g[1] = math.NaN(), math.NaN()
		}
	case "inf":
		g[0], g[1] = math.Inf(1), math.Inf(-1)
	case "constant":
		g[0], g[1] = 0, 0
	case "error":
		return errInjected
	case "error-after-3-evaluations":
		if o.evals > 3 {
			return errInjected
		}
	}
	return nil
}

// vector is the root-finding form F(x) = grad f(x).
func (o *objective) vector(x ad.ConstVector) (ad.MagicVector, error) {
	o.evals++
	y := ad.NullDenseReal64Vector(2)
	y.AT(0).Sub(x.ConstAt(0), ad.ConstFloat64(1))
	y.AT(0).Mul(y.AT(0), ad.ConstFloat64(2*o.a))
	y.AT(1).Sub(x.ConstAt(1), ad.ConstFloat64(-0.5))
	y.AT(1).Mul(y.AT(1), ad.ConstFloat64(2*o.b))
	mul := func(c float64) {
		y.AT(0).Mul(y.AT(0), ad.ConstFloat64(c))
		y.AT(1).Mul(y.AT(1), ad.ConstFloat64(c))
	}
	if o.scale != 1 {
		mul(o.scale)
	}
	switch o.class {
	case "nan":
		mul(math.NaN())
	case "nan-away-from-start":
		if !o.atStart(x) {
			mul(math.NaN())
		}
	case "inf":
		mul(math.Inf(1))
	case "constant":
		mul(0)
		y.AT(0).Add(y.AT(0), ad.ConstFloat64(3))
		y.AT(1).Add(y.AT(1), ad.ConstFloat64(3))
	case "error":
		return nil, errInjected
	case "error-after-3-evaluations":
		if o.evals > 3 {
			return nil, errInjected
		}
	}
	return y, nil
}

// line is the 1-d form phi(alpha) = f(x0 - alpha grad f(x0)).
func (o *objective) line(alpha ad.ConstScalar) (ad.MagicScalar, error) {
	g0 := 2 * o.a * (o.x0[0] - 1)
	g1 := 2 * o.b * (o.x0[1] + 0.5)
	x := ad.NullDenseReal64Vector(2)
	x.AT(0).Mul(alpha, ad.ConstFloat64(-g0))
	x.AT(0).Add(x.AT(0), ad.ConstFloat64(o.x0[0]))
	x.AT(1).Mul(alpha, ad.ConstFloat64(-g1))
	x.AT(1).Add(x.AT(1), ad.ConstFloat64(o.x0[1]))
	return o.scalar(x)
}

type scenario struct {
	Routine string
	Opts    string
	Obj     string
	Call    func(r *prng.Rand, o *objective) error
}

func x0vec(o *objective) ad.Vector { return ad.NewDenseFloat64Vector(append([]float64(nil), o.x0...)) }

// optScenarios enumerates routine x option class x objective class.
func optScenarios() []scenario {
	var l []scenario
	add := func(routine, opts string, objs []string, call func(r *prng.Rand, o *objective) error) {
		for _, ob := range objs {
			l = append(l, scenario{routine, opts, ob, call})
		}
	}
	degenerate := objClasses[1:]
	ordinary := []string{"quadratic"}
	all := objClasses

	// gradient descent (no iteration cap of its own)
	gd := func(step float64, eps *float64) func(*prng.Rand, *objective) error {
		return func(r *prng.Rand, o *objective) error {
			args := []interface{}{}
			if eps != nil {
				args = append(args, gradientDescent.Epsilon{Value: *eps})
			}
			_, err := gradientDescent.Run(o.scalar, x0vec(o), step, args...)
			return err
		}
	}
	zero, neg := 0.0, -1e-3
	add("gradientDescent.Run", "step=0.1,epsilon=default", all, gd(0.1, nil))
	add("gradientDescent.Run", "step=0.1,epsilon=0", ordinary, gd(0.1, &zero))
	add("gradientDescent.Run", "step=0.1,epsilon<0", ordinary, gd(0.1, &neg))
	add("gradientDescent.Run", "step<0,epsilon=default", ordinary, gd(-0.1, nil))
	add("gradientDescent.Run", "step=0,epsilon=default", ordinary, gd(0, nil))

	// rprop
	rp := func(step float64, eta []float64, eps *float64, grad bool) func(*prng.Rand, *objective) error {
		return func(r *prng.Rand, o *objective) error {
			args := []interface{}{}
			if eps != nil {
				args = append(args, rprop.Epsilon{Value: *eps})
			}
			var err error
			if grad {
				_, err = rprop.RunGradient(rprop.DenseGradientF(o.gradient), ad.NewDenseFloat64Vector(append([]float64(nil), o.x0...)), step, eta, args...)
			} else {
				_, err = rprop.Run(o.scalar, x0vec(o), step, eta, args...)
			}
			return err
		}
	}
	for _, g := range []bool{false, true} {
		name := "rprop.Run"
		if g {
			name = "rprop.RunGradient"
		}
		add(name, "step=0.01,eta=(1.2,0.5),epsilon=default", all, rp(0.01, []float64{1.2, 0.5}, nil, g))
		add(name, "step=0.01,eta=(1.2,0.5),epsilon=0", ordinary, rp(0.01, []float64{1.2, 0.5}, &zero, g))
		add(name, "step=0.01,eta=(1.2,0.5),epsilon<0", ordinary, rp(0.01, []float64{1.2, 0.5}, &neg, g))
		add(name, "step<0,eta=(1.2,0.5),epsilon=default", ordinary, rp(-0.01, []float64{1.2, 0.5}, nil, g))
		add(name, "step=0,eta=(1.2,0.5),epsilon=default", ordinary, rp(0, []float64{1.2, 0.5}, nil, g))
		add(name, "step=0.01,eta=(1,1),epsilon=default", all, rp(0.01, []float64{1, 1}, nil, g))
		add(name, "step=0.01,eta=(0.5,1.2),epsilon=default", all, rp(0.01, []float64{0.5, 1.2}, nil, g))
		add(name, "step=0.01,eta=(-1,-1),epsilon=default", ordinary, rp(0.01, []float64{-1, -1}, nil, g))
	}

	// adam
	am := func(grad bool, extra ...interface{}) func(*prng.Rand, *objective) error {
		return func(r *prng.Rand, o *objective) error {
			var err error
			if grad {
				_, err = adam.RunGradient(adam.DenseGradientF(o.gradient), ad.NewDenseFloat64Vector(append([]float64(nil), o.x0...)), extra...)
			} else {
				_, err = adam.Run(o.scalar, x0vec(o), extra...)
			}
			return err
		}
	}
	add("adam.Run", "stepSize=0.05,epsilon=1e-3", all, am(false, adam.StepSize{Value: 0.05}, adam.Epsilon{Value: 1e-3}))
	add("adam.Run", "stepSize=0.05,epsilon=0", ordinary, am(false, adam.StepSize{Value: 0.05}, adam.Epsilon{Value: 0}))
	add("adam.Run", "stepSize<0,epsilon=1e-3", ordinary, am(false, adam.StepSize{Value: -0.05}, adam.Epsilon{Value: 1e-3}))
	add("adam.Run", "stepSize=0,epsilon=1e-3", ordinary, am(false, adam.StepSize{Value: 0}, adam.Epsilon{Value: 1e-3}))
	add("adam.Run", "stepSize=0.05,beta1=1,beta2=1,epsilon=1e-3", ordinary, am(false, adam.StepSize{Value: 0.05}, adam.Epsilon{Value: 1e-3}, adam.Beta1{Value: 1}, adam.Beta2{Value: 1}))
	add("adam.RunGradient", "epsilon=1e-2", all, am(true, adam.Epsilon{Value: 1e-2}))
	add("adam.RunGradient", "epsilon=0", ordinary, am(true, adam.Epsilon{Value: 0}))

	// bfgs
	bf := func(extra ...interface{}) func(*prng.Rand, *objective) error {
		return func(r *prng.Rand, o *objective) error {
			_, err := bfgs.Run(o.scalar, x0vec(o), extra...)
			return err
		}
	}
	add("bfgs.Run", "default", all, bf())
	add("bfgs.Run", "epsilon=0", ordinary, bf(bfgs.Epsilon{Value: 0}))
	add("bfgs.Run", "epsilon<0", ordinary, bf(bfgs.Epsilon{Value: -1}))
	add("bfgs.Run", "constraints=never-satisfied-after-start", ordinary, func(r *prng.Rand, o *objective) error {
		_, err := bfgs.Run(o.scalar, x0vec(o), bfgs.Constraints{Value: func(x ad.Vector) bool { return o.atStart(x) }})
		return err
	})

	// newton
	nw := func(kind string, extra ...interface{}) func(*prng.Rand, *objective) error {
		return func(r *prng.Rand, o *objective) error {
			var err error
			switch kind {
			case "root":
				_, err = newton.RunRoot(o.vector, x0vec(o), extra...)
			case "crit":
				_, err = newton.RunCrit(o.scalar, x0vec(o), extra...)
			default:
				_, err = newton.RunMin(o.scalar, x0vec(o), extra...)
			}
			return err
		}
	}
	for _, k := range []string{"root", "crit", "min"} {
		name := map[string]string{"root": "newton.RunRoot", "crit": "newton.RunCrit", "min": "newton.RunMin"}[k]
		add(name, "default", all, nw(k))
		add(name, "epsilon=0", ordinary, nw(k, newton.Epsilon{Value: 0}))
		add(name, "epsilon<0", ordinary, nw(k, newton.Epsilon{Value: -1}))
		if k != "root" {
			add(name, "hessianModification=LDL", all, nw(k, newton.HessianModification{Value: "LDL"}))
		}
		kk := k
		add(name, "constraints=never-satisfied-after-start", ordinary, func(r *prng.Rand, o *objective) error {
			return nw(kk, newton.Constraints{Value: func(x ad.Vector) bool { return o.atStart(x) }})(r, o)
		})
	}

	// line search
	ls := func(extra ...interface{}) func(*prng.Rand, *objective) error {
		return func(r *prng.Rand, o *objective) error {
			_, err := lineSearch.Run(o.line, ad.Float64Type, extra...)
			return err
		}
	}
	add("lineSearch.Run", "default", all, ls())
	add("lineSearch.Run", "alpha1<0", ordinary, ls(lineSearch.Parameters{Alpha1: -1, MaxEval: 20}))
	add("lineSearch.Run", "alpha1=0", ordinary, ls(lineSearch.Parameters{Alpha1: 0, MaxEval: 20}))
	add("lineSearch.Run", "alpha1=+Inf", ordinary, ls(lineSearch.Parameters{Alpha1: math.Inf(1), MaxEval: 20}))
	add("lineSearch.Run", "maxEval=0", ordinary, ls(lineSearch.Parameters{Alpha1: 1, MaxEval: 0}))
	add("lineSearch.Run", "maxEval<0", ordinary, ls(lineSearch.Parameters{Alpha1: 1, MaxEval: -5}))
	add("lineSearch.Run", "constraints=only-alpha=0", ordinary, ls(lineSearch.Constraints{Value: func(a ad.ConstScalar) bool { return a.GetFloat64() == 0 }}))
	add("lineSearch.Run", "constraints=never-satisfied", ordinary, ls(lineSearch.Constraints{Value: func(a ad.ConstScalar) bool { return false }}))
	add("lineSearch.Run", "constraints=NaN-alpha-rejected,alpha1=NaN", ordinary, ls(lineSearch.Parameters{Alpha1: math.NaN(), MaxEval: 20},
		lineSearch.Constraints{Value: func(a ad.ConstScalar) bool { return a.GetFloat64() >= 0 }}))

	// saga: least squares with 6 samples in 2 dimensions; the degenerate objective classes apply to the sample losses
	sg := func(extra ...interface{}) func(*prng.Rand, *objective) error {
		return func(r *prng.Rand, o *objective) error {
			Z := [][]float64{{1, 0.5}, {-0.5, 1}, {1, 1}, {0.3, -1}, {-1, 0.2}, {0.7, 0.7}}
			Y := []float64{1, -0.5, 0.8, 0.2, -1, 0.4}
			f := saga.Objective2Dense(func(i int, x ad.DenseFloat64Vector) (float64, ad.DenseFloat64Vector, error) {
				o.evals++
				e := Z[i][0]*x[0] + Z[i][1]*x[1] - Y[i]
				g := []float64{e * Z[i][0], e * Z[i][1]}
				if o.scale != 1 {
					e *= math.Sqrt(o.scale)
					g[0], g[1] = g[0]*o.scale, g[1]*o.scale
				}
				switch o.class {
				case "nan":
					g[0], g[1] = math.NaN(), math.NaN()
				case "nan-away-from-start":
					if x[0] != o.x0[0] || x[1] != o.x0[1] {
						g[0], g[1] = math.NaN(), math.NaN()
					}
				case "inf":
					g[0], g[1] = math.Inf(1), math.Inf(1)
				case "constant":
					g[0], g[1] = 0, 0
				case "error":
					return 0, nil, errInjected
				case "error-after-3-evaluations":
					if o.evals > 3 {
						return 0, nil, errInjected
					}
				}
				return 0.5 * e * e, ad.NewDenseFloat64Vector(g), nil
			})
			args := append([]interface{}{saga.Seed{Value: int64(r.Intn(1000))}}, extra...)
			_, _, err := saga.Run(f, len(Z), x0vec(o), args...)
			return err
		}
	}
	add("saga.Run", "gamma=0.1,epsilon=1e-6", all, sg(saga.Gamma{Value: 0.1}, saga.Epsilon{Value: 1e-6}))
	add("saga.Run", "gamma=0.1,epsilon=0", ordinary, sg(saga.Gamma{Value: 0.1}, saga.Epsilon{Value: 0}))
	add("saga.Run", "gamma=0.1,epsilon<0", ordinary, sg(saga.Gamma{Value: 0.1}, saga.Epsilon{Value: -1}))
	add("saga.Run", "gamma=0,epsilon=1e-6", ordinary, sg(saga.Gamma{Value: 0}, saga.Epsilon{Value: 1e-6}))
	add("saga.Run", "gamma<0,epsilon=1e-6", ordinary, sg(saga.Gamma{Value: -0.1}, saga.Epsilon{Value: 1e-6}))
	add("saga.Run", "gamma=0.1,epsilon=1e-6,l1=0.01", degenerate, sg(saga.Gamma{Value: 0.1}, saga.Epsilon{Value: 1e-6}, saga.L1Regularization{Value: 0.01}))

	// blahut: fixed number of steps; degenerate channels
	bl := func(naive bool, ch [][]float64, steps int) func(*prng.Rand, *objective) error {
		return func(r *prng.Rand, o *objective) error {
			p0 := make([]float64, len(ch))
			for i := range p0 {
				p0[i] = 1 / float64(len(ch))
			}
			if naive {
				c := make([][]float64, len(ch))
				for i := range ch {
					c[i] = append([]float64(nil), ch[i]...)
				}
				blahut.RunNaive(c, p0, steps)
				return nil
			}
			m := ad.NullDenseFloat64Matrix(len(ch), len(ch[0]))
			for i := range ch {
				for j := range ch[i] {
					m.At(i, j).SetFloat64(ch[i][j])
				}
			}
			blahut.Run(m, ad.NewDenseFloat64Vector(p0), steps)
			return nil
		}
	}
	for _, naive := range []bool{false, true} {
		name := "blahut.Run"
		if naive {
			name = "blahut.RunNaive"
		}
		l = append(l, scenario{name, "steps=50", "channel:zero-matrix", bl(naive, [][]float64{{0, 0}, {0, 0}}, 50)})
		l = append(l, scenario{name, "steps=50", "channel:identity", bl(naive, [][]float64{{1, 0}, {0, 1}}, 50)})
		l = append(l, scenario{name, "steps=50", "channel:NaN-entry", bl(naive, [][]float64{{math.NaN(), 1}, {0.5, 0.5}}, 50)})
		l = append(l, scenario{name, "steps=0", "channel:positive", bl(naive, [][]float64{{0.7, 0.3}, {0.2, 0.8}}, 0)})
		l = append(l, scenario{name, "steps<0", "channel:positive", bl(naive, [][]float64{{0.7, 0.3}, {0.2, 0.8}}, -3)})
	}
	// epsilon = 0 together with an explicit iteration limit is the legitimate "run k
	// iterations" use: these calls must return (appended last so that the indices of
	// the scenarios above stay what the findings files name)
	l = append(l,
		scenario{"rprop.Run", "epsilon=0/capped(50)", "quadratic", func(r *prng.Rand, o *objective) error {
			_, err := rprop.Run(o.scalar, x0vec(o), 0.01, []float64{1.2, 0.5}, rprop.Epsilon{Value: 0}, rprop.MaxIterations{Value: 50})
			return err
		}},
		scenario{"adam.Run", "epsilon=0/capped(50)", "quadratic", func(r *prng.Rand, o *objective) error {
			_, err := adam.Run(o.scalar, x0vec(o), adam.StepSize{Value: 0.05}, adam.Epsilon{Value: 0}, adam.MaxIterations{Value: 50})
			return err
		}},
		scenario{"newton.RunMin", "epsilon=0/capped(50)", "quadratic", func(r *prng.Rand, o *objective) error {
			_, err := newton.RunMin(o.scalar, x0vec(o), newton.Epsilon{Value: 0}, newton.MaxIterations{Value: 50})
			return err
		}},
		scenario{"bfgs.Run", "epsilon=0/capped(50)", "quadratic", func(r *prng.Rand, o *objective) error {
			_, err := bfgs.Run(o.scalar, x0vec(o), bfgs.Epsilon{Value: 0}, bfgs.MaxIterations{Value: 50})
			return err
		}},
		scenario{"saga.Run", "epsilon=0/capped(50)", "quadratic", sg(saga.Gamma{Value: 0.1}, saga.Epsilon{Value: 0}, saga.MaxIterations{Value: 50})},
	)
	// extreme magnitudes and non-finite start points (follow-up; appended last): every routine with
	// each of its admissible option routes, on the quadratic scaled by 1e-200 .. 1e+308 and from start
	// points with a coordinate of 1e-200 / 1e+200 / 1e+308 / NaN / +-Inf
	base := len(l)
	for _, s := range l[:base] {
		if s.Obj != "quadratic" || foldOpts(s.Opts) != "admissible-options" || strings.Contains(s.Opts, "/capped") {
			continue
		}
		for _, cl := range extremeObjClasses {
			l = append(l, scenario{s.Routine, s.Opts, cl, s.Call})
		}
	}
	for _, naive := range []bool{false, true} {
		name := "blahut.Run"
		if naive {
			name = "blahut.RunNaive"
		}
		l = append(l, scenario{name, "steps=50", "channel:entries=1e-200", bl(naive, [][]float64{{1e-200, 3e-200}, {2e-200, 1e-200}}, 50)})
		l = append(l, scenario{name, "steps=50", "channel:entries=subnormal", bl(naive, [][]float64{{5e-324, 1e-320}, {1e-320, 5e-324}}, 50)})
		l = append(l, scenario{name, "steps=50", "channel:entries=1e+200", bl(naive, [][]float64{{1e200, 3e200}, {2e200, 1e200}}, 50)})
		l = append(l, scenario{name, "steps=50", "channel:entries=mixed(1,1e-300)", bl(naive, [][]float64{{1, 1e-300}, {1e-300, 1}}, 50)})
		l = append(l, scenario{name, "steps=50", "channel:+Inf-entry", bl(naive, [][]float64{{math.Inf(1), 1}, {0.5, 0.5}}, 50)})
	}
	return l
}

func runScenario(cs *fw.Case, sc scenario) {
	o := newObjective(cs.R, sc.Obj)
	before := tickSnapshot()
	bud := budgetFor(sc.Routine)
	fw.SetTickBudget(bud)
	var err error
	p := fw.Call(func() { err = sc.Call(cs.R, o) })
	fw.SetTickBudget(0)
	used := tickDelta(before)
	if p == nil {
		for site, k := range used {
			cs.C.CoverMax("max:ticks-when-returned:"+site+":optimiser-scenarios", k)
		}
	}
	cs.Cover("call:" + sc.Routine)
	cs.Cover("set:scenario:" + sc.Routine + "|" + sc.Opts + "|" + sc.Obj)
	cs.Nontrivial(sc.Routine, sc.Opts, sc.Obj, o.a, o.b, o.x0)
	w := map[string]any{"routine": sc.Routine, "options": sc.Opts, "objective": sc.Obj, "a": o.a, "b": o.b, "x0": o.x0, "budget": bud}
	switch {
	case p != nil && p.Budget:
		cs.Cover("outcome:no-return:" + sc.Routine)
		fo, ob := foldOpts(sc.Opts), foldObj(sc.Obj)
		if fo != "admissible-options" {
			ob = "any-objective" // the inadmissible option value alone decides
		}
		// the loop that happens to exhaust the shared budget is not stable, so it is not part of the signature
		cs.Violation(fmt.Sprintf("C20|no-return|%s|%s|%s|loop-budget-exceeded", sc.Routine, fo, ob),
			fmt.Sprintf("%s(%s) on objective class %q did not return, fail or panic within %d loop iterations; iterations by site: %v; objective evaluations: %d",
				sc.Routine, sc.Opts, sc.Obj, bud, used, o.evals), w)
	case p != nil:
		cs.Cover("outcome:panic:" + sc.Routine)
	case err != nil:
		cs.Cover("outcome:error:" + sc.Routine)
		if strings.Contains(sc.Opts, "/capped") && strings.Contains(err.Error(), "epsilon") {
			// an explicit iteration limit makes epsilon <= 0 admissible
			cs.Violation(fmt.Sprintf("C20|rejected-admissible|%s|%s|%s|error", sc.Routine, "epsilon=0,explicit-MaxIterations", foldObj(sc.Obj)),
				fmt.Sprintf("%s rejected epsilon = 0 although MaxIterations bounds the run: %v", sc.Routine, err), w)
		}
	default:
		cs.Cover("outcome:returned:" + sc.Routine)
	}
	w["evaluations"] = o.evals
	cs.Sample(w)
}
