package c20

import (
	"math/big"
)

// charPoly returns the coefficients c[0..n] (c[n] = 1) of det(xI - A) by the
// Faddeev-LeVerrier recursion in exact rational arithmetic.
func charPoly(m matIn) []*big.Rat {
	n := m.Rows
	A := make([][]*big.Rat, n)
	for i := range A {
		A[i] = make([]*big.Rat, n)
		for j := range A[i] {
			A[i][j] = new(big.Rat).SetFloat64(m.at(i, j))
		}
	}
	c := make([]*big.Rat, n+1)
	c[n] = big.NewRat(1, 1)
	M := make([][]*big.Rat, n) // M_0 = 0
	for i := range M {
		M[i] = make([]*big.Rat, n)
		for j := range M[i] {
			M[i][j] = new(big.Rat)
		}
	}
	for k := 1; k <= n; k++ {
		// M_k = A M_{k-1} + c_{n-k+1} I
		N := make([][]*big.Rat, n)
		for i := range N {
			N[i] = make([]*big.Rat, n)
			for j := range N[i] {
				s := new(big.Rat)
				for l := 0; l < n; l++ {
					s.Add(s, new(big.Rat).Mul(A[i][l], M[l][j]))
				}
				if i == j {
					s.Add(s, c[n-k+1])
				}
				N[i][j] = s
			}
		}
		M = N
		// c_{n-k} = -tr(A M_k)/k
		tr := new(big.Rat)
		for i := 0; i < n; i++ {
			for l := 0; l < n; l++ {
				tr.Add(tr, new(big.Rat).Mul(A[i][l], M[l][i]))
			}
		}
		c[n-k] = tr.Mul(tr, big.NewRat(-1, int64(k)))
	}
	return c
}

func polyTrim(p []*big.Rat) []*big.Rat {
	for len(p) > 0 && p[len(p)-1].Sign() == 0 {
		p = p[:len(p)-1]
	}
	return p
}

// polyRem returns the remainder of a / b.
func polyRem(a, b []*big.Rat) []*big.Rat {
	r := make([]*big.Rat, len(a))
	for i := range a {
		r[i] = new(big.Rat).Set(a[i])
	}
	r = polyTrim(r)
	for len(r) >= len(b) && len(r) > 0 {
		q := new(big.Rat).Quo(r[len(r)-1], b[len(b)-1])
		sh := len(r) - len(b)
		for i := range b {
			r[i+sh].Sub(r[i+sh], new(big.Rat).Mul(q, b[i]))
		}
		r = polyTrim(r[:len(r)-1])
	}
	return r
}

func signChangesAt(chain [][]*big.Rat, at string) int {
	last, ch := 0, 0
	for _, p := range chain {
		if len(p) == 0 {
			continue
		}
		var s int
		switch at {
		case "-inf":
			s = p[len(p)-1].Sign()
			if (len(p)-1)%2 == 1 {
				s = -s
			}
		default: // "0"
			s = p[0].Sign()
		}
		if s == 0 {
			continue
		}
		if last != 0 && s != last {
			ch++
		}
		last = s
	}
	return ch
}

// spectrumClass labels a square matrix with exactly representable entries by
// whether it has an eigenvalue on the closed negative real axis (then it has
// no principal square root and the Denman-Beavers / Sherif iterations have no
// limit to converge to).
func spectrumClass(m matIn) string {
	if m.Rows != m.Cols || m.Rows == 0 || !m.Finite {
		return "spectrum:n/a"
	}
	p := charPoly(m)
	if p[0].Sign() == 0 {
		return "spectrum:singular"
	}
	d := make([]*big.Rat, len(p)-1)
	for i := 1; i < len(p); i++ {
		d[i-1] = new(big.Rat).Mul(p[i], big.NewRat(int64(i), 1))
	}
	chain := [][]*big.Rat{p, polyTrim(d)}
	for {
		a, b := chain[len(chain)-2], chain[len(chain)-1]
		if len(b) == 0 {
			break
		}
		r := polyRem(a, b)
		if len(r) == 0 {
			break
		}
		for i := range r {
			r[i].Neg(r[i])
		}
		chain = append(chain, r)
	}
	if signChangesAt(chain, "-inf")-signChangesAt(chain, "0") > 0 {
		return "spectrum:negative-real-eigenvalue"
	}
	return "spectrum:no-eigenvalue-on-closed-negative-real-axis"
}
