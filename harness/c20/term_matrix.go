// Bounded progress of the matrix routines (DESIGN.md C20 part a).
package c20

import (
	"fmt"
	"math"
	"strings"

	ad "github.com/pbenner/autodiff"
	"github.com/pbenner/autodiff/algorithm/determinant"
	"github.com/pbenner/autodiff/algorithm/eigensystem"
	"github.com/pbenner/autodiff/algorithm/matrixInverse"
	"github.com/pbenner/autodiff/algorithm/msqrt"
	"github.com/pbenner/autodiff/algorithm/msqrtInv"
	"github.com/pbenner/autodiff/algorithm/qrAlgorithm"
	"github.com/pbenner/autodiff/algorithm/svd"

	"verifharness/internal/fw"
	"verifharness/internal/prng"
)

// budget is the loop budget of one call on an n x n (or m x n, n = max) input:
// the number of Tick-hook events (all sites together) it may raise.  LAPACK's
// QR iterations give up after 30 n sweeps; well-behaved inputs of these sizes
// need a few dozen.
func budget(n int) int64 { return int64(1000*n + 10000) }

// budgetOf: one budget polynomial for every matrix routine.
func budgetOf(routine string, n int) int64 {
	return budget(n)
}

type matIn struct {
	Class      string
	Rows, Cols int
	V          []float64 // row major
	Finite     bool
}

func (m matIn) at(i, j int) float64 { return m.V[i*m.Cols+j] }

func (m matIn) symmetric() bool {
	if m.Rows != m.Cols {
		return false
	}
	for i := 0; i < m.Rows; i++ {
		for j := 0; j < i; j++ {
			if m.at(i, j) != m.at(j, i) {
				return false
			}
		}
	}
	return true
}

func (m matIn) build(real bool) ad.Matrix {
	var a ad.Matrix
	if real {
		a = ad.NullDenseReal64Matrix(m.Rows, m.Cols)
	} else {
		a = ad.NullDenseFloat64Matrix(m.Rows, m.Cols)
	}
	for i := 0; i < m.Rows; i++ {
		for j := 0; j < m.Cols; j++ {
			a.At(i, j).SetFloat64(m.at(i, j))
		}
	}
	return a
}

func (m matIn) describe() map[string]any {
	rows := make([]string, m.Rows)
	for i := range rows {
		rows[i] = fmt.Sprint(m.V[i*m.Cols : (i+1)*m.Cols])
	}
	return map[string]any{"class": m.Class, "rows": m.Rows, "cols": m.Cols, "matrix": rows}
}

func sq(class string, n int, v ...float64) matIn {
	fin := true
	for _, x := range v {
		if math.IsNaN(x) || math.IsInf(x, 0) {
			fin = false
		}
	}
	return matIn{Class: class, Rows: n, Cols: n, V: v, Finite: fin}
}

// class2x2 labels a 2x2 matrix by the structure the QR iterations branch on.
func class2x2(a, b, c, d float64) string {
	switch {
	case a == 0 && b == 0 && c == 0 && d == 0:
		return "2x2:zero"
	case b == 0 && c == 0:
		if a == d {
			return "2x2:scalar"
		}
		return "2x2:diagonal"
	case c == 0:
		if a == d {
			return "2x2:upper-triangular,repeated-eigenvalue(defective)"
		}
		return "2x2:upper-triangular"
	case b == 0:
		if a == d {
			return "2x2:lower-triangular,repeated-eigenvalue(defective)"
		}
		return "2x2:lower-triangular"
	}
	disc := (a-d)*(a-d) + 4*b*c
	var s []string
	if a == d {
		s = append(s, "equal-diagonal")
	} else {
		s = append(s, "unequal-diagonal")
	}
	switch {
	case disc < 0:
		s = append(s, "complex-eigenvalues")
	case disc == 0:
		s = append(s, "repeated-eigenvalue(defective)")
	default:
		s = append(s, "real-distinct-eigenvalues")
	}
	if a*d-b*c == 0 {
		s = append(s, "singular")
	}
	return "2x2:" + strings.Join(s, ",")
}

// directedMatrices: structure named in the property statement, sizes 0..6.
func directedMatrices() []matIn {
	var l []matIn
	l = append(l, matIn{Class: "size-0", Rows: 0, Cols: 0, Finite: true})
	l = append(l, sq("size-1:zero", 1, 0), sq("size-1", 1, 3), sq("size-1:negative", 1, -2))
	for n := 2; n <= 6; n++ {
		z := make([]float64, n*n)
		l = append(l, sq(fmt.Sprintf("zero,n=%d", n), n, z...))
		id := make([]float64, n*n)
		sc := make([]float64, n*n)
		dr := make([]float64, n*n)
		nil_ := make([]float64, n*n)
		jor := make([]float64, n*n)
		jneg := make([]float64, n*n)
		r1 := make([]float64, n*n)
		dup := make([]float64, n*n)
		ones := make([]float64, n*n)
		for i := 0; i < n; i++ {
			id[i*n+i] = 1
			sc[i*n+i] = -3
			dr[i*n+i] = float64(1 + i/2) // every value twice
			jor[i*n+i] = 2
			jneg[i*n+i] = -1
			if i+1 < n {
				nil_[i*n+i+1] = 1
				jor[i*n+i+1] = 1
				jneg[i*n+i+1] = 1
			}
			for j := 0; j < n; j++ {
				r1[i*n+j] = float64((i + 1) * (j + 2))
				dup[i*n+j] = float64((i%2)*3 + j + 1) // only two distinct rows
				ones[i*n+j] = 1
			}
		}
		l = append(l, sq(fmt.Sprintf("identity,n=%d", n), n, id...), sq(fmt.Sprintf("scalar-negative,n=%d", n), n, sc...),
			sq(fmt.Sprintf("diagonal-repeated,n=%d", n), n, dr...), sq(fmt.Sprintf("nilpotent-jordan,n=%d", n), n, nil_...),
			sq(fmt.Sprintf("jordan-block(2),n=%d", n), n, jor...), sq(fmt.Sprintf("jordan-block(-1),n=%d", n), n, jneg...),
			sq(fmt.Sprintf("rank-1,n=%d", n), n, r1...), sq(fmt.Sprintf("rank-2-duplicate-rows,n=%d", n), n, dup...), sq(fmt.Sprintf("all-ones,n=%d", n), n, ones...))
		// companion matrices of (x-1)^n, (x-1)^(n-1) (x+2), x^n - 1 (roots of unity), x^n
		for _, cp := range []struct {
			name  string
			roots []float64
		}{{"companion:(x-1)^n", repeat(1, n)}, {"companion:(x-1)^(n-1)(x+2)", append(repeat(1, n-1), -2)}, {"companion:(x-2)^2...", append([]float64{2, 2}, seq(n-2)...)}} {
			l = append(l, sq(fmt.Sprintf("%s,n=%d", cp.name, n), n, companion(polyFromRoots(cp.roots))...))
		}
		unity := make([]float64, n+1)
		unity[0], unity[n] = -1, 1
		l = append(l, sq(fmt.Sprintf("companion:x^n-1(cyclic-shift),n=%d", n), n, companion(unity)...))
		// symmetric special cases
		sym := make([]float64, n*n)
		for i := 0; i < n; i++ {
			for j := 0; j < n; j++ {
				if i != j {
					sym[i*n+j] = 1
				}
			}
		}
		l = append(l, sq(fmt.Sprintf("symmetric:zero-diagonal-ones,n=%d", n), n, sym...))
		tri := make([]float64, n*n)
		for i := 0; i < n; i++ {
			tri[i*n+i] = 2
			if i+1 < n {
				tri[i*n+i+1], tri[(i+1)*n+i] = -1, -1
			}
		}
		l = append(l, sq(fmt.Sprintf("symmetric:tridiagonal(-1,2,-1),n=%d", n), n, tri...))
	}
	// the witness named in the design's pre-survey and its relatives
	l = append(l, sq(class2x2(1, -2, -3, 1), 2, 1, -2, -3, 1), sq(class2x2(0, 1, 1, 0), 2, 0, 1, 1, 0), sq(class2x2(2, 1, 4, 2), 2, 2, 1, 4, 2))
	// witnesses of no-return classes first seen in the sampled small-integer list
	l = append(l,
		sq("witness:msqrt,no-eigenvalue-on-negative-axis,n=3", 3, -2, 1, 2, 1, 2, 1, 0, 2, -2),
		sq("witness:msqrtInv,no-eigenvalue-on-negative-axis,n=3", 3, 0, 0, 2, 2, -2, 0, 0, 1, -2),
		sq("witness:msqrtInv,singular,n=3", 3, -2, 0, 0, 0, 2, -1, -2, 0, 0),
		sq("witness:qr,block2x2-stall,n=4", 4, 0, 0, 0, 0, 1, 0, 1, -1, -1, 0, 0, 0, -1, 0, 0, 0),
		sq("witness:qr,francis-stall,n=5", 5, 0, 0, 0, 0, 0, 0, 0, 0, 1, 0, 1, 0, 0, -2, 1, -2, 0, 0, 0, 0, 0, 1, -1, 0, 0),
		sq("witness:qr,block2x2-cycle,n=4", 4, 0, 0, -1, 0, 0, 0, 0, 1, -1, 0, 0, 0, 0, 0, 0, 0),
		sq("witness:qr-symmetric,stall,n=4", 4, 1, 1, 1, 0, 1, 0, 0, 1, 1, 0, 0, -1, 0, 1, -1, 1),
		sq("witness:msqrt,singular,n=5", 5, 1, 2, -1, -2, 2, 2, 1, -2, 1, 1, -1, -1, 1, -1, -1, 2, 1, -2, 0, 1, -1, 2, -1, 1, 1),
		sq("witness:svd,singular,n=4", 4, -1, -2, 2, -1, 2, -2, 2, -2, 0, 0, 0, 0, 0, 0, -2, 2),
		sq("witness:svd,singular,n=5", 5, -1, 1, 1, -1, 1, 0, 1, 1, 1, 0, 0, -1, 0, -1, 1, 0, 0, 0, -1, 0, 0, 0, 0, 1, 0))
	// non-finite entries
	for _, bad := range []struct {
		name string
		v    float64
	}{{"NaN", math.NaN()}, {"+Inf", math.Inf(1)}, {"-Inf", math.Inf(-1)}} {
		for n := 1; n <= 3; n++ {
			for pos := 0; pos < n*n; pos += n + 1 + pos%2 {
				v := make([]float64, n*n)
				for i := range v {
					v[i] = float64(i%3 + 1)
				}
				v[pos] = bad.v
				l = append(l, sq(fmt.Sprintf("nonfinite-entry:%s,n=%d", bad.name, n), n, v...))
			}
		}
	}
	// rectangular for the SVD
	for _, d := range [][2]int{{3, 2}, {4, 2}, {5, 3}, {3, 1}, {2, 0}} {
		z := make([]float64, d[0]*d[1])
		l = append(l, matIn{Class: fmt.Sprintf("rectangular-zero,%dx%d", d[0], d[1]), Rows: d[0], Cols: d[1], V: z, Finite: true})
		o := make([]float64, d[0]*d[1])
		r := make([]float64, d[0]*d[1])
		for i := range o {
			o[i] = 1
			r[i] = float64((i/max(d[1], 1))%2 + 1)
		}
		l = append(l, matIn{Class: fmt.Sprintf("rectangular-rank-1,%dx%d", d[0], d[1]), Rows: d[0], Cols: d[1], V: o, Finite: true})
		l = append(l, matIn{Class: fmt.Sprintf("rectangular-rank-deficient,%dx%d", d[0], d[1]), Rows: d[0], Cols: d[1], V: r, Finite: true})
	}
	return l
}

func repeat(x float64, n int) []float64 {
	r := make([]float64, n)
	for i := range r {
		r[i] = x
	}
	return r
}

func seq(n int) []float64 {
	r := make([]float64, n)
	for i := range r {
		r[i] = float64(-i - 1)
	}
	return r
}

// polyFromRoots returns the coefficients c[0..n] (c[n] = 1) of prod (x - r_i).
func polyFromRoots(roots []float64) []float64 {
	c := []float64{1}
	for _, r := range roots {
		nc := make([]float64, len(c)+1)
		for i, v := range c {
			nc[i+1] += v
			nc[i] -= r * v
		}
		c = nc
	}
	return c
}

// companion matrix (ones on the sub-diagonal, -c_i in the last column).
func companion(c []float64) []float64 {
	n := len(c) - 1
	v := make([]float64, n*n)
	for i := 0; i < n; i++ {
		if i > 0 {
			v[i*n+i-1] = 1
		}
		v[i*n+n-1] = -c[i]
	}
	return v
}

func randomSmallInt(r *prng.Rand) matIn {
	n := r.Range(3, 6)
	kind := r.Pick([]string{"small-int", "small-int", "small-int-symmetric", "small-int-sparse", "small-int-upper-hessenberg", "small-int-singular"})
	lim := r.PickI([]int{1, 2, 2, 3})
	v := make([]float64, n*n)
	for i := range v {
		v[i] = float64(r.Range(-lim, lim))
	}
	switch kind {
	case "small-int-symmetric":
		for i := 0; i < n; i++ {
			for j := 0; j < i; j++ {
				v[i*n+j] = v[j*n+i]
			}
		}
	case "small-int-sparse":
		for i := range v {
			if r.Chance(0.6) {
				v[i] = 0
			}
		}
	case "small-int-upper-hessenberg":
		for i := 0; i < n; i++ {
			for j := 0; j+1 < i; j++ {
				v[i*n+j] = 0
			}
		}
	case "small-int-singular":
		k := r.Intn(n)
		src := (k + 1) % n
		for j := 0; j < n; j++ {
			v[k*n+j] = v[src*n+j]
		}
	}
	return sq(fmt.Sprintf("%s,n=%d", kind, n), n, v...)
}

/* the routines
 * -------------------------------------------------------------------------- */

type matRoutine struct {
	Name string
	Opts string
	Sym  bool // needs a symmetric input to be a valid call
	Rect bool // accepts rows > cols
	Call func(a ad.Matrix) error
}

func qrRun(args ...interface{}) func(a ad.Matrix) error {
	return func(a ad.Matrix) error { _, _, err := qrAlgorithm.Run(a, args...); return err }
}

var matRoutines = []matRoutine{
	{"qrAlgorithm.Run", "epsilon=default,computeU=false", false, false, qrRun()},
	{"qrAlgorithm.Run", "epsilon=default,computeU=true", false, false, qrRun(qrAlgorithm.ComputeU{Value: true})},
	{"qrAlgorithm.Run", "symmetric,epsilon=default,computeU=true", true, false, qrRun(qrAlgorithm.Symmetric{Value: true}, qrAlgorithm.ComputeU{Value: true})},
	{"eigensystem.Run", "default", false, false, func(a ad.Matrix) error { _, _, err := eigensystem.Run(a); return err }},
	{"eigensystem.Run", "symmetric", true, false, func(a ad.Matrix) error {
		_, _, err := eigensystem.Run(a, eigensystem.Symmetric{Value: true}, qrAlgorithm.Symmetric{Value: true})
		return err
	}},
	{"svd.Run", "computeU=false,computeV=false", false, true, func(a ad.Matrix) error { _, _, _, err := svd.Run(a); return err }},
	{"svd.Run", "computeU=true,computeV=true", false, true, func(a ad.Matrix) error {
		_, _, _, err := svd.Run(a, svd.ComputeU{Value: true}, svd.ComputeV{Value: true})
		return err
	}},
	{"msqrt.Run", "default", false, false, func(a ad.Matrix) error { _, err := msqrt.Run(a.CloneMatrix()); return err }},
	{"msqrtInv.Run", "default", false, false, func(a ad.Matrix) error { _, err := msqrtInv.Run(a.CloneMatrix()); return err }},
	{"determinant.Run", "default", false, false, func(a ad.Matrix) error { _, err := determinant.Run(a); return err }},
	{"determinant.Run", "positiveDefinite,logScale", true, false, func(a ad.Matrix) error {
		_, err := determinant.Run(a, determinant.PositiveDefinite{Value: true}, determinant.LogScale{Value: true})
		return err
	}},
	{"matrixInverse.Run", "default", false, false, func(a ad.Matrix) error { _, err := matrixInverse.Run(a); return err }},
	{"matrixInverse.Run", "positiveDefinite", true, false, func(a ad.Matrix) error {
		_, err := matrixInverse.Run(a, matrixInverse.PositiveDefinite{Value: true})
		return err
	}},
}

// bounded runs one call under the loop budget.
func bounded(bud int64, f func() error) (p *fw.Panic, err error, used map[string]int64) {
	before := tickSnapshot()
	fw.SetTickBudget(bud)
	p = fw.Call(func() { err = f() })
	fw.SetTickBudget(0)
	return p, err, tickDelta(before)
}

// qrClass is the input class of a QR-iteration no-return: the structure of a
// 2x2 input, else the loop that did not finish together with what the same
// call does when the deflation threshold is relaxed from 1e-18 to 1e-8 (a
// stall just above an unreachable threshold vs. a genuine cycle).
func qrClass(m matIn, site string, real bool, args ...interface{}) string {
	if m.Rows == 2 {
		return class2x2(m.at(0, 0), m.at(0, 1), m.at(1, 0), m.at(1, 1))
	}
	p, _, _ := bounded(budget(m.Rows), func() error {
		_, _, err := qrAlgorithm.Run(m.build(real), append(append([]interface{}{}, args...), qrAlgorithm.Epsilon{Value: 1e-8})...)
		return err
	})
	if p != nil && p.Budget {
		return "n>2:cycles-also-with-epsilon=1e-8"
	}
	return "n>2:returns-with-epsilon=1e-8"
}

type noReturn struct {
	site string
	used map[string]int64
}

// runMatrix drives every routine on one input and judges bounded progress.
//
// withSqrt: the matrix square root iterations invert two matrices per step and
// exhaust their budget on most inputs with a negative eigenvalue; in the
// sampled list they are driven on every fourth input only.
func runMatrix(cs *fw.Case, m matIn, real bool, withSqrt bool) {
	n := max(m.Rows, m.Cols)
	entered := false
	failed := map[string]noReturn{} // routine|opts -> no-return
	report := func(routine, opts, class string, nr noReturn) {
		cs.Cover("outcome:no-return:" + routine)
		cs.Violation(fmt.Sprintf("C20|no-return|%s|%s|%s|%s", routine, opts, class, nr.site),
			fmt.Sprintf("%s(%s) did not return within %d loop iterations (n=%d) on %v [%s]; iterations by site: %v",
				routine, opts, budgetOf(routine, n), n, m.describe()["matrix"], m.Class, nr.used),
			map[string]any{"routine": routine, "options": opts, "input": m.describe(), "elementType": map[bool]string{false: "Float64", true: "Real64"}[real], "budget": budgetOf(routine, n)})
	}
	for _, rt := range matRoutines {
		if m.Rows != m.Cols && !rt.Rect {
			continue
		}
		if rt.Sym && !m.symmetric() {
			continue
		}
		if !withSqrt && (rt.Name == "msqrt.Run" || rt.Name == "msqrtInv.Run") {
			continue
		}
		a := m.build(real)
		p, err, used := bounded(budgetOf(rt.Name, n), func() error { return rt.Call(a) })
		total := int64(0)
		for site, k := range used {
			total += k
			if p == nil {
				// how far normal behaviour is from the budget
				cs.C.CoverMax(fmt.Sprintf("max:ticks-when-returned:%s:n=%d", site, n), k)
			}
		}
		if total > 0 {
			entered = true
		}
		cs.Cover("call:" + rt.Name)
		switch {
		case p != nil && p.Budget:
			if !m.Finite {
				// the termination clause names finite inputs; the second sentence of the statement and
				// its quantifier include non-finite entries: the call must still come back
				cs.Cover("observed:nonfinite-input:no-return:" + rt.Name)
				report(rt.Name, rt.Opts, extremeClass(m), noReturn{p.Site, used})
				continue
			}
			failed[rt.Name+"|"+rt.Opts] = noReturn{p.Site, used}
		case p != nil:
			cs.Cover("outcome:panic:" + rt.Name)
		case err != nil:
			cs.Cover("outcome:error:" + rt.Name)
		default:
			cs.Cover("outcome:returned:" + rt.Name)
		}
	}
	// --- attribute and fold ------------------------------------------------
	qf, okF := failed["qrAlgorithm.Run|epsilon=default,computeU=false"]
	qt, okT := failed["qrAlgorithm.Run|epsilon=default,computeU=true"]
	switch {
	case okF && okT && qf.site == qt.site:
		report("qrAlgorithm.Run", "epsilon=default,computeU=any", qrClass(m, qf.site, real), qf)
	default:
		if okF {
			report("qrAlgorithm.Run", "epsilon=default,computeU=false", qrClass(m, qf.site, real), qf)
		}
		if okT {
			report("qrAlgorithm.Run", "epsilon=default,computeU=true", qrClass(m, qt.site, real, qrAlgorithm.ComputeU{Value: true}), qt)
		}
	}
	if nr, ok := failed["qrAlgorithm.Run|symmetric,epsilon=default,computeU=true"]; ok {
		report("qrAlgorithm.Run", "symmetric,epsilon=default,computeU=true", qrClass(m, nr.site, real, qrAlgorithm.Symmetric{Value: true}, qrAlgorithm.ComputeU{Value: true}), nr)
	}
	for _, opts := range []string{"default", "symmetric"} {
		if nr, ok := failed["eigensystem.Run|"+opts]; ok {
			// eigensystem.Run calls qrAlgorithm.Run(ComputeU{true}); a no-return of that
			// callee on the same input is reported once, at the callee
			if okT && qt.site == nr.site {
				cs.Cover("attributed-to-callee:eigensystem.Run->qrAlgorithm.Run")
				continue
			}
			if qs, ok := failed["qrAlgorithm.Run|symmetric,epsilon=default,computeU=true"]; ok && opts == "symmetric" && qs.site == nr.site {
				cs.Cover("attributed-to-callee:eigensystem.Run->qrAlgorithm.Run")
				continue
			}
			report("eigensystem.Run", opts, qrClass(m, nr.site, real, qrAlgorithm.ComputeU{Value: true}), nr)
		}
	}
	sF, okF := failed["svd.Run|computeU=false,computeV=false"]
	sT, okT := failed["svd.Run|computeU=true,computeV=true"]
	gen := strings.Split(m.Class, ",n=")[0]
	svdClass := gen
	if m.Rows == m.Cols && m.Rows > 0 && m.Finite {
		// rank decides which branch (zeroRow vs. Golub-Kahan step) the iteration takes
		if charPoly(m)[0].Sign() == 0 {
			svdClass = "square:singular"
		} else {
			svdClass = "square:nonsingular"
		}
	}
	switch {
	case okF && okT:
		report("svd.Run", "computeU/V=any", svdClass, sF)
	case okF:
		report("svd.Run", "computeU=false,computeV=false", svdClass, sF)
	case okT:
		report("svd.Run", "computeU=true,computeV=true", svdClass, sT)
	}
	for _, name := range []string{"msqrt.Run", "msqrtInv.Run"} {
		if nr, ok := failed[name+"|default"]; ok {
			report(name, "default", spectrumClass(m), nr)
		}
	}
	for _, key := range []string{"determinant.Run|default", "determinant.Run|positiveDefinite,logScale", "matrixInverse.Run|default", "matrixInverse.Run|positiveDefinite"} {
		if nr, ok := failed[key]; ok {
			parts := strings.SplitN(key, "|", 2)
			report(parts[0], parts[1], gen, nr)
		}
	}
	if entered {
		cs.Nontrivial(m.Class, m.V, real)
	}
	cs.Cover("set:input-class:" + gen)
	if m.Rows == m.Cols && m.Rows > 0 && m.Finite {
		cs.Cover("input-" + spectrumClass(m))
	}
	cs.Sample(map[string]any{"input": m.describe(), "real64": real})
}

func tickSnapshot() map[string]int64 {
	s := map[string]int64{}
	for _, site := range fw.TickSites() {
		s[site] = fw.TickCount(site)
	}
	return s
}

func tickDelta(before map[string]int64) map[string]int64 {
	d := map[string]int64{}
	for _, site := range fw.TickSites() {
		if k := fw.TickCount(site) - before[site]; k > 0 {
			d[site] = k
		}
	}
	return d
}
