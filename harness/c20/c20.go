// Package c20: every routine terminates and fails loudly on invalid use
// (DESIGN.md, C20).  Part (a): bounded progress in logical loop steps (Tick
// hook budgets) on structured / degenerate inputs; part (b): misuse calls of
// every public container operation and algorithm entry point must panic or
// return an error.
package c20

import (
	"time"

	"verifharness/internal/fw"
	"verifharness/internal/prng"
)

func Run(c *fw.Ctx) {
	/* (a) bounded progress ------------------------------------------------ */
	dm := directedMatrices()
	c.Cases("no-return.directed", 2*len(dm), func(cs *fw.Case) {
		cs.SetCPUBudget(30 * time.Second)
		runMatrix(cs, dm[cs.Index/2], cs.Index%2 == 1, true)
	})
	// all 2x2 matrices with entries in {-2..2}
	c.Cases("no-return.2x2", 625, func(cs *fw.Case) {
		cs.SetCPUBudget(30 * time.Second)
		k := cs.Index
		e := func() float64 { v := float64(k%5 - 2); k /= 5; return v }
		a, b, cc, d := e(), e(), e(), e()
		runMatrix(cs, sq(class2x2(a, b, cc, d), 2, a, b, cc, d), false, true)
	})
	c.Cases("no-return.small-int", c.N(3000, 50000), func(cs *fw.Case) {
		cs.SetCPUBudget(30 * time.Second)
		runMatrix(cs, randomSmallInt(cs.R), cs.R.Chance(0.2), cs.Index%4 == 0)
	})
	// operands of extreme magnitude (underflow / overflow / subnormal / mixed scales / zero diagonal
	// with tiny off-diagonal entries) and with one non-finite entry: every iterative routine, every
	// option route, sizes 1..4
	edCore, ed := extremeDirected()
	c.Cases("no-return.extreme.directed", c.N(len(edCore), 2*len(ed)), func(cs *fw.Case) {
		cs.SetCPUBudget(10 * time.Second)
		// quick: the core list (a prefix of the full list) once, every third input with Real64 elements;
		// thorough: the full list (all positions of the non-finite entry for n = 3, 4) and a second pass
		// with the other element type
		real := cs.Index%3 == 2
		if cs.Index >= len(ed) {
			real = !real
		}
		runExtreme(cs, ed[cs.Index%len(ed)], real)
	})
	c.Cases("no-return.extreme.random", c.N(300, 8000), func(cs *fw.Case) {
		cs.SetCPUBudget(10 * time.Second)
		runExtreme(cs, randomExtreme(cs.R), cs.R.Chance(0.3))
	})
	sc := optScenarios()
	reps := c.N(2, 12)
	c.Cases("no-return.optimisers", reps*len(sc), func(cs *fw.Case) {
		cs.SetCPUBudget(30 * time.Second)
		if cs.Index < len(sc) {
			cs.R = prng.For(20261003, "no-return.optimisers", cs.Index) // first pass independent of VERIF_SEED
		}
		runScenario(cs, sc[cs.Index%len(sc)])
	})
	// determinant.Run (cofactor expansion): steps counted as heap allocations
	c.Cases("no-return.determinant", 6, func(cs *fw.Case) {
		cs.SetCPUBudget(60 * time.Second)
		runDeterminantGrowth(cs, 5+cs.Index)
	})
	/* (b) loud failure ---------------------------------------------------- */
	runMisuse(c)
	/* (c) in-place methods on views: return or panic, never hang -------------- */
	runInplaceViews(c)
}
