// Bounded progress on operands of extreme magnitude and with non-finite
// entries (DESIGN.md C20 part a, follow-up): every iterative matrix routine
// and every option route is driven on matrices of size 1..4 whose entries
// underflow / overflow when squared (1e-200, 1e-160, 1e+160, 1e+200 ...), are
// subnormal, mix scales, have an exactly zero diagonal with tiny off-diagonal
// entries, or contain one NaN / +Inf / -Inf entry.  The verdict is the one of
// the other no-return monitors: a call that returns a value, returns an error
// or panics within the Tick budget is fine, a call that exhausts the budget is
// the violation.  Non-finite entries are judged here (the termination clause
// of the statement names finite inputs, its second sentence and the quantifier
// include non-finite entries: the call must still come back).
package c20

import (
	"fmt"
	"math"
	"strings"

	ad "github.com/pbenner/autodiff"
	"github.com/pbenner/autodiff/algorithm/eigensystem"
	"github.com/pbenner/autodiff/algorithm/msqrt"
	"github.com/pbenner/autodiff/algorithm/msqrtInv"
	"github.com/pbenner/autodiff/algorithm/qrAlgorithm"
	"github.com/pbenner/autodiff/algorithm/svd"

	"verifharness/internal/fw"
	"verifharness/internal/prng"
)

// iterRoutines: the routines with a data-dependent loop, one entry per option
// route (the option sets that select another loop, another stopping rule or
// another amount of accumulated work inside the loop).
var iterRoutines = []matRoutine{
	{"qrAlgorithm.Run", "default", false, false, qrRun()},
	{"qrAlgorithm.Run", "computeU", false, false, qrRun(qrAlgorithm.ComputeU{Value: true})},
	{"qrAlgorithm.Run", "epsilon=1e-8", false, false, qrRun(qrAlgorithm.Epsilon{Value: 1e-8})},
	{"qrAlgorithm.Run", "symmetric", true, false, qrRun(qrAlgorithm.Symmetric{Value: true})},
	{"qrAlgorithm.Run", "symmetric,computeU", true, false, qrRun(qrAlgorithm.Symmetric{Value: true}, qrAlgorithm.ComputeU{Value: true})},
	{"qrAlgorithm.Run", "symmetric,epsilon=1e-8", true, false, qrRun(qrAlgorithm.Symmetric{Value: true}, qrAlgorithm.Epsilon{Value: 1e-8})},
	{"eigensystem.Run", "default", false, false, func(a ad.Matrix) error { _, _, err := eigensystem.Run(a); return err }},
	{"eigensystem.Run", "computeEigenvectors=false", false, false, func(a ad.Matrix) error {
		_, _, err := eigensystem.Run(a, eigensystem.ComputeEigenvectors{Value: false})
		return err
	}},
	{"eigensystem.Run", "symmetric", true, false, func(a ad.Matrix) error {
		_, _, err := eigensystem.Run(a, eigensystem.Symmetric{Value: true}, qrAlgorithm.Symmetric{Value: true})
		return err
	}},
	{"eigensystem.Run", "symmetric,computeEigenvectors=false", true, false, func(a ad.Matrix) error {
		_, _, err := eigensystem.Run(a, eigensystem.Symmetric{Value: true}, qrAlgorithm.Symmetric{Value: true}, eigensystem.ComputeEigenvectors{Value: false})
		return err
	}},
	{"svd.Run", "default", false, true, func(a ad.Matrix) error { _, _, _, err := svd.Run(a); return err }},
	{"svd.Run", "computeU,computeV", false, true, func(a ad.Matrix) error {
		_, _, _, err := svd.Run(a, svd.ComputeU{Value: true}, svd.ComputeV{Value: true})
		return err
	}},
	{"svd.Run", "computeU", false, true, func(a ad.Matrix) error { _, _, _, err := svd.Run(a, svd.ComputeU{Value: true}); return err }},
	{"svd.Run", "computeV", false, true, func(a ad.Matrix) error { _, _, _, err := svd.Run(a, svd.ComputeV{Value: true}); return err }},
	{"svd.Run", "epsilon=1e-8", false, true, func(a ad.Matrix) error { _, _, _, err := svd.Run(a, svd.Epsilon{Value: 1e-8}); return err }},
	{"msqrt.Run", "default", false, false, func(a ad.Matrix) error { _, err := msqrt.Run(a.CloneMatrix()); return err }},
	{"msqrtInv.Run", "default", false, false, func(a ad.Matrix) error { _, err := msqrtInv.Run(a.CloneMatrix()); return err }},
}

// symmetricPos: symmetric by position (a NaN mirrors a NaN): what the caller of
// a Symmetric{true} route promises.
func (m matIn) symmetricPos() bool {
	if m.Rows != m.Cols {
		return false
	}
	for i := 0; i < m.Rows; i++ {
		for j := 0; j < i; j++ {
			if math.Float64bits(m.at(i, j)) != math.Float64bits(m.at(j, i)) && !(math.IsNaN(m.at(i, j)) && math.IsNaN(m.at(j, i))) {
				return false
			}
		}
	}
	return true
}

// extremeClass is the input class of the signatures of this monitor, computed
// from the matrix: non-finite(NaN) / non-finite(Inf), else the magnitude regime
// of its entries (a square of an entry below 1e-154 underflows, above 1e+154 it
// overflows: tiny / huge / mixed-scale / ordinary), whether the diagonal is
// exactly zero next to non-zero off-diagonal entries (a deflation test
// relative to the diagonal then compares with 0), and the size class (1, 2,
// larger: a 2x2 input never enters the Francis stage).
func extremeClass(m matIn) string {
	nan, inf, tiny, huge := false, false, false, false
	for _, x := range m.V {
		a := math.Abs(x)
		switch {
		case math.IsNaN(x):
			nan = true
		case math.IsInf(x, 0):
			inf = true
		case a == 0:
		case a < 1e-154:
			tiny = true
		case a > 1e154:
			huge = true
		}
	}
	var parts []string
	switch {
	case nan:
		parts = append(parts, "entries=non-finite(NaN)")
	case inf:
		parts = append(parts, "entries=non-finite(Inf)")
	case tiny && huge:
		parts = append(parts, "entries=mixed-scale(squares-underflow-and-overflow)")
	case tiny:
		parts = append(parts, "entries=tiny(squares-underflow)")
	case huge:
		parts = append(parts, "entries=huge(squares-overflow)")
	default:
		parts = append(parts, "entries=ordinary")
	}
	if m.Rows == m.Cols && m.Rows >= 2 {
		zd, off := true, false
		for i := 0; i < m.Rows; i++ {
			for j := 0; j < m.Cols; j++ {
				if i == j && m.at(i, j) != 0 {
					zd = false
				}
				if i != j && m.at(i, j) != 0 {
					off = true
				}
			}
		}
		if zd && off {
			parts = append(parts, "zero-diagonal")
		}
	}
	switch n := max(m.Rows, m.Cols); {
	case m.Rows != m.Cols:
		parts = append(parts, "rectangular")
	case n <= 2:
		parts = append(parts, fmt.Sprintf("n=%d", n))
	default:
		parts = append(parts, "n>2")
	}
	return strings.Join(parts, ";")
}

var extremeScales = []struct {
	name string
	s    float64
}{
	{"1e-200", 1e-200}, {"1e-160", 1e-160}, {"1e-320(subnormal)", 1e-320}, {"5e-324(smallest-subnormal)", 5e-324},
	{"2.3e-308(smallest-normal)", 2.2250738585072014e-308}, {"1e+160", 1e160}, {"1e+200", 1e200}, {"MaxFloat64", math.MaxFloat64},
}

var extMult = []float64{1, 0.5, -0.75, 0.25}

// ordinaryBase: a well-behaved matrix with distinct real parts, no zero entry
func ordinaryBase(n int, symmetric bool) []float64 {
	v := make([]float64, n*n)
	for i := 0; i < n; i++ {
		for j := 0; j < n; j++ {
			if symmetric {
				lo, hi := min(i, j), max(i, j)
				v[i*n+j] = float64((lo*3+hi*5)%7) - 3.5
			} else {
				v[i*n+j] = float64((i*3+j*5+i*j)%7) - 3.5
			}
			if i == j {
				v[i*n+j] += float64(2 * (i + 1))
			}
		}
	}
	return v
}

// extremeDirected enumerates pattern x scale x size (1..4) and the non-finite
// entry positions.
func extremeDirected() (core []matIn, all []matIn) {
	var l, extra []matIn
	// core list (quick tier): every pattern with every scale for n <= 2, with three of the eight scales
	// for n = 3 (1e-200, 1e-320, 1e+200) and n = 4 (1e-160, 5e-324, MaxFloat64); the rest of the cross
	// product is in the extra list (thorough tier)
	si := 0
	add := func(pattern, scale string, n int, v []float64) {
		m := sq(fmt.Sprintf("extreme:%s(s=%s),n=%d", pattern, scale, n), n, v...)
		if n <= 2 || (n == 3 && (si == 0 || si == 2 || si == 6)) || (n == 4 && (si == 1 || si == 3 || si == 7)) {
			l = append(l, m)
		} else {
			extra = append(extra, m)
		}
	}
	for k, sc := range extremeScales {
		si = k
		s := sc.s
		for n := 1; n <= 4; n++ {
			z := func() []float64 { return make([]float64, n*n) }
			// all entries of the scale s
			u, us := z(), z()
			for i := 0; i < n; i++ {
				for j := 0; j < n; j++ {
					u[i*n+j] = s * extMult[(2*i+3*j)%4]
					us[i*n+j] = s * extMult[(i+j)%4]
				}
			}
			add("all-entries=s*m", sc.name, n, u)
			add("symmetric,all-entries=s*m", sc.name, n, us)
			if n == 1 {
				continue
			}
			// exactly zero diagonal, off-diagonal entries of the scale s
			t, f, tn := z(), z(), z()
			for i := 0; i < n; i++ {
				for j := 0; j < n; j++ {
					if i != j {
						f[i*n+j] = s
					}
				}
				if i+1 < n {
					t[i*n+i+1], t[(i+1)*n+i] = s, s
					tn[i*n+i+1], tn[(i+1)*n+i] = s, -0.5*s
				}
			}
			add("zero-diagonal,tridiagonal,off-diagonal=s", sc.name, n, t)
			add("zero-diagonal,off-diagonal=s", sc.name, n, f)
			add("zero-diagonal,tridiagonal,off-diagonal=(s,-s/2)", sc.name, n, tn)
			// identity plus s; diagonal s plus ordinary off-diagonal entries
			a, b := z(), z()
			for i := 0; i < n; i++ {
				for j := 0; j < n; j++ {
					if i == j {
						a[i*n+j], b[i*n+j] = 1, s
					} else {
						a[i*n+j], b[i*n+j] = s, 1
					}
				}
			}
			add("symmetric,diagonal=1,off-diagonal=s", sc.name, n, a)
			add("symmetric,diagonal=s,off-diagonal=1", sc.name, n, b)
			// graded: entries run from 1 to s
			g, gr := z(), z()
			for i := 0; i < n; i++ {
				for j := 0; j < n; j++ {
					g[i*n+j] = math.Pow(s, float64(i+j)/float64(2*(n-1))) * extMult[(i+j)%4]
					gr[i*n+j] = math.Pow(s, float64(i)/float64(n-1)) * extMult[(2*i+3*j)%4]
				}
			}
			add("symmetric,graded(1..s)", sc.name, n, g)
			add("row-graded(1..s)", sc.name, n, gr)
			// Jordan block of s; nilpotent with super-diagonal s; (s, 1/s) across the diagonal
			j1, j2, j3 := z(), z(), z()
			for i := 0; i < n; i++ {
				j1[i*n+i] = s
				if i+1 < n {
					j1[i*n+i+1] = 1
					j2[i*n+i+1] = s
					j3[i*n+i+1], j3[(i+1)*n+i] = 1/s, s
				}
			}
			add("jordan-block(s)", sc.name, n, j1)
			add("nilpotent,super-diagonal=s", sc.name, n, j2)
			add("zero-diagonal,(1/s,s)-across-the-diagonal", sc.name, n, j3)
			// an ordinary matrix with one entry (one symmetric pair) replaced
			for _, pq := range [][2]int{{0, 0}, {n - 1, n - 1}, {0, n - 1}, {n - 1, 0}} {
				o := ordinaryBase(n, false)
				o[pq[0]*n+pq[1]] = s
				add(fmt.Sprintf("ordinary,entry(%s)=s", posName(pq[0], pq[1], n)), sc.name, n, o)
				if pq[0] <= pq[1] {
					os := ordinaryBase(n, true)
					os[pq[0]*n+pq[1]], os[pq[1]*n+pq[0]] = s, s
					add(fmt.Sprintf("symmetric,ordinary,entry(%s)=s", posName(pq[0], pq[1], n)), sc.name, n, os)
				}
			}
		}
	}
	// one non-finite entry, every position
	for _, bad := range []struct {
		name string
		v    float64
	}{{"NaN", math.NaN()}, {"+Inf", math.Inf(1)}, {"-Inf", math.Inf(-1)}} {
		for n := 1; n <= 4; n++ {
			for p := 0; p < n; p++ {
				for q := 0; q < n; q++ {
					// n <= 2: every position; n >= 3 (the reductions spread a non-finite entry over the whole
					// matrix): corners, one diagonal and one sub-diagonal position in the core list, the
					// other positions in the extra list (thorough tier)
					dst := &l
					if n >= 3 && !((p == 0 || p == n-1) && (q == 0 || q == n-1)) && !(p == 1 && q <= 1) {
						dst = &extra
					}
					o := ordinaryBase(n, false)
					o[p*n+q] = bad.v
					*dst = append(*dst, sq(fmt.Sprintf("nonfinite-entry:%s,ordinary,n=%d", bad.name, n), n, o...))
					if p <= q {
						os := ordinaryBase(n, true)
						os[p*n+q], os[q*n+p] = bad.v, bad.v
						*dst = append(*dst, sq(fmt.Sprintf("nonfinite-entry:%s,symmetric,n=%d", bad.name, n), n, os...))
					}
				}
			}
			// a non-finite entry next to a zero diagonal / tiny entries
			if n >= 2 {
				zt := make([]float64, n*n)
				for i := 0; i+1 < n; i++ {
					zt[i*n+i+1], zt[(i+1)*n+i] = 1e-200, 1e-200
				}
				zt[1], zt[n] = bad.v, bad.v
				l = append(l, sq(fmt.Sprintf("nonfinite-entry:%s,zero-diagonal,n=%d", bad.name, n), n, zt...))
			}
		}
	}
	// rectangular inputs of the SVD
	for _, d := range [][2]int{{2, 1}, {3, 2}, {4, 2}, {4, 3}} {
		for _, sc := range extremeScales {
			v := make([]float64, d[0]*d[1])
			g := make([]float64, d[0]*d[1])
			for i := range v {
				v[i] = sc.s * extMult[(i*3+i/d[1])%4]
				g[i] = math.Pow(sc.s, float64(i)/float64(len(v)-1)) * extMult[i%4]
			}
			l = append(l, matIn{Class: fmt.Sprintf("extreme:rectangular,all-entries=s*m(s=%s),%dx%d", sc.name, d[0], d[1]), Rows: d[0], Cols: d[1], V: v, Finite: true})
			l = append(l, matIn{Class: fmt.Sprintf("extreme:rectangular,graded(1..s)(s=%s),%dx%d", sc.name, d[0], d[1]), Rows: d[0], Cols: d[1], V: g, Finite: true})
		}
		for _, bad := range []float64{math.NaN(), math.Inf(1), math.Inf(-1)} {
			for _, pos := range []int{0, d[0]*d[1] - 1, d[1]} {
				v := make([]float64, d[0]*d[1])
				for i := range v {
					v[i] = float64((i*5)%7) - 3.5
				}
				v[pos%len(v)] = bad
				l = append(l, matIn{Class: fmt.Sprintf("nonfinite-entry:%v,rectangular,%dx%d", bad, d[0], d[1]), Rows: d[0], Cols: d[1], V: v})
			}
		}
	}
	return l, append(append([]matIn{}, l...), extra...)
}

func posName(p, q, n int) string {
	nm := func(i int) string {
		if i == 0 {
			return "first"
		}
		return "last"
	}
	return nm(p) + "," + nm(q)
}

// randomExtreme samples a matrix of size 1..4 whose entries are m * 10^e with
// the decimal exponents drawn from a small palette chosen per matrix.
func randomExtreme(r *prng.Rand) matIn {
	n := r.Range(1, 4)
	exps := []int{-323, -320, -310, -300, -250, -200, -160, -155, -100, -20, 0, 0, 20, 100, 153, 160, 200, 250, 300, 308}
	pal := make([]int, r.Range(1, 3))
	for i := range pal {
		pal[i] = r.PickI(exps)
	}
	structure := r.Pick([]string{"general", "general", "symmetric", "symmetric", "zero-diagonal-symmetric", "zero-diagonal", "tridiagonal-symmetric", "upper-triangular", "upper-hessenberg", "sparse"})
	pzero := r.PickF([]float64{0, 0, 0.2, 0.5})
	v := make([]float64, n*n)
	draw := func() float64 {
		if r.Chance(pzero) {
			return 0
		}
		x := r.Uniform(1, 10) * math.Pow(10, float64(r.PickI(pal)))
		if r.Chance(0.3) {
			x = math.Pow(10, float64(r.PickI(pal))) // an exact power
		}
		if r.Bool() {
			x = -x
		}
		return x
	}
	for i := range v {
		v[i] = draw()
	}
	sym := func() {
		for i := 0; i < n; i++ {
			for j := 0; j < i; j++ {
				v[i*n+j] = v[j*n+i]
			}
		}
	}
	switch structure {
	case "symmetric":
		sym()
	case "zero-diagonal-symmetric", "zero-diagonal":
		for i := 0; i < n; i++ {
			v[i*n+i] = 0
		}
		if structure == "zero-diagonal-symmetric" {
			sym()
		}
	case "tridiagonal-symmetric":
		for i := 0; i < n; i++ {
			for j := 0; j < n; j++ {
				if i-j > 1 || j-i > 1 {
					v[i*n+j] = 0
				}
			}
		}
		sym()
		if r.Bool() {
			for i := 0; i < n; i++ {
				v[i*n+i] = 0
			}
		}
	case "upper-triangular":
		for i := 0; i < n; i++ {
			for j := 0; j < i; j++ {
				v[i*n+j] = 0
			}
		}
	case "upper-hessenberg":
		for i := 0; i < n; i++ {
			for j := 0; j+1 < i; j++ {
				v[i*n+j] = 0
			}
		}
	case "sparse":
		for i := range v {
			if r.Chance(0.5) {
				v[i] = 0
			}
		}
	}
	label := "extreme-random:" + structure
	if r.Chance(0.25) {
		bad := r.PickF([]float64{math.NaN(), math.Inf(1), math.Inf(-1)})
		p, q := r.Intn(n), r.Intn(n)
		v[p*n+q] = bad
		if strings.Contains(structure, "symmetric") {
			v[q*n+p] = bad
		}
		label = "extreme-random+nonfinite:" + structure
	}
	return sq(fmt.Sprintf("%s,n=%d", label, n), n, v...)
}

// runExtreme drives every option route of every iterative routine on one
// input; a route that needs a symmetric input is skipped otherwise.
func runExtreme(cs *fw.Case, m matIn, real bool) {
	n := max(m.Rows, m.Cols)
	class := extremeClass(m)
	entered := false
	failed := map[string]noReturn{}
	var order []string
	for _, rt := range iterRoutines {
		if m.Rows != m.Cols && !rt.Rect {
			continue
		}
		if rt.Sym && !m.symmetricPos() {
			continue
		}
		a := m.build(real)
		p, err, used := bounded(budgetOf(rt.Name, n), func() error { return rt.Call(a) })
		for site, k := range used {
			if k > 0 {
				entered = true
			}
			if p == nil {
				cs.C.CoverMax(fmt.Sprintf("max:ticks-when-returned:%s:extreme:n=%d", site, n), k)
			}
		}
		cs.Cover("call:extreme:" + rt.Name + "(" + rt.Opts + ")")
		switch {
		case p != nil && p.Budget:
			failed[rt.Name+"|"+rt.Opts] = noReturn{p.Site, used}
			order = append(order, rt.Name+"|"+rt.Opts)
		case p != nil:
			cs.Cover("outcome:extreme:panic:" + rt.Name)
		case err != nil:
			cs.Cover("outcome:extreme:error:" + rt.Name)
		default:
			cs.Cover("outcome:extreme:returned:" + rt.Name)
		}
	}
	for _, key := range order {
		nr := failed[key]
		parts := strings.SplitN(key, "|", 2)
		routine, opts := parts[0], parts[1]
		if routine == "eigensystem.Run" {
			// eigensystem.Run calls qrAlgorithm.Run on the same input; a no-return of that
			// callee (same route, same loop) is reported once, at the callee
			callee := "qrAlgorithm.Run|computeU"
			switch opts {
			case "computeEigenvectors=false":
				callee = "qrAlgorithm.Run|default"
			case "symmetric":
				callee = "qrAlgorithm.Run|symmetric,computeU"
			case "symmetric,computeEigenvectors=false":
				callee = "qrAlgorithm.Run|symmetric"
			}
			if q, ok := failed[callee]; ok && q.site == nr.site {
				cs.Cover("attributed-to-callee:eigensystem.Run->qrAlgorithm.Run")
				continue
			}
		}
		cs.Cover("outcome:no-return:" + routine)
		cs.Violation(fmt.Sprintf("C20|no-return|%s|%s|%s|%s", routine, opts, class, nr.site),
			fmt.Sprintf("%s(%s) did not return, fail or panic within %d loop iterations (n=%d) on %v [%s]; iterations by site: %v",
				routine, opts, budgetOf(routine, n), n, m.describe()["matrix"], m.Class, nr.used),
			map[string]any{"routine": routine, "options": opts, "input": m.describe(), "inputClass": class,
				"elementType": map[bool]string{false: "Float64", true: "Real64"}[real], "budget": budgetOf(routine, n)})
	}
	if entered {
		cs.Nontrivial(m.Class, fmt.Sprint(m.V), real)
	}
	gen := strings.Split(m.Class, ",n=")[0]
	if i := strings.Index(gen, "(s="); i > 0 {
		gen = gen[:i]
	}
	cs.Cover("set:input-class:" + gen)
	cs.Cover("set:extreme-class:" + class)
	if m.Finite {
		cs.Cover("extreme:finite-input")
	} else {
		cs.Cover("extreme:nonfinite-input")
	}
	cs.Sample(map[string]any{"input": m.describe(), "inputClass": class, "real64": real})
}
