package c20

import (
	"fmt"
	"runtime"

	ad "github.com/pbenner/autodiff"
	"github.com/pbenner/autodiff/algorithm/determinant"

	"verifharness/internal/fw"
)

// runDeterminantGrowth: determinant.Run has no loop with a Tick site; its
// recursion allocates one minor per step, so the number of heap allocations of
// the call (runtime.MemStats.Mallocs, independent of machine load) is used as
// the step counter and compared with the polynomial budget 1000 n^3.
func runDeterminantGrowth(cs *fw.Case, n int) {
	a := ad.NullDenseFloat64Matrix(n, n)
	for i := 0; i < n; i++ {
		for j := 0; j < n; j++ {
			a.At(i, j).SetFloat64(float64((i*7+j*3+i*j)%5) - 2)
		}
	}
	var m0, m1 runtime.MemStats
	runtime.GC()
	runtime.ReadMemStats(&m0)
	var err error
	p := fw.Call(func() { _, err = determinant.Run(a) })
	runtime.ReadMemStats(&m1)
	steps := int64(m1.Mallocs - m0.Mallocs)
	bud := int64(1000 * n * n * n)
	cs.Cover("call:determinant.Run")
	cs.C.CoverMax(fmt.Sprintf("max:allocations:determinant.Run:n=%d", n), steps)
	cs.Nontrivial("determinant-growth", n)
	cs.Sample(map[string]any{"routine": "determinant.Run", "n": n, "allocations": steps, "budget": bud})
	if p != nil || err != nil {
		cs.Cover("outcome:failed:determinant.Run")
		return
	}
	if steps > bud {
		cs.Violation("C20|no-return|determinant.Run|default|general-dense-matrix|step-budget(1000*n^3-allocations)-exceeded",
			fmt.Sprintf("determinant.Run on a %dx%d matrix performed %d heap allocations (one per cofactor minor), budget 1000*n^3 = %d: the cofactor expansion takes n! steps, not polynomially many", n, n, steps, bud),
			map[string]any{"n": n, "allocations": steps, "budget": bud})
	}
}
