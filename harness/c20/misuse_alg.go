package c20

import (
	"fmt"

	ad "github.com/pbenner/autodiff"
	"github.com/pbenner/autodiff/algorithm/backSubstitution"
	"github.com/pbenner/autodiff/algorithm/bfgs"
	"github.com/pbenner/autodiff/algorithm/blahut"
	"github.com/pbenner/autodiff/algorithm/cholesky"
	"github.com/pbenner/autodiff/algorithm/determinant"
	"github.com/pbenner/autodiff/algorithm/eigensystem"
	"github.com/pbenner/autodiff/algorithm/gaussJordan"
	"github.com/pbenner/autodiff/algorithm/givensRotation"
	"github.com/pbenner/autodiff/algorithm/gramSchmidt"
	"github.com/pbenner/autodiff/algorithm/hessenbergReduction"
	"github.com/pbenner/autodiff/algorithm/householderBidiagonalization"
	"github.com/pbenner/autodiff/algorithm/householderTridiagonalization"
	"github.com/pbenner/autodiff/algorithm/matrixInverse"
	"github.com/pbenner/autodiff/algorithm/msqrt"
	"github.com/pbenner/autodiff/algorithm/msqrtInv"
	"github.com/pbenner/autodiff/algorithm/newton"
	"github.com/pbenner/autodiff/algorithm/qrAlgorithm"
	"github.com/pbenner/autodiff/algorithm/rprop"
	"github.com/pbenner/autodiff/algorithm/saga"
	"github.com/pbenner/autodiff/algorithm/svd"

	"verifharness/internal/fw"
	"verifharness/internal/gen"
	"verifharness/internal/prng"
)

// algMisuse is one inadmissible call of an algorithm entry point; it must
// panic or return a non-nil error.
type algMisuse struct {
	Routine string
	Opts    string
	Class   string
	Call    func(e *env) (err error, result string)
}

func spd(e *env, n int) ad.Matrix {
	a := e.matS(gen.Dense, n, n)
	for i := 0; i < n; i++ {
		for j := 0; j < n; j++ {
			if i == j {
				a.At(i, j).SetFloat64(float64(2*n) + e.val())
			} else if j > i {
				v := e.val() / 4
				a.At(i, j).SetFloat64(v)
				a.At(j, i).SetFloat64(v)
			}
		}
	}
	return a
}

func dimsOf(m ad.ConstMatrix) string {
	if m == nil {
		return "nil"
	}
	r, c := m.Dims()
	return fmt.Sprintf("%dx%d matrix", r, c)
}

func algMisuses() []algMisuse {
	var l []algMisuse
	add := func(routine, opts, class string, call func(e *env) (error, string)) {
		l = append(l, algMisuse{routine, opts, class, call})
	}
	rect := func(e *env) ad.Matrix { n := e.r.Range(2, 4); return e.matS(gen.Dense, n, n+1) }
	tall := func(e *env) ad.Matrix { n := e.r.Range(2, 4); return e.matS(gen.Dense, n+1, n) }
	wide := rect

	// --- square-only routines handed a non-square matrix --------------------
	add("qrAlgorithm.Run", "default", "non-square", func(e *env) (error, string) { h, _, err := qrAlgorithm.Run(rect(e)); return err, dimsOf(h) })
	add("qrAlgorithm.Run", "symmetric", "non-square", func(e *env) (error, string) {
		h, _, err := qrAlgorithm.Run(tall(e), qrAlgorithm.Symmetric{Value: true})
		return err, dimsOf(h)
	})
	add("eigensystem.Run", "default", "non-square", func(e *env) (error, string) {
		v, _, err := eigensystem.Run(tall(e))
		if v != nil {
			return err, fmt.Sprintf("vector of dim %d", v.Dim())
		}
		return err, ""
	})
	add("hessenbergReduction.Run", "default", "non-square", func(e *env) (error, string) { h, _, err := hessenbergReduction.Run(rect(e)); return err, dimsOf(h) })
	add("hessenbergReduction.Run", "computeU", "non-square", func(e *env) (error, string) {
		h, _, err := hessenbergReduction.Run(tall(e), hessenbergReduction.ComputeU{Value: true})
		return err, dimsOf(h)
	})
	add("householderTridiagonalization.Run", "default", "non-square", func(e *env) (error, string) {
		h, _, err := householderTridiagonalization.Run(rect(e))
		return err, dimsOf(h)
	})
	add("householderTridiagonalization.Run", "computeU", "non-square", func(e *env) (error, string) {
		h, _, err := householderTridiagonalization.Run(tall(e), householderTridiagonalization.ComputeU{Value: true})
		return err, dimsOf(h)
	})
	add("cholesky.Run", "default", "non-square", func(e *env) (error, string) { L, _, err := cholesky.Run(rect(e)); return err, dimsOf(L) })
	add("determinant.Run", "default", "non-square", func(e *env) (error, string) {
		d, err := determinant.Run(rect(e))
		if d != nil {
			return err, fmt.Sprintf("determinant %v", d.GetFloat64())
		}
		return err, ""
	})
	add("determinant.Run", "default", "non-square(more rows)", func(e *env) (error, string) {
		d, err := determinant.Run(tall(e))
		if d != nil {
			return err, fmt.Sprintf("determinant %v", d.GetFloat64())
		}
		return err, ""
	})
	add("determinant.Run", "positiveDefinite", "non-square", func(e *env) (error, string) {
		d, err := determinant.Run(rect(e), determinant.PositiveDefinite{Value: true})
		if d != nil {
			return err, fmt.Sprintf("determinant %v", d.GetFloat64())
		}
		return err, ""
	})
	add("determinant.Run", "logScale-without-positiveDefinite", "invalid-option-combination", func(e *env) (error, string) {
		_, err := determinant.Run(spd(e, 3), determinant.LogScale{Value: true})
		return err, ""
	})
	add("matrixInverse.Run", "default", "non-square", func(e *env) (error, string) { x, err := matrixInverse.Run(rect(e)); return err, dimsOf(x) })
	add("matrixInverse.Run", "default", "empty", func(e *env) (error, string) {
		x, err := matrixInverse.Run(e.matS(gen.Dense, 0, 0))
		return err, dimsOf(x)
	})
	add("msqrt.Run", "default", "non-square", func(e *env) (error, string) { x, err := msqrt.Run(rect(e)); return err, dimsOf(x) })
	add("msqrtInv.Run", "default", "non-square", func(e *env) (error, string) { x, err := msqrtInv.Run(tall(e)); return err, dimsOf(x) })
	add("gramSchmidt.Run", "default", "more-columns-than-rows", func(e *env) (error, string) { q, _, err := gramSchmidt.Run(wide(e)); return err, dimsOf(q) })
	// --- rows < cols for the bidiagonalisation / SVD ------------------------
	add("svd.Run", "default", "rows<cols", func(e *env) (error, string) { h, _, _, err := svd.Run(wide(e)); return err, dimsOf(h) })
	add("householderBidiagonalization.Run", "default", "rows<cols", func(e *env) (error, string) {
		h, _, _, err := householderBidiagonalization.Run(wide(e))
		return err, dimsOf(h)
	})
	add("householderBidiagonalization.Run", "computeU,computeV", "rows<cols", func(e *env) (error, string) {
		h, _, _, err := householderBidiagonalization.Run(wide(e), householderBidiagonalization.ComputeU{Value: true}, householderBidiagonalization.ComputeV{Value: true})
		return err, dimsOf(h)
	})
	// --- operands of mismatching dimensions ---------------------------------
	add("gaussJordan.Run", "default", "x-dims-mismatch", func(e *env) (error, string) {
		n := e.r.Range(2, 4)
		x := e.matS(gen.Dense, n+1, n+1)
		x.SetIdentity()
		return gaussJordan.Run(spd(e, n), x, e.vecS(gen.Dense, n)), ""
	})
	add("gaussJordan.Run", "default", "b-dim-mismatch", func(e *env) (error, string) {
		n := e.r.Range(2, 4)
		x := e.matS(gen.Dense, n, n)
		x.SetIdentity()
		return gaussJordan.Run(spd(e, n), x, e.vecS(gen.Dense, n+1)), ""
	})
	add("gaussJordan.Run", "default", "b-dim-mismatch(shorter)", func(e *env) (error, string) {
		n := e.r.Range(2, 4)
		x := e.matS(gen.Dense, n, n)
		x.SetIdentity()
		return gaussJordan.Run(spd(e, n), x, e.vecS(gen.Dense, n-1)), ""
	})
	add("gaussJordan.Run", "default", "a-non-square", func(e *env) (error, string) {
		n := e.r.Range(2, 4)
		x := e.matS(gen.Dense, n, n)
		x.SetIdentity()
		return gaussJordan.Run(e.matS(gen.Dense, n, n+1), x, e.vecS(gen.Dense, n)), ""
	})
	add("gaussJordan.Run", "upperTriangular", "x-dims-mismatch", func(e *env) (error, string) {
		n := e.r.Range(2, 4)
		a := spd(e, n)
		for i := 0; i < n; i++ {
			for j := 0; j < i; j++ {
				a.At(i, j).SetFloat64(0)
			}
		}
		x := e.matS(gen.Dense, n-1, n-1)
		x.SetIdentity()
		return gaussJordan.Run(a, x, e.vecS(gen.Dense, n), gaussJordan.UpperTriangular{Value: true}), ""
	})
	add("gaussJordan.Run", "submatrix", "submatrix-length-mismatch", func(e *env) (error, string) {
		n := e.r.Range(3, 4)
		x := e.matS(gen.Dense, n, n)
		x.SetIdentity()
		return gaussJordan.Run(spd(e, n), x, e.vecS(gen.Dense, n), gaussJordan.Submatrix{Value: make([]bool, n-1)}), ""
	})
	add("backSubstitution.Run", "default", "b-dim-mismatch", func(e *env) (error, string) {
		n := e.r.Range(2, 4)
		_, err := backSubstitution.Run(spd(e, n), e.vecS(gen.Dense, n+1))
		return err, ""
	})
	add("backSubstitution.Run", "default", "non-square", func(e *env) (error, string) {
		n := e.r.Range(2, 4)
		_, err := backSubstitution.Run(e.matS(gen.Dense, n, n+1), e.vecS(gen.Dense, n))
		return err, ""
	})
	add("backSubstitution.Run", "inSitu", "inSitu.X-dim-mismatch", func(e *env) (error, string) {
		n := e.r.Range(2, 4)
		is := backSubstitution.InSitu{X: e.vecS(gen.Dense, n+1)}
		x, err := backSubstitution.Run(spd(e, n), e.vecS(gen.Dense, n), &is)
		if x != nil {
			return err, fmt.Sprintf("vector of dim %d", x.Dim())
		}
		return err, ""
	})
	add("bfgs.Run", "hessian", "hessian-dims-mismatch", func(e *env) (error, string) {
		f := func(x ad.ConstVector) (ad.MagicScalar, error) {
			y := ad.NullReal64()
			y.Mul(x.ConstAt(0), x.ConstAt(0))
			return y, nil
		}
		B := e.matS(gen.Dense, 3, 3)
		B.SetIdentity()
		_, err := bfgs.Run(f, e.vecS(gen.Dense, 2), bfgs.Hessian{Value: B}, bfgs.MaxIterations{Value: 5})
		return err, ""
	})
	add("qrAlgorithm.Run", "inSitu", "inSitu.H-dims-mismatch", func(e *env) (error, string) {
		n := e.r.Range(2, 4)
		is := qrAlgorithm.InSitu{H: e.matS(gen.Dense, n+1, n+1)}
		h, _, err := qrAlgorithm.Run(spd(e, n), &is)
		return err, dimsOf(h)
	})
	add("qrAlgorithm.Run", "inSitu,computeU", "inSitu.U-dims-mismatch", func(e *env) (error, string) {
		n := e.r.Range(2, 4)
		is := qrAlgorithm.InSitu{U: e.matS(gen.Dense, n+1, n+1)}
		h, _, err := qrAlgorithm.Run(spd(e, n), &is, qrAlgorithm.ComputeU{Value: true})
		return err, dimsOf(h)
	})
	add("svd.Run", "inSitu", "inSitu.A-dims-mismatch", func(e *env) (error, string) {
		n := e.r.Range(2, 4)
		is := svd.InSitu{A: e.matS(gen.Dense, n+1, n+1)}
		h, _, _, err := svd.Run(spd(e, n), &is)
		return err, dimsOf(h)
	})
	add("svd.Run", "inSitu,computeU", "inSitu.U-dims-mismatch", func(e *env) (error, string) {
		n := e.r.Range(2, 4)
		is := svd.InSitu{U: e.matS(gen.Dense, n+1, n+1)}
		h, u, _, err := svd.Run(spd(e, n), &is, svd.ComputeU{Value: true})
		return err, dimsOf(h) + ", U " + dimsOf(u)
	})
	add("cholesky.Run", "inSitu", "inSitu.L-dims-mismatch", func(e *env) (error, string) {
		n := e.r.Range(2, 4)
		is := cholesky.InSitu{L: e.matS(gen.Dense, n+1, n+1)}
		L, _, err := cholesky.Run(spd(e, n), &is)
		return err, dimsOf(L)
	})
	add("matrixInverse.Run", "inSitu", "inSitu.Id-dims-mismatch", func(e *env) (error, string) {
		n := e.r.Range(2, 4)
		is := matrixInverse.InSitu{Id: e.matS(gen.Dense, n+1, n+1)}
		x, err := matrixInverse.Run(spd(e, n), &is)
		return err, dimsOf(x)
	})
	add("matrixInverse.Run", "inSitu", "inSitu.A-dims-mismatch", func(e *env) (error, string) {
		n := e.r.Range(2, 4)
		is := matrixInverse.InSitu{A: e.matS(gen.Dense, n+1, n+1)}
		x, err := matrixInverse.Run(spd(e, n), &is)
		return err, dimsOf(x)
	})
	add("matrixInverse.Run", "inSitu", "inSitu.B-dim-mismatch", func(e *env) (error, string) {
		n := e.r.Range(2, 4)
		is := matrixInverse.InSitu{B: e.vecS(gen.Dense, n+1)}
		x, err := matrixInverse.Run(spd(e, n), &is)
		return err, dimsOf(x)
	})
	add("hessenbergReduction.Run", "inSitu", "inSitu.H-dims-mismatch", func(e *env) (error, string) {
		n := e.r.Range(2, 4)
		is := hessenbergReduction.InSitu{H: e.matS(gen.Dense, n+1, n+1)}
		h, _, err := hessenbergReduction.Run(spd(e, n), &is)
		return err, dimsOf(h)
	})
	// --- out-of-range rotation indices ---------------------------------------
	rot := func(name string, f func(A ad.Matrix, c, s ad.Scalar, i, k int, t1, t2 ad.Scalar)) {
		add("givensRotation."+name, "default", "index>=dim", func(e *env) (error, string) {
			n := e.r.Range(3, 4)
			A := e.matS(gen.Dense, n, n)
			f(A, ad.NewScalar(e.t.T, 0.6), ad.NewScalar(e.t.T, 0.8), 0, n, ad.NullScalar(e.t.T), ad.NullScalar(e.t.T))
			return nil, ""
		})
	}
	rot("ApplyLeft", givensRotation.ApplyLeft)
	rot("ApplyRight", givensRotation.ApplyRight)
	rot("ApplyHessenbergLeft", givensRotation.ApplyHessenbergLeft)
	rot("ApplyHessenbergRight", givensRotation.ApplyHessenbergRight)
	rot("ApplyBidiagLeft", givensRotation.ApplyBidiagLeft)
	rot("ApplyBidiagRight", givensRotation.ApplyBidiagRight)
	rot("ApplyTridiagLeft", givensRotation.ApplyTridiagLeft)
	rot("ApplyTridiagRight", givensRotation.ApplyTridiagRight)
	// --- invalid option values -----------------------------------------------
	quad := func(x ad.ConstVector) (ad.MagicScalar, error) {
		y := ad.NullReal64()
		t := ad.NullReal64()
		for i := 0; i < x.Dim(); i++ {
			t.Mul(x.ConstAt(i), x.ConstAt(i))
			y.Add(y, t)
		}
		return y, nil
	}
	add("rprop.Run", "eta", "eta-length!=2", func(e *env) (error, string) {
		_, err := rprop.Run(quad, e.vecS(gen.Dense, 2), 0.01, []float64{1.2}, rprop.MaxIterations{Value: 5})
		return err, ""
	})
	add("rprop.Run", "eta", "eta-length!=2(3)", func(e *env) (error, string) {
		_, err := rprop.Run(quad, e.vecS(gen.Dense, 2), 0.01, []float64{1.2, 0.5, 0.1}, rprop.MaxIterations{Value: 5})
		return err, ""
	})
	for _, k := range []string{"RunCrit", "RunMin"} {
		kk := k
		add("newton."+k, "hessianModification", "unknown-modification,start-not-at-optimum", func(e *env) (error, string) {
			var err error
			if kk == "RunCrit" {
				_, err = newton.RunCrit(quad, e.vecS(gen.Dense, 2), newton.HessianModification{Value: "bogus"}, newton.MaxIterations{Value: 5})
			} else {
				_, err = newton.RunMin(quad, e.vecS(gen.Dense, 2), newton.HessianModification{Value: "bogus"}, newton.MaxIterations{Value: 5})
			}
			return err, ""
		})
		add("newton."+k, "hessianModification", "unknown-modification,start-at-optimum", func(e *env) (error, string) {
			x0 := ad.NewDenseFloat64Vector([]float64{0, 0})
			var err error
			if kk == "RunCrit" {
				_, err = newton.RunCrit(quad, x0, newton.HessianModification{Value: "bogus"}, newton.MaxIterations{Value: 5})
			} else {
				_, err = newton.RunMin(quad, x0, newton.HessianModification{Value: "bogus"}, newton.MaxIterations{Value: 5})
			}
			return err, ""
		})
	}
	sagaObj := saga.Objective2Dense(func(i int, x ad.DenseFloat64Vector) (float64, ad.DenseFloat64Vector, error) {
		return 0.5 * x[0] * x[0], ad.NewDenseFloat64Vector([]float64{x[0], 0}), nil
	})
	add("saga.Run", "l1<0", "negative-regularisation", func(e *env) (error, string) {
		_, _, err := saga.Run(sagaObj, 3, ad.NewDenseFloat64Vector([]float64{1, 1}), saga.L1Regularization{Value: -1}, saga.MaxIterations{Value: 3})
		return err, ""
	})
	add("saga.Run", "l1,l2", "two-regularisations", func(e *env) (error, string) {
		_, _, err := saga.Run(sagaObj, 3, ad.NewDenseFloat64Vector([]float64{1, 1}), saga.L1Regularization{Value: 1}, saga.L2Regularization{Value: 1}, saga.MaxIterations{Value: 3})
		return err, ""
	})
	add("saga.Run", "n<=0", "no-samples", func(e *env) (error, string) {
		_, _, err := saga.Run(sagaObj, 0, ad.NewDenseFloat64Vector([]float64{1, 1}), saga.MaxIterations{Value: 3})
		return err, ""
	})
	add("saga.Run", "gradient-dim", "gradient-longer-than-x", func(e *env) (error, string) {
		_, _, err := saga.Run(sagaObj, 3, ad.NewDenseFloat64Vector([]float64{1}), saga.MaxIterations{Value: 3})
		return err, ""
	})
	add("blahut.Run", "default", "p-dim!=channel-rows", func(e *env) (error, string) {
		ch := ad.NewDenseFloat64Matrix([]float64{0.7, 0.3, 0.2, 0.8, 0.5, 0.5}, 3, 2)
		p := blahut.Run(ch, ad.NewDenseFloat64Vector([]float64{0.5, 0.5}), 5)
		return nil, fmt.Sprintf("vector of dim %d", p.Dim())
	})
	add("blahut.Run", "default", "p-dim!=channel-rows(longer)", func(e *env) (error, string) {
		ch := ad.NewDenseFloat64Matrix([]float64{0.7, 0.3, 0.2, 0.8}, 2, 2)
		p := blahut.Run(ch, ad.NewDenseFloat64Vector([]float64{0.4, 0.3, 0.3}), 5)
		return nil, fmt.Sprintf("vector of dim %d", p.Dim())
	})
	add("blahut.RunNaive", "default", "p-dim!=channel-rows(longer)", func(e *env) (error, string) {
		p := blahut.RunNaive([][]float64{{0.7, 0.3}, {0.2, 0.8}}, []float64{0.4, 0.3, 0.3}, 5)
		return nil, fmt.Sprintf("vector of dim %d", len(p))
	})
	add("blahut.RunNaive", "default", "ragged-channel", func(e *env) (error, string) {
		p := blahut.RunNaive([][]float64{{0.7, 0.3}, {0.2, 0.5, 0.3}}, []float64{0.5, 0.5}, 5)
		return nil, fmt.Sprintf("vector of dim %d", len(p))
	})
	add("ad.Variables", "order=3", "derivative-order=3", func(e *env) (error, string) {
		return ad.Variables(3, ad.NewReal64(1), ad.NewReal64(2)), ""
	})
	return l
}

func runAlgorithmMisuse(c *fw.Ctx) {
	ms := algMisuses()
	reps := c.N(3, 20)
	c.Cases("silent.algorithms", reps*len(ms), func(cs *fw.Case) {
		m := ms[cs.Index%len(ms)]
		if cs.Index < len(ms) {
			cs.R = prng.For(20261003, "silent.algorithms", cs.Index)
		}
		e := &env{r: cs.R, t: gen.TypeByName("Float64"), storage: gen.Dense}
		var err error
		var res string
		fw.SetTickBudget(50000)
		p := fw.Call(func() { err, res = m.Call(e) })
		fw.SetTickBudget(0)
		cs.Cover("set:algorithm-misuse:" + m.Routine + "|" + m.Class)
		cs.Nontrivial(m.Routine, m.Opts, m.Class, cs.Index)
		cs.C.Cover("misuse-call-count", 1)
		switch {
		case p != nil && p.Budget:
			cs.Cover("misuse:no-return:" + m.Routine)
			cs.Violation(fmt.Sprintf("C20|no-return|%s|%s|misuse:%s|%s", m.Routine, m.Opts, m.Class, p.Site),
				"inadmissible call neither failed nor returned within 50000 loop iterations", map[string]any{"routine": m.Routine, "options": m.Opts, "class": m.Class})
		case p != nil || err != nil:
			cs.Cover("rejected:algorithm:" + m.Routine)
		default:
			cs.Violation(fmt.Sprintf("C20|silent|%s|%s|%s|returned", m.Routine, m.Opts, m.Class),
				fmt.Sprintf("%s(%s) accepted an inadmissible call (%s) without panic or error; result: %s", m.Routine, m.Opts, m.Class, res),
				map[string]any{"routine": m.Routine, "options": m.Opts, "class": m.Class, "result": res})
		}
	})
}
