// In-place container methods applied to views (DESIGN.md C20, follow-up).
//
// Methods that rearrange or overwrite the storage in place (Tip, Swap,
// SwapRows / SwapColumns, PermuteRows / PermuteColumns, SymmetricPermutation,
// Reset, SetIdentity, Map / MapSet / Reduce, ResetDerivatives, Variables; on
// vectors Reset, Permute, ReverseOrder, Sort, Swap, Map / MapSet / Reduce) and
// the iterator walks are called on views of a larger container: slices with
// and without offset, row / column bands, the full slice, transposes, slices
// of transposes, nested slices, reinterpreted vector slices, rows / columns /
// diagonals of matrices.  A view does not own its storage, so an algorithm that
// walks "the whole storage" (cycle-following transposition, an index
// iterator) may never come back.
//
// Verdict: the call returns or panics (a documented rejection is a panic)
// within the CPU budget of the case.  There is no Tick site in these methods,
// so a call that does not return is detected by the CPU watchdog of the worker:
// the case is lost and the driver reports
//
//	C20|inplace-view.<Kind>.<Method>.<storage>|no-return|cpu-watchdog
//
// (hang_is_violation).  One monitor per (kind, method, storage) makes that
// signature name the template that hangs; the element type and the view
// variant are the case index (type = index mod 9).  Iterator walks are bounded
// by a step count instead (4 x parent elements + 64).  Whether the parent's
// elements outside the view stay untouched is C10's subject: it is counted
// (observed:parent-modified-outside-view:*), not judged.
package c20

import (
	"fmt"
	"time"

	ad "github.com/pbenner/autodiff"

	"verifharness/internal/fw"
	"verifharness/internal/gen"
	"verifharness/internal/prng"
)

// inplaceCPUBudget: all calls of a case together need well under 10 ms.
const inplaceCPUBudget = 2 * time.Second

type viewEnv struct {
	r       *prng.Rand
	t       gen.ElemType
	storage string
}

func (e *viewEnv) fillMat(m ad.Matrix) {
	r, c := m.Dims()
	for i := 0; i < r; i++ {
		for j := 0; j < c; j++ {
			if e.storage == gen.Sparse && e.r.Chance(0.4) {
				continue
			}
			m.At(i, j).SetFloat64(float64(e.r.Range(-3, 5)))
		}
	}
}

func (e *viewEnv) mat(r, c int) ad.Matrix {
	m := gen.NullMatrix(e.t, e.storage, r, c)
	e.fillMat(m)
	return m
}

func (e *viewEnv) vec(n int) ad.Vector {
	v := gen.NullVector(e.t, e.storage, n)
	for i := 0; i < n; i++ {
		if e.storage == gen.Sparse && e.r.Chance(0.4) {
			continue
		}
		v.At(i).SetFloat64(float64(e.r.Range(-3, 5)))
	}
	return v
}

// a view together with a reader of everything in its parent that lies outside it
type matView struct {
	m       ad.Matrix
	outside func() string
	parentN int // number of elements of the parent's storage
}

type vecView struct {
	v       ad.Vector
	outside func() string
	parentN int
}

func matOutside(p ad.Matrix, inside func(i, j int) bool) func() string {
	return func() string {
		var s string
		if pn := fw.Call(func() {
			pr, pc := p.Dims()
			for i := 0; i < pr; i++ {
				for j := 0; j < pc; j++ {
					if !inside(i, j) {
						s += fmt.Sprintf("[%d,%d]=%v ", i, j, p.ConstAt(i, j).GetFloat64())
					}
				}
			}
		}); pn != nil {
			return "unreadable:" + pn.Msg
		}
		return s
	}
}

func vecOutside(p ad.Vector, inside func(i int) bool) func() string {
	return func() string {
		var s string
		if pn := fw.Call(func() {
			for i := 0; i < p.Dim(); i++ {
				if !inside(i) {
					s += fmt.Sprintf("[%d]=%v ", i, p.ConstAt(i).GetFloat64())
				}
			}
		}); pn != nil {
			return "unreadable:" + pn.Msg
		}
		return s
	}
}

type matVariant struct {
	name  string
	build func(e *viewEnv, r, c int) matView
}

var matViewVariants = []matVariant{
	{"owning", func(e *viewEnv, r, c int) matView {
		return matView{e.mat(r, c), nil, r * c}
	}},
	{"slice-offset", func(e *viewEnv, r, c int) matView {
		p := e.mat(r+3, c+3)
		return matView{p.Slice(1, r+1, 1, c+1), matOutside(p, func(i, j int) bool { return i >= 1 && i <= r && j >= 1 && j <= c }), (r + 3) * (c + 3)}
	}},
	{"slice-no-offset", func(e *viewEnv, r, c int) matView {
		p := e.mat(r+2, c+2)
		return matView{p.Slice(0, r, 0, c), matOutside(p, func(i, j int) bool { return i < r && j < c }), (r + 2) * (c + 2)}
	}},
	{"slice-row-band", func(e *viewEnv, r, c int) matView {
		p := e.mat(r+3, c)
		return matView{p.Slice(1, r+1, 0, c), matOutside(p, func(i, j int) bool { return i >= 1 && i <= r }), (r + 3) * c}
	}},
	{"slice-column-band", func(e *viewEnv, r, c int) matView {
		p := e.mat(r, c+3)
		return matView{p.Slice(0, r, 1, c+1), matOutside(p, func(i, j int) bool { return j >= 1 && j <= c }), r * (c + 3)}
	}},
	{"slice-full", func(e *viewEnv, r, c int) matView {
		p := e.mat(r, c)
		return matView{p.Slice(0, r, 0, c), nil, r * c}
	}},
	{"transposed", func(e *viewEnv, r, c int) matView {
		p := e.mat(c, r)
		return matView{p.T(), nil, r * c}
	}},
	{"transposed-slice", func(e *viewEnv, r, c int) matView {
		p := e.mat(c+3, r+3)
		return matView{p.Slice(1, c+1, 1, r+1).T(), matOutside(p, func(i, j int) bool { return i >= 1 && i <= c && j >= 1 && j <= r }), (r + 3) * (c + 3)}
	}},
	{"slice-of-transposed", func(e *viewEnv, r, c int) matView {
		p := e.mat(c+3, r+3)
		return matView{p.T().Slice(1, r+1, 1, c+1), matOutside(p, func(i, j int) bool { return i >= 1 && i <= c && j >= 1 && j <= r }), (r + 3) * (c + 3)}
	}},
	{"nested-slice", func(e *viewEnv, r, c int) matView {
		p := e.mat(r+4, c+4)
		return matView{p.Slice(1, r+3, 1, c+3).Slice(1, r+1, 1, c+1), matOutside(p, func(i, j int) bool { return i >= 2 && i <= r+1 && j >= 2 && j <= c+1 }), (r + 4) * (c + 4)}
	}},
	{"nested-slice-no-offset", func(e *viewEnv, r, c int) matView {
		p := e.mat(r+2, c+2)
		return matView{p.Slice(0, r+1, 0, c+1).Slice(0, r, 0, c), matOutside(p, func(i, j int) bool { return i < r && j < c }), (r + 2) * (c + 2)}
	}},
	{"twice-transposed-slice", func(e *viewEnv, r, c int) matView {
		p := e.mat(r+3, c+3)
		return matView{p.Slice(1, r+1, 1, c+1).T().T(), matOutside(p, func(i, j int) bool { return i >= 1 && i <= r && j >= 1 && j <= c }), (r + 3) * (c + 3)}
	}},
	{"reinterpreted-vector-slice", func(e *viewEnv, r, c int) matView {
		p := e.vec(r*c + 3)
		return matView{p.Slice(1, r*c+1).AsMatrix(r, c), vecOutside(p, func(i int) bool { return i >= 1 && i <= r*c }), r*c + 3}
	}},
}

type vecVariant struct {
	name  string
	build func(e *viewEnv, n int) vecView
}

var vecViewVariants = []vecVariant{
	{"owning", func(e *viewEnv, n int) vecView { return vecView{e.vec(n), nil, n} }},
	{"slice-offset", func(e *viewEnv, n int) vecView {
		p := e.vec(n + 3)
		return vecView{p.Slice(1, n+1), vecOutside(p, func(i int) bool { return i >= 1 && i <= n }), n + 3}
	}},
	{"slice-no-offset", func(e *viewEnv, n int) vecView {
		p := e.vec(n + 2)
		return vecView{p.Slice(0, n), vecOutside(p, func(i int) bool { return i < n }), n + 2}
	}},
	{"slice-full", func(e *viewEnv, n int) vecView {
		p := e.vec(n)
		return vecView{p.Slice(0, n), nil, n}
	}},
	{"nested-slice", func(e *viewEnv, n int) vecView {
		p := e.vec(n + 4)
		return vecView{p.Slice(1, n+3).Slice(1, n+1), vecOutside(p, func(i int) bool { return i >= 2 && i <= n+1 }), n + 4}
	}},
	{"matrix-row", func(e *viewEnv, n int) vecView {
		p := e.mat(3, n)
		return vecView{p.Row(1), matOutside(p, func(i, j int) bool { return i == 1 }), 3 * n}
	}},
	{"matrix-column", func(e *viewEnv, n int) vecView {
		p := e.mat(n, 3)
		return vecView{p.Col(1), matOutside(p, func(i, j int) bool { return j == 1 }), 3 * n}
	}},
	{"matrix-diagonal", func(e *viewEnv, n int) vecView {
		p := e.mat(n, n)
		return vecView{p.Diag(), matOutside(p, func(i, j int) bool { return i == j }), n * n}
	}},
	{"matrix-as-vector", func(e *viewEnv, n int) vecView {
		p := e.mat(n, 2)
		return vecView{p.AsVector(), nil, 2 * n}
	}},
	{"row-of-matrix-slice", func(e *viewEnv, n int) vecView {
		p := e.mat(4, n+3)
		return vecView{p.Slice(1, 3, 1, n+1).Row(1), matOutside(p, func(i, j int) bool { return i == 2 && j >= 1 && j <= n }), 4 * (n + 3)}
	}},
	{"column-of-matrix-slice", func(e *viewEnv, n int) vecView {
		p := e.mat(n+3, 4)
		return vecView{p.Slice(1, n+1, 1, 3).Col(1), matOutside(p, func(i, j int) bool { return j == 2 && i >= 1 && i <= n }), 4 * (n + 3)}
	}},
	{"row-of-transposed", func(e *viewEnv, n int) vecView {
		p := e.mat(n, 3)
		return vecView{p.T().Row(1), matOutside(p, func(i, j int) bool { return j == 1 }), 3 * n}
	}},
	{"as-vector-of-matrix-slice", func(e *viewEnv, n int) vecView {
		p := e.mat(n+2, 4)
		return vecView{p.Slice(1, n+1, 1, 3).AsVector(), nil, 4 * (n + 2)}
	}},
}

type walkResult struct {
	steps int
	ended bool
}

// matMethod: one in-place call on a view; walk methods return the number of iterator steps.
type matMethod struct {
	name  string
	magic bool // exists on MagicMatrix only (Real32 / Real64)
	call  func(e *viewEnv, m ad.Matrix, limit int) *walkResult
}

func addOne(s ad.Scalar) { s.Add(s, ad.ConstFloat64(1)) }

var matInplaceMethods = []matMethod{
	{"Tip", false, func(e *viewEnv, m ad.Matrix, limit int) *walkResult { m.Tip(); return nil }},
	{"Swap", false, func(e *viewEnv, m ad.Matrix, limit int) *walkResult {
		if r, c := m.Dims(); r > 0 && c > 0 {
			m.Swap(0, 0, r-1, c-1)
			m.Swap(e.r.Intn(r), e.r.Intn(c), e.r.Intn(r), e.r.Intn(c))
		}
		return nil
	}},
	{"SwapRows", false, func(e *viewEnv, m ad.Matrix, limit int) *walkResult {
		if r, _ := m.Dims(); r > 0 {
			m.SwapRows(0, r-1)
		}
		return nil
	}},
	{"SwapColumns", false, func(e *viewEnv, m ad.Matrix, limit int) *walkResult {
		if _, c := m.Dims(); c > 0 {
			m.SwapColumns(0, c-1)
		}
		return nil
	}},
	{"PermuteRows", false, func(e *viewEnv, m ad.Matrix, limit int) *walkResult {
		r, _ := m.Dims()
		m.PermuteRows(e.r.Perm(r))
		return nil
	}},
	{"PermuteColumns", false, func(e *viewEnv, m ad.Matrix, limit int) *walkResult {
		_, c := m.Dims()
		m.PermuteColumns(e.r.Perm(c))
		return nil
	}},
	{"SymmetricPermutation", false, func(e *viewEnv, m ad.Matrix, limit int) *walkResult {
		r, _ := m.Dims()
		m.SymmetricPermutation(e.r.Perm(r))
		return nil
	}},
	{"Reset", false, func(e *viewEnv, m ad.Matrix, limit int) *walkResult { m.Reset(); return nil }},
	{"SetIdentity", false, func(e *viewEnv, m ad.Matrix, limit int) *walkResult { m.SetIdentity(); return nil }},
	{"Map", false, func(e *viewEnv, m ad.Matrix, limit int) *walkResult { m.Map(addOne); return nil }},
	{"MapSet", false, func(e *viewEnv, m ad.Matrix, limit int) *walkResult {
		m.MapSet(func(x ad.ConstScalar) ad.Scalar { return ad.NewScalar(m.ElementType(), x.GetFloat64()+1) })
		return nil
	}},
	{"Reduce", false, func(e *viewEnv, m ad.Matrix, limit int) *walkResult {
		m.Reduce(func(acc ad.Scalar, x ad.ConstScalar) ad.Scalar { acc.Add(acc, x); return acc }, ad.NullScalar(m.ElementType()))
		return nil
	}},
	{"ResetDerivatives", true, func(e *viewEnv, m ad.Matrix, limit int) *walkResult {
		m.(ad.MagicMatrix).ResetDerivatives()
		return nil
	}},
	{"Variables", true, func(e *viewEnv, m ad.Matrix, limit int) *walkResult {
		m.(ad.MagicMatrix).Variables(1 + e.r.Intn(2))
		return nil
	}},
	{"Iterator-walk", false, func(e *viewEnv, m ad.Matrix, limit int) *walkResult {
		w := &walkResult{}
		for it := m.Iterator(); it.Ok(); it.Next() {
			if w.steps++; w.steps > limit {
				return w
			}
			addOne(it.Get())
		}
		w.ended = true
		return w
	}},
	{"ConstIterator-walk", false, func(e *viewEnv, m ad.Matrix, limit int) *walkResult {
		w := &walkResult{}
		for it := m.ConstIterator(); it.Ok(); it.Next() {
			if w.steps++; w.steps > limit {
				return w
			}
			it.GetConst()
			it.Index()
		}
		w.ended = true
		return w
	}},
	{"JointIterator-walk", false, func(e *viewEnv, m ad.Matrix, limit int) *walkResult {
		w := &walkResult{}
		r, c := m.Dims()
		b := e.mat(r, c)
		for it := m.JointIterator(b); it.Ok(); it.Next() {
			if w.steps++; w.steps > limit {
				return w
			}
			it.GetConst()
		}
		w.ended = true
		return w
	}},
}

type vecMethod struct {
	name  string
	magic bool
	call  func(e *viewEnv, v ad.Vector, limit int) *walkResult
}

var vecInplaceMethods = []vecMethod{
	{"Reset", false, func(e *viewEnv, v ad.Vector, limit int) *walkResult { v.Reset(); return nil }},
	{"Permute", false, func(e *viewEnv, v ad.Vector, limit int) *walkResult { v.Permute(e.r.Perm(v.Dim())); return nil }},
	{"ReverseOrder", false, func(e *viewEnv, v ad.Vector, limit int) *walkResult { v.ReverseOrder(); return nil }},
	{"Sort", false, func(e *viewEnv, v ad.Vector, limit int) *walkResult { v.Sort(false); v.Sort(true); return nil }},
	{"Swap", false, func(e *viewEnv, v ad.Vector, limit int) *walkResult {
		if n := v.Dim(); n > 0 {
			v.Swap(0, n-1)
			v.Swap(e.r.Intn(n), e.r.Intn(n))
		}
		return nil
	}},
	{"Map", false, func(e *viewEnv, v ad.Vector, limit int) *walkResult { v.Map(addOne); return nil }},
	{"MapSet", false, func(e *viewEnv, v ad.Vector, limit int) *walkResult {
		v.MapSet(func(x ad.ConstScalar) ad.Scalar { return ad.NewScalar(v.ElementType(), x.GetFloat64()+1) })
		return nil
	}},
	{"Reduce", false, func(e *viewEnv, v ad.Vector, limit int) *walkResult {
		v.Reduce(func(acc ad.Scalar, x ad.ConstScalar) ad.Scalar { acc.Add(acc, x); return acc }, ad.NullScalar(v.ElementType()))
		return nil
	}},
	{"ResetDerivatives", true, func(e *viewEnv, v ad.Vector, limit int) *walkResult {
		v.(ad.MagicVector).ResetDerivatives()
		return nil
	}},
	{"Variables", true, func(e *viewEnv, v ad.Vector, limit int) *walkResult {
		v.(ad.MagicVector).Variables(1 + e.r.Intn(2))
		return nil
	}},
	{"Iterator-walk", false, func(e *viewEnv, v ad.Vector, limit int) *walkResult {
		w := &walkResult{}
		for it := v.Iterator(); it.Ok(); it.Next() {
			if w.steps++; w.steps > limit {
				return w
			}
			addOne(it.Get())
		}
		w.ended = true
		return w
	}},
	{"ConstIterator-walk", false, func(e *viewEnv, v ad.Vector, limit int) *walkResult {
		w := &walkResult{}
		for it := v.ConstIterator(); it.Ok(); it.Next() {
			if w.steps++; w.steps > limit {
				return w
			}
			it.GetConst()
			it.Index()
		}
		w.ended = true
		return w
	}},
	{"JointIterator-walk", false, func(e *viewEnv, v ad.Vector, limit int) *walkResult {
		w := &walkResult{}
		b := e.vec(v.Dim())
		for it := v.JointIterator(b); it.Ok(); it.Next() {
			if w.steps++; w.steps > limit {
				return w
			}
			it.GetConst()
		}
		w.ended = true
		return w
	}},
}

// shapes of the view: squares (the permutation methods accept nothing else), rectangles,
// single rows / columns, 1x1 and empty views
var inplaceShapes = [][2]int{{2, 2}, {3, 3}, {2, 3}, {3, 2}, {4, 4}, {1, 3}, {3, 1}, {4, 2}, {2, 5}, {1, 1}, {0, 0}, {0, 2}, {2, 0}}
var inplaceDims = []int{3, 4, 2, 5, 1, 0, 6}

func typesFor(magic bool) []gen.ElemType {
	if magic {
		return gen.Types[7:]
	}
	return gen.Types
}

func runInplaceViews(c *fw.Ctx) {
	reps := c.N(1, 4)
	for _, storage := range []string{gen.Dense, gen.Sparse} {
		for _, mm := range matInplaceMethods {
			mm, storage := mm, storage
			types := typesFor(mm.magic)
			per := len(types) * len(matViewVariants)
			c.Cases("inplace-view.Matrix."+mm.name+"."+storage, reps*per, func(cs *fw.Case) {
				cs.SetCPUBudget(inplaceCPUBudget)
				k := cs.Index % per
				t := types[k%len(types)]
				va := matViewVariants[k/len(types)]
				e := &viewEnv{r: cs.R, t: t, storage: storage}
				shapes := inplaceShapes
				if cs.Index >= per {
					shapes = nil
					for i := 0; i < 8; i++ {
						shapes = append(shapes, [2]int{cs.R.Range(0, 5), cs.R.Range(0, 5)})
					}
				}
				key := "Matrix." + mm.name + "/" + storage
				for _, sh := range shapes {
					var mv matView
					if p := fw.Call(func() { mv = va.build(e, sh[0], sh[1]) }); p != nil {
						// the view itself cannot be constructed (C10's matter)
						cs.Cover("view-construction-panicked:Matrix/" + storage + "/" + va.name)
						continue
					}
					before := ""
					if mv.outside != nil {
						before = mv.outside()
					}
					limit := 4*mv.parentN + 64
					var w *walkResult
					p := fw.Call(func() { w = mm.call(e, mv.m, limit) })
					cs.Cover("inplace-call:" + key)
					cs.Cover("inplace-variant:" + va.name)
					switch {
					case p != nil:
						cs.Cover("inplace-outcome:panic:" + key)
						cs.Cover("inplace-panic:" + key + "/" + va.name)
					case w != nil && !w.ended:
						cs.Violation(fmt.Sprintf("C20|inplace-view|Matrix.%s|%s;type=%s;view=%s|iterator-does-not-end", mm.name, storage, t.Name, va.name),
							fmt.Sprintf("%s over a %dx%d %s view (%s %s matrix) made more than %d steps (parent storage has %d elements)", mm.name, sh[0], sh[1], va.name, storage, t.Name, limit, mv.parentN),
							map[string]any{"method": mm.name, "storage": storage, "type": t.Name, "view": va.name, "rows": sh[0], "cols": sh[1]})
					default:
						cs.Cover("inplace-outcome:returned:" + key)
						if mv.outside != nil && mv.outside() != before {
							cs.Cover("observed:parent-modified-outside-view:" + key + "/" + va.name)
						}
					}
				}
				cs.Cover("set:inplace-cell:" + key + "/" + va.name)
				cs.Nontrivial("Matrix", mm.name, storage, t.Name, va.name, cs.Index/per)
				if cs.Index < 2 && mm.name == "Tip" {
					cs.Sample(map[string]any{"method": "Matrix." + mm.name, "storage": storage, "type": t.Name, "view": va.name, "shapes": shapes})
				}
			})
		}
		for _, vm := range vecInplaceMethods {
			vm, storage := vm, storage
			types := typesFor(vm.magic)
			per := len(types) * len(vecViewVariants)
			c.Cases("inplace-view.Vector."+vm.name+"."+storage, reps*per, func(cs *fw.Case) {
				cs.SetCPUBudget(inplaceCPUBudget)
				k := cs.Index % per
				t := types[k%len(types)]
				va := vecViewVariants[k/len(types)]
				e := &viewEnv{r: cs.R, t: t, storage: storage}
				dims := inplaceDims
				if cs.Index >= per {
					dims = nil
					for i := 0; i < 6; i++ {
						dims = append(dims, cs.R.Range(0, 9))
					}
				}
				key := "Vector." + vm.name + "/" + storage
				for _, n := range dims {
					var vv vecView
					if p := fw.Call(func() { vv = va.build(e, n) }); p != nil {
						cs.Cover("view-construction-panicked:Vector/" + storage + "/" + va.name)
						continue
					}
					before := ""
					if vv.outside != nil {
						before = vv.outside()
					}
					limit := 4*vv.parentN + 64
					var w *walkResult
					p := fw.Call(func() { w = vm.call(e, vv.v, limit) })
					cs.Cover("inplace-call:" + key)
					cs.Cover("inplace-variant:vector:" + va.name)
					switch {
					case p != nil:
						cs.Cover("inplace-outcome:panic:" + key)
						cs.Cover("inplace-panic:" + key + "/" + va.name)
					case w != nil && !w.ended:
						cs.Violation(fmt.Sprintf("C20|inplace-view|Vector.%s|%s;type=%s;view=%s|iterator-does-not-end", vm.name, storage, t.Name, va.name),
							fmt.Sprintf("%s over a %s view of dimension %d (%s %s vector) made more than %d steps (parent storage has %d elements)", vm.name, va.name, n, storage, t.Name, limit, vv.parentN),
							map[string]any{"method": vm.name, "storage": storage, "type": t.Name, "view": va.name, "dim": n})
					default:
						cs.Cover("inplace-outcome:returned:" + key)
						if vv.outside != nil && vv.outside() != before {
							cs.Cover("observed:parent-modified-outside-view:" + key + "/" + va.name)
						}
					}
				}
				cs.Cover("set:inplace-cell:" + key + "/" + va.name)
				cs.Nontrivial("Vector", vm.name, storage, t.Name, va.name, cs.Index/per)
			})
		}
	}
}
