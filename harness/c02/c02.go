package c02

import (
	"fmt"
	"math"
	"strings"

	ad "github.com/pbenner/autodiff"

	"verifharness/internal/fw"
	"verifharness/internal/gen"
	"verifharness/internal/prng"
)

// operand-type mixes
const (
	mixSame  = iota // every operand has the same (random) type
	mixMixed        // every operand draws its own type
	mixConst        // constants only
)

func pickTypes(r *prng.Rand, pool []ST, n, mix int) []ST {
	ts := make([]ST, n)
	switch mix {
	case mixSame:
		t := pool[r.Intn(len(pool))]
		for i := range ts {
			ts[i] = t
		}
	case mixConst:
		var cs []ST
		for _, t := range pool {
			if t.Const {
				cs = append(cs, t)
			}
		}
		for i := range ts {
			ts[i] = cs[r.Intn(len(cs))]
		}
	default:
		for i := range ts {
			ts[i] = pool[r.Intn(len(pool))]
		}
	}
	return ts
}

func names(ts []ST) []string {
	r := make([]string, len(ts))
	for i, t := range ts {
		r[i] = t.Name
	}
	return r
}

// call is one operand tuple together with the operand types / container
// description; it is executed once per receiver type.
type call struct {
	op      *Op
	cls     string // grid | dyadic | generic | directed | special
	args    Args   // values as HELD by the operand types
	ots     []ST   // scalar operand types (kinds Mon..ParF)
	elem    gen.ElemType
	storage string
	order   int    // >0: Real operands are activated as variables of this order
	scratch string // fresh | stale | reused: state of the receiver and of the scratch arguments before the judged call
}

func (c *call) hasScratch() bool {
	return c.op.Kind == DyT || c.op.Kind == MonT || c.op.Kind == RedSM
}

// stale gives a scalar left-over content: a value and, for Real types, a derivative shape of another computation.
func stale(t ST, k int) ad.Scalar {
	x := t.New(t.Held(float64(3 + 2*k)))
	if m, ok := x.(ad.MagicScalar); ok {
		n, o := 2+k%2, 1+k%2
		m.Alloc(n, o)
		for i := 0; i < n; i++ {
			m.SetDerivative(i, float64(i)+0.5)
			for j := 0; j < n && o >= 2; j++ {
				m.SetHessian(i, j, float64(i*j)-1.5)
			}
		}
	}
	return x
}

func (c *call) isReduce() bool { return c.op.Kind >= RedV }

func (c *call) describe() map[string]any {
	d := map[string]any{"op": c.op.Name, "cls": c.cls, "x": HexAll(c.args.X)}
	if c.isReduce() {
		d["vt"] = c.storage + "/" + c.elem.Name
		if c.args.Y != nil {
			d["y"] = HexAll(c.args.Y)
		}
		if c.op.Kind == RedM {
			d["shape"] = []int{c.args.Rows, c.args.Cols}
		}
	} else {
		d["ot"] = names(c.ots)
	}
	switch c.op.Kind {
	case ParF, RedSM:
		d["par"] = Hex(c.args.Par)
	case ParK:
		d["k"] = c.args.K
	}
	if c.order > 0 {
		d["order"] = c.order
	}
	if c.scratch != "" && c.scratch != "fresh" {
		d["scratch"] = c.scratch
	}
	return d
}

func buildVector(t gen.ElemType, storage string, xs []float64) ad.Vector {
	v := gen.NullVector(t, storage, len(xs))
	for i, x := range xs {
		if x != 0 || (storage == gen.Dense) {
			v.At(i).SetFloat64(x)
		}
	}
	return v
}

// buildConstVector builds one of the seven read-only sparse vector types.
func buildConstVector(elem string, xs []float64) ad.ConstVector {
	var idx []int
	for i, x := range xs {
		if x != 0 {
			idx = append(idx, i)
		}
	}
	n := len(xs)
	switch elem {
	case "ConstFloat64":
		v := make([]float64, len(idx))
		for k, i := range idx {
			v[k] = xs[i]
		}
		return ad.NewSparseConstFloat64Vector(idx, v, n)
	case "ConstFloat32":
		v := make([]float32, len(idx))
		for k, i := range idx {
			v[k] = float32(xs[i])
		}
		return ad.NewSparseConstFloat32Vector(idx, v, n)
	case "ConstInt8":
		v := make([]int8, len(idx))
		for k, i := range idx {
			v[k] = int8(xs[i])
		}
		return ad.NewSparseConstInt8Vector(idx, v, n)
	case "ConstInt16":
		v := make([]int16, len(idx))
		for k, i := range idx {
			v[k] = int16(xs[i])
		}
		return ad.NewSparseConstInt16Vector(idx, v, n)
	case "ConstInt32":
		v := make([]int32, len(idx))
		for k, i := range idx {
			v[k] = int32(xs[i])
		}
		return ad.NewSparseConstInt32Vector(idx, v, n)
	case "ConstInt64":
		v := make([]int64, len(idx))
		for k, i := range idx {
			v[k] = int64(xs[i])
		}
		return ad.NewSparseConstInt64Vector(idx, v, n)
	case "ConstInt":
		v := make([]int, len(idx))
		for k, i := range idx {
			v[k] = int(xs[i])
		}
		return ad.NewSparseConstIntVector(idx, v, n)
	}
	panic("buildConstVector " + elem)
}

// constElem describes the element type of a read-only sparse vector.
func constElem(name string) gen.ElemType {
	t := TypeByName(name)
	return gen.ElemType{Name: name, IsInt: t.Int, Bits: t.Bits}
}

const constStorage = "const-sparse"

func buildMatrix(t gen.ElemType, storage string, xs []float64, rows, cols int) ad.Matrix {
	m := gen.NullMatrix(t, storage, rows, cols)
	for i := 0; i < rows; i++ {
		for j := 0; j < cols; j++ {
			if x := xs[i*cols+j]; x != 0 || storage == gen.Dense {
				m.At(i, j).SetFloat64(x)
			}
		}
	}
	return m
}

// run executes the call on receiver type rt and returns the receiver's value
// after the call (float64 view and int64 view) or the panic.
func (c *call) run(rt ST) (f float64, i int64, p *fw.Panic) {
	r := rt.New(rt.Held(1)) // stale non-zero content in the receiver
	tmp := []ad.Scalar{rt.New(0), rt.New(0), rt.New(0)}
	times := 1
	switch c.scratch {
	case "stale":
		r = stale(rt, 3)
		tmp = []ad.Scalar{stale(rt, 0), stale(rt, 1), stale(rt, 2)}
	case "reused":
		// the same receiver and scratch array serve two consecutive calls; the second one is judged
		times = 2
	}
	body := func() {
		if c.isReduce() {
			var v, w ad.ConstVector
			var m ad.ConstMatrix
			switch c.op.Kind {
			case RedM:
				m = buildMatrix(c.elem, c.storage, c.args.X, c.args.Rows, c.args.Cols)
			case RedVV:
				if c.storage == constStorage {
					v, w = buildConstVector(c.elem.Name, c.args.X), buildConstVector(c.elem.Name, c.args.Y)
				} else {
					v = buildVector(c.elem, c.storage, c.args.X)
					w = buildVector(c.elem, c.storage, c.args.Y)
				}
			default:
				if c.storage == constStorage {
					v = buildConstVector(c.elem.Name, c.args.X)
				} else {
					v = buildVector(c.elem, c.storage, c.args.X)
				}
			}
			ApplyReduce(c.op, r, v, w, m, c.args.Par, tmp)
			return
		}
		xs := make([]ad.ConstScalar, len(c.ots))
		var reals []ad.MagicScalar
		for k, t := range c.ots {
			xs[k] = t.Make(c.args.X[k])
			if m, ok := xs[k].(ad.MagicScalar); ok {
				reals = append(reals, m)
			}
		}
		if c.order > 0 && len(reals) > 0 {
			ad.Variables(c.order, reals...)
		}
		ApplyScalar(c.op, r, xs, c.args.Par, c.args.K, tmp[0])
	}
	p = fw.Call(func() {
		for k := 0; k < times; k++ {
			body()
		}
	})
	if p != nil {
		return 0, 0, p
	}
	return r.GetFloat64(), r.GetInt64(), nil
}

func intsOf(xs []float64) []int64 {
	r := make([]int64, len(xs))
	for i, x := range xs {
		r[i] = int64(x)
	}
	return r
}

// execute runs the call on every receiver type in recvs, judges the integer
// ring operations in-process and writes one data event for the oracle.
func (c *call) execute(cs *fw.Case, recvs []ST) {
	if c.cls != "special" && c.cls != "directed" {
		// receiver / scratch arguments: fresh, with stale content, or reused from a first call (drawn after the operands)
		c.scratch = []string{"fresh", "stale", "reused"}[cs.R.Intn(3)]
	} else {
		c.scratch = []string{"fresh", "stale", "reused"}[cs.Index%3]
	}
	cs.Cover("scratch:" + c.scratch)
	if c.hasScratch() {
		cs.Cover("scratch-op:" + c.op.Name + "/" + c.scratch)
	}
	res := map[string]string{}
	witness := c.describe()
	for _, rt := range recvs {
		cs.Cover("op:" + c.op.Name + "/" + rt.Name)
		zeroDiv := c.op.Name == "Div" && c.args.X[1] == 0
		f, iv, p := c.run(rt)
		if rt.Int && c.op.IntJudged == "ring" {
			// Go integer arithmetic in the receiver's type
			var want int64
			var wantPanic bool
			if c.isReduce() {
				want, wantPanic = refReduce(rt.Name, c.op.Name, intsOf(c.args.X), intsOf(c.args.Y), c.args.Rows, c.args.Cols)
			} else {
				b := int64(0)
				if len(c.args.X) > 1 {
					b = int64(c.args.X[1])
				}
				want, wantPanic = refRing(rt.Name, c.op.Name, int64(c.args.X[0]), b)
			}
			label := "in-range"
			if zeroDiv {
				label = "zero-divisor"
			}
			cs.Cover("int-judged:" + c.op.Name)
			switch {
			case wantPanic && p == nil:
				cs.Violation(fmt.Sprintf("C02|%s|%s|recv=%s|%s|no-panic", cs.Monitor, c.op.Name, rt.Name, label),
					fmt.Sprintf("%s.%s with a zero divisor returned %d; Go integer division panics", rt.Name, c.op.Name, iv), witness)
			case wantPanic:
				cs.Cover("int-zero-divisor-panics")
			case p != nil:
				cs.Violation(fmt.Sprintf("C02|%s|%s|recv=%s|%s|panic", cs.Monitor, c.op.Name, rt.Name, label),
					fmt.Sprintf("%s.%s panicked: %s (%s)", rt.Name, c.op.Name, p.Msg, p.Frame), witness)
			case iv != want:
				cs.Violation(fmt.Sprintf("C02|%s|%s|recv=%s|%s|value", cs.Monitor, c.op.Name, rt.Name, label),
					fmt.Sprintf("%s.%s(%v %v) = %d, Go arithmetic in the receiver's type gives %d", rt.Name, c.op.Name, c.args.X, c.args.Y, iv, want), witness)
			}
			continue
		}
		if p != nil {
			if rt.Int && (zeroDiv || c.op.IntJudged != "prim") {
				// composites on integer receivers truncate every intermediate (e^-x -> 0 -> division by zero): not judged
				cs.Cover("int-unjudged-composite-panic")
				continue
			}
			cs.Violation(fmt.Sprintf("C02|%s|%s|recv=%s|%s|panic", cs.Monitor, c.op.Name, rt.Name, c.cls),
				fmt.Sprintf("%s.%s panicked inside its domain: %s (%s)", rt.Name, c.op.Name, p.Msg, p.Frame), witness)
			continue
		}
		if rt.Int {
			if c.op.IntJudged != "prim" {
				cs.Cover("int-unjudged-composite")
				continue
			}
			res[rt.Name] = Hex(float64(iv))
			continue
		}
		res[rt.Name] = Hex(f)
	}
	ev := witness
	ev["res"] = res
	cs.C.Data(ev)
	cs.Cover("class:" + c.cls)
	if c.isReduce() {
		cs.Cover("container:" + c.storage + "/" + c.elem.Name)
	} else {
		for _, t := range c.ots {
			cs.Cover("optype:" + t.Name)
		}
		if len(c.ots) == 2 {
			cs.C.Cover("set:operand-type-pair:"+c.ots[0].Name+","+c.ots[1].Name, 1)
		}
	}
	cs.Nontrivial(c.op.Name, c.cls, fmt.Sprint(witness["ot"], witness["vt"]), fmt.Sprint(c.args))
}

func nScalarOperands(op *Op) int {
	switch op.Kind {
	case Dy, DyT:
		return 2
	}
	return 1
}

// heldArgs replaces every operand by the value its type holds.
func heldArgs(a Args, ots []ST, elem gen.ElemType, reduce bool) Args {
	b := a
	b.X = append([]float64(nil), a.X...)
	if a.Y != nil {
		b.Y = append([]float64(nil), a.Y...)
	}
	if reduce {
		if !elem.IsInt && elem.Bits == 32 {
			for i := range b.X {
				b.X[i] = float64(float32(b.X[i]))
			}
			for i := range b.Y {
				b.Y[i] = float64(float32(b.Y[i]))
			}
		}
		return b
	}
	for i, t := range ots {
		b.X[i] = t.Held(b.X[i])
	}
	return b
}

func floatElem(r *prng.Rand) gen.ElemType {
	return gen.TypeByName(r.Pick([]string{"Float32", "Float64", "Real32", "Real64"}))
}

// Run is the C02 workload.
func Run(c *fw.Ctx) {
	nops := len(Ops)
	per := c.N(40, 600) // points per (operation, mix)

	// (1) small-integer operands: representable in all sixteen types, all nine receivers
	c.Cases("grid", nops*3*per, func(cs *fw.Case) {
		r := cs.R
		op := &Ops[cs.Index%nops]
		mix := (cs.Index / nops) % 3
		cl := &call{op: op, cls: "grid", args: op.Grid(r)}
		if cl.isReduce() {
			cl.elem = gen.Types[r.Intn(len(gen.Types))]
			cl.storage = r.Pick([]string{gen.Dense, gen.Sparse})
			if op.Kind != RedM && r.Chance(0.3) {
				// the seven read-only sparse vector types
				cl.storage = constStorage
				cl.elem = constElem(r.Pick([]string{"ConstInt8", "ConstInt16", "ConstInt32", "ConstInt64", "ConstInt", "ConstFloat32", "ConstFloat64"}))
			}
		} else {
			cl.ots = pickTypes(r, Types, nScalarOperands(op), mix)
		}
		if r.Bool() {
			cl.order = r.Range(1, 2)
		}
		if cs.Index < 2 {
			cs.Sample(cl.describe())
		}
		cl.execute(cs, Mutable)
	})

	// (2) dyadic fractions (k/8): representable in the six float-family types, four float receivers
	// (3) generic float64 operands (32-bit operand types hold the float32 rounding)
	for _, cls := range []string{"dyadic", "generic"} {
		cls := cls
		c.Cases(cls, nops*3*per, func(cs *fw.Case) {
			r := cs.R
			op := &Ops[cs.Index%nops]
			mix := (cs.Index / nops) % 3
			cl := &call{op: op, cls: cls}
			if cl.isReduce() {
				cl.elem = floatElem(r)
				cl.storage = r.Pick([]string{gen.Dense, gen.Sparse})
				if op.Kind != RedM && r.Chance(0.25) {
					cl.storage = constStorage
					cl.elem = constElem(r.Pick([]string{"ConstFloat32", "ConstFloat64"}))
				}
			} else {
				cl.ots = pickTypes(r, FloatFam, nScalarOperands(op), mix)
			}
			args := op.Gen(r)
			if cls == "dyadic" {
				ok := false
				for try := 0; try < 30; try++ {
					a := args.RoundTo(8)
					if op.Ok(a) {
						args, ok = a, true
						break
					}
					args = op.Gen(r)
				}
				if !ok {
					args = op.Grid(r)
				}
			}
			cl.args = heldArgs(args, cl.ots, cl.elem, cl.isReduce())
			if !op.Ok(cl.args) {
				// float32 rounding moved the point out of the domain (boundary cases)
				cs.Skip("rounded-out-of-domain")
				return
			}
			if r.Bool() {
				cl.order = r.Range(1, 2)
			}
			if cs.Index < 2 {
				cs.Sample(cl.describe())
			}
			cl.execute(cs, FloatRecv)
		})
	}

	// (4) directed branch-boundary points
	dir := directedList()
	c.Cases("directed", len(dir), func(cs *fw.Case) {
		d := dir[cs.Index]
		op := OpByName(d.op)
		ot := []ST{TypeByName("Float64"), TypeByName("ConstFloat64"), TypeByName("Real64")}[cs.Index%3]
		cl := &call{op: op, cls: "directed", args: d.args}
		for range d.args.X {
			cl.ots = append(cl.ots, ot)
		}
		cl.execute(cs, FloatRecv)
	})

	// (5) IEEE special values
	sp := specialList()
	c.Cases("special", len(sp)*3, func(cs *fw.Case) {
		d := sp[cs.Index%len(sp)]
		op := OpByName(d.op)
		pool := [][]string{{"Float64", "Float64"}, {"ConstFloat64", "ConstFloat32"}, {"Real32", "Float32"}}[cs.Index/len(sp)]
		cl := &call{op: op, cls: "special", args: d.args}
		for i := range d.args.X {
			cl.ots = append(cl.ots, TypeByName(pool[i%2]))
		}
		cl.args = heldArgs(d.args, cl.ots, gen.ElemType{}, false)
		cl.execute(cs, FloatRecv)
	})

	// (6) integer wrap-around and zero divisors
	c.Cases("intwrap", c.N(4000, 80000), func(cs *fw.Case) { intWrapCase(cs) })

	// (7) predicates on all sixteen receiver types
	c.Cases("pred", c.N(8000, 160000), func(cs *fw.Case) { predCase(cs) })

	// (8) conversions, registry constructors, getters and setters
	c.Cases("convert", c.N(16*16*12, 16*16*200), func(cs *fw.Case) { convertCase(cs) })
}

type directed struct {
	op   string
	args Args
}

func around(x float64) []float64 {
	return []float64{math.Nextafter(x, math.Inf(-1)), x, math.Nextafter(x, math.Inf(1))}
}

func directedList() []directed {
	var l []directed
	add := func(op string, xs ...float64) { l = append(l, directed{op, Args{X: xs}}) }
	for _, b := range []float64{-37, 18, 33.3} {
		for _, x := range around(b) {
			add("Log1pExp", x)
		}
	}
	for _, x := range []float64{-38, -36, 17, 19, 20, 25, 30, 33, 34, 40, 0, 1, -1} {
		add("Log1pExp", x)
	}
	for _, x := range []float64{0, math.Copysign(0, -1), 5e-324, -5e-324, 1, -1, 36, -36, 40, -40, 700, -700, 745, -745} {
		add("Sigmoid", x)
		add("Logistic", x)
	}
	for _, x := range []float64{0.5, 0, 1, -1, 2, 3, 0.1, -0.5, 5} {
		add("Erfc", x)
		add("Erf", x)
	}
	// LogErfc branch boundaries: x*x < 2.46e-2, x > 8
	for _, b := range []float64{-0.15686884013646952, 0.15686884013646952, 8} {
		for _, x := range around(b) {
			add("LogErfc", x)
		}
	}
	for _, x := range []float64{0, 0.1, -0.1, 1, 5, 7.9, 8.1, 10, 20, 26, 27, 30, -1, -3, -6} {
		add("LogErfc", x)
	}
	for _, x := range []float64{0, math.Copysign(0, -1), 1, -1, 5e-324, -5e-324} {
		add("Abs", x)
		add("Neg", x)
	}
	for _, p := range [][2]float64{{1, 1}, {-2, -2}, {0, math.Copysign(0, -1)}, {1, 2}, {2, 1}} {
		add("Min", p[0], p[1])
		add("Max", p[0], p[1])
		add("LogAdd", p[0], p[1])
	}
	for _, p := range [][2]float64{{0, 1}, {0, 2.5}, {2, 0.5}, {4, 0.5}, {2, 2}, {2, 3}, {-2, 3}, {-2, 2}, {-8, -1}, {1, 100}, {10, -3}, {2, 1.5}, {2, 0}, {0.5, -2}} {
		add("Pow", p[0], p[1])
	}
	for _, p := range [][2]float64{{1, 0}, {0, -1}, {5, 5 - 1e-9}, {3, -40}, {-700, -701}, {30, 29.999}} {
		add("LogSub", p[0], p[1])
	}
	for _, p := range [][2]float64{{-700, -701}, {700, 701}, {3, -40}, {-40, 3}, {0, 0}} {
		add("LogAdd", p[0], p[1])
	}
	for _, x := range []float64{0.5, 1, 1.5, 2, 3, -0.5, -1.5, -2.5, 1e-5, 20, 171, 1e-300} {
		add("Gamma", x)
		add("Lgamma", x)
	}
	for _, x := range []float64{-2.5, -0.5, -4.5, -1.5, -3.5, 100, 1e5} {
		add("Lgamma", x)
	}
	for _, x := range []float64{0, 1, 4, 0.25, 1e-300, 1e300} {
		add("Sqrt", x)
	}
	for _, x := range []float64{1, 0.5, 2, 1e-300, 1e300} {
		add("Log", x)
	}
	for _, x := range []float64{0, 1e-20, -1e-20, -0.5, 1} {
		add("Log1p", x)
	}
	for _, x := range []float64{0, 1, -1, 4, -4, 5, 10, -10, 19, 20, -20} {
		add("Tanh", x)
	}
	// one point per evaluation method of the incomplete gamma function (region labels of the oracle)
	for _, p := range [][2]float64{{3, 2.5}, {2.5, 1.5}, {0.3, 0.5}, {0.3, 0.01}, {0.9, 1.05}, {5.5, 2}, {2.25, 9}, {22.4, 18.875}, {40, 44}, {250, 255}, {3, 1e-17}} {
		l = append(l, directed{"GammaP", Args{X: []float64{p[1]}, Par: p[0]}})
	}
	for _, p := range [][2]float64{{0, 0.5}, {1, 0.5}, {0.5, 0.1}, {0.5, 3}, {3.25, 0.5}, {3.25, 12}, {7, 1}, {2, 30}} {
		l = append(l, directed{"BesselI", Args{X: []float64{p[1]}, Par: p[0]}})
		l = append(l, directed{"LogBesselI", Args{X: []float64{p[1]}, Par: p[0]}})
	}
	for k := 1; k <= 4; k++ {
		l = append(l, directed{"Mlgamma", Args{X: []float64{float64(k-1)/2 + 0.25}, K: k}}, directed{"Mlgamma", Args{X: []float64{10.5}, K: k}})
	}
	return l
}

func specialList() []directed {
	inf, nan, nz := math.Inf(1), math.NaN(), math.Copysign(0, -1)
	var l []directed
	add := func(op string, xs ...float64) { l = append(l, directed{op, Args{X: xs}}) }
	for _, x := range []float64{0, nz, inf, -inf, nan} {
		add("Neg", x)
		add("Abs", x)
	}
	for _, op := range []string{"Sqrt", "Exp", "Log", "Log1p", "Sin", "Cos", "Tan", "Sinh", "Cosh", "Tanh", "Erf", "Erfc", "LogErfc",
		"Logistic", "Sigmoid", "Log1pExp"} {
		for _, x := range []float64{inf, -inf, nan} {
			add(op, x)
		}
	}
	add("Sqrt", -1)
	add("Log", 0)
	add("Log", -1)
	add("Log1p", -1)
	add("Log1p", -2)
	add("Gamma", inf)
	add("Lgamma", inf)
	add("Gamma", nan)
	add("Lgamma", nan)
	for _, p := range [][2]float64{{inf, 1}, {inf, -inf}, {nan, 1}, {1, nan}, {-inf, -inf}, {inf, inf}} {
		add("Add", p[0], p[1])
		add("Sub", p[0], p[1])
	}
	for _, p := range [][2]float64{{inf, 0}, {inf, -1}, {inf, inf}, {nan, 1}, {0, nan}, {-inf, 2}} {
		add("Mul", p[0], p[1])
	}
	for _, p := range [][2]float64{{1, 0}, {1, nz}, {-1, 0}, {0, 0}, {1, inf}, {inf, inf}, {inf, 2}, {nan, 1}, {-3, inf}} {
		add("Div", p[0], p[1])
	}
	for _, p := range [][2]float64{{inf, 1}, {1, inf}, {-inf, 1}, {1, -inf}, {-inf, inf}} {
		add("Min", p[0], p[1])
		add("Max", p[0], p[1])
	}
	for _, p := range [][2]float64{{0, -1}, {inf, 1}, {inf, -1}, {2, inf}, {2, -inf}, {0.5, inf}, {-8, 0.5}, {nan, 1}, {1, nan}, {nan, 0}, {0, 0}} {
		add("Pow", p[0], p[1])
	}
	for _, p := range [][2]float64{{-inf, 1}, {1, -inf}, {-inf, -inf}, {inf, 1}, {1, inf}, {inf, inf}, {nan, 1}} {
		add("LogAdd", p[0], p[1])
	}
	for _, p := range [][2]float64{{1, -inf}, {2, 2}, {inf, 1}} {
		add("LogSub", p[0], p[1])
	}
	return l
}

/* integer wrap-around
 * -------------------------------------------------------------------------- */

func intLimits(t ST) (lo, hi int64) {
	if t.Bits == 64 {
		return math.MinInt64, math.MaxInt64
	}
	return -(1 << (t.Bits - 1)), 1<<(t.Bits-1) - 1
}

// makeInt constructs an integer-family scalar holding exactly v.
func makeInt(t ST, v int64) ad.ConstScalar {
	switch t.Name {
	case "Int8":
		return ad.NewInt8(int8(v))
	case "Int16":
		return ad.NewInt16(int16(v))
	case "Int32":
		return ad.NewInt32(int32(v))
	case "Int64":
		return ad.NewInt64(v)
	case "Int":
		return ad.NewInt(int(v))
	case "ConstInt8":
		return ad.ConstInt8(v)
	case "ConstInt16":
		return ad.ConstInt16(v)
	case "ConstInt32":
		return ad.ConstInt32(v)
	case "ConstInt64":
		return ad.ConstInt64(v)
	case "ConstInt":
		return ad.ConstInt(v)
	}
	panic("makeInt " + t.Name)
}

func intTypes() []ST {
	var r []ST
	for _, t := range Types {
		if t.Int {
			r = append(r, t)
		}
	}
	return r
}

// extremeInt draws a value held by type t near the limits of receiver type rt
// (or of t itself).
func extremeInt(r *prng.Rand, t, rt ST) int64 {
	lo, hi := intLimits(t)
	rlo, rhi := intLimits(rt)
	var v int64
	if t.Bits == 64 && r.Chance(0.3) {
		// 64-bit values that float64 cannot tell apart: +-(2^53 + k), +-(2^62 + k), k small
		base := []int64{1 << 53, 1 << 62, 1<<53 + 1<<30, 3 << 60}[r.Intn(4)]
		v = base + int64(r.Range(-3, 3))
		if r.Bool() {
			v = -v
		}
		return v
	}
	switch r.Intn(6) {
	case 0:
		v = rhi - int64(r.Intn(4))
	case 1:
		v = rlo + int64(r.Intn(4))
	case 2:
		v = hi - int64(r.Intn(4))
	case 3:
		v = lo + int64(r.Intn(4))
	case 4:
		v = int64(r.Range(-3, 3))
	default:
		// anything in the receiver's range, or one wrap beyond it
		span := uint64(rhi) - uint64(rlo)
		v = rlo + int64(r.Uint64()%(span/2+1)) + int64(r.Uint64()%(span/2+1))
		if r.Chance(0.3) && rt.Bits < 64 {
			v += (rhi - rlo + 1) * int64(r.Range(-2, 2))
		}
	}
	if v < lo {
		v = lo
	}
	if v > hi {
		v = hi
	}
	return v
}

var ringOps = []string{"Add", "Sub", "Mul", "Div", "Neg", "Abs", "Min", "Max"}

func intWrapCase(cs *fw.Case) {
	r := cs.R
	its := intTypes()
	opn := ringOps[cs.Index%len(ringOps)]
	op := OpByName(opn)
	rt := IntRecv[(cs.Index/len(ringOps))%len(IntRecv)]
	ta, tb := its[r.Intn(len(its))], its[r.Intn(len(its))]
	a, b := extremeInt(r, ta, rt), extremeInt(r, tb, rt)
	if r.Chance(0.3) {
		// second operand next to the first one (they may differ only below the resolution of float64)
		lo, hi := intLimits(tb)
		if d := int64(r.Range(-2, 2)); (d >= 0 && a <= hi-d && a >= lo) || (d < 0 && a >= lo-d && a <= hi) {
			b = a + d
		}
	}
	if opn == "Div" && r.Chance(0.2) {
		b = 0
	}
	// a float-family operand with a fractional value: the receiver sees it truncated towards zero (Go conversion)
	fracB, fb := false, 0.0
	if opn != "Neg" && opn != "Abs" && r.Chance(0.2) {
		tb = FloatFam[r.Intn(len(FloatFam))]
		k := r.Range(-100, 100)
		fb = float64(k) + r.PickF([]float64{0.5, 0.25, 0.75, -0.5, -0.25, -0.75})
		b = int64(fb) // truncation
		if opn == "Div" && b == 0 {
			fb, b = 2.5, 2
		}
		fracB = true
		a = wrapInt(rt.Bits, a)
		if r.Bool() {
			a = b + int64(r.Range(-1, 1))
		}
		alo, ahi := intLimits(ta)
		if a < alo || a > ahi {
			a = b
		}
	}
	if opn == "Abs" {
		// |x| of an operand that does not fit the receiver is not defined by the property: keep it in range
		a = wrapInt(rt.Bits, a)
		ta = TypeByName(rt.Name)
	}
	recv := rt.New(1)
	xs := []ad.ConstScalar{makeInt(ta, a), nil}
	if fracB {
		xs[1] = tb.Make(fb)
	} else {
		xs[1] = makeInt(tb, b)
	}
	p := fw.Call(func() { ApplyScalar(op, recv, xs, 0, 0, nil) })
	want, wantPanic := refRing(rt.Name, opn, a, b)
	rlo, rhi := intLimits(rt)
	label := "in-range"
	switch {
	case fracB:
		label = "fractional-float-operand"
	case opn == "Div" && wantPanic:
		label = "zero-divisor"
	case a < rlo || a > rhi || (op.Kind == Dy && (b < rlo || b > rhi)):
		label = "operand-wraps"
	default:
		// does the exact result leave the receiver's range?
		fa, fb := float64(a), float64(b)
		var ex float64
		switch opn {
		case "Add":
			ex = fa + fb
		case "Sub":
			ex = fa - fb
		case "Mul":
			ex = fa * fb
		case "Neg":
			ex = -fa
		case "Abs":
			ex = math.Abs(fa)
		case "Div":
			ex = fa / fb
		}
		if ex > float64(rhi) || ex < float64(rlo) {
			label = "result-wraps"
		}
	}
	cs.Cover("op:" + opn + "/" + rt.Name)
	cs.Cover("intwrap:" + label)
	cs.Cover("optype:" + ta.Name)
	witness := map[string]any{"op": opn, "recv": rt.Name, "ot": []string{ta.Name, tb.Name}, "a": a, "b": b}
	if fracB {
		witness["b_as_float"] = fb
	}
	got := recv.GetInt64()
	switch {
	case wantPanic && p == nil:
		cs.Violation(fmt.Sprintf("C02|intwrap|%s|recv=%s|%s|no-panic", opn, rt.Name, label),
			fmt.Sprintf("%s.Div(%d, 0) returned %d; Go integer division by zero panics", rt.Name, a, got), witness)
	case wantPanic:
		cs.Cover("int-zero-divisor-panics")
	case p != nil:
		cs.Violation(fmt.Sprintf("C02|intwrap|%s|recv=%s|%s|panic", opn, rt.Name, label),
			fmt.Sprintf("%s.%s(%d, %d) panicked: %s (%s)", rt.Name, opn, a, b, p.Msg, p.Frame), witness)
	case got != want:
		cs.Violation(fmt.Sprintf("C02|intwrap|%s|recv=%s|%s|value", opn, rt.Name, label),
			fmt.Sprintf("%s.%s(%s %d, %s %d) = %d, Go arithmetic in %s gives %d", rt.Name, opn, ta.Name, a, tb.Name, b, got, strings.ToLower(rt.Name), want), witness)
	}
	cs.Nontrivial(opn, rt.Name, ta.Name, tb.Name, a, b)
	if cs.Index < 2 {
		cs.Sample(witness)
	}
}

/* predicates
 * -------------------------------------------------------------------------- */

func predCase(cs *fw.Case) {
	r := cs.R
	rt := Types[cs.Index%len(Types)]
	tb := Types[r.Intn(len(Types))]
	var a, b float64
	intOnly := rt.Int || tb.Int
	draw := func() float64 {
		if intOnly {
			return ri(r, -100, 100)
		}
		if r.Chance(0.1) {
			return 0
		}
		return r.Dyadic(800)
	}
	a = draw()
	b = draw()
	if r.Chance(0.25) {
		b = a
	}
	// operands must be representable in both types (so "as represented in the receiver's type" is literal)
	if !rt.Fits(a) || !tb.Fits(b) || !rt.Fits(b) || !tb.Fits(a) {
		a, b = math.Trunc(a/8), math.Trunc(b/8)
	}
	eps := r.PickF([]float64{1e-12, 0.3, 1.3, 2.7, 50.3})
	judgeInt := func(label string, x, y ad.ConstScalar, ai, bi int64, wit map[string]any) {
		// Greater / Smaller / Sign in the receiver's integer type (bi = the operand as the receiver's getter converts it)
		var gr, sm bool
		var sg int
		if p := fw.Call(func() { gr, sm, sg = x.Greater(y), x.Smaller(y), x.Sign() }); p != nil {
			cs.Violation(fmt.Sprintf("C02|pred|compare|recv=%s|%s|panic", rt.Name, label), p.Msg+" "+p.Frame, wit)
			return
		}
		wg, ws, wsg := refCmp(rt.Name, ai, bi)
		cs.Cover("pred:" + label)
		for _, c := range []struct {
			name      string
			got, want any
		}{{"Greater", gr, wg}, {"Smaller", sm, ws}, {"Sign", sg, wsg}} {
			cs.Cover("op:" + c.name + "/" + rt.Name)
			if c.got != c.want {
				cs.Violation(fmt.Sprintf("C02|pred|%s|recv=%s|%s|value", c.name, rt.Name, label),
					fmt.Sprintf("%s(%d).%s(%s %v) = %v, the order of the operands as represented in the receiver's type says %v", rt.Name, ai, c.name, tb.Name, wit["b"], c.got, c.want), wit)
			}
		}
		cs.Cover("optype:" + tb.Name)
		cs.Nontrivial(label, rt.Name, tb.Name, ai, fmt.Sprint(wit["b"]))
	}
	if rt.Int && tb.Int && r.Chance(0.4) {
		// extreme operands: type bounds, +-2^53+-k, 2^62.., neighbours that float64 cannot tell apart, operands outside the receiver's range
		ai := int64(a)
		if r.Bool() {
			ai = extremeInt(r, rt, rt)
		}
		bi := extremeInt(r, tb, rt)
		if r.Chance(0.4) {
			lo, hi := intLimits(tb)
			if d := int64(r.Range(-2, 2)); (d >= 0 && ai <= hi-d && ai >= lo) || (d < 0 && ai >= lo-d && ai <= hi) {
				bi = ai + d
			}
		}
		rlo, rhi := intLimits(rt)
		label := "extreme-operands"
		if bi < rlo || bi > rhi {
			label = "operand-wraps"
		}
		judgeInt(label, makeInt(rt, ai), makeInt(tb, bi), ai, bi, map[string]any{"recv": rt.Name, "ot": tb.Name, "a": ai, "b": bi})
		return
	}
	if rt.Int && !tb.Int && r.Chance(0.4) {
		// fractional float operand: an integer receiver sees it truncated towards zero
		fb := float64(r.Range(-100, 100)) + r.PickF([]float64{0.5, 0.25, 0.75, -0.5, -0.25, -0.75})
		bi := int64(fb)
		ai := bi + int64(r.Range(-1, 1))
		judgeInt("fractional-float-operand", makeInt(rt, ai), tb.Make(fb), ai, bi, map[string]any{"recv": rt.Name, "ot": tb.Name, "a": ai, "b": fb})
		return
	}
	if !rt.Int && tb.Int && tb.Bits == 64 && r.Chance(0.4) {
		// 64-bit integer operand beyond 2^53 seen by a float receiver: compared after Go's conversion to the receiver's float type
		bi := extremeInt(r, tb, tb)
		var fa, fbv float64
		if rt.Bits == 32 {
			fbv = float64(float32(bi))
			fa = float64(math.Nextafter32(float32(fbv), float32(math.Inf(r.Range(0, 1)*2-1))))
		} else {
			fbv = float64(bi)
			fa = math.Nextafter(fbv, math.Inf(r.Range(0, 1)*2-1))
		}
		if r.Chance(0.4) {
			fa = fbv
		}
		x, y := rt.Make(fa), makeInt(tb, bi)
		var gr, sm bool
		wit := map[string]any{"recv": rt.Name, "ot": tb.Name, "a": Hex(fa), "b": bi}
		if p := fw.Call(func() { gr, sm = x.Greater(y), x.Smaller(y) }); p != nil {
			cs.Violation(fmt.Sprintf("C02|pred|compare|recv=%s|int64-operand-beyond-2^53|panic", rt.Name), p.Msg+" "+p.Frame, wit)
			return
		}
		cs.Cover("pred:int64-operand-beyond-2^53")
		if gr != (fa > fbv) || sm != (fa < fbv) {
			cs.Violation(fmt.Sprintf("C02|pred|Greater/Smaller|recv=%s|int64-operand-beyond-2^53|value", rt.Name),
				fmt.Sprintf("%s(%v) vs %s(%d): Greater=%v Smaller=%v, the operand converted to the receiver's float type is %v", rt.Name, fa, tb.Name, bi, gr, sm, fbv), wit)
		}
		cs.Nontrivial("beyond", rt.Name, tb.Name, fa, bi)
		return
	}
	x, y := rt.Make(a), tb.Make(b)
	var gr, sm, eq bool
	var sg int
	if p := fw.Call(func() { gr, sm, eq, sg = x.Greater(y), x.Smaller(y), x.Equals(y, eps), x.Sign() }); p != nil {
		cs.Violation(fmt.Sprintf("C02|pred|compare|recv=%s|finite|panic", rt.Name), p.Msg+" "+p.Frame,
			map[string]any{"recv": rt.Name, "ot": tb.Name, "a": a, "b": b})
		return
	}
	wantSign := 0
	if a < 0 {
		wantSign = -1
	} else if a > 0 {
		wantSign = 1
	}
	witness := map[string]any{"recv": rt.Name, "ot": tb.Name, "a": Hex(a), "b": Hex(b), "eps": eps}
	chk := func(name string, got, want any) {
		cs.Cover("op:" + name + "/" + rt.Name)
		if fmt.Sprint(got) != fmt.Sprint(want) {
			cs.Violation(fmt.Sprintf("C02|pred|%s|recv=%s|finite|value", name, rt.Name),
				fmt.Sprintf("%s(%v).%s(%s(%v)) = %v, numeric order says %v", rt.Name, a, name, tb.Name, b, got, want), witness)
		}
	}
	chk("Greater", gr, a > b)
	chk("Smaller", sm, a < b)
	chk("Sign", sg, wantSign)
	chk("Equals", eq, math.Abs(a-b) < eps)
	cs.Cover("optype:" + tb.Name)
	cs.Nontrivial(rt.Name, tb.Name, a, b, eps)
}
