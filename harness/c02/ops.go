package c02

import (
	"math"

	ad "github.com/pbenner/autodiff"

	"verifharness/internal/prng"
)

// Operation kinds (call shapes of the Scalar interface).
const (
	Mon   = iota // r.Op(a)
	Dy           // r.Op(a, b)
	DyT          // r.Op(a, b, tmp)          LogAdd LogSub
	MonT         // r.Op(a, tmp)             Sigmoid
	ParK         // r.Op(a, k int)           Mlgamma
	ParF         // r.Op(p float64, a)       GammaP BesselI LogBesselI
	RedV         // r.Op(vector)             Vmean Vnorm
	RedVV        // r.Op(vector, vector)     VdotV
	RedM         // r.Op(matrix)             Mnorm Mtrace
	RedSM        // r.Op(vector, alpha, tmp) SmoothMax LogSmoothMax
)

// Args is one operand tuple of an operation.
type Args struct {
	X    []float64 // scalar operands, or the elements of the first vector / matrix (row major)
	Y    []float64 // second vector (VdotV)
	Par  float64   // float parameter (GammaP a, BesselI v) or alpha (SmoothMax)
	K    int       // Mlgamma dimension
	Rows int       // matrices
	Cols int
}

// Op is one entry of the per-operation domain table (shared by C01 and C02).
type Op struct {
	Name string
	Kind int
	// Gen draws generic float64 operands inside the operation's domain.
	Gen func(r *prng.Rand) Args
	// Grid draws small-integer operands inside the domain (exactly
	// representable in every scalar type, Int8 included).
	Grid func(r *prng.Rand) Args
	// Ok is the domain predicate (used after rounding operands to a grid).
	Ok func(a Args) bool
	// IntJudged: integer receivers are judged for this operation
	// ("ring": Go integer arithmetic in-process, "prim": a single primitive
	// evaluated in float64 and converted, judged offline, "": not judged).
	IntJudged string
}

func slu(r *prng.Rand, lo, hi float64) float64 {
	v := r.LogUniform(lo, hi)
	if r.Bool() {
		return -v
	}
	return v
}

func ri(r *prng.Rand, lo, hi int) float64 { return float64(r.Range(lo, hi)) }

func isInt(x float64) bool { return x == math.Trunc(x) }

func always(Args) bool { return true }

func mon(gen func(r *prng.Rand) float64, lo, hi int, ok func(x float64) bool) (func(*prng.Rand) Args, func(*prng.Rand) Args, func(Args) bool) {
	g := func(r *prng.Rand) Args { return Args{X: []float64{gen(r)}} }
	gr := func(r *prng.Rand) Args {
		for {
			x := ri(r, lo, hi)
			if ok == nil || ok(x) {
				return Args{X: []float64{x}}
			}
		}
	}
	okf := func(a Args) bool { return ok == nil || ok(a.X[0]) }
	return g, gr, okf
}

func mkMon(name string, intJ string, gen func(r *prng.Rand) float64, lo, hi int, ok func(x float64) bool) Op {
	g, gr, okf := mon(gen, lo, hi, ok)
	return Op{Name: name, Kind: Mon, Gen: g, Grid: gr, Ok: okf, IntJudged: intJ}
}

func vec(r *prng.Rand, n int, f func() float64) []float64 {
	xs := make([]float64, n)
	for i := range xs {
		xs[i] = f()
	}
	return xs
}

func nonPole(x float64) bool { return !(x <= 0 && isInt(x)) }

func gammaArg(r *prng.Rand, hi float64) float64 {
	for {
		var x float64
		if r.Chance(0.3) {
			x = r.Uniform(-8, 0)
		} else {
			x = r.LogUniform(1e-3, hi)
		}
		if math.Abs(x-math.Round(x)) > 1e-3 || x > 0.5 {
			return x
		}
	}
}

// Ops is the operation table.  Domains are the sets on which the named
// function is defined, finite and representable in float32 as well (the oracle
// treats overflow / underflow of the storage type separately).
var Ops = []Op{
	mkMon("Neg", "ring", func(r *prng.Rand) float64 {
		if r.Chance(0.05) {
			return 0
		}
		return slu(r, 1e-3, 1e3)
	}, -100, 100, nil),
	mkMon("Abs", "ring", func(r *prng.Rand) float64 {
		if r.Chance(0.05) {
			return 0
		}
		return slu(r, 1e-3, 1e3)
	}, -100, 100, nil),
	mkMon("Sqrt", "prim", func(r *prng.Rand) float64 { return r.LogUniform(1e-6, 1e6) }, 0, 100, func(x float64) bool { return x >= 0 }),
	mkMon("Sin", "prim", trigArg, -20, 20, nil),
	mkMon("Cos", "prim", trigArg, -20, 20, nil),
	mkMon("Tan", "prim", trigArg, -20, 20, nil),
	mkMon("Sinh", "prim", hypArg, -4, 4, nil),
	mkMon("Cosh", "prim", hypArg, -4, 4, nil),
	mkMon("Tanh", "prim", func(r *prng.Rand) float64 { return r.Uniform(-12, 12) }, -6, 6, nil),
	mkMon("Exp", "prim", func(r *prng.Rand) float64 {
		if r.Chance(0.1) {
			return r.Uniform(-85, 85)
		}
		return r.Uniform(-30, 30)
	}, -4, 4, nil),
	mkMon("Log", "prim", func(r *prng.Rand) float64 { return r.LogUniform(1e-10, 1e10) }, 1, 100, func(x float64) bool { return x > 0 }),
	mkMon("Log1p", "prim", func(r *prng.Rand) float64 {
		switch r.Intn(3) {
		case 0:
			return r.Uniform(-0.999, 2)
		case 1:
			return slu(r, 1e-10, 1e-2)
		}
		return r.LogUniform(1, 1e6)
	}, 0, 100, func(x float64) bool { return x > -1 }),
	mkMon("Log1pExp", "", func(r *prng.Rand) float64 {
		if r.Chance(0.3) {
			return r.PickF([]float64{-37, 18, 33.3}) + r.Uniform(-1.5, 1.5)
		}
		return r.Uniform(-45, 45)
	}, -40, 40, nil),
	mkMon("Logistic", "", func(r *prng.Rand) float64 { return r.Uniform(-40, 40) }, -40, 40, nil),
	{Name: "Sigmoid", Kind: MonT,
		Gen:  func(r *prng.Rand) Args { return Args{X: []float64{r.Uniform(-40, 40)}} },
		Grid: func(r *prng.Rand) Args { return Args{X: []float64{ri(r, -40, 40)}} }, Ok: always},
	mkMon("Erf", "prim", func(r *prng.Rand) float64 { return r.Uniform(-5, 5) }, -3, 3, nil),
	mkMon("Erfc", "prim", func(r *prng.Rand) float64 { return r.Uniform(-5, 9) }, -3, 5, nil),
	mkMon("LogErfc", "prim", func(r *prng.Rand) float64 {
		if r.Chance(0.2) {
			return r.Uniform(-0.25, 0.25)
		}
		return r.Uniform(-5, 25)
	}, -3, 20, nil),
	mkMon("Gamma", "prim", func(r *prng.Rand) float64 { return gammaArg(r, 25) }, 1, 6, nonPole),
	mkMon("Lgamma", "prim", func(r *prng.Rand) float64 { return gammaArg(r, 1e3) }, 1, 100, nonPole),
	{Name: "Mlgamma", Kind: ParK, IntJudged: "prim",
		Gen: func(r *prng.Rand) Args {
			k := r.Range(1, 4)
			return Args{X: []float64{float64(k-1)/2 + r.LogUniform(1e-2, 50)}, K: k}
		},
		Grid: func(r *prng.Rand) Args {
			k := r.Range(1, 4)
			return Args{X: []float64{ri(r, k/2+1, 50)}, K: k}
		},
		Ok: func(a Args) bool { return a.X[0] > float64(a.K-1)/2 }},
	{Name: "GammaP", Kind: ParF, IntJudged: "prim",
		Gen: func(r *prng.Rand) Args {
			return Args{X: []float64{r.LogUniform(1e-3, 60)}, Par: r.LogUniform(0.05, 30)}
		},
		Grid: func(r *prng.Rand) Args {
			return Args{X: []float64{ri(r, 1, 30)}, Par: r.PickF([]float64{0.5, 1, 2, 3.5, 10})}
		},
		Ok: func(a Args) bool { return a.X[0] > 0 && a.Par > 0 }},
	{Name: "BesselI", Kind: ParF, IntJudged: "prim",
		Gen: func(r *prng.Rand) Args {
			return Args{X: []float64{r.LogUniform(1e-2, 30)}, Par: besselOrder(r)}
		},
		Grid: func(r *prng.Rand) Args { return Args{X: []float64{ri(r, 1, 20)}, Par: besselOrder(r)} },
		Ok:   func(a Args) bool { return a.X[0] > 0 }},
	{Name: "LogBesselI", Kind: ParF, IntJudged: "prim",
		Gen: func(r *prng.Rand) Args {
			return Args{X: []float64{r.LogUniform(1e-2, 300)}, Par: besselOrder(r)}
		},
		Grid: func(r *prng.Rand) Args { return Args{X: []float64{ri(r, 1, 100)}, Par: besselOrder(r)} },
		Ok:   func(a Args) bool { return a.X[0] > 0 }},
	mkDy("Add", "ring", arithPair, -11, 11, nil),
	mkDy("Sub", "ring", arithPair, -11, 11, nil),
	mkDy("Mul", "ring", arithPair, -11, 11, nil),
	mkDy("Div", "ring", arithPair, -11, 11, func(x, y float64) bool { return y != 0 }),
	mkDy("Min", "ring", tiePair, -100, 100, nil),
	mkDy("Max", "ring", tiePair, -100, 100, nil),
	{Name: "Pow", Kind: Dy, IntJudged: "prim",
		Gen: func(r *prng.Rand) Args {
			if r.Chance(0.15) {
				return Args{X: []float64{-r.LogUniform(0.1, 10), ri(r, -4, 5)}}
			}
			if r.Chance(0.15) {
				return Args{X: []float64{r.LogUniform(1e-2, 1e2), r.PickF([]float64{0.5, 1.5, -0.5, 2, 3, -1, 1, 0})}}
			}
			return Args{X: []float64{r.LogUniform(1e-2, 1e2), r.Uniform(-5, 5)}}
		},
		Grid: func(r *prng.Rand) Args {
			if r.Chance(0.3) {
				return Args{X: []float64{ri(r, -4, -1), ri(r, 0, 3)}}
			}
			if r.Chance(0.1) {
				return Args{X: []float64{0, ri(r, 1, 3)}}
			}
			return Args{X: []float64{ri(r, 1, 6), ri(r, -2, 3)}}
		},
		Ok: func(a Args) bool {
			x, y := a.X[0], a.X[1]
			return x > 0 || (x < 0 && isInt(y)) || (x == 0 && y > 0)
		}},
	{Name: "LogAdd", Kind: DyT,
		Gen: func(r *prng.Rand) Args {
			a := r.Uniform(-30, 30)
			if r.Chance(0.15) {
				return Args{X: []float64{a, a}}
			}
			return Args{X: []float64{a, r.Uniform(-30, 30)}}
		},
		Grid: func(r *prng.Rand) Args { return Args{X: []float64{ri(r, -20, 20), ri(r, -20, 20)}} }, Ok: always},
	{Name: "LogSub", Kind: DyT,
		Gen: func(r *prng.Rand) Args {
			a := r.Uniform(-30, 30)
			return Args{X: []float64{a, a - r.LogUniform(1e-3, 40)}}
		},
		Grid: func(r *prng.Rand) Args {
			a := ri(r, -20, 20)
			return Args{X: []float64{a, a - ri(r, 1, 20)}}
		},
		Ok: func(a Args) bool { return a.X[0] > a.X[1] }},
	{Name: "SmoothMax", Kind: RedSM,
		Gen: func(r *prng.Rand) Args {
			return Args{X: vec(r, r.Range(1, 6), func() float64 { return r.Uniform(-4, 4) }), Par: slu(r, 0.1, 8)}
		},
		Grid: func(r *prng.Rand) Args {
			return Args{X: vec(r, r.Range(1, 6), func() float64 { return ri(r, -5, 5) }), Par: r.PickF([]float64{-2, -1, 1, 2, 3})}
		}, Ok: always},
	{Name: "LogSmoothMax", Kind: RedSM,
		Gen: func(r *prng.Rand) Args {
			return Args{X: vec(r, r.Range(1, 6), func() float64 { return r.LogUniform(0.05, 8) }), Par: slu(r, 0.1, 4)}
		},
		Grid: func(r *prng.Rand) Args {
			return Args{X: vec(r, r.Range(1, 6), func() float64 { return ri(r, 1, 6) }), Par: r.PickF([]float64{-1, 1, 2})}
		},
		Ok: func(a Args) bool {
			for _, x := range a.X {
				if x <= 0 {
					return false
				}
			}
			return true
		}},
	{Name: "Vmean", Kind: RedV, IntJudged: "ring",
		Gen: func(r *prng.Rand) Args { return Args{X: vec(r, r.Range(1, 8), func() float64 { return velem(r) })} },
		Grid: func(r *prng.Rand) Args {
			return Args{X: vec(r, r.Range(1, 8), func() float64 { return ri(r, -11, 11) })}
		}, Ok: always},
	{Name: "Vnorm", Kind: RedV,
		Gen:  func(r *prng.Rand) Args { return Args{X: vec(r, r.Range(1, 8), func() float64 { return velem(r) })} },
		Grid: func(r *prng.Rand) Args { return Args{X: vec(r, r.Range(1, 8), func() float64 { return ri(r, -6, 6) })} }, Ok: always},
	{Name: "VdotV", Kind: RedVV, IntJudged: "ring",
		Gen: func(r *prng.Rand) Args {
			n := r.Range(1, 8)
			return Args{X: vec(r, n, func() float64 { return velem(r) }), Y: vec(r, n, func() float64 { return velem(r) })}
		},
		Grid: func(r *prng.Rand) Args {
			n := r.Range(1, 8)
			return Args{X: vec(r, n, func() float64 { return ri(r, -4, 4) }), Y: vec(r, n, func() float64 { return ri(r, -3, 3) })}
		}, Ok: always},
	{Name: "Mnorm", Kind: RedM,
		Gen: func(r *prng.Rand) Args {
			m, n := r.Range(1, 3), r.Range(1, 3)
			return Args{X: vec(r, m*n, func() float64 { return velem(r) }), Rows: m, Cols: n}
		},
		Grid: func(r *prng.Rand) Args {
			m, n := r.Range(1, 3), r.Range(1, 3)
			return Args{X: vec(r, m*n, func() float64 { return ri(r, -3, 3) }), Rows: m, Cols: n}
		}, Ok: always},
	{Name: "Mtrace", Kind: RedM, IntJudged: "ring",
		Gen: func(r *prng.Rand) Args {
			n := r.Range(1, 4)
			return Args{X: vec(r, n*n, func() float64 { return velem(r) }), Rows: n, Cols: n}
		},
		Grid: func(r *prng.Rand) Args {
			n := r.Range(1, 4)
			return Args{X: vec(r, n*n, func() float64 { return ri(r, -11, 11) }), Rows: n, Cols: n}
		}, Ok: always},
}

func trigArg(r *prng.Rand) float64 {
	if r.Chance(0.1) {
		return slu(r, 1, 1e4)
	}
	return r.Uniform(-20, 20)
}

func hypArg(r *prng.Rand) float64 {
	if r.Chance(0.1) {
		return r.Uniform(-80, 80)
	}
	return r.Uniform(-20, 20)
}

func besselOrder(r *prng.Rand) float64 {
	return r.PickF([]float64{0, 1, 2, 0.5, 1.5, 3.25, 7})
}

func velem(r *prng.Rand) float64 {
	if r.Chance(0.15) {
		return 0
	}
	return slu(r, 1e-2, 1e2)
}

func arithPair(r *prng.Rand) (float64, float64) { return slu(r, 1e-3, 1e3), slu(r, 1e-3, 1e3) }

func tiePair(r *prng.Rand) (float64, float64) {
	x := slu(r, 1e-3, 1e3)
	if r.Chance(0.2) {
		return x, x
	}
	return x, slu(r, 1e-3, 1e3)
}

func mkDy(name, intJ string, gen func(r *prng.Rand) (float64, float64), lo, hi int, ok func(x, y float64) bool) Op {
	return Op{Name: name, Kind: Dy, IntJudged: intJ,
		Gen: func(r *prng.Rand) Args {
			x, y := gen(r)
			return Args{X: []float64{x, y}}
		},
		Grid: func(r *prng.Rand) Args { return Args{X: []float64{ri(r, lo, hi), ri(r, lo, hi)}} },
		Ok:   func(a Args) bool { return ok == nil || ok(a.X[0], a.X[1]) },
	}
}

func OpByName(n string) *Op {
	for i := range Ops {
		if Ops[i].Name == n {
			return &Ops[i]
		}
	}
	panic("unknown op " + n)
}

// RoundTo rounds every operand to a multiple of 1/den (den a power of two),
// leaving parameters alone.
func (a Args) RoundTo(den float64) Args {
	b := a
	b.X = make([]float64, len(a.X))
	for i, x := range a.X {
		b.X[i] = math.Round(x*den) / den
	}
	if a.Y != nil {
		b.Y = make([]float64, len(a.Y))
		for i, x := range a.Y {
			b.Y[i] = math.Round(x*den) / den
		}
	}
	return b
}

type logBesselI interface {
	LogBesselI(float64, ad.ConstScalar) ad.Scalar
}

// ApplyScalar calls a scalar operation (kinds Mon..ParF) on receiver r.
func ApplyScalar(op *Op, r ad.Scalar, x []ad.ConstScalar, par float64, k int, tmp ad.Scalar) ad.Scalar {
	switch op.Name {
	case "Neg":
		return r.Neg(x[0])
	case "Abs":
		return r.Abs(x[0])
	case "Sqrt":
		return r.Sqrt(x[0])
	case "Sin":
		return r.Sin(x[0])
	case "Cos":
		return r.Cos(x[0])
	case "Tan":
		return r.Tan(x[0])
	case "Sinh":
		return r.Sinh(x[0])
	case "Cosh":
		return r.Cosh(x[0])
	case "Tanh":
		return r.Tanh(x[0])
	case "Exp":
		return r.Exp(x[0])
	case "Log":
		return r.Log(x[0])
	case "Log1p":
		return r.Log1p(x[0])
	case "Log1pExp":
		return r.Log1pExp(x[0])
	case "Logistic":
		return r.Logistic(x[0])
	case "Sigmoid":
		return r.Sigmoid(x[0], tmp)
	case "Erf":
		return r.Erf(x[0])
	case "Erfc":
		return r.Erfc(x[0])
	case "LogErfc":
		return r.LogErfc(x[0])
	case "Gamma":
		return r.Gamma(x[0])
	case "Lgamma":
		return r.Lgamma(x[0])
	case "Mlgamma":
		return r.Mlgamma(x[0], k)
	case "GammaP":
		return r.GammaP(par, x[0])
	case "BesselI":
		return r.BesselI(par, x[0])
	case "LogBesselI":
		return r.(logBesselI).LogBesselI(par, x[0])
	case "Add":
		return r.Add(x[0], x[1])
	case "Sub":
		return r.Sub(x[0], x[1])
	case "Mul":
		return r.Mul(x[0], x[1])
	case "Div":
		return r.Div(x[0], x[1])
	case "Min":
		return r.Min(x[0], x[1])
	case "Max":
		return r.Max(x[0], x[1])
	case "Pow":
		return r.Pow(x[0], x[1])
	case "LogAdd":
		return r.LogAdd(x[0], x[1], tmp)
	case "LogSub":
		return r.LogSub(x[0], x[1], tmp)
	}
	panic("ApplyScalar: " + op.Name)
}

// ApplyReduce calls a vector / matrix reduction on receiver r.
func ApplyReduce(op *Op, r ad.Scalar, v, w ad.ConstVector, m ad.ConstMatrix, alpha float64, tmp []ad.Scalar) ad.Scalar {
	switch op.Name {
	case "SmoothMax":
		return r.SmoothMax(v, ad.ConstFloat64(alpha), [2]ad.Scalar{tmp[0], tmp[1]})
	case "LogSmoothMax":
		return r.LogSmoothMax(v, ad.ConstFloat64(alpha), [3]ad.Scalar{tmp[0], tmp[1], tmp[2]})
	case "Vmean":
		return r.Vmean(v)
	case "Vnorm":
		return r.Vnorm(v)
	case "VdotV":
		return r.VdotV(v, w)
	case "Mnorm":
		return r.Mnorm(m)
	case "Mtrace":
		return r.Mtrace(m)
	}
	panic("ApplyReduce: " + op.Name)
}
