// Package c02: every scalar type computes the function its method names
// (DESIGN.md, C02).  The worker drives every operation of the Scalar
// interface on all nine mutable receiver types with operands of all sixteen
// scalar types; integer-family results and all conversions are judged
// in-process against Go arithmetic, float-family results are written as
// hex-float events for driver/oracles/c02.py (named-function table in mpmath).
package c02

import (
	"math"
	"strconv"

	ad "github.com/pbenner/autodiff"
)

// ST describes one of the sixteen scalar types.
type ST struct {
	Name  string
	T     ad.ScalarType
	Const bool
	Int   bool
	Real  bool
	Bits  int
	// Make constructs a value of the type directly (never through the
	// registry, which is itself under test).  v must be representable.
	Make func(v float64) ad.ConstScalar
}

var Types = []ST{
	{"Int8", ad.Int8Type, false, true, false, 8, func(v float64) ad.ConstScalar { return ad.NewInt8(int8(v)) }},
	{"Int16", ad.Int16Type, false, true, false, 16, func(v float64) ad.ConstScalar { return ad.NewInt16(int16(v)) }},
	{"Int32", ad.Int32Type, false, true, false, 32, func(v float64) ad.ConstScalar { return ad.NewInt32(int32(v)) }},
	{"Int64", ad.Int64Type, false, true, false, 64, func(v float64) ad.ConstScalar { return ad.NewInt64(int64(v)) }},
	{"Int", ad.IntType, false, true, false, 64, func(v float64) ad.ConstScalar { return ad.NewInt(int(v)) }},
	{"Float32", ad.Float32Type, false, false, false, 32, func(v float64) ad.ConstScalar { return ad.NewFloat32(float32(v)) }},
	{"Float64", ad.Float64Type, false, false, false, 64, func(v float64) ad.ConstScalar { return ad.NewFloat64(v) }},
	{"Real32", ad.Real32Type, false, false, true, 32, func(v float64) ad.ConstScalar { return ad.NewReal32(float32(v)) }},
	{"Real64", ad.Real64Type, false, false, true, 64, func(v float64) ad.ConstScalar { return ad.NewReal64(v) }},
	{"ConstInt8", ad.ConstInt8Type, true, true, false, 8, func(v float64) ad.ConstScalar { return ad.ConstInt8(int8(v)) }},
	{"ConstInt16", ad.ConstInt16Type, true, true, false, 16, func(v float64) ad.ConstScalar { return ad.ConstInt16(int16(v)) }},
	{"ConstInt32", ad.ConstInt32Type, true, true, false, 32, func(v float64) ad.ConstScalar { return ad.ConstInt32(int32(v)) }},
	{"ConstInt64", ad.ConstInt64Type, true, true, false, 64, func(v float64) ad.ConstScalar { return ad.ConstInt64(int64(v)) }},
	{"ConstInt", ad.ConstIntType, true, true, false, 64, func(v float64) ad.ConstScalar { return ad.ConstInt(int(v)) }},
	{"ConstFloat32", ad.ConstFloat32Type, true, false, false, 32, func(v float64) ad.ConstScalar { return ad.ConstFloat32(float32(v)) }},
	{"ConstFloat64", ad.ConstFloat64Type, true, false, false, 64, func(v float64) ad.ConstScalar { return ad.ConstFloat64(v) }},
}

// Mutable are the nine receiver types, FloatFam the six float-family operand
// types, FloatRecv the four float-family receivers.
var Mutable, FloatFam, FloatRecv, IntRecv []ST

func init() {
	for _, t := range Types {
		if !t.Const {
			Mutable = append(Mutable, t)
			if t.Int {
				IntRecv = append(IntRecv, t)
			} else {
				FloatRecv = append(FloatRecv, t)
			}
		}
		if !t.Int {
			FloatFam = append(FloatFam, t)
		}
	}
}

func TypeByName(n string) ST {
	for _, t := range Types {
		if t.Name == n {
			return t
		}
	}
	panic("unknown type " + n)
}

// Held is the value a scalar of the type holds after construction from v
// (float32 rounding for the 32-bit float types; integers must be in range).
func (t ST) Held(v float64) float64 {
	if !t.Int && t.Bits == 32 {
		return float64(float32(v))
	}
	return v
}

// Fits reports whether v is exactly representable in the type.
func (t ST) Fits(v float64) bool {
	if math.IsNaN(v) || math.IsInf(v, 0) {
		return !t.Int
	}
	if t.Int {
		if v != math.Trunc(v) {
			return false
		}
		lim := math.Ldexp(1, t.Bits-1)
		if t.Bits == 64 {
			// stay inside the range where float64 is exact
			return math.Abs(v) <= 1<<53
		}
		return v >= -lim && v <= lim-1
	}
	if t.Bits == 32 {
		return float64(float32(v)) == v
	}
	return true
}

// New constructs a mutable scalar of the type holding v.
func (t ST) New(v float64) ad.Scalar { return t.Make(v).(ad.Scalar) }

// Hex renders a float64 exactly.
func Hex(x float64) string { return strconv.FormatFloat(x, 'x', -1, 64) }

func HexAll(xs []float64) []string {
	r := make([]string, len(xs))
	for i, x := range xs {
		r[i] = Hex(x)
	}
	return r
}
