package c02

// Go generic reference for the integer family: the same arithmetic carried
// out in the receiver's integer type on the operands converted to that type
// (wrap-around included, zero divisor panics).

type integer interface {
	~int8 | ~int16 | ~int32 | ~int64 | ~int
}

// refRingT evaluates one ring operation in T.  a, b are the operand values
// (already integers); the conversion T(a) wraps like GetIntN() of a wider
// integer operand does.
func refRingT[T integer](op string, a, b int64) (res int64, panics bool) {
	x, y := T(a), T(b)
	switch op {
	case "Add":
		return int64(x + y), false
	case "Sub":
		return int64(x - y), false
	case "Mul":
		return int64(x * y), false
	case "Div":
		if y == 0 {
			return 0, true
		}
		return int64(x / y), false
	case "Neg":
		return int64(-x), false
	case "Abs":
		if x < 0 {
			return int64(-x), false
		}
		return int64(x), false
	case "Min":
		if x < y {
			return int64(x), false
		}
		return int64(y), false
	case "Max":
		if x > y {
			return int64(x), false
		}
		return int64(y), false
	}
	panic("refRingT: " + op)
}

func refRing(recv string, op string, a, b int64) (int64, bool) {
	switch recv {
	case "Int8", "ConstInt8":
		return refRingT[int8](op, a, b)
	case "Int16", "ConstInt16":
		return refRingT[int16](op, a, b)
	case "Int32", "ConstInt32":
		return refRingT[int32](op, a, b)
	case "Int64", "ConstInt64":
		return refRingT[int64](op, a, b)
	case "Int", "ConstInt":
		return refRingT[int](op, a, b)
	}
	panic("refRing: " + recv)
}

// refReduceT evaluates the ring-only reductions in T.
func refReduceT[T integer](op string, x, y []int64, rows, cols int) (int64, bool) {
	var s T
	switch op {
	case "Vmean":
		for _, v := range x {
			s += T(v)
		}
		n := T(len(x))
		if n == 0 {
			return 0, true
		}
		return int64(s / n), false
	case "VdotV":
		for i := range x {
			s += T(x[i]) * T(y[i])
		}
		return int64(s), false
	case "Mtrace":
		for i := 0; i < rows; i++ {
			s += T(x[i*cols+i])
		}
		return int64(s), false
	}
	panic("refReduceT: " + op)
}

func refReduce(recv string, op string, x, y []int64, rows, cols int) (int64, bool) {
	switch recv {
	case "Int8":
		return refReduceT[int8](op, x, y, rows, cols)
	case "Int16":
		return refReduceT[int16](op, x, y, rows, cols)
	case "Int32":
		return refReduceT[int32](op, x, y, rows, cols)
	case "Int64":
		return refReduceT[int64](op, x, y, rows, cols)
	case "Int":
		return refReduceT[int](op, x, y, rows, cols)
	}
	panic("refReduce: " + recv)
}

// refCmpT: numeric order of the operands as represented in T.
func refCmpT[T integer](a, b int64) (greater, smaller bool, sign int) {
	x, y := T(a), T(b)
	s := 0
	if x < 0 {
		s = -1
	} else if x > 0 {
		s = 1
	}
	return x > y, x < y, s
}

func refCmp(recv string, a, b int64) (bool, bool, int) {
	switch recv {
	case "Int8", "ConstInt8":
		return refCmpT[int8](a, b)
	case "Int16", "ConstInt16":
		return refCmpT[int16](a, b)
	case "Int32", "ConstInt32":
		return refCmpT[int32](a, b)
	case "Int64", "ConstInt64":
		return refCmpT[int64](a, b)
	case "Int", "ConstInt":
		return refCmpT[int](a, b)
	}
	panic("refCmp: " + recv)
}
