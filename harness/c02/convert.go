package c02

import (
	"fmt"
	"math"
	"strings"

	ad "github.com/pbenner/autodiff"

	"verifharness/internal/fw"
	"verifharness/internal/prng"
)

// val is a value held by a scalar: an integer (exact int64) or a float.
type val struct {
	isInt bool
	i     int64
	f     float64
}

func (v val) String() string {
	if v.isInt {
		return fmt.Sprint(v.i)
	}
	return Hex(v.f)
}

func wrapInt(bits int, i int64) int64 {
	switch bits {
	case 8:
		return int64(int8(i))
	case 16:
		return int64(int16(i))
	case 32:
		return int64(int32(i))
	}
	return i
}

// expectConv is Go's numeric conversion of a value held in a source type to
// the destination type.  judged is false for float -> integer conversions
// whose truncated value does not fit (implementation-defined in Go).
func expectConv(v val, dst ST) (want val, judged bool) {
	switch {
	case v.isInt && dst.Int:
		return val{isInt: true, i: wrapInt(dst.Bits, v.i)}, true
	case v.isInt:
		if dst.Bits == 32 {
			return val{f: float64(float32(v.i))}, true
		}
		return val{f: float64(v.i)}, true
	case dst.Int:
		t := math.Trunc(v.f)
		lo, hi := intLimits(dst)
		if math.IsNaN(t) || t < float64(lo) || (dst.Bits == 64 && t >= 0x1p63) || (dst.Bits < 64 && t > float64(hi)) {
			return val{}, false
		}
		return val{isInt: true, i: int64(t)}, true
	default:
		if dst.Bits == 32 {
			return val{f: float64(float32(v.f))}, true
		}
		return val{f: v.f}, true
	}
}

func readVal(s ad.ConstScalar, t ST) val {
	if t.Int {
		return val{isInt: true, i: s.GetInt64()}
	}
	return val{f: s.GetFloat64()}
}

func sameVal(a, b val) bool {
	if a.isInt != b.isInt {
		return false
	}
	if a.isInt {
		return a.i == b.i
	}
	return a.f == b.f || (math.IsNaN(a.f) && math.IsNaN(b.f))
}

func makeVal(t ST, v val) ad.ConstScalar {
	if t.Int {
		return makeInt(t, v.i)
	}
	return t.Make(v.f)
}

// drawVal draws a value held by type t.
func drawVal(r *prng.Rand, t ST) val {
	if t.Int {
		lo, hi := intLimits(t)
		switch r.Intn(5) {
		case 0:
			return val{isInt: true, i: int64(r.Range(-130, 130)) % (hi/2 + 1)}
		case 1:
			return val{isInt: true, i: hi - int64(r.Intn(3))}
		case 2:
			return val{isInt: true, i: lo + int64(r.Intn(3))}
		case 3:
			if t.Bits == 64 {
				// beyond the range where float64 is exact
				return val{isInt: true, i: (1<<53 + 1 + int64(r.Intn(1000))) * int64(1-2*r.Intn(2))}
			}
			return val{isInt: true, i: int64(r.Range(-40000, 40000)) % (hi + 1)}
		}
		return val{isInt: true, i: int64(r.Range(-6, 6))}
	}
	var f float64
	switch r.Intn(6) {
	case 0:
		f = r.Dyadic(1200) // fractions: truncation towards zero
	case 1:
		f = float64(r.Range(-130, 130)) + 0.5
	case 2:
		f = float64(r.Range(-40000, 40000)) + r.PickF([]float64{0.25, 0.75, 0})
	case 3:
		f = math.Ldexp(float64(r.Range(-9, 9))+0.5, r.Range(20, 40))
	case 4:
		f = r.Norm() * 3
	default:
		f = float64(r.Range(-6, 6))
	}
	return val{f: t.Held(f)}
}

var getterTypes = []string{"Int8", "Int16", "Int32", "Int64", "Int", "Float32", "Float64"}

func getter(s ad.ConstScalar, name string) val {
	switch name {
	case "Int8":
		return val{isInt: true, i: int64(s.GetInt8())}
	case "Int16":
		return val{isInt: true, i: int64(s.GetInt16())}
	case "Int32":
		return val{isInt: true, i: int64(s.GetInt32())}
	case "Int64":
		return val{isInt: true, i: s.GetInt64()}
	case "Int":
		return val{isInt: true, i: int64(s.GetInt())}
	case "Float32":
		return val{f: float64(s.GetFloat32())}
	}
	return val{f: s.GetFloat64()}
}

// setter calls r.Set<name>(x) where x is v converted to the setter's
// argument type, and returns the value actually passed.
func setter(r ad.Scalar, name string, v val) (passed val, ok bool) {
	x, judged := expectConv(v, TypeByName(name))
	if !judged {
		return val{}, false
	}
	switch name {
	case "Int8":
		r.SetInt8(int8(x.i))
	case "Int16":
		r.SetInt16(int16(x.i))
	case "Int32":
		r.SetInt32(int32(x.i))
	case "Int64":
		r.SetInt64(x.i)
	case "Int":
		r.SetInt(int(x.i))
	case "Float32":
		r.SetFloat32(float32(x.f))
	default:
		r.SetFloat64(x.f)
	}
	return x, true
}

func convertCase(cs *fw.Case) {
	r := cs.R
	src := Types[cs.Index%16]
	dst := Types[(cs.Index/16)%16]
	v := drawVal(r, src)
	witness := map[string]any{"src": src.Name, "dst": dst.Name, "value": v.String()}
	class := func(judged bool) string {
		if v.isInt && dst.Int {
			lo, hi := intLimits(dst)
			if v.i < lo || v.i > hi {
				return "int-wraps"
			}
		}
		if v.isInt && !dst.Int && (v.i > 1<<53 || v.i < -(1<<53)) {
			return "beyond-2^53"
		}
		if v.isInt && dst.Int && (v.i > 1<<53 || v.i < -(1<<53)) {
			return "beyond-2^53"
		}
		return "in-range"
	}
	dstClass := func(to ST) string {
		switch {
		case to.Name == src.Name:
			return "same"
		}
		return "other"
	}
	// check compares a conversion result against Go's conversion rule
	check := func(routine string, res ad.ConstScalar, p *fw.Panic, from val, to ST) {
		want, judged := expectConv(from, to)
		cl := class(judged)
		srcName := src.Name
		if strings.HasPrefix(routine, "New") || strings.HasPrefix(routine, "Null") {
			srcName = "float64"
		}
		if cl == "int-wraps" && routine != "Set" {
			// integer source outside the destination's range: the property speaks of in-range values only
			judged = false
		}
		sig := func(kind string) string {
			if kind == "panic" {
				// the panicking library frame names the root cause (one registry lookup serves many callers)
				dc := "const"
				if !to.Const {
					dc = "mutable"
				}
				return fmt.Sprintf("C02|convert|%s|->%s|any|panic", p.Frame, dc)
			}
			return fmt.Sprintf("C02|convert|%s|%s->%s|%s|%s", routine, srcName, dstClass(to), cl, kind)
		}
		cs.Cover("conv:" + routine + "/" + src.Name)
		cs.Cover("conv-target:" + to.Name)
		if p != nil {
			cs.Violation(sig("panic"),
				fmt.Sprintf("%s(%s) on a %s holding %v panicked: %s (%s)", routine, to.Name, src.Name, from, p.Msg, p.Frame), witness)
			return
		}
		if res == nil {
			cs.Violation(sig("type"), "nil result", witness)
			return
		}
		if res.Type() != to.T {
			cs.Violation(sig("type"),
				fmt.Sprintf("%s(%s) on a %s returned a scalar of type %v", routine, to.Name, src.Name, res.Type()), witness)
			return
		}
		if !judged {
			cs.Cover("conv-unjudged:float-out-of-integer-range")
			return
		}
		if got := readVal(res, to); !sameVal(got, want) {
			cs.Violation(sig("value"),
				fmt.Sprintf("%s(%s) on a %s holding %v gives %v, Go conversion gives %v", routine, to.Name, src.Name, from, got, want), witness)
		}
	}
	s := makeVal(src, v)

	// getters: value converted to every Go numeric type
	for _, g := range getterTypes {
		gt := TypeByName(g)
		var got val
		p := fw.Call(func() { got = getter(s, g) })
		want, judged := expectConv(v, gt)
		cs.Cover("getter:Get" + g)
		switch {
		case p != nil:
			cs.Violation(fmt.Sprintf("C02|convert|Get%s|%s|in-range|panic", g, src.Name), p.Msg, witness)
		case !judged:
		case !sameVal(got, want):
			cs.Violation(fmt.Sprintf("C02|convert|Get%s|%s|%s|value", g, src.Name, class(true)),
				fmt.Sprintf("%s holding %v: Get%s() = %v, Go conversion gives %v", src.Name, v, g, got, want), witness)
		}
	}

	// conversions
	{
		var res ad.ConstScalar
		p := fw.Call(func() { res = s.ConvertConstScalar(dst.T) })
		check("ConvertConstScalar", res, p, v, dst)
	}
	if sm, ok := s.(ad.Scalar); ok && !dst.Const {
		var res ad.Scalar
		p := fw.Call(func() { res = sm.ConvertScalar(dst.T) })
		if p == nil && res == nil {
			check("ConvertScalar", nil, nil, v, dst)
		} else {
			check("ConvertScalar", res, p, v, dst)
		}
		// setters on a receiver of the destination type
		recv := dst.New(dst.Held(1))
		if p := fw.Call(func() { recv.Set(s) }); p != nil {
			cs.Violation(fmt.Sprintf("C02|convert|Set|%s->%s|in-range|panic", src.Name, dst.Name), p.Msg, witness)
		} else {
			check("Set", recv, nil, v, dst)
		}
	}
	if mm, ok := s.(ad.MagicScalar); ok && dst.Real {
		var res ad.MagicScalar
		p := fw.Call(func() { res = mm.ConvertMagicScalar(dst.T) })
		if p == nil && res == nil {
			check("ConvertMagicScalar", nil, nil, v, dst)
		} else {
			check("ConvertMagicScalar", res, p, v, dst)
		}
	}
	if !dst.Const {
		// Set<X> with the source value converted to X first
		for _, g := range getterTypes {
			recv := dst.New(dst.Held(1))
			var passed val
			var ok bool
			p := fw.Call(func() { passed, ok = setter(recv, g, v) })
			cs.Cover("setter:Set" + g)
			if p != nil {
				cs.Violation(fmt.Sprintf("C02|convert|Set%s|%s|in-range|panic", g, dst.Name), p.Msg, witness)
				continue
			}
			if !ok {
				continue
			}
			want, judged := expectConv(passed, dst)
			if judged {
				if got := readVal(recv, dst); !sameVal(got, want) {
					cs.Violation(fmt.Sprintf("C02|convert|Set%s|%s|in-range|value", g, dst.Name),
						fmt.Sprintf("%s.Set%s(%v) holds %v afterwards, Go conversion gives %v", dst.Name, g, passed, got, want), witness)
				}
			}
		}
		recv := dst.New(dst.Held(1))
		recv.Reset()
		if got := readVal(recv, dst); !sameVal(got, val{isInt: dst.Int}) {
			cs.Violation(fmt.Sprintf("C02|convert|Reset|%s|in-range|value", dst.Name), fmt.Sprintf("Reset leaves %v", got), witness)
		}
	}

	// registry constructors (argument is a float64)
	if !src.Int {
		fv := val{f: v.f}
		if !dst.Const {
			var res ad.Scalar
			p := fw.Call(func() { res = ad.NewScalar(dst.T, v.f) })
			if p == nil && res == nil {
				check("NewScalar", nil, nil, fv, dst)
			} else {
				check("NewScalar", res, p, fv, dst)
			}
			p = fw.Call(func() { res = ad.NullScalar(dst.T) })
			if p == nil && res == nil {
				check("NullScalar", nil, nil, val{}, dst)
			} else {
				check("NullScalar", res, p, val{}, dst)
			}
		}
		{
			var res ad.ConstScalar
			p := fw.Call(func() { res = ad.NewConstScalar(dst.T, v.f) })
			check("NewConstScalar", res, p, fv, dst)
			p = fw.Call(func() { res = ad.NullConstScalar(dst.T) })
			check("NullConstScalar", res, p, val{}, dst)
		}
		if dst.Real {
			var res ad.MagicScalar
			p := fw.Call(func() { res = ad.NewMagicScalar(dst.T, v.f) })
			if p == nil && res == nil {
				check("NewMagicScalar", nil, nil, fv, dst)
			} else {
				check("NewMagicScalar", res, p, fv, dst)
			}
			p = fw.Call(func() { res = ad.NullMagicScalar(dst.T) })
			if p == nil && res == nil {
				check("NullMagicScalar", nil, nil, val{}, dst)
			} else {
				check("NullMagicScalar", res, p, val{}, dst)
			}
		}
	}
	cs.Nontrivial(src.Name, dst.Name, v.String())
	if cs.Index < 2 {
		cs.Sample(witness)
	}
}
