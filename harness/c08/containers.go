package c08

import (
	"fmt"
	"reflect"
	"strings"

	ad "github.com/pbenner/autodiff"

	"verifharness/internal/fw"
	"verifharness/internal/gen"
	"verifharness/internal/prng"
	"verifharness/internal/snap"
)

/* shared helpers
 * -------------------------------------------------------------------------- */

func jets(t gen.ElemType, r *prng.Rand, n, nvar, order int, pattern string, divisor bool) ([]gen.Jet, []bool) {
	s := gen.GenVector(t, gen.Sparse, pattern, n, r, nvar, order, divisor)
	return s.Vals, s.Stored
}

func jetsStr(js []gen.Jet, stored []bool) string {
	var b strings.Builder
	b.WriteByte('[')
	for i, j := range js {
		if i > 0 {
			b.WriteByte(' ')
		}
		switch {
		case j.V == 0 && j.D == nil && stored != nil && stored[i]:
			b.WriteString("0s")
		case j.V == 0 && j.D == nil:
			b.WriteString("_")
		case j.D == nil:
			fmt.Fprintf(&b, "%v", j.V)
		case j.H == nil:
			fmt.Fprintf(&b, "(%v d%v)", j.V, j.D)
		default:
			fmt.Fprintf(&b, "(%v d%v h%v)", j.V, j.D, j.H)
		}
	}
	b.WriteByte(']')
	return b.String()
}

func maxOrder(js []gen.Jet) int {
	o := 0
	for _, j := range js {
		o = maxInt(o, j.Order())
	}
	return o
}

func buildVec(t gen.ElemType, storage string, vals []gen.Jet, stored []bool) ad.Vector {
	return gen.VectorSpec{T: t, Storage: storage, Vals: vals, Stored: stored}.Build()
}

func buildMat(t gen.ElemType, storage string, rows, cols int, vals []gen.Jet, stored []bool) ad.Matrix {
	return gen.MatrixSpec{T: t, Storage: storage, R: rows, C: cols, Vals: vals, Stored: stored}.Build()
}

func transposeJets(vals []gen.Jet, stored []bool, rows, cols int) ([]gen.Jet, []bool) {
	v := make([]gen.Jet, len(vals))
	s := make([]bool, len(vals))
	for i := 0; i < rows; i++ {
		for j := 0; j < cols; j++ {
			v[j*rows+i] = vals[i*cols+j]
			s[j*rows+i] = stored[i*cols+j]
		}
	}
	return v, s
}

// callOp invokes a generic method through the interface or the concrete
// (capital-letter) method through reflection.
func callOp(recv any, name string, concrete bool, args ...any) {
	if concrete {
		name = strings.ToUpper(name)
	}
	m := reflect.ValueOf(recv).MethodByName(name)
	if !m.IsValid() {
		panic("c08: no method " + name)
	}
	in := make([]reflect.Value, len(args))
	for i, a := range args {
		in[i] = reflect.ValueOf(a)
	}
	m.Call(in)
}

func hasConcrete(recv any, name string, args ...any) bool {
	m, ok := reflect.TypeOf(recv).MethodByName(strings.ToUpper(name))
	if !ok || m.Type.NumIn() != len(args)+1 {
		return false
	}
	for i, a := range args {
		if !reflect.TypeOf(a).AssignableTo(m.Type.In(i + 1)) {
			return false
		}
	}
	return true
}

type containerOp struct {
	name string
	kind string // VV VS MV VM | MM MS PROD
	div  bool
}

/* vectors
 * -------------------------------------------------------------------------- */

var vectorOps = []containerOp{
	{"VaddV", "VV", false}, {"VsubV", "VV", false}, {"VmulV", "VV", false}, {"VdivV", "VV", true},
	{"VaddS", "VS", false}, {"VsubS", "VS", false}, {"VmulS", "VS", false}, {"VdivS", "VS", true},
	{"MdotV", "MV", false}, {"VdotM", "VM", false},
}

func vectorPatterns(kind string) []string {
	switch kind {
	case "VV":
		return []string{"r=a", "r=b", "r=a=b", "overlap-a:lag", "overlap-a:lead", "overlap-b:lag", "overlap-b:lead"}
	case "VS":
		return []string{"r=a", "overlap-a:lag", "overlap-a:lead", "s=r[i]", "r=a,s=r[i]"}
	case "MV":
		return []string{"r=b", "overlap-b:lag", "overlap-b:lead"}
	case "VM":
		return []string{"r=a", "overlap-a:lag", "overlap-a:lead"}
	}
	return nil
}

type vectorCase struct {
	Hist     uint64 // != 0: the elements of the aliased receiver go through an order-changing history first
	AN       int    // length of the overlapping operand slice when it differs from the receiver's (0: N)
	T        gen.ElemType
	Storage  string
	Op       containerOp
	Concrete bool
	Pat      string
	N        int
	// explicit operands: R = previous content of the receiver (aliased
	// configuration only where the pattern needs it), A, B vectors, S scalar,
	// M matrix (MdotV/VdotM), Parent (overlap patterns), Shift
	R, A, B        []gen.Jet
	RS, AS, BS     []bool
	S              ScalarSpec
	SI             int
	M              []gen.Jet
	MS             []bool
	MR, MC         int
	OtherStorage   string
	Parent         []gen.Jet
	ParentS        []bool
	R0, A0         int
	recvOrd, other int
}

func (vc vectorCase) opName() string {
	if vc.Concrete {
		return strings.ToUpper(vc.Op.name)
	}
	return vc.Op.name
}

// family: the element-wise operations of one shape share one loop structure
// and are reported under one name (VopV, VopS); products keep their own.
func (vc vectorCase) family() string { return familyOf(vc.Op, vc.Concrete) }

func familyOf(op containerOp, concrete bool) string {
	switch op.kind {
	case "VV":
		return "VopV"
	case "VS":
		return "VopS"
	case "MM":
		return "MopM"
	case "MS":
		return "MopS"
	}
	return op.name
}

func (vc vectorCase) witness() map[string]any {
	w := map[string]any{"type": vc.T.Name + "/" + vc.Storage, "op": vc.opName(), "alias": vc.Pat, "n": vc.N}
	if vc.Parent != nil {
		w["parent"] = jetsStr(vc.Parent, vc.ParentS)
		w["receiver_slice"] = fmt.Sprintf("[%d:%d]", vc.R0, vc.R0+vc.N)
		w["operand_slice"] = fmt.Sprintf("[%d:%d]", vc.A0, vc.A0+vc.an())
	}
	if vc.R != nil {
		w["receiver_before"] = jetsStr(vc.R, vc.RS)
	}
	if vc.A != nil {
		w["a"] = jetsStr(vc.A, vc.AS)
	}
	if vc.B != nil {
		w["b"] = jetsStr(vc.B, vc.BS)
	}
	if vc.Op.kind == "VS" {
		w["s"] = vc.S.String()
		if strings.Contains(vc.Pat, "s=r[i]") {
			w["s_index"] = vc.SI
		}
	}
	if vc.M != nil {
		w["matrix"] = fmt.Sprintf("%dx%d/%s%s", vc.MR, vc.MC, vc.OtherStorage, jetsStr(vc.M, vc.MS))
	}
	return w
}

func genVectorCase(r *prng.Rand, T gen.ElemType, storage string, op containerOp, concrete bool, pat string) vectorCase {
	vc := vectorCase{T: T, Storage: storage, Op: op, Concrete: concrete, Pat: pat, OtherStorage: storage}
	n := r.Range(2, 5)
	vc.N = n
	nvar := r.Range(1, 2)
	oa, ob := 0, 0
	if T.IsReal {
		oa, ob = r.Intn(3), r.Intn(3)
	}
	zp := func() string { return r.Pick(gen.ZeroPatterns) }
	if !concrete && r.Chance(0.3) {
		vc.OtherStorage = []string{gen.Dense, gen.Sparse}[r.Intn(2)]
	}
	vc.A, vc.AS = jets(T, r, n, nvar, oa, zp(), false)
	vc.B, vc.BS = jets(T, r, n, nvar, ob, zp(), op.div && r.Chance(0.9))
	vc.R, vc.RS = jets(T, r, n, nvar, r.Intn(3)*b2i(T.IsReal), zp(), false)
	if pat == "r=a=b" {
		if op.div {
			vc.A, vc.AS = vc.B, vc.BS
		} else {
			vc.B, vc.BS = vc.A, vc.AS
		}
	}
	if op.kind == "VS" {
		v := T.Value(r)
		if op.div && r.Chance(0.95) {
			v = T.Divisor(r)
		}
		st := T
		if !concrete && !strings.Contains(pat, "s=r[i]") {
			st = otherType(r, T)
		}
		vc.S = ScalarSpec{T: st, J: jetFor(st, r, v, nvar, ob)}
		vc.B, vc.BS = nil, nil
		vc.SI = r.Intn(n)
		if strings.Contains(pat, "s=r[i]") {
			// the scalar operand is element SI of the receiver: give it a usable value
			tgt := &vc.R
			if strings.HasPrefix(pat, "r=a") {
				tgt = &vc.A
			}
			(*tgt)[vc.SI] = vc.S.J
		}
	}
	if op.kind == "MV" || op.kind == "VM" {
		k := n // the aliased vector operand must have the receiver's length: square matrix
		vc.MR, vc.MC = k, k
		vc.M, vc.MS = jets(T, r, k*k, nvar, oa, zp(), false)
		if op.kind == "MV" {
			vc.A, vc.AS = nil, nil
		} else {
			vc.B, vc.BS = nil, nil
		}
	}
	if strings.HasPrefix(pat, "overlap") {
		shift := r.Range(1, 2)
		if shift >= n {
			shift = 1
		}
		vc.Parent, vc.ParentS = jets(T, r, n+shift, nvar, oa, zp(), false)
		if strings.HasSuffix(pat, ":lag") { // operand starts before the receiver
			vc.R0, vc.A0 = shift, 0
		} else {
			vc.R0, vc.A0 = 0, shift
		}
		eff, effS := vc.Parent[vc.A0:vc.A0+n], vc.ParentS[vc.A0:vc.A0+n]
		if strings.HasPrefix(pat, "overlap-a") {
			vc.A, vc.AS = eff, effS
		} else {
			vc.B, vc.BS = eff, effS
		}
		vc.R, vc.RS = vc.Parent[vc.R0:vc.R0+n], vc.ParentS[vc.R0:vc.R0+n]
	}
	// derivative-order class
	switch {
	case strings.HasPrefix(pat, "r=a=b"):
		vc.recvOrd, vc.other = maxOrder(vc.A), 0
	case strings.HasPrefix(pat, "r=a"), strings.HasPrefix(pat, "overlap-a"):
		vc.recvOrd, vc.other = maxOrder(vc.A), maxInt(maxOrder(vc.B), maxInt(maxOrder(vc.M), vc.S.J.Order()))
	case strings.HasPrefix(pat, "r=b"), strings.HasPrefix(pat, "overlap-b"):
		vc.recvOrd, vc.other = maxOrder(vc.B), maxInt(maxOrder(vc.A), maxOrder(vc.M))
	default:
		vc.recvOrd, vc.other = maxOrder(vc.R), maxInt(maxOrder(vc.A), vc.S.J.Order())
	}
	return vc
}

func (vc vectorCase) an() int {
	if vc.AN > 0 {
		return vc.AN
	}
	return vc.N
}

// genNonSquareCase: MdotV / VdotM with a non-square matrix, so that the result
// (length n) and the vector operand (length m != n) have different lengths;
// both are slices [r0:r0+n] and [a0:a0+m] of one parent of length L, placed
// anywhere (overlapping or disjoint).  Pattern names overlap-b:any (MdotV),
// overlap-a:any (VdotM).
func genNonSquareCase(r *prng.Rand, T gen.ElemType, storage string, op containerOp, concrete bool, n, m, L, r0, a0 int) vectorCase {
	pat := "overlap-b:any"
	if op.kind == "VM" {
		pat = "overlap-a:any"
	}
	vc := vectorCase{T: T, Storage: storage, Op: op, Concrete: concrete, Pat: pat, OtherStorage: storage, N: n, AN: m, R0: r0, A0: a0}
	nvar := r.Range(1, 2)
	o := 0
	if T.IsReal {
		o = r.Intn(3)
	}
	zp := func() string { return r.Pick(gen.ZeroPatterns) }
	if !concrete && r.Chance(0.3) {
		vc.OtherStorage = []string{gen.Dense, gen.Sparse}[r.Intn(2)]
	}
	vc.Parent, vc.ParentS = jets(T, r, L, nvar, o, zp(), false)
	eff, effS := vc.Parent[a0:a0+m], vc.ParentS[a0:a0+m]
	if op.kind == "MV" { // r (n) = M (n x m) . b (m)
		vc.MR, vc.MC = n, m
		vc.B, vc.BS = eff, effS
	} else { // r (n) = a (m) . M (m x n)
		vc.MR, vc.MC = m, n
		vc.A, vc.AS = eff, effS
	}
	vc.M, vc.MS = jets(T, r, vc.MR*vc.MC, nvar, o, zp(), false)
	vc.R, vc.RS = vc.Parent[r0:r0+n], vc.ParentS[r0:r0+n]
	vc.recvOrd, vc.other = maxOrder(vc.R), maxInt(maxOrder(eff), maxOrder(vc.M))
	return vc
}

func b2i(b bool) int {
	if b {
		return 1
	}
	return 0
}

// eval: mode "ref" (fresh receiver, independent operands), "alias" (the
// pattern), "diag" (distinct receiver that starts with the content the
// aliased receiver had).
func (vc vectorCase) eval(mode string) (res snap.Vec, p *fw.Panic, setup bool) {
	var r ad.Vector
	var a, b ad.Vector
	var s ad.ConstScalar
	var m ad.Matrix
	ps := fw.Call(func() {
		if vc.M != nil {
			m = buildMat(vc.T, vc.OtherStorage, vc.MR, vc.MC, vc.M, vc.MS)
		}
		mk := func(vals []gen.Jet, st []bool, storage string) ad.Vector {
			if vals == nil {
				return nil
			}
			return buildVec(vc.T, storage, vals, st)
		}
		pat := vc.Pat
		if mode != "alias" {
			pat = ""
		}
		switch {
		case strings.HasPrefix(pat, "overlap"):
			P := buildVec(vc.T, vc.Storage, vc.Parent, vc.ParentS)
			r = P.Slice(vc.R0, vc.R0+vc.N)
			x := P.Slice(vc.A0, vc.A0+vc.an())
			if strings.HasPrefix(pat, "overlap-a") {
				a, b = x, mk(vc.B, vc.BS, vc.Storage)
			} else {
				a, b = mk(vc.A, vc.AS, vc.Storage), x
			}
		case strings.HasPrefix(pat, "r=a=b"):
			r = mk(vc.A, vc.AS, vc.Storage)
			a, b = r, r
		case strings.HasPrefix(pat, "r=a"):
			r = mk(vc.A, vc.AS, vc.Storage)
			a, b = r, mk(vc.B, vc.BS, vc.Storage)
		case strings.HasPrefix(pat, "r=b"):
			r = mk(vc.B, vc.BS, vc.Storage)
			a, b = mk(vc.A, vc.AS, vc.Storage), r
		case pat == "s=r[i]":
			r = mk(vc.R, vc.RS, vc.Storage)
			a = mk(vc.A, vc.AS, vc.Storage)
		default: // reference / diagnosis
			ost := vc.OtherStorage
			if vc.Concrete {
				ost = vc.Storage
			}
			a, b = mk(vc.A, vc.AS, ost), mk(vc.B, vc.BS, ost)
			if mode == "diag" {
				r = mk(vc.diagInit())
			} else {
				r = gen.NullVector(vc.T, vc.Storage, vc.N)
			}
		}
		if vc.Hist != 0 && mode != "ref" && r != nil {
			historyOnVector(r, vc.T, prng.New(vc.Hist))
		}
		if vc.Op.kind == "VS" {
			if mode == "alias" && strings.Contains(vc.Pat, "s=r[i]") {
				s = r.At(vc.SI)
			} else {
				s = vc.S.BuildConst()
			}
		}
	})
	if ps != nil {
		return snap.Vec{}, ps, false
	}
	p = fw.Call(func() {
		switch vc.Op.kind {
		case "VV":
			callOp(r, vc.Op.name, vc.Concrete, a, b)
		case "VS":
			callOp(r, vc.Op.name, vc.Concrete, a, s)
		case "MV":
			callOp(r, vc.Op.name, vc.Concrete, m, b)
		case "VM":
			callOp(r, vc.Op.name, vc.Concrete, a, m)
		}
		res = snap.Vector(r)
	})
	return res, p, true
}

// diagInit: the content the aliased receiver starts with.
func (vc vectorCase) diagInit() ([]gen.Jet, []bool, string) {
	switch {
	case strings.HasPrefix(vc.Pat, "r=a"):
		return vc.A, vc.AS, vc.Storage
	case strings.HasPrefix(vc.Pat, "r=b"):
		return vc.B, vc.BS, vc.Storage
	}
	return vc.R, vc.RS, vc.Storage
}

// containerClass: recv-lower-order when the receiver is identical with an
// operand whose elements have a lower derivative order than another operand
// (see scalarCase.class); any otherwise.
func containerClass(T gen.ElemType, pat string, recv, other int) string {
	if T.IsReal && recv < other && (pat == "r=a" || pat == "r=b" || pat == "r=a=b") {
		return "recv-lower-order"
	}
	return "any"
}

func (vc vectorCase) differs() bool {
	ref, pr, ok1 := vc.eval("ref")
	got, pa, ok2 := vc.eval("alias")
	if !ok1 || !ok2 || pr != nil {
		return false
	}
	if pa != nil {
		return !aliasRejection(pa.Msg)
	}
	return snap.DiffVec(got, ref, vc.T.IsInt) != ""
}

func (mc matrixCase) differs() bool {
	ref, pr, ok1 := mc.eval("ref")
	got, pa, ok2 := mc.eval("alias")
	if !ok1 || !ok2 || pr != nil {
		return false
	}
	if pa != nil {
		return !aliasRejection(pa.Msg)
	}
	return snap.DiffMat(got, ref, mc.T.IsInt) != ""
}

// class; ",needs-history" if the divergence disappears when the same operands
// are built plainly.
func (vc vectorCase) class() string {
	c := containerClass(vc.T, vc.Pat, vc.recvOrd, vc.other)
	if vc.Hist != 0 {
		q := vc
		q.Hist = 0
		if !q.differs() {
			c += ",needs-history"
		}
	}
	return c
}

func (mc matrixCase) class() string {
	c := containerClass(mc.T, mc.Pat, mc.recvOrd, mc.other)
	if mc.Hist != 0 {
		q := mc
		q.Hist = 0
		if !q.differs() {
			c += ",needs-history"
		}
	}
	return c
}

// judgeContainer compares an aliased evaluation with the reference and emits
// the violation; shared by vectors and matrices.
func judgeContainer(cs *fw.Case, what, typ, sigType, opName, family, pat string, class func() string, isInt bool, witness map[string]any,
	ref, got, diag func() (string, *fw.Panic, bool), diff func() string) {
	_, pr, okr := ref()
	_, pa, oka := got()
	cs.Cover(what + "-op:" + opName)
	cs.Cover(what + "-alias:" + pat)
	if !okr || !oka {
		cs.Cover("setup-failed:" + what + ":" + pat)
		return
	}
	kind, detail := "", ""
	switch {
	case pr != nil:
		cs.Cover("reference-rejected:" + what)
		return
	case pa != nil && aliasRejection(pa.Msg):
		cs.Cover("alias-rejected-by-api:" + what + ":" + opName)
		return
	case pa != nil && strings.Contains(pa.Msg, "integer divide by zero"):
		kind, detail = "element", fmt.Sprintf("aliased call divides by a clobbered operand (%s at %s), the call with a fresh receiver returns", pa.Msg, pa.Frame)
	case pa != nil:
		kind, detail = "panic", fmt.Sprintf("aliased call panics (%s at %s), the call with a fresh receiver returns", pa.Msg, pa.Frame)
	default:
		cs.Cover("judged:" + what + ":" + typ)
		if d := diff(); d != "" {
			kind, detail = "element", "aliased vs fresh receiver: "+d
			if strings.HasPrefix(d, "dim") {
				kind = "dims"
			}
		}
	}
	if kind == "" {
		return
	}
	cause := "alias"
	ds, pd, okd := diag()
	gs, _, _ := got()
	if okd {
		switch {
		case pd != nil && pa != nil:
			cause = "prior-state"
		case pd == nil && pa == nil && ds == gs:
			cause = "prior-state"
		}
	}
	sig := fmt.Sprintf("C08|%s|%s|%s|alias=%s|%s,cause=%s|%s", what, family, sigType, pat, class(), cause, kind)
	cs.Violation(sig, detail, witness)
}

func (vc vectorCase) judge(cs *fw.Case) {
	type ev struct {
		s  snap.Vec
		p  *fw.Panic
		ok bool
		do bool
	}
	cache := map[string]*ev{}
	get := func(mode string) *ev {
		if e, ok := cache[mode]; ok {
			return e
		}
		e := &ev{}
		e.s, e.p, e.ok = vc.eval(mode)
		cache[mode] = e
		return e
	}
	f := func(mode string) func() (string, *fw.Panic, bool) {
		return func() (string, *fw.Panic, bool) {
			e := get(mode)
			return fmt.Sprint(e.s), e.p, e.ok
		}
	}
	typ := vc.T.Name + "/" + vc.Storage
	judgeContainer(cs, "vector", typ, tmpl(vc.T)+"/"+vc.Storage, vc.opName(), vc.family(), vc.Pat, vc.class, vc.T.IsInt, vc.witness(),
		f("ref"), f("alias"), f("diag"), func() string { return snap.DiffVec(get("alias").s, get("ref").s, vc.T.IsInt) })
	if e := get("ref"); e.ok && e.p == nil {
		cs.Nontrivial(typ, vc.opName(), vc.Pat, jetsStr(vc.A, vc.AS), jetsStr(vc.B, vc.BS), jetsStr(vc.Parent, vc.ParentS), vc.S.String(), jetsStr(vc.M, vc.MS))
	}
}

type containerCombo struct {
	T        gen.ElemType
	storage  string
	op       containerOp
	concrete bool
	pat      string
}

// placement classifies how receiver slice [r0,r0+n) and operand slice
// [a0,a0+m) of one parent lie to each other.
func placement(n, m, r0, a0 int) string {
	if r0+n <= a0 || a0+m <= r0 {
		return "disjoint"
	}
	short, s0, long0 := m, a0, r0
	if n < m {
		short, s0, long0 = n, r0, a0
	}
	if off := s0 - long0; off >= short {
		return "overlap,shorter-starts-at-offset>=its-length"
	}
	return "overlap,other"
}

func vectorCombos() []containerCombo {
	var res []containerCombo
	for _, T := range gen.Types {
		for _, st := range []string{gen.Dense, gen.Sparse} {
			z := gen.NullVector(T, st, 1)
			zs := ad.NewScalar(T.T, 0)
			zm := gen.NullMatrix(T, st, 1, 1)
			for _, op := range vectorOps {
				variants := []bool{false}
				var ok bool
				switch op.kind {
				case "VV":
					ok = hasConcrete(z, op.name, z, z)
				case "VS":
					ok = hasConcrete(z, op.name, z, zs)
				case "MV":
					ok = hasConcrete(z, op.name, zm, z)
				case "VM":
					ok = hasConcrete(z, op.name, z, zm)
				}
				if ok {
					variants = append(variants, true)
				}
				for _, conc := range variants {
					for _, pat := range vectorPatterns(op.kind) {
						res = append(res, containerCombo{T, st, op, conc, pat})
					}
				}
			}
		}
	}
	return res
}

func runVectors(c *fw.Ctx) {
	combos := vectorCombos()
	c.CoverMax("max:vector-combos", int64(len(combos)))
	c.Cases("vector.directed", len(combos), func(cs *fw.Case) {
		k := combos[cs.Index]
		for rep := 0; rep < 6; rep++ {
			vc := genVectorCase(cs.R, k.T, k.storage, k.op, k.concrete, k.pat)
			vc.judge(cs)
			if rep == 0 {
				cs.Sample(vc.witness())
			}
		}
	})
	var hc []containerCombo
	for _, k := range combos {
		if k.T.IsReal {
			hc = append(hc, k)
		}
	}
	c.CoverMax("max:vector-history-combos", int64(len(hc)))
	c.Cases("vector.history.directed", len(hc), func(cs *fw.Case) {
		k := hc[cs.Index]
		for rep := 0; rep < 4; rep++ {
			vc := genVectorCase(cs.R, k.T, k.storage, k.op, k.concrete, k.pat)
			vc.Hist = cs.R.Uint64() | 1
			vc.judge(cs)
			cs.Cover("history-cases:vector")
		}
	})
	c.Cases("vector.history.random", c.N(15000, 300000), func(cs *fw.Case) {
		k := hc[cs.R.Intn(len(hc))]
		vc := genVectorCase(cs.R, k.T, k.storage, k.op, k.concrete, k.pat)
		vc.Hist = cs.R.Uint64() | 1
		vc.judge(cs)
		cs.Cover("history-cases:vector")
	})
	// MdotV / VdotM with result and vector operand of DIFFERENT length, both
	// slices of one parent, the overlap (or gap) anywhere: every placement for
	// lengths 1..5 in parents of the longer length and one more
	var nsq []containerCombo
	for _, k := range combos {
		if (k.op.kind == "MV" || k.op.kind == "VM") && strings.HasSuffix(k.pat, ":lag") {
			nsq = append(nsq, k)
		}
	}
	c.CoverMax("max:vector-nonsquare-combos", int64(len(nsq)))
	c.Cases("vector.nonsquare.directed", len(nsq), func(cs *fw.Case) {
		k := nsq[cs.Index]
		first := true
		for n := 1; n <= 5; n++ {
			for m := 1; m <= 5; m++ {
				if n == m {
					continue
				}
				for extra := 0; extra <= 1; extra++ {
					L := maxInt(n, m) + extra
					for r0 := 0; r0+n <= L; r0++ {
						for a0 := 0; a0+m <= L; a0++ {
							vc := genNonSquareCase(cs.R, k.T, k.storage, k.op, k.concrete, n, m, L, r0, a0)
							vc.judge(cs)
							cs.Cover("nonsquare-placement:" + placement(n, m, r0, a0))
							if first {
								cs.Sample(vc.witness())
								first = false
							}
						}
					}
				}
			}
		}
	})
	c.Cases("vector.nonsquare.random", c.N(20000, 400000), func(cs *fw.Case) {
		k := nsq[cs.R.Intn(len(nsq))]
		n, m := cs.R.Range(1, 6), cs.R.Range(1, 6)
		if n == m {
			m = n%6 + 1
		}
		L := maxInt(n, m) + cs.R.Range(0, 3)
		vc := genNonSquareCase(cs.R, k.T, k.storage, k.op, k.concrete, n, m, L, cs.R.Range(0, L-n), cs.R.Range(0, L-m))
		vc.judge(cs)
		cs.Cover("nonsquare-placement:" + placement(n, m, vc.R0, vc.A0))
	})
	c.Cases("vector.random", c.N(60000, 1500000), func(cs *fw.Case) {
		k := combos[cs.R.Intn(len(combos))]
		vc := genVectorCase(cs.R, k.T, k.storage, k.op, k.concrete, k.pat)
		vc.judge(cs)
	})
}

/* matrices
 * -------------------------------------------------------------------------- */

var matrixOps = []containerOp{
	{"MaddM", "MM", false}, {"MsubM", "MM", false}, {"MmulM", "MM", false}, {"MdivM", "MM", true},
	{"MaddS", "MS", false}, {"MsubS", "MS", false}, {"MmulS", "MS", false}, {"MdivS", "MS", true},
	{"MdotM", "PROD", false},
}

// doubleAlias: both factors of a product alias the receiver, in different
// ways (one of them through a distinct view object over the same storage).
var doubleAlias = []string{"a=r.T,b=r", "a=r,b=r.T", "a=view(r),b=r", "a=r,b=view(r)"}

func isDoubleAlias(pat string) bool {
	for _, p := range doubleAlias {
		if p == pat {
			return true
		}
	}
	return false
}

func matrixPatterns(kind string) []string {
	base := []string{"r=a", "r=b", "r=a=b", "a=r.T", "b=r.T", "overlap-a:lag", "overlap-a:lead", "overlap-b:lag", "overlap-b:lead"}
	switch kind {
	case "MM", "PROD":
		return base
	case "MS":
		return []string{"r=a", "a=r.T", "overlap-a:lag", "overlap-a:lead", "s=r[i,j]"}
	}
	return nil
}

type matrixCase struct {
	Hist         uint64
	T            gen.ElemType
	Storage      string
	OtherStorage string
	Op           containerOp
	Concrete     bool
	Pat          string
	Rows, Cols   int // receiver
	AR, AC       int
	BR, BC       int
	R, A, B      []gen.Jet
	RS, AS, BS   []bool
	S            ScalarSpec
	SI, SJ       int
	Parent       []gen.Jet
	ParentS      []bool
	PR, PC       int
	R0, C0       int // receiver offset in the parent
	A0, AC0      int // operand offset in the parent
	recvOrd      int
	other        int
}

func (mc matrixCase) opName() string {
	if mc.Concrete {
		return strings.ToUpper(mc.Op.name)
	}
	return mc.Op.name
}

func (mc matrixCase) family() string { return familyOf(mc.Op, mc.Concrete) }

func (mc matrixCase) witness() map[string]any {
	w := map[string]any{"type": mc.T.Name + "/" + mc.Storage, "op": mc.opName(), "alias": mc.Pat, "receiver_dims": fmt.Sprintf("%dx%d", mc.Rows, mc.Cols)}
	if mc.Parent != nil {
		w["parent"] = fmt.Sprintf("%dx%d%s", mc.PR, mc.PC, jetsStr(mc.Parent, mc.ParentS))
		w["receiver_slice"] = fmt.Sprintf("rows[%d:%d] cols[%d:%d]", mc.R0, mc.R0+mc.Rows, mc.C0, mc.C0+mc.Cols)
		w["operand_slice"] = fmt.Sprintf("rows[%d:%d] cols[%d:%d]", mc.A0, mc.A0+mc.Rows, mc.AC0, mc.AC0+mc.Cols)
	}
	if mc.R != nil {
		w["receiver_before"] = jetsStr(mc.R, mc.RS)
	}
	if mc.A != nil {
		w["a"] = fmt.Sprintf("%dx%d%s", mc.AR, mc.AC, jetsStr(mc.A, mc.AS))
	}
	if mc.B != nil {
		w["b"] = fmt.Sprintf("%dx%d%s", mc.BR, mc.BC, jetsStr(mc.B, mc.BS))
	}
	if mc.Op.kind == "MS" {
		w["s"] = mc.S.String()
		if mc.Pat == "s=r[i,j]" {
			w["s_index"] = []int{mc.SI, mc.SJ}
		}
	}
	return w
}

func genMatrixCase(r *prng.Rand, T gen.ElemType, storage string, op containerOp, concrete bool, pat string) matrixCase {
	mc := matrixCase{T: T, Storage: storage, OtherStorage: storage, Op: op, Concrete: concrete, Pat: pat}
	n, m := r.Range(2, 4), r.Range(2, 4)
	needSquare := strings.Contains(pat, "r.T") || isDoubleAlias(pat) || pat == "r=a=b" && op.kind == "PROD"
	if needSquare || r.Chance(0.4) {
		m = n
	}
	mc.Rows, mc.Cols = n, m
	nvar := r.Range(1, 2)
	oa, ob := 0, 0
	if T.IsReal {
		oa, ob = r.Intn(3), r.Intn(3)
	}
	zp := func() string { return r.Pick(gen.ZeroPatterns) }
	if !concrete && r.Chance(0.3) {
		mc.OtherStorage = []string{gen.Dense, gen.Sparse}[r.Intn(2)]
	}
	mc.AR, mc.AC, mc.BR, mc.BC = n, m, n, m
	if op.kind == "PROD" {
		// r (n x m) = a (n x k) . b (k x m); the aliased factor has the receiver's shape
		k := r.Range(1, 4)
		switch {
		case pat == "r=a" || strings.HasPrefix(pat, "overlap-a"):
			k = m
		case pat == "r=b" || strings.HasPrefix(pat, "overlap-b"):
			k = n
		case pat == "r=a=b" || strings.Contains(pat, "r.T") || isDoubleAlias(pat):
			k = n
		}
		mc.AR, mc.AC, mc.BR, mc.BC = n, k, k, m
	}
	mc.A, mc.AS = jets(T, r, mc.AR*mc.AC, nvar, oa, zp(), false)
	mc.B, mc.BS = jets(T, r, mc.BR*mc.BC, nvar, ob, zp(), op.div && r.Chance(0.9))
	mc.R, mc.RS = jets(T, r, n*m, nvar, r.Intn(3)*b2i(T.IsReal), zp(), false)
	if pat == "r=a=b" {
		if op.div {
			mc.A, mc.AS = mc.B, mc.BS
		} else {
			mc.B, mc.BS = mc.A, mc.AS
		}
	}
	if op.kind == "MS" {
		v := T.Value(r)
		if op.div && r.Chance(0.95) {
			v = T.Divisor(r)
		}
		st := T
		if !concrete && pat != "s=r[i,j]" {
			st = otherType(r, T)
		}
		mc.S = ScalarSpec{T: st, J: jetFor(st, r, v, nvar, ob)}
		mc.B, mc.BS = nil, nil
		mc.SI, mc.SJ = r.Intn(n), r.Intn(m)
		if pat == "s=r[i,j]" {
			mc.R[mc.SI*m+mc.SJ] = mc.S.J
		}
	}
	switch {
	case pat == "a=r.T,b=r":
		mc.A, mc.AS = transposeJets(mc.R, mc.RS, n, m)
		mc.B, mc.BS = mc.R, mc.RS
	case pat == "a=r,b=r.T":
		mc.A, mc.AS = mc.R, mc.RS
		mc.B, mc.BS = transposeJets(mc.R, mc.RS, n, m)
	case pat == "a=view(r),b=r", pat == "a=r,b=view(r)":
		mc.A, mc.AS = mc.R, mc.RS
		mc.B, mc.BS = mc.R, mc.RS
	case pat == "a=r.T":
		mc.A, mc.AS = transposeJets(mc.R, mc.RS, n, m)
	case pat == "b=r.T":
		mc.B, mc.BS = transposeJets(mc.R, mc.RS, n, m)
	case strings.HasPrefix(pat, "overlap"):
		di, dj := r.Range(0, 1), r.Range(0, 1)
		if di == 0 && dj == 0 {
			if r.Bool() {
				di = 1
			} else {
				dj = 1
			}
		}
		mc.PR, mc.PC = n+di, m+dj
		mc.Parent, mc.ParentS = jets(T, r, mc.PR*mc.PC, nvar, oa, zp(), false)
		if strings.HasSuffix(pat, ":lag") { // the operand's elements precede the receiver's in storage order
			mc.R0, mc.C0, mc.A0, mc.AC0 = di, dj, 0, 0
		} else {
			mc.R0, mc.C0, mc.A0, mc.AC0 = 0, 0, di, dj
		}
		sub := func(r0, c0 int) ([]gen.Jet, []bool) {
			v := make([]gen.Jet, 0, n*m)
			s := make([]bool, 0, n*m)
			for i := 0; i < n; i++ {
				for j := 0; j < m; j++ {
					v = append(v, mc.Parent[(r0+i)*mc.PC+c0+j])
					s = append(s, mc.ParentS[(r0+i)*mc.PC+c0+j])
				}
			}
			return v, s
		}
		mc.R, mc.RS = sub(mc.R0, mc.C0)
		if strings.HasPrefix(pat, "overlap-a") {
			mc.A, mc.AS = sub(mc.A0, mc.AC0)
		} else {
			mc.B, mc.BS = sub(mc.A0, mc.AC0)
		}
	}
	switch {
	case pat == "r=a=b" || isDoubleAlias(pat):
		mc.recvOrd, mc.other = maxOrder(mc.A), 0
	case pat == "r=a":
		mc.recvOrd, mc.other = maxOrder(mc.A), maxInt(maxOrder(mc.B), mc.S.J.Order())
	case pat == "r=b":
		mc.recvOrd, mc.other = maxOrder(mc.B), maxOrder(mc.A)
	case pat == "a=r.T" || strings.HasPrefix(pat, "overlap-a"):
		mc.recvOrd, mc.other = maxOrder(mc.R), maxInt(maxOrder(mc.B), mc.S.J.Order())
	case pat == "b=r.T" || strings.HasPrefix(pat, "overlap-b"):
		mc.recvOrd, mc.other = maxOrder(mc.R), maxOrder(mc.A)
	default:
		mc.recvOrd, mc.other = maxOrder(mc.R), maxInt(maxOrder(mc.A), mc.S.J.Order())
	}
	return mc
}

func (mc matrixCase) diagInit() ([]gen.Jet, []bool) {
	switch mc.Pat {
	case "r=a", "r=a=b":
		return mc.A, mc.AS
	case "r=b":
		return mc.B, mc.BS
	}
	return mc.R, mc.RS
}

func (mc matrixCase) eval(mode string) (res snap.Mat, p *fw.Panic, setup bool) {
	var r, a, b ad.Matrix
	var s ad.ConstScalar
	ps := fw.Call(func() {
		mk := func(vals []gen.Jet, st []bool, rows, cols int, storage string) ad.Matrix {
			if vals == nil {
				return nil
			}
			return buildMat(mc.T, storage, rows, cols, vals, st)
		}
		pat := mc.Pat
		if mode != "alias" {
			pat = ""
		}
		switch {
		case strings.HasPrefix(pat, "overlap"):
			P := buildMat(mc.T, mc.Storage, mc.PR, mc.PC, mc.Parent, mc.ParentS)
			r = P.Slice(mc.R0, mc.R0+mc.Rows, mc.C0, mc.C0+mc.Cols)
			x := P.Slice(mc.A0, mc.A0+mc.Rows, mc.AC0, mc.AC0+mc.Cols)
			if strings.HasPrefix(pat, "overlap-a") {
				a, b = x, mk(mc.B, mc.BS, mc.BR, mc.BC, mc.Storage)
			} else {
				a, b = mk(mc.A, mc.AS, mc.AR, mc.AC, mc.Storage), x
			}
		case pat == "r=a=b":
			r = mk(mc.A, mc.AS, mc.AR, mc.AC, mc.Storage)
			a, b = r, r
		case pat == "r=a":
			r = mk(mc.A, mc.AS, mc.AR, mc.AC, mc.Storage)
			a, b = r, mk(mc.B, mc.BS, mc.BR, mc.BC, mc.Storage)
		case pat == "r=b":
			r = mk(mc.B, mc.BS, mc.BR, mc.BC, mc.Storage)
			a, b = mk(mc.A, mc.AS, mc.AR, mc.AC, mc.Storage), r
		case pat == "a=r.T,b=r":
			r = mk(mc.R, mc.RS, mc.Rows, mc.Cols, mc.Storage)
			a, b = r.T(), r
		case pat == "a=r,b=r.T":
			r = mk(mc.R, mc.RS, mc.Rows, mc.Cols, mc.Storage)
			a, b = r, r.T()
		case pat == "a=view(r),b=r":
			r = mk(mc.R, mc.RS, mc.Rows, mc.Cols, mc.Storage)
			a, b = r.Slice(0, mc.Rows, 0, mc.Cols), r
		case pat == "a=r,b=view(r)":
			r = mk(mc.R, mc.RS, mc.Rows, mc.Cols, mc.Storage)
			a, b = r, r.Slice(0, mc.Rows, 0, mc.Cols)
		case pat == "a=r.T":
			r = mk(mc.R, mc.RS, mc.Rows, mc.Cols, mc.Storage)
			a, b = r.T(), mk(mc.B, mc.BS, mc.BR, mc.BC, mc.Storage)
		case pat == "b=r.T":
			r = mk(mc.R, mc.RS, mc.Rows, mc.Cols, mc.Storage)
			a, b = mk(mc.A, mc.AS, mc.AR, mc.AC, mc.Storage), r.T()
		case pat == "s=r[i,j]":
			r = mk(mc.R, mc.RS, mc.Rows, mc.Cols, mc.Storage)
			a = mk(mc.A, mc.AS, mc.AR, mc.AC, mc.Storage)
		default:
			ost := mc.OtherStorage
			if mc.Concrete {
				ost = mc.Storage
			}
			a, b = mk(mc.A, mc.AS, mc.AR, mc.AC, ost), mk(mc.B, mc.BS, mc.BR, mc.BC, ost)
			if mode == "diag" {
				iv, is := mc.diagInit()
				r = mk(iv, is, mc.Rows, mc.Cols, mc.Storage)
			} else {
				r = gen.NullMatrix(mc.T, mc.Storage, mc.Rows, mc.Cols)
			}
		}
		if mc.Hist != 0 && mode != "ref" && r != nil {
			historyOnMatrix(r, mc.T, prng.New(mc.Hist))
		}
		if mc.Op.kind == "MS" {
			if mode == "alias" && mc.Pat == "s=r[i,j]" {
				s = r.At(mc.SI, mc.SJ)
			} else {
				s = mc.S.BuildConst()
			}
		}
	})
	if ps != nil {
		return snap.Mat{}, ps, false
	}
	p = fw.Call(func() {
		if mc.Op.kind == "MS" {
			callOp(r, mc.Op.name, mc.Concrete, a, s)
		} else {
			callOp(r, mc.Op.name, mc.Concrete, a, b)
		}
		res = snap.Matrix(r)
	})
	return res, p, true
}

func (mc matrixCase) judge(cs *fw.Case) {
	type ev struct {
		s  snap.Mat
		p  *fw.Panic
		ok bool
	}
	cache := map[string]*ev{}
	get := func(mode string) *ev {
		if e, ok := cache[mode]; ok {
			return e
		}
		e := &ev{}
		e.s, e.p, e.ok = mc.eval(mode)
		cache[mode] = e
		return e
	}
	f := func(mode string) func() (string, *fw.Panic, bool) {
		return func() (string, *fw.Panic, bool) {
			e := get(mode)
			return fmt.Sprint(e.s), e.p, e.ok
		}
	}
	typ := mc.T.Name + "/" + mc.Storage
	judgeContainer(cs, "matrix", typ, tmpl(mc.T)+"/"+mc.Storage, mc.opName(), mc.family(), mc.Pat, mc.class, mc.T.IsInt, mc.witness(),
		f("ref"), f("alias"), f("diag"), func() string { return snap.DiffMat(get("alias").s, get("ref").s, mc.T.IsInt) })
	if e := get("ref"); e.ok && e.p == nil {
		cs.Nontrivial(typ, mc.opName(), mc.Pat, jetsStr(mc.A, mc.AS), jetsStr(mc.B, mc.BS), jetsStr(mc.Parent, mc.ParentS), mc.S.String(), jetsStr(mc.R, mc.RS))
	}
}

func matrixCombos() []containerCombo {
	var res []containerCombo
	for _, T := range gen.Types {
		for _, st := range []string{gen.Dense, gen.Sparse} {
			zs := ad.NewScalar(T.T, 0)
			zm := gen.NullMatrix(T, st, 1, 1)
			for _, op := range matrixOps {
				variants := []bool{false}
				ok := false
				if op.kind == "MS" {
					ok = hasConcrete(zm, op.name, zm, zs)
				} else {
					ok = hasConcrete(zm, op.name, zm, zm)
				}
				if ok {
					variants = append(variants, true)
				}
				for _, conc := range variants {
					for _, pat := range matrixPatterns(op.kind) {
						res = append(res, containerCombo{T, st, op, conc, pat})
					}
				}
			}
		}
	}
	return res
}

// doubleCombos: MdotM / MDOTM with both factors aliasing the receiver.  Kept in
// a list and in monitors of their own so that the case addresses of the older
// monitors do not move.
func doubleCombos() []containerCombo {
	var res []containerCombo
	for _, k := range matrixCombos() {
		if k.op.kind == "PROD" && k.pat == "r=a=b" {
			for _, pat := range doubleAlias {
				res = append(res, containerCombo{k.T, k.storage, k.op, k.concrete, pat})
			}
		}
	}
	return res
}

func runMatrices(c *fw.Ctx) {
	dc := doubleCombos()
	c.CoverMax("max:matrix-double-alias-combos", int64(len(dc)))
	defer func() {
		c.Cases("matrix.double.directed", len(dc), func(cs *fw.Case) {
			k := dc[cs.Index]
			for rep := 0; rep < 8; rep++ {
				mc := genMatrixCase(cs.R, k.T, k.storage, k.op, k.concrete, k.pat)
				mc.judge(cs)
				if rep == 0 {
					cs.Sample(mc.witness())
				}
			}
		})
		c.Cases("matrix.double.random", c.N(20000, 400000), func(cs *fw.Case) {
			k := dc[cs.R.Intn(len(dc))]
			mc := genMatrixCase(cs.R, k.T, k.storage, k.op, k.concrete, k.pat)
			mc.judge(cs)
		})
	}()
	combos := matrixCombos()
	c.CoverMax("max:matrix-combos", int64(len(combos)))
	var hc []containerCombo
	for _, k := range append(append([]containerCombo(nil), combos...), dc...) {
		if k.T.IsReal {
			hc = append(hc, k)
		}
	}
	c.CoverMax("max:matrix-history-combos", int64(len(hc)))
	c.Cases("matrix.history.directed", len(hc), func(cs *fw.Case) {
		k := hc[cs.Index]
		for rep := 0; rep < 4; rep++ {
			mc := genMatrixCase(cs.R, k.T, k.storage, k.op, k.concrete, k.pat)
			mc.Hist = cs.R.Uint64() | 1
			mc.judge(cs)
			cs.Cover("history-cases:matrix")
		}
	})
	c.Cases("matrix.history.random", c.N(15000, 300000), func(cs *fw.Case) {
		k := hc[cs.R.Intn(len(hc))]
		mc := genMatrixCase(cs.R, k.T, k.storage, k.op, k.concrete, k.pat)
		mc.Hist = cs.R.Uint64() | 1
		mc.judge(cs)
		cs.Cover("history-cases:matrix")
	})
	c.Cases("matrix.directed", len(combos), func(cs *fw.Case) {
		k := combos[cs.Index]
		for rep := 0; rep < 6; rep++ {
			mc := genMatrixCase(cs.R, k.T, k.storage, k.op, k.concrete, k.pat)
			mc.judge(cs)
			if rep == 0 {
				cs.Sample(mc.witness())
			}
		}
	})
	c.Cases("matrix.random", c.N(60000, 1500000), func(cs *fw.Case) {
		k := combos[cs.R.Intn(len(combos))]
		mc := genMatrixCase(cs.R, k.T, k.storage, k.op, k.concrete, k.pat)
		mc.judge(cs)
	})
}
