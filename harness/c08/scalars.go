package c08

import (
	"fmt"
	"math"
	"reflect"
	"strings"

	ad "github.com/pbenner/autodiff"

	"verifharness/internal/fw"
	"verifharness/internal/gen"
	"verifharness/internal/prng"
	"verifharness/internal/snap"
)

/* scalar operations
 * -------------------------------------------------------------------------- */

type sop struct {
	name  string
	arity int    // scalar operands
	temps int    // temporaries passed by the caller
	vec   bool   // takes (x ConstVector, alpha ConstFloat64, t [k]Scalar)
	dom   string // "" any | pos: a > 0 | small: |a| <= 2
	call  func(r ad.Scalar, a, b ad.ConstScalar, t []ad.Scalar, x ad.ConstVector)
}

var scalarOps = []sop{
	{name: "Abs", arity: 1, call: func(r ad.Scalar, a, b ad.ConstScalar, t []ad.Scalar, x ad.ConstVector) { r.Abs(a) }},
	{name: "Neg", arity: 1, call: func(r ad.Scalar, a, b ad.ConstScalar, t []ad.Scalar, x ad.ConstVector) { r.Neg(a) }},
	{name: "Sqrt", arity: 1, dom: "pos", call: func(r ad.Scalar, a, b ad.ConstScalar, t []ad.Scalar, x ad.ConstVector) { r.Sqrt(a) }},
	{name: "Sin", arity: 1, call: func(r ad.Scalar, a, b ad.ConstScalar, t []ad.Scalar, x ad.ConstVector) { r.Sin(a) }},
	{name: "Sinh", arity: 1, call: func(r ad.Scalar, a, b ad.ConstScalar, t []ad.Scalar, x ad.ConstVector) { r.Sinh(a) }},
	{name: "Cos", arity: 1, call: func(r ad.Scalar, a, b ad.ConstScalar, t []ad.Scalar, x ad.ConstVector) { r.Cos(a) }},
	{name: "Cosh", arity: 1, call: func(r ad.Scalar, a, b ad.ConstScalar, t []ad.Scalar, x ad.ConstVector) { r.Cosh(a) }},
	{name: "Tan", arity: 1, call: func(r ad.Scalar, a, b ad.ConstScalar, t []ad.Scalar, x ad.ConstVector) { r.Tan(a) }},
	{name: "Tanh", arity: 1, call: func(r ad.Scalar, a, b ad.ConstScalar, t []ad.Scalar, x ad.ConstVector) { r.Tanh(a) }},
	{name: "Exp", arity: 1, call: func(r ad.Scalar, a, b ad.ConstScalar, t []ad.Scalar, x ad.ConstVector) { r.Exp(a) }},
	{name: "Log", arity: 1, dom: "pos", call: func(r ad.Scalar, a, b ad.ConstScalar, t []ad.Scalar, x ad.ConstVector) { r.Log(a) }},
	{name: "Log1p", arity: 1, dom: "pos", call: func(r ad.Scalar, a, b ad.ConstScalar, t []ad.Scalar, x ad.ConstVector) { r.Log1p(a) }},
	{name: "Log1pExp", arity: 1, dom: "wide", call: func(r ad.Scalar, a, b ad.ConstScalar, t []ad.Scalar, x ad.ConstVector) { r.Log1pExp(a) }},
	{name: "Logistic", arity: 1, call: func(r ad.Scalar, a, b ad.ConstScalar, t []ad.Scalar, x ad.ConstVector) { r.Logistic(a) }},
	{name: "Erf", arity: 1, dom: "small", call: func(r ad.Scalar, a, b ad.ConstScalar, t []ad.Scalar, x ad.ConstVector) { r.Erf(a) }},
	{name: "Erfc", arity: 1, dom: "small", call: func(r ad.Scalar, a, b ad.ConstScalar, t []ad.Scalar, x ad.ConstVector) { r.Erfc(a) }},
	{name: "LogErfc", arity: 1, dom: "small", call: func(r ad.Scalar, a, b ad.ConstScalar, t []ad.Scalar, x ad.ConstVector) { r.LogErfc(a) }},
	{name: "Gamma", arity: 1, dom: "pos", call: func(r ad.Scalar, a, b ad.ConstScalar, t []ad.Scalar, x ad.ConstVector) { r.Gamma(a) }},
	{name: "Lgamma", arity: 1, dom: "pos", call: func(r ad.Scalar, a, b ad.ConstScalar, t []ad.Scalar, x ad.ConstVector) { r.Lgamma(a) }},
	{name: "Mlgamma", arity: 1, dom: "pos2", call: func(r ad.Scalar, a, b ad.ConstScalar, t []ad.Scalar, x ad.ConstVector) { r.Mlgamma(a, 2) }},
	{name: "GammaP", arity: 1, dom: "pos", call: func(r ad.Scalar, a, b ad.ConstScalar, t []ad.Scalar, x ad.ConstVector) { r.GammaP(1.5, a) }},
	{name: "BesselI", arity: 1, dom: "pos", call: func(r ad.Scalar, a, b ad.ConstScalar, t []ad.Scalar, x ad.ConstVector) { r.BesselI(1.0, a) }},
	{name: "Min", arity: 2, call: func(r ad.Scalar, a, b ad.ConstScalar, t []ad.Scalar, x ad.ConstVector) { r.Min(a, b) }},
	{name: "Max", arity: 2, call: func(r ad.Scalar, a, b ad.ConstScalar, t []ad.Scalar, x ad.ConstVector) { r.Max(a, b) }},
	{name: "Add", arity: 2, call: func(r ad.Scalar, a, b ad.ConstScalar, t []ad.Scalar, x ad.ConstVector) { r.Add(a, b) }},
	{name: "Sub", arity: 2, call: func(r ad.Scalar, a, b ad.ConstScalar, t []ad.Scalar, x ad.ConstVector) { r.Sub(a, b) }},
	{name: "Mul", arity: 2, call: func(r ad.Scalar, a, b ad.ConstScalar, t []ad.Scalar, x ad.ConstVector) { r.Mul(a, b) }},
	{name: "Div", arity: 2, dom: "div", call: func(r ad.Scalar, a, b ad.ConstScalar, t []ad.Scalar, x ad.ConstVector) { r.Div(a, b) }},
	{name: "Pow", arity: 2, dom: "pos", call: func(r ad.Scalar, a, b ad.ConstScalar, t []ad.Scalar, x ad.ConstVector) { r.Pow(a, b) }},
	{name: "LogAdd", arity: 2, temps: 1, call: func(r ad.Scalar, a, b ad.ConstScalar, t []ad.Scalar, x ad.ConstVector) { r.LogAdd(a, b, t[0]) }},
	{name: "LogSub", arity: 2, temps: 1, dom: "agtb", call: func(r ad.Scalar, a, b ad.ConstScalar, t []ad.Scalar, x ad.ConstVector) { r.LogSub(a, b, t[0]) }},
	{name: "Sigmoid", arity: 1, temps: 1, call: func(r ad.Scalar, a, b ad.ConstScalar, t []ad.Scalar, x ad.ConstVector) { r.Sigmoid(a, t[0]) }},
	{name: "SmoothMax", vec: true, temps: 2, call: func(r ad.Scalar, a, b ad.ConstScalar, t []ad.Scalar, x ad.ConstVector) {
		r.SmoothMax(x, ad.ConstFloat64(0.5), [2]ad.Scalar{t[0], t[1]})
	}},
	{name: "LogSmoothMax", vec: true, temps: 3, dom: "pos", call: func(r ad.Scalar, a, b ad.ConstScalar, t []ad.Scalar, x ad.ConstVector) {
		r.LogSmoothMax(x, ad.ConstFloat64(0.5), [3]ad.Scalar{t[0], t[1], t[2]})
	}},
}

// alias patterns: groups of roles that are one object
type pattern struct {
	name   string
	groups [][]string
}

func patternsFor(op sop) []pattern {
	switch {
	case op.vec && op.temps == 2:
		return []pattern{
			{"t0=t1", [][]string{{"t0", "t1"}}}, {"t0=r", [][]string{{"r", "t0"}}}, {"t1=r", [][]string{{"r", "t1"}}},
		}
	case op.vec && op.temps == 3:
		return []pattern{
			{"t0=t1", [][]string{{"t0", "t1"}}}, {"t0=t2", [][]string{{"t0", "t2"}}}, {"t1=t2", [][]string{{"t1", "t2"}}},
			{"t0=r", [][]string{{"r", "t0"}}}, {"t1=r", [][]string{{"r", "t1"}}}, {"t2=r", [][]string{{"r", "t2"}}},
		}
	case op.arity == 1 && op.temps == 0:
		return []pattern{{"r=a", [][]string{{"r", "a"}}}}
	case op.arity == 2 && op.temps == 0:
		return []pattern{{"r=a", [][]string{{"r", "a"}}}, {"r=b", [][]string{{"r", "b"}}}, {"r=a=b", [][]string{{"r", "a", "b"}}}}
	case op.arity == 2 && op.temps == 1:
		return []pattern{{"r=a", [][]string{{"r", "a"}}}, {"r=b", [][]string{{"r", "b"}}}, {"r=a=b", [][]string{{"r", "a", "b"}}},
			{"t=a", [][]string{{"t0", "a"}}}, {"t=b", [][]string{{"t0", "b"}}}, {"t=r", [][]string{{"r", "t0"}}}}
	case op.arity == 1 && op.temps == 1:
		return []pattern{{"r=a", [][]string{{"r", "a"}}}, {"t=a", [][]string{{"t0", "a"}}}, {"t=r", [][]string{{"r", "t0"}}},
			{"r=a=t", [][]string{{"r", "a", "t0"}}}}
	}
	return nil
}

func (p pattern) groupOf(role string) []string {
	for _, g := range p.groups {
		for _, x := range g {
			if x == role {
				return g
			}
		}
	}
	return nil
}

func contains(g []string, role string) bool {
	for _, x := range g {
		if x == role {
			return true
		}
	}
	return false
}

/* one scalar case
 * -------------------------------------------------------------------------- */

type scalarCase struct {
	T        gen.ElemType
	Op       sop
	Concrete bool // call the capital-letter method through reflection
	Pat      pattern
	A, B     ScalarSpec
	TT       gen.ElemType // type of the temporaries
	X        []ScalarSpec // vector operand (SmoothMax, LogSmoothMax)
	// Hist != 0: every object that is an operand and at the same time the
	// receiver or a temporary goes through an order-changing history first
	// (history.go); the seed makes all evaluations of the case use the same one
	Hist uint64
	hs   *histStats
}

func (sc scalarCase) opName() string {
	if sc.Concrete {
		return strings.ToUpper(sc.Op.name)
	}
	return sc.Op.name
}

func (sc scalarCase) witness() map[string]any {
	w := map[string]any{"receiver_type": sc.T.Name, "op": sc.opName(), "alias": sc.Pat.name}
	if sc.Op.arity >= 1 {
		w["a"] = sc.A.String()
	}
	if sc.Op.arity >= 2 {
		w["b"] = sc.B.String()
	}
	if sc.Op.temps > 0 {
		w["temporaries"] = fmt.Sprintf("%d x %s", sc.Op.temps, sc.TT.Name)
	}
	if sc.Hist != 0 {
		w["history"] = fmt.Sprintf("aliased operand object first goes through an order-changing history (seed %#x), then is restored to the state shown", sc.Hist)
	}
	if sc.Op.vec {
		xs := make([]string, len(sc.X))
		for i, x := range sc.X {
			xs[i] = x.String()
		}
		w["x"] = xs
	}
	return w
}

// eval runs the operation under an alias pattern (empty pattern: reference).
// recvInit, if non-nil, gives a distinct receiver the given initial state
// (diagnosis: does the result depend on the receiver's previous content
// rather than on its identity?).
func (sc scalarCase) eval(pat pattern, recvInit *ScalarSpec) (res snap.Elem, p *fw.Panic) {
	objs := map[string]ad.Scalar{} // shared objects by group key
	shared := func(role string) (ad.Scalar, bool) {
		g := pat.groupOf(role)
		if g == nil {
			return nil, false
		}
		key := strings.Join(g, "=")
		if o, ok := objs[key]; ok {
			return o, true
		}
		var o ad.Scalar
		switch {
		case contains(g, "a"):
			o = scalarWithHistory(sc.A, sc.Hist, sc.hs)
		case contains(g, "b"):
			o = scalarWithHistory(sc.B, sc.Hist, sc.hs)
		case contains(g, "r"):
			o = ad.NewScalar(sc.T.T, 0)
		default:
			o = ad.NewScalar(sc.TT.T, 0)
		}
		objs[key] = o
		return o, true
	}
	var r ad.Scalar
	if o, ok := shared("r"); ok {
		r = o
	} else if recvInit != nil {
		r = scalarWithHistory(*recvInit, sc.Hist, sc.hs)
	} else {
		r = ad.NewScalar(sc.T.T, 0)
	}
	var a, b ad.ConstScalar
	if sc.Op.arity >= 1 {
		if o, ok := shared("a"); ok {
			a = o
		} else {
			a = sc.A.BuildConst()
		}
	}
	if sc.Op.arity >= 2 {
		if o, ok := shared("b"); ok {
			b = o
		} else {
			b = sc.B.BuildConst()
		}
	}
	ts := make([]ad.Scalar, sc.Op.temps)
	for i := range ts {
		if o, ok := shared(fmt.Sprintf("t%d", i)); ok {
			ts[i] = o
		} else {
			ts[i] = ad.NewScalar(sc.TT.T, 0)
		}
	}
	var x ad.ConstVector
	if sc.Op.vec {
		v := ad.NullDenseVector(sc.X[0].T.T, len(sc.X))
		for i, s := range sc.X {
			gen.SetScalar(v.At(i), s.J)
		}
		x = v
	}
	p = fw.Call(func() {
		if sc.Concrete {
			n := sc.Op.arity + sc.Op.temps
			m, ok := upperMethod(r, sc.Op.name, n)
			if !ok {
				panic("no concrete method")
			}
			args := []reflect.Value{}
			if sc.Op.arity >= 1 {
				args = append(args, reflect.ValueOf(a))
			}
			if sc.Op.arity >= 2 {
				args = append(args, reflect.ValueOf(b))
			}
			for _, t := range ts {
				args = append(args, reflect.ValueOf(t))
			}
			m.Call(args)
		} else {
			sc.Op.call(r, a, b, ts, x)
		}
		res = snap.Scalar(r)
	})
	return
}

// lowerOrder: the receiver is an operand of lower derivative order than
// another operand.
func (sc scalarCase) lowerOrder() bool {
	if !sc.T.IsReal {
		return false
	}
	g := sc.Pat.groupOf("r")
	recv := 0
	switch {
	case contains(g, "a"):
		recv = sc.A.J.Order()
	case contains(g, "b"):
		recv = sc.B.J.Order()
	}
	other := 0
	if sc.Op.arity >= 1 && !contains(g, "a") {
		other = maxInt(other, sc.A.J.Order())
	}
	if sc.Op.arity >= 2 && !contains(g, "b") {
		other = maxInt(other, sc.B.J.Order())
	}
	for _, x := range sc.X {
		other = maxInt(other, x.J.Order())
	}
	return recv < other
}

// class: recv-lower-order when the receiver IS an operand (r=a, r=b) of lower
// derivative order than another operand — AllocForOne/AllocForTwo then
// reallocates (clears) the receiver's derivative storage before the operand,
// the same object, is read; any otherwise.
func (sc scalarCase) class() string {
	if g := sc.Pat.groupOf("r"); sc.lowerOrder() && (contains(g, "a") || contains(g, "b")) {
		return "recv-lower-order"
	}
	return "any"
}

// differs: does the aliased evaluation diverge from the reference?
func (sc scalarCase) differs() bool {
	sc.hs = &histStats{}
	ref, pr := sc.eval(pattern{}, nil)
	got, pa := sc.eval(sc.Pat, nil)
	if pr != nil {
		return false
	}
	if pa != nil {
		return !aliasRejection(pa.Msg)
	}
	return snap.Diff(got, ref, sc.T.IsInt) != ""
}

// judge evaluates reference and aliased configuration and reports.
func (sc scalarCase) judge(cs *fw.Case) {
	sc.hs = &histStats{}
	defer func() {
		if sc.Hist != 0 {
			cs.C.Cover("history-applied:scalar", int64(sc.hs.applied))
			cs.C.Cover("history-state-not-restored:scalar", int64(sc.hs.unrestored))
			cs.C.Cover("history-panicked:scalar", int64(sc.hs.panicked))
		}
	}()
	ref, pr := sc.eval(pattern{}, nil)
	got, pa := sc.eval(sc.Pat, nil)
	key := "scalar:" + sc.T.Name
	cs.Cover("scalar-op:" + sc.opName())
	cs.Cover("scalar-alias:" + sc.Pat.name)
	if sc.lowerOrder() {
		cs.Cover("scalar-recv-lower-order:" + sc.Pat.name)
	}
	var v verdict
	switch {
	case pr != nil:
		// the operation rejects these operands even without aliasing (integer
		// division by zero, operands with different numbers of variables ...)
		cs.Cover("reference-rejected:scalar")
		return
	case pa != nil && aliasRejection(pa.Msg):
		cs.Cover("alias-rejected-by-api:scalar")
		return
	case pa != nil && strings.Contains(pa.Msg, "integer divide by zero"):
		// an operand clobbered to zero through the alias: a wrong result, not a rejection
		v = verdict{kind: "result", detail: fmt.Sprintf("aliased call divides by a clobbered operand (%s at %s), the call with a fresh receiver returns %v", pa.Msg, pa.Frame, ref.F)}
	case pa != nil:
		v = verdict{kind: "panic", detail: fmt.Sprintf("aliased call panics (%s at %s), the call with a fresh receiver returns %v", pa.Msg, pa.Frame, ref.F)}
	default:
		cs.Cover("judged:" + key)
		if d := snap.Diff(got, ref, sc.T.IsInt); d != "" {
			v = verdict{kind: "result", detail: fmt.Sprintf("aliased vs fresh receiver: %s", d)}
		}
	}
	if pr == nil {
		cs.Nontrivial(sc.T.Name, sc.opName(), sc.Pat.name, sc.A.String(), sc.B.String(), sc.TT.Name, fmt.Sprint(sc.X))
	}
	if v.kind == "" {
		return
	}
	// diagnosis: a distinct receiver that starts in the state of the aliased operand
	cause := "alias"
	if g := sc.Pat.groupOf("r"); g != nil && (contains(g, "a") || contains(g, "b")) {
		init := sc.A
		if !contains(g, "a") {
			init = sc.B
		}
		var rest []string
		for _, x := range g {
			if x != "r" {
				rest = append(rest, x)
			}
		}
		q := pattern{name: "diag"}
		for _, gg := range sc.Pat.groups {
			if contains(gg, "r") {
				if len(rest) > 1 {
					q.groups = append(q.groups, rest)
				}
			} else {
				q.groups = append(q.groups, gg)
			}
		}
		d, pd := sc.eval(q, &init)
		switch {
		case pd != nil && pa != nil:
			cause = "prior-state"
		case pd == nil && pa == nil && snap.Diff(d, got, sc.T.IsInt) == "":
			cause = "prior-state"
		}
	}
	class := sc.class()
	if sc.Hist != 0 {
		// does the divergence need the history?  (same operands, plainly built)
		q := sc
		q.Hist = 0
		if !q.differs() {
			class += ",needs-history"
		}
	}
	sig := fmt.Sprintf("C08|scalar|%s|%s|alias=%s|%s,cause=%s|%s", sc.Op.name, tmpl(sc.T), sc.Pat.name, class, cause, v.kind)
	w := sc.witness()
	w["fresh_receiver_result"] = fmt.Sprintf("%+v", ref)
	w["aliased_result"] = fmt.Sprintf("%+v", got)
	cs.Violation(sig, v.detail, w)
}

/* generation
 * -------------------------------------------------------------------------- */

func domValue(t gen.ElemType, r *prng.Rand, dom string) float64 {
	v := t.Value(r)
	switch dom {
	case "pos":
		v = math.Abs(t.NonZero(r))
	case "pos2":
		v = math.Abs(t.NonZero(r)) + 1
	case "small":
		if !t.IsInt {
			v = float64(r.Range(-16, 16)) / 8
		} else {
			v = float64(r.Range(-2, 2))
		}
	case "wide":
		// Log1pExp branches at -37, 18, 33.3
		v = r.PickF([]float64{-40, -37, -20, -1.5, 0, 2.25, 17, 18, 18.5, 20, 33, 33.5, 40, t.Value(r)})
		if t.Name == "Int8" && math.Abs(v) > 100 {
			v = 40
		}
	}
	return v
}

func jetFor(t gen.ElemType, r *prng.Rand, v float64, n, order int) gen.Jet {
	if !t.IsReal || order == 0 {
		return gen.Jet{V: v}
	}
	return gen.RandJet(t, r, v, n, order)
}

// genScalarCase draws the operands; oa/ob < 0: random orders.
func genScalarCase(r *prng.Rand, T gen.ElemType, op sop, concrete bool, pat pattern, oa, ob int) scalarCase {
	sc := scalarCase{T: T, Op: op, Concrete: concrete, Pat: pat, TT: T}
	if oa < 0 {
		oa = r.Intn(3)
	}
	if ob < 0 {
		ob = r.Intn(3)
	}
	n := r.Range(1, 3)
	nb := n
	if r.Chance(0.02) {
		nb = n%3 + 1 // rejected by the library ("different number of partial derivatives") when both carry derivatives
	}
	rg := pat.groupOf("r")
	// operand types: an operand that is the receiver has the receiver's type;
	// an operand that is a temporary must be mutable; others may be anything
	ta, tb := otherType(r, T), otherType(r, T)
	ca, cb := r.Chance(0.1), r.Chance(0.1)
	if contains(rg, "a") || concrete {
		ta, ca = T, false
	}
	if contains(rg, "b") || concrete {
		tb, cb = T, false
	}
	if pat.groupOf("a") != nil {
		ca = false
	}
	if pat.groupOf("b") != nil {
		cb = false
	}
	if ca && ta.IsReal {
		ta = gen.TypeByName("Float64")
	}
	if cb && tb.IsReal {
		tb = gen.TypeByName("Float64")
	}
	if !concrete && r.Chance(0.2) {
		sc.TT = gen.Types[r.Intn(len(gen.Types))]
	}
	va := domValue(ta, r, op.dom)
	vb := tb.Value(r)
	switch op.dom {
	case "div":
		va = ta.Value(r)
		if r.Chance(0.93) {
			vb = tb.Divisor(r)
		}
	case "agtb":
		va = ta.Value(r)
		if vb > va && r.Chance(0.8) {
			va, vb = vb, va
		}
	case "pos":
		if op.arity == 2 { // Pow: small exponents
			vb = float64(r.Range(-2, 3))
			if !tb.IsInt && r.Bool() {
				vb = float64(r.Range(-4, 6)) / 2
			}
		}
	}
	// a temporary that is also the receiver / an operand has that object's type;
	// the reference then uses a fresh temporary of the same type
	for i := 0; i < op.temps; i++ {
		g := pat.groupOf(fmt.Sprintf("t%d", i))
		switch {
		case contains(g, "r"):
			sc.TT = T
		case contains(g, "a"):
			sc.TT = ta
		case contains(g, "b"):
			sc.TT = tb
		}
	}
	sc.A = ScalarSpec{T: ta, Const: ca, J: jetFor(ta, r, va, n, oa)}
	sc.B = ScalarSpec{T: tb, Const: cb, J: jetFor(tb, r, vb, nb, ob)}
	if ga := pat.groupOf("a"); ga != nil && contains(ga, "b") {
		sc.B = sc.A // one object in both operand positions: the reference uses two equal operands
	}
	if op.vec {
		tx := otherType(r, T)
		k := r.Range(1, 4)
		ox := oa
		for i := 0; i < k; i++ {
			v := tx.Value(r)
			if op.dom == "pos" {
				v = math.Abs(tx.NonZero(r))
			}
			sc.X = append(sc.X, ScalarSpec{T: tx, J: jetFor(tx, r, v, n, ox)})
		}
	}
	return sc
}

type scalarCombo struct {
	T        gen.ElemType
	op       sop
	concrete bool
	pat      pattern
	oa, ob   int
}

// scalarCombos enumerates type x operation (generic and, where it exists,
// concrete) x alias pattern x derivative orders (Real types).
func scalarCombos() []scalarCombo {
	var res []scalarCombo
	for _, T := range gen.Types {
		z := ad.NewScalar(T.T, 0)
		for _, op := range scalarOps {
			variants := []bool{false}
			if !op.vec {
				if _, ok := upperMethod(z, op.name, op.arity+op.temps); ok {
					variants = append(variants, true)
				}
			}
			for _, conc := range variants {
				for _, pat := range patternsFor(op) {
					if !T.IsReal {
						res = append(res, scalarCombo{T, op, conc, pat, -1, -1})
						continue
					}
					for oa := 0; oa < 3; oa++ {
						if op.arity < 2 && !op.vec {
							res = append(res, scalarCombo{T, op, conc, pat, oa, 0})
							continue
						}
						for ob := 0; ob < 3; ob++ {
							res = append(res, scalarCombo{T, op, conc, pat, oa, ob})
						}
					}
				}
			}
		}
	}
	return res
}

func runScalars(c *fw.Ctx) {
	combos := scalarCombos()
	c.CoverMax("max:scalar-combos", int64(len(combos)))
	// every type x operation x pattern x order combination, three operand draws each
	c.Cases("scalar.directed", len(combos), func(cs *fw.Case) {
		k := combos[cs.Index]
		for rep := 0; rep < 3; rep++ {
			sc := genScalarCase(cs.R, k.T, k.op, k.concrete, k.pat, k.oa, k.ob)
			sc.judge(cs)
			if rep == 0 {
				cs.Sample(sc.witness())
			}
		}
	})
	// histories: Real receivers whose aliased operand object has a past of
	// changing derivative order (own monitors: older case addresses stay put)
	var hc []scalarCombo
	for _, k := range combos {
		if !k.T.IsReal {
			continue
		}
		for _, g := range k.pat.groups {
			if contains(g, "a") || contains(g, "b") {
				hc = append(hc, k)
				break
			}
		}
	}
	c.CoverMax("max:scalar-history-combos", int64(len(hc)))
	c.Cases("scalar.history.directed", len(hc), func(cs *fw.Case) {
		k := hc[cs.Index]
		for rep := 0; rep < 4; rep++ {
			sc := genScalarCase(cs.R, k.T, k.op, k.concrete, k.pat, k.oa, k.ob)
			sc.Hist = cs.R.Uint64() | 1
			sc.judge(cs)
			if rep == 0 {
				cs.Sample(sc.witness())
			}
		}
	})
	c.Cases("scalar.history.random", c.N(60000, 1200000), func(cs *fw.Case) {
		k := hc[cs.R.Intn(len(hc))]
		sc := genScalarCase(cs.R, k.T, k.op, k.concrete, k.pat, -1, -1)
		sc.Hist = cs.R.Uint64() | 1
		sc.judge(cs)
	})
	c.Cases("scalar.random", c.N(150000, 4000000), func(cs *fw.Case) {
		k := combos[cs.R.Intn(len(combos))]
		sc := genScalarCase(cs.R, k.T, k.op, k.concrete, k.pat, -1, -1)
		sc.judge(cs)
		if cs.Index < 2 {
			cs.Sample(sc.witness())
		}
	})
}
