package c08

import (
	ad "github.com/pbenner/autodiff"

	"verifharness/internal/fw"
	"verifharness/internal/gen"
	"verifharness/internal/prng"
	"verifharness/internal/snap"
)

// Receiver histories: before the aliased call the object that is both
// receiver and operand (or the elements of such a container) goes through a
// few earlier assignments with CHANGING derivative order (2 -> 1 -> 0 -> 2 ...,
// same and different N) and is then brought back — through library
// operations — to exactly the observable state the case prescribes.  Storage
// that an implementation keeps across such a history (a stale Hessian behind a
// lowered order, a gradient of another length) must not leak into the result
// of the aliased call; the reference is evaluated on freshly built operands.

var orderSequences = [][]int{{2, 1}, {2, 1, 0}, {2, 0}, {1, 2}, {2}, {0, 2, 1}, {1, 0, 2}, {2, 1, 0, 2}, {2, 2, 1}, {1, 2, 1}}

func randScalarOf(T gen.ElemType, r *prng.Rand, n, order int) ad.Scalar {
	x := ad.NewScalar(T.T, 0)
	gen.SetScalar(x, gen.RandJet(T, r, T.Value(r), n, order))
	return x
}

func negJet(j gen.Jet) gen.Jet {
	q := gen.Jet{V: -j.V, N: j.N}
	if j.D != nil {
		q.D = make([]float64, len(j.D))
		for i, d := range j.D {
			q.D[i] = -d
		}
	}
	if j.H != nil {
		q.H = make([]float64, len(j.H))
		for i, h := range j.H {
			q.H[i] = -h
		}
	}
	return q
}

// applyHistory runs an order-changing history on el and restores its
// observable state.  Returns false if the state could not be restored (then
// the object was rebuilt by plain assignment and the case is counted).
func applyHistory(el ad.Scalar, T gen.ElemType, r *prng.Rand) bool {
	if !T.IsReal {
		return true
	}
	e := snap.Scalar(el)
	J := gen.Jet{V: e.F}
	if e.Order >= 1 && e.N > 0 {
		J.N, J.D = e.N, e.D
		if e.Order >= 2 {
			J.H = e.H
		}
	}
	n := J.N
	if n == 0 {
		n = r.Range(1, 3)
	}
	seq := orderSequences[r.Intn(len(orderSequences))]
	for _, ord := range seq {
		nk := n
		if r.Chance(0.3) {
			nk = n%3 + 1
		}
		p := randScalarOf(T, r, nk, ord)
		switch r.Intn(5) {
		case 0:
			el.Set(p)
		case 1:
			el.Neg(p)
		case 2:
			el.Mul(p, randScalarOf(T, r, nk, ord))
		case 3:
			el.Add(p, randScalarOf(T, r, nk, r.Intn(ord+1)))
		case 4:
			el.Exp(p)
		}
	}
	// back to the prescribed state, through the library
	x := ad.NewScalar(T.T, 0)
	gen.SetScalar(x, J)
	switch r.Intn(4) {
	case 0:
		el.Set(x)
	case 1:
		el.Add(x, ad.ConstFloat64(0))
	case 2:
		el.Mul(x, ad.ConstFloat64(1))
	case 3:
		y := ad.NewScalar(T.T, 0)
		gen.SetScalar(y, negJet(J))
		el.Neg(y)
	}
	if snap.Diff(snap.Scalar(el), e, T.IsInt) != "" {
		gen.SetScalar(el, J)
		return false
	}
	return true
}

// historyOnVector / historyOnMatrix: every stored element of the container.
func historyOnVector(v ad.Vector, T gen.ElemType, r *prng.Rand) (ok bool) {
	ok = true
	for i := 0; i < v.Dim(); i++ {
		c := snap.Scalar(v.ConstAt(i))
		if c.F == 0 && c.Order == 0 {
			continue
		}
		if !applyHistory(v.At(i), T, r) {
			ok = false
		}
	}
	return
}

func historyOnMatrix(m ad.Matrix, T gen.ElemType, r *prng.Rand) (ok bool) {
	ok = true
	rows, cols := m.Dims()
	for i := 0; i < rows; i++ {
		for j := 0; j < cols; j++ {
			c := snap.Scalar(m.ConstAt(i, j))
			if c.F == 0 && c.Order == 0 {
				continue
			}
			if !applyHistory(m.At(i, j), T, r) {
				ok = false
			}
		}
	}
	return
}

// histStats counts what happened to the histories of one evaluation.
type histStats struct{ applied, unrestored, panicked int }

// scalarWithHistory builds spec and sends the object through a history.
func scalarWithHistory(spec ScalarSpec, seed uint64, st *histStats) ad.Scalar {
	o := spec.Build()
	if seed == 0 || !spec.T.IsReal {
		return o
	}
	if st == nil {
		st = &histStats{}
	}
	ok := true
	if p := fw.Call(func() { ok = applyHistory(o, spec.T, prng.New(seed)) }); p != nil {
		st.panicked++
		return spec.Build()
	}
	st.applied++
	if !ok {
		st.unrestored++
	}
	return o
}
