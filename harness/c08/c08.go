// Package c08: results do not depend on the receiver aliasing an operand
// (DESIGN.md, C08).
//
// Differential monitor: every operation is evaluated once with a fresh
// receiver and independently built operands (reference) and once per alias
// pattern on objects arranged so that the named roles are the same object or
// share storage; the observable state of the receiver must be equal under the
// exact policy.  A panic whose message is the API's explicit alias rejection
// counts as rejected and is not judged.
package c08

import (
	"fmt"
	"reflect"
	"strings"

	ad "github.com/pbenner/autodiff"

	"verifharness/internal/fw"
	"verifharness/internal/gen"
	"verifharness/internal/prng"
)

/* scalar construction
 * -------------------------------------------------------------------------- */

// ScalarSpec describes a scalar operand: element type (or a constant type) and
// its jet.
type ScalarSpec struct {
	T     gen.ElemType
	Const bool // ConstInt8 .. ConstFloat64 (never aliased with a written role)
	J     gen.Jet
}

func (s ScalarSpec) String() string {
	c := ""
	if s.Const {
		c = "Const"
	}
	switch {
	case s.J.D == nil:
		return fmt.Sprintf("%s%s(%v)", c, s.T.Name, s.J.V)
	case s.J.H == nil:
		return fmt.Sprintf("%s%s(%v d%v)", c, s.T.Name, s.J.V, s.J.D)
	}
	return fmt.Sprintf("%s%s(%v d%v h%v)", c, s.T.Name, s.J.V, s.J.D, s.J.H)
}

func constScalar(t gen.ElemType, v float64) ad.ConstScalar {
	switch t.Name {
	case "Int8":
		return ad.ConstInt8(v)
	case "Int16":
		return ad.ConstInt16(v)
	case "Int32":
		return ad.ConstInt32(v)
	case "Int64":
		return ad.ConstInt64(v)
	case "Int":
		return ad.ConstInt(v)
	case "Float32":
		return ad.ConstFloat32(v)
	}
	return ad.ConstFloat64(v)
}

func (s ScalarSpec) BuildConst() ad.ConstScalar {
	if s.Const {
		return constScalar(s.T, s.J.V)
	}
	return s.Build()
}

func (s ScalarSpec) Build() ad.Scalar {
	x := ad.NewScalar(s.T.T, 0)
	gen.SetScalar(x, s.J)
	return x
}

/* outcome of one evaluation
 * -------------------------------------------------------------------------- */

type outcome struct {
	p  *fw.Panic
	ok bool
}

// aliasRejection: the message of an explicit rejection of aliased arguments.
func aliasRejection(msg string) bool {
	m := strings.ToLower(msg)
	return strings.Contains(m, "must be different") || strings.Contains(m, "must not be the same") ||
		strings.Contains(m, "alias")
}

// verdict of comparing an aliased evaluation with the reference.
type verdict struct {
	kind   string // "" (equal) | value | deriv | element | dims | panic | panic-fresh-only
	detail string
	index  int
}

// tmpl names the template an element type is instantiated from.
func tmpl(T gen.ElemType) string {
	if T.IsReal {
		return "real"
	}
	return "plain"
}

func maxInt(a, b int) int {
	if a > b {
		return a
	}
	return b
}

// pick an element type for an operand that is not the receiver's.
func otherType(r *prng.Rand, T gen.ElemType) gen.ElemType {
	if r.Chance(0.6) {
		return T
	}
	return gen.Types[r.Intn(len(gen.Types))]
}

func upperMethod(v any, name string, nIn int) (reflect.Value, bool) {
	m := reflect.ValueOf(v).MethodByName(strings.ToUpper(name))
	if !m.IsValid() || m.Type().NumIn() != nIn {
		return reflect.Value{}, false
	}
	return m, true
}

func Run(c *fw.Ctx) {
	runScalars(c)
	runVectors(c)
	runMatrices(c)
}
