// Package c05: matrix factorizations against "the factors multiply back to the
// input and have the promised structure" (DESIGN.md, C05).  The oracle is
// in-process: reconstruction, orthogonality and band / quasi-triangular
// structure are evaluated in float64 on the returned factors; independent
// eigenvalues (cyclic Jacobi) and singular values (one-sided Jacobi) come from
// c04/la.  Factor orientation per routine is the one stated in DESIGN.md:
// A = U M U^T (hessenbergReduction, householderTridiagonalization,
// qrAlgorithm), A = U B V^T (householderBidiagonalization, svd), A = Q R
// (gramSchmidt), eigenvectors in the columns.  No other orientation is tried.
package c05

import (
	"fmt"
	"math"
	"sort"
	"strings"

	ad "github.com/pbenner/autodiff"
	"github.com/pbenner/autodiff/algorithm/cholesky"
	"github.com/pbenner/autodiff/algorithm/eigensystem"
	"github.com/pbenner/autodiff/algorithm/gramSchmidt"
	"github.com/pbenner/autodiff/algorithm/hessenbergReduction"
	"github.com/pbenner/autodiff/algorithm/householderBidiagonalization"
	"github.com/pbenner/autodiff/algorithm/householderTridiagonalization"
	"github.com/pbenner/autodiff/algorithm/msqrt"
	"github.com/pbenner/autodiff/algorithm/msqrtInv"
	"github.com/pbenner/autodiff/algorithm/qrAlgorithm"
	"github.com/pbenner/autodiff/algorithm/svd"

	"verifharness/c04/la"
	"verifharness/internal/fw"
)

/* tolerances (DESIGN.md 2.4); mirrored in CFG["tolerances"]
 * -------------------------------------------------------------------------- */

const (
	eps     = 1.0 / (1 << 53) // unit round-off of Float64 / Real64
	cDirect = 16.0            // finite factorizations: max|A - product| <= cDirect * n * eps * |A|_F ; off-band entries likewise
	cIter   = 64.0            // iterative ones (qrAlgorithm, eigensystem, svd): max|A - product| <= (cIter * n * eps + n * Epsilon_option) * |A|_F
	cOrth   = 16.0            // max|Q^T Q - I| <= cOrth * n * eps   (x kappa_2(A) for Gram-Schmidt; cIter for the iterative routines)
	cSqrt   = 64.0            // msqrt / msqrtInv: max|X X - A| <= cSqrt * n * eps * kappa_2(A) * |A|_F,  max|X A X - I| <= cSqrt * n * eps * kappa_2(A)
	pdShare = 0.01            // ForcePD: L D L^T = A is demanded when lambda_min(A) >= pdShare * |A|_2 (in exact arithmetic the modified factorization leaves EVERY positive definite matrix unchanged: theta_j^2/beta^2 <= c_jj)
)

type elemT struct {
	Name   string
	T      ad.ScalarType
	Eps    float64 // unit round-off of the storage type
	Sparse bool    // input held in a sparse container (defeats the Float32/Float64 fast paths)
}

var types = []elemT{{"Float64", ad.Float64Type, eps, false}, {"Real64", ad.Real64Type, eps, false}}

// cholTypes: the Cholesky family has specialised Float32 / Float64 code and a
// generic path (Real32, Real64, any non-dense container): all of them are driven.
var cholTypes = []elemT{
	{"Float32", ad.Float32Type, 1.0 / (1 << 24), false},
	{"Float64", ad.Float64Type, eps, false},
	{"Real32", ad.Real32Type, 1.0 / (1 << 24), false},
	{"Real64", ad.Real64Type, eps, false},
	{"SparseFloat64", ad.Float64Type, eps, true},
	{"SparseReal64", ad.Real64Type, eps, true},
}

// image rounds a reference matrix to what the element type can hold.
func image(t elemT, m *la.Mat) *la.Mat {
	if t.Eps < 1e-10 {
		return m
	}
	o := m.Clone()
	for i, v := range o.A {
		o.A[i] = float64(float32(v))
	}
	return o
}

func build(t elemT, m *la.Mat) ad.Matrix {
	if t.Sparse {
		r := ad.NullSparseMatrix(t.T, m.R, m.C)
		for i := 0; i < m.R; i++ {
			for j := 0; j < m.C; j++ {
				if v := m.At(i, j); v != 0 {
					r.At(i, j).SetFloat64(v)
				}
			}
		}
		return r
	}
	return buildInput(t, m)
}

func read(m ad.ConstMatrix) *la.Mat {
	r, c := m.Dims()
	o := la.New(r, c)
	for i := 0; i < r; i++ {
		for j := 0; j < c; j++ {
			o.Set(i, j, m.ConstAt(i, j).GetFloat64())
		}
	}
	return o
}

func readVec(v ad.ConstVector) []float64 {
	x := make([]float64, v.Dim())
	for i := range x {
		x[i] = v.ConstAt(i).GetFloat64()
	}
	return x
}

// isNil: interface holding nothing or a typed nil pointer.
func isNil(m ad.Matrix) bool {
	if m == nil {
		return true
	}
	switch p := m.(type) {
	case *ad.DenseFloat64Matrix:
		return p == nil
	case *ad.DenseFloat32Matrix:
		return p == nil
	case *ad.DenseReal64Matrix:
		return p == nil
	case *ad.DenseReal32Matrix:
		return p == nil
	}
	return false
}

/* verdicts
 * -------------------------------------------------------------------------- */

type verdict struct {
	Skip   string // not judged: reason
	Kind   string // "" = held
	Detail string
	Wit    map[string]any
	Middle bool               // the failing check concerns the middle factor only (independent of the ComputeU/ComputeV options)
	Ratio  map[string]float64 // worst value/tolerance of the checks that held
}

func held(w map[string]any) verdict { return verdict{Wit: w} }

type checker struct {
	w      map[string]any
	kind   string
	det    string
	ratio  map[string]float64
	middle bool // scope of the checks being made now
	fmid   bool // scope of the first failing check
}

func newChecker() *checker { return &checker{w: map[string]any{}, ratio: map[string]float64{}} }

// le records a tolerance check; the first failing one determines the verdict.
func (c *checker) le(kind, what string, val, tol float64) bool {
	ok := val <= tol
	if ok {
		if tol > 0 && val/tol > c.ratio[kind] {
			c.ratio[kind] = val / tol
		}
		return true
	}
	if c.kind == "" {
		c.kind = kind
		c.fmid = c.middle
		c.det = fmt.Sprintf("%s = %.3g > tol %.3g", what, val, tol)
		c.w[what] = val
		c.w["tol"] = tol
	}
	return false
}

func (c *checker) fail(kind, detail string) {
	if c.kind == "" {
		c.kind = kind
		c.fmid = c.middle
		c.det = detail
	}
}

func (c *checker) verdict() verdict {
	return verdict{Kind: c.kind, Detail: c.det, Wit: c.w, Middle: c.fmid, Ratio: c.ratio}
}

func maxAbsDiff(a, b *la.Mat) float64 {
	if a.R != b.R || a.C != b.C {
		return math.Inf(1)
	}
	return la.Sub(a, b).MaxAbs()
}

type outcome struct {
	Err   error
	Panic *fw.Panic
}

// lastOut: the matrices / vectors (library objects) returned by the most recent
// successful call; twoCalls keeps them to verify that a later call through the
// same InSitu struct, after the caller replaced the result buffers, leaves them alone.
var lastOut []any

func outs(xs ...any) []any {
	var r []any
	for _, x := range xs {
		switch v := x.(type) {
		case ad.Matrix:
			if !isNil(v) {
				r = append(r, v)
			}
		case ad.Vector:
			if v != nil {
				r = append(r, v)
			}
		}
	}
	return r
}

func snapOut(xs []any) [][]float64 {
	var r [][]float64
	for _, x := range xs {
		switch v := x.(type) {
		case ad.Matrix:
			r = append(r, read(v).A)
		case ad.Vector:
			r = append(r, readVec(v))
		}
	}
	return r
}

func ticksNow() int64 {
	s := int64(0)
	for _, site := range fw.TickSites() {
		s += fw.TickCount(site)
	}
	return s
}

// lastTicks: loop iterations (Tick hook) used by the most recent guarded call;
// lastSites: the loop sites it went through.
var lastTicks int64
var lastSites map[string]int64

func siteTicks() map[string]int64 {
	m := map[string]int64{}
	for _, site := range fw.TickSites() {
		m[site] = fw.TickCount(site)
	}
	return m
}

// iterFactor scales the tolerance of the iterative routines with the number
// of sweeps actually performed: every sweep applies O(n) orthogonal
// transformations, each contributing O(eps); up to 4 sweeps per row (what a
// converging run needs) are covered by the constant.
func iterFactor(n int) float64 {
	return math.Max(1, float64(lastTicks)/float64(4*n))
}

// guard runs f under the loop budget; returns a verdict for rejection / no-return.
func guard(budget int64, f func() error) (verdict, bool) {
	var err error
	lastOut = nil
	t0, s0 := ticksNow(), siteTicks()
	fw.SetTickBudget(budget)
	p := fw.Call(func() { err = f() })
	fw.SetTickBudget(0)
	lastTicks = ticksNow() - t0
	lastSites = map[string]int64{}
	for k, v := range siteTicks() {
		if d := v - s0[k]; d > 0 {
			lastSites[k] = d
		}
	}
	switch {
	case p != nil && p.Budget:
		return verdict{Skip: "no-return", Detail: p.Site}, false
	case p != nil:
		return verdict{Kind: "panic", Detail: "panic: " + p.Msg + " @ " + p.Frame, Wit: map[string]any{"panic": p.Msg, "frame": p.Frame}}, false
	case err != nil:
		return verdict{Kind: "error", Detail: "error: " + err.Error(), Wit: map[string]any{"error": err.Error()}}, false
	}
	return verdict{}, true
}

/* eigenvalue bookkeeping
 * -------------------------------------------------------------------------- */

// schurEigs extracts the eigenvalues of a quasi-upper-triangular matrix; a
// sub-diagonal entry counts as zero when |t[i+1][i]| <= ztol.  Returns the
// eigenvalues, the number of 2x2 blocks and the number of 2x2 blocks with
// real eigenvalues (which a real Schur form must not contain).
func schurEigs(t *la.Mat, ztol float64) (e []ev, blocks, realBlocks int, adjacent bool) {
	n := t.R
	for i := 0; i < n; i++ {
		if i+1 < n && math.Abs(t.At(i+1, i)) > ztol {
			if i+2 < n && math.Abs(t.At(i+2, i+1)) > ztol {
				adjacent = true
			}
			a, b, c, d := t.At(i, i), t.At(i, i+1), t.At(i+1, i), t.At(i+1, i+1)
			disc := (a-d)*(a-d) + 4*b*c
			blocks++
			if disc < 0 {
				im := math.Sqrt(-disc) / 2
				e = append(e, ev{(a + d) / 2, im}, ev{(a + d) / 2, -im})
			} else {
				realBlocks++
				s := math.Sqrt(disc) / 2
				e = append(e, ev{(a+d)/2 + s, 0}, ev{(a+d)/2 - s, 0})
			}
			i++
		} else {
			e = append(e, ev{t.At(i, i), 0})
		}
	}
	return
}

// matchEigs: is there a perfect matching between the two multisets with
// |a - b| <= tol (complex distance)?  Returns the worst unmatched distance.
func matchEigs(a, b []ev, tol float64) bool {
	if len(a) != len(b) {
		return false
	}
	n := len(a)
	adj := make([][]int, n)
	for i := range a {
		for j := range b {
			if math.Hypot(a[i].Re-b[j].Re, a[i].Im-b[j].Im) <= tol {
				adj[i] = append(adj[i], j)
			}
		}
	}
	matchB := make([]int, n)
	for i := range matchB {
		matchB[i] = -1
	}
	var try func(i int, seen []bool) bool
	try = func(i int, seen []bool) bool {
		for _, j := range adj[i] {
			if seen[j] {
				continue
			}
			seen[j] = true
			if matchB[j] < 0 || try(matchB[j], seen) {
				matchB[j] = i
				return true
			}
		}
		return false
	}
	for i := 0; i < n; i++ {
		if !try(i, make([]bool, n)) {
			return false
		}
	}
	return true
}

func sortedCopy(x []float64) []float64 {
	y := append([]float64(nil), x...)
	sort.Float64s(y)
	return y
}

// sortedDiff: max |x_(i) - y_(i)| of the sorted sequences.
func sortedDiff(x, y []float64) float64 {
	if len(x) != len(y) {
		return math.Inf(1)
	}
	a, b := sortedCopy(x), sortedCopy(y)
	d := 0.0
	for i := range a {
		if v := math.Abs(a[i] - b[i]); v > d || math.IsNaN(v) {
			d = v
		}
	}
	return d
}

func eigList(e []ev) [][2]float64 {
	o := make([][2]float64, len(e))
	for i, v := range e {
		o[i] = [2]float64{v.Re, v.Im}
	}
	return o
}

func absAll(x []float64) []float64 {
	y := make([]float64, len(x))
	for i, v := range x {
		y[i] = math.Abs(v)
	}
	return y
}

func powerTraces(a *la.Mat) []float64 {
	n := a.R
	tr := make([]float64, n)
	p := a.Clone()
	for k := 0; k < n; k++ {
		s := 0.0
		for i := 0; i < n; i++ {
			s += p.At(i, i)
		}
		tr[k] = s
		if k+1 < n {
			p = la.Mul(p, a)
		}
	}
	return tr
}

/* cholesky
 * -------------------------------------------------------------------------- */

func runCholesky(t elemT, A *la.Mat, mode string, is *cholesky.InSitu) verdict {
	n := A.R
	var args []interface{}
	if mode != "plain" {
		args = append(args, cholesky.LDL{Value: true})
	}
	if mode == "LDL+ForcePD" {
		args = append(args, cholesky.ForcePD{Value: true})
	}
	if is != nil {
		args = append(args, is)
	}
	var L, D *la.Mat
	if v, ok := guard(0, func() error {
		l, d, err := cholesky.Run(build(t, A), args...)
		if err == nil {
			lastOut = outs(l, d)
			L = read(l)
			if mode != "plain" {
				if isNil(d) {
					return fmt.Errorf("LDL requested but D is nil")
				}
				D = read(d)
			}
		}
		return err
	}); !ok {
		return v
	}
	c := newChecker()
	c.w["L"] = L.Rows()
	nrm := A.NormFro()
	tol := cDirect * float64(n) * t.Eps * nrm
	if !L.Finite() || D != nil && !D.Finite() {
		c.fail("non-finite", "non-finite factor")
		return c.verdict()
	}
	if la.OffBand(L, n, 0) != 0 {
		c.fail("structure", fmt.Sprintf("L is not lower triangular: an entry above the diagonal is %g", la.OffBand(L, n, 0)))
	}
	if mode == "plain" {
		for i := 0; i < n; i++ {
			if !(L.At(i, i) > 0) {
				c.fail("structure", fmt.Sprintf("L[%d][%d] = %g is not positive", i, i, L.At(i, i)))
			}
		}
		c.le("reconstruct", "max|L*L^T - A|", maxAbsDiff(la.MulNaive(L, L.T()), A), tol)
		return c.verdict()
	}
	c.w["D"] = D.Rows()
	for i := 0; i < n; i++ {
		if L.At(i, i) != 1 {
			c.fail("structure", fmt.Sprintf("L is not unit lower triangular: L[%d][%d] = %g", i, i, L.At(i, i)))
		}
		if !(D.At(i, i) > 0) {
			c.fail("structure", fmt.Sprintf("D[%d][%d] = %g is not positive", i, i, D.At(i, i)))
		}
	}
	if la.OffBand(D, 0, 0) != 0 {
		c.fail("structure", fmt.Sprintf("D is not diagonal: an off-diagonal entry is %g", la.OffBand(D, 0, 0)))
	}
	M := la.MulNaive(la.MulNaive(L, D), L.T())
	if mode == "LDL" {
		c.le("reconstruct", "max|L*D*L^T - A|", maxAbsDiff(M, A), tol)
		return c.verdict()
	}
	// ForcePD: L D L^T is positive definite (D > 0 with unit triangular L was
	// checked above, which proves it; independent eigenvalues as a cross-check)
	Ms := M.Clone()
	Ms.Symmetrize()
	lam, _ := la.SymEig(Ms)
	c.w["eig(L*D*L^T)"] = lam
	c.le("not-positive-definite", "-lambda_min(L*D*L^T)", -lam[0], cDirect*float64(n)*t.Eps*M.NormFro())
	la0, _ := la.SymEig(A)
	norm2 := math.Max(math.Abs(la0[0]), math.Abs(la0[n-1]))
	c.w["eig(A)"] = la0
	if la0[0] >= pdShare*norm2 && norm2 > 0 {
		c.w["sufficiently-positive-definite"] = true
		c.le("reconstruct", "max|L*D*L^T - A|", maxAbsDiff(M, A), tol)
	}
	return c.verdict()
}

/* gramSchmidt
 * -------------------------------------------------------------------------- */

func runGramSchmidt(t elemT, A *la.Mat, is *gramSchmidt.InSitu) verdict {
	n, m := A.R, A.C
	k2 := la.Cond2(A)
	if !(k2 <= 1e8) {
		return verdict{Skip: "ill-conditioned"}
	}
	var args []interface{}
	if is != nil {
		args = append(args, *is) // this routine takes its InSitu by value
	}
	var Q, R *la.Mat
	if v, ok := guard(0, func() error {
		q, r, err := gramSchmidt.Run(build(t, A), args...)
		if err == nil {
			lastOut = outs(q, r)
			Q, R = read(q), read(r)
			if is != nil {
				is.Q, is.R = q, r
			}
		}
		return err
	}); !ok {
		return v
	}
	c := newChecker()
	c.w["Q"], c.w["R"], c.w["kappa_2"] = Q.Rows(), R.Rows(), k2
	if !Q.Finite() || !R.Finite() {
		c.fail("non-finite", "non-finite factor")
		return c.verdict()
	}
	if Q.R != n || Q.C != m {
		c.fail("structure", fmt.Sprintf("Q is %dx%d, expected %dx%d", Q.R, Q.C, n, m))
		return c.verdict()
	}
	if la.OffBand(R, 0, m) != 0 {
		c.fail("structure", fmt.Sprintf("R is not upper triangular: an entry below the diagonal is %g", la.OffBand(R, 0, m)))
	}
	rows := make([]int, m)
	cols := make([]int, m)
	for i := range rows {
		rows[i], cols[i] = i, i
	}
	Rt := R.Select(rows, cols)
	c.le("orthogonal", "max|Q^T*Q - I|", la.OrthoDefect(Q), cOrth*float64(n)*eps*k2)
	c.le("reconstruct", "max|Q*R - A|", maxAbsDiff(la.MulNaive(Q, Rt), A), cDirect*float64(n)*eps*A.NormFro())
	return c.verdict()
}

/* householderBidiagonalization
 * -------------------------------------------------------------------------- */

func runBidiag(t elemT, A *la.Mat, cu, cv bool, is *householderBidiagonalization.InSitu) verdict {
	m, n := A.R, A.C
	args := []interface{}{householderBidiagonalization.ComputeU{Value: cu}, householderBidiagonalization.ComputeV{Value: cv}}
	if is != nil {
		args = append(args, is)
	}
	var B, U, V *la.Mat
	if v, ok := guard(0, func() error {
		b, u, vv, err := householderBidiagonalization.Run(build(t, A), args...)
		if err == nil {
			lastOut = outs(b, u, vv)
			B = read(b)
			if !isNil(u) {
				U = read(u)
			}
			if !isNil(vv) {
				V = read(vv)
			}
		}
		return err
	}); !ok {
		return v
	}
	return judgeUBV("B", t, A, B, U, V, cu, cv, m, n, 1, cDirect, 0, false)
}

// judgeUBV: A = U M V^T with orthogonal U (m x m), V (n x n) and M banded
// (upper bandwidth ub); used by the bidiagonalisation (ub = 1) and the SVD
// (ub = 0, non-negative diagonal).
func judgeUBV(name string, t elemT, A, M, U, V *la.Mat, cu, cv bool, m, n, ub int, cc, epsOpt float64, nonneg bool) verdict {
	c := newChecker()
	c.w[name] = M.Rows()
	if U != nil {
		c.w["U"] = U.Rows()
	}
	if V != nil {
		c.w["V"] = V.Rows()
	}
	nrm := A.NormFro()
	tol := (cc*float64(m)*eps + float64(n)*epsOpt) * nrm
	if !M.Finite() || U != nil && !U.Finite() || V != nil && !V.Finite() {
		c.fail("non-finite", "non-finite factor")
		return c.verdict()
	}
	if M.R != m || M.C != n {
		c.fail("structure", fmt.Sprintf("%s is %dx%d, expected %dx%d", name, M.R, M.C, m, n))
		return c.verdict()
	}
	if cu != (U != nil) || cv != (V != nil) {
		c.fail("structure", fmt.Sprintf("ComputeU=%v/ComputeV=%v but U returned: %v, V returned: %v", cu, cv, U != nil, V != nil))
		return c.verdict()
	}
	c.middle = true
	c.le("structure", fmt.Sprintf("max off-band |%s|", name), la.OffBand(M, 0, ub), tol)
	if nonneg {
		for i := 0; i < n; i++ {
			if M.At(i, i) < 0 {
				c.fail("sign", fmt.Sprintf("singular value S[%d][%d] = %g is negative", i, i, M.At(i, i)))
				break
			}
		}
	}
	// singular values are invariant
	sa, sm := la.SingularValues(A), la.SingularValues(M)
	c.w["singular values of A"] = sa
	c.le("singular-values", fmt.Sprintf("max|sigma(%s) - sigma(A)|", name), sortedDiff(sa, sm), tol)
	c.middle = false
	if U != nil {
		c.le("orthogonal", "max|U^T*U - I|", la.OrthoDefect(U), cc*float64(m)*eps)
	}
	if V != nil {
		c.le("orthogonal", "max|V^T*V - I|", la.OrthoDefect(V), cc*float64(m)*eps)
	}
	if U != nil && V != nil {
		c.le("reconstruct", fmt.Sprintf("max|U*%s*V^T - A|", name), maxAbsDiff(la.MulNaive(la.MulNaive(U, M), V.T()), A), tol)
	}
	// only one outer factor requested: it must still be the factor of A, not just any orthogonal matrix.
	// A = U*M*V^T + E, max|E| <= tol, implies U^T*(A*A^T)*U = M*M^T up to (2k+1)*tol*|A|_F entrywise (k the inner dimension)
	if U != nil && V == nil {
		lhs := la.MulNaive(la.MulNaive(U.T(), la.MulNaive(A, A.T())), U)
		c.le("reconstruct", fmt.Sprintf("max|U^T*A*A^T*U - %s*%s^T| (ComputeU only)", name, name), maxAbsDiff(lhs, la.MulNaive(M, M.T())), (2*float64(n)+1)*tol*nrm)
	}
	if V != nil && U == nil {
		lhs := la.MulNaive(la.MulNaive(V.T(), la.MulNaive(A.T(), A)), V)
		c.le("reconstruct", fmt.Sprintf("max|V^T*A^T*A*V - %s^T*%s| (ComputeV only)", name, name), maxAbsDiff(lhs, la.MulNaive(M.T(), M)), (2*float64(m)+1)*tol*nrm)
	}
	return c.verdict()
}

/* householderTridiagonalization
 * -------------------------------------------------------------------------- */

func runTridiag(t elemT, A *la.Mat, cu bool, is *householderTridiagonalization.InSitu) verdict {
	n := A.R
	args := []interface{}{householderTridiagonalization.ComputeU{Value: cu}}
	if is != nil {
		args = append(args, is)
	}
	var T, U *la.Mat
	if v, ok := guard(0, func() error {
		tt, u, err := householderTridiagonalization.Run(build(t, A), args...)
		if err == nil {
			lastOut = outs(tt, u)
			T = read(tt)
			if !isNil(u) {
				U = read(u)
			}
		}
		return err
	}); !ok {
		return v
	}
	c := newChecker()
	c.w["T"] = T.Rows()
	tol := cDirect * float64(n) * eps * A.NormFro()
	if !T.Finite() || U != nil && !U.Finite() {
		c.fail("non-finite", "non-finite factor")
		return c.verdict()
	}
	if cu != (U != nil) {
		c.fail("structure", fmt.Sprintf("ComputeU=%v but U returned: %v", cu, U != nil))
		return c.verdict()
	}
	c.middle = true
	c.le("structure", "max off-band |T|", la.OffBand(T, 1, 1), tol)
	c.le("structure", "max|T - T^T|", maxAbsDiff(T, T.T()), tol)
	Ts := T.Clone()
	Ts.Symmetrize()
	la0, _ := la.SymEig(A)
	la1, _ := la.SymEig(Ts)
	c.w["eig(A)"] = la0
	c.le("eigenvalues", "max|lambda(T) - lambda(A)|", sortedDiff(la0, la1), tol)
	c.middle = false
	if U != nil {
		c.w["U"] = U.Rows()
		c.le("orthogonal", "max|U^T*U - I|", la.OrthoDefect(U), cOrth*float64(n)*eps)
		c.le("reconstruct", "max|U*T*U^T - A|", maxAbsDiff(la.MulNaive(la.MulNaive(U, T), U.T()), A), tol)
	}
	return c.verdict()
}

/* hessenbergReduction
 * -------------------------------------------------------------------------- */

func runHessenberg(t elemT, A *la.Mat, cu, setZero bool, is *hessenbergReduction.InSitu) verdict {
	n := A.R
	args := []interface{}{hessenbergReduction.ComputeU{Value: cu}, hessenbergReduction.SetZero{Value: setZero}}
	if is != nil {
		args = append(args, is)
	}
	var H, U *la.Mat
	if v, ok := guard(0, func() error {
		h, u, err := hessenbergReduction.Run(build(t, A), args...)
		if err == nil {
			lastOut = outs(h, u)
			H = read(h)
			if !isNil(u) {
				U = read(u)
			}
		}
		return err
	}); !ok {
		return v
	}
	c := newChecker()
	c.w["H"] = H.Rows()
	nrm := A.NormFro()
	tol := cDirect * float64(n) * eps * nrm
	if !H.Finite() || U != nil && !U.Finite() {
		c.fail("non-finite", "non-finite factor")
		return c.verdict()
	}
	if cu != (U != nil) {
		c.fail("structure", fmt.Sprintf("ComputeU=%v but U returned: %v", cu, U != nil))
		return c.verdict()
	}
	c.middle = true
	c.le("structure", "max |H| below the sub-diagonal", la.OffBand(H, 1, n), tol)
	// orthogonal similarity invariants: Frobenius norm and traces of powers
	c.le("invariants", "| |H|_F - |A|_F |", math.Abs(H.NormFro()-nrm), tol)
	ta, th := powerTraces(A), powerTraces(H)
	for k := range ta {
		c.le("invariants", fmt.Sprintf("|tr(H^%d) - tr(A^%d)|", k+1, k+1), math.Abs(ta[k]-th[k]), cDirect*float64(n)*float64(n)*float64(k+1)*eps*math.Pow(nrm, float64(k+1)))
	}
	c.middle = false
	if U != nil {
		c.w["U"] = U.Rows()
		c.le("orthogonal", "max|U^T*U - I|", la.OrthoDefect(U), cOrth*float64(n)*eps)
		c.le("reconstruct", "max|U*H*U^T - A|", maxAbsDiff(la.MulNaive(la.MulNaive(U, H), U.T()), A), tol)
	}
	return c.verdict()
}

/* qrAlgorithm
 * -------------------------------------------------------------------------- */

type qrOpts struct {
	Sym, CU bool
	Eps     float64 // 0 = default
}

func (o qrOpts) String() string {
	s := []string{"general"}
	if o.Sym {
		s[0] = "Symmetric"
	}
	if o.CU {
		s = append(s, "ComputeU")
	}
	return strings.Join(s, "+")
}

// tickBudget lies above the library's own iteration caps (2000*n outer steps, 2000
// per 2x2 block since 40dd981): "failed to converge" surfaces as the library's
// error, only a genuinely unbounded loop is skipped as no-return.
func tickBudget(n int) int64 { return int64(6000*n + 6000) }

// epsLabel names the deflation tolerance option (coverage and witness only:
// the signature does not depend on it).
func epsLabel(e float64) string {
	if e == 0 {
		return "Epsilon=default"
	}
	return fmt.Sprintf("Epsilon=%g", e)
}

func runQR(t elemT, in sqInput, o qrOpts, is *qrAlgorithm.InSitu) verdict {
	A := in.A
	n := A.R
	args := []interface{}{qrAlgorithm.ComputeU{Value: o.CU}, qrAlgorithm.Symmetric{Value: o.Sym}}
	if o.Eps != 0 {
		args = append(args, qrAlgorithm.Epsilon{Value: o.Eps})
	}
	if is != nil {
		is.InitializeH = true
		is.InitializeU = true
		args = append(args, is)
	}
	var T, U *la.Mat
	if v, ok := guard(tickBudget(n), func() error {
		h, u, err := qrAlgorithm.Run(build(t, A), args...)
		if err == nil {
			lastOut = outs(h, u)
			T = read(h)
			if !isNil(u) {
				U = read(u)
			}
		}
		return err
	}); !ok {
		return v
	}
	c := newChecker()
	c.w["T"] = T.Rows()
	c.w["sweeps"] = lastTicks
	nrm := A.NormFro()
	itf := iterFactor(n)
	tol := (cIter*itf*float64(n)*eps + float64(n)*o.Eps) * nrm
	if !T.Finite() || U != nil && !U.Finite() {
		c.fail("non-finite", "non-finite factor")
		return c.verdict()
	}
	if o.CU != (U != nil) {
		c.fail("structure", fmt.Sprintf("ComputeU=%v but U returned: %v", o.CU, U != nil))
		return c.verdict()
	}
	if U != nil {
		c.w["U"] = U.Rows()
	}
	c.middle = true
	if o.Sym {
		c.le("structure", "max off-diagonal |T|", la.OffBand(T, 0, 0), tol)
		la0, _ := la.SymEig(A)
		d := make([]float64, n)
		for i := range d {
			d[i] = T.At(i, i)
		}
		c.w["eig(A)"] = la0
		c.le("eigenvalues", "max|diag(T) - lambda(A)|", sortedDiff(la0, d), tol)
	} else {
		c.le("structure", "max |T| below the sub-diagonal", la.OffBand(T, 1, n), tol)
		e, blocks, realBlocks, adjacent := schurEigs(T, tol)
		c.w["eig(T)"] = eigList(e)
		if adjacent {
			c.fail("structure", "T is not quasi-triangular: two consecutive sub-diagonal entries exceed the tolerance")
		}
		if realBlocks > 0 {
			c.fail("structure", fmt.Sprintf("T keeps %d 2x2 diagonal block(s) whose eigenvalues are real", realBlocks))
		}
		if in.Eig != nil {
			c.w["eig(A) by construction"] = eigList(in.Eig)
			if in.Clean && blocks != in.Pairs && !adjacent && realBlocks == 0 {
				c.fail("structure", fmt.Sprintf("T has %d 2x2 blocks, the spectrum has %d complex-conjugate pairs", blocks, in.Pairs))
			}
			if !math.IsInf(in.KappaX, 0) && !adjacent {
				etol := float64(n) * in.KappaX * tol
				if !matchEigs(in.Eig, e, etol) {
					c.fail("eigenvalues", fmt.Sprintf("the eigenvalues of T do not match the constructed spectrum within %.3g", etol))
				}
			}
		}
		ta, th := powerTraces(A), powerTraces(T)
		c.le("invariants", "|tr(T) - tr(A)|", math.Abs(ta[0]-th[0]), float64(n)*tol)
	}
	c.middle = false
	if U != nil {
		c.le("orthogonal", "max|U^T*U - I|", la.OrthoDefect(U), cIter*itf*float64(n)*eps)
		c.le("reconstruct", "max|U*T*U^T - A|", maxAbsDiff(la.MulNaive(la.MulNaive(U, T), U.T()), A), tol)
	}
	return c.verdict()
}

/* eigensystem
 * -------------------------------------------------------------------------- */

type eigOpts struct {
	Sym, Vec bool
	Eps      float64
}

func (o eigOpts) String() string {
	s := []string{"general"}
	if o.Sym {
		s[0] = "Symmetric"
	}
	if o.Vec {
		s = append(s, "ComputeEigenvectors")
	}
	return strings.Join(s, "+")
}

func runEigensystem(t elemT, in sqInput, o eigOpts, is *eigensystem.InSitu) verdict {
	A := in.A
	n := A.R
	args := []interface{}{eigensystem.ComputeEigenvectors{Value: o.Vec}, eigensystem.Symmetric{Value: o.Sym}}
	if o.Sym {
		args = append(args, qrAlgorithm.Symmetric{Value: true})
	}
	if o.Eps != 0 {
		args = append(args, qrAlgorithm.Epsilon{Value: o.Eps})
	}
	if is != nil {
		is.QrAlgorithm.InitializeH = true
		is.QrAlgorithm.InitializeU = true
		args = append(args, is)
	}
	var lam []float64
	var V, pre *la.Mat
	if is != nil && !isNil(is.Eigenvectors) && vx.on {
		// caller-supplied buffer: put fresh unrelated numbers into it, to recognise a buffer nobody wrote to
		pre = la.New(n, n)
		for i := 0; i < n; i++ {
			for j := 0; j < n; j++ {
				pre.Set(i, j, 1000+float64(10*i+j))
				is.Eigenvectors.At(i, j).SetFloat64(pre.At(i, j))
			}
		}
	}
	if v, ok := guard(tickBudget(n), func() error {
		e, vec, err := eigensystem.Run(build(t, A), args...)
		if err == nil {
			lastOut = outs(e, vec)
			lam = readVec(e)
			if !isNil(vec) {
				V = read(vec)
			}
		}
		return err
	}); !ok {
		return v
	}
	c := newChecker()
	c.w["eigenvalues"] = lam
	c.w["sweeps"] = lastTicks
	nrm := A.NormFro()
	tol := (cIter*iterFactor(n)*float64(n)*eps + float64(n)*o.Eps) * nrm
	if !la.VecFinite(lam) {
		c.fail("non-finite", "non-finite eigenvalue")
		return c.verdict()
	}
	if o.Vec != (V != nil) {
		c.fail("structure", fmt.Sprintf("ComputeEigenvectors=%v but eigenvectors returned: %v", o.Vec, V != nil))
		return c.verdict()
	}
	c.middle = true
	// ordered by decreasing magnitude (of the returned numbers)
	for i := 0; i+1 < n; i++ {
		if math.Abs(lam[i]) < math.Abs(lam[i+1]) {
			c.fail("order", fmt.Sprintf("|lambda[%d]| = %g < |lambda[%d]| = %g", i, math.Abs(lam[i]), i+1, math.Abs(lam[i+1])))
			break
		}
	}
	// multiset of eigenvalues (real parts)
	if o.Sym {
		la0, _ := la.SymEig(A)
		c.w["eig(A)"] = la0
		c.le("eigenvalues", "max|lambda - lambda(A)| (sorted)", sortedDiff(la0, lam), tol)
	} else {
		tr := 0.0
		for i := 0; i < n; i++ {
			tr += A.At(i, i)
		}
		s := 0.0
		for _, v := range lam {
			s += v
		}
		c.le("eigenvalues", "|sum(lambda) - tr(A)|", math.Abs(s-tr), float64(n)*tol)
		if in.Eig != nil && !math.IsInf(in.KappaX, 0) {
			re := make([]float64, n)
			for i, e := range in.Eig {
				re[i] = e.Re
			}
			c.w["eig(A) by construction"] = eigList(in.Eig)
			c.le("eigenvalues", "max|lambda - Re lambda(A)| (sorted)", sortedDiff(re, lam), float64(n)*in.KappaX*tol)
		}
	}
	c.middle = false
	if V == nil {
		return c.verdict()
	}
	c.w["eigenvectors"] = V.Rows()
	if pre != nil && sameColumns(pre, V) {
		c.fail("eigenvector-buffer-not-written", "the caller-supplied InSitu.Eigenvectors buffer is returned with its old content: no eigenvector was stored in it")
		return c.verdict()
	}
	// A v = lambda v for every real eigenvalue: lambda_j is (numerically) a
	// real eigenvalue iff sigma_min(A - lambda_j I) is at rounding level
	judged := 0
	resid := func(j, k int) float64 { // |A v_k - lambda_j v_k|_max / |v_k|_2
		v := make([]float64, n)
		for i := range v {
			v[i] = V.At(i, k)
		}
		if !la.VecFinite(v) {
			return math.Inf(1)
		}
		vn := la.VecNorm2(v)
		if vn == 0 {
			return math.Inf(1)
		}
		av := la.MulVec(A, v)
		r := 0.0
		for i := range av {
			r = math.Max(r, math.Abs(av[i]-lam[j]*v[i]))
		}
		return r / vn
	}
	var realIdx []int
	failed := false
	for j := 0; j < n; j++ {
		sh := A.Clone()
		for i := 0; i < n; i++ {
			sh.Set(i, i, sh.At(i, i)-lam[j])
		}
		sv := la.SingularValues(sh)
		smin := sv[len(sv)-1]
		if !o.Sym && smin > float64(n)*tol {
			continue // real part of a complex pair (or not at rounding level): the vector is not judged
		}
		if !o.Sym && (in.Eig == nil || math.IsInf(in.KappaX, 0)) && !isolatedWellConditioned(sh, sv, nrm) {
			// the conditioning of this eigenvalue is not known by construction and it is
			// not a simple, isolated, well-conditioned one (e.g. a defective double
			// eigenvalue, which rounding legitimately turns into a complex pair)
			c.w["eigenpairs not judged (ill-conditioned eigenvalue)"] = true
			continue
		}
		// geometric multiplicity of lambda_j as a real eigenvalue and number of
		// returned values equal to it: when there are more copies than the
		// multiplicity (the real part of a complex pair coincides with a real
		// eigenvalue) only that many of their columns have to be eigenvectors
		mult, copies, pass := 0, 0, 0
		for _, x := range sv {
			if x <= float64(n)*tol {
				mult++
			}
		}
		for i := 0; i < n; i++ {
			if math.Abs(lam[i]-lam[j]) <= float64(n)*tol {
				copies++
				if resid(j, i) <= float64(n)*tol {
					pass++
				}
			}
		}
		judged++
		if !o.Sym && copies > mult {
			if pass < mult {
				c.fail("eigenpair", fmt.Sprintf("the real eigenvalue %.17g (geometric multiplicity %d) is returned %d times, but only %d of those columns satisfy A*v = lambda*v", lam[j], mult, copies, pass))
			}
			continue
		}
		realIdx = append(realIdx, j)
		if resid(j, j) > float64(n)*tol {
			failed = true
		}
	}
	if failed {
		// localisation: is every real eigenvalue matched by SOME column?  Then the
		// vectors are right and only stored in the wrong columns.
		adj := make([][]int, len(realIdx))
		for a, j := range realIdx {
			for k := 0; k < n; k++ {
				if resid(j, k) <= float64(n)*tol {
					adj[a] = append(adj[a], k)
				}
			}
		}
		matchK := make([]int, n)
		for i := range matchK {
			matchK[i] = -1
		}
		var try func(a int, seen []bool) bool
		try = func(a int, seen []bool) bool {
			for _, k := range adj[a] {
				if seen[k] {
					continue
				}
				seen[k] = true
				if matchK[k] < 0 || try(matchK[k], seen) {
					matchK[k] = a
					return true
				}
			}
			return false
		}
		all := true
		for a := range realIdx {
			if !try(a, make([]bool, n)) {
				all = false
				break
			}
		}
		if all {
			c.fail("eigenpairs-misaligned", "every real eigenvalue has its eigenvector among the returned columns, but not in the column of its own index (eigenvalues were sorted, the columns were permuted differently)")
		}
	}
	for _, j := range realIdx {
		r := resid(j, j)
		if math.IsInf(r, 1) {
			copies := 0
			for i := 0; i < n; i++ {
				if math.Abs(lam[i]-lam[j]) <= float64(n)*tol {
					copies++
				}
			}
			if copies > 1 {
				c.fail("eigenvector-non-finite(repeated-eigenvalue)", fmt.Sprintf("eigenvector %d of the real eigenvalue %.17g, which is returned %d times (repeated within rounding), is zero or has non-finite entries", j, lam[j], copies))
			} else {
				c.fail("eigenvector-non-finite", fmt.Sprintf("eigenvector %d of the real eigenvalue %.17g is zero or has non-finite entries", j, lam[j]))
			}
			continue
		}
		c.le("eigenpair", fmt.Sprintf("max|A*v - lambda*v|/|v|_2 (pair %d)", j), r, float64(n)*tol)
	}
	c.w["real eigenpairs judged"] = judged
	return c.verdict()
}

// sameColumns: b consists of the columns of a in some order.
func sameColumns(a, b *la.Mat) bool {
	if a.R != b.R || a.C != b.C {
		return false
	}
	col := func(m *la.Mat, j int) string {
		s := ""
		for i := 0; i < m.R; i++ {
			s += fmt.Sprintf("%v,", m.At(i, j))
		}
		return s
	}
	seen := map[string]int{}
	for j := 0; j < a.C; j++ {
		seen[col(a, j)]++
	}
	for j := 0; j < b.C; j++ {
		k := col(b, j)
		if seen[k] == 0 {
			return false
		}
		seen[k]--
	}
	return true
}

// isolatedWellConditioned: lambda (already subtracted: m = A - lambda I, sv its
// singular values in descending order) is a simple eigenvalue, separated from
// the rest of the spectrum (second smallest singular value >= 1e-3 |A|_F) and
// with eigenvalue condition number 1/|y^T x| <= 100 (x, y the right and left
// null vectors of m).
func isolatedWellConditioned(m *la.Mat, sv []float64, nrm float64) bool {
	n := m.R
	if n == 1 {
		return true
	}
	if !(sv[n-2] >= 1e-3*nrm) {
		return false
	}
	_, vx := la.SymEig(la.Mul(m.T(), m)) // ascending: column 0 spans the null space
	_, vy := la.SymEig(la.Mul(m, m.T()))
	d := 0.0
	for i := 0; i < n; i++ {
		d += vx.At(i, 0) * vy.At(i, 0)
	}
	return math.Abs(d) >= 1e-2
}

/* svd
 * -------------------------------------------------------------------------- */

func runSVD(t elemT, A *la.Mat, cu, cv bool, epsOpt float64, is *svd.InSitu) verdict {
	m, n := A.R, A.C
	args := []interface{}{svd.ComputeU{Value: cu}, svd.ComputeV{Value: cv}}
	if epsOpt != 0 {
		args = append(args, svd.Epsilon{Value: epsOpt})
	}
	if is != nil {
		args = append(args, is)
	}
	var S, U, V *la.Mat
	if v, ok := guard(tickBudget(n), func() error {
		s, u, vv, err := svd.Run(build(t, A), args...)
		if err == nil {
			lastOut = outs(s, u, vv)
			S = read(s)
			if !isNil(u) {
				U = read(u)
			}
			if !isNil(vv) {
				V = read(vv)
			}
		}
		return err
	}); !ok {
		return v
	}
	e := epsOpt
	if e == 0 {
		e = 1.11e-16
	}
	return judgeUBV("S", t, A, S, U, V, cu, cv, m, n, 0, cIter*iterFactor(n), e, true)
}

/* msqrt, msqrtInv
 * -------------------------------------------------------------------------- */

func runMsqrt(t elemT, A *la.Mat, inverse bool) verdict {
	n := A.R
	k2 := la.Cond2(A)
	if !(k2 <= 1e6) {
		return verdict{Skip: "ill-conditioned"}
	}
	var X *la.Mat
	if v, ok := guard(2000, func() error {
		var x ad.Matrix
		var err error
		if inverse {
			x, err = msqrtInv.Run(build(t, A))
		} else {
			x, err = msqrt.Run(build(t, A))
		}
		if err == nil {
			X = read(x)
		}
		return err
	}); !ok {
		return v
	}
	c := newChecker()
	c.w["X"], c.w["kappa_2"] = X.Rows(), k2
	if !X.Finite() {
		c.fail("non-finite", "non-finite result")
		return c.verdict()
	}
	if inverse {
		P := la.MulNaive(la.MulNaive(X, A), X)
		c.le("reconstruct", "max|X*A*X - I|", maxAbsDiff(P, la.Identity(n)), cSqrt*float64(n)*eps*k2)
	} else {
		c.le("reconstruct", "max|X*X - A|", maxAbsDiff(la.MulNaive(X, X), A), cSqrt*float64(n)*eps*k2*A.NormFro())
	}
	return c.verdict()
}

/* reporting
 * -------------------------------------------------------------------------- */

func sig(routine, opts, typ, class, kind string) string {
	return fmt.Sprintf("C05|factor|%s|%s|%s|%s|%s", routine, opts, typ, class, kind)
}

// report turns a verdict into coverage / violation records.  Returns true when judged.
func report(cs *fw.Case, routine, opts string, t elemT, class string, A *la.Mat, v verdict) bool {
	cs.Cover("call:" + routine + "/" + t.Name)
	cs.Cover("opts:" + routine + "/" + opts)
	cs.Cover("class:" + routine + "/" + class)
	if v.Skip != "" {
		cs.Skip(v.Skip)
		cs.Cover("skipped:" + v.Skip + ":" + routine)
		return false
	}
	cs.Cover("judged:" + routine)
	cs.Cover("judged-class:" + routine + "/" + class)
	if v.Kind == "" {
		return true
	}
	wit := map[string]any{"A": A.Rows(), "type": t.Name, "opts": opts, "class": class}
	for k, x := range v.Wit {
		wit[k] = x
	}
	cs.Violation(sig(routine, opts, t.Name, class, v.Kind), fmt.Sprintf("%s(%s) %s %dx%d [%s]: %s", routine, opts, t.Name, A.R, A.C, class, v.Detail), wit)
	return true
}

func bstr(name string, b bool) string {
	if b {
		return name
	}
	return ""
}

func join(parts ...string) string {
	var s []string
	for _, p := range parts {
		if p != "" {
			s = append(s, p)
		}
	}
	if len(s) == 0 {
		return "default"
	}
	return strings.Join(s, "+")
}

func sizeClass(n int) string {
	switch {
	case n <= 2:
		return "n<=2"
	case n == 3:
		return "n=3"
	}
	return "n>=4"
}
