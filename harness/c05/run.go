package c05

import (
	"fmt"
	"strings"

	"github.com/pbenner/autodiff/algorithm/cholesky"
	"github.com/pbenner/autodiff/algorithm/eigensystem"
	"github.com/pbenner/autodiff/algorithm/gramSchmidt"
	"github.com/pbenner/autodiff/algorithm/hessenbergReduction"
	"github.com/pbenner/autodiff/algorithm/householderBidiagonalization"
	"github.com/pbenner/autodiff/algorithm/householderTridiagonalization"
	"github.com/pbenner/autodiff/algorithm/qrAlgorithm"
	"github.com/pbenner/autodiff/algorithm/svd"

	"verifharness/c04/la"
	"verifharness/internal/fw"
)

/* coarse input classes used in signatures (the fine class is counted in the
 * coverage table and written into the witness)
 * -------------------------------------------------------------------------- */

var coarseSq = map[string]string{
	"hard-blocks":   "hard-blocks",
	"distinct-real": "real-spectrum", "zero-eig": "real-spectrum", "diagonal": "already-reduced", "nonnormal": "real-spectrum", "triangular": "already-reduced",
	"repeated-real": "repeated", "identity": "already-reduced", "clustered-real": "clustered",
	"complex-pairs": "complex-pairs", "mixed": "complex-pairs", "nonnormal-complex": "complex-pairs",
	"partially-reduced": "partially-reduced", "block-diagonal": "partially-reduced",
	"hessenberg": "already-reduced", "small-int": "unstructured", "graded": "unstructured", "zero-row-col": "unstructured", "rot2x2": "2x2-directed",
}

var coarseSym = map[string]string{
	"distinct": "distinct", "zero-eig": "distinct", "indefinite": "distinct", "small-int": "distinct", "graded": "graded", "gram": "distinct", "zero-row-col": "distinct",
	"repeated": "repeated", "clustered": "clustered", "identity": "already-reduced", "diagonal": "already-reduced", "tridiagonal": "already-reduced",
	"early-offdiag": "graded", "partially-reduced": "partially-reduced", "block-diagonal": "partially-reduced",
}

var coarseTall = map[string]string{
	"multi-zero-diagonal": "multi-zero-diagonal",
	"distinct":            "dense", "repeated": "dense", "clustered": "dense", "small-int": "dense", "graded": "dense", "dense-random": "dense",
	"zero-column": "dense", "zero-row": "dense", "rank-deficient": "dense-rank-deficient",
	"partially-reduced": "partially-reduced",
	"bidiagonal":        "already-bidiagonal", "diagonal": "already-bidiagonal", "identity": "already-bidiagonal", "bidiagonal-zero-diag": "bidiagonal-zero-diagonal",
}

// twoCalls runs call(A, useInSitu) on one input, or - with in-situ buffers - on
// two inputs in a row (the second call re-uses the buffers of the first), and
// reports the verdicts.  A failing call with re-used buffers is repeated with
// fresh ones: only if the verdict differs the signature names the re-use.
func twoCalls(cs *fw.Case, routine string, t elemT, fine, coarse string, inputs []*la.Mat, inSitu bool,
	call func(A *la.Mat, idx int, fresh bool) (v verdict, optsFull, optsMiddle string)) {
	n := 1
	if inSitu {
		n = 2
	}
	var kept []any
	var keptSnap [][]float64
	replaced := ""
	for k := 0; k < n; k++ {
		A := inputs[k]
		if k == 1 && inSitu && replaceHook != nil && reuseMode != "same" && kept != nil {
			// the caller keeps the results of the first call and puts nil / new
			// matrices into the result fields of the InSitu struct
			replaceHook(reuseMode)
			replaced = reuseMode
			cs.Cover("insitu-replaced:" + routine + "/" + reuseMode)
		}
		v, of, om := call(A, k, !inSitu)
		if k == 0 && inSitu && v.Kind == "" && v.Skip == "" {
			kept, keptSnap = lastOut, snapOut(lastOut)
		}
		if replaced != "" && v.Kind == "" && v.Skip == "" {
			now := snapOut(kept)
			for i := range now {
				if fmt.Sprint(now[i]) != fmt.Sprint(keptSnap[i]) {
					v = verdict{Kind: "earlier-result-overwritten", Detail: fmt.Sprintf("result object %d of the first call changed during the second call although the caller had set the result fields of the InSitu struct to %s", i, map[string]string{"nil": "nil", "new": "new matrices"}[replaced]),
						Wit: map[string]any{"first result before": keptSnap[i], "first result after": now[i]}}
					break
				}
			}
			cs.Cover("judged-replaced:" + routine)
		}
		if vx.on {
			cs.Cover("view:" + routine + "/input=" + vx.inputKind)
			if k == 0 && inSitu {
				for name, kind := range vx.kinds {
					cs.Cover("view:" + routine + "/" + name + "=" + kind)
				}
			}
			if s := viewComplaint(); s != "" && v.Kind == "" && v.Skip == "" {
				v = verdict{Kind: "parent-outside-view-modified", Detail: s, Wit: map[string]any{"guard": s}}
			}
			if v.Skip == "" {
				cs.Cover("judged-views:" + routine)
			}
		}
		class := coarse
		if A.R == 1 && A.C == 1 && coarse != "unrequested-Eigenvectors-buffer" {
			class = "1x1"
		}
		if inSitu {
			of += "+InSitu"
			cs.Cover(fmt.Sprintf("insitu:%s/%s", routine, []string{"first-use", "reused"}[k]))
		}
		if v.Kind != "" && (inSitu || vx.on) {
			// control: the same input with fresh, owning operands
			vx.suspended = true
			v2, _, _ := call(A, k, true)
			vx.suspended = false
			vx.inGuards = nil
			switch {
			case v2.Kind == v.Kind:
				if inSitu {
					of = of[:len(of)-len("+InSitu")]
				}
			case vx.on:
				class += ",views"
				if v.Wit == nil {
					v.Wit = map[string]any{}
				}
				v.Wit["views"] = map[string]any{"input": vx.inputKind, "InSitu": vx.kinds}
			case replaced != "":
				class += ",InSitu-result-buffers-replaced"
			default:
				class += []string{",InSitu-first-use", ",InSitu-reused"}[k]
			}
		}
		opts := of
		if v.Middle {
			opts = om
		}
		if v.Kind == "error" && iterationCapError(v.Detail) && coarse != "multi-zero-diagonal" && coarse != "hard-blocks" {
			// the routine gave up after its own iteration limit: one root-cause
			// signature per routine (options, type, class stay in detail / witness);
			// the two classes of exact-zero / hard-block inputs keep their own cells
			v.Kind = "iteration-cap-error"
		}
		switch v.Kind {
		case "earlier-result-overwritten":
			// independent of the spectrum, of views and of the ComputeU/V flags
			class = "InSitu-result-buffers-replaced"
			opts = om + "+InSitu"
		case "eigenpairs-misaligned":
			class = "sort-permutation"
		case "eigenvector-buffer-not-written":
			class = "caller-supplied-Eigenvectors"
		case "eigenvector-non-finite(repeated-eigenvalue)":
			class = "repeated-eigenvalue"
		}
		cs.Cover("fine-class:" + routine + "/" + fine)
		for site := range lastSites {
			// which loop the options routed the call to (e.g. Symmetric -> qrAlgorithmSymmetric.outer)
			cs.Cover("route:" + routine + "/" + firstOpt(of) + "->" + site)
		}
		if routine == "qrAlgorithm" || routine == "eigensystem" || routine == "svd" || routine == "msqrt" || routine == "msqrtInv" {
			if v.Skip == "" && A.C > 0 {
				cs.C.CoverMax("max:sweeps-per-row(x100):"+routine, 100*lastTicks/int64(A.C))
			}
		}
		if v.Kind == "iteration-cap-error" {
			cs.Cover("iteration-cap-error:" + routine)
			if v.Wit == nil {
				v.Wit = map[string]any{}
			}
			v.Wit["options"], v.Wit["element type"], v.Wit["input class"] = opts, t.Name, class
			v.Detail = fmt.Sprintf("[%s, %s, %s] %s", opts, t.Name, class, v.Detail)
			reportCap(cs, routine, A, v)
			continue
		}
		if report(cs, routine, opts, t, class, A, v) {
			for kind, r := range v.Ratio {
				cs.C.CoverMax("max:ratio-permille(held):"+routine+":"+kind, int64(1000*r))
			}
			if A.R >= 2 {
				cs.Nontrivial(routine, t.Name, of, fmt.Sprint(A.A))
			}
		}
	}
}

// iterationCapError: the library reports that it stopped at its iteration limit.
func iterationCapError(msg string) bool {
	for _, p := range []string{"failed to converge", "failed to reduce", "did not converge", "no convergence within", "maximum number of iterations"} {
		if strings.Contains(msg, p) {
			return true
		}
	}
	return false
}

// reportCap reports an iteration-cap error under its per-routine root-cause signature.
func reportCap(cs *fw.Case, routine string, A *la.Mat, v verdict) {
	cs.Cover("call:" + routine + "/iteration-cap")
	cs.Cover("judged:" + routine)
	wit := map[string]any{"A": A.Rows()}
	for k, x := range v.Wit {
		wit[k] = x
	}
	cs.Violation(fmt.Sprintf("C05|factor|%s|any|any|admissible-input|iteration-cap-error", routine),
		fmt.Sprintf("%s %dx%d: %s", routine, A.R, A.C, v.Detail), wit)
}

func firstOpt(o string) string {
	for i := 0; i < len(o); i++ {
		if o[i] == '+' {
			return o[:i]
		}
	}
	return o
}

func Run(c *fw.Ctx) {
	/* cholesky: plain, LDL, LDL+ForcePD */
	c.Cases("cholesky", c.N(5400, 120000), func(cs *fw.Case) {
		r := cs.R
		beginViews(cs, 0.3)
		t := cholTypes[cs.Index%len(cholTypes)]
		mode := []string{"plain", "LDL", "LDL+ForcePD"}[(cs.Index/len(cholTypes))%3]
		n := 1 + (cs.Index/(3*len(cholTypes)))%7
		fine := spdClasses[(cs.Index/(21*len(cholTypes)))%len(spdClasses)]
		spd := true
		if mode == "LDL+ForcePD" && r.Chance(0.5) {
			fine = symClasses[r.Intn(len(symClasses))]
			spd = false
		}
		inSitu := r.Chance(0.35)
		kmax := 1e6
		if t.Eps > 1e-10 {
			kmax = 1e3
		}
		inputs := []*la.Mat{image(t, genSym(fine, n, spd, kmax, r)), image(t, genSym(fine, n, spd, kmax, r))}
		for _, a := range inputs {
			a.Symmetrize()
		}
		coarse := coarseSym[fine]
		if !spd {
			coarse = "symmetric-indefinite-or-any"
		}
		is := newCholeskyInSitu(t, n, mode, cs)
		replaceHook = func(m string) {
			is.L = freshM(t, m, n, n)
			if mode != "plain" {
				is.D = freshM(t, m, n, n)
			}
		}
		if sampleWorthy(map[string]any{"A": inputs[0].Rows()}) {
			cs.Sample(map[string]any{"routine": "cholesky", "mode": mode, "type": t.Name, "class": fine, "A": inputs[0].Rows()})
		}
		twoCalls(cs, "cholesky", t, fine, coarse, inputs, inSitu, func(A *la.Mat, idx int, fresh bool) (verdict, string, string) {
			var p *cholesky.InSitu
			if !fresh {
				p = is
			}
			return runCholesky(t, A, mode, p), mode, mode
		})
	})

	/* gramSchmidt */
	c.Cases("gramSchmidt", c.N(1600, 32000), func(cs *fw.Case) {
		r := cs.R
		beginViews(cs, 0.3)
		t := types[cs.Index%2]
		n := 1 + (cs.Index/2)%7
		m := n + []int{0, 0, 1, 3}[r.Intn(4)]
		fineList := []string{"distinct", "repeated", "clustered", "bidiagonal", "diagonal", "identity", "small-int", "graded", "dense-random", "partially-reduced"}
		fine := fineList[(cs.Index/14)%len(fineList)]
		inSitu := r.Chance(0.35)
		inputs := []*la.Mat{genTall(fine, m, n, r), genTall(fine, m, n, r)}
		is := newGramSchmidtInSitu(t, m, n)
		replaceHook = func(md string) { is.Q, is.R = freshM(t, md, m, n), freshM(t, md, m, n) }
		if sampleWorthy(map[string]any{"routine": "gramSchmidt", "type": t.Name, "class": fine, "A": inputs[0].Rows()}) {
			cs.Sample(map[string]any{"routine": "gramSchmidt", "type": t.Name, "class": fine, "A": inputs[0].Rows()})
		}
		twoCalls(cs, "gramSchmidt", t, fine, coarseTall[fine], inputs, inSitu, func(A *la.Mat, idx int, fresh bool) (verdict, string, string) {
			var p *gramSchmidt.InSitu
			if !fresh {
				p = is
			}
			return runGramSchmidt(t, A, p), "default", "default"
		})
	})

	/* householderBidiagonalization */
	c.Cases("bidiag", c.N(2800, 56000), func(cs *fw.Case) {
		r := cs.R
		beginViews(cs, 0.3)
		t := types[cs.Index%2]
		cu, cv := (cs.Index/2)%2 == 0, (cs.Index/4)%2 == 0
		n := 1 + (cs.Index/8)%7
		m := n + []int{0, 0, 1, 3}[r.Intn(4)]
		fine := tallClasses[(cs.Index/56)%len(tallClasses)]
		inSitu := r.Chance(0.35)
		inputs := []*la.Mat{genTall(fine, m, n, r), genTall(fine, m, n, r)}
		is := newBidiagInSitu(t, m, n)
		replaceHook = func(md string) { is.A, is.U, is.V = freshM(t, md, m, n), freshM(t, md, m, m), freshM(t, md, n, n) }
		if sampleWorthy(map[string]any{"routine": "householderBidiagonalization", "type": t.Name, "class": fine, "ComputeU": cu, "ComputeV": cv, "A": inputs[0].Rows()}) {
			cs.Sample(map[string]any{"routine": "householderBidiagonalization", "type": t.Name, "class": fine, "ComputeU": cu, "ComputeV": cv, "A": inputs[0].Rows()})
		}
		twoCalls(cs, "householderBidiagonalization", t, fine, coarseTall[fine], inputs, inSitu, func(A *la.Mat, idx int, fresh bool) (verdict, string, string) {
			var p *householderBidiagonalization.InSitu
			if !fresh {
				p = is
			}
			return runBidiag(t, A, cu, cv, p), join(bstr("ComputeU", cu), bstr("ComputeV", cv)), "any"
		})
	})

	/* householderTridiagonalization */
	c.Cases("tridiag", c.N(1600, 32000), func(cs *fw.Case) {
		r := cs.R
		beginViews(cs, 0.3)
		t := types[cs.Index%2]
		cu := (cs.Index/2)%2 == 0
		n := 1 + (cs.Index/4)%7
		fine := symClasses[(cs.Index/28)%len(symClasses)]
		inSitu := r.Chance(0.35)
		inputs := []*la.Mat{genSym(fine, n, false, 1e6, r), genSym(fine, n, false, 1e6, r)}
		is := newTridiagInSitu(t, n)
		replaceHook = func(md string) { is.A, is.U = freshM(t, md, n, n), freshM(t, md, n, n) }
		if sampleWorthy(map[string]any{"routine": "householderTridiagonalization", "type": t.Name, "class": fine, "ComputeU": cu, "A": inputs[0].Rows()}) {
			cs.Sample(map[string]any{"routine": "householderTridiagonalization", "type": t.Name, "class": fine, "ComputeU": cu, "A": inputs[0].Rows()})
		}
		twoCalls(cs, "householderTridiagonalization", t, fine, coarseSym[fine], inputs, inSitu, func(A *la.Mat, idx int, fresh bool) (verdict, string, string) {
			var p *householderTridiagonalization.InSitu
			if !fresh {
				p = is
			}
			return runTridiag(t, A, cu, p), join(bstr("ComputeU", cu)), "any"
		})
	})

	/* hessenbergReduction */
	c.Cases("hessenberg", c.N(2000, 40000), func(cs *fw.Case) {
		r := cs.R
		beginViews(cs, 0.3)
		t := types[cs.Index%2]
		cu := (cs.Index/2)%2 == 0
		n := 1 + (cs.Index/4)%7
		fine := sqClasses[(cs.Index/28)%(len(sqClasses)-1)]
		setZero := r.Chance(0.7)
		inSitu := r.Chance(0.35)
		in1, in2 := genSquare(fine, n, r), genSquare(fine, n, r)
		is := newHessenbergInSitu(t, n)
		replaceHook = func(md string) { is.H, is.U = freshM(t, md, n, n), freshM(t, md, n, n) }
		if sampleWorthy(map[string]any{"routine": "hessenbergReduction", "type": t.Name, "class": fine, "ComputeU": cu, "SetZero": setZero, "A": in1.A.Rows()}) {
			cs.Sample(map[string]any{"routine": "hessenbergReduction", "type": t.Name, "class": fine, "ComputeU": cu, "SetZero": setZero, "A": in1.A.Rows()})
		}
		twoCalls(cs, "hessenbergReduction", t, fine, coarseSq[fine], []*la.Mat{in1.A, in2.A}, inSitu, func(A *la.Mat, idx int, fresh bool) (verdict, string, string) {
			var p *hessenbergReduction.InSitu
			if !fresh {
				p = is
			}
			sz := "SetZero=" + fmt.Sprint(setZero)
			return runHessenberg(t, A, cu, setZero, p), join(bstr("ComputeU", cu), sz), sz
		})
	})

	/* qrAlgorithm (Francis / symmetric) */
	c.Cases("qrAlgorithm", c.N(5600, 120000), func(cs *fw.Case) {
		r := cs.R
		beginViews(cs, 0.3)
		t := types[cs.Index%2]
		o := qrOpts{CU: (cs.Index/2)%2 == 0, Sym: (cs.Index/4)%3 == 0}
		n := 1 + (cs.Index/12)%7
		o.Eps = []float64{0, 2.2e-16, 2.2e-16, 1e-12}[r.Intn(4)]
		inSitu := r.Chance(0.3)
		var ins [2]sqInput
		var fine, coarse string
		if o.Sym {
			fine = symClasses[(cs.Index/84)%len(symClasses)]
			coarse = coarseSym[fine]
			for k := range ins {
				ins[k] = sqInput{A: genSym(fine, n, false, 1e6, r), Class: fine}
			}
		} else {
			fine = sqClasses[(cs.Index/84)%len(sqClasses)]
			coarse = coarseSq[fine]
			if fine == "rot2x2" {
				n = 2
			}
			for k := range ins {
				ins[k] = genSquare(fine, n, r)
			}
		}
		is := newQRInSitu(t, n)
		replaceHook = func(md string) { is.H, is.U = freshM(t, md, n, n), freshM(t, md, n, n) }
		cs.Cover("epsilon:qrAlgorithm/" + epsLabel(o.Eps))
		if sampleWorthy(map[string]any{"routine": "qrAlgorithm", "type": t.Name, "class": fine, "opts": o.String(), "epsilon": epsLabel(o.Eps), "A": ins[0].A.Rows()}) {
			cs.Sample(map[string]any{"routine": "qrAlgorithm", "type": t.Name, "class": fine, "opts": o.String(), "epsilon": epsLabel(o.Eps), "A": ins[0].A.Rows()})
		}
		twoCalls(cs, "qrAlgorithm", t, fine, coarse, []*la.Mat{ins[0].A, ins[1].A}, inSitu, func(A *la.Mat, idx int, fresh bool) (verdict, string, string) {
			var p *qrAlgorithm.InSitu
			if !fresh {
				p = is
			}
			om := o
			om.CU = false
			return runQR(t, ins[idx], o, p), o.String(), om.String()
		})
	})

	/* eigensystem */
	c.Cases("eigensystem", c.N(5600, 120000), func(cs *fw.Case) {
		r := cs.R
		beginViews(cs, 0.3)
		t := types[cs.Index%2]
		o := eigOpts{Vec: (cs.Index/2)%4 != 0, Sym: (cs.Index/8)%3 == 0}
		n := 1 + (cs.Index/24)%7
		o.Eps = []float64{0, 2.2e-16, 2.2e-16, 1e-12}[r.Intn(4)]
		inSitu := r.Chance(0.3)
		var ins [2]sqInput
		var fine, coarse string
		if o.Sym {
			fine = symClasses[(cs.Index/168)%len(symClasses)]
			coarse = coarseSym[fine]
			for k := range ins {
				ins[k] = sqInput{A: genSym(fine, n, false, 1e6, r), Class: fine}
			}
		} else {
			fine = sqClasses[(cs.Index/168)%len(sqClasses)]
			coarse = coarseSq[fine]
			if fine == "rot2x2" {
				n = 2
			}
			for k := range ins {
				ins[k] = genSquare(fine, n, r)
			}
		}
		is := newEigensystemInSitu(t, n)
		replaceHook = func(md string) {
			is.Eigenvalues = freshV(t, md, n)
			if o.Vec {
				is.Eigenvectors = freshM(t, md, n, n)
			} else {
				is.Eigenvectors = nil
			}
		}
		if vx.on && !o.Vec && inSitu {
			// an eigenvector buffer is supplied although no eigenvectors are requested
			coarse = "unrequested-Eigenvectors-buffer"
		}
		cs.Cover("epsilon:eigensystem/" + epsLabel(o.Eps))
		if sampleWorthy(map[string]any{"routine": "eigensystem", "type": t.Name, "class": fine, "opts": o.String(), "epsilon": epsLabel(o.Eps), "A": ins[0].A.Rows()}) {
			cs.Sample(map[string]any{"routine": "eigensystem", "type": t.Name, "class": fine, "opts": o.String(), "epsilon": epsLabel(o.Eps), "A": ins[0].A.Rows()})
		}
		twoCalls(cs, "eigensystem", t, fine, coarse, []*la.Mat{ins[0].A, ins[1].A}, inSitu, func(A *la.Mat, idx int, fresh bool) (verdict, string, string) {
			var p *eigensystem.InSitu
			if !fresh {
				p = is
			}
			om := o
			om.Vec = false
			return runEigensystem(t, ins[idx], o, p), o.String(), om.String()
		})
	})

	/* svd */
	c.Cases("svd", c.N(4000, 80000), func(cs *fw.Case) {
		r := cs.R
		beginViews(cs, 0.3)
		t := types[cs.Index%2]
		cu, cv := (cs.Index/2)%2 == 0, (cs.Index/4)%2 == 0
		n := 1 + (cs.Index/8)%7
		m := n + []int{0, 0, 1, 3}[r.Intn(4)]
		fine := tallClasses[(cs.Index/56)%len(tallClasses)]
		epsOpt := []float64{0, 0, 1e-12}[r.Intn(3)]
		inSitu := r.Chance(0.3)
		inputs := []*la.Mat{genTall(fine, m, n, r), genTall(fine, m, n, r)}
		is := newSVDInSitu(t, m, n)
		replaceHook = func(md string) { is.A, is.U, is.V = freshM(t, md, m, n), freshM(t, md, m, m), freshM(t, md, n, n) }
		es := epsLabel(epsOpt)
		cs.Cover("epsilon:svd/" + es)
		if sampleWorthy(map[string]any{"routine": "svd", "type": t.Name, "class": fine, "ComputeU": cu, "ComputeV": cv, "epsilon": es, "A": inputs[0].Rows()}) {
			cs.Sample(map[string]any{"routine": "svd", "type": t.Name, "class": fine, "ComputeU": cu, "ComputeV": cv, "epsilon": es, "A": inputs[0].Rows()})
		}
		twoCalls(cs, "svd", t, fine, coarseTall[fine], inputs, inSitu, func(A *la.Mat, idx int, fresh bool) (verdict, string, string) {
			var p *svd.InSitu
			if !fresh {
				p = is
			}
			return runSVD(t, A, cu, cv, epsOpt, p), join(bstr("ComputeU", cu), bstr("ComputeV", cv)), "any"
		})
	})

	/* msqrt, msqrtInv */
	c.Cases("msqrt", c.N(1600, 32000), func(cs *fw.Case) {
		r := cs.R
		beginViews(cs, 0.3)
		t := types[cs.Index%2]
		inverse := (cs.Index/2)%2 == 1
		n := 1 + (cs.Index/4)%6
		fine := spdClasses[(cs.Index/24)%len(spdClasses)]
		A := genSym(fine, n, true, 1e3, r)
		routine := "msqrt"
		if inverse {
			routine = "msqrtInv"
		}
		if sampleWorthy(map[string]any{"routine": routine, "type": t.Name, "class": fine, "A": A.Rows()}) {
			cs.Sample(map[string]any{"routine": routine, "type": t.Name, "class": fine, "A": A.Rows()})
		}
		twoCalls(cs, routine, t, fine, "spd", []*la.Mat{A}, false, func(A *la.Mat, idx int, fresh bool) (verdict, string, string) {
			return runMsqrt(t, A, inverse), "default", "default"
		})
	})
}

// sampleWorthy: write out only cases whose operand has at least three rows
// (the evidence keeps the first two samples per case list).
func sampleWorthy(v map[string]any) bool {
	for _, k := range []string{"A", "R"} {
		if rows, ok := v[k].([][]float64); ok {
			return len(rows) >= 3
		}
	}
	return true
}
