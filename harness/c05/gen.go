package c05

import (
	"math"

	"verifharness/c04/la"
	"verifharness/internal/prng"
)

/* input generators: every generated matrix comes with its class label and,
 * where the construction determines them, the eigenvalues
 * -------------------------------------------------------------------------- */

type ev struct{ Re, Im float64 }

// sqInput is a square input of the non-symmetric routines.
type sqInput struct {
	A      *la.Mat
	Class  string
	Eig    []ev    // all n eigenvalues (complex pairs expanded), nil when not known by construction
	KappaX float64 // condition number of the eigenvector basis used in the construction (1 = normal matrix)
	Pairs  int     // number of complex-conjugate pairs (when Eig != nil)
	Clean  bool    // real eigenvalues pairwise distinct and separated from every complex pair's real part (|gap| >= 0.05*scale)
}

var sqClasses = []string{"distinct-real", "repeated-real", "clustered-real", "complex-pairs", "mixed", "zero-eig", "nonnormal", "nonnormal-complex",
	"identity", "diagonal", "triangular", "hessenberg", "small-int", "graded", "zero-row-col", "partially-reduced", "block-diagonal", "hard-blocks", "rot2x2"}

func distinctReals(n int, r *prng.Rand) []float64 {
	// well separated, both signs, |lambda| in [0.3, 3]
	l := make([]float64, n)
	for i := range l {
	again:
		v := r.Uniform(0.3, 3)
		if r.Bool() {
			v = -v
		}
		for j := 0; j < i; j++ {
			if math.Abs(math.Abs(v)-math.Abs(l[j])) < 0.08 {
				goto again
			}
		}
		l[i] = v
	}
	return l
}

func blockDiag(eigs []ev) *la.Mat {
	n := len(eigs)
	d := la.New(n, n)
	for i := 0; i < n; i++ {
		if eigs[i].Im != 0 {
			d.Set(i, i, eigs[i].Re)
			d.Set(i+1, i+1, eigs[i].Re)
			d.Set(i, i+1, eigs[i].Im)
			d.Set(i+1, i, -eigs[i].Im)
			i++
		} else {
			d.Set(i, i, eigs[i].Re)
		}
	}
	return d
}

// spectrum draws n eigenvalues with npairs complex pairs (laid out as adjacent
// entries (re,+im),(re,-im)) and real eigenvalues from reals.
func layout(reals []float64, pairs []ev, r *prng.Rand) []ev {
	// random interleaving of 1x1 and 2x2 blocks
	var out []ev
	i, j := 0, 0
	for i < len(reals) || j < len(pairs) {
		if j >= len(pairs) || (i < len(reals) && r.Bool()) {
			out = append(out, ev{reals[i], 0})
			i++
		} else {
			out = append(out, ev{pairs[j].Re, pairs[j].Im}, ev{pairs[j].Re, -pairs[j].Im})
			j++
		}
	}
	return out
}

// cleanSpectrum: the real eigenvalues are pairwise separated (>= 0.04) and no
// complex pair is close to the real axis, so that the number of 2x2 blocks of
// a real Schur form is determined by the spectrum.
func cleanSpectrum(e []ev) bool {
	for i := range e {
		if e[i].Im != 0 {
			if math.Abs(e[i].Im) < 0.2 {
				return false
			}
			continue
		}
		for j := range e {
			if i != j && e[j].Im == 0 && math.Abs(e[i].Re-e[j].Re) < 0.04 {
				return false
			}
		}
	}
	return true
}

func genSquare(class string, n int, r *prng.Rand) sqInput {
	in := sqInput{Class: class, KappaX: 1}
	mk := func(e []ev, nonnormal bool) {
		d := blockDiag(e)
		if !nonnormal {
			q := la.RandOrth(n, r)
			in.A = la.Mul(la.Mul(q, d), q.T())
		} else {
			// X = Q1 diag(s) Q2^T with s in [1, kx]: A = X D X^-1
			kx := r.LogUniform(2, 30)
			q1, q2 := la.RandOrth(n, r), la.RandOrth(n, r)
			s := make([]float64, n)
			si := make([]float64, n)
			for i := range s {
				s[i] = r.LogUniform(1, kx)
				si[i] = 1 / s[i]
			}
			if n > 1 {
				s[0], si[0] = kx, 1/kx
				s[n-1], si[n-1] = 1, 1
			} else {
				kx = 1
			}
			x := la.Mul(la.Mul(q1, la.Diag(s)), q2.T())
			xi := la.Mul(la.Mul(q2, la.Diag(si)), q1.T())
			in.A = la.Mul(la.Mul(x, d), xi)
			in.KappaX = kx
		}
		in.Eig = e
		for _, v := range e {
			if v.Im > 0 {
				in.Pairs++
			}
		}
		in.Clean = cleanSpectrum(e)
	}
	pairs := func(k int) []ev {
		p := make([]ev, k)
		for i := range p {
			p[i] = ev{r.Uniform(-2, 2), r.Uniform(0.3, 2)}
		}
		return p
	}
	switch class {
	case "distinct-real":
		mk(layout(distinctReals(n, r), nil, r), false)
	case "repeated-real":
		l := distinctReals(n, r)
		for i := 1; i < n; i++ {
			if r.Chance(0.5) {
				l[i] = l[i-1]
			}
		}
		if n > 1 {
			l[n-1] = l[0]
		}
		mk(layout(l, nil, r), false)
	case "clustered-real":
		l := distinctReals(n, r)
		for i := 1; i < n; i++ {
			if r.Chance(0.5) {
				l[i] = l[i-1] * (1 + 1e-8)
			}
		}
		if n > 1 {
			l[n-1] = l[0] * (1 - 1e-8)
		}
		mk(layout(l, nil, r), false)
	case "complex-pairs":
		k := n / 2
		mk(layout(distinctReals(n-2*k, r), pairs(k), r), false)
	case "mixed":
		k := 0
		if n >= 2 {
			k = 1 + r.Intn(n/2)
		}
		if 2*k == n && n > 2 {
			k--
		}
		mk(layout(distinctReals(n-2*k, r), pairs(k), r), false)
	case "zero-eig":
		l := distinctReals(n, r)
		l[r.Intn(n)] = 0
		if n > 2 && r.Bool() {
			l[r.Intn(n)] = 0
		}
		mk(layout(l, nil, r), false)
	case "nonnormal":
		mk(layout(distinctReals(n, r), nil, r), true)
	case "nonnormal-complex":
		k := 0
		if n >= 2 {
			k = 1 + r.Intn(n/2)
		}
		mk(layout(distinctReals(n-2*k, r), pairs(k), r), true)
	case "identity":
		in.A = la.Identity(n)
		e := make([]ev, n)
		for i := range e {
			e[i] = ev{1, 0}
		}
		in.Eig = e
	case "diagonal":
		l := distinctReals(n, r)
		in.A = la.Diag(l)
		mk2 := make([]ev, n)
		for i := range l {
			mk2[i] = ev{l[i], 0}
		}
		in.Eig = mk2
		in.Clean = true
	case "triangular":
		l := distinctReals(n, r)
		a := la.Diag(l)
		for i := 0; i < n; i++ {
			for j := i + 1; j < n; j++ {
				a.Set(i, j, r.Uniform(-1, 1))
			}
		}
		in.A = a
		in.Eig = make([]ev, n)
		for i := range l {
			in.Eig[i] = ev{l[i], 0}
		}
		in.KappaX = math.Inf(1) // eigenvalues known, their conditioning is not: no multiset comparison
		in.Clean = true
	case "hessenberg":
		a := la.New(n, n)
		for i := 0; i < n; i++ {
			for j := 0; j < n; j++ {
				if i <= j+1 {
					a.Set(i, j, r.Uniform(-1, 1))
				}
			}
		}
		in.A = a
	case "small-int":
		a := la.New(n, n)
		for i := range a.A {
			a.A[i] = float64(r.Range(-3, 3))
		}
		in.A = a
	case "graded":
		b := la.New(n, n)
		for i := range b.A {
			b.A[i] = r.Norm()
		}
		k := r.Range(1, 3)
		for i := 0; i < n; i++ {
			for j := 0; j < n; j++ {
				b.Set(i, j, b.At(i, j)*math.Pow(10, float64(k)*(float64(i)-float64(j))/math.Max(1, float64(n-1))))
			}
		}
		in.A = b
	case "zero-row-col":
		a := la.New(n, n)
		for i := range a.A {
			a.A[i] = r.Norm()
		}
		z := r.Intn(n)
		for k := 0; k < n; k++ {
			if r.Bool() {
				a.Set(z, k, 0)
			} else {
				a.Set(k, z, 0)
			}
		}
		if r.Bool() {
			for k := 0; k < n; k++ {
				a.Set(z, k, 0)
				a.Set(k, z, 0)
			}
		}
		in.A = a
	case "partially-reduced":
		// a random subset of the columns is already in reduced form (zero below
		// the sub-diagonal, some also below the diagonal) next to dense columns
		a := la.New(n, n)
		for i := range a.A {
			a.A[i] = r.Norm()
		}
		for j := 0; j < n; j++ {
			if r.Chance(0.5) {
				from := j + 2
				if r.Chance(0.3) {
					from = j + 1
				}
				for i := from; i < n; i++ {
					a.Set(i, j, 0)
				}
			}
		}
		in.A = a
	case "block-diagonal":
		in.A = blockDiagonal(n, false, r)
	case "hard-blocks":
		in.A = hardBlocks(n, r)
	case "rot2x2":
		// directed 2x2 witnesses (n is ignored): rotation-like blocks with real and complex eigenvalues
		w := [][]float64{{1, -2, -3, 1}, {0, 1, -1, 0}, {1, 2, 3, 4}, {2, 1, 1, 2}, {0, 1, 1, 0}, {1, 1, 0, 1}, {1, -2, 3, 1}, {0, 0, 0, 0}}
		v := w[r.Intn(len(w))]
		in.A = la.FromRows([][]float64{{v[0], v[1]}, {v[2], v[3]}})
	}
	return in
}

/* symmetric inputs
 * -------------------------------------------------------------------------- */

var symClasses = []string{"distinct", "repeated", "clustered", "zero-eig", "indefinite", "identity", "diagonal", "tridiagonal", "small-int", "graded", "zero-row-col", "partially-reduced", "block-diagonal"}
var spdClasses = []string{"distinct", "repeated", "clustered", "identity", "diagonal", "tridiagonal", "small-int", "graded", "gram", "early-offdiag"}

// genSym draws a symmetric matrix; spd restricts to positive definite ones
// with kappa_2 <= kmax.
func genSym(class string, n int, spd bool, kmax float64, r *prng.Rand) *la.Mat {
	pos := func() []float64 {
		l := make([]float64, n)
		hi := r.LogUniform(0.5, 5)
		k := r.LogUniform(1, kmax)
		for i := range l {
			l[i] = hi / math.Pow(k, r.Float64())
		}
		l[0] = hi
		if n > 1 {
			l[n-1] = hi / k
		}
		return l
	}
	anySign := func() []float64 {
		if spd {
			return pos()
		}
		return distinctReals(n, r)
	}
	switch class {
	case "distinct":
		return la.SymWithSpectrum(anySign(), r)
	case "repeated":
		l := anySign()
		for i := 1; i < n; i++ {
			if r.Chance(0.5) {
				l[i] = l[i-1]
			}
		}
		return la.SymWithSpectrum(l, r)
	case "clustered":
		l := anySign()
		for i := 1; i < n; i++ {
			if r.Chance(0.5) {
				l[i] = l[i-1] * (1 + 1e-8)
			}
		}
		return la.SymWithSpectrum(l, r)
	case "zero-eig":
		l := distinctReals(n, r)
		l[r.Intn(n)] = 0
		return la.SymWithSpectrum(l, r)
	case "indefinite":
		l := distinctReals(n, r)
		l[0] = -math.Abs(l[0])
		if n > 1 {
			l[1] = math.Abs(l[1])
		}
		return la.SymWithSpectrum(l, r)
	case "identity":
		return la.Identity(n)
	case "diagonal":
		return la.Diag(anySign())
	case "tridiagonal":
		a := la.New(n, n)
		for i := 0; i < n; i++ {
			a.Set(i, i, r.Uniform(2.5, 4))
			if !spd && r.Bool() {
				a.Set(i, i, -a.At(i, i))
			}
			if i+1 < n {
				v := r.Uniform(-1, 1)
				a.Set(i, i+1, v)
				a.Set(i+1, i, v)
			}
		}
		return a
	case "small-int":
		b := la.New(n, n)
		for i := range b.A {
			b.A[i] = float64(r.Range(-3, 3))
		}
		if spd {
			a := la.Mul(b.T(), b)
			for i := 0; i < n; i++ {
				a.Set(i, i, a.At(i, i)+float64(r.Range(1, 3)))
			}
			return a
		}
		b.Symmetrize()
		return b
	case "graded":
		// D A D with D = diag(10^(-k i/(n-1)))
		base := genSym("distinct", n, spd, math.Min(kmax, 100), r)
		k := float64(r.Range(1, 2))
		if spd && kmax < 1e4 {
			k = 0.5
		}
		for i := 0; i < n; i++ {
			for j := 0; j < n; j++ {
				di := math.Pow(10, -k*float64(i)/math.Max(1, float64(n-1)))
				dj := math.Pow(10, -k*float64(j)/math.Max(1, float64(n-1)))
				base.Set(i, j, base.At(i, j)*di*dj)
			}
		}
		base.Symmetrize()
		return base
	case "early-offdiag":
		// comfortably positive definite, but an early column with large
		// off-diagonal entries is followed by small pivots: A = L D L^T with a
		// big d_0, big l_i0 and small later d_j (directed witness
		// [[4,2,0],[2,1.5,0],[0,0,1]] embedded now and then)
		if n >= 3 && r.Chance(0.15) {
			a := la.Identity(n)
			a.Set(0, 0, 4)
			a.Set(0, 1, 2)
			a.Set(1, 0, 2)
			a.Set(1, 1, 1.5)
			return a
		}
		l := la.Identity(n)
		d := make([]float64, n)
		lead := r.Intn((n + 1) / 2)
		for j := 0; j < n; j++ {
			d[j] = r.Uniform(0.3, 1)
			if j <= lead {
				d[j] = r.Uniform(2, 6)
			}
			for i := j + 1; i < n; i++ {
				switch {
				case j <= lead:
					l.Set(i, j, r.Uniform(0.3, 0.7)*[]float64{1, -1}[r.Intn(2)])
				case r.Chance(0.3):
					l.Set(i, j, r.Uniform(-0.2, 0.2))
				}
			}
		}
		a := la.Mul(la.Mul(l, la.Diag(d)), l.T())
		a.Symmetrize()
		return a
	case "gram":
		b := la.New(n, n)
		for i := range b.A {
			b.A[i] = r.Norm()
		}
		a := la.Mul(b.T(), b)
		lam := r.LogUniform(1e-2, 1) * float64(n)
		for i := 0; i < n; i++ {
			a.Set(i, i, a.At(i, i)+lam)
		}
		a.Symmetrize()
		return a
	case "partially-reduced":
		// symmetric; a random subset of the columns (and rows) is already
		// tridiagonal-reduced, the others are dense
		a := la.New(n, n)
		for i := 0; i < n; i++ {
			for j := 0; j <= i; j++ {
				a.Set(i, j, r.Norm())
			}
		}
		for k := 0; k < n; k++ {
			if r.Chance(0.5) {
				for i := k + 2; i < n; i++ {
					a.Set(i, k, 0)
				}
				if r.Chance(0.3) && k+1 < n && r.Bool() {
					a.Set(k+1, k, -a.At(k+1, k))
				}
			}
		}
		a.Symmetrize()
		return a
	case "block-diagonal":
		return blockDiagonal(n, true, r)
	default: // zero-row-col
		a := la.SymWithSpectrum(distinctReals(n, r), r)
		z := r.Intn(n)
		for k := 0; k < n; k++ {
			a.Set(z, k, 0)
			a.Set(k, z, 0)
		}
		return a
	}
}

/* tall inputs (m >= n)
 * -------------------------------------------------------------------------- */

var tallClasses = []string{"distinct", "repeated", "clustered", "rank-deficient", "bidiagonal", "bidiagonal-zero-diag", "diagonal", "identity", "zero-column", "zero-row", "small-int", "graded", "dense-random", "partially-reduced", "multi-zero-diagonal"}

func genTall(class string, m, n int, r *prng.Rand) *la.Mat {
	sv := func() []float64 {
		s := make([]float64, n)
		hi := r.LogUniform(0.5, 5)
		k := r.LogUniform(1, 1e4)
		for i := range s {
			s[i] = hi / math.Pow(k, r.Float64())
		}
		s[0] = hi
		return s
	}
	switch class {
	case "distinct":
		return la.WithSingularValues(m, n, sv(), r)
	case "repeated":
		s := sv()
		for i := 1; i < n; i++ {
			if r.Chance(0.6) {
				s[i] = s[i-1]
			}
		}
		return la.WithSingularValues(m, n, s, r)
	case "clustered":
		s := sv()
		for i := 1; i < n; i++ {
			if r.Chance(0.6) {
				s[i] = s[i-1] * (1 + 1e-8)
			}
		}
		return la.WithSingularValues(m, n, s, r)
	case "rank-deficient":
		s := sv()
		s[r.Intn(n)] = 0
		if n > 2 && r.Bool() {
			s[r.Intn(n)] = 0
		}
		return la.WithSingularValues(m, n, s, r)
	case "bidiagonal", "bidiagonal-zero-diag":
		a := la.New(m, n)
		for i := 0; i < n; i++ {
			a.Set(i, i, r.Uniform(0.5, 3)*[]float64{1, -1}[r.Intn(2)])
			if i+1 < n {
				a.Set(i, i+1, r.Uniform(-1.5, 1.5))
			}
		}
		if class == "bidiagonal-zero-diag" {
			z := r.Intn(n)
			a.Set(z, z, 0)
		}
		return a
	case "diagonal":
		a := la.New(m, n)
		for i := 0; i < n; i++ {
			a.Set(i, i, r.Uniform(0.2, 3)*[]float64{1, -1}[r.Intn(2)])
		}
		return a
	case "identity":
		a := la.New(m, n)
		for i := 0; i < n; i++ {
			a.Set(i, i, 1)
		}
		return a
	case "zero-column", "zero-row":
		a := la.New(m, n)
		for i := range a.A {
			a.A[i] = r.Norm()
		}
		if class == "zero-column" {
			z := r.Intn(n)
			for k := 0; k < m; k++ {
				a.Set(k, z, 0)
			}
		} else {
			z := r.Intn(m)
			for k := 0; k < n; k++ {
				a.Set(z, k, 0)
			}
		}
		return a
	case "small-int":
		a := la.New(m, n)
		for i := range a.A {
			a.A[i] = float64(r.Range(-3, 3))
		}
		return a
	case "graded":
		a := la.WithSingularValues(m, n, sv(), r)
		k := float64(r.Range(1, 3))
		for i := 0; i < m; i++ {
			for j := 0; j < n; j++ {
				a.Set(i, j, a.At(i, j)*math.Pow(10, -k*float64(j)/math.Max(1, float64(n-1))))
			}
		}
		return a
	case "multi-zero-diagonal":
		// bidiagonal or upper triangular, SEVERAL exact zeros on the diagonal,
		// exact zero rows / columns incl. trailing ones (rank-deficient by construction)
		a := la.New(m, n)
		tri := r.Chance(0.3)
		for i := 0; i < n; i++ {
			a.Set(i, i, float64(r.Range(1, 3))*[]float64{1, -1}[r.Intn(2)])
			if i+1 < n {
				a.Set(i, i+1, float64(r.Range(1, 2)))
			}
			if tri {
				for j := i + 2; j < n; j++ {
					a.Set(i, j, r.Uniform(-1, 1))
				}
			}
		}
		nz := 1 + r.Intn(3)
		for k := 0; k < nz; k++ {
			z := r.Intn(n)
			a.Set(z, z, 0)
		}
		if r.Chance(0.5) { // trailing zero row / column
			z := n - 1
			for j := 0; j < n; j++ {
				a.Set(z, j, 0)
			}
			if r.Bool() {
				for i := 0; i < m; i++ {
					a.Set(i, z, 0)
				}
			}
		}
		if r.Chance(0.4) { // a zero super-diagonal entry next to a zero diagonal (already deflated zero singular value)
			z := r.Intn(n)
			a.Set(z, z, 0)
			if z+1 < n {
				a.Set(z, z+1, 0)
			}
			if z > 0 && r.Bool() {
				a.Set(z-1, z, 0)
			}
		}
		if r.Chance(0.3) {
			z := r.Intn(n)
			for j := 0; j < n; j++ {
				a.Set(z, j, 0)
			}
		}
		return a
	case "partially-reduced":
		// a random subset of the columns is already reduced (zero below the
		// diagonal) and a random subset of the rows (zero right of the
		// super-diagonal), next to dense columns / rows
		a := la.New(m, n)
		for i := range a.A {
			a.A[i] = r.Norm()
		}
		forced := 0
		if n >= 2 {
			forced = 1 + r.Intn(n-1) // at least one reduced column j >= 1
		}
		for j := 0; j < n; j++ {
			if r.Chance(0.45) || j == forced && n >= 2 {
				for i := j + 1; i < m; i++ {
					a.Set(i, j, 0)
				}
			}
		}
		for i := 0; i < n; i++ {
			if r.Chance(0.35) {
				for j := i + 2; j < n; j++ {
					a.Set(i, j, 0)
				}
			}
		}
		return a
	default:
		a := la.New(m, n)
		for i := range a.A {
			a.A[i] = r.Norm()
		}
		return a
	}
}

// blockDiagonal: direct sum of dense blocks of random sizes 1..3.
func blockDiagonal(n int, symmetric bool, r *prng.Rand) *la.Mat {
	a := la.New(n, n)
	for k := 0; k < n; {
		b := 1 + r.Intn(3)
		if k+b > n {
			b = n - k
		}
		for i := k; i < k+b; i++ {
			for j := k; j < k+b; j++ {
				a.Set(i, j, r.Norm())
			}
		}
		k += b
	}
	if symmetric {
		a.Symmetrize()
	}
	return a
}

// hardBlocks: block-diagonal / block-upper-triangular matrix whose diagonal
// blocks are drawn from a catalogue of small blocks that are hard for shifted
// QR iterations: cyclic permutation matrices (size 2..5, both orientations),
// companion matrices of x^k + 1, nilpotent Jordan blocks, rotation blocks,
// exact zeros; placed at every position.
func hardBlocks(n int, r *prng.Rand) *la.Mat {
	a := la.New(n, n)
	start := make([]int, n) // first index of the block a row belongs to
	for k := 0; k < n; {
		b := 1 + r.Intn(5)
		if k+b > n {
			b = n - k
		}
		kind := r.Intn(6)
		switch {
		case b == 1:
			a.Set(k, k, []float64{0, 0, 1, -1, 2}[r.Intn(5)])
		case kind == 0: // cyclic permutation
			for i := 1; i < b; i++ {
				a.Set(k+i, k+i-1, 1)
			}
			a.Set(k, k+b-1, 1)
		case kind == 1: // companion of x^b + 1
			for i := 1; i < b; i++ {
				a.Set(k+i, k+i-1, 1)
			}
			a.Set(k, k+b-1, -1)
		case kind == 2: // transposed cyclic permutation
			for i := 1; i < b; i++ {
				a.Set(k+i-1, k+i, 1)
			}
			a.Set(k+b-1, k, 1)
		case kind == 3: // nilpotent Jordan block
			for i := 1; i < b; i++ {
				a.Set(k+i-1, k+i, 1)
			}
		case kind == 4: // rotation blocks
			for i := 0; i+1 < b; i += 2 {
				c, sn := 0.0, 1.0
				if th := []float64{0.5, 1, 0, 2}[r.Intn(4)]; th != 0 {
					c, sn = math.Cos(th), math.Sin(th)
				}
				a.Set(k+i, k+i, c)
				a.Set(k+i, k+i+1, -sn)
				a.Set(k+i+1, k+i, sn)
				a.Set(k+i+1, k+i+1, c)
			}
		default: // exact zero block
		}
		for i := k; i < k+b; i++ {
			start[i] = k
		}
		k += b
	}
	if r.Chance(0.4) { // block upper triangular: couple a block with later ones
		for i := 0; i < n; i++ {
			for j := i + 1; j < n; j++ {
				if start[j] > i && start[j] != start[i] && r.Chance(0.3) {
					a.Set(i, j, float64(r.Range(-2, 2)))
				}
			}
		}
	}
	return a
}
