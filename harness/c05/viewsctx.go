package c05

import (
	ad "github.com/pbenner/autodiff"
	"github.com/pbenner/autodiff/algorithm/cholesky"
	"github.com/pbenner/autodiff/algorithm/eigensystem"
	"github.com/pbenner/autodiff/algorithm/gramSchmidt"
	"github.com/pbenner/autodiff/algorithm/hessenbergReduction"
	"github.com/pbenner/autodiff/algorithm/householderBidiagonalization"
	"github.com/pbenner/autodiff/algorithm/householderTridiagonalization"
	"github.com/pbenner/autodiff/algorithm/qrAlgorithm"
	"github.com/pbenner/autodiff/algorithm/svd"

	"verifharness/c04/la"
	"verifharness/c04/views"
	"verifharness/internal/fw"
	"verifharness/internal/prng"
)

/* inputs and caller-supplied InSitu buffers that are views of a larger parent
 * (Slice windows with offsets, transposed views).  The decision is drawn from a
 * stream of its own, so that the operands of a case do not depend on it.
 * -------------------------------------------------------------------------- */

var vx struct {
	on        bool // this case uses views
	suspended bool // control run with owning operands
	r         *prng.Rand
	inputKind string
	kinds     map[string]string
	isGuards  []*views.Guard // guards of the InSitu buffers (live across the calls of a case)
	inGuards  []*views.Guard // guards of the inputs of the current call
}

func beginViews(cs *fw.Case, share float64) {
	r := prng.For(cs.C.Seed, cs.Monitor+".views", cs.Index)
	vx.on = r.Chance(share)
	vx.suspended = false
	vx.r = r
	vx.inputKind = views.PickMatrix(r)
	vx.kinds = map[string]string{}
	vx.isGuards, vx.inGuards = nil, nil
	// how the InSitu struct is re-used for the second call: same buffers, or the
	// caller keeps the first results and sets the result fields to nil / to new matrices
	rr := prng.For(cs.C.Seed, cs.Monitor+".reuse", cs.Index)
	reuseMode = []string{"same", "same", "nil", "new"}[rr.Intn(4)]
	replaceHook = nil
}

// reuseMode and replaceHook (set by the case lists): what the caller does to the
// result fields of the InSitu struct between the two calls of a case.
var reuseMode string
var replaceHook func(mode string)

// fresh returns nil (mode "nil") or a new owning matrix (mode "new").
func freshM(t elemT, mode string, rows, cols int) ad.Matrix {
	if mode == "new" {
		return ad.NullDenseMatrix(t.T, rows, cols)
	}
	return nil
}

func freshV(t elemT, mode string, n int) ad.Vector {
	if mode == "new" {
		return ad.NullDenseVector(t.T, n)
	}
	return nil
}

func viewsActive() bool { return vx.on && !vx.suspended }

// buildInput builds the dense input operand (a view of a parent when the case uses views).
func buildInput(t elemT, m *la.Mat) ad.Matrix {
	kind := "own"
	if viewsActive() {
		kind = vx.inputKind
	}
	v, g := views.Matrix(t.T, m, kind, vx.r, "input")
	if g != nil {
		vx.inGuards = append(vx.inGuards, g)
	}
	return v
}

// bufM returns a caller-supplied matrix buffer (nil when the case does not use views).
func bufM(t elemT, rows, cols int, name string, junk bool) ad.Matrix {
	if !vx.on {
		return nil
	}
	kind := views.PickMatrix(vx.r)
	vx.kinds[name] = kind
	content := la.New(rows, cols)
	if junk {
		content = views.Junk(rows, cols)
	}
	v, g := views.Matrix(t.T, content, kind, vx.r, name)
	if g != nil {
		vx.isGuards = append(vx.isGuards, g)
	}
	return v
}

func bufV(t elemT, n int, name string) ad.Vector {
	if !vx.on {
		return nil
	}
	kind := views.PickVector(vx.r)
	vx.kinds[name] = kind
	x := make([]float64, n)
	for i := range x {
		x[i] = 5 + float64(i)
	}
	v, g := views.Vector(t.T, x, kind, vx.r, name)
	if g != nil {
		vx.isGuards = append(vx.isGuards, g)
	}
	return v
}

// viewComplaint checks every live guard and forgets the per-call ones.
func viewComplaint() string {
	s := views.CheckAll(append(append([]*views.Guard(nil), vx.isGuards...), vx.inGuards...))
	vx.inGuards = nil
	return s
}

/* InSitu structs: empty (the routine allocates) or, in a views case, with every
 * matrix / vector field supplied as a view
 * -------------------------------------------------------------------------- */

func newCholeskyInSitu(t elemT, n int, mode string, cs *fw.Case) *cholesky.InSitu {
	is := &cholesky.InSitu{}
	if vx.on {
		is.L = bufM(t, n, n, "InSitu.L", false)
		if mode != "plain" {
			is.D = bufM(t, n, n, "InSitu.D", true)
		}
	}
	return is
}

func newGramSchmidtInSitu(t elemT, n, m int) *gramSchmidt.InSitu {
	is := &gramSchmidt.InSitu{}
	if vx.on {
		is.Q = bufM(t, n, m, "InSitu.Q", true)
		is.R = bufM(t, n, m, "InSitu.R", false)
	}
	return is
}

func newBidiagInSitu(t elemT, m, n int) *householderBidiagonalization.InSitu {
	is := &householderBidiagonalization.InSitu{}
	if vx.on {
		is.A = bufM(t, m, n, "InSitu.A", true)
		is.U = bufM(t, m, m, "InSitu.U", true)
		is.V = bufM(t, n, n, "InSitu.V", true)
	}
	return is
}

func newTridiagInSitu(t elemT, n int) *householderTridiagonalization.InSitu {
	is := &householderTridiagonalization.InSitu{}
	if vx.on {
		is.A = bufM(t, n, n, "InSitu.A", true)
		is.U = bufM(t, n, n, "InSitu.U", true)
	}
	return is
}

func newHessenbergInSitu(t elemT, n int) *hessenbergReduction.InSitu {
	is := &hessenbergReduction.InSitu{}
	if vx.on {
		is.H = bufM(t, n, n, "InSitu.H", true)
		is.U = bufM(t, n, n, "InSitu.U", true)
	}
	return is
}

func newQRInSitu(t elemT, n int) *qrAlgorithm.InSitu {
	is := &qrAlgorithm.InSitu{}
	if vx.on {
		is.H = bufM(t, n, n, "InSitu.H", true)
		is.U = bufM(t, n, n, "InSitu.U", true)
	}
	return is
}

func newEigensystemInSitu(t elemT, n int) *eigensystem.InSitu {
	is := &eigensystem.InSitu{}
	if vx.on {
		is.Eigenvalues = bufV(t, n, "InSitu.Eigenvalues")
		is.Eigenvectors = bufM(t, n, n, "InSitu.Eigenvectors", true)
	}
	return is
}

func newSVDInSitu(t elemT, m, n int) *svd.InSitu {
	is := &svd.InSitu{}
	if vx.on {
		is.A = bufM(t, m, n, "InSitu.A", true)
		is.U = bufM(t, m, m, "InSitu.U", true)
		is.V = bufM(t, n, n, "InSitu.V", true)
	}
	return is
}
