package c01

import "math"

// Value model used ONLY to steer the program generator into the domains of
// the operations (which operands are admissible for which operation).  It is
// written with Go's math package and two textbook series, never with the
// library under test, so that a case depends on (seed, monitor, index) alone.
// Its accuracy is irrelevant for the verdict: the oracle evaluates everything
// again from the recorded hex floats.

func gammaP(a, x float64) float64 {
	if x <= 0 {
		return 0
	}
	lg, _ := math.Lgamma(a)
	if x < a+1 {
		// series
		ap, sum, del := a, 1/a, 1/a
		for n := 0; n < 500; n++ {
			ap++
			del *= x / ap
			sum += del
			if math.Abs(del) < math.Abs(sum)*1e-15 {
				break
			}
		}
		return sum * math.Exp(-x+a*math.Log(x)-lg)
	}
	// continued fraction (modified Lentz)
	b := x + 1 - a
	c := 1 / 1e-300
	d := 1 / b
	h := d
	for i := 1; i < 500; i++ {
		an := -float64(i) * (float64(i) - a)
		b += 2
		d = an*d + b
		if math.Abs(d) < 1e-300 {
			d = 1e-300
		}
		c = b + an/c
		if math.Abs(c) < 1e-300 {
			c = 1e-300
		}
		d = 1 / d
		del := d * c
		h *= del
		if math.Abs(del-1) < 1e-15 {
			break
		}
	}
	return 1 - math.Exp(-x+a*math.Log(x)-lg)*h
}

func besselI(v, x float64) float64 {
	// sum_k (x/2)^(2k+v) / (k! Gamma(k+v+1)), x <= ~40
	h := x / 2
	lg, _ := math.Lgamma(v + 1)
	term := math.Exp(v*math.Log(h) - lg)
	sum := term
	for k := 1; k < 400; k++ {
		term *= h * h / (float64(k) * (float64(k) + v))
		sum += term
		if term < sum*1e-16 {
			break
		}
	}
	return sum
}

func logErfc(x float64) float64 {
	if x < 20 {
		return math.Log(math.Erfc(x))
	}
	return -x*x - math.Log(x*math.Sqrt(math.Pi))
}

func sigmoid(x float64) float64 {
	if x >= 0 {
		return 1 / (1 + math.Exp(-x))
	}
	e := math.Exp(x)
	return e / (1 + e)
}

// modelScalar returns the (approximate) value of a scalar operation.
func modelScalar(op string, x []float64, par float64, k int) float64 {
	a := x[0]
	switch op {
	case "Neg":
		return -a
	case "Abs":
		return math.Abs(a)
	case "Sqrt":
		return math.Sqrt(a)
	case "Sin":
		return math.Sin(a)
	case "Cos":
		return math.Cos(a)
	case "Tan":
		return math.Tan(a)
	case "Sinh":
		return math.Sinh(a)
	case "Cosh":
		return math.Cosh(a)
	case "Tanh":
		return math.Tanh(a)
	case "Exp":
		return math.Exp(a)
	case "Log":
		return math.Log(a)
	case "Log1p":
		return math.Log1p(a)
	case "Log1pExp":
		if a > 0 {
			return a + math.Log1p(math.Exp(-a))
		}
		return math.Log1p(math.Exp(a))
	case "Logistic", "Sigmoid":
		return sigmoid(a)
	case "Erf":
		return math.Erf(a)
	case "Erfc":
		return math.Erfc(a)
	case "LogErfc":
		return logErfc(a)
	case "Gamma":
		return math.Gamma(a)
	case "Lgamma":
		v, s := math.Lgamma(a)
		if s < 0 {
			return math.NaN()
		}
		return v
	case "Mlgamma":
		r := float64(k*(k-1)) / 4 * math.Log(math.Pi)
		for j := 1; j <= k; j++ {
			v, _ := math.Lgamma(a + float64(1-j)/2)
			r += v
		}
		return r
	case "GammaP":
		return gammaP(par, a)
	case "BesselI":
		return besselI(par, a)
	case "LogBesselI":
		return math.Log(besselI(par, a))
	case "Add":
		return a + x[1]
	case "Sub":
		return a - x[1]
	case "Mul":
		return a * x[1]
	case "Div":
		return a / x[1]
	case "Min":
		return math.Min(a, x[1])
	case "Max":
		return math.Max(a, x[1])
	case "Pow":
		return math.Pow(a, x[1])
	case "LogAdd":
		m := math.Max(a, x[1])
		if math.IsInf(m, -1) {
			return m
		}
		return m + math.Log1p(math.Exp(-math.Abs(a-x[1])))
	case "LogSub":
		return a + math.Log1p(-math.Exp(x[1]-a))
	}
	panic("modelScalar: " + op)
}

// modelReduce returns the (approximate) value of a reduction.
func modelReduce(op string, x, y []float64, alpha float64, rows, cols int) float64 {
	switch op {
	case "SmoothMax", "LogSmoothMax":
		m := math.Inf(-1)
		for _, v := range x {
			m = math.Max(m, alpha*v)
		}
		num, den := 0.0, 0.0
		for _, v := range x {
			w := math.Exp(alpha*v - m)
			num += w * v
			den += w
		}
		return num / den
	case "Vmean":
		s := 0.0
		for _, v := range x {
			s += v
		}
		return s / float64(len(x))
	case "Vnorm", "Mnorm":
		s := 0.0
		for _, v := range x {
			s += v * v
		}
		return math.Sqrt(s)
	case "VdotV":
		s := 0.0
		for i := range x {
			s += x[i] * y[i]
		}
		return s
	case "Mtrace":
		s := 0.0
		for i := 0; i < rows; i++ {
			s += x[i*cols+i]
		}
		return s
	}
	panic("modelReduce: " + op)
}

// admissible: the operand values lie inside the operation's C01 domain (with
// margins that keep the function and its first two derivatives finite and of
// moderate size).  The table is printed in the evidence (CFG["domains"]).
func admissible(op string, x []float64, par float64, k int) bool {
	for _, v := range x {
		if math.IsNaN(v) || math.IsInf(v, 0) || math.Abs(v) > 1e6 {
			return false
		}
	}
	a := x[0]
	frac := func(v float64) float64 { return math.Abs(v - math.Round(v)) }
	switch op {
	case "Neg", "Abs", "Add", "Sub", "Mul", "Min", "Max":
		return true
	case "Div":
		return math.Abs(x[1]) > 1e-3
	case "Sqrt", "Log":
		return a > 1e-3
	case "Log1p":
		return a > -0.99
	case "Exp":
		return math.Abs(a) < 20
	case "Sinh", "Cosh":
		return math.Abs(a) < 15
	case "Sin", "Cos":
		return math.Abs(a) < 50
	case "Tan":
		return math.Abs(a) < 50 && math.Abs(math.Cos(a)) > 0.05
	case "Tanh":
		return math.Abs(a) < 30
	case "Log1pExp", "Logistic", "Sigmoid":
		return math.Abs(a) < 40
	case "Erf", "Erfc":
		return math.Abs(a) < 5
	case "LogErfc":
		return a > -4 && a < 25
	case "Gamma":
		return (a > 0.1 && a < 20) || (a < 0 && a > -6 && frac(a) > 0.05)
	case "Lgamma":
		return (a > 0.1 && a < 100) || (a < 0 && a > -6 && frac(a) > 0.05)
	case "Mlgamma":
		return a > float64(k-1)/2+0.1 && a < 100
	case "GammaP":
		return a > 0.01 && a < 50
	case "BesselI", "LogBesselI":
		return a > 0.05 && a < 30
	case "Pow":
		y := x[1]
		if a == 0 {
			// base exactly 0: first and second derivative are finite for exponents >= 2 (constant exponent only, see the generator)
			return y >= 2 && y <= 4
		}
		return a > 1e-3 && math.Abs(y) <= 4 && math.Abs(y*math.Log(a)) < 30
	case "LogAdd":
		return math.Abs(a) < 50 && math.Abs(x[1]) < 50
	case "LogSub":
		return math.Abs(a) < 50 && math.Abs(x[1]) < 50 && a > x[1]+1e-3
	}
	panic("admissible: " + op)
}
