// Package c01: automatic differentiation returns exact first and second
// derivatives (DESIGN.md, C01).  The worker generates random expression DAGs
// over all scalar operations and reductions, executes them on Real64 / Real32
// scalars with recycled temporaries, and records the operand and result jets
// of every statement as hex floats for driver/oracles/c01.py.  Exact
// assertions that need no reference (Hessian symmetry, operands unchanged
// between statements, gradient / Hessian accessors, Matrix.Jacobian /
// Matrix.Hessian) are judged in-process.
package c01

import (
	"fmt"
	"math"
	"strconv"

	ad "github.com/pbenner/autodiff"

	"verifharness/c02"
	"verifharness/internal/fw"
	"verifharness/internal/prng"
)

/* jets
 * -------------------------------------------------------------------------- */

// Jet is the observable state of a scalar: value, N, order, gradient, Hessian.
type Jet struct {
	V float64
	N int
	O int
	G []float64
	H []float64 // row major N*N
}

func snap(s ad.ConstScalar) Jet {
	j := Jet{V: s.GetFloat64(), N: s.GetN(), O: s.GetOrder()}
	if j.O >= 1 {
		j.G = make([]float64, j.N)
		for i := range j.G {
			j.G[i] = s.GetDerivative(i)
		}
		if j.O >= 2 {
			j.H = make([]float64, j.N*j.N)
			for i := 0; i < j.N; i++ {
				for k := 0; k < j.N; k++ {
					j.H[i*j.N+k] = s.GetHessian(i, k)
				}
			}
		}
	}
	return j
}

func hx(x float64) string { return strconv.FormatFloat(x, 'x', -1, 64) }

func hxs(xs []float64) []string {
	r := make([]string, len(xs))
	for i, x := range xs {
		r[i] = hx(x)
	}
	return r
}

func (j Jet) enc() map[string]any {
	m := map[string]any{"v": hx(j.V), "n": j.N, "o": j.O}
	if j.G != nil {
		m["g"] = hxs(j.G)
	}
	if j.H != nil {
		m["h"] = hxs(j.H)
	}
	return m
}

func feq(a, b float64) bool { return a == b || (a != a && b != b) }

func beq(a, b float64) bool { return math.Float64bits(a) == math.Float64bits(b) || (a != a && b != b) }

func sameJet(a, b Jet) bool {
	if !beq(a.V, b.V) || a.N != b.N || a.O != b.O || len(a.G) != len(b.G) || len(a.H) != len(b.H) {
		return false
	}
	for i := range a.G {
		if !beq(a.G[i], b.G[i]) {
			return false
		}
	}
	for i := range a.H {
		if !beq(a.H[i], b.H[i]) {
			return false
		}
	}
	return true
}

/* programs
 * -------------------------------------------------------------------------- */

// ref is one operand of a statement.
type ref struct {
	Kind string  // v: input i | n: result of statement i | c: ConstFloat64 | f: Float64 | r: Real of order 0
	Idx  int     // input / statement index
	Val  float64 // constant value (c, f, r)
}

func (r ref) enc() []any {
	switch r.Kind {
	case "v", "n":
		return []any{r.Kind, r.Idx}
	}
	return []any{r.Kind, hx(r.Val)}
}

func encRefs(rs []ref) []any {
	out := make([]any, len(rs))
	for i, r := range rs {
		out[i] = r.enc()
	}
	return out
}

type stmt struct {
	Op      string
	Kind    int
	Args    []ref // scalar operands, or the elements of the first vector / matrix
	Args2   []ref // second vector (VdotV)
	Par     float64
	K       int
	Rows    int
	Cols    int
	Storage string
	Recv    int   // temporary that receives the result
	Tmps    []int // temporaries passed as scratch arguments (-1: a fresh scalar)
}

type dirty struct {
	N, Order int
	Fill     float64
}

type program struct {
	T      string // Real64 | Real32
	Order  int
	NVar   int
	Inputs []Jet // program cases: value only (seeded by Variables); directed cases: explicit jets
	Direct bool  // inputs carry explicit jets (set with Alloc/SetDerivative/SetHessian)
	Seed   int   // 0: ad.Variables(order, ...), 1: SetVariable one by one, 2 / 3: Variables of a dense / sparse vector holding the objects
	Hist   int   // 0: fresh input objects, 1 / 2: re-activated objects with an earlier life at the same / another order
	Stmts  []stmt
	Pool   []dirty
}

func (p *program) newReal(v float64) ad.MagicScalar {
	if p.T == "Real32" {
		return ad.NewReal32(float32(v))
	}
	return ad.NewReal64(v)
}

func (p *program) realType() ad.ScalarType {
	if p.T == "Real32" {
		return ad.Real32Type
	}
	return ad.Real64Type
}

// hold rounds v to the storage type of the program's Real scalars.
func (p *program) hold(v float64) float64 {
	if p.T == "Real32" {
		return float64(float32(v))
	}
	return v
}

func setJet(x ad.MagicScalar, j Jet) {
	x.Alloc(j.N, j.O)
	for i, g := range j.G {
		x.SetDerivative(i, g)
	}
	for i := 0; i < j.N && j.H != nil; i++ {
		for k := 0; k < j.N; k++ {
			x.SetHessian(i, k, j.H[i*j.N+k])
		}
	}
}

// makeInputs builds the input scalars of a direct run.
func (p *program) makeInputs() []ad.ConstScalar {
	ms := make([]ad.MagicScalar, len(p.Inputs))
	var vec ad.MagicVector // Seed 2 / 3: the inputs are the elements of a dense / sparse Real vector
	if !p.Direct && p.Seed >= 2 {
		if p.Seed == 2 {
			vec = ad.NullDenseMagicVector(p.realType(), len(ms))
		} else {
			vec = ad.NullSparseMagicVector(p.realType(), len(ms))
		}
	}
	for i, in := range p.Inputs {
		if vec != nil {
			ms[i] = vec.MagicAt(i)
			ms[i].SetFloat64(in.V)
		} else {
			ms[i] = p.newReal(in.V)
		}
		if p.Direct {
			setJet(ms[i], in)
		}
	}
	if !p.Direct {
		if p.Hist > 0 {
			p.history(ms, vec)
		}
		p.activate(ms, vec, p.Order)
	}
	out := make([]ad.ConstScalar, len(ms))
	for i := range ms {
		out[i] = ms[i]
	}
	return out
}

var seedModes = []string{"Variables", "SetVariable", "DenseVector.Variables", "SparseVector.Variables"}

// activate makes the scalars variables of the given order in one of four ways; in the container-level ways the
// scalars are the elements of a dense / sparse Real vector whose Variables method is called.
func (p *program) activate(ms []ad.MagicScalar, vec ad.MagicVector, order int) {
	switch {
	case vec != nil:
		vec.Variables(order)
	case p.Seed == 0:
		ad.Variables(order, ms...)
	default:
		for i := range ms {
			ms[i].SetVariable(i, len(ms), order)
		}
	}
}

// history gives the input objects an earlier life before the program activates them: they were variables of an
// earlier computation (Hist 1: same n and order as the program, Hist 2: another order) and were overwritten in
// place with a non-linear result, x_i <- x_i * w with w a variable of value 1 (the value is preserved exactly,
// gradient and Hessian are not zero).  A re-activation must give clean seeds again.
func (p *program) history(ms []ad.MagicScalar, vec ad.MagicVector) {
	order := p.Order
	if p.Hist == 2 {
		order = 3 - p.Order
	}
	p.activate(ms, vec, order)
	w := p.newReal(1)
	w.Alloc(len(ms), order)
	w.SetDerivative(0, 1)
	for i := range ms {
		c := ms[i].CloneMagicScalar()
		ms[i].Mul(c, w)
		ms[i].Mul(ms[i].CloneMagicScalar(), w) // twice: second derivatives w.r.t. one variable as well
	}
}

// recorder collects what the oracle and the in-process assertions need.
type recorder struct {
	cs      *fw.Case
	p       *program
	inputs  []Jet
	results []Jet
	stale   []string // per statement: derivative state of the receiver / scratch temporaries before the call
	viol    func(stage, op, kind, detail string)
}

// staleClass names the derivative state a temporary carries into a call.
func staleClass(p *program, ts []ad.Scalar) string {
	rank := map[string]int{"clean": 0, "same-shape": 1, "stale-order": 2, "stale-N": 3}
	best := "clean"
	for _, t := range ts {
		n, o := t.GetN(), t.GetOrder()
		c := "clean"
		switch {
		case n == 0 || o == 0:
		case n != p.NVar:
			c = "stale-N"
		case o != p.Order:
			c = "stale-order"
		default:
			c = "same-shape"
		}
		if rank[c] > rank[best] {
			best = c
		}
	}
	return "receiver:" + best
}

// exec runs the program on the given inputs.  With rec != nil every statement
// is recorded and the operands are compared with the jets they had when they
// were produced.
func (p *program) exec(vars []ad.ConstScalar, rec *recorder, clean bool) ad.ConstScalar {
	temps := make([]ad.MagicScalar, len(p.Pool))
	for i, d := range p.Pool {
		t := p.newReal(d.Fill)
		if d.N > 0 && !clean {
			t.Alloc(d.N, d.Order)
			for a := 0; a < d.N && d.Order >= 1; a++ {
				t.SetDerivative(a, d.Fill+float64(a))
				for b := 0; b < d.N && d.Order >= 2; b++ {
					t.SetHessian(a, b, d.Fill-float64(a*b))
				}
			}
		}
		temps[i] = t
	}
	where := make([]int, len(p.Stmts)) // statement -> temporary holding its result
	resolve := func(r ref) ad.ConstScalar {
		switch r.Kind {
		case "v":
			return vars[r.Idx]
		case "n":
			return temps[where[r.Idx]]
		case "c":
			return ad.ConstFloat64(r.Val)
		case "f":
			return ad.NewFloat64(r.Val)
		}
		return p.newReal(r.Val)
	}
	check := func(si int, r ref) {
		if rec == nil {
			return
		}
		var now, then Jet
		switch r.Kind {
		case "v":
			now, then = snap(vars[r.Idx]), rec.inputs[r.Idx]
		case "n":
			now, then = snap(temps[where[r.Idx]]), rec.results[r.Idx]
		default:
			return
		}
		if !sameJet(now, then) {
			rec.viol("exact", p.Stmts[si].Op, "operand-changed",
				fmt.Sprintf("operand %v of statement %d changed since it was produced: %v -> %v", r.enc(), si, then.enc(), now.enc()))
		}
	}
	if rec != nil {
		for _, v := range vars {
			rec.inputs = append(rec.inputs, snap(v))
		}
	}
	var last ad.ConstScalar
	for si := range p.Stmts {
		s := &p.Stmts[si]
		op := c02.OpByName(s.Op)
		recv := temps[s.Recv]
		tmp := make([]ad.Scalar, len(s.Tmps))
		for i, t := range s.Tmps {
			if t < 0 {
				tmp[i] = p.newReal(0)
			} else {
				tmp[i] = temps[t]
			}
		}
		if rec != nil {
			rec.stale = append(rec.stale, staleClass(p, append([]ad.Scalar{recv}, tmp...)))
		}
		for _, r := range s.Args {
			check(si, r)
		}
		for _, r := range s.Args2 {
			check(si, r)
		}
		if s.Kind >= c02.RedV {
			var v, w ad.ConstVector
			var m ad.ConstMatrix
			build := func(rs []ref) ad.ConstVector {
				var vec ad.Vector
				if s.Storage == "sparse" {
					vec = ad.NullSparseVector(p.realType(), len(rs))
				} else {
					vec = ad.NullDenseVector(p.realType(), len(rs))
				}
				for i, r := range rs {
					if s.Storage == "sparse" && r.Kind != "v" && r.Kind != "n" && r.Val == 0 {
						continue
					}
					vec.At(i).Set(resolve(r))
				}
				return vec
			}
			switch s.Kind {
			case c02.RedM:
				var mat ad.Matrix
				if s.Storage == "sparse" {
					mat = ad.NullSparseMatrix(p.realType(), s.Rows, s.Cols)
				} else {
					mat = ad.NullDenseMatrix(p.realType(), s.Rows, s.Cols)
				}
				for i := 0; i < s.Rows; i++ {
					for k := 0; k < s.Cols; k++ {
						r := s.Args[i*s.Cols+k]
						if s.Storage == "sparse" && r.Kind != "v" && r.Kind != "n" && r.Val == 0 {
							continue
						}
						mat.At(i, k).Set(resolve(r))
					}
				}
				m = mat
			case c02.RedVV:
				v, w = build(s.Args), build(s.Args2)
			default:
				v = build(s.Args)
			}
			if debugHook != nil {
				debugHook(si, recv, v)
			}
			c02.ApplyReduce(op, recv, v, w, m, s.Par, tmp)
		} else {
			xs := make([]ad.ConstScalar, len(s.Args))
			for i, r := range s.Args {
				xs[i] = resolve(r)
			}
			var t0 ad.Scalar
			if len(tmp) > 0 {
				t0 = tmp[0]
			}
			c02.ApplyScalar(op, recv, xs, s.Par, s.K, t0)
		}
		where[si] = s.Recv
		last = recv
		if rec != nil {
			rec.results = append(rec.results, snap(recv))
		}
	}
	return last
}

func (p *program) encode(rec *recorder) map[string]any {
	ins := make([]any, len(rec.inputs))
	for i, j := range rec.inputs {
		ins[i] = j.enc()
	}
	st := make([]any, len(p.Stmts))
	for i, s := range p.Stmts {
		m := map[string]any{"op": s.Op, "a": encRefs(s.Args)}
		if s.Args2 != nil {
			m["b"] = encRefs(s.Args2)
		}
		switch s.Kind {
		case c02.ParK:
			m["k"] = s.K
		case c02.ParF, c02.RedSM:
			m["par"] = hx(s.Par)
		case c02.RedM:
			m["shape"] = []int{s.Rows, s.Cols}
		}
		if s.Kind >= c02.RedV {
			m["st"] = s.Storage
		}
		if i < len(rec.results) {
			m["res"] = rec.results[i].enc()
		}
		if i < len(rec.stale) {
			m["stale"] = rec.stale[i]
		}
		st[i] = m
	}
	return map[string]any{"T": p.T, "order": p.Order, "N": p.NVar, "direct": p.Direct, "seedmode": seedModes[p.Seed], "history": []string{"fresh objects", "re-activated,same n and order", "re-activated,other order"}[p.Hist], "inputs": ins, "stmts": st}
}

var debugHook func(si int, recv ad.ConstScalar, v ad.ConstVector)

/* running one case
 * -------------------------------------------------------------------------- */

func runProgram(cs *fw.Case, p *program, nontrivial bool) {
	witness := func(rec *recorder) map[string]any { return p.encode(rec) }
	rec := &recorder{cs: cs, p: p}
	cfg := p.T // the order is part of the detail, not of the signature (one root cause, one cell)
	rec.viol = func(stage, op, kind, detail string) {
		cs.Violation(fmt.Sprintf("C01|%s|%s|%s|any|%s", stage, op, cfg, kind), detail, witness(rec))
	}
	var final ad.ConstScalar
	if pn := fw.Call(func() { final = p.exec(p.makeInputs(), rec, false) }); pn != nil {
		// judged by the oracle: a panic inside the operation's domain is a violation, a panic after an
		// earlier statement left its domain (wrong value upstream) is not
		ev := p.encode(rec)
		ev["panic"] = map[string]any{"stmt": len(rec.results), "msg": pn.Msg, "frame": pn.Frame}
		cs.C.Data(ev)
		cs.Cover("programs-ended-by-panic")
		return
	}
	// Hessian symmetric bit for bit, after every statement
	for si, j := range rec.results {
		for a := 0; a < j.N && j.H != nil; a++ {
			for b := a + 1; b < j.N; b++ {
				if !beq(j.H[a*j.N+b], j.H[b*j.N+a]) && !(j.H[a*j.N+b] == 0 && j.H[b*j.N+a] == 0) {
					cs.Violation(fmt.Sprintf("C01|exact|%s|%s|any|sym", p.Stmts[si].Op, cfg),
						fmt.Sprintf("statement %d: H[%d][%d]=%v != H[%d][%d]=%v", si, a, b, j.H[a*j.N+b], b, a, j.H[b*j.N+a]), witness(rec))
				}
			}
		}
		cs.Cover(fmt.Sprintf("op:%s/%s/order%d", p.Stmts[si].Op, p.T, p.Order))
	}
	fj := rec.results[len(rec.results)-1]
	lastOp := p.Stmts[len(p.Stmts)-1].Op
	// accessors return the slots
	if pn := fw.Call(func() { checkAccessors(cs, p, final, fj, lastOp, cfg, rec) }); pn != nil {
		cs.Violation(fmt.Sprintf("C01|accessors|%s|%s|any|panic", pn.Frame, cfg), pn.Msg, witness(rec))
	}
	// Matrix.Jacobian / Matrix.Hessian re-run the program on a cloned variable vector
	if !p.Direct && fj.N == p.NVar && fj.O == p.Order {
		if pn := fw.Call(func() { checkMatrixDerivatives(cs, p, fj, lastOp, cfg, rec) }); pn != nil {
			cs.Violation(fmt.Sprintf("C01|matrix|%s|%s|any|panic", pn.Frame, cfg), pn.Msg, witness(rec))
		}
	}
	ev := p.encode(rec)
	cs.C.Data(ev)
	cs.Cover(fmt.Sprintf("programs:%s/order%d", p.T, p.Order))
	cs.Cover(fmt.Sprintf("nvar:%d", p.NVar))
	cs.C.CoverMax("max:statements", int64(len(p.Stmts)))
	if nontrivial {
		cs.Nontrivial(fmt.Sprint(ev))
	}
	if cs.Index < 1 {
		cs.Sample(ev)
	}
}

func checkAccessors(cs *fw.Case, p *program, x ad.ConstScalar, j Jet, op, cfg string, rec *recorder) {
	bad := func(what string, i, k int, got, want float64) {
		cs.Violation(fmt.Sprintf("C01|accessors|%s|%s|any|value", what, cfg),
			fmt.Sprintf("%s of the final node (%s): entry (%d,%d) = %v, slot holds %v", what, op, i, k, got, want), p.encode(rec))
	}
	n := j.N
	slotG := func(i int) float64 {
		if j.G == nil {
			return 0
		}
		return j.G[i]
	}
	slotH := func(i, k int) float64 {
		if j.H == nil {
			return 0
		}
		return j.H[i*n+k]
	}
	for _, t := range []ad.ScalarType{ad.Float64Type, ad.Real64Type} {
		g := ad.GetGradient(t, x)
		if g.Dim() != n {
			bad("GetGradient.Dim", g.Dim(), n, 0, 0)
		}
		for i := 0; i < n && i < g.Dim(); i++ {
			if v := g.ConstAt(i).GetFloat64(); !feq(v, slotG(i)) {
				bad("GetGradient", i, 0, v, slotG(i))
			}
		}
		h := ad.GetHessian(t, x)
		for i := 0; i < n; i++ {
			for k := 0; k < n; k++ {
				if v := h.ConstAt(i, k).GetFloat64(); !feq(v, slotH(i, k)) {
					bad("GetHessian", i, k, v, slotH(i, k))
				}
			}
		}
	}
	cs.Cover("accessor:GetGradient/GetHessian")
	for _, storage := range []string{"dense", "sparse"} {
		var g ad.Vector
		var h ad.Matrix
		if storage == "dense" {
			g, h = ad.NullDenseVector(ad.Float64Type, n), ad.NullDenseMatrix(ad.Float64Type, n, n)
		} else {
			g, h = ad.NullSparseVector(ad.Real64Type, n), ad.NullSparseMatrix(ad.Real64Type, n, n)
		}
		if err := ad.CopyGradient(g, x); err != nil {
			bad("CopyGradient.error", 0, 0, 0, 0)
		}
		for i := 0; i < n; i++ {
			if v := g.ConstAt(i).GetFloat64(); !feq(v, slotG(i)) {
				bad("CopyGradient", i, 0, v, slotG(i))
			}
		}
		if err := ad.CopyHessian(h, x); err != nil {
			bad("CopyHessian.error", 0, 0, 0, 0)
		}
		for i := 0; i < n; i++ {
			for k := 0; k < n; k++ {
				if v := h.ConstAt(i, k).GetFloat64(); !feq(v, slotH(i, k)) {
					bad("CopyHessian", i, k, v, slotH(i, k))
				}
			}
		}
	}
	cs.Cover("accessor:CopyGradient/CopyHessian")
}

func checkMatrixDerivatives(cs *fw.Case, p *program, j Jet, op, cfg string, rec *recorder) {
	n := p.NVar
	x := ad.NullDenseMagicVector(p.realType(), n)
	for i, in := range p.Inputs {
		x.At(i).SetFloat64(in.V)
	}
	varsOf := func(v ad.ConstVector) []ad.ConstScalar {
		out := make([]ad.ConstScalar, n)
		for i := range out {
			out[i] = v.ConstAt(i)
		}
		return out
	}
	bad := func(what string, i, k int, got, want float64) {
		cs.Violation(fmt.Sprintf("C01|matrix|%s|%s|any|value", what, cfg),
			fmt.Sprintf("%s of the program ending in %s: entry (%d,%d) = %v, slot of the direct run holds %v", what, op, i, k, got, want), p.encode(rec))
	}
	// Jacobian of the 1-vector (final node)
	f := func(v ad.ConstVector) ad.ConstVector {
		y := p.exec(varsOf(v), nil, true)
		r := ad.NullDenseVector(p.realType(), 1)
		r.At(0).Set(y)
		return r
	}
	for _, jm := range []ad.Matrix{ad.NullDenseMatrix(ad.Float64Type, 1, n), ad.NullSparseMatrix(ad.Real64Type, 1, n)} {
		jm.Jacobian(f, x)
		for k := 0; k < n; k++ {
			if v := jm.ConstAt(0, k).GetFloat64(); !feq(v, j.G[k]) {
				bad("Matrix.Jacobian", 0, k, v, j.G[k])
			}
		}
	}
	cs.Cover("accessor:Matrix.Jacobian")
	if p.Order >= 2 {
		g := func(v ad.ConstVector) ad.ConstScalar { return p.exec(varsOf(v), nil, true) }
		for _, hm := range []ad.Matrix{ad.NullDenseMatrix(ad.Float64Type, n, n), ad.NullSparseMatrix(ad.Real64Type, n, n)} {
			hm.Hessian(g, x)
			for i := 0; i < n; i++ {
				for k := 0; k < n; k++ {
					if v := hm.ConstAt(i, k).GetFloat64(); !feq(v, j.H[i*n+k]) {
						bad("Matrix.Hessian", i, k, v, j.H[i*n+k])
					}
				}
			}
		}
		cs.Cover("accessor:Matrix.Hessian")
	}
}

/* random programs
 * -------------------------------------------------------------------------- */

type liveNode struct {
	stmt    int
	temp    int
	val     float64
	support uint
	nonlin  bool
}

var linearOps = map[string]bool{"Neg": true, "Add": true, "Sub": true, "Min": true, "Max": true, "Vmean": true, "Mtrace": true}

func drawInput(r *prng.Rand) float64 {
	// exact zeros (and -0): where a shortcut "x == 0 contributes nothing" would lose a derivative
	if r.Chance(0.1) {
		if r.Chance(0.25) {
			return math.Copysign(0, -1)
		}
		return 0
	}
	switch r.Intn(4) {
	case 0:
		return r.Norm() * 1.5
	case 1:
		return r.LogUniform(0.05, 20)
	case 2:
		return float64(r.Range(-8, 8)) / 2
	}
	return r.Uniform(-4, 4)
}

func drawConst(r *prng.Rand) float64 {
	switch r.Intn(5) {
	case 0:
		return float64(r.Range(-4, 4))
	case 1:
		return float64(r.Range(-6, 6)) / 2
	case 2:
		return r.LogUniform(0.05, 20)
	case 3:
		return r.Norm() * 2
	}
	return r.Uniform(-3, 3)
}

/* directed reductions: vectors / matrices with coordinates exactly at 0 and +-0
 * -------------------------------------------------------------------------- */

type dred struct {
	op      string
	x, y    []float64
	rows    int
	cols    int
	alpha   float64
	storage string
	T       string
	order   int
	jets    bool // elements are explicit jets (Direct) instead of activated variables
	addC    bool // append a constant element
}

func directedReductions() []dred {
	nz := math.Copysign(0, -1)
	vec := [][]float64{{0, 3}, {3, 0, -4}, {0, 0, 2}, {nz, 1.5}, {2, -1, 0.5}, {0}, {-2.5}}
	pos := [][]float64{{1, 2.5}, {0.5, 0.5, 3}, {4}}
	mats := [][]float64{{0, 3, -4, 0}, {1, 0, 0, 2}, {nz, 0, 0, 1.5}, {2}, {0}}
	var l []dred
	for _, T := range []string{"Real64", "Real32"} {
		for order := 1; order <= 2; order++ {
			for _, st := range []string{"dense", "sparse"} {
				for _, jets := range []bool{false, true} {
					add := func(d dred) {
						d.T, d.order, d.storage, d.jets = T, order, st, jets
						l = append(l, d)
					}
					for i, x := range vec {
						add(dred{op: "Vnorm", x: x, addC: i%2 == 1})
						add(dred{op: "Vmean", x: x, addC: i%2 == 0})
						add(dred{op: "SmoothMax", x: x, alpha: []float64{1, -2, 0.5}[i%3]})
						y := make([]float64, len(x))
						for k := range y {
							y[k] = []float64{2, 0, -1.5}[(k+i)%3]
						}
						add(dred{op: "VdotV", x: x, y: y})
					}
					for i, x := range pos {
						add(dred{op: "LogSmoothMax", x: x, alpha: []float64{1, -1, 2}[i%3]})
					}
					for _, x := range mats {
						n := 1
						if len(x) == 4 {
							n = 2
						}
						add(dred{op: "Mnorm", x: x, rows: n, cols: n})
						add(dred{op: "Mtrace", x: x, rows: n, cols: n})
					}
				}
			}
		}
	}
	return l
}

func reductionProgram(r *prng.Rand, d dred) *program {
	op := c02.OpByName(d.op)
	n := len(d.x) + len(d.y)
	p := &program{T: d.T, Order: d.order, Direct: d.jets, Seed: r.Intn(4), Hist: r.Intn(3)}
	p.NVar = n
	if d.jets {
		p.NVar = r.Range(1, 3)
	}
	p.Pool = []dirty{{Fill: 2.5}, {N: p.NVar, Order: d.order, Fill: -1.5}, {Fill: 0.5}, {N: p.NVar, Order: d.order, Fill: 1.5}, {Fill: -0.5}}
	s := stmt{Op: d.op, Kind: op.Kind, Par: d.alpha, Rows: d.rows, Cols: d.cols, Storage: d.storage, Recv: r.Intn(2)}
	for i, v := range append(append([]float64{}, d.x...), d.y...) {
		if d.jets {
			p.Inputs = append(p.Inputs, randJet(r, p.hold(v), p.NVar, d.order))
		} else {
			p.Inputs = append(p.Inputs, Jet{V: p.hold(v)})
		}
		rf := ref{Kind: "v", Idx: i}
		if i < len(d.x) {
			s.Args = append(s.Args, rf)
		} else {
			s.Args2 = append(s.Args2, rf)
		}
	}
	if d.addC && op.Kind != c02.RedM && op.Kind != c02.RedVV {
		s.Args = append(s.Args, ref{Kind: "c", Val: p.hold(1.25)})
	}
	switch d.op {
	case "SmoothMax":
		s.Tmps = []int{2, 3}
	case "LogSmoothMax":
		s.Tmps = []int{2, 3, 4}
	}
	p.Stmts = []stmt{s}
	return p
}

func genProgram(r *prng.Rand) (*program, bool) {
	p := &program{T: r.Pick([]string{"Real64", "Real32"}), Order: r.Range(1, 2), NVar: r.Range(1, 4), Seed: r.Intn(4), Hist: r.Intn(3)}
	for i := 0; i < p.NVar; i++ {
		p.Inputs = append(p.Inputs, Jet{V: p.hold(drawInput(r))})
	}
	npool := r.Range(2, 5)
	for i := 0; i < npool; i++ {
		d := dirty{Fill: float64(r.Range(-9, 9)) + 0.5}
		switch u := r.Float64(); {
		case u < 0.4: // a fresh scalar
		case u < 0.7: // stale values, same shape as the program's jets
			d.N, d.Order = p.NVar, p.Order
		default: // stale state of a different session
			d.N, d.Order = r.Range(1, 5), r.Range(1, 2)
		}
		p.Pool = append(p.Pool, d)
	}
	nst := r.Range(1, 14)
	live := map[int]*liveNode{} // temp -> node
	var order []int             // temps in creation order, for deterministic picks

	liveList := func() []*liveNode {
		var l []*liveNode
		seen := map[int]bool{}
		for _, t := range order {
			if n, ok := live[t]; ok && !seen[t] {
				seen[t] = true
				l = append(l, n)
			}
		}
		return l
	}
	// pickOperand draws an operand; want(v) filters admissible values.
	type operand struct {
		r       ref
		val     float64
		temp    int
		support uint
		nonlin  bool
	}
	holdConst := false // elements of vectors / matrices are stored in the Real type: constants are rounded to it
	pickOperand := func(want func(v float64) bool, allowConst bool) (operand, bool) {
		for try := 0; try < 12; try++ {
			u := r.Float64()
			ll := liveList()
			switch {
			case u < 0.45 && len(ll) > 0:
				n := ll[r.Intn(len(ll))]
				if want(n.val) {
					return operand{ref{Kind: "n", Idx: n.stmt}, n.val, n.temp, n.support, n.nonlin}, true
				}
			case u < 0.75 || !allowConst:
				i := r.Intn(p.NVar)
				if want(p.Inputs[i].V) {
					return operand{ref{Kind: "v", Idx: i}, p.Inputs[i].V, -1, 1 << uint(i), false}, true
				}
			default:
				k := r.Pick([]string{"c", "f", "r"})
				v := drawConst(r)
				if k == "r" || holdConst {
					v = p.hold(v)
				}
				if want(v) {
					return operand{ref{Kind: k, Val: v}, v, -1, 0, false}, true
				}
			}
		}
		return operand{}, false
	}
	scalarOps, redOps := []*c02.Op{}, []*c02.Op{}
	for i := range c02.Ops {
		if c02.Ops[i].Kind >= c02.RedV {
			redOps = append(redOps, &c02.Ops[i])
		} else {
			scalarOps = append(scalarOps, &c02.Ops[i])
		}
	}
	for si := 0; si < nst; si++ {
		done := false
		for try := 0; try < 60 && !done; try++ {
			var op *c02.Op
			if r.Chance(0.2) {
				op = redOps[r.Intn(len(redOps))]
			} else {
				op = scalarOps[r.Intn(len(scalarOps))]
			}
			s := stmt{Op: op.Name, Kind: op.Kind}
			holdConst = op.Kind >= c02.RedV
			var ops []operand
			ok := true
			any := func(float64) bool { return true }
			constOnly := r.Chance(0.1) // a few statements are built from constants alone ("constants contribute nothing")
			var val float64
			switch op.Kind {
			case c02.Mon, c02.MonT, c02.ParK, c02.ParF:
				switch op.Name {
				case "Mlgamma":
					s.K = r.Range(1, 4)
				case "GammaP":
					s.Par = r.PickF([]float64{0.5, 1, 2.5, 4, 7.25, 0.3, 12})
				case "BesselI", "LogBesselI":
					s.Par = r.PickF([]float64{0, 1, 2, 0.5, 1.5, 3.25})
				}
				o, found := pickOperand(func(v float64) bool { return admissible(op.Name, []float64{v}, s.Par, s.K) }, constOnly)
				if !found {
					ok = false
					break
				}
				ops = []operand{o}
				val = modelScalar(op.Name, []float64{o.val}, s.Par, s.K)
			case c02.Dy, c02.DyT:
				a, found := pickOperand(any, constOnly)
				if !found {
					ok = false
					break
				}
				b, found := pickOperand(func(v float64) bool { return admissible(op.Name, []float64{a.val, v}, 0, 0) }, true)
				if !found {
					ok = false
					break
				}
				if r.Bool() && admissible(op.Name, []float64{b.val, a.val}, 0, 0) {
					a, b = b, a
				}
				if op.Name == "Pow" && (b.r.Kind == "v" || b.r.Kind == "n") && a.val <= 0 {
					ok = false
					break
				}
				if (op.Name == "Min" || op.Name == "Max") && a.val == b.val {
					ok = false // ties are a directed case
					break
				}
				ops = []operand{a, b}
				val = modelScalar(op.Name, []float64{a.val, b.val}, 0, 0)
			default:
				// reductions over vectors / matrices built from program nodes
				s.Storage = r.Pick([]string{"dense", "sparse"})
				n := r.Range(1, 5)
				switch op.Kind {
				case c02.RedM:
					s.Rows, s.Cols = r.Range(1, 3), r.Range(1, 3)
					if op.Name == "Mtrace" {
						s.Cols = s.Rows
					}
					n = s.Rows * s.Cols
				case c02.RedSM:
					s.Par = r.PickF([]float64{0.5, 1, 2, -1, -0.5, 3})
				}
				want := any
				switch op.Name {
				case "LogSmoothMax":
					want = func(v float64) bool { return v > 0.01 && v < 30 && math.Abs(s.Par*v) < 30 }
				case "SmoothMax":
					want = func(v float64) bool { return math.Abs(s.Par*v) < 30 && math.Abs(v) < 1e3 }
				default:
					want = func(v float64) bool { return math.Abs(v) < 1e4 }
				}
				count := n
				if op.Kind == c02.RedVV {
					count = 2 * n
				}
				var vals []float64
				for i := 0; i < count && ok; i++ {
					o, found := pickOperand(want, i > 0 || constOnly)
					if !found {
						ok = false
						break
					}
					ops = append(ops, o)
					vals = append(vals, o.val)
				}
				if !ok {
					break
				}
				if op.Kind == c02.RedVV {
					val = modelReduce(op.Name, vals[:n], vals[n:], s.Par, 0, 0)
				} else {
					val = modelReduce(op.Name, vals, nil, s.Par, s.Rows, s.Cols)
				}
				if (op.Name == "Vnorm" || op.Name == "Mnorm") && val < 1e-3 {
					ok = false
				}
			}
			if !ok || math.IsNaN(val) || math.IsInf(val, 0) || math.Abs(val) > 1e6 || (val != 0 && math.Abs(val) < 1e-6) {
				continue
			}
			// receiver and scratch temporaries: never an operand of the same call
			used := map[int]bool{}
			for _, o := range ops {
				if o.temp >= 0 {
					used[o.temp] = true
				}
			}
			var free []int
			for t := range p.Pool {
				if !used[t] {
					free = append(free, t)
				}
			}
			if len(free) == 0 {
				continue
			}
			perm := r.Perm(len(free))
			s.Recv = free[perm[0]]
			ntmp := 0
			switch op.Kind {
			case c02.DyT, c02.MonT:
				ntmp = 1
			case c02.RedSM:
				ntmp = 2
				if op.Name == "LogSmoothMax" {
					ntmp = 3
				}
			}
			for i := 0; i < ntmp; i++ {
				if i+1 < len(perm) && r.Chance(0.6) {
					s.Tmps = append(s.Tmps, free[perm[i+1]])
				} else {
					s.Tmps = append(s.Tmps, -1)
				}
			}
			// commit
			var support uint
			nonlin := false
			for i, o := range ops {
				support |= o.support
				nonlin = nonlin || o.nonlin
				if op.Kind == c02.RedVV && i >= len(ops)/2 {
					s.Args2 = append(s.Args2, o.r)
				} else {
					s.Args = append(s.Args, o.r)
				}
			}
			if !linearOps[op.Name] && support != 0 {
				// a product with a constant factor and a quotient with a constant divisor are linear
				lin := (op.Name == "Mul" && (ops[0].support == 0 || ops[1].support == 0)) || (op.Name == "Div" && ops[1].support == 0)
				if !lin {
					nonlin = true
				}
			}
			for _, t := range append([]int{s.Recv}, s.Tmps...) {
				if t >= 0 {
					delete(live, t)
				}
			}
			live[s.Recv] = &liveNode{stmt: si, temp: s.Recv, val: val, support: support, nonlin: nonlin}
			order = append(order, s.Recv)
			p.Stmts = append(p.Stmts, s)
			done = true
		}
		if !done {
			break
		}
	}
	if len(p.Stmts) == 0 {
		return nil, false
	}
	last := live[p.Stmts[len(p.Stmts)-1].Recv]
	return p, last.support != 0 && last.nonlin
}

/* directed single-operation cases
 * -------------------------------------------------------------------------- */

type dpoint struct {
	op   string
	x    []float64
	par  float64
	k    int
	note string
}

func directedPoints() []dpoint {
	var l []dpoint
	mon := func(op string, xs ...float64) {
		for _, x := range xs {
			l = append(l, dpoint{op: op, x: []float64{x}})
		}
	}
	dy := func(op string, ps ...[2]float64) {
		for _, p := range ps {
			l = append(l, dpoint{op: op, x: []float64{p[0], p[1]}})
		}
	}
	nxt := func(x float64) []float64 {
		return []float64{math.Nextafter(x, math.Inf(-1)), x, math.Nextafter(x, math.Inf(1))}
	}
	nz := math.Copysign(0, -1)
	mon("Neg", 1.5, -2.25, 0)
	mon("Abs", 1.5, -2.25, 0, nz, 1e-300, -1e-300)
	mon("Sqrt", 0.25, 2, 9, 1e-3, 1e4)
	mon("Sin", 0, 0.5, 1.5707963267948966, 3, -2, 30)
	mon("Cos", 0, 0.5, 1.5707963267948966, 3, -2, 30)
	mon("Tan", 0, 0.5, 1.2, -1.4, 3, 10)
	mon("Sinh", 0, 0.5, -3, 10)
	mon("Cosh", 0, 0.5, -3, 10)
	mon("Tanh", 0, 0.5, -1, 2, 3, 4, 5, 8, -8, 12, 19, 25)
	mon("Exp", 0, 1, -3, 10, -20)
	mon("Log", 1, 0.5, 2, 10, 1e-3, 1e5)
	mon("Log1p", 0, 0.5, -0.5, 1e-8, -0.9, 20)
	for _, b := range []float64{-37, 18, 33.3} {
		mon("Log1pExp", nxt(b)...)
	}
	mon("Log1pExp", -40, -38, -36, -10, 0, 1, 10, 17, 19, 20, 25, 30, 33, 34, 39)
	mon("Logistic", 0, 1, -1, 5, -5, 20, -20, 36, -36)
	mon("Sigmoid", 0, nz, 5e-324, -5e-324, 1, -1, 5, -5, 20, -20, 36, -36)
	mon("Erf", 0, 0.5, -1, 2, 3, -4)
	mon("Erfc", 0, 0.5, -1, 2, 3, -4)
	mon("LogErfc", 0, 0.1, -0.1, 0.15, 0.16, 0.5, -1, -3, 2, 5, 7.9, 8, 8.1, 10, 15, 20, 24)
	mon("Gamma", 0.5, 1, 1.5, 2, 3.5, 10, -0.5, -1.5, -2.5, 0.1)
	mon("Lgamma", 0.5, 1, 1.5, 2, 3.5, 10, 50, -0.5, -1.5, -2.5, -3.5, 0.1)
	for k := 1; k <= 4; k++ {
		for _, x := range []float64{float64(k-1)/2 + 0.2, float64(k) + 0.5, 10} {
			l = append(l, dpoint{op: "Mlgamma", x: []float64{x}, k: k})
		}
	}
	for _, a := range []float64{0.5, 1, 2.5, 7.25, 12} {
		for _, x := range []float64{0.1, 0.7, 2, 6, 15} {
			l = append(l, dpoint{op: "GammaP", x: []float64{x}, par: a})
		}
	}
	for _, v := range []float64{0, 1, 0.5, 2, 3.25} {
		for _, x := range []float64{0.1, 0.4, 1, 5, 20} {
			l = append(l, dpoint{op: "BesselI", x: []float64{x}, par: v})
			l = append(l, dpoint{op: "LogBesselI", x: []float64{x}, par: v})
		}
	}
	dy("Add", [2]float64{1.5, -2}, [2]float64{0, 0}, [2]float64{1e3, 1e-3})
	dy("Sub", [2]float64{1.5, -2}, [2]float64{2, 2}, [2]float64{1e3, 1e-3})
	dy("Mul", [2]float64{1.5, -2}, [2]float64{0, 3}, [2]float64{1e3, 1e-3})
	dy("Div", [2]float64{1.5, -2}, [2]float64{0, 3}, [2]float64{1e3, 1e-3}, [2]float64{-7, 0.25})
	dy("Min", [2]float64{1, 2}, [2]float64{2, 1}, [2]float64{1, 1}, [2]float64{0, nz}, [2]float64{-3, -3})
	dy("Max", [2]float64{1, 2}, [2]float64{2, 1}, [2]float64{1, 1}, [2]float64{0, nz}, [2]float64{-3, -3})
	dy("Pow", [2]float64{2, 3}, [2]float64{2, 0.5}, [2]float64{2, 1.5}, [2]float64{2, -1}, [2]float64{0.5, 2.5}, [2]float64{3, 0}, [2]float64{3, 1},
		[2]float64{3, 2}, [2]float64{10, -2.5}, [2]float64{1, 7}, [2]float64{-2, 3}, [2]float64{-2, 2}, [2]float64{-1.5, -1}, [2]float64{-3, 0},
		[2]float64{0, 2}, [2]float64{0, 3}, [2]float64{0, 1}, [2]float64{0, 0.5}, [2]float64{0, 1.5}, [2]float64{0, 0})
	ninf := math.Inf(-1)
	dy("LogAdd", [2]float64{1, 2}, [2]float64{2, 1}, [2]float64{1, 1}, [2]float64{-3, -3}, [2]float64{0, -40}, [2]float64{-40, 0}, [2]float64{ninf, 1},
		[2]float64{1, ninf}, [2]float64{ninf, ninf}, [2]float64{30, 30.5})
	dy("LogSub", [2]float64{2, 1}, [2]float64{1, -1}, [2]float64{0, -40}, [2]float64{1, 0.999}, [2]float64{1, ninf}, [2]float64{3, 3}, [2]float64{30, 29.5},
		[2]float64{0.5, 0.25})
	return l
}

// randJet draws a jet with dyadic derivative slots around value v.
func randJet(r *prng.Rand, v float64, n, order int) Jet {
	j := Jet{V: v, N: n, O: order, G: make([]float64, n)}
	nz := false
	for i := range j.G {
		j.G[i] = float64(r.Range(-4, 4)) / 2
		nz = nz || j.G[i] != 0
	}
	if !nz {
		j.G[0] = 1
	}
	if order >= 2 {
		j.H = make([]float64, n*n)
		for a := 0; a < n; a++ {
			for b := a; b < n; b++ {
				x := float64(r.Range(-4, 4)) / 2
				j.H[a*n+b], j.H[b*n+a] = x, x
			}
		}
	}
	return j
}

// operand variants of a directed dyadic point
var dyVariants = [][2]string{{"j", "j"}, {"j", "c"}, {"c", "j"}, {"j", "r"}, {"j", "f"}}

func directedProgram(r *prng.Rand, d dpoint, T string, order, variant int) *program {
	p := &program{T: T, Order: order, NVar: r.Range(1, 3), Direct: true}
	p.Pool = []dirty{{N: r.Range(1, 4), Order: r.Range(1, 2), Fill: 2.5}, {Fill: -1.5}, {N: p.NVar, Order: order, Fill: 0.5}}
	op := c02.OpByName(d.op)
	s := stmt{Op: d.op, Kind: op.Kind, Par: d.par, K: d.k, Recv: r.Intn(2)}
	kinds := []string{"j"}
	if len(d.x) == 2 {
		v := dyVariants[variant%len(dyVariants)]
		kinds = []string{v[0], v[1]}
	}
	for i, x := range d.x {
		if kinds[i] == "j" {
			p.Inputs = append(p.Inputs, randJet(r, p.hold(x), p.NVar, order))
			s.Args = append(s.Args, ref{Kind: "v", Idx: len(p.Inputs) - 1})
		} else {
			v := x
			if kinds[i] == "r" {
				v = p.hold(x)
			}
			s.Args = append(s.Args, ref{Kind: kinds[i], Val: v})
		}
	}
	switch op.Kind {
	case c02.DyT, c02.MonT:
		s.Tmps = []int{2}
	}
	p.Stmts = []stmt{s}
	return p
}

// Run is the C01 workload.
func Run(c *fw.Ctx) {
	pts := directedPoints()
	reps := c.N(1, 4)
	// (1) directed: every operation x branch point x order x {Real32, Real64} (x operand-kind variant for two-argument operations)
	var dl []struct {
		d       dpoint
		T       string
		order   int
		variant int
	}
	for _, d := range pts {
		nv := 1
		if len(d.x) == 2 {
			nv = len(dyVariants)
		}
		for v := 0; v < nv; v++ {
			for _, T := range []string{"Real64", "Real32"} {
				for order := 1; order <= 2; order++ {
					dl = append(dl, struct {
						d       dpoint
						T       string
						order   int
						variant int
					}{d, T, order, v})
				}
			}
		}
	}
	c.Cases("directed", len(dl)*reps, func(cs *fw.Case) {
		e := dl[cs.Index%len(dl)]
		p := directedProgram(cs.R, e.d, e.T, e.order, e.variant)
		runProgram(cs, p, true)
	})
	// (1b) directed reductions with coordinates exactly at 0 / -0, as activated variables and as explicit jets
	dr := directedReductions()
	c.Cases("directed-reductions", len(dr), func(cs *fw.Case) {
		runProgram(cs, reductionProgram(cs.R, dr[cs.Index]), true)
	})
	// (2) random programs
	c.Cases("programs", c.N(3000, 60000), func(cs *fw.Case) {
		p, nt := genProgram(cs.R)
		if p == nil {
			cs.Skip("no-program")
			return
		}
		runProgram(cs, p, nt)
	})
}
