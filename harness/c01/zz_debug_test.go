package c01

import (
	"fmt"

	"testing"

	ad "github.com/pbenner/autodiff"

	"verifharness/internal/prng"
)

func TestDebug(t *testing.T) {
	debugHook = func(si int, recv ad.ConstScalar, v ad.ConstVector) {
		if v == nil {
			return
		}
		fmt.Println("  recv", snap(recv))
		for i := 0; i < v.Dim(); i++ {
			fmt.Println("  elem", si, i, snap(v.ConstAt(i)))
		}
	}
	for _, idx := range []int{25} {
		p, _ := genProgram(prng.For(1, "programs", idx))
		rec2 := &recorder{p: p, viol: func(a, b, c, d string) { fmt.Println("VIOL", a, b, c, d) }}
		p.exec(p.makeInputs(), rec2, false)
		q := *p
		q.Order = 1
		rec1 := &recorder{p: &q, viol: func(a, b, c, d string) { fmt.Println("VIOL", a, b, c, d) }}
		q.exec(q.makeInputs(), rec1, false)
		for i := range rec1.results {
			fmt.Println(idx, i, p.Stmts[i].Op, p.Stmts[i].Storage, p.Stmts[i].Recv, p.Stmts[i].Tmps, rec1.results[i].V, rec1.results[i].G, "|", rec2.results[i].V, rec2.results[i].G)
		}
		fmt.Println(p.Pool)
	}
}
