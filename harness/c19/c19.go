// Package c19: the AVL tree against a set model, after every operation of a
// random or exhaustively enumerated history (DESIGN.md, C19).
package c19

import (
	"fmt"
	"sort"
	"strings"

	ad "github.com/pbenner/autodiff"

	"verifharness/internal/fw"
	"verifharness/internal/prng"
)

type op struct {
	Kind string // ins del clone iter iterFrom next iclone find
	Key  int
	T    int // tree index
	I    int // iterator index
}

func (o op) String() string { return fmt.Sprintf("%s(t%d,i%d,%d)", o.Kind, o.T, o.I, o.Key) }

type itModel struct {
	tree int
	cur  int
	done bool
	it   *ad.AvlIterator
	// snapshot iterators (SafeIterator, SafeIteratorFrom) walk the set as it was when they were created
	frozen map[int]bool
}

type world struct {
	trees  []*ad.AvlTree
	models []map[int]bool
	its    []*itModel
	uni    []int
}

func sorted(m map[int]bool) []int {
	r := make([]int, 0, len(m))
	for k := range m {
		r = append(r, k)
	}
	sort.Ints(r)
	return r
}

// ceil returns the smallest element >= k.
func ceil(m map[int]bool, k int) (int, bool) {
	best, ok := 0, false
	for x := range m {
		if x >= k && (!ok || x < best) {
			best, ok = x, true
		}
	}
	return best, ok
}

func sizeClass(n int) string {
	switch {
	case n == 0:
		return "empty"
	case n <= 3:
		return "1-3"
	case n <= 15:
		return "4-15"
	default:
		return "16+"
	}
}

// checkStructure verifies BST order, parent links, balance factors and the
// absence of deleted nodes; returns the height.
func checkStructure(n, parent *ad.AvlNode, lo, hi *int, errs *[]string) int {
	if n == nil {
		return 0
	}
	if n.Parent != parent {
		*errs = append(*errs, fmt.Sprintf("parent:node %d has wrong parent link", n.Value))
	}
	if n.Deleted {
		*errs = append(*errs, fmt.Sprintf("deleted-reachable:node %d", n.Value))
	}
	if lo != nil && n.Value <= *lo || hi != nil && n.Value >= *hi {
		*errs = append(*errs, fmt.Sprintf("order:node %d violates BST order", n.Value))
	}
	hl := checkStructure(n.Left, n, lo, &n.Value, errs)
	hr := checkStructure(n.Right, n, &n.Value, hi, errs)
	if n.Balance != hr-hl {
		*errs = append(*errs, fmt.Sprintf("balance:node %d stores balance %d, heights give %d", n.Value, n.Balance, hr-hl))
	}
	if hr-hl < -1 || hr-hl > 1 {
		*errs = append(*errs, fmt.Sprintf("balance:node %d is out of balance (%d)", n.Value, hr-hl))
	}
	if hl > hr {
		return hl + 1
	}
	return hr + 1
}

func shape(n *ad.AvlNode, b *strings.Builder) {
	if n == nil {
		b.WriteByte('.')
		return
	}
	b.WriteByte('(')
	shape(n.Left, b)
	shape(n.Right, b)
	b.WriteByte(')')
}

// apply executes one operation on the world and compares with the model.
// It returns failure kinds (empty when the step held).
func (w *world) apply(o op, cs *fw.Case) []string {
	var fails []string
	fail := func(kind, msg string) { fails = append(fails, kind+":"+msg) }
	t := w.trees[o.T]
	m := w.models[o.T]
	switch o.Kind {
	case "ins":
		want := !m[o.Key]
		var got bool
		if p := fw.Call(func() { got = t.Insert(o.Key) }); p != nil {
			fail("panic", p.Msg)
			return fails
		}
		m[o.Key] = true
		if got != want {
			fail("return", fmt.Sprintf("Insert(%d) returned %v, set changed: %v", o.Key, got, want))
		}
	case "del":
		want := m[o.Key]
		var got bool
		if p := fw.Call(func() { got = t.Delete(o.Key) }); p != nil {
			fail("panic", p.Msg)
			return fails
		}
		delete(m, o.Key)
		if got != want {
			fail("return", fmt.Sprintf("Delete(%d) returned %v, set changed: %v", o.Key, got, want))
		}
	case "clone":
		var c *ad.AvlTree
		if p := fw.Call(func() { c = t.Clone() }); p != nil {
			fail("panic", p.Msg)
			return fails
		}
		cm := map[int]bool{}
		for k := range m {
			cm[k] = true
		}
		w.trees = append(w.trees, c)
		w.models = append(w.models, cm)
	case "iter":
		var it *ad.AvlIterator
		if p := fw.Call(func() { it = t.Iterator() }); p != nil {
			fail("panic", p.Msg)
			return fails
		}
		im := &itModel{tree: o.T, it: it}
		if s := sorted(m); len(s) == 0 {
			im.done = true
		} else {
			im.cur = s[0]
		}
		w.its = append(w.its, im)
		fails = append(fails, w.checkIt(im, "iterator-start")...)
	case "iterFrom":
		var it *ad.AvlIterator
		if p := fw.Call(func() { it = t.IteratorFrom(o.Key) }); p != nil {
			fail("panic", p.Msg)
			return fails
		}
		im := &itModel{tree: o.T, it: it}
		if c, ok := ceil(m, o.Key); ok {
			im.cur = c
		} else {
			im.done = true
		}
		w.its = append(w.its, im)
		fails = append(fails, w.checkIt(im, "iterator-start")...)
	case "safeIter", "safeIterFrom":
		var it *ad.AvlIterator
		if p := fw.Call(func() {
			if o.Kind == "safeIter" {
				it = t.SafeIterator()
			} else {
				it = t.SafeIteratorFrom(o.Key)
			}
		}); p != nil {
			fail("panic", p.Msg)
			return fails
		}
		fm := map[int]bool{}
		for k := range m {
			fm[k] = true
		}
		im := &itModel{tree: o.T, it: it, frozen: fm}
		from := -1 << 30
		if o.Kind == "safeIterFrom" {
			from = o.Key
		}
		if c, ok := ceil(fm, from); ok {
			im.cur = c
		} else {
			im.done = true
		}
		w.its = append(w.its, im)
		fails = append(fails, w.checkIt(im, "iterator-start")...)
	case "iclone":
		if o.I >= len(w.its) {
			return nil
		}
		src := w.its[o.I]
		c := src.it.Clone()
		im := &itModel{tree: src.tree, it: &c, cur: src.cur, done: src.done, frozen: src.frozen}
		w.its = append(w.its, im)
		fails = append(fails, w.checkIt(im, "iterator-clone")...)
	case "next":
		if o.I >= len(w.its) {
			return nil
		}
		im := w.its[o.I]
		mm := w.models[im.tree]
		if im.frozen != nil {
			mm = im.frozen
			cs.Cover("next-on-snapshot-iterator")
		}
		if p := fw.Call(func() { im.it.Next() }); p != nil {
			fail("panic", p.Msg)
			return fails
		}
		if !im.done {
			if c, ok := ceil(mm, im.cur+1); ok {
				if !mm[im.cur] {
					cs.Cover("next-after-delete-of-current")
				}
				im.cur = c
			} else {
				im.done = true
			}
		}
		fails = append(fails, w.checkIt(im, "iterator-next")...)
	case "find":
		var n, nle *ad.AvlNode
		if p := fw.Call(func() { n = t.FindNode(o.Key); nle = t.FindNodeLE(o.Key) }); p != nil {
			fail("panic", p.Msg)
			return fails
		}
		if (n != nil) != m[o.Key] || (n != nil && n.Value != o.Key) {
			fail("membership", fmt.Sprintf("FindNode(%d) found=%v, in set=%v", o.Key, n != nil, m[o.Key]))
		}
		c, ok := ceil(m, o.Key)
		if (nle != nil) != ok || (ok && nle.Value != c) {
			got := "nil"
			if nle != nil {
				got = fmt.Sprint(nle.Value)
			}
			fail("membership", fmt.Sprintf("FindNodeLE(%d) = %s, smallest element >= key: %d (exists %v)", o.Key, got, c, ok))
		}
	}
	// global checks on every tree after every operation
	for ti, tr := range w.trees {
		mm := w.models[ti]
		var errs []string
		checkStructure(tr.Root, nil, nil, nil, &errs)
		for _, e := range errs {
			fails = append(fails, e)
		}
		for _, k := range w.uni {
			if (tr.FindNode(k) != nil) != mm[k] {
				fail("membership", fmt.Sprintf("tree %d: key %d found=%v, in set=%v", ti, k, !mm[k], mm[k]))
			}
		}
		// full ascending iteration
		var seq []int
		if p := fw.Call(func() {
			n := 0
			for it := tr.Iterator(); it.Ok(); it.Next() {
				seq = append(seq, it.Get())
				if n++; n > len(mm)+5 {
					break
				}
			}
		}); p != nil {
			fail("panic", "full iteration: "+p.Msg)
		} else if fmt.Sprint(seq) != fmt.Sprint(sorted(mm)) {
			fail("order", fmt.Sprintf("tree %d iterates %v, set is %v", ti, seq, sorted(mm)))
		}
	}
	return fails
}

func (w *world) checkIt(im *itModel, kind string) []string {
	ok := im.it.Ok()
	if ok == im.done {
		if im.done {
			return []string{fmt.Sprintf("%s:iterator still Ok()=true at %d, model is exhausted", strings.Replace(kind, "iterator-next", "iterator-repeat", 1), im.it.Get())}
		}
		return []string{fmt.Sprintf("%s:iterator exhausted, model expects %d", strings.Replace(kind, "iterator-next", "iterator-skip", 1), im.cur)}
	}
	if ok && im.it.Get() != im.cur {
		k := kind
		if kind == "iterator-next" {
			if im.it.Get() > im.cur {
				k = "iterator-skip"
			} else {
				k = "iterator-repeat"
			}
		}
		return []string{fmt.Sprintf("%s:iterator at %d, model expects %d", k, im.it.Get(), im.cur)}
	}
	return nil
}

func newWorld(uni []int) *world {
	return &world{trees: []*ad.AvlTree{ad.NewAvlTree()}, models: []map[int]bool{{}}, uni: uni}
}

func runHistory(cs *fw.Case, uni []int, ops []op) {
	w := newWorld(uni)
	structural, readsAfter := 0, 0
	for step, o := range ops {
		if o.T >= len(w.trees) {
			o.T = 0
		}
		size := len(w.models[o.T])
		fails := w.apply(o, cs)
		cs.Cover("op:" + o.Kind)
		switch o.Kind {
		case "ins", "del":
			structural++
		case "next", "find":
			if structural > 0 {
				readsAfter++
			}
		}
		if len(fails) > 0 {
			seen := map[string]bool{}
			for _, f := range fails {
				kind := f[:strings.Index(f, ":")]
				if seen[kind] {
					continue
				}
				seen[kind] = true
				hist := make([]string, 0, step+1)
				for _, h := range ops[:step+1] {
					hist = append(hist, h.String())
				}
				cs.Violation(fmt.Sprintf("C19|%s|%s|size=%s|%s", cs.Monitor, o.Kind, sizeClass(size), kind), f,
					map[string]any{"universe": uni, "history": hist, "failed_at_step": step})
			}
			return
		}
	}
	var b strings.Builder
	shape(w.trees[0].Root, &b)
	cs.Cover("final-size:" + sizeClass(len(w.models[0])))
	if structural > 0 && readsAfter > 0 {
		hist := make([]string, 0, len(ops))
		for _, h := range ops {
			hist = append(hist, h.String())
		}
		cs.Nontrivial(uni, hist)
	}
	cs.C.Cover("set:tree-shape:"+b.String(), 1)
}

func randomHistory(r *prng.Rand, uni []int, n int) []op {
	ops := make([]op, 0, n)
	ntrees, nits := 1, 0
	// phases bias towards growth first, then mixed, then shrink
	for i := 0; i < n; i++ {
		phase := i * 3 / n
		pIns := []float64{0.55, 0.3, 0.12}[phase]
		pDel := []float64{0.1, 0.25, 0.4}[phase]
		u := r.Float64()
		key := uni[r.Intn(len(uni))]
		t := r.Intn(ntrees)
		switch {
		case u < pIns:
			ops = append(ops, op{Kind: "ins", Key: key, T: t})
		case u < pIns+pDel:
			ops = append(ops, op{Kind: "del", Key: key, T: t})
		case u < pIns+pDel+0.02 && ntrees < 3:
			ops = append(ops, op{Kind: "clone", T: t})
			ntrees++
		case u < pIns+pDel+0.07 && nits < 4:
			if r.Bool() {
				ops = append(ops, op{Kind: "iter", T: t})
			} else {
				ops = append(ops, op{Kind: "iterFrom", Key: key + r.Range(-1, 1), T: t})
			}
			nits++
		case u < pIns+pDel+0.09 && nits > 0 && nits < 4:
			ops = append(ops, op{Kind: "iclone", I: r.Intn(nits)})
			nits++
		case u < pIns+pDel+0.16:
			ops = append(ops, op{Kind: "find", Key: key + r.Range(-1, 1), T: t})
		default:
			if nits > 0 {
				ops = append(ops, op{Kind: "next", I: r.Intn(nits)})
			} else {
				ops = append(ops, op{Kind: "ins", Key: key, T: t})
			}
		}
	}
	return ops
}

// Run is the C19 workload.
func Run(c *fw.Ctx) {
	// (1) random histories over small dense universes (many collisions)
	c.Cases("dense", c.N(4000, 250000), func(cs *fw.Case) {
		r := cs.R
		k := []int{4, 6, 8, 12, 16, 24, 32, 64}[r.Intn(8)]
		uni := make([]int, k)
		for i := range uni {
			uni[i] = i*2 - 3 // odd spacing so that key±1 probes fall between elements; includes negatives
		}
		n := r.Range(50, 400)
		ops := randomHistory(r, uni, n)
		if cs.Index < 2 {
			cs.Sample(map[string]any{"universe": uni, "ops": len(ops), "first_ops": fmt.Sprint(ops[:12])})
		}
		runHistory(cs, uni, ops)
	})
	// (2) sparse large keys including negative and extreme values
	c.Cases("sparse-keys", c.N(1500, 100000), func(cs *fw.Case) {
		r := cs.R
		k := r.Range(4, 40)
		seen := map[int]bool{}
		var uni []int
		for len(uni) < k {
			v := int(int32(r.Uint64()))
			if r.Chance(0.1) {
				v = []int{-1 << 62, 1<<62 - 1, 0, -1, 1}[r.Intn(5)]
			}
			if !seen[v] {
				seen[v] = true
				uni = append(uni, v)
			}
		}
		ops := randomHistory(r, uni, r.Range(50, 300))
		runHistory(cs, uni, ops)
	})
	// (3) iterator stress: build a tree, start iterators, then interleave
	// deletions/insertions with Next so that the current element is often the one deleted
	c.Cases("iterator-stress", c.N(2000, 100000), func(cs *fw.Case) {
		r := cs.R
		k := r.Range(5, 40)
		uni := make([]int, k)
		for i := range uni {
			uni[i] = i
		}
		var ops []op
		for _, i := range r.Perm(k) {
			if r.Chance(0.8) {
				ops = append(ops, op{Kind: "ins", Key: uni[i]})
			}
		}
		nits := r.Range(1, 4)
		for i := 0; i < nits; i++ {
			if r.Bool() {
				ops = append(ops, op{Kind: "iter"})
			} else {
				ops = append(ops, op{Kind: "iterFrom", Key: r.Intn(k)})
			}
		}
		// track an approximate position to aim deletions at the current element
		pos := 0
		for i := 0; i < 3*k; i++ {
			u := r.Float64()
			switch {
			case u < 0.35:
				ops = append(ops, op{Kind: "next", I: r.Intn(nits)})
				pos++
			case u < 0.7:
				key := pos + r.Range(-2, 3)
				if key < 0 {
					key = 0
				}
				if key >= k {
					key = k - 1
				}
				ops = append(ops, op{Kind: "del", Key: key})
			default:
				ops = append(ops, op{Kind: "ins", Key: r.Intn(k)})
			}
		}
		runHistory(cs, uni, ops)
	})
	// (3b) snapshot iterators: SafeIterator / SafeIteratorFrom iterate a private copy, so whatever happens to
	// the tree afterwards (deletes around and ahead of the position, inserts of larger and smaller keys,
	// clones) the iterator must walk the set as it was when it was created; plain iterators on the same
	// tree run alongside.
	c.Cases("snapshot-iterators", c.N(2000, 100000), func(cs *fw.Case) {
		r := cs.R
		k := r.Range(2, 40)
		uni := make([]int, k)
		for i := range uni {
			uni[i] = i
		}
		var ops []op
		for _, i := range r.Perm(k) {
			if r.Chance(0.7) {
				ops = append(ops, op{Kind: "ins", Key: uni[i]})
			}
		}
		nits := r.Range(1, 4)
		for i := 0; i < nits; i++ {
			switch r.Intn(4) {
			case 0:
				ops = append(ops, op{Kind: "safeIter"})
			case 1, 2:
				ops = append(ops, op{Kind: "safeIterFrom", Key: r.Range(-1, k)})
			default:
				ops = append(ops, op{Kind: "iterFrom", Key: r.Intn(k)})
			}
			// mutate between the creations as well
			if r.Bool() {
				ops = append(ops, op{Kind: "del", Key: r.Intn(k)})
			}
		}
		pos := 0
		for i := 0; i < 3*k; i++ {
			u := r.Float64()
			switch {
			case u < 0.35:
				ops = append(ops, op{Kind: "next", I: r.Intn(nits)})
				pos++
			case u < 0.65:
				key := pos + r.Range(-2, 4)
				if key < 0 {
					key = 0
				}
				if key >= k {
					key = k - 1
				}
				ops = append(ops, op{Kind: "del", Key: key})
			case u < 0.7 && nits < 6:
				ops = append(ops, op{Kind: "iclone", I: r.Intn(nits)})
				nits++
			default:
				ops = append(ops, op{Kind: "ins", Key: r.Intn(k)})
			}
		}
		runHistory(cs, uni, ops)
	})
	// (4) exhaustive: every history of length L over the alphabet
	// {ins k, del k, next} with one live iterator started after the first two
	// operations, universe of U keys.
	U, L := 4, c.N(6, 7)
	alpha := []op{}
	for k := 0; k < U; k++ {
		alpha = append(alpha, op{Kind: "ins", Key: k}, op{Kind: "del", Key: k})
	}
	alpha = append(alpha, op{Kind: "next", I: 0})
	total := 1
	for i := 0; i < L; i++ {
		total *= len(alpha)
	}
	uni := []int{0, 1, 2, 3}
	// group 2000 enumerated histories per case to keep the event log small
	const group = 2000
	c.Cases("exhaustive", (total+group-1)/group, func(cs *fw.Case) {
		for h := cs.Index * group; h < (cs.Index+1)*group && h < total; h++ {
			ops := make([]op, 0, L+1)
			x := h
			for i := 0; i < L; i++ {
				if i == 2 {
					ops = append(ops, op{Kind: "iter"})
				}
				ops = append(ops, alpha[x%len(alpha)])
				x /= len(alpha)
			}
			sub := *cs
			runHistory(&sub, uni, ops)
			if sub.Violations() > 0 {
				cs.Cover("exhaustive-histories-failed")
				*cs = sub
				return
			}
			cs.Cover("exhaustive-histories")
		}
		cs.Nontrivial("exhaustive", cs.Index)
	})
}
