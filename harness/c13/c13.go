// Package c13: special functions over their whole domain (DESIGN.md, C13).
//
// The worker only *drives* the library and records (function, arguments,
// returned float64) events; every verdict is taken offline by
// driver/oracles/c13.py (mpmath reference, conditioning-scaled tolerance,
// recurrences and complements on the library's own outputs).
//
// One case = a handful of argument points of one function family; every point
// is pushed through all functions of the family.  Directed lists place points
// on (and +-1, +-8 ulps, +-1e-3 relative around) every algorithm-selection
// threshold read from the sources in /repo/special; sweep lists are seeded.
package c13

import (
	"math"
	"strconv"

	"verifharness/internal/fw"
)

/* recorder
 * -------------------------------------------------------------------------- */

// rec collects the evaluations of one case; flush writes them as one data
// event  {"e": [[fn, [ints], [hex floats], hex result | "panic:<msg>"], ...]}.
type rec struct {
	evs [][]any
}

func hx(x float64) string { return strconv.FormatFloat(x, 'x', -1, 64) }

func (b *rec) call(name string, ns []int, xs []float64, fn func() float64) {
	var r float64
	hs := make([]string, len(xs))
	for i, x := range xs {
		hs[i] = hx(x)
	}
	if ns == nil {
		ns = []int{}
	}
	var res string
	if p := fw.Call(func() { r = fn() }); p != nil {
		if p.Budget {
			res = "budget:" + p.Site
		} else {
			msg := p.Msg
			if len(msg) > 120 {
				msg = msg[:120]
			}
			res = "panic:" + msg + " @" + p.Frame
		}
	} else {
		res = hx(r)
	}
	b.evs = append(b.evs, []any{name, ns, hs, res})
}

func (b *rec) flush(cs *fw.Case) {
	if len(b.evs) == 0 {
		cs.Skip("empty")
		return
	}
	cs.C.Data(map[string]any{"e": b.evs})
	cs.C.Cover("evaluations", int64(len(b.evs)))
	cs.Cover("cases:" + cs.Monitor)
	switch cs.Monitor { // a few written-out cases for the evidence (the oracle adds judged ones with reference and tolerance)
	case "gammainc.sweep", "psi.sweep", "bessel.sweep", "misc.sweep":
		cs.Sample(map[string]any{"first_evaluation": b.evs[0], "evaluations_in_case": len(b.evs)})
	}
}

/* floating-point helpers
 * -------------------------------------------------------------------------- */

// ulps moves x by k units in the last place (k may be negative).
func ulps(x float64, k int) float64 {
	for ; k > 0; k-- {
		x = math.Nextafter(x, math.Inf(1))
	}
	for ; k < 0; k++ {
		x = math.Nextafter(x, math.Inf(-1))
	}
	return x
}

// cluster returns x and its neighbourhood: +-1, +-8 ulps, +-1e-3 relative
// (thorough: also +-2, +-64 ulps, +-1e-6 relative).
func cluster(x float64, thorough bool) []float64 {
	if math.IsInf(x, 0) || math.IsNaN(x) {
		return []float64{x}
	}
	r := []float64{x, ulps(x, 1), ulps(x, -1), ulps(x, 8), ulps(x, -8), x * (1 + 1e-3), x * (1 - 1e-3)}
	if thorough {
		r = append(r, ulps(x, 2), ulps(x, -2), ulps(x, 64), ulps(x, -64), x*(1+1e-6), x*(1-1e-6))
	}
	return r
}

// snap rounds x to a multiple of 2^-30 when |x| < 2^20 so that x+-1 and x+-2 are
// exact (needed by the recurrences, which are stated for exact shifts).
func snap(x float64) float64 {
	if math.Abs(x) < 1<<20 {
		return math.Round(x*(1<<30)) / (1 << 30)
	}
	return x
}

func exactShift(x, d float64) bool {
	y := x + d
	return y-d == x && !math.IsInf(y, 0)
}

func isInt(x float64) bool { return x == math.Floor(x) && !math.IsInf(x, 0) }

func dedupe(xs []float64) []float64 {
	out := xs[:0:0]
	for _, x := range xs {
		dup := false
		for _, y := range out {
			if math.Float64bits(x) == math.Float64bits(y) {
				dup = true
				break
			}
		}
		if !dup {
			out = append(out, x)
		}
	}
	return out
}

/* entry point
 * -------------------------------------------------------------------------- */

func Run(c *fw.Ctx) {
	runGammaInc(c)
	runPsi(c)
	runBessel(c)
	runZeta(c)
	runMisc(c)
}
