package c13

import (
	"math"

	"github.com/pbenner/autodiff/special"

	"verifharness/internal/fw"
	"verifharness/internal/prng"
)

// evalBessel records I_v(x), log I_v(x) and, when v-1 and v+1 are exact, the
// two neighbours needed by I(v-1,x) - I(v+1,x) = (2v/x) I(v,x).
// Domain: x >= 0 for any real v, x < 0 only for integer v.
func evalBessel(b *rec, v, x float64) {
	if math.IsNaN(v) || math.IsInf(v, 0) || math.IsNaN(x) || math.IsInf(x, 0) {
		return
	}
	if x < 0 && !isInt(v) {
		return
	}
	if math.Abs(v) > 5000 {
		return // forward recurrence is O(|v|); keep cases small
	}
	vx := []float64{v, x}
	b.call("BesselI", nil, vx, func() float64 { return special.BesselI(v, x) })
	b.call("LogBesselI", nil, vx, func() float64 { return special.LogBesselI(v, x) })
	if exactShift(v, 1) && exactShift(v, -1) {
		vm, vp := v-1, v+1
		b.call("BesselI", nil, []float64{vm, x}, func() float64 { return special.BesselI(vm, x) })
		b.call("BesselI", nil, []float64{vp, x}, func() float64 { return special.BesselI(vp, x) })
	}
}

// besselV: orders on the special cases (0, 1/2, 1), integer / half-integer
// orders (iround, reflection with sin(pi v)), MaxFactorial = 170 in the small
// argument series, tiny, large and negative orders.
func besselV() []float64 {
	pos := []float64{0x1p-60, 1e-10, 1e-3, 0.25, ulps(0.5, -1), 0.5, ulps(0.5, 1), 0.75, ulps(1, -1), 1, ulps(1, 1), 1.5, 2, 2.5, 3.3, 7.75, 10, 10.5, 25.25, 50.5, 100,
		169.5, ulps(170, -1), 170, 170.5, 200.75, 1000, 1000.5}
	vs := []float64{0}
	for _, v := range pos {
		vs = append(vs, v, -v)
	}
	return vs
}

// besselX: arguments on the method switches of bessel.go / besselLog.go for
// order v: x = 0, x/v = 1/4 (small-argument series), 2 (Temme series vs CF2),
// 7.75 and 500 (I0/I1 polynomial pieces), 100 and the asymptotic-expansion
// limit ((4v^2+10)/(8x))^4/24 = 10 eps, MaxLogFloat64 = 709 (v = 1/2, exp
// overflow), overflow of I itself.
func besselX(v float64) []float64 {
	av := math.Abs(v)
	asym := (4*v*v + 10) / 8 / math.Pow(24*10*0x1p-52, 0.25)
	xs := []float64{0, 5e-324, 1e-300, 1e-100, 1e-10, 1e-3, 0.1, 1, 2, 3, 7.75, 30, 100, 500, 700, 708, 709, 710, 713.5, 720, 1e3, 1e4, 1e6, 1e8,
		asym, 2 * asym, av / 4, av, 4 * av, av * av}
	if isInt(v) {
		xs = append(xs, -1e-10, -0.5, -2, -7.75, -30, -600)
	}
	return dedupe(xs)
}

type vxPoint struct{ v, x float64 }

func besselSweepPoint(r *prng.Rand) (v, x float64) {
	switch r.Intn(5) {
	case 0:
		v = r.Uniform(-30, 60)
	case 1:
		v = r.LogUniform(1e-10, 1e3)
		if r.Chance(0.3) {
			v = -v
		}
	case 2:
		v = float64(r.Range(-60, 120)) / 2
	case 3:
		v = r.Uniform(0, 5)
	default:
		v = r.Uniform(-200, 400)
	}
	if r.Chance(0.7) {
		v = snap(v)
	}
	switch r.Intn(6) {
	case 0:
		x = r.LogUniform(1e-300, 700)
	case 1:
		x = r.Uniform(0, 50)
	case 2:
		x = math.Abs(v) * r.Uniform(0.2, 0.3)
	case 3:
		x = r.LogUniform(100, 1e7)
	case 4:
		x = r.LogUniform(0.01, 1000)
	default:
		x = math.Abs(v) * math.Exp(r.Norm())
	}
	if isInt(v) && r.Chance(0.15) {
		x = -x
	}
	return
}

func runBessel(c *fw.Ctx) {
	var dir []vxPoint
	dir = append(dir, vxPoint{2, 1e4}, vxPoint{-0.5, 0}, vxPoint{2.5, 3})
	// witnesses first seen in sweeps
	dir = append(dir, vxPoint{24, -5828708.299405402}, vxPoint{-16, -4686819.109409058}, vxPoint{-4.484888260252774, 8.257571924653318e-252},
		vxPoint{389.9446435254067, 803.4331144174502}, vxPoint{-829.8648253731199, 1032.379186123548})
	for _, v := range besselV() {
		for _, x := range besselX(v) {
			dir = append(dir, vxPoint{v, x})
		}
	}
	c.Cases("bessel.directed", len(dir), func(cs *fw.Case) {
		p := dir[cs.Index]
		b := &rec{}
		for _, x := range cluster(p.x, c.Thorough()) {
			evalBessel(b, p.v, x)
		}
		b.flush(cs)
	})
	c.Cases("bessel.sweep", c.N(1500, 20000), func(cs *fw.Case) {
		b := &rec{}
		for i := 0; i < 4; i++ {
			v, x := besselSweepPoint(cs.R)
			evalBessel(b, v, x)
		}
		b.flush(cs)
	})
}
