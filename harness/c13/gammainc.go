package c13

import (
	"math"

	"github.com/pbenner/autodiff/special"

	"verifharness/internal/fw"
	"verifharness/internal/prng"
)

// evalGammaInc pushes one (a, x) point (a > 0, x >= 0) through the whole
// incomplete-gamma family.
func evalGammaInc(b *rec, a, x float64) {
	if !(a > 0) || !(x >= 0) || math.IsInf(a, 0) || math.IsInf(x, 0) {
		return
	}
	ax := []float64{a, x}
	b.call("GammaP", nil, ax, func() float64 { return special.GammaP(a, x) })
	b.call("GammaQ", nil, ax, func() float64 { return special.GammaQ(a, x) })
	b.call("GammaLower", nil, ax, func() float64 { return special.GammaLower(a, x) })
	b.call("GammaUpper", nil, ax, func() float64 { return special.GammaUpper(a, x) })
	b.call("GammaPfirstDerivative", nil, ax, func() float64 { return special.GammaPfirstDerivative(a, x) })
	b.call("GammaPsecondDerivative", nil, ax, func() float64 { return special.GammaPsecondDerivative(a, x) })
}

// gammaIncA: orders a on and around every a-threshold of gamma.go (1: x==0
// special cases, tgamma1pm1; 10: regularised_gamma_prefix; 20, 200: Temme;
// 30: finite sums; 170: MaxFactorial log forms), integer and half-integer
// orders, tiny and large orders.
func gammaIncA() []float64 {
	n := func(x float64, k int) float64 { return ulps(x, k) }
	return []float64{
		1e-300, 1e-100, 1e-20, 0x1p-52, 1e-10, 1e-5, 1e-3, 0.01, 0.1, 0.3, 0.5, 0.75, 0.9,
		n(1, -1), 1, n(1, 1), 1.25, 1.5, 2, 2.5, 3, 3.3, 4.5, 5, 5.5, 7.7, 9.5, n(10, -1), 10, n(10, 1), 12, 15.5,
		19.99, 20, n(20, 1), 20.5, 25.3, 29, 29.5, n(30, -1), 30, 30.5, 31, 50, 64.5, 100, 150.5,
		169, 169.5, n(170, -1), 170, 170.5, 171, 172.5, 199.9, 200, n(200, 1), 200.5, 250, 500, 1000.5,
		1e4, 12345.678, 1e5, 3e5, 1e6,
	}
}

// gammaIncX: arguments x on the method-selection curves of
// gamma_incomplete_imp for order a, plus the under/overflow guards of the
// prefix functions.
func gammaIncX(a float64) []float64 {
	xs := []float64{
		0, 5e-324, 1e-300, 0x1p-53, 0x1p-52, 1e-10, 1e-3,
		0.2,                // half-integer finite sum switch
		0.5, 0.6, 1.0, 1.1, // small-x method switches, integer finite sum switch
		(a + math.Sqrt(a*a+4.0/3.0)) / 2, // x - 1/(3x) = a : series / continued fraction
		a, a * 0.6, a * 1.4,              // sigma = 0.4 (Temme, 20 < a <= 200)
		a / 4, a * 4, // log forms for a >= 170
		10, 708, 709, 710, 744, 745, 746, // MaxLogFloat64, -MinLogFloat64, limit of the prefix
		1e4, 1e6, 1e10, 1e100, 1e300,
	}
	if a > 1 {
		xs = append(xs, a-1) // a <= x + 1 (finite sums)
	}
	if e := math.Exp(-0.4 / a); e < 0.5 && e > 0 {
		xs = append(xs, e) // -0.4/log(x) = a
	}
	if t := a / 0.75; t >= 0.5 && t < 1.1 {
		xs = append(xs, t) // x*0.75 = a
	}
	if a > 200 {
		s := math.Sqrt(20 / a)
		xs = append(xs, a*(1-s), a*(1+s)) // Temme zone for a > 200
	}
	if a >= 10 {
		// a*log(x/a) = MinLogFloat64 / MaxLogFloat64 and a - x = MinLogFloat64
		if t := a * math.Exp(-744/a); t > 0 {
			xs = append(xs, t)
		}
		if t := a * math.Exp(709/a); !math.IsInf(t, 0) {
			xs = append(xs, t)
		}
		xs = append(xs, a+744)
	}
	return dedupe(xs)
}

type axPoint struct{ a, x float64 }

func gammaIncDirected() []axPoint {
	var l []axPoint
	// witnesses of the pre-survey defects first
	l = append(l, axPoint{0.5, 0.1}, axPoint{5, 2.5}, axPoint{3.3, 1.0}, axPoint{0.01, 0.01}, axPoint{5.5, 2.5})
	// witnesses first seen in sweeps (kept here so that every listed finding has a seed-independent witness)
	l = append(l, axPoint{1.1996836482855808, 3.052436437768275e-269}, axPoint{8.624467920850712, 5.28421872237198e-37},
		axPoint{10000, 10000.000033333336}, axPoint{300000, 300709.83846205834},
		axPoint{224728.5937846063, 206930.50703866268}, axPoint{178.50676271976246, 90.85211842562948}, axPoint{171.57221180725455, 115.12335181183361})
	for _, a := range gammaIncA() {
		for _, x := range gammaIncX(a) {
			l = append(l, axPoint{a, x})
		}
	}
	return l
}

func gammaIncSweepPoint(r *prng.Rand) (a, x float64) {
	switch r.Intn(7) {
	case 0: // central region, where P ~ Q ~ 1/2
		a = r.LogUniform(1e-10, 1e6)
		x = a * math.Exp(r.Norm()*0.05)
	case 1:
		a = r.LogUniform(0.01, 1e5)
		x = a * math.Exp(r.Norm())
	case 2:
		a = r.LogUniform(1e-10, 1e6)
		x = r.LogUniform(1e-300, 1e7)
	case 3: // integer and half-integer orders
		a = float64(r.Range(1, 90)) / 2
		x = r.LogUniform(0.01, 200)
	case 4: // tiny orders
		a = r.LogUniform(1e-300, 1e-2)
		x = r.LogUniform(1e-20, 5)
	case 5:
		a = r.Uniform(0, 50)
		x = r.Uniform(0, 60)
	default: // a few standard deviations into either tail
		a = r.LogUniform(1, 1e6)
		x = a + r.Norm()*4*math.Sqrt(a)
		if x < 0 {
			x = -x
		}
	}
	if a == 0 {
		a = 0.5
	}
	return
}

func runGammaInc(c *fw.Ctx) {
	dir := gammaIncDirected()
	c.Cases("gammainc.directed", len(dir), func(cs *fw.Case) {
		p := dir[cs.Index]
		b := &rec{}
		for _, x := range cluster(p.x, c.Thorough()) {
			evalGammaInc(b, p.a, x)
		}
		b.flush(cs)
	})
	c.Cases("gammainc.sweep", c.N(1500, 20000), func(cs *fw.Case) {
		b := &rec{}
		for i := 0; i < 4; i++ {
			a, x := gammaIncSweepPoint(cs.R)
			evalGammaInc(b, a, x)
		}
		b.flush(cs)
	})
}
