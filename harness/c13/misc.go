package c13

import (
	"math"

	ad "github.com/pbenner/autodiff"
	logarithmetic "github.com/pbenner/autodiff/logarithmetic"
	"github.com/pbenner/autodiff/special"

	"verifharness/internal/fw"
	"verifharness/internal/prng"
)

/* LogErfc
 * -------------------------------------------------------------------------- */

func evalLogErfc(b *rec, x float64) {
	if math.IsNaN(x) || math.IsInf(x, 0) {
		return
	}
	b.call("LogErfc", nil, []float64{x}, func() float64 { return special.LogErfc(x) })
}

// thresholds of erfc.go: x*x < 2.4607833005759251e-02, x > 8; under/overflow of
// erfc itself (26.5), of x*x and of the degree-6 polynomial of logErfc8.
func logErfcX() []float64 {
	t := math.Sqrt(2.4607833005759251e-02)
	return []float64{0, 1e-300, -1e-300, 1e-20, -1e-20, 1e-8, -1e-8, 0.01, -0.01, 0.1, -0.1, t, -t, 0.2, -0.2, 0.5, -0.5, 1, -1, 2, -2, 3.5, -3.5, 5.5, -5.5,
		7.5, 8, 8.5, 10, 20, 26.5, 27.3, 30, 100, 1e4, 1e8, 1e20, 1e50, 1e51, 2e51, 1e60, 1e100, 1e150, 1.3e154, 1e200, 1e300, -6, -10, -30, -1e10, -1e300}
}

/* multivariate gamma
 * -------------------------------------------------------------------------- */

// evalMgamma: domain x > (k-1)/2, k >= 1.
func evalMgamma(b *rec, x float64, k int) {
	if k < 1 || !(x > float64(k-1)/2) || math.IsInf(x, 0) {
		return
	}
	b.call("Mgamma", []int{k}, []float64{x}, func() float64 { return special.Mgamma(x, k) })
	b.call("Mlgamma", []int{k}, []float64{x}, func() float64 { return special.Mlgamma(x, k) })
}

type xkPoint struct {
	x float64
	k int
}

func mgammaDirected() []xkPoint {
	var l []xkPoint
	for _, k := range []int{1, 2, 3, 4, 5, 8, 13, 20, 50} {
		lo := float64(k-1) / 2
		for _, d := range []float64{1e-300, 1e-15, 1e-8, 8.212587580675054e-06, 1e-3, 0.25, 0.5, 1, 1.5, 2, 2.5, 3.75, 10, 30.5, 100, 160, 171, 171.7, 180, 1e3, 1e6, 1e15, 1e300} {
			l = append(l, xkPoint{lo + d, k})
		}
	}
	return l
}

/* log-add / log-sub
 * -------------------------------------------------------------------------- */

func evalLogAddSub(b *rec, x, y float64) {
	if math.IsNaN(x) || math.IsNaN(y) || math.IsInf(x, 1) || math.IsInf(y, 1) {
		return
	}
	xy := []float64{x, y}
	b.call("LogAdd", nil, xy, func() float64 { return logarithmetic.LogAdd(x, y) })
	b.call("LogAdd", nil, []float64{y, x}, func() float64 { return logarithmetic.LogAdd(y, x) })
	if x >= y { // log(e^x - e^y) is defined for x >= y only
		b.call("LogSub", nil, xy, func() float64 { return logarithmetic.LogSub(x, y) })
	} else {
		yx := []float64{y, x}
		b.call("LogSub", nil, yx, func() float64 { return logarithmetic.LogSub(y, x) })
	}
}

type xyPoint struct{ x, y float64 }

func logAddSubDirected() []xyPoint {
	ninf := math.Inf(-1)
	var l []xyPoint
	base := []float64{0, 1, -1, 0.5, 3.25, -20, 100, 700, 709.5, 745, -745, -1e5, 1e5, 1e300, -1e300, 1e-300}
	diff := []float64{0, 5e-324, 1e-300, 1e-17, 0x1p-53, 0x1p-52, 1e-10, 1e-3, 0.1, math.Ln2, 1, 5, 18, 33.3, 36.7, 37.5, 40, 100, 700, 745.2, 746, 1e3, 1e10}
	for _, a := range base {
		for _, d := range diff {
			l = append(l, xyPoint{a, a - d})
		}
		l = append(l, xyPoint{a, ninf})
	}
	l = append(l, xyPoint{ninf, ninf})
	return l
}

/* scalar-level Gamma / Lgamma (ad.Float64 wrappers of the gamma family)
 * -------------------------------------------------------------------------- */

func evalGamma(b *rec, x float64) {
	if math.IsNaN(x) || math.IsInf(x, 0) {
		return
	}
	g := func(x float64) func() float64 {
		return func() float64 { return ad.NewFloat64(0).Gamma(ad.NewConstFloat64(x)).GetFloat64() }
	}
	b.call("Gamma", nil, []float64{x}, g(x))
	if exactShift(x, 1) {
		b.call("Gamma", nil, []float64{x + 1}, g(x+1))
	}
	b.call("Lgamma", nil, []float64{x}, func() float64 { return ad.NewFloat64(0).Lgamma(ad.NewConstFloat64(x)).GetFloat64() })
}

func gammaX() []float64 {
	return []float64{1e-300, 1e-20, 0x1p-52, 1e-5, 0.1, 0.5, 1, 1.4616321449683623, 1.5, 2, 2.5, 3, 10, 20.5, 33, 34, 100.5, 143, 170, 171, 171.6, 171.7, 172, 200,
		1e3, 1e10, 1e100, 1e300, 2.5e305, 1e306,
		-1e-300, -1e-20, -1e-5, -0.5, -1, -1.5, -2, -2.5, -10.5, -50.5, -100.5, -170.5, -171.5, -177.5, -180.5, -200.5, -1e5 - 0.5}
}

/* helpers exported by /repo/special
 * -------------------------------------------------------------------------- */

func evalSinCosPi(b *rec, x float64) {
	if math.IsNaN(x) || math.IsInf(x, 0) {
		return
	}
	b.call("SinPi", nil, []float64{x}, func() float64 { return special.SinPi(x) })
	b.call("CosPi", nil, []float64{x}, func() float64 { return special.CosPi(x) })
}

func evalPowm1(b *rec, a, z float64) {
	if !(a > 0) || math.IsInf(a, 0) || math.IsNaN(z) || math.IsInf(z, 0) {
		return
	}
	b.call("Powm1", nil, []float64{a, z}, func() float64 { return special.Powm1(a, z) })
}

func sinCosPiX() []float64 {
	pos := []float64{0, 1e-300, 1e-10, 0.125, 0.25, 0.3, 0.5, 0.75, 1, 1.25, 1.5, 2, 2.5, 3, 7.75, 100.5, 1e6 + 0.25, 0x1p51 + 0.5, 0x1p52, 0x1p52 + 1, 0x1p53, 0x1p62, 0x1p63, 0x1p64, 1e300}
	var xs []float64
	for _, x := range pos {
		xs = append(xs, x, -x)
	}
	return xs
}

func powm1Directed() []xyPoint {
	var l []xyPoint
	for _, a := range []float64{1e-300, 1e-10, 0.1, 0.5, ulps(1, -1), 1, ulps(1, 1), 1.5, 2, math.E, 10, 1e10, 1e300} {
		for _, z := range []float64{0, 1e-300, 1e-10, 0.5, ulps(1, -1), 1, 2, 30.5, 1e3, -1e-10, -0.5, -1, -2, -30.5} {
			l = append(l, xyPoint{a, z})
		}
	}
	return l
}

/* -------------------------------------------------------------------------- */

func miscSweep(b *rec, r *prng.Rand) {
	// LogErfc
	for i := 0; i < 3; i++ {
		var x float64
		switch r.Intn(4) {
		case 0:
			x = r.Norm() * 3
		case 1:
			x = r.LogUniform(1e-10, 1e3)
		case 2:
			x = -r.LogUniform(1e-10, 30)
		default:
			x = r.Uniform(-1, 12)
		}
		evalLogErfc(b, x)
	}
	// Mgamma / Mlgamma
	for i := 0; i < 2; i++ {
		k := r.Range(1, 12)
		if r.Chance(0.1) {
			k = r.Range(13, 60)
		}
		d := r.LogUniform(1e-8, 200)
		if r.Chance(0.2) {
			d = r.LogUniform(100, 1e8)
		}
		evalMgamma(b, float64(k-1)/2+d, k)
	}
	// LogAdd / LogSub
	for i := 0; i < 3; i++ {
		var x, y float64
		switch r.Intn(4) {
		case 0:
			x, y = r.Uniform(-800, 800), r.Uniform(-800, 800)
		case 1:
			x = r.Uniform(-50, 50)
			y = x - r.LogUniform(1e-18, 50)
		case 2:
			x = r.Norm() * 1e4
			y = x * (1 + r.Norm()*1e-12)
		default:
			x, y = r.Norm()*3, r.Norm()*3
		}
		evalLogAddSub(b, x, y)
	}
	// Gamma / Lgamma
	for i := 0; i < 2; i++ {
		var x float64
		switch r.Intn(4) {
		case 0:
			x = r.Uniform(-172, 172)
		case 1:
			x = r.LogUniform(1e-300, 1e300)
		case 2:
			d := r.LogUniform(1e-14, 0.5)
			if r.Bool() {
				d = -d
			}
			x = -float64(r.Range(0, 170)) + d
		default:
			x = r.Uniform(0, 30)
		}
		if r.Bool() {
			x = snap(x)
		}
		evalGamma(b, x)
	}
	// helpers
	{
		var x float64
		switch r.Intn(3) {
		case 0:
			x = r.Uniform(-100, 100)
		case 1:
			x = r.LogUniform(1e-300, 1e18)
		default:
			x = float64(r.Range(-2000, 2000))/4 + float64(r.Range(-8, 8))*0x1p-44
		}
		evalSinCosPi(b, x)
		evalPowm1(b, r.LogUniform(1e-10, 1e10), r.Norm()*math.Pow(10, r.Uniform(-12, 2)))
	}
}

func runMisc(c *fw.Ctx) {
	le := logErfcX()
	c.Cases("logerfc.directed", len(le), func(cs *fw.Case) {
		b := &rec{}
		for _, x := range cluster(le[cs.Index], c.Thorough()) {
			evalLogErfc(b, x)
		}
		b.flush(cs)
	})
	mg := mgammaDirected()
	c.Cases("mgamma.directed", len(mg), func(cs *fw.Case) {
		p := mg[cs.Index]
		b := &rec{}
		for _, x := range cluster(p.x, c.Thorough()) {
			evalMgamma(b, x, p.k)
		}
		b.flush(cs)
	})
	la := logAddSubDirected()
	c.Cases("logaddsub.directed", len(la), func(cs *fw.Case) {
		p := la[cs.Index]
		b := &rec{}
		for _, y := range cluster(p.y, false) {
			evalLogAddSub(b, p.x, y)
		}
		b.flush(cs)
	})
	gx := gammaX()
	c.Cases("gamma.directed", len(gx), func(cs *fw.Case) {
		b := &rec{}
		for _, x := range cluster(gx[cs.Index], c.Thorough()) {
			evalGamma(b, x)
		}
		b.flush(cs)
	})
	sc := sinCosPiX()
	c.Cases("helpers.sincospi", len(sc), func(cs *fw.Case) {
		b := &rec{}
		for _, x := range cluster(sc[cs.Index], c.Thorough()) {
			evalSinCosPi(b, x)
		}
		b.flush(cs)
	})
	pw := powm1Directed()
	c.Cases("helpers.powm1", len(pw), func(cs *fw.Case) {
		p := pw[cs.Index]
		b := &rec{}
		for _, z := range cluster(p.y, false) {
			evalPowm1(b, p.x, z)
		}
		b.flush(cs)
	})
	c.Cases("misc.sweep", c.N(1500, 20000), func(cs *fw.Case) {
		b := &rec{}
		miscSweep(b, cs.R)
		b.flush(cs)
	})
}
