package c13

import (
	"math"

	"github.com/pbenner/autodiff/special"

	"verifharness/internal/fw"
	"verifharness/internal/prng"
)

// evalPsi01 records Digamma and Trigamma at x and, if the shift is exact,
// Digamma at x+1 (member of the recurrence psi(x+1) = psi(x) + 1/x).
func evalPsi01(b *rec, x float64) {
	if math.IsNaN(x) || math.IsInf(x, 0) {
		return
	}
	xs := []float64{x}
	b.call("Digamma", nil, xs, func() float64 { return special.Digamma(x) })
	b.call("Trigamma", nil, xs, func() float64 { return special.Trigamma(x) })
	b.call("Polygamma", []int{0}, xs, func() float64 { return special.Polygamma(0, x) })
	b.call("Polygamma", []int{1}, xs, func() float64 { return special.Polygamma(1, x) })
	if exactShift(x, 1) {
		y := x + 1
		b.call("Digamma", nil, []float64{y}, func() float64 { return special.Digamma(y) })
	}
}

func evalPolygamma(b *rec, n int, x float64) {
	if math.IsNaN(x) || math.IsInf(x, 0) || n < 0 {
		return
	}
	b.call("Polygamma", []int{n}, []float64{x}, func() float64 { return special.Polygamma(n, x) })
}

// psi01X: thresholds of digamma.go / trigamma.go: reflection at -1 (digamma)
// and 0 (trigamma), asymptotic series from 10, reduction interval [1,2], the
// positive root, rational pieces (1,2], (2,4], (4,inf), poles and the first
// negative roots, half-integers (tan/sin argument reduction), extremes.
func psi01X() []float64 {
	xs := []float64{
		1e-300, 1e-20, 0x1p-52, 1e-5, 0.1, 0.25, 0.5, 0.75, 1, 1.25, 1.4616321449683623, 1.5, 2, 2.5, 3, 4, 4.5, 7.3, 9.5, 10, 10.5,
		20, 100.25, 1e3, 1e5, 1e8, 1e15, 0x1p52, 0x1p53, 1e20, 1e100, 1e300,
		-1e-300, -1e-20, -0x1p-52, -1e-5, -0.1, -0.25, -0.5, -0.75, -1, -1.25, -1.5, -2, -2.5, -3, -3.5, -10, -10.5, -25.75,
		-100, -100.5, -1000.25, -1e5 - 0.5, -1e8 - 0.5, -1e15, -1e15 - 0.5,
		// negative roots of digamma
		-0.5040830082644554, -1.5734984731623904, -2.6107208684441446, -3.635293366436901, -4.653237761743142, -10.83765,
		// witness neighbours
		38.7,
	}
	return xs
}

// polyN: orders on the thresholds of polygamma.go (factorialMax = 21 table,
// n > 21 && n*n > MaxLog, tabulated cotangent derivatives up to 20, Factorial
// overflow at 171).
func polyN(thorough bool) []int {
	ns := []int{2, 3, 4, 5, 8, 10, 15, 19, 20, 21, 22, 26, 27, 28, 30, 50, 100, 169, 170, 171, 172, 200}
	if thorough {
		ns = append(ns, 6, 7, 9, 12, 13, 40, 75, 150, 300, 500)
	}
	return ns
}

// polyX: arguments on the branch limits of polygamma_imp for order n.
func polyX(n int) []float64 {
	fn := float64(n)
	small := math.Min(5.0/fn, 0.25) // small_x_limit
	large := 6 + 4*fn               // 0.4*digits10 + 4n
	xs := []float64{
		1e-300, 1e-30, 1e-10, small / 2, small, (small + 0.5) / 2, 0.5, 0.75, 1, 1.5, 2, 3.25, 5, large / 2, large - 1, large, large + 1, 2 * large, 10 * large,
		400, 1e4, 1e8, 0x1p53, 0x1p53 * fn, 0x1p54 * fn, 1e20, 1e100, 1e300,
		38.7,
		// x^(-n-1) underflow / overflow of the leading terms
		math.Pow(2, 1074/(fn+1)), math.Pow(2, -1022/(fn+1)), math.Exp(709 / fn), math.Exp(-709 / (fn + 1)),
	}
	// reflection branch (x < 0): non-integers, half-integers, near poles
	neg := []float64{-1e-300, -1e-10, -small / 2, -0.25, -0.5, -0.75, -1.5, -2.25, -3.5, -10.5, -large, -large - 0.5, -2*large - 0.25, -100.5, -1e4 - 0.5, -1e8 - 0.5, ulps(-1, 1), ulps(-1, -1), ulps(-3, 4), ulps(-3, -4)}
	return dedupe(append(xs, neg...))
}

type nxPoint struct {
	n int
	x float64
}

func psiSweepX(r *prng.Rand) float64 {
	var x float64
	switch r.Intn(7) {
	case 0:
		x = r.LogUniform(1e-300, 1e300)
	case 1:
		x = -r.LogUniform(1e-10, 1e6)
	case 2:
		x = r.Uniform(-50, 60)
	case 3:
		x = r.Uniform(0, 12)
	case 4: // near a pole or half-integer on the negative axis
		k := float64(r.Range(0, 40))
		d := r.LogUniform(1e-14, 0.5)
		if r.Bool() {
			d = -d
		}
		x = -k + d
	case 5:
		x = r.LogUniform(1e-3, 1e4)
	default: // near the negative roots: between two poles
		x = -float64(r.Range(0, 30)) - r.Uniform(0.3, 0.7)
	}
	if r.Bool() {
		x = snap(x)
	}
	return x
}

func runPsi(c *fw.Ctx) {
	x01 := psi01X()
	c.Cases("psi.directed", len(x01), func(cs *fw.Case) {
		b := &rec{}
		for _, x := range cluster(x01[cs.Index], c.Thorough()) {
			evalPsi01(b, x)
		}
		b.flush(cs)
	})
	var dir []nxPoint
	dir = append(dir, nxPoint{8, 38.7}, nxPoint{117, 0.10497698653489351}, nxPoint{75, -0.5}, nxPoint{75, -306.5}, nxPoint{24, 3378939292084.946})
	for _, n := range polyN(c.Thorough()) {
		for _, x := range polyX(n) {
			dir = append(dir, nxPoint{n, x})
		}
	}
	c.Cases("polygamma.directed", len(dir), func(cs *fw.Case) {
		p := dir[cs.Index]
		b := &rec{}
		for _, x := range cluster(p.x, c.Thorough()) {
			evalPolygamma(b, p.n, x)
		}
		b.flush(cs)
	})
	c.Cases("psi.sweep", c.N(1500, 20000), func(cs *fw.Case) {
		r := cs.R
		b := &rec{}
		for i := 0; i < 4; i++ {
			x := psiSweepX(r)
			evalPsi01(b, x)
			for j := 0; j < 3; j++ {
				var n int
				switch r.Intn(4) {
				case 0:
					n = r.Range(2, 6)
				case 1:
					n = r.Range(2, 30)
				case 2:
					n = r.Range(15, 60)
				default:
					n = r.Range(2, 220)
				}
				evalPolygamma(b, n, x)
			}
		}
		b.flush(cs)
	})
}
