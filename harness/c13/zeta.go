package c13

import (
	"math"

	"github.com/pbenner/autodiff/special"

	"verifharness/internal/fw"
	"verifharness/internal/prng"
)

func evalZeta(b *rec, s float64) {
	if math.IsNaN(s) || math.IsInf(s, 0) {
		return
	}
	b.call("Zeta", nil, []float64{s}, func() float64 { return special.Zeta(s) })
}

// zetaS: thresholds of zeta.go: the pole at 1, |s| < sqrt(eps), the pieces of
// zeta_imp_prec (1, 2, 4, 7, 15, 36, 56), s > 53 (returns 1), reflection for
// s < 0 with Gamma (1-s <= 21) or log forms (1-s > 21), overflow for very
// negative s, the trivial zeros.
func zetaS() []float64 {
	xs := []float64{
		0, 1e-300, -1e-300, 1e-12, -1e-12, 1.49012e-08, -1.49012e-08, 1e-5, -1e-5, 0.25, 0.5, 0.75,
		1, 1.5, 2, 3, 3.5, 4, 5.5, 7, 11.5, 15, 25.5, 36, 45.5, 53, 54, 56, 60, 100.5, 1e10, 1e300,
		-0.5, -1, -1.5, -2, -2.5, -3, -4, -10.5, -19.5, -20, -20.5, -21, -25.5, -100, -100.5, -101, -169.5, -170.5, -171.5, -199.5,
		-250.5, -255.5, -259.5, -260.5, -261.5, -263.5, -270.5, -300.5, -1e3 - 0.5, -1e6 - 0.5, -1e15,
		// witnesses first seen in sweeps
		-65.62470378569681, -145.70640125994277, -259.7472125512994, -259.92163356713473, -260.14267407188106, -187.72490361896342, -260.00695976385066,
	}
	return xs
}

func zetaSweepS(r *prng.Rand) float64 {
	switch r.Intn(7) {
	case 6: // the rational pieces of zeta_imp_prec: (1,2], (2,4], (4,7], (7,15), [15,36), [36,56)
		return r.Uniform(1, 60)
	case 0:
		return r.Uniform(-60, 60)
	case 1:
		return -r.LogUniform(1e-10, 300)
	case 2:
		return r.LogUniform(1e-10, 100)
	case 3: // around the pole
		d := r.LogUniform(1e-15, 1)
		if r.Bool() {
			d = -d
		}
		return 1 + d
	case 4: // around a trivial zero
		d := r.LogUniform(1e-14, 1)
		if r.Bool() {
			d = -d
		}
		return -2*float64(r.Range(1, 100)) + d
	default:
		return r.Uniform(-262, 0)
	}
}

func runZeta(c *fw.Ctx) {
	ss := zetaS()
	c.Cases("zeta.directed", len(ss), func(cs *fw.Case) {
		b := &rec{}
		for _, s := range cluster(ss[cs.Index], c.Thorough()) {
			evalZeta(b, s)
		}
		b.flush(cs)
	})
	// every integer argument in [-300, 120]: closed forms through Bernoulli numbers / odd-integer table
	c.Cases("zeta.integers", 421, func(cs *fw.Case) {
		b := &rec{}
		evalZeta(b, float64(cs.Index-300))
		b.flush(cs)
	})
	c.Cases("zeta.sweep", c.N(1000, 15000), func(cs *fw.Case) {
		b := &rec{}
		for i := 0; i < 8; i++ {
			evalZeta(b, zetaSweepS(cs.R))
		}
		b.flush(cs)
	})
	// Factorial: the table (n <= 20), the Gamma branch, overflow beyond 170
	c.Cases("factorial.all", 20, func(cs *fw.Case) {
		b := &rec{}
		for n := cs.Index * 10; n < cs.Index*10+10; n++ {
			n := n
			b.call("Factorial", []int{n}, nil, func() float64 { return special.Factorial(n) })
		}
		b.flush(cs)
	})
	// Bernoulli numbers B_0 .. B_N (exact rational recursion, overflow beyond 258)
	c.Cases("bernoulli.all", c.N(140, 300), func(cs *fw.Case) {
		b := &rec{}
		n := cs.Index
		b.call("BernoulliNumber", []int{n}, nil, func() float64 { return special.BernoulliNumber(n) })
		b.flush(cs)
	})
}
