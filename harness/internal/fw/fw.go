// Package fw is the worker-side half of the monitoring framework: case
// addressing, the begin/end event protocol, violation and coverage records,
// panic capture, loop budgets (Tick hook) and the per-case CPU watchdog.
package fw

import (
	"bufio"
	"crypto/sha1"
	"encoding/hex"
	"encoding/json"
	"fmt"
	"os"
	"regexp"
	"runtime"
	"runtime/debug"
	"sort"
	"strconv"
	"strings"
	"sync"
	"sync/atomic"
	"syscall"
	"time"

	"verifharness/internal/prng"
)

// Ctx is one worker run: a shard of the case list of one property.
type Ctx struct {
	Prop    string
	Seed    uint64
	Tier    string // quick | thorough
	Shard   int
	NShards int
	Only    string // run only this case id
	After   string // skip cases up to and including this id (restart after a lost case)

	mu       sync.Mutex
	out      *bufio.Writer
	file     *os.File
	cov      map[string]int64
	samples  map[string]int
	afterHit bool

	curCase   atomic.Value // string
	curStart  atomic.Int64 // cpu ns at case begin
	curBudget atomic.Int64 // cpu ns allowed
	nCases    int64
}

// Case is one addressed case of one monitor.
type Case struct {
	C       *Ctx
	ID      string
	Monitor string
	Index   int
	R       *prng.Rand
	nt      string
	skip    string
	viols   int
}

func NewCtx(prop string, seed uint64, tier string, shard, nshards int, only, after, outPath string) (*Ctx, error) {
	f, err := os.Create(outPath)
	if err != nil {
		return nil, err
	}
	c := &Ctx{Prop: prop, Seed: seed, Tier: tier, Shard: shard, NShards: nshards, Only: only, After: after,
		file: f, out: bufio.NewWriterSize(f, 1<<16), cov: map[string]int64{}, samples: map[string]int{}}
	c.curCase.Store("")
	if after == "" {
		c.afterHit = true
	}
	go c.watchdog()
	return c, nil
}

func (c *Ctx) Thorough() bool { return c.Tier == "thorough" }

// N picks the case count of the tier.
func (c *Ctx) N(quick, thorough int) int {
	if c.Thorough() {
		return thorough
	}
	return quick
}

// casesScale: the driver stretches the case lists of named random monitors (driver/run.py CASE_SCALE):
// VERIF_CASES_SCALE=k multiplies the length of every list whose monitor name matches VERIF_CASES_SCALE_RE.
// Indices below the unscaled length address the same cases as before.  Only lists whose index is nothing
// but a PRNG stream address may be named there (never enumerations or directed lists).
var (
	scaleOnce sync.Once
	scaleK    = 1
	scaleRE   *regexp.Regexp
)

func casesScale(monitor string) int {
	scaleOnce.Do(func() {
		if k, err := strconv.Atoi(os.Getenv("VERIF_CASES_SCALE")); err == nil && k > 1 {
			if re, err := regexp.Compile(os.Getenv("VERIF_CASES_SCALE_RE")); err == nil && os.Getenv("VERIF_CASES_SCALE_RE") != "" {
				scaleK, scaleRE = k, re
			}
		}
	})
	if scaleRE != nil && scaleRE.MatchString(monitor) {
		return scaleK
	}
	return 1
}

func (c *Ctx) emit(v map[string]any, flush bool) {
	b, err := json.Marshal(v)
	if err != nil {
		// typically a NaN/Inf inside a witness or sample: keep the record, stringify the payload
		for _, k := range []string{"witness", "v"} {
			if x, ok := v[k]; ok {
				v[k] = fmt.Sprintf("%+v", x)
			}
		}
		if b, err = json.Marshal(v); err != nil {
			b, _ = json.Marshal(map[string]any{"ev": "error", "msg": "marshal: " + err.Error()})
		}
	}
	c.mu.Lock()
	c.out.Write(b)
	c.out.WriteByte('\n')
	if flush {
		c.out.Flush()
	}
	c.mu.Unlock()
}

// Data writes a raw record for an offline oracle.
func (c *Ctx) Data(v map[string]any) {
	v["ev"] = "data"
	if cur, _ := c.curCase.Load().(string); cur != "" {
		v["case"] = cur
	}
	c.emit(v, false)
}

func cpuNanos() int64 {
	var ru syscall.Rusage
	syscall.Getrusage(syscall.RUSAGE_SELF, &ru)
	return ru.Utime.Nano() + ru.Stime.Nano()
}

// DefaultCPUBudget is the CPU time one case may use before the watchdog
// declares it lost (overridable per case).
var DefaultCPUBudget = 60 * time.Second

func (c *Ctx) watchdog() {
	for {
		time.Sleep(200 * time.Millisecond)
		cur, _ := c.curCase.Load().(string)
		if cur == "" {
			continue
		}
		used := cpuNanos() - c.curStart.Load()
		if used > c.curBudget.Load() {
			// the case goroutine may hold c.mu only briefly; emit under lock
			c.emit(map[string]any{"ev": "hang", "case": cur, "cpu_s": float64(used) / 1e9}, true)
			buf := make([]byte, 1<<20)
			n := runtime.Stack(buf, true)
			os.Stderr.Write(buf[:n])
			os.Exit(97)
		}
	}
}

// Cases executes the cases 0..n-1 of a monitor that belong to this shard.
func (c *Ctx) Cases(monitor string, n int, f func(cs *Case)) {
	n *= casesScale(monitor)
	for i := 0; i < n; i++ {
		id := fmt.Sprintf("%s#%d", monitor, i)
		if c.Only != "" {
			if c.Only != id {
				continue
			}
		} else {
			if i%c.NShards != c.Shard {
				continue
			}
			if !c.afterHit {
				if id == c.After {
					c.afterHit = true
				}
				continue
			}
		}
		cs := &Case{C: c, ID: id, Monitor: monitor, Index: i, R: prng.For(c.Seed, monitor, i)}
		c.runCase(cs, f)
	}
}

func (c *Ctx) runCase(cs *Case, f func(cs *Case)) {
	c.emit(map[string]any{"ev": "begin", "case": cs.ID}, true)
	c.curBudget.Store(int64(DefaultCPUBudget))
	c.curStart.Store(cpuNanos())
	c.curCase.Store(cs.ID)
	SetTickBudget(0)
	if p := Call(func() { f(cs) }); p != nil {
		// a panic the monitor did not capture itself
		if p.Budget {
			cs.skip = "no-return:" + p.Site
		} else {
			cs.Violation(fmt.Sprintf("%s|%s|uncaught-panic|%s", c.Prop, cs.Monitor, p.Frame), p.Msg+"\n"+p.Stack, nil)
		}
	}
	SetTickBudget(0)
	c.curCase.Store("")
	atomic.AddInt64(&c.nCases, 1)
	end := map[string]any{"ev": "end", "case": cs.ID}
	if cs.nt != "" {
		end["nt"] = cs.nt
	}
	if cs.skip != "" {
		end["skip"] = cs.skip
	}
	c.emit(end, false)
}

// SetCPUBudget overrides the watchdog allowance for the current case.
func (cs *Case) SetCPUBudget(d time.Duration) { cs.C.curBudget.Store(int64(d)) }

// Violation records a refuting observation.  sig is the signature that the
// known-findings file is matched against; witness is anything that lets a
// reader see the failing case.
func (cs *Case) Violation(sig, detail string, witness any) {
	cs.viols++
	if cs.viols > 20 {
		return // enough from this case
	}
	if len(detail) > 4000 {
		detail = detail[:4000] + "…"
	}
	cs.C.emit(map[string]any{"ev": "viol", "case": cs.ID, "sig": sig, "detail": detail, "witness": witness}, true)
}

func (cs *Case) Violations() int { return cs.viols }

// Cover increments a coverage counter.
func (cs *Case) Cover(key string) { cs.C.Cover(key, 1) }

func (c *Ctx) Cover(key string, n int64) {
	c.mu.Lock()
	c.cov[key] += n
	c.mu.Unlock()
}

// CoverMax keeps the maximum of a measured quantity.
func (c *Ctx) CoverMax(key string, n int64) {
	c.mu.Lock()
	if n > c.cov[key] {
		c.cov[key] = n
	}
	c.mu.Unlock()
}

// Nontrivial marks the case as non-trivial by the monitor's rule; parts
// identify the case canonically so that distinct cases can be counted.
func (cs *Case) Nontrivial(parts ...any) {
	h := sha1.New()
	fmt.Fprint(h, cs.Monitor, "|")
	for _, p := range parts {
		fmt.Fprintf(h, "%v|", p)
	}
	cs.nt = hex.EncodeToString(h.Sum(nil))[:16]
}

// Skip marks the case as not judged.
func (cs *Case) Skip(reason string) {
	cs.skip = reason
	cs.C.Cover("skipped:"+reason, 1)
}

// Sample writes the case out for the evidence file (first few per monitor).
func (cs *Case) Sample(v any) {
	c := cs.C
	c.mu.Lock()
	n := c.samples[cs.Monitor]
	c.samples[cs.Monitor] = n + 1
	c.mu.Unlock()
	if n < 2 {
		c.emit(map[string]any{"ev": "sample", "monitor": cs.Monitor, "case": cs.ID, "v": v}, false)
	}
}

// Close writes the coverage table and the completion marker.
func (c *Ctx) Close() {
	c.mu.Lock()
	cov := map[string]int64{}
	for k, v := range c.cov {
		cov[k] = v
	}
	c.mu.Unlock()
	c.emit(map[string]any{"ev": "cov", "k": cov}, false)
	c.emit(map[string]any{"ev": "done", "cases": atomic.LoadInt64(&c.nCases)}, true)
	c.mu.Lock()
	c.out.Flush()
	c.file.Close()
	c.mu.Unlock()
}

/* panic capture
 * -------------------------------------------------------------------------- */

// Panic describes a recovered panic.
type Panic struct {
	Msg    string
	Frame  string // innermost frame inside github.com/pbenner/autodiff (or "?")
	Stack  string // a few frames
	Budget bool   // loop budget sentinel
	Site   string
}

type budgetExceeded struct{ site string }

// Call runs f and returns a description of the panic it raised, if any.
func Call(f func()) (p *Panic) {
	defer func() {
		if r := recover(); r != nil {
			if b, ok := r.(budgetExceeded); ok {
				p = &Panic{Msg: "loop budget exceeded at " + b.site, Budget: true, Site: b.site, Frame: b.site}
				return
			}
			p = &Panic{Msg: fmt.Sprint(r)}
			p.Frame, p.Stack = libFrames(debug.Stack())
		}
	}()
	f()
	return nil
}

// libFrames extracts the innermost library function of a stack dump and a
// short rendering of it.
func libFrames(stack []byte) (string, string) {
	lines := strings.Split(string(stack), "\n")
	frame := "?"
	var short []string
	seenPanic := false
	for i := 0; i < len(lines); i++ {
		l := lines[i]
		if strings.HasPrefix(l, "panic(") {
			seenPanic = true
			short = short[:0]
			frame = "?"
			continue
		}
		if strings.HasPrefix(l, "\t") || l == "" || strings.HasPrefix(l, "goroutine ") {
			continue
		}
		if !seenPanic {
			continue
		}
		fn := l
		if k := strings.LastIndex(fn, "("); k > 0 {
			fn = fn[:k]
		}
		if len(short) < 8 {
			short = append(short, fn)
		}
		if frame == "?" && strings.Contains(fn, "github.com/pbenner/autodiff") {
			frame = strings.TrimPrefix(fn, "github.com/pbenner/autodiff")
			frame = strings.TrimPrefix(frame, "/")
			frame = strings.TrimPrefix(frame, ".")
		}
	}
	return frame, strings.Join(short, " <- ")
}

/* loop budget
 * -------------------------------------------------------------------------- */

var tickLeft atomic.Int64
var tickOn atomic.Bool
var tickCounts sync.Map // site -> *atomic.Int64

// SetTickBudget arms (n > 0) or disarms (n == 0) the loop budget.
func SetTickBudget(n int64) {
	tickLeft.Store(n)
	tickOn.Store(n > 0)
}

// TickHook is installed as verifhook.TickFn.
func TickHook(site string) {
	v, ok := tickCounts.Load(site)
	if !ok {
		v, _ = tickCounts.LoadOrStore(site, new(atomic.Int64))
	}
	v.(*atomic.Int64).Add(1)
	if tickOn.Load() {
		if tickLeft.Add(-1) < 0 {
			panic(budgetExceeded{site})
		}
	}
}

// TickCount returns the number of ticks seen at a site so far.
func TickCount(site string) int64 {
	if v, ok := tickCounts.Load(site); ok {
		return v.(*atomic.Int64).Load()
	}
	return 0
}

// TickSites lists the sites that ticked at least once.
func TickSites() []string {
	var r []string
	tickCounts.Range(func(k, _ any) bool { r = append(r, k.(string)); return true })
	sort.Strings(r)
	return r
}

/* counters (Count hook)
 * -------------------------------------------------------------------------- */

var counts sync.Map

func CountHook(site string) {
	v, ok := counts.Load(site)
	if !ok {
		v, _ = counts.LoadOrStore(site, new(atomic.Int64))
	}
	v.(*atomic.Int64).Add(1)
}

// FlushCounts moves the Count-hook counters into the coverage table.
func (c *Ctx) FlushCounts() {
	counts.Range(func(k, v any) bool {
		c.Cover("hook:"+k.(string), v.(*atomic.Int64).Swap(0))
		return true
	})
	tickCounts.Range(func(k, v any) bool {
		c.Cover("tick:"+k.(string), v.(*atomic.Int64).Load())
		return true
	})
}
