// Package gen holds the element-type table and generators shared by the
// container monitors.
package gen

import (
	"fmt"

	ad "github.com/pbenner/autodiff"

	"verifharness/internal/prng"
)

// ElemType describes one of the nine mutable scalar types.
type ElemType struct {
	Name   string
	T      ad.ScalarType
	IsInt  bool
	IsReal bool // carries derivatives
	Bits   int
}

var Types = []ElemType{
	{"Int8", ad.Int8Type, true, false, 8},
	{"Int16", ad.Int16Type, true, false, 16},
	{"Int32", ad.Int32Type, true, false, 32},
	{"Int64", ad.Int64Type, true, false, 64},
	{"Int", ad.IntType, true, false, 64},
	{"Float32", ad.Float32Type, false, false, 32},
	{"Float64", ad.Float64Type, false, false, 64},
	{"Real32", ad.Real32Type, false, true, 32},
	{"Real64", ad.Real64Type, false, true, 64},
}

func TypeByName(n string) ElemType {
	for _, t := range Types {
		if t.Name == n {
			return t
		}
	}
	panic("unknown type " + n)
}

// Value draws an element value that is exactly representable in the type and
// small enough that sums and products of a handful of them stay exact: k/8 for
// the float family, small integers for the integer family.
func (t ElemType) Value(r *prng.Rand) float64 {
	if t.IsInt {
		return float64(r.Range(-6, 6))
	}
	return r.Dyadic(48)
}

// NonZero is Value without zero.
func (t ElemType) NonZero(r *prng.Rand) float64 {
	for {
		if v := t.Value(r); v != 0 {
			return v
		}
	}
}

// Divisor draws a non-zero value whose reciprocal is exact (power of two) for
// floats and ±1, ±2 for integers.
func (t ElemType) Divisor(r *prng.Rand) float64 {
	if t.IsInt {
		return []float64{1, -1, 2, -2}[r.Intn(4)]
	}
	return []float64{0.5, -0.5, 1, -1, 2, -2, 4, 0.25}[r.Intn(8)]
}

// Storage kinds.
const (
	Dense  = "dense"
	Sparse = "sparse"
)

func NullVector(t ElemType, storage string, n int) ad.Vector {
	if storage == Dense {
		return ad.NullDenseVector(t.T, n)
	}
	return ad.NullSparseVector(t.T, n)
}

func NullMatrix(t ElemType, storage string, r, c int) ad.Matrix {
	if storage == Dense {
		return ad.NullDenseMatrix(t.T, r, c)
	}
	return ad.NullSparseMatrix(t.T, r, c)
}

// Jet is the model of one element: value plus first/second derivative slots
// (nil for types that carry none).
type Jet struct {
	V float64
	N int
	D []float64 // len N when order>=1
	H []float64 // N*N when order>=2
}

func (j Jet) Order() int {
	switch {
	case j.H != nil:
		return 2
	case j.D != nil:
		return 1
	}
	return 0
}

// SetScalar writes the jet into a library scalar (derivatives only for magic scalars).
func SetScalar(s ad.Scalar, j Jet) {
	s.SetFloat64(j.V)
	if j.D == nil {
		return
	}
	m, ok := s.(ad.MagicScalar)
	if !ok {
		return
	}
	m.Alloc(j.N, j.Order())
	for i := 0; i < j.N; i++ {
		m.SetDerivative(i, j.D[i])
	}
	if j.H != nil {
		for i := 0; i < j.N; i++ {
			for k := 0; k < j.N; k++ {
				m.SetHessian(i, k, j.H[i*j.N+k])
			}
		}
	}
}

// RandJet draws a jet with dyadic slots; for non-real types only the value.
func RandJet(t ElemType, r *prng.Rand, v float64, n, order int) Jet {
	j := Jet{V: v}
	if !t.IsReal || order == 0 || n == 0 {
		return j
	}
	j.N = n
	j.D = make([]float64, n)
	for i := range j.D {
		j.D[i] = float64(r.Range(-4, 4)) / 2
	}
	if order >= 2 {
		j.H = make([]float64, n*n)
		for i := 0; i < n; i++ {
			for k := i; k < n; k++ {
				x := float64(r.Range(-4, 4)) / 2
				j.H[i*n+k] = x
				j.H[k*n+i] = x
			}
		}
	}
	return j
}

// ZeroPattern names: how zeros are placed in a generated operand.
var ZeroPatterns = []string{"none", "leading", "trailing", "interleaved", "all-zero", "random", "explicit-stored"}

// VectorSpec is a generated vector operand: model values plus how to build it.
type VectorSpec struct {
	T       ElemType
	Storage string
	Pattern string
	Vals    []Jet
	Stored  []bool // sparse only: positions that get an explicit stored entry although zero
}

func (s VectorSpec) String() string {
	vs := make([]float64, len(s.Vals))
	for i, j := range s.Vals {
		vs[i] = j.V
	}
	return fmt.Sprintf("%s/%s/%s%v", s.T.Name, s.Storage, s.Pattern, vs)
}

func zeroAt(pattern string, i, n int, r *prng.Rand) bool {
	switch pattern {
	case "none":
		return false
	case "leading":
		return i < (n+1)/2
	case "trailing":
		return i >= n/2
	case "interleaved":
		return i%2 == 0
	case "all-zero":
		return true
	case "explicit-stored":
		return r.Chance(0.5)
	default:
		return r.Chance(0.4)
	}
}

// GenVector draws a vector operand; with nvar>0 and a real type the non-zero
// elements carry derivative slots.
func GenVector(t ElemType, storage, pattern string, n int, r *prng.Rand, nvar, order int, divisor bool) VectorSpec {
	s := VectorSpec{T: t, Storage: storage, Pattern: pattern, Vals: make([]Jet, n), Stored: make([]bool, n)}
	for i := 0; i < n; i++ {
		if !divisor && zeroAt(pattern, i, n, r) {
			s.Vals[i] = Jet{}
			if pattern == "explicit-stored" || (pattern == "random" && r.Chance(0.3)) {
				s.Stored[i] = true
			}
			// Real types: now and then an element with value zero that carries
			// derivatives (e.g. x - x0 at x0) - not a zero element for the containers
			if t.IsReal && nvar > 0 && order > 0 && r.Chance(0.12) {
				s.Vals[i] = RandJet(t, r, 0, nvar, order)
			}
			continue
		}
		v := t.NonZero(r)
		if divisor {
			v = t.Divisor(r)
		}
		s.Vals[i] = RandJet(t, r, v, nvar, order)
	}
	return s
}

// Build constructs the library vector the way a user would: non-zero entries
// through At(i).Set..., explicit stored zeros through At(i) on an absent entry.
func (s VectorSpec) Build() ad.Vector {
	v := NullVector(s.T, s.Storage, len(s.Vals))
	for i, j := range s.Vals {
		if j.V != 0 || j.D != nil {
			SetScalar(v.At(i), j)
		} else if s.Stored[i] && s.Storage == Sparse {
			v.At(i) // creates an explicitly stored zero
		}
	}
	return v
}

// MatrixSpec is a generated matrix operand (row-major model).
type MatrixSpec struct {
	T       ElemType
	Storage string
	Pattern string
	R, C    int
	Vals    []Jet
	Stored  []bool
}

func GenMatrix(t ElemType, storage, pattern string, rows, cols int, r *prng.Rand, nvar, order int, divisor bool) MatrixSpec {
	vs := GenVector(t, storage, pattern, rows*cols, r, nvar, order, divisor)
	return MatrixSpec{T: t, Storage: storage, Pattern: pattern, R: rows, C: cols, Vals: vs.Vals, Stored: vs.Stored}
}

func (s MatrixSpec) Build() ad.Matrix {
	m := NullMatrix(s.T, s.Storage, s.R, s.C)
	for i := 0; i < s.R; i++ {
		for k := 0; k < s.C; k++ {
			j := s.Vals[i*s.C+k]
			if j.V != 0 || j.D != nil {
				SetScalar(m.At(i, k), j)
			} else if s.Stored[i*s.C+k] && s.Storage == Sparse {
				m.At(i, k)
			}
		}
	}
	return m
}

func (s MatrixSpec) String() string {
	vs := make([]float64, len(s.Vals))
	for i, j := range s.Vals {
		vs[i] = j.V
	}
	return fmt.Sprintf("%s/%s/%s/%dx%d%v", s.T.Name, s.Storage, s.Pattern, s.R, s.C, vs)
}
