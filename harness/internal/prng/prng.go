// Package prng is a small deterministic splitmix64 generator.  Every case of
// every monitor derives its own stream from (seed, monitor, index), so a case
// can be re-executed in isolation on any later tree.
package prng

import (
	"hash/fnv"
	"math"
)

type Rand struct{ s uint64 }

func New(seed uint64) *Rand { return &Rand{s: seed} }

// For derives the stream of one case.
func For(seed uint64, monitor string, index int) *Rand {
	h := fnv.New64a()
	h.Write([]byte(monitor))
	x := h.Sum64()
	r := &Rand{s: seed*0x9E3779B97F4A7C15 ^ x ^ (uint64(index)+1)*0xD1B54A32D192ED03}
	r.Uint64()
	r.Uint64()
	return r
}

func (r *Rand) Uint64() uint64 {
	r.s += 0x9E3779B97F4A7C15
	z := r.s
	z = (z ^ (z >> 30)) * 0xBF58476D1CE4E5B9
	z = (z ^ (z >> 27)) * 0x94D049BB133111EB
	return z ^ (z >> 31)
}

// Intn returns a number in [0,n).
func (r *Rand) Intn(n int) int {
	if n <= 0 {
		return 0
	}
	return int(r.Uint64() % uint64(n))
}

// Range returns a number in [lo,hi] (inclusive).
func (r *Rand) Range(lo, hi int) int { return lo + r.Intn(hi-lo+1) }

func (r *Rand) Bool() bool { return r.Uint64()&1 == 1 }

// Chance is true with probability p.
func (r *Rand) Chance(p float64) bool { return r.Float64() < p }

// Float64 returns a number in [0,1).
func (r *Rand) Float64() float64 { return float64(r.Uint64()>>11) / (1 << 53) }

// Uniform returns a number in [a,b).
func (r *Rand) Uniform(a, b float64) float64 { return a + (b-a)*r.Float64() }

// Norm returns a standard normal deviate (Box-Muller).
func (r *Rand) Norm() float64 {
	u := r.Float64()
	for u == 0 {
		u = r.Float64()
	}
	v := r.Float64()
	return math.Sqrt(-2*math.Log(u)) * math.Cos(2*math.Pi*v)
}

// LogUniform returns a number in [a,b), a,b > 0, uniform on log scale.
func (r *Rand) LogUniform(a, b float64) float64 {
	return math.Exp(r.Uniform(math.Log(a), math.Log(b)))
}

// Dyadic returns k/8 with |k| <= max8 (so that sums and products of a few of
// them are exact in float32).
func (r *Rand) Dyadic(max8 int) float64 { return float64(r.Range(-max8, max8)) / 8 }

// DyadicNZ is Dyadic without zero.
func (r *Rand) DyadicNZ(max8 int) float64 {
	for {
		if v := r.Dyadic(max8); v != 0 {
			return v
		}
	}
}

func (r *Rand) Perm(n int) []int {
	p := make([]int, n)
	for i := range p {
		p[i] = i
	}
	for i := n - 1; i > 0; i-- {
		j := r.Intn(i + 1)
		p[i], p[j] = p[j], p[i]
	}
	return p
}

func (r *Rand) Pick(xs []string) string { return xs[r.Intn(len(xs))] }
func (r *Rand) PickF(xs []float64) float64 { return xs[r.Intn(len(xs))] }
func (r *Rand) PickI(xs []int) int { return xs[r.Intn(len(xs))] }
