// Package snap takes observable-state snapshots of scalars, vectors and
// matrices through their public read API and compares them under the exact
// policy of DESIGN.md 2.4 (-0 == +0, NaN == NaN, missing derivative slots
// read as zero).
package snap

import (
	"fmt"
	"math"
	"strings"

	ad "github.com/pbenner/autodiff"
)

// Elem is the observable state of one scalar.
type Elem struct {
	F     float64
	I     int64
	Order int
	N     int
	D     []float64
	H     []float64
}

func Scalar(s ad.ConstScalar) Elem {
	e := Elem{F: s.GetFloat64(), I: s.GetInt64(), Order: s.GetOrder(), N: s.GetN()}
	if e.Order >= 1 && e.N > 0 {
		e.D = make([]float64, e.N)
		for i := 0; i < e.N; i++ {
			e.D[i] = s.GetDerivative(i)
		}
		if e.Order >= 2 {
			e.H = make([]float64, e.N*e.N)
			for i := 0; i < e.N; i++ {
				for j := 0; j < e.N; j++ {
					e.H[i*e.N+j] = s.GetHessian(i, j)
				}
			}
		}
	}
	return e
}

func feq(a, b float64) bool {
	return a == b || (math.IsNaN(a) && math.IsNaN(b))
}

func slot(d []float64, i int) float64 {
	if i < len(d) {
		return d[i]
	}
	return 0
}

func hslot(e Elem, i, j int) float64 {
	if e.H == nil || i >= e.N || j >= e.N {
		return 0
	}
	return e.H[i*e.N+j]
}

// Diff returns "" if the two elements are observably equal, else which part differs.
func Diff(a, b Elem, isInt bool) string {
	if isInt {
		if a.I != b.I {
			return fmt.Sprintf("value %d vs %d", a.I, b.I)
		}
		return ""
	}
	if !feq(a.F, b.F) {
		return fmt.Sprintf("value %v vs %v", a.F, b.F)
	}
	n := a.N
	if b.N > n {
		n = b.N
	}
	for i := 0; i < n; i++ {
		if !feq(slot(a.D, i), slot(b.D, i)) {
			return fmt.Sprintf("deriv[%d] %v vs %v", i, slot(a.D, i), slot(b.D, i))
		}
	}
	for i := 0; i < n; i++ {
		for j := 0; j < n; j++ {
			if !feq(hslot(a, i, j), hslot(b, i, j)) {
				return fmt.Sprintf("hess[%d,%d] %v vs %v", i, j, hslot(a, i, j), hslot(b, i, j))
			}
		}
	}
	return ""
}

// Kind classifies a Diff message for signatures: value | deriv | hess.
func Kind(diff string) string {
	switch {
	case strings.HasPrefix(diff, "value"):
		return "value"
	case strings.HasPrefix(diff, "deriv"):
		return "deriv"
	case strings.HasPrefix(diff, "hess"):
		return "hess"
	}
	return "other"
}

// Vec is the observable state of a vector.
type Vec struct {
	Dim int
	E   []Elem
}

func Vector(v ad.ConstVector) Vec {
	n := v.Dim()
	r := Vec{Dim: n, E: make([]Elem, n)}
	for i := 0; i < n; i++ {
		r.E[i] = Scalar(v.ConstAt(i))
	}
	return r
}

// Mat is the observable state of a matrix (row major).
type Mat struct {
	R, C int
	E    []Elem
}

func Matrix(m ad.ConstMatrix) Mat {
	r, c := m.Dims()
	s := Mat{R: r, C: c, E: make([]Elem, r*c)}
	for i := 0; i < r; i++ {
		for j := 0; j < c; j++ {
			s.E[i*c+j] = Scalar(m.ConstAt(i, j))
		}
	}
	return s
}

// DiffVec compares two vector snapshots; returns "" or the first difference.
func DiffVec(a, b Vec, isInt bool) string {
	if a.Dim != b.Dim {
		return fmt.Sprintf("dim %d vs %d", a.Dim, b.Dim)
	}
	for i := range a.E {
		if d := Diff(a.E[i], b.E[i], isInt); d != "" {
			return fmt.Sprintf("[%d] %s", i, d)
		}
	}
	return ""
}

func DiffMat(a, b Mat, isInt bool) string {
	if a.R != b.R || a.C != b.C {
		return fmt.Sprintf("dims %dx%d vs %dx%d", a.R, a.C, b.R, b.C)
	}
	for i := range a.E {
		if d := Diff(a.E[i], b.E[i], isInt); d != "" {
			return fmt.Sprintf("[%d,%d] %s", i/a.C, i%a.C, d)
		}
	}
	return ""
}

func (v Vec) Values() []float64 {
	r := make([]float64, len(v.E))
	for i, e := range v.E {
		r[i] = e.F
	}
	return r
}

func (m Mat) Values() []float64 {
	r := make([]float64, len(m.E))
	for i, e := range m.E {
		r[i] = e.F
	}
	return r
}
