package c15

import (
	"fmt"
	"math"
	"strings"

	ad "github.com/pbenner/autodiff"
	stat "github.com/pbenner/autodiff/statistics"
	"github.com/pbenner/autodiff/statistics/generic"
	md "github.com/pbenner/autodiff/statistics/matrixDistribution"
	me "github.com/pbenner/autodiff/statistics/matrixEstimator"
	se "github.com/pbenner/autodiff/statistics/scalarEstimator"
	vd "github.com/pbenner/autodiff/statistics/vectorDistribution"
	ve "github.com/pbenner/autodiff/statistics/vectorEstimator"
	"github.com/pbenner/threadpool"

	"verifharness/internal/fw"
	"verifharness/internal/prng"
)

func (e edSpec) estimator() (stat.ScalarEstimator, error) {
	switch e.Kind {
	case "categorical":
		return se.NewCategoricalEstimator(append([]float64{}, e.P...))
	case "normal":
		return se.NewNormalEstimator(e.P[0], e.P[1], 1e-6)
	case "poisson":
		return se.NewPoissonEstimator(e.P[0])
	case "exponential":
		return se.NewExponentialEstimator(e.P[0], 1e8)
	case "geometric":
		return se.NewGeometricEstimator(e.P[0])
	}
	return nil, fmt.Errorf("no estimator for %s", e.Kind)
}

// runBwCase: the likelihood reported by the float64-specialised
// forward-backward (BaumWelchStep, observed through the Baum-Welch hook of a
// one-step run) against the generic LogPdf of the same model and against the
// enumeration, over data sets of 1..4 sequences.
func runBwCase(cs *fw.Case, r *prng.Rand, mixed bool) {
	m := r.Range(1, 4)
	s := genHmmSpec(r, m)
	s.Elem = "Float64"
	if s.Final != nil && r.Chance(0.85) {
		// BaumWelchStep rejects more than one final state
		s.Final = []int{s.Final[r.Intn(len(s.Final))]}
	}
	s.Family = r.Pick([]string{"categorical", "normal", "poisson", "exponential", "geometric"})
	var draw func() float64
	s.Edist, draw = genEmissions(r, s.Family, s.NE)
	matrix := r.Chance(0.25)
	d := 1
	if matrix {
		d = r.Range(1, 3)
	}
	// per emission distribution and coordinate one scalar spec
	vspec := make([][]edSpec, s.NE)
	if matrix {
		for c := range vspec {
			vspec[c] = make([]edSpec, d)
			for q := range vspec[c] {
				if s.Family == "categorical" {
					vspec[c][q] = edSpec{"categorical", probVector(r, len(s.Edist[0].P), r.Intn(3))}
				} else {
					e, _ := genEmissions(r, s.Family, 1)
					vspec[c][q] = e[0]
				}
			}
		}
	}
	nseq := r.Range(1, 4)
	if mixed {
		nseq = r.Range(2, 4)
	}
	seqs := make([][][]float64, nseq) // sequence, position, coordinate
	first := 0
	for q := range seqs {
		n := r.Range(1, 6)
		if mixed {
			// records of MIXED lengths, the longest first: the estimator reuses one
			// alpha/beta buffer per thread for all records, a shorter record sees
			// what the longer one left behind
			switch {
			case q == 0:
				n = r.Range(3, 6)
				first = n
			case q == nseq-1 && r.Chance(0.4):
				n = 1
			default:
				n = r.Range(1, first-1)
			}
		}
		seqs[q] = make([][]float64, n)
		for k := range seqs[q] {
			seqs[q][k] = make([]float64, d)
			for i := range seqs[q][k] {
				seqs[q][k][i] = draw()
			}
		}
	}
	optE := r.Chance(0.3)
	// OptimizeTransitions=false dereferences a nil matrix in baumWelchThread on
	// every call (reported under C16, which owns the EM options); the likelihood
	// of the forward recursion does not depend on the option
	optT := true
	wit := map[string]any{"model": s, "matrix": matrix, "vector_emissions": vspec, "sequences": seqs, "optimize_emissions": optE, "optimize_transitions": optT}
	kind := "vector"
	if matrix {
		kind = "matrix"
	}
	hasN1 := false
	maxn := 0
	for _, q := range seqs {
		if len(q) == 1 {
			hasN1 = true
		}
		if len(q) > maxn {
			maxn = len(q)
		}
	}
	class := fmt.Sprintf("%s,%s,seqs=%s", mClass(m), s.restrClass(2), map[bool]string{true: "1", false: ">1"}[nseq == 1])
	sig := func(what, failure string) string {
		return fmt.Sprintf("C15|%s|%s|%s|%s|%s", cs.Monitor, what, kind, class, failure)
	}

	var model0 any
	var pi1 []float64   // log Pi of the model handed to hook 1 (after the M-step)
	var tr1 [][]float64 // log Tr of that model
	reported := math.NaN()
	calls := 0
	hook := generic.BaumWelchHook{Value: func(h generic.BasicHmm, i int, likelihood, epsilon float64) {
		calls++
		switch i {
		case 0:
			switch v := h.(type) {
			case *vd.Hmm:
				model0 = v.Clone()
			case *md.Hmm:
				model0 = v.Clone()
			}
		case 1:
			reported = likelihood
			var g *generic.Hmm
			switch v := h.(type) {
			case *vd.Hmm:
				g = &v.Hmm
			case *md.Hmm:
				g = &v.Hmm
			}
			if g != nil {
				pi1 = make([]float64, g.M)
				tr1 = make([][]float64, g.M)
				for i := 0; i < g.M; i++ {
					pi1[i] = g.Pi.At(i).GetFloat64()
					tr1[i] = make([]float64, g.M)
					for k := 0; k < g.M; k++ {
						tr1[i][k] = g.Tr.At(i, k).GetFloat64()
					}
				}
			}
		}
	}}
	pool := threadpool.ThreadPool{}
	var err error
	t := ad.Float64Type
	p := fw.Call(func() {
		if !matrix {
			ests := make([]stat.ScalarEstimator, s.NE)
			for c := range ests {
				if ests[c], err = s.Edist[c].estimator(); err != nil {
					return
				}
			}
			var est *ve.HmmEstimator
			if est, err = ve.NewHmmEstimator(vecOf(t, s.Pi), matOf(t, s.Tr), s.StateMap, s.Start, s.Final, ests, 1e-8, 1, hook); err != nil {
				return
			}
			est.OptimizeEmissions = optE
			est.OptimizeTransitions = optT
			x := make([]ad.ConstVector, nseq)
			for q := range x {
				v := make([]float64, len(seqs[q]))
				for k := range v {
					v[k] = seqs[q][k][0]
				}
				x[q] = ad.NewDenseFloat64Vector(v)
			}
			err = est.EstimateOnData(x, nil, pool)
		} else {
			ests := make([]stat.VectorEstimator, s.NE)
			for c := range ests {
				sc := make([]stat.ScalarEstimator, d)
				for q := range sc {
					if sc[q], err = vspec[c][q].estimator(); err != nil {
						return
					}
				}
				if ests[c], err = ve.NewScalarId(sc...); err != nil {
					return
				}
			}
			var est *me.HmmEstimator
			if est, err = me.NewHmmEstimator(vecOf(t, s.Pi), matOf(t, s.Tr), s.StateMap, s.Start, s.Final, ests, 1e-8, 1, hook); err != nil {
				return
			}
			est.OptimizeEmissions = optE
			est.OptimizeTransitions = optT
			x := make([]ad.ConstMatrix, nseq)
			for q := range x {
				x[q] = matOf(t, seqs[q])
			}
			err = est.EstimateOnData(x, nil, pool)
		}
	})
	cs.Cover("bw:" + kind)
	if p != nil {
		cs.Violation(sig("BaumWelchStep", "panic"), p.Msg+"\n"+p.Stack, wit)
		return
	}
	if _, ok := expectedPi(s.Pi, s.Start); !ok {
		cs.Skip("start-mass-zero")
		return
	}
	if model0 == nil {
		if err != nil {
			// constructor rejected the configuration before the first hook
			cs.Violation(sig("NewHmmEstimator", "error"), err.Error(), wit)
		} else {
			cs.Violation(sig("BaumWelchHook", "not-called"), "hook was not called for iteration 0", wit)
		}
		return
	}
	// generic LogPdf and enumeration of the model seen at hook 0, per sequence
	sumGeneric, sumEnum, tol := 0.0, 0.0, 0.0
	judgedEnum := true
	var ens []*enumeration
	for q := range seqs {
		var h *libHmm
		switch v := model0.(type) {
		case *vd.Hmm:
			x := make([]float64, len(seqs[q]))
			for k := range x {
				x[k] = seqs[q][k][0]
			}
			h = vectorLib(v, x)
		case *md.Hmm:
			xm := matOf(t, seqs[q])
			sq := seqs[q]
			h = &libHmm{core: &v.Hmm, n: len(sq),
				logPdf: func(r ad.Scalar) error { return v.LogPdf(r, xm) },
				emission: func(c, k int) (float64, error) {
					r := ad.NewFloat64(0.0)
					if err := v.Edist[c].LogPdf(r, ad.NewDenseFloat64Vector(append([]float64{}, sq[k]...))); err != nil {
						return 0, err
					}
					return r.GetFloat64(), nil
				}}
		}
		res := ad.NewFloat64(0.0)
		var lerr error
		if p := fw.Call(func() { lerr = h.logPdf(res) }); p != nil || lerr != nil {
			cs.Skip("generic-logpdf-failed")
			return
		}
		sumGeneric += res.GetFloat64()
		tb, terr := readTables(h)
		if terr != nil || tb.hasNaN() {
			cs.Skip("nan-or-inf-parameters")
			return
		}
		en := enumerate(tb)
		ens = append(ens, en)
		sumEnum += en.logL
		tol += tolLog(en.logL, en.condL, h.n*m*m+m)
	}
	if hasN1 && s.Final != nil {
		judgedEnum = false
	}
	zero := math.IsInf(sumEnum, -1)
	if err != nil {
		msg := err.Error()
		switch {
		case s.Final != nil && len(s.Final) > 1 && strings.Contains(msg, "more than one final state"):
			cs.Cover("bw:rejected:several-final-states")
		case zero || math.IsInf(sumGeneric, -1):
			// zero-likelihood data: an error is a loud failure, as promised
			cs.Cover("bw:rejected:zero-likelihood")
		case strings.Contains(msg, "probability is zero for all models"):
			cs.Cover("bw:rejected:observation-outside-all-supports")
		case calls >= 2 && !math.IsNaN(reported):
			// the step itself succeeded, a later stage failed: the likelihood is judged below
			cs.Cover("bw:error-after-step")
		default:
			if optE {
				// the M-step of an emission estimator may legitimately fail (C16)
				cs.Skip("emission-estimator-error")
				return
			}
			cs.Violation(sig("BaumWelchStep", "error"), msg, wit)
		}
		if math.IsNaN(reported) {
			return
		}
	}
	if math.IsNaN(reported) {
		cs.Violation(sig("BaumWelchHook", "not-called"), "hook was not called for iteration 1", wit)
		return
	}
	cs.Cover("query:BaumWelchStep-likelihood")
	cs.Cover(fmt.Sprintf("bw:sequences=%d", nseq))
	if optT {
		cs.Cover("bw:optimize-transitions")
	}
	if optE {
		cs.Cover("bw:optimize-emissions")
	}
	// float64-specialised against generic
	if !sameLog(reported, sumGeneric, 2*tol) {
		cs.Violation(sig("BaumWelchStep-likelihood", "differs-from-generic"),
			fmt.Sprintf("likelihood reported by the float64-specialised forward recursion: %v, sum of the generic LogPdf over the %d sequences: %v (difference %.3g, tolerance %.3g)", reported, nseq, sumGeneric, reported-sumGeneric, 2*tol), wit)
	}
	if judgedEnum {
		if !sameLog(reported, sumEnum, tol) {
			cs.Violation(sig("BaumWelchStep-likelihood", "value"),
				fmt.Sprintf("likelihood reported by the float64-specialised forward recursion: %v, enumeration over the %d sequences: %v (difference %.3g, tolerance %.3g)", reported, nseq, sumEnum, reported-sumEnum, tol), wit)
		} else if !zero && m >= 2 && maxn >= 2 {
			cs.Nontrivial(s.Pi, s.Tr, s.StateMap, s.Start, s.Final, s.Edist, vspec, seqs)
		}
	} else {
		cs.Cover("bw:n=1-with-final-restriction(enumeration not judged)")
	}
	// expected counts of the E-step (they need the backward recursion on every
	// record): the Pi and Tr of the model after the step against the enumeration
	if judgedEnum && err == nil && pi1 != nil && cs.Violations() == 0 {
		finite := true
		for _, en := range ens {
			finite = finite && !math.IsInf(en.logL, 0) && !math.IsNaN(en.logL)
		}
		if finite {
			judgeCounts(cs, sig, s, ens, pi1, tr1, mixed, wit)
		}
	}
}

// judgeCounts: Pi' proportional to sum_records P(s_0 = i | x), Tr'[i][j]
// proportional to sum_records sum_k P(s_k = i, s_k+1 = j | x) (the last
// transition is left out when a final state is set, as the library documents),
// rows renormalised; rows without expected transitions are not judged.
func judgeCounts(cs *fw.Case, sig func(what, failure string) string, s *hmmSpec, ens []*enumeration, pi1 []float64, tr1 [][]float64, mixed bool, wit map[string]any) {
	m := s.M
	accPi := make([]lse, m)
	accTr := make([][]lse, m)
	for i := range accTr {
		accTr[i] = make([]lse, m)
	}
	ops := 0
	for _, en := range ens {
		n := en.n
		ops += n*m*m + m
		last := n - 1 // transitions k -> k+1 for k < last
		if s.Final != nil {
			last = n - 2
		}
		for code, lp := range en.lp {
			if math.IsInf(lp, -1) {
				continue
			}
			p := en.path(code)
			v, a := lp-en.logL, en.abs[code]+en.condL+math.Abs(en.logL)
			accPi[p[0]].add(v, a)
			for k := 0; k < last; k++ {
				accTr[p[k]][p[k+1]].add(v, a)
			}
		}
	}
	cs.Cover("query:BaumWelchStep-counts")
	if mixed {
		cs.Cover("bw:mixed-lengths")
	}
	check := func(what string, got []float64, acc []lse) bool {
		var tot lse
		vals := make([]float64, len(acc))
		conds := make([]float64, len(acc))
		for i := range acc {
			vals[i], conds[i] = acc[i].result()
			tot.add(vals[i], conds[i])
		}
		z, cz := tot.result()
		if math.IsInf(z, -1) {
			cs.Cover("bw:row-without-expected-counts(not judged)")
			return true
		}
		for i := range acc {
			want := vals[i] - z
			if math.IsInf(vals[i], -1) {
				want = negInf
			}
			tl := 2 * (tolLog(vals[i], conds[i], ops) + tolLog(z, cz, ops))
			if !sameLog(got[i], want, tl) {
				cs.Violation(sig("BaumWelchStep-counts:"+what, "value"),
					fmt.Sprintf("%s after one Baum-Welch step: entry %d is exp(%v) = %v, expected counts by enumeration over the %d records give exp(%v) = %v (difference %.3g on log scale, tolerance %.3g); record lengths %v",
						what, i, got[i], math.Exp(got[i]), len(ens), want, math.Exp(want), got[i]-want, tl, lengths(ens)), wit)
				return false
			}
		}
		return true
	}
	if !check("Pi", pi1, accPi) {
		return
	}
	for i := 0; i < m; i++ {
		if !check("Tr-row", tr1[i], accTr[i]) {
			return
		}
	}
}

func lengths(ens []*enumeration) []int {
	r := make([]int, len(ens))
	for i, en := range ens {
		r[i] = en.n
	}
	return r
}
