package c15

import (
	"fmt"
	"math"
	"strings"

	ad "github.com/pbenner/autodiff"
	stat "github.com/pbenner/autodiff/statistics"
	"github.com/pbenner/autodiff/statistics/generic"
	md "github.com/pbenner/autodiff/statistics/matrixDistribution"
	me "github.com/pbenner/autodiff/statistics/matrixEstimator"
	se "github.com/pbenner/autodiff/statistics/scalarEstimator"
	vd "github.com/pbenner/autodiff/statistics/vectorDistribution"
	ve "github.com/pbenner/autodiff/statistics/vectorEstimator"
	"github.com/pbenner/threadpool"

	"verifharness/internal/fw"
	"verifharness/internal/prng"
)

func (e edSpec) estimator() (stat.ScalarEstimator, error) {
	switch e.Kind {
	case "categorical":
		return se.NewCategoricalEstimator(append([]float64{}, e.P...))
	case "normal":
		return se.NewNormalEstimator(e.P[0], e.P[1], 1e-6)
	case "poisson":
		return se.NewPoissonEstimator(e.P[0])
	case "exponential":
		return se.NewExponentialEstimator(e.P[0], 1e8)
	case "geometric":
		return se.NewGeometricEstimator(e.P[0])
	}
	return nil, fmt.Errorf("no estimator for %s", e.Kind)
}

// runBwCase: the likelihood reported by the float64-specialised
// forward-backward (BaumWelchStep, observed through the Baum-Welch hook of a
// one-step run) against the generic LogPdf of the same model and against the
// enumeration, over data sets of 1..4 sequences.
func runBwCase(cs *fw.Case, r *prng.Rand) {
	m := r.Range(1, 4)
	s := genHmmSpec(r, m)
	s.Elem = "Float64"
	if s.Final != nil && r.Chance(0.85) {
		// BaumWelchStep rejects more than one final state
		s.Final = []int{s.Final[r.Intn(len(s.Final))]}
	}
	s.Family = r.Pick([]string{"categorical", "normal", "poisson", "exponential", "geometric"})
	var draw func() float64
	s.Edist, draw = genEmissions(r, s.Family, s.NE)
	matrix := r.Chance(0.25)
	d := 1
	if matrix {
		d = r.Range(1, 3)
	}
	// per emission distribution and coordinate one scalar spec
	vspec := make([][]edSpec, s.NE)
	if matrix {
		for c := range vspec {
			vspec[c] = make([]edSpec, d)
			for q := range vspec[c] {
				if s.Family == "categorical" {
					vspec[c][q] = edSpec{"categorical", probVector(r, len(s.Edist[0].P), r.Intn(3))}
				} else {
					e, _ := genEmissions(r, s.Family, 1)
					vspec[c][q] = e[0]
				}
			}
		}
	}
	nseq := r.Range(1, 4)
	seqs := make([][][]float64, nseq) // sequence, position, coordinate
	for q := range seqs {
		n := r.Range(1, 6)
		seqs[q] = make([][]float64, n)
		for k := range seqs[q] {
			seqs[q][k] = make([]float64, d)
			for i := range seqs[q][k] {
				seqs[q][k][i] = draw()
			}
		}
	}
	optE := r.Chance(0.3)
	// OptimizeTransitions=false dereferences a nil matrix in baumWelchThread on
	// every call (reported under C16, which owns the EM options); the likelihood
	// of the forward recursion does not depend on the option
	optT := true
	wit := map[string]any{"model": s, "matrix": matrix, "vector_emissions": vspec, "sequences": seqs, "optimize_emissions": optE, "optimize_transitions": optT}
	kind := "vector"
	if matrix {
		kind = "matrix"
	}
	hasN1 := false
	maxn := 0
	for _, q := range seqs {
		if len(q) == 1 {
			hasN1 = true
		}
		if len(q) > maxn {
			maxn = len(q)
		}
	}
	class := fmt.Sprintf("%s,%s,seqs=%s", mClass(m), s.restrClass(2), map[bool]string{true: "1", false: ">1"}[nseq == 1])
	sig := func(what, failure string) string {
		return fmt.Sprintf("C15|%s|%s|%s|%s|%s", cs.Monitor, what, kind, class, failure)
	}

	var model0 any
	reported := math.NaN()
	calls := 0
	hook := generic.BaumWelchHook{Value: func(h generic.BasicHmm, i int, likelihood, epsilon float64) {
		calls++
		switch i {
		case 0:
			switch v := h.(type) {
			case *vd.Hmm:
				model0 = v.Clone()
			case *md.Hmm:
				model0 = v.Clone()
			}
		case 1:
			reported = likelihood
		}
	}}
	pool := threadpool.ThreadPool{}
	var err error
	t := ad.Float64Type
	p := fw.Call(func() {
		if !matrix {
			ests := make([]stat.ScalarEstimator, s.NE)
			for c := range ests {
				if ests[c], err = s.Edist[c].estimator(); err != nil {
					return
				}
			}
			var est *ve.HmmEstimator
			if est, err = ve.NewHmmEstimator(vecOf(t, s.Pi), matOf(t, s.Tr), s.StateMap, s.Start, s.Final, ests, 1e-8, 1, hook); err != nil {
				return
			}
			est.OptimizeEmissions = optE
			est.OptimizeTransitions = optT
			x := make([]ad.ConstVector, nseq)
			for q := range x {
				v := make([]float64, len(seqs[q]))
				for k := range v {
					v[k] = seqs[q][k][0]
				}
				x[q] = ad.NewDenseFloat64Vector(v)
			}
			err = est.EstimateOnData(x, nil, pool)
		} else {
			ests := make([]stat.VectorEstimator, s.NE)
			for c := range ests {
				sc := make([]stat.ScalarEstimator, d)
				for q := range sc {
					if sc[q], err = vspec[c][q].estimator(); err != nil {
						return
					}
				}
				if ests[c], err = ve.NewScalarId(sc...); err != nil {
					return
				}
			}
			var est *me.HmmEstimator
			if est, err = me.NewHmmEstimator(vecOf(t, s.Pi), matOf(t, s.Tr), s.StateMap, s.Start, s.Final, ests, 1e-8, 1, hook); err != nil {
				return
			}
			est.OptimizeEmissions = optE
			est.OptimizeTransitions = optT
			x := make([]ad.ConstMatrix, nseq)
			for q := range x {
				x[q] = matOf(t, seqs[q])
			}
			err = est.EstimateOnData(x, nil, pool)
		}
	})
	cs.Cover("bw:" + kind)
	if p != nil {
		cs.Violation(sig("BaumWelchStep", "panic"), p.Msg+"\n"+p.Stack, wit)
		return
	}
	if _, ok := expectedPi(s.Pi, s.Start); !ok {
		cs.Skip("start-mass-zero")
		return
	}
	if model0 == nil {
		if err != nil {
			// constructor rejected the configuration before the first hook
			cs.Violation(sig("NewHmmEstimator", "error"), err.Error(), wit)
		} else {
			cs.Violation(sig("BaumWelchHook", "not-called"), "hook was not called for iteration 0", wit)
		}
		return
	}
	// generic LogPdf and enumeration of the model seen at hook 0, per sequence
	sumGeneric, sumEnum, tol := 0.0, 0.0, 0.0
	judgedEnum := true
	for q := range seqs {
		var h *libHmm
		switch v := model0.(type) {
		case *vd.Hmm:
			x := make([]float64, len(seqs[q]))
			for k := range x {
				x[k] = seqs[q][k][0]
			}
			h = vectorLib(v, x)
		case *md.Hmm:
			xm := matOf(t, seqs[q])
			sq := seqs[q]
			h = &libHmm{core: &v.Hmm, n: len(sq),
				logPdf: func(r ad.Scalar) error { return v.LogPdf(r, xm) },
				emission: func(c, k int) (float64, error) {
					r := ad.NewFloat64(0.0)
					if err := v.Edist[c].LogPdf(r, ad.NewDenseFloat64Vector(append([]float64{}, sq[k]...))); err != nil {
						return 0, err
					}
					return r.GetFloat64(), nil
				}}
		}
		res := ad.NewFloat64(0.0)
		var lerr error
		if p := fw.Call(func() { lerr = h.logPdf(res) }); p != nil || lerr != nil {
			cs.Skip("generic-logpdf-failed")
			return
		}
		sumGeneric += res.GetFloat64()
		tb, terr := readTables(h)
		if terr != nil || tb.hasNaN() {
			cs.Skip("nan-or-inf-parameters")
			return
		}
		en := enumerate(tb)
		sumEnum += en.logL
		tol += tolLog(en.logL, en.condL, h.n*m*m+m)
	}
	if hasN1 && s.Final != nil {
		judgedEnum = false
	}
	zero := math.IsInf(sumEnum, -1)
	if err != nil {
		msg := err.Error()
		switch {
		case s.Final != nil && len(s.Final) > 1 && strings.Contains(msg, "more than one final state"):
			cs.Cover("bw:rejected:several-final-states")
		case zero || math.IsInf(sumGeneric, -1):
			// zero-likelihood data: an error is a loud failure, as promised
			cs.Cover("bw:rejected:zero-likelihood")
		case strings.Contains(msg, "probability is zero for all models"):
			cs.Cover("bw:rejected:observation-outside-all-supports")
		case calls >= 2 && !math.IsNaN(reported):
			// the step itself succeeded, a later stage failed: the likelihood is judged below
			cs.Cover("bw:error-after-step")
		default:
			if optE {
				// the M-step of an emission estimator may legitimately fail (C16)
				cs.Skip("emission-estimator-error")
				return
			}
			cs.Violation(sig("BaumWelchStep", "error"), msg, wit)
		}
		if math.IsNaN(reported) {
			return
		}
	}
	if math.IsNaN(reported) {
		cs.Violation(sig("BaumWelchHook", "not-called"), "hook was not called for iteration 1", wit)
		return
	}
	cs.Cover("query:BaumWelchStep-likelihood")
	cs.Cover(fmt.Sprintf("bw:sequences=%d", nseq))
	if optT {
		cs.Cover("bw:optimize-transitions")
	}
	if optE {
		cs.Cover("bw:optimize-emissions")
	}
	// float64-specialised against generic
	if !sameLog(reported, sumGeneric, 2*tol) {
		cs.Violation(sig("BaumWelchStep-likelihood", "differs-from-generic"),
			fmt.Sprintf("likelihood reported by the float64-specialised forward recursion: %v, sum of the generic LogPdf over the %d sequences: %v (difference %.3g, tolerance %.3g)", reported, nseq, sumGeneric, reported-sumGeneric, 2*tol), wit)
	}
	if judgedEnum {
		if !sameLog(reported, sumEnum, tol) {
			cs.Violation(sig("BaumWelchStep-likelihood", "value"),
				fmt.Sprintf("likelihood reported by the float64-specialised forward recursion: %v, enumeration over the %d sequences: %v (difference %.3g, tolerance %.3g)", reported, nseq, sumEnum, reported-sumEnum, tol), wit)
		} else if !zero && m >= 2 && maxn >= 2 {
			cs.Nontrivial(s.Pi, s.Tr, s.StateMap, s.Start, s.Final, s.Edist, vspec, seqs)
		}
	} else {
		cs.Cover("bw:n=1-with-final-restriction(enumeration not judged)")
	}
}
