// Package c15: HMM and mixture inference against the explicit enumeration of
// all hidden paths (DESIGN.md, C15).
//
// The oracle enumerates all m^n hidden paths in log space.  A path's log
// probability is the plain sum of its terms
//
//	log Pi[s0] + e[s0][0] + sum_{k=1..n-2} (log Tr[s(k-1)][s(k)] + e[s(k)][k])
//	           + log Tf[s(n-2)][s(n-1)] + e[s(n-1)][n-1]
//
// with Pi/Tr/Tf read from the model's public fields and the emission terms
// e[i][k] obtained by evaluating the emission distribution of state i directly
// on observation k.  Sums over paths use a compensated log-sum-exp.
package c15

import (
	"math"
)

// eps is the unit round-off of float64.
const eps = 1.1102230246251565e-16

// K is the safety factor of the condition-scaled tolerance K*eps*(|f| + A + ops),
// A = posterior-weighted sum of |terms| of the log-sum (DESIGN.md 2.4).
const K = 16.0

var negInf = math.Inf(-1)

// lse is a compensated log-sum-exp accumulator over (log value, |terms|) pairs.
type lse struct {
	ls  []float64 // log terms
	abs []float64 // sum of |summands| that produced each log term (conditioning)
}

func (a *lse) add(l, abs float64) {
	if math.IsInf(l, -1) {
		return
	}
	a.ls = append(a.ls, l)
	a.abs = append(a.abs, abs)
}

// result returns log(sum exp(l_p)) and the weighted mean of abs (the
// first-order condition sum  sum_k |t_k df/dt_k|).
func (a *lse) result() (float64, float64) {
	if len(a.ls) == 0 {
		return negInf, 0
	}
	mx := a.ls[0]
	for _, l := range a.ls {
		if l > mx {
			mx = l
		}
	}
	if math.IsInf(mx, 1) || math.IsNaN(mx) {
		return mx, 0
	}
	// Kahan summation of exp(l-mx)
	s, c := 0.0, 0.0
	sa, ca := 0.0, 0.0
	for i, l := range a.ls {
		w := math.Exp(l - mx)
		y := w - c
		t := s + y
		c = (t - s) - y
		s = t
		ya := w*a.abs[i] - ca
		ta := sa + ya
		ca = (ta - sa) - ya
		sa = ta
	}
	return mx + math.Log(s), sa / s
}

// tables holds everything the enumeration needs, all on log scale.
type tables struct {
	m, n int
	pi   []float64
	tr   [][]float64
	tf   [][]float64
	e    [][]float64 // e[state][position]
}

// enumeration is the table of all path log-probabilities.
type enumeration struct {
	m, n  int
	lp    []float64 // per path code: log joint probability of (path, observations)
	abs   []float64 // per path code: sum of |terms|
	logL  float64
	condL float64
	maxLP float64
	argmx int
}

// digit k of a path code (base m, position 0 = least significant).
func (en *enumeration) state(code, k int) int {
	for ; k > 0; k-- {
		code /= en.m
	}
	return code % en.m
}

func (en *enumeration) path(code int) []int {
	p := make([]int, en.n)
	for k := 0; k < en.n; k++ {
		p[k] = code % en.m
		code /= en.m
	}
	return p
}

func pow(m, n int) int {
	r := 1
	for ; n > 0; n-- {
		r *= m
	}
	return r
}

// pathLP returns the joint log probability and the sum of |terms| of one path.
func (t *tables) pathLP(p []int) (float64, float64) {
	n := t.n
	lp, abs := 0.0, 0.0
	add := func(v float64) {
		lp += v
		if !math.IsInf(v, 0) {
			abs += math.Abs(v)
		}
	}
	add(t.pi[p[0]])
	add(t.e[p[0]][0])
	for k := 1; k < n; k++ {
		if k == n-1 {
			add(t.tf[p[k-1]][p[k]])
		} else {
			add(t.tr[p[k-1]][p[k]])
		}
		add(t.e[p[k]][k])
	}
	return lp, abs
}

func enumerate(t *tables) *enumeration {
	np := pow(t.m, t.n)
	en := &enumeration{m: t.m, n: t.n, lp: make([]float64, np), abs: make([]float64, np), maxLP: negInf, argmx: -1}
	p := make([]int, t.n)
	var acc lse
	for code := 0; code < np; code++ {
		c := code
		for k := 0; k < t.n; k++ {
			p[k] = c % t.m
			c /= t.m
		}
		lp, abs := t.pathLP(p)
		en.lp[code], en.abs[code] = lp, abs
		acc.add(lp, abs)
		if lp > en.maxLP {
			en.maxLP, en.argmx = lp, code
		}
	}
	en.logL, en.condL = acc.result()
	return en
}

// sumWhere returns the log-sum over the paths accepted by keep.
func (en *enumeration) sumWhere(keep func(code int) bool) (float64, float64) {
	var acc lse
	for code, lp := range en.lp {
		if keep(code) {
			acc.add(lp, en.abs[code])
		}
	}
	return acc.result()
}

// tolLog is the tolerance for a log-sum with value f, condition sum cond, that
// a recursion of `ops` log-additions produced.
func tolLog(f, cond float64, ops int) float64 {
	if math.IsInf(f, 0) || math.IsNaN(f) {
		f = 0
	}
	return K * eps * (math.Abs(f) + cond + float64(ops))
}

// sameLog compares two log-scale values: -Inf must be reproduced exactly,
// finite values within tol.
func sameLog(got, want, tol float64) bool {
	if math.IsNaN(got) || math.IsNaN(want) {
		return false
	}
	if math.IsInf(want, 0) || math.IsInf(got, 0) {
		return got == want
	}
	return math.Abs(got-want) <= tol
}
