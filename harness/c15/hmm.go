package c15

import (
	"fmt"
	"math"

	ad "github.com/pbenner/autodiff"
	stat "github.com/pbenner/autodiff/statistics"
	"github.com/pbenner/autodiff/statistics/generic"
	md "github.com/pbenner/autodiff/statistics/matrixDistribution"
	vc "github.com/pbenner/autodiff/statistics/vectorClassifier"
	vd "github.com/pbenner/autodiff/statistics/vectorDistribution"

	"verifharness/internal/fw"
	"verifharness/internal/prng"
)

// libHmm is what the monitor needs from any of the HMM wrappers.
type libHmm struct {
	core *generic.Hmm
	// queries of the wrapper on observation sequence d
	logPdf    func(r ad.Scalar) error
	marginals func() ([]ad.Vector, error)
	posterior func(r ad.Scalar, states [][]int) error
	viterbi   func() ([]int, error)
	// emission e[c][k]: log density of emission distribution c at observation k
	emission func(c, k int) (float64, error)
	n        int
	// spec, if set, replaces the tables read back from the model: the
	// enumeration then runs on the model AS SPECIFIED (history monitor)
	spec *tables
}

// readTables reads the public parameters of the model and evaluates the
// emission distributions directly.
func readTables(h *libHmm) (*tables, error) {
	g := h.core
	m := g.M
	t := &tables{m: m, n: h.n}
	t.pi = make([]float64, m)
	t.tr = make([][]float64, m)
	t.tf = make([][]float64, m)
	t.e = make([][]float64, m)
	for i := 0; i < m; i++ {
		t.pi[i] = g.Pi.At(i).GetFloat64()
		t.tr[i] = make([]float64, m)
		t.tf[i] = make([]float64, m)
		for j := 0; j < m; j++ {
			t.tr[i][j] = g.Tr.At(i, j).GetFloat64()
			t.tf[i][j] = g.Tf.At(i, j).GetFloat64()
		}
	}
	ne := g.N
	em := make([][]float64, ne)
	for c := 0; c < ne; c++ {
		em[c] = make([]float64, h.n)
		for k := 0; k < h.n; k++ {
			v, err := h.emission(c, k)
			if err != nil {
				return nil, err
			}
			em[c][k] = v
		}
	}
	for i := 0; i < m; i++ {
		t.e[i] = em[g.StateMap[i]]
	}
	return t, nil
}

func (t *tables) hasNaN() bool {
	bad := func(v float64) bool { return math.IsNaN(v) || math.IsInf(v, 1) }
	for i := 0; i < t.m; i++ {
		if bad(t.pi[i]) {
			return true
		}
		for j := 0; j < t.m; j++ {
			if bad(t.tr[i][j]) || bad(t.tf[i][j]) {
				return true
			}
		}
		for k := 0; k < t.n; k++ {
			if bad(t.e[i][k]) {
				return true
			}
		}
	}
	return false
}

type hmmJudge struct {
	cs      *fw.Case
	kind    string // hmm | wrapper
	elem    string
	class   string // m,n,restriction
	zero    string
	witness map[string]any
}

func (j *hmmJudge) sig(query, kind string) string {
	return fmt.Sprintf("C15|%s|%s|%s|%s,%s|%s", j.cs.Monitor, query, j.elem, j.class, j.zero, kind)
}

func (j *hmmJudge) viol(query, kind, detail string) {
	j.cs.Violation(j.sig(query, kind), detail, j.witness)
}

// checkSemantics compares the library's Pi/Tr/Tf with the restriction and
// renormalisation recomputed from the user-supplied parameters.  Returns false
// if the configuration is one whose meaning is not specified (not judged).
func checkSemantics(j *hmmJudge, s *hmmSpec, t *tables) {
	cs := j.cs
	m := s.M
	// the library renormalises on log scale: log p_k - log(sum) with both terms of
	// the magnitude of the largest |log p| involved, so that magnitude enters the
	// rounding allowance of the difference
	scaleOf := func(p []float64) float64 {
		sc := 0.0
		for _, v := range p {
			if v > 0 && math.Abs(math.Log(v)) > sc {
				sc = math.Abs(math.Log(v))
			}
		}
		return sc
	}
	scale := scaleOf(s.Pi)
	tol := func(want float64) float64 { return K * eps * (1 + math.Abs(want) + 2*scale) }
	// Pi
	if want, ok := expectedPi(s.Pi, s.Start); !ok {
		cs.Cover("semantics:start-mass-zero(not judged)")
	} else {
		cs.Cover("semantics:Pi")
		for i := 0; i < m; i++ {
			if !sameLog(t.pi[i], want[i], tol(want[i])) {
				cs.Violation(fmt.Sprintf("C15|hmm|Pi|%s,%s|value", mClass(m), s.restrClass(2)),
					fmt.Sprintf("Pi[%d] = %v (p=%v), pi restricted to the start states %v and renormalised gives %v (p=%v)", i, t.pi[i], math.Exp(t.pi[i]), s.Start, want[i], math.Exp(want[i])), j.witness)
				break
			}
		}
	}
	// Tr
	wantTr, deadTr := expectedRows(s.Tr, nil)
	if len(deadTr) == 0 {
		cs.Cover("semantics:Tr")
	trloop:
		for i := 0; i < m; i++ {
			scale = scaleOf(s.Tr[i])
			for k := 0; k < m; k++ {
				if !sameLog(t.tr[i][k], wantTr[i][k], tol(wantTr[i][k])) {
					cs.Violation(fmt.Sprintf("C15|hmm|Tr|%s|value", mClass(m)),
						fmt.Sprintf("Tr[%d][%d] = %v, row-normalised input gives %v", i, k, t.tr[i][k], wantTr[i][k]), j.witness)
					break trloop
				}
			}
		}
	}
	// Tf
	wantTf, dead := expectedRows(s.Tr, s.Final)
	cs.Cover("semantics:Tf")
	reported := map[string]bool{}
	for i := 0; i < m; i++ {
		class := "final-reachable-row"
		if inSet(dead, i) {
			// no final state can be entered from i: there is nothing to
			// renormalise.  Any path through i at position n-2 violates the
			// restriction, so the row carries no probability.  A row that moves
			// the mass onto a *final* state i itself keeps the restriction and is
			// not judged; mass on a non-final state breaks the restriction.
			if inSet(s.Final, i) {
				cs.Cover("semantics:Tf:final-unreachable-row,i-final(not judged)")
				continue
			}
			class = "final-unreachable-row"
			cs.Cover("semantics:Tf:final-unreachable-row")
		}
		scale = 2 * scaleOf(s.Tr[i]) // Tf is renormalised from the already renormalised Tr
		for k := 0; k < m; k++ {
			if !sameLog(t.tf[i][k], wantTf[i][k], tol(wantTf[i][k])) {
				sg := fmt.Sprintf("C15|hmm|Tf|%s,%s|value", mClass(m), class)
				if !reported[sg] {
					reported[sg] = true
					cs.Violation(sg, fmt.Sprintf("Tf[%d][%d] = %v (p=%v) with final states %v; transitions into non-final states removed and the row renormalised gives %v (p=%v); user row %v",
						i, k, t.tf[i][k], math.Exp(t.tf[i][k]), s.Final, wantTf[i][k], math.Exp(wantTf[i][k]), s.Tr[i]), j.witness)
				}
				break
			}
		}
	}
}

// genStateSets draws a sequence of state sets (each a set, no repetitions).
func genStateSets(r *prng.Rand, m, n int, allowEmpty bool) [][]int {
	sets := make([][]int, n)
	full := 1<<m - 1
	for k := range sets {
		lo := 1
		if allowEmpty && r.Chance(0.1) {
			lo = 0
		}
		mask := r.Range(lo, full)
		s := subset(mask, m)
		// the order of the listed states must not matter
		p := r.Perm(len(s))
		o := make([]int, len(s))
		for i := range s {
			o[i] = s[p[i]]
		}
		if o == nil {
			o = []int{}
		}
		sets[k] = o
	}
	return sets
}

// judgeQueries runs all queries of one model on one observation sequence and
// compares them with the enumeration.  Returns the enumeration (nil if the
// case was not judged).
func judgeQueries(j *hmmJudge, h *libHmm, r *prng.Rand, extra func(en *enumeration, t *tables)) *enumeration {
	cs := j.cs
	t, err := h.spec, error(nil)
	if t == nil {
		t, err = readTables(h)
	}
	if err != nil {
		cs.Skip("emission-error")
		return nil
	}
	if t.hasNaN() {
		cs.Skip("nan-or-inf-parameters")
		return nil
	}
	m, n := t.m, t.n
	en := enumerate(t)
	ops := n*m*m + m
	switch {
	case math.IsInf(en.logL, -1):
		j.zero = "allzero"
	default:
		j.zero = "dense"
		for _, lp := range en.lp {
			if math.IsInf(lp, -1) {
				j.zero = "zeros"
				break
			}
		}
	}
	cs.Cover("zero-class:" + j.zero)
	cs.Cover("class:" + j.class)
	cs.C.CoverMax("max:paths", int64(len(en.lp)))
	tolL := tolLog(en.logL, en.condL, ops)

	// LogPdf
	{
		res := ad.NewScalar(h.core.ScalarType(), 0.0)
		var err error
		if p := fw.Call(func() { err = h.logPdf(res) }); p != nil {
			j.viol("LogPdf", "panic", p.Msg+"\n"+p.Stack)
		} else if err != nil {
			j.viol("LogPdf", "error", err.Error())
		} else {
			cs.Cover("query:LogPdf")
			got := res.GetFloat64()
			if !sameLog(got, en.logL, tolL) {
				j.viol("LogPdf", "value", fmt.Sprintf("LogPdf = %v, enumeration of %d paths gives %v (difference %.3g, tolerance %.3g)", got, len(en.lp), en.logL, got-en.logL, tolL))
			} else if !math.IsInf(en.logL, -1) {
				cs.C.CoverMax("max:LogPdf-error/tolerance(1e-3)", int64(1000*math.Abs(got-en.logL)/tolL))
			}
		}
	}
	// PosteriorMarginals
	{
		var gamma []ad.Vector
		var err error
		if p := fw.Call(func() { gamma, err = h.marginals() }); p != nil {
			j.viol("PosteriorMarginals", "panic", p.Msg+"\n"+p.Stack)
		} else if math.IsInf(en.logL, -1) {
			// conditioning on an event of probability zero: an error is the
			// right answer, values are not judged
			if err != nil {
				cs.Cover("query:PosteriorMarginals:zero-likelihood-rejected")
			} else {
				cs.Cover("query:PosteriorMarginals:zero-likelihood-not-rejected(not judged)")
			}
		} else if err != nil {
			j.viol("PosteriorMarginals", "error", err.Error())
		} else if len(gamma) != m {
			j.viol("PosteriorMarginals", "shape", fmt.Sprintf("%d vectors for %d states", len(gamma), m))
		} else {
			cs.Cover("query:PosteriorMarginals")
			bad := false
			for k := 0; k < n && !bad; k++ {
				sum, maxabs := 0.0, 0.0
				for i := 0; i < m && !bad; i++ {
					if gamma[i].Dim() != n {
						j.viol("PosteriorMarginals", "shape", fmt.Sprintf("vector %d has length %d for %d observations", i, gamma[i].Dim(), n))
						bad = true
						break
					}
					got := gamma[i].At(k).GetFloat64()
					num, cond := en.sumWhere(func(code int) bool { return en.state(code, k) == i })
					want := num - en.logL
					if math.IsInf(num, -1) {
						want = negInf
					}
					tol := tolLog(num, cond, ops) + tolL
					if !sameLog(got, want, tol) {
						j.viol("PosteriorMarginals", "value", fmt.Sprintf("log P(state %d at position %d | x) = %v, enumeration gives %v (difference %.3g, tolerance %.3g)", i, k, got, want, got-want, tol))
						bad = true
					}
					sum += math.Exp(got)
					if !math.IsInf(got, 0) && math.Abs(got) > maxabs {
						maxabs = math.Abs(got)
					}
				}
				if bad {
					break
				}
				tolS := K * eps * (float64(m) + math.Abs(en.logL) + maxabs + en.condL)
				if !(math.Abs(sum-1) <= tolS) {
					j.viol("PosteriorMarginals", "normalisation", fmt.Sprintf("posterior marginals at position %d sum to %v (1%+.3g), tolerance %.3g", k, sum, sum-1, tolS))
					bad = true
				}
			}
		}
	}
	// Posterior of state-set sequences
	if !math.IsInf(en.logL, -1) {
		type setCase struct {
			name string
			sets [][]int
		}
		var list []setCase
		all := make([][]int, n)
		for k := range all {
			all[k] = subset(1<<m-1, m)
		}
		list = append(list, setCase{"all-states", all})
		best := en.path(en.argmx)
		single := make([][]int, n)
		for k := range single {
			single[k] = []int{best[k]}
		}
		list = append(list, setCase{"single-path", single})
		list = append(list, setCase{"random", genStateSets(r, m, n, false)})
		list = append(list, setCase{"random", genStateSets(r, m, n, true)})
		for _, sc := range list {
			res := ad.NewScalar(h.core.ScalarType(), 0.0)
			var err error
			if p := fw.Call(func() { err = h.posterior(res, sc.sets) }); p != nil {
				j.viol("Posterior:"+sc.name, "panic", p.Msg+"\n"+p.Stack)
				continue
			} else if err != nil {
				j.viol("Posterior:"+sc.name, "error", err.Error())
				continue
			}
			cs.Cover("query:Posterior:" + sc.name)
			num, cond := en.sumWhere(func(code int) bool {
				c := code
				for k := 0; k < n; k++ {
					if !inSet(sc.sets[k], c%m) {
						return false
					}
					c /= m
				}
				return true
			})
			want := num - en.logL
			if math.IsInf(num, -1) {
				want = negInf
				cs.Cover("query:Posterior:probability-zero")
			}
			tol := tolLog(num, cond, ops) + tolL
			if got := res.GetFloat64(); !sameLog(got, want, tol) {
				j.viol("Posterior:"+sc.name, "value", fmt.Sprintf("log P(Y in %v | x) = %v, enumeration gives %v (difference %.3g, tolerance %.3g)", sc.sets, got, want, got-want, tol))
			}
		}
	}
	// Viterbi
	{
		var path []int
		var err error
		if p := fw.Call(func() { path, err = h.viterbi() }); p != nil {
			j.viol("Viterbi", "panic", p.Msg+"\n"+p.Stack)
		} else if err != nil {
			j.viol("Viterbi", "error", err.Error())
		} else if len(path) != n {
			j.viol("Viterbi", "shape", fmt.Sprintf("path of length %d for %d observations", len(path), n))
		} else {
			ok := true
			for _, s := range path {
				if s < 0 || s >= m {
					ok = false
				}
			}
			if !ok {
				j.viol("Viterbi", "shape", fmt.Sprintf("path %v leaves the state space 0..%d", path, m-1))
			} else {
				cs.Cover("query:Viterbi")
				lp, abs := t.pathLP(path)
				tol := K * eps * (abs + float64(n))
				if math.IsInf(en.maxLP, -1) {
					cs.Cover("query:Viterbi:all-paths-zero(any path maximal)")
				} else if !(lp >= en.maxLP-tol) {
					j.viol("Viterbi", "not-maximal", fmt.Sprintf("Viterbi path %v has joint log-probability %v, path %v has %v (tolerance %.3g)", path, lp, en.path(en.argmx), en.maxLP, tol))
				} else {
					// ties: count how many paths are maximal within tol
					ties := 0
					for _, v := range en.lp {
						if v >= en.maxLP-tol {
							ties++
						}
					}
					if ties > 1 {
						cs.Cover("query:Viterbi:tie-accepted")
					}
				}
			}
		}
	}
	if extra != nil {
		extra(en, t)
	}
	return en
}

/* vector HMM (scalar emissions)
 * -------------------------------------------------------------------------- */

func buildVectorHmm(s *hmmSpec) (*vd.Hmm, error) {
	t := s.elemType()
	edist := make([]stat.ScalarPdf, len(s.Edist))
	for i, e := range s.Edist {
		d, err := e.build(t)
		if err != nil {
			return nil, err
		}
		edist[i] = d
	}
	hmm, err := vd.NewHmm(vecOf(t, s.Pi), matOf(t, s.Tr), s.StateMap, edist)
	if err != nil {
		return nil, err
	}
	if s.Start != nil {
		if err := hmm.SetStartStates(s.Start); err != nil {
			return nil, err
		}
	}
	if s.Final != nil {
		if err := hmm.SetFinalStates(s.Final); err != nil {
			return nil, err
		}
	}
	return hmm, nil
}

func vectorLib(hmm *vd.Hmm, x []float64) *libHmm {
	xv := ad.NewDenseFloat64Vector(append([]float64{}, x...))
	return &libHmm{
		core:      &hmm.Hmm,
		n:         len(x),
		logPdf:    func(r ad.Scalar) error { return hmm.LogPdf(r, xv) },
		marginals: func() ([]ad.Vector, error) { return hmm.PosteriorMarginals(xv) },
		posterior: func(r ad.Scalar, st [][]int) error { return hmm.Posterior(r, xv, st) },
		viterbi:   func() ([]int, error) { return hmm.Viterbi(xv) },
		emission: func(c, k int) (float64, error) {
			r := ad.NewFloat64(0.0)
			if err := hmm.Edist[c].LogPdf(r, ad.ConstFloat64(x[k])); err != nil {
				return 0, err
			}
			return r.GetFloat64(), nil
		},
	}
}

// classifierChecks: vectorClassifier.HmmClassifier (Viterbi) and HmmPosterior.
func classifierChecks(j *hmmJudge, hmm *vd.Hmm, x []float64, r *prng.Rand) func(en *enumeration, t *tables) {
	return func(en *enumeration, t *tables) {
		cs := j.cs
		m, n := t.m, t.n
		xv := ad.NewDenseFloat64Vector(append([]float64{}, x...))
		ops := n*m*m + m
		// HmmClassifier
		{
			res := ad.NullDenseFloat64Vector(n)
			var err error
			if p := fw.Call(func() { err = vc.HmmClassifier{Hmm: hmm}.Eval(res, xv) }); p != nil {
				j.viol("HmmClassifier.Eval", "panic", p.Msg+"\n"+p.Stack)
			} else if err != nil {
				j.viol("HmmClassifier.Eval", "error", err.Error())
			} else {
				cs.Cover("query:HmmClassifier.Eval")
				path := make([]int, n)
				ok := true
				for k := 0; k < n; k++ {
					v := res.At(k).GetFloat64()
					path[k] = int(v)
					if float64(path[k]) != v || path[k] < 0 || path[k] >= m {
						ok = false
					}
				}
				if !ok {
					j.viol("HmmClassifier.Eval", "shape", fmt.Sprintf("result %v is not a state sequence", res))
				} else if !math.IsInf(en.maxLP, -1) {
					lp, abs := t.pathLP(path)
					tol := K * eps * (abs + float64(n))
					if !(lp >= en.maxLP-tol) {
						j.viol("HmmClassifier.Eval", "not-maximal", fmt.Sprintf("path %v has joint log-probability %v, the maximum is %v", path, lp, en.maxLP))
					}
				}
			}
		}
		// HmmPosterior
		if !math.IsInf(en.logL, -1) {
			states := subset(r.Range(1, 1<<m-1), m)
			res := ad.NullDenseFloat64Vector(n)
			var err error
			if p := fw.Call(func() { err = vc.HmmPosterior{Hmm: hmm, States: states}.Eval(res, xv) }); p != nil {
				j.viol("HmmPosterior.Eval", "panic", p.Msg+"\n"+p.Stack)
			} else if err != nil {
				j.viol("HmmPosterior.Eval", "error", err.Error())
			} else {
				cs.Cover("query:HmmPosterior.Eval")
				tolL := tolLog(en.logL, en.condL, ops)
				for k := 0; k < n; k++ {
					num, cond := en.sumWhere(func(code int) bool { return inSet(states, en.state(code, k)) })
					want := math.Exp(num - en.logL)
					tol := (tolLog(num, cond, ops)+tolL)*want + K*eps
					if got := res.At(k).GetFloat64(); !(math.Abs(got-want) <= tol) {
						j.viol("HmmPosterior.Eval", "value", fmt.Sprintf("P(state in %v at position %d | x) = %v, enumeration gives %v (difference %.3g, tolerance %.3g)", states, k, got, want, got-want, tol))
						break
					}
				}
			}
		}
	}
}

// restrictionChecks: what a start / final restriction means directly, without
// reference to Pi/Tf: no probability on paths that begin outside the start
// states or (n >= 2) end outside the final states.
func restrictionChecks(j *hmmJudge, s *hmmSpec, hmm *vd.Hmm, x []float64, en *enumeration) {
	cs := j.cs
	n := len(x)
	if math.IsInf(en.logL, -1) || (s.Start == nil && s.Final == nil) {
		return
	}
	_, dead := expectedRows(s.Tr, s.Final)
	class := mClass(s.M) + ",final-reachable-row"
	for _, i := range dead {
		if !inSet(s.Final, i) {
			class = mClass(s.M) + ",final-unreachable-row"
		}
	}
	xv := ad.NewDenseFloat64Vector(append([]float64{}, x...))
	var path []int
	var gamma []ad.Vector
	var e1, e2 error
	if p := fw.Call(func() { path, e1 = hmm.Viterbi(xv); gamma, e2 = hmm.PosteriorMarginals(xv) }); p != nil || e1 != nil || e2 != nil || len(path) != n || len(gamma) != s.M {
		return // reported by the value checks
	}
	cs.Cover("query:restriction")
	if s.Start != nil {
		if !inSet(s.Start, path[0]) {
			cs.Violation(fmt.Sprintf("C15|hmm|Viterbi|%s|start-restriction", mClass(s.M)),
				fmt.Sprintf("Viterbi path %v begins in state %d, start states are %v", path, path[0], s.Start), j.witness)
		}
		for i := 0; i < s.M; i++ {
			if g := gamma[i].At(0).GetFloat64(); !inSet(s.Start, i) && !math.IsInf(g, -1) {
				cs.Violation(fmt.Sprintf("C15|hmm|PosteriorMarginals|%s|start-restriction", mClass(s.M)),
					fmt.Sprintf("P(state %d at position 0 | x) = exp(%v) > 0, start states are %v", i, g, s.Start), j.witness)
				break
			}
		}
	}
	if s.Final != nil && n >= 2 {
		if !inSet(s.Final, path[n-1]) {
			cs.Violation(fmt.Sprintf("C15|hmm|Viterbi|%s|final-restriction", class),
				fmt.Sprintf("Viterbi path %v ends in state %d, final states are %v (transition row of state %d: %v)", path, path[n-1], s.Final, path[n-2], s.Tr[path[n-2]]), j.witness)
		}
		for i := 0; i < s.M; i++ {
			if g := gamma[i].At(n - 1).GetFloat64(); !inSet(s.Final, i) && !math.IsInf(g, -1) {
				cs.Violation(fmt.Sprintf("C15|hmm|PosteriorMarginals|%s|final-restriction", class),
					fmt.Sprintf("P(state %d at the last position | x) = exp(%v) > 0, final states are %v", i, g, s.Final), j.witness)
				break
			}
		}
	}
}

// runVectorCase drives one vector-HMM case.
func runVectorCase(cs *fw.Case, s *hmmSpec, x []float64, r *prng.Rand, semantics bool) {
	n := len(x)
	wit := map[string]any{"model": s, "x": x}
	j := &hmmJudge{cs: cs, elem: s.Elem, witness: wit,
		class: fmt.Sprintf("%s,%s,%s", mClass(s.M), nClass(n), s.restrClass(n))}
	var hmm *vd.Hmm
	var err error
	if p := fw.Call(func() { hmm, err = buildVectorHmm(s) }); p != nil {
		cs.Violation(fmt.Sprintf("C15|%s|NewHmm|%s|%s,%s|panic", cs.Monitor, s.Elem, mClass(s.M), s.restrClass(n)), p.Msg+"\n"+p.Stack, wit)
		return
	} else if err != nil {
		cs.Violation(fmt.Sprintf("C15|%s|NewHmm|%s|%s,%s|error", cs.Monitor, s.Elem, mClass(s.M), s.restrClass(n)), err.Error(), wit)
		return
	}
	cs.Cover("elem:" + s.Elem)
	cs.Cover("family:" + s.Family)
	cs.Cover("tr-pattern:" + s.TrKind)
	cs.Cover(fmt.Sprintf("shape:m=%d,n=%d", s.M, n))
	if s.StateMap != nil && s.NE < s.M {
		cs.Cover("state-map:shared-emissions")
	} else if s.StateMap != nil {
		cs.Cover("state-map:permutation")
	} else {
		cs.Cover("state-map:identity")
	}
	h := vectorLib(hmm, x)
	if semantics {
		if t, err := readTables(h); err == nil {
			checkSemantics(j, s, t)
		}
	}
	if _, ok := expectedPi(s.Pi, s.Start); !ok {
		// the restricted initial distribution has no mass: nothing to renormalise
		cs.Skip("start-mass-zero")
		return
	}
	if n == 1 && s.Final != nil {
		// DESIGN.md C15: a final-state restriction on a single observation has no
		// last transition to act on; generated, executed, not judged
		fw.Call(func() {
			res := ad.NewScalar(hmm.ScalarType(), 0.0)
			hmm.LogPdf(res, ad.NewDenseFloat64Vector(x))
			hmm.Viterbi(ad.NewDenseFloat64Vector(x))
		})
		cs.Skip("n=1-with-final-restriction")
		return
	}
	cl := classifierChecks(j, hmm, x, r)
	en := judgeQueries(j, h, r, func(en *enumeration, t *tables) {
		cl(en, t)
		restrictionChecks(j, s, hmm, x, en)
	})
	if en != nil && cs.Violations() == 0 {
		if s.M >= 2 && n >= 2 && !math.IsInf(en.logL, -1) {
			cs.Nontrivial(s.Pi, s.Tr, s.StateMap, s.Start, s.Final, s.Edist, x, s.Elem)
		}
	}
}

func genObs(n int, draw func() float64, r *prng.Rand) []float64 {
	x := make([]float64, n)
	for k := range x {
		x[k] = draw()
	}
	if n >= 2 && r.Chance(0.15) {
		// all-equal observations: many tied paths
		for k := range x {
			x[k] = x[0]
		}
	}
	return x
}

/* matrix HMM (vector emissions)
 * -------------------------------------------------------------------------- */

// buildVectorPdf wraps scalar emission specs into a vector distribution of
// dimension d: "iid" (ScalarIid of one spec), "id" (ScalarId of d specs).
func buildVectorPdf(t ad.ScalarType, kind string, specs []edSpec, d int) (stat.VectorPdf, error) {
	switch kind {
	case "iid":
		sp, err := specs[0].build(t)
		if err != nil {
			return nil, err
		}
		return vd.NewScalarIid(sp, d)
	case "id":
		ds := make([]stat.ScalarPdf, d)
		for i := range ds {
			sp, err := specs[i].build(t)
			if err != nil {
				return nil, err
			}
			ds[i] = sp
		}
		return vd.NewScalarId(ds...)
	case "normal":
		// specs[0].P = mu (d), specs[1].P = lower-triangular factor L (d*d), sigma = L L^T + I/4
		mu := specs[0].P
		L := specs[1].P
		sig := make([][]float64, d)
		for i := range sig {
			sig[i] = make([]float64, d)
			for k := 0; k < d; k++ {
				for q := 0; q < d; q++ {
					sig[i][k] += L[i*d+q] * L[k*d+q]
				}
			}
			sig[i][i] += 0.25
		}
		return vd.NewNormalDistribution(vecOf(t, mu), matOf(t, sig))
	}
	return nil, fmt.Errorf("unknown vector pdf kind %s", kind)
}

type matrixSpec struct {
	Hmm   *hmmSpec    `json:"hmm"`
	D     int         `json:"dim"`
	VKind string      `json:"vector_pdf"`
	VSpec [][]edSpec  `json:"vector_emissions"`
	X     [][]float64 `json:"x"`
}

func runMatrixCase(cs *fw.Case, r *prng.Rand) {
	m := r.Range(1, 4)
	n := r.Range(1, 5)
	s := genHmmSpec(r, m)
	ms := &matrixSpec{Hmm: s, D: r.Range(1, 3)}
	ms.VKind = r.Pick([]string{"iid", "id", "normal"})
	var draw func() float64
	s.Family = r.Pick([]string{"normal", "poisson", "categorical", "mixed-real", "exponential"})
	if ms.VKind == "normal" {
		s.Family = "vector-normal"
	}
	ms.VSpec = make([][]edSpec, s.NE)
	for c := 0; c < s.NE; c++ {
		switch ms.VKind {
		case "iid":
			var e []edSpec
			e, draw = genEmissions(r, s.Family, 1)
			ms.VSpec[c] = e
		case "id":
			var e []edSpec
			e, draw = genEmissions(r, s.Family, ms.D)
			if s.Family == "categorical" {
				// all positions must accept the same observations
				k := len(e[0].P)
				for i := range e {
					e[i] = edSpec{"categorical", probVector(r, k, r.Intn(3))}
				}
			}
			ms.VSpec[c] = e
		case "normal":
			mu := make([]float64, ms.D)
			L := make([]float64, ms.D*ms.D)
			for i := range mu {
				mu[i] = r.Uniform(-2, 2)
				for k := 0; k <= i; k++ {
					L[i*ms.D+k] = r.Uniform(-1, 1)
				}
			}
			ms.VSpec[c] = []edSpec{{"mu", mu}, {"L", L}}
			draw = func() float64 { return r.Norm() * 2 }
		}
	}
	if s.Family == "categorical" && ms.VKind == "iid" {
		// the observation generator of the last genEmissions call fits only its
		// own alphabet; use a common alphabet of two symbols
		for c := range ms.VSpec {
			ms.VSpec[c] = []edSpec{{"categorical", probVector(r, 2, r.Intn(3))}}
		}
		draw = func() float64 { return float64(r.Intn(2)) }
	} else if s.Family == "categorical" {
		k := len(ms.VSpec[0][0].P)
		for c := range ms.VSpec {
			for i := range ms.VSpec[c] {
				ms.VSpec[c][i] = edSpec{"categorical", probVector(r, k, r.Intn(3))}
			}
		}
		draw = func() float64 { return float64(r.Intn(k)) }
	}
	ms.X = make([][]float64, n)
	for k := range ms.X {
		ms.X[k] = make([]float64, ms.D)
		for q := range ms.X[k] {
			ms.X[k][q] = draw()
		}
	}
	wit := map[string]any{"case": ms}
	j := &hmmJudge{cs: cs, elem: s.Elem, witness: wit,
		class: fmt.Sprintf("%s,%s,%s", mClass(s.M), nClass(n), s.restrClass(n))}
	t := s.elemType()
	var hmm *md.Hmm
	var err error
	if p := fw.Call(func() {
		edist := make([]stat.VectorPdf, s.NE)
		for c := range edist {
			if edist[c], err = buildVectorPdf(t, ms.VKind, ms.VSpec[c], ms.D); err != nil {
				return
			}
		}
		if hmm, err = md.NewHmm(vecOf(t, s.Pi), matOf(t, s.Tr), s.StateMap, edist); err != nil {
			return
		}
		if s.Start != nil {
			if err = hmm.SetStartStates(s.Start); err != nil {
				return
			}
		}
		if s.Final != nil {
			err = hmm.SetFinalStates(s.Final)
		}
	}); p != nil {
		cs.Violation(fmt.Sprintf("C15|%s|NewHmm|%s,%s|%s,%s|panic", cs.Monitor, s.Elem, ms.VKind, mClass(s.M), s.restrClass(n)), p.Msg+"\n"+p.Stack, wit)
		return
	} else if err != nil {
		cs.Violation(fmt.Sprintf("C15|%s|NewHmm|%s,%s|%s,%s|error", cs.Monitor, s.Elem, ms.VKind, mClass(s.M), s.restrClass(n)), err.Error(), wit)
		return
	}
	cs.Cover("elem:" + s.Elem)
	cs.Cover("vector-pdf:" + ms.VKind)
	cs.Cover(fmt.Sprintf("shape:m=%d,n=%d", s.M, n))
	if _, ok := expectedPi(s.Pi, s.Start); !ok {
		cs.Skip("start-mass-zero")
		return
	}
	if n == 1 && s.Final != nil {
		cs.Skip("n=1-with-final-restriction")
		return
	}
	xm := matOf(ad.Float64Type, ms.X)
	h := &libHmm{
		core:      &hmm.Hmm,
		n:         n,
		logPdf:    func(r ad.Scalar) error { return hmm.LogPdf(r, xm) },
		marginals: func() ([]ad.Vector, error) { return hmm.PosteriorMarginals(xm) },
		posterior: func(r ad.Scalar, st [][]int) error { return hmm.Posterior(r, xm, st) },
		viterbi:   func() ([]int, error) { return hmm.Viterbi(xm) },
		emission: func(c, k int) (float64, error) {
			r := ad.NewFloat64(0.0)
			if err := hmm.Edist[c].LogPdf(r, ad.NewDenseFloat64Vector(append([]float64{}, ms.X[k]...))); err != nil {
				return 0, err
			}
			return r.GetFloat64(), nil
		},
	}
	en := judgeQueries(j, h, r, nil)
	if en != nil && cs.Violations() == 0 && s.M >= 2 && n >= 2 && !math.IsInf(en.logL, -1) {
		cs.Nontrivial(s.Pi, s.Tr, s.StateMap, s.Start, s.Final, ms.VSpec, ms.X, s.Elem)
	}
}
