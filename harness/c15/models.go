package c15

import (
	"fmt"
	"math"
	"sort"

	ad "github.com/pbenner/autodiff"
	stat "github.com/pbenner/autodiff/statistics"
	sd "github.com/pbenner/autodiff/statistics/scalarDistribution"

	"verifharness/internal/prng"
)

/* stochastic parameters
 * -------------------------------------------------------------------------- */

// probVector draws a stochastic vector of length m.  kind: 0 dense random,
// 1 random with exact zeros, 2 dyadic (k/8) with zeros, 3 unit vector,
// 4 strongly skewed (one entry ~1e-9).
func probVector(r *prng.Rand, m, kind int) []float64 {
	v := make([]float64, m)
	switch kind {
	case 3:
		v[r.Intn(m)] = 1
		return v
	case 2:
		// compositions of 8 into m parts, zeros allowed
		left := 8
		for i := 0; i < m-1; i++ {
			k := r.Range(0, left)
			v[i] = float64(k) / 8
			left -= k
		}
		v[m-1] = float64(left) / 8
		p := r.Perm(m)
		w := make([]float64, m)
		for i := range v {
			w[p[i]] = v[i]
		}
		return w
	}
	for {
		s := 0.0
		for i := range v {
			v[i] = -math.Log(1 - r.Float64())
			if kind == 1 && r.Chance(0.4) {
				v[i] = 0
			}
			if kind == 4 && r.Chance(0.3) {
				v[i] *= 1e-9
			}
			s += v[i]
		}
		if s > 0 {
			for i := range v {
				v[i] /= s
			}
			return v
		}
	}
}

// transMatrix draws a row-stochastic matrix.  pattern: "dense", "zeros",
// "dyadic", "absorbing" (one absorbing state), "unreachable" (one state no
// other state moves to), "left-right" (upper triangular), "permutation"
// (deterministic cycle), "skewed".
func transMatrix(r *prng.Rand, m int, pattern string) [][]float64 {
	tr := make([][]float64, m)
	switch pattern {
	case "dense":
		for i := range tr {
			tr[i] = probVector(r, m, 0)
		}
	case "zeros":
		for i := range tr {
			tr[i] = probVector(r, m, 1)
		}
	case "dyadic":
		for i := range tr {
			tr[i] = probVector(r, m, 2)
		}
	case "skewed":
		for i := range tr {
			tr[i] = probVector(r, m, 4)
		}
	case "absorbing":
		a := r.Intn(m)
		for i := range tr {
			tr[i] = probVector(r, m, r.Intn(2))
		}
		tr[a] = make([]float64, m)
		tr[a][a] = 1
	case "unreachable":
		u := r.Intn(m)
		for i := range tr {
			for {
				tr[i] = probVector(r, m, r.Intn(2))
				if m == 1 {
					break
				}
				// remove the column u and renormalise
				s := 0.0
				for j := range tr[i] {
					if j != u {
						s += tr[i][j]
					}
				}
				if s > 0 {
					tr[i][u] = 0
					for j := range tr[i] {
						tr[i][j] /= s
					}
					break
				}
			}
		}
	case "left-right":
		for i := range tr {
			tr[i] = make([]float64, m)
			w := probVector(r, m-i, r.Intn(2))
			copy(tr[i][i:], w)
		}
	case "permutation":
		p := r.Perm(m)
		for i := range tr {
			tr[i] = make([]float64, m)
			tr[i][p[i]] = 1
		}
	default:
		panic("unknown pattern " + pattern)
	}
	return tr
}

var trPatterns = []string{"dense", "zeros", "dyadic", "absorbing", "unreachable", "left-right", "permutation", "skewed"}

// subset k of {0..m-1} as a sorted list (bit mask).
func subset(mask, m int) []int {
	var s []int
	for i := 0; i < m; i++ {
		if mask>>i&1 == 1 {
			s = append(s, i)
		}
	}
	return s
}

func inSet(s []int, i int) bool {
	for _, v := range s {
		if v == i {
			return true
		}
	}
	return false
}

/* emission families
 * -------------------------------------------------------------------------- */

// edSpec describes one emission distribution so that it can be written into a
// witness and rebuilt for any element type.
type edSpec struct {
	Kind string    `json:"kind"`
	P    []float64 `json:"p"`
}

func scalarOf(t ad.ScalarType, v float64) ad.Scalar { return ad.NewScalar(t, v) }

func vecOf(t ad.ScalarType, v []float64) ad.Vector {
	if t == ad.Real64Type {
		return ad.NewDenseReal64Vector(append([]float64{}, v...))
	}
	return ad.NewDenseFloat64Vector(append([]float64{}, v...))
}

func matOf(t ad.ScalarType, a [][]float64) ad.Matrix {
	n := len(a)
	m := 0
	if n > 0 {
		m = len(a[0])
	}
	flat := make([]float64, 0, n*m)
	for _, row := range a {
		flat = append(flat, row...)
	}
	if t == ad.Real64Type {
		return ad.NewDenseReal64Matrix(flat, n, m)
	}
	return ad.NewDenseFloat64Matrix(flat, n, m)
}

func (e edSpec) build(t ad.ScalarType) (stat.ScalarPdf, error) {
	switch e.Kind {
	case "categorical":
		return sd.NewCategoricalDistribution(vecOf(t, e.P))
	case "normal":
		return sd.NewNormalDistribution(scalarOf(t, e.P[0]), scalarOf(t, e.P[1]))
	case "poisson":
		return sd.NewPoissonDistribution(scalarOf(t, e.P[0]))
	case "exponential":
		return sd.NewExponentialDistribution(scalarOf(t, e.P[0]))
	case "gamma":
		return sd.NewGammaDistribution(scalarOf(t, e.P[0]), scalarOf(t, e.P[1]))
	case "binomial":
		return sd.NewBinomialDistribution(scalarOf(t, e.P[0]), int(e.P[1]))
	case "geometric":
		return sd.NewGeometricDistribution(scalarOf(t, e.P[0]))
	case "negbin":
		return sd.NewNegativeBinomialDistribution(scalarOf(t, e.P[0]), scalarOf(t, e.P[1]))
	case "cauchy":
		return sd.NewCauchyDistribution(scalarOf(t, e.P[0]), scalarOf(t, e.P[1]))
	}
	return nil, fmt.Errorf("unknown emission kind %s", e.Kind)
}

func newCategorical(v ad.Vector) (stat.ScalarPdf, error) { return sd.NewCategoricalDistribution(v) }
func newBinomial(a ad.Scalar, n int) (stat.ScalarPdf, error) {
	return sd.NewBinomialDistribution(a, n)
}

// buildFrom constructs the distribution from given parameter scalars.
func (e edSpec) buildFrom(sc []ad.Scalar) (stat.ScalarPdf, error) {
	switch e.Kind {
	case "normal":
		return sd.NewNormalDistribution(sc[0], sc[1])
	case "poisson":
		return sd.NewPoissonDistribution(sc[0])
	case "exponential":
		return sd.NewExponentialDistribution(sc[0])
	case "gamma":
		return sd.NewGammaDistribution(sc[0], sc[1])
	case "geometric":
		return sd.NewGeometricDistribution(sc[0])
	case "negbin":
		return sd.NewNegativeBinomialDistribution(sc[0], sc[1])
	case "cauchy":
		return sd.NewCauchyDistribution(sc[0], sc[1])
	}
	return nil, fmt.Errorf("unknown emission kind %s", e.Kind)
}

var families = []string{"categorical", "normal", "poisson", "exponential", "gamma", "binomial", "geometric", "negbin", "mixed-real", "mixed-count"}

// genEmissions draws ne emission distributions of one family and a generator
// of observations appropriate for it.
func genEmissions(r *prng.Rand, family string, ne int) ([]edSpec, func() float64) {
	eds := make([]edSpec, ne)
	realObs := func() float64 {
		switch r.Intn(6) {
		case 0:
			return float64(r.Range(-3, 3)) // repeated exact values
		case 1:
			return r.Norm() * 10
		default:
			return r.Norm() * 2
		}
	}
	posObs := func() float64 {
		switch r.Intn(6) {
		case 0:
			return float64(r.Range(1, 4))
		case 1:
			return r.LogUniform(1e-3, 50)
		default:
			return -math.Log(1-r.Float64()) * 2
		}
	}
	countObs := func(max int) func() float64 {
		return func() float64 { return float64(r.Range(0, max)) }
	}
	one := func(kind string) edSpec {
		switch kind {
		case "normal":
			return edSpec{kind, []float64{r.Uniform(-3, 3), r.LogUniform(0.1, 5)}}
		case "cauchy":
			return edSpec{kind, []float64{r.Uniform(-3, 3), r.LogUniform(0.1, 5)}}
		case "poisson":
			return edSpec{kind, []float64{r.LogUniform(0.1, 20)}}
		case "exponential":
			return edSpec{kind, []float64{r.LogUniform(0.1, 10)}}
		case "gamma":
			return edSpec{kind, []float64{r.LogUniform(0.3, 8), r.LogUniform(0.2, 5)}}
		case "binomial":
			return edSpec{kind, []float64{r.Uniform(0.05, 0.95), 8}}
		case "geometric":
			return edSpec{kind, []float64{r.Uniform(0.05, 0.95)}}
		case "negbin":
			return edSpec{kind, []float64{r.LogUniform(0.5, 10), r.Uniform(0.05, 0.95)}}
		}
		panic(kind)
	}
	switch family {
	case "categorical":
		k := r.Range(2, 4)
		for i := range eds {
			eds[i] = edSpec{"categorical", probVector(r, k, r.PickI([]int{0, 1, 1, 2, 3}))}
		}
		return eds, countObs(k - 1)
	case "normal":
		for i := range eds {
			eds[i] = one("normal")
		}
		return eds, realObs
	case "poisson", "geometric", "negbin":
		for i := range eds {
			eds[i] = one(family)
		}
		return eds, countObs(15)
	case "binomial":
		for i := range eds {
			eds[i] = one("binomial")
		}
		return eds, countObs(8)
	case "exponential", "gamma":
		for i := range eds {
			eds[i] = one(family)
		}
		return eds, posObs
	case "mixed-real":
		// exponential / gamma components have probability zero on negative
		// observations: exact zeros for continuous emissions
		for i := range eds {
			eds[i] = one(r.Pick([]string{"normal", "exponential", "gamma", "cauchy", "normal"}))
		}
		return eds, realObs
	case "mixed-count":
		for i := range eds {
			eds[i] = one(r.Pick([]string{"poisson", "geometric", "negbin", "binomial"}))
		}
		return eds, countObs(12) // > 8 is outside the binomial support
	}
	panic("unknown family " + family)
}

/* HMM specification
 * -------------------------------------------------------------------------- */

type hmmSpec struct {
	M        int         `json:"m"`
	Pi       []float64   `json:"pi"`
	Tr       [][]float64 `json:"tr"`
	TrKind   string      `json:"tr_pattern"`
	StateMap []int       `json:"state_map"` // nil: identity
	NE       int         `json:"n_emissions"`
	Start    []int       `json:"start_states"` // nil: unrestricted
	Final    []int       `json:"final_states"`
	Family   string      `json:"family"`
	Edist    []edSpec    `json:"emissions"`
	Elem     string      `json:"elem_type"`
}

func (s *hmmSpec) elemType() ad.ScalarType {
	if s.Elem == "Real64" {
		return ad.Real64Type
	}
	return ad.Float64Type
}

func (s *hmmSpec) stateMap() []int {
	if s.StateMap != nil {
		return s.StateMap
	}
	sm := make([]int, s.M)
	for i := range sm {
		sm[i] = i
	}
	return sm
}

func (s *hmmSpec) restrClass(n int) string {
	c := "none"
	switch {
	case s.Start != nil && s.Final != nil:
		c = "start+final"
	case s.Start != nil:
		c = "start"
	case s.Final != nil:
		c = "final"
	}
	return c
}

func mClass(m int) string {
	if m == 1 {
		return "m=1"
	}
	return "m>=2"
}

// nClass names the code path of the recursions: no transition, only the last
// transition (Tf), both kinds of transitions.
func nClass(n int) string {
	switch {
	case n <= 2:
		return fmt.Sprintf("n=%d", n)
	default:
		return "n>=3"
	}
}

// genStateMap draws a state map: nil (identity), shared emissions
// (surjective onto 0..ne-1 with ne < m) or a permutation.
func genStateMap(r *prng.Rand, m int) ([]int, int) {
	switch r.Intn(4) {
	case 0:
		if m >= 2 {
			ne := r.Range(1, m-1)
			for {
				sm := make([]int, m)
				used := make([]bool, ne)
				for i := range sm {
					sm[i] = r.Intn(ne)
					used[sm[i]] = true
				}
				ok := true
				for _, u := range used {
					ok = ok && u
				}
				if ok {
					return sm, ne
				}
			}
		}
	case 1:
		return r.Perm(m), m
	}
	return nil, m
}

func genHmmSpec(r *prng.Rand, m int) *hmmSpec {
	s := &hmmSpec{M: m, Elem: "Float64"}
	if r.Chance(0.2) {
		s.Elem = "Real64"
	}
	if r.Chance(0.06) {
		// fully symmetric model: every path has the same probability (ties
		// everywhere; a max/sum confusion shows up here)
		s.Pi = make([]float64, m)
		s.Tr = make([][]float64, m)
		for i := range s.Pi {
			s.Pi[i] = 1 / float64(m)
			s.Tr[i] = make([]float64, m)
			for k := range s.Tr[i] {
				s.Tr[i][k] = 1 / float64(m)
			}
		}
		s.TrKind = "symmetric"
		s.StateMap, s.NE = make([]int, m), 1
		s.Family = r.Pick(families)
		return s
	}
	s.Pi = probVector(r, m, r.Intn(5))
	s.TrKind = r.Pick(trPatterns)
	s.Tr = transMatrix(r, m, s.TrKind)
	s.StateMap, s.NE = genStateMap(r, m)
	full := 1<<m - 1
	if r.Chance(0.5) {
		s.Start = subset(r.Range(1, full), m)
	}
	if r.Chance(0.5) {
		s.Final = subset(r.Range(1, full), m)
		// the input class "a non-final state without any transition into a final
		// state" carries an open finding; it is kept (the directed list has all
		// of them) but down-weighted so that it does not dominate the event log
		for tries := 0; tries < 6 && hasDeadNonFinalRow(s.Tr, s.Final) && !r.Chance(0.15); tries++ {
			s.Final = subset(r.Range(1, full), m)
		}
	}
	s.Family = r.Pick(families)
	return s
}

func hasDeadNonFinalRow(tr [][]float64, final []int) bool {
	_, dead := expectedRows(tr, final)
	for _, i := range dead {
		if !inSet(final, i) {
			return true
		}
	}
	return false
}

/* independent recomputation of the restriction semantics
 * -------------------------------------------------------------------------- */

func logOf(p float64) float64 {
	if p == 0 {
		return negInf
	}
	return math.Log(p)
}

// expectedPi: pi restricted to the start states and renormalised.  ok=false
// when the restricted mass is zero (nothing to renormalise).
func expectedPi(pi []float64, start []int) ([]float64, bool) {
	r := make([]float64, len(pi))
	s := 0.0
	for i, p := range pi {
		if start == nil || inSet(start, i) {
			r[i] = p
			s += p
		}
	}
	if s == 0 {
		return nil, false
	}
	for i := range r {
		r[i] = logOf(r[i] / s)
	}
	return r, true
}

// expectedRows: rows restricted to the columns in keep (nil: all) and
// renormalised; rows without mass are reported in dead (and left at -Inf).
func expectedRows(tr [][]float64, keep []int) (rows [][]float64, dead []int) {
	rows = make([][]float64, len(tr))
	for i, row := range tr {
		rows[i] = make([]float64, len(row))
		s := 0.0
		for j, p := range row {
			if keep == nil || inSet(keep, j) {
				s += p
			}
		}
		if s == 0 {
			dead = append(dead, i)
		}
		for j, p := range row {
			if (keep == nil || inSet(keep, j)) && s > 0 {
				rows[i][j] = logOf(p / s)
			} else {
				rows[i][j] = negInf
			}
		}
	}
	return
}

func sortedCopy(s []int) []int {
	c := append([]int{}, s...)
	sort.Ints(c)
	return c
}
