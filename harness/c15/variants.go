package c15

import (
	"fmt"
	"math"

	stat "github.com/pbenner/autodiff/statistics"
	"github.com/pbenner/autodiff/statistics/generic"
	vd "github.com/pbenner/autodiff/statistics/vectorDistribution"

	"verifharness/internal/fw"
	"verifharness/internal/prng"
)

// runVariantCase: HMMs whose transition matrix is a constrained or a
// hierarchical one.  Their normalisation is an estimation device (C16 does not
// cover it either); what C15 promises is that inference on the model *as
// constructed* (public Pi/Tr/Tf) equals the enumeration.
func runVariantCase(cs *fw.Case, r *prng.Rand) {
	m := r.Range(2, 4)
	n := r.Range(1, 5)
	s := genHmmSpec(r, m)
	s.Elem = "Float64"
	variant := r.Pick([]string{"constrained", "hierarchical"})
	if variant == "hierarchical" {
		// block structure needs positive entries
		s.TrKind = r.Pick([]string{"dense", "skewed"})
	} else {
		s.TrKind = r.Pick([]string{"dense", "zeros", "dyadic"})
	}
	s.Tr = transMatrix(r, m, s.TrKind)
	var draw func() float64
	s.Edist, draw = genEmissions(r, s.Family, s.NE)
	x := genObs(n, draw, r)
	wit := map[string]any{"model": s, "x": x, "variant": variant}
	j := &hmmJudge{cs: cs, elem: variant, witness: wit,
		class: fmt.Sprintf("%s,%s,%s", mClass(s.M), nClass(n), s.restrClass(n))}
	t := s.elemType()
	edist := make([]stat.ScalarPdf, len(s.Edist))
	for i, e := range s.Edist {
		d, err := e.build(t)
		if err != nil {
			cs.Skip("emission-constructor")
			return
		}
		edist[i] = d
	}
	var hmm *vd.Hmm
	var err error
	fw.SetTickBudget(200000)
	p := fw.Call(func() {
		switch variant {
		case "constrained":
			// tie a few positive cells of different rows together
			var cells []int
			for tries := 0; tries < 8 && len(cells) < 4; tries++ {
				i, k := r.Intn(m), r.Intn(m)
				if s.Tr[i][k] > 0 {
					dup := false
					for q := 0; q < len(cells); q += 2 {
						if cells[q] == i && cells[q+1] == k {
							dup = true
						}
					}
					if !dup {
						cells = append(cells, i, k)
					}
				}
			}
			var cons []generic.EqualityConstraint
			if len(cells) >= 4 {
				c, _ := generic.NewEqualityConstraint(cells)
				cons = append(cons, c)
			}
			wit["constraint_cells"] = cells
			var h *vd.Chmm
			if h, err = vd.NewConstrainedHmm(vecOf(t, s.Pi), matOf(t, s.Tr), s.StateMap, edist, cons); err == nil {
				hmm = &h.Hmm
			}
		case "hierarchical":
			var tree generic.HmmNode
			switch {
			case m == 2:
				tree = generic.NewHmmNode(generic.NewHmmLeaf(0, 1), generic.NewHmmLeaf(1, 2))
			case m == 3:
				tree = generic.NewHmmNode(generic.NewHmmLeaf(0, 2), generic.NewHmmLeaf(2, 3))
			default:
				tree = generic.NewHmmNode(generic.NewHmmLeaf(0, 2), generic.NewHmmLeaf(2, 4))
			}
			var h *vd.Hhmm
			if h, err = vd.NewHierarchicalHmm(vecOf(t, s.Pi), matOf(t, s.Tr), s.StateMap, edist, tree); err == nil {
				hmm = &h.Hmm
			}
		}
		if err == nil && s.Start != nil {
			err = hmm.SetStartStates(s.Start)
		}
		if err == nil && s.Final != nil {
			err = hmm.SetFinalStates(s.Final)
		}
	})
	fw.SetTickBudget(0)
	if p != nil {
		if p.Budget {
			cs.Skip("no-return")
		} else {
			// construction of these variants is outside C15 (C20 owns loud failure)
			cs.Skip("constructor-panic")
			cs.Cover("variant:" + variant + ":constructor-panic")
		}
		return
	}
	if err != nil {
		cs.Skip("constructor-rejected")
		return
	}
	cs.Cover("variant:" + variant)
	if _, ok := expectedPi(s.Pi, s.Start); !ok {
		cs.Skip("start-mass-zero")
		return
	}
	if n == 1 && s.Final != nil {
		cs.Skip("n=1-with-final-restriction")
		return
	}
	h := vectorLib(hmm, x)
	// a final-state restriction must leave a usable last-transition matrix
	if tb, err := readTables(h); err == nil && s.Final != nil {
		nanTr, nanTf := false, false
		for i := 0; i < m; i++ {
			for k := 0; k < m; k++ {
				nanTr = nanTr || math.IsNaN(tb.tr[i][k])
				nanTf = nanTf || math.IsNaN(tb.tf[i][k])
			}
		}
		if nanTf && !nanTr {
			cs.Violation(fmt.Sprintf("C15|%s|SetFinalStates|%s|%s|nan-parameters", cs.Monitor, variant, mClass(m)),
				fmt.Sprintf("Tf contains NaN after SetFinalStates(%v) on a %s HMM with finite Tr: Tr=%v Tf=%v; every query returns NaN", s.Final, variant, tb.tr, fmtRows(tb.tf)), wit)
			return
		}
	}
	en := judgeQueries(j, h, r, nil)
	if en != nil && cs.Violations() == 0 && n >= 2 && !math.IsInf(en.logL, -1) {
		cs.Nontrivial(variant, s.Pi, s.Tr, s.StateMap, s.Start, s.Final, s.Edist, x)
	}
}

func fmtRows(a [][]float64) string {
	return fmt.Sprintf("%v", a)
}
