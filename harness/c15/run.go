package c15

import (
	"verifharness/internal/fw"
	"verifharness/internal/prng"
)

// directedSpec decodes index i into (m, n, start mask, final mask, pattern):
// all start/final restriction subsets for every small shape.
func directedSpec(i int) (m, n, start, final int, pattern string, ok bool) {
	pats := []string{"dense", "zeros", "absorbing"}
	for m = 1; m <= 4; m++ {
		sub := 1 << m // mask 0 = unrestricted
		cnt := 4 * sub * sub * len(pats)
		if i < cnt {
			pattern = pats[i%len(pats)]
			i /= len(pats)
			final = i % sub
			i /= sub
			start = i % sub
			i /= sub
			n = i + 1
			return m, n, start, final, pattern, true
		}
		i -= cnt
	}
	return 0, 0, 0, 0, "", false
}

const nDirectedQuick = 48 + 192 + 768           // m = 1..3
const nDirectedThorough = nDirectedQuick + 3072 // + m = 4

// Run is the C15 workload.
func Run(c *fw.Ctx) {
	// (1) directed: every start/final subset x every small shape x three
	// transition patterns; parameters from a stream fixed by the index
	c.Cases("hmm.directed", c.N(nDirectedQuick, nDirectedThorough), func(cs *fw.Case) {
		m, n, start, final, pattern, ok := directedSpec(cs.Index)
		if !ok {
			return
		}
		r := prng.New(uint64(cs.Index)*2654435761 + 99)
		s := &hmmSpec{M: m, Elem: "Float64", TrKind: pattern}
		s.Pi = probVector(r, m, []int{0, 1, 2}[cs.Index%3])
		s.Tr = transMatrix(r, m, pattern)
		s.NE = m
		if start != 0 {
			s.Start = subset(start, m)
		}
		if final != 0 {
			s.Final = subset(final, m)
		}
		s.Family = []string{"categorical", "normal"}[(cs.Index/3)%2]
		var draw func() float64
		s.Edist, draw = genEmissions(r, s.Family, s.NE)
		x := genObs(n, draw, r)
		runVectorCase(cs, s, x, r, true)
	})
	// (1b) directed witness of the open finding on hierarchical HMMs: the
	// generated case hmm.variants#160 of seed 1, re-derived from its PRNG stream
	// (a case is a function of its stream only), so that the witness is
	// re-executed under every VERIF_SEED and tier
	c.Cases("hmm.variants.directed", 1, func(cs *fw.Case) {
		cs.Monitor = "hmm.variants"
		cs.R = prng.For(1, "hmm.variants", 160)
		runVariantCase(cs, cs.R)
		cs.Monitor = "hmm.variants.directed"
	})
	// (2) random vector HMMs
	c.Cases("hmm", c.N(60000, 1000000), func(cs *fw.Case) {
		r := cs.R
		m := r.Range(1, 4)
		n := r.Range(1, 6)
		s := genHmmSpec(r, m)
		var draw func() float64
		s.Edist, draw = genEmissions(r, s.Family, s.NE)
		x := genObs(n, draw, r)
		if cs.Index < 2 {
			cs.Sample(map[string]any{"model": s, "x": x})
		}
		runVectorCase(cs, s, x, r, true)
	})
	// (3) matrix HMMs (vector emissions)
	c.Cases("hmm.matrix", c.N(8000, 100000), func(cs *fw.Case) {
		runMatrixCase(cs, cs.R)
	})
	// (4) float64-specialised forward-backward (Baum-Welch step likelihood)
	c.Cases("hmm.bw", c.N(12000, 150000), func(cs *fw.Case) {
		runBwCase(cs, cs.R, false)
	})
	// (4b) the same on data sets of MIXED record lengths, longest first
	c.Cases("hmm.bw.mixed", c.N(6000, 80000), func(cs *fw.Case) {
		runBwCase(cs, cs.R, true)
	})
	// (4c) mutator histories judged against the model as specified
	c.Cases("hmm.history", c.N(12000, 150000), func(cs *fw.Case) {
		runHistoryCase(cs, cs.R)
	})
	// (5) constrained / hierarchical transition matrices
	c.Cases("hmm.variants", c.N(4000, 50000), func(cs *fw.Case) {
		runVariantCase(cs, cs.R)
	})
	// (6) mixtures
	c.Cases("mixture", c.N(25000, 400000), func(cs *fw.Case) {
		runMixtureCase(cs, cs.R)
	})
}
