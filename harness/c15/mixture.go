package c15

import (
	"fmt"
	"math"

	ad "github.com/pbenner/autodiff"
	stat "github.com/pbenner/autodiff/statistics"
	md "github.com/pbenner/autodiff/statistics/matrixDistribution"
	sd "github.com/pbenner/autodiff/statistics/scalarDistribution"
	vc "github.com/pbenner/autodiff/statistics/vectorClassifier"
	vd "github.com/pbenner/autodiff/statistics/vectorDistribution"

	"verifharness/internal/fw"
	"verifharness/internal/prng"
)

type mixSpec struct {
	Level   string      `json:"level"` // scalar | vector | matrix
	Elem    string      `json:"elem_type"`
	Weights []float64   `json:"weights"`
	Family  string      `json:"family"`
	VKind   string      `json:"vector_pdf,omitempty"`
	D       int         `json:"dim,omitempty"`
	Rows    int         `json:"rows,omitempty"`
	Comp    [][]edSpec  `json:"components"`
	X       [][]float64 `json:"x"` // rows x dim (scalar: 1x1, vector: 1xd)
}

// libMix is the uniform view of the three mixture wrappers.
type libMix struct {
	logWeights ad.Vector
	stype      ad.ScalarType
	logPdf     func(r ad.Scalar) error
	likelihood func(r ad.Scalar, s []int) error
	posterior  func(r ad.Scalar, s []int) error
	component  func(j int) (float64, error)
}

func runMixtureCase(cs *fw.Case, r *prng.Rand) {
	ms := &mixSpec{Elem: "Float64"}
	if r.Chance(0.25) {
		ms.Elem = "Real64"
	}
	ms.Level = r.Pick([]string{"scalar", "scalar", "vector", "vector", "matrix"})
	k := r.Range(1, 5)
	ms.Weights = probVector(r, k, r.Intn(5))
	if r.Chance(0.5) {
		// weights need not be normalised
		f := r.LogUniform(1e-3, 1e3)
		for i := range ms.Weights {
			ms.Weights[i] *= f
		}
	}
	ms.Family = r.Pick(families)
	ms.D, ms.Rows = 1, 1
	var draw func() float64
	switch ms.Level {
	case "scalar":
		e, d := genEmissions(r, ms.Family, k)
		draw = d
		for _, s := range e {
			ms.Comp = append(ms.Comp, []edSpec{s})
		}
	default:
		ms.D = r.Range(1, 3)
		ms.VKind = r.Pick([]string{"iid", "id"})
		if ms.Level == "matrix" {
			ms.Rows = 2 * ms.D / gcd(2, ms.D) // a multiple of D (NewVectorIid demands it)
			if ms.Rows > 4 {
				ms.Rows = ms.D
			}
		}
		// one common alphabet / support for all components
		e, d := genEmissions(r, ms.Family, k*ms.D)
		draw = d
		for j := 0; j < k; j++ {
			ms.Comp = append(ms.Comp, e[j*ms.D:(j+1)*ms.D])
		}
	}
	ms.X = make([][]float64, ms.Rows)
	for i := range ms.X {
		ms.X[i] = make([]float64, ms.D)
		for q := range ms.X[i] {
			ms.X[i][q] = draw()
		}
	}
	wit := map[string]any{"mixture": ms}
	t := ad.Float64Type
	if ms.Elem == "Real64" {
		t = ad.Real64Type
	}
	kClass := "k=1"
	if k > 1 {
		kClass = "k>=2"
	}
	var lm *libMix
	var vmix *vd.Mixture
	var err error
	if p := fw.Call(func() { lm, vmix, err = buildMixture(ms, t) }); p != nil {
		cs.Violation(fmt.Sprintf("C15|%s|NewMixture|%s,%s|%s|panic", cs.Monitor, ms.Level, ms.Elem, kClass), p.Msg+"\n"+p.Stack, wit)
		return
	} else if err != nil {
		cs.Violation(fmt.Sprintf("C15|%s|NewMixture|%s,%s|%s|error", cs.Monitor, ms.Level, ms.Elem, kClass), err.Error(), wit)
		return
	}
	cs.Cover("mixture:" + ms.Level)
	cs.Cover("elem:" + ms.Elem)
	cs.Cover("family:" + ms.Family)
	cs.Cover(fmt.Sprintf("components:%d", k))

	// component terms
	lw := make([]float64, k)
	lp := make([]float64, k)
	wsum := 0.0
	for _, w := range ms.Weights {
		wsum += w
	}
	zeroW := false
	for j := 0; j < k; j++ {
		lw[j] = lm.logWeights.At(j).GetFloat64()
		want := logOf(ms.Weights[j] / wsum)
		if ms.Weights[j] == 0 {
			zeroW = true
		}
		if !sameLog(lw[j], want, K*eps*(1+math.Abs(want))) {
			cs.Violation(fmt.Sprintf("C15|%s|LogWeights|%s,%s|%s|value", cs.Monitor, ms.Level, ms.Elem, kClass),
				fmt.Sprintf("LogWeights[%d] = %v, normalised input weight gives %v", j, lw[j], want), wit)
			return
		}
		v, err := lm.component(j)
		if err != nil {
			cs.Skip("emission-error")
			return
		}
		if math.IsNaN(v) || math.IsInf(v, 1) {
			cs.Skip("nan-or-inf-parameters")
			return
		}
		lp[j] = v
	}
	sumOver := func(keep func(j int) bool, withLp bool) (float64, float64) {
		var a lse
		for j := 0; j < k; j++ {
			if keep(j) {
				if withLp {
					if math.IsInf(lp[j], -1) {
						continue
					}
					a.add(lw[j]+lp[j], math.Abs(lw[j])+math.Abs(lp[j]))
				} else {
					a.add(lw[j], math.Abs(lw[j]))
				}
			}
		}
		return a.result()
	}
	all, condAll := sumOver(func(int) bool { return true }, true)
	tolAll := tolLog(all, condAll, k)
	zero := "dense"
	if math.IsInf(all, -1) {
		zero = "allzero"
	} else {
		for j := 0; j < k; j++ {
			if math.IsInf(lw[j]+lp[j], -1) {
				zero = "zeros"
			}
		}
	}
	cs.Cover("zero-class:" + zero)
	if zeroW {
		cs.Cover("zero-weight-component")
	}
	sig := func(query, kind string) string {
		return fmt.Sprintf("C15|%s|%s|%s,%s|%s,%s|%s", cs.Monitor, query, ms.Level, ms.Elem, kClass, zero, kind)
	}
	call := func(query string, f func(r ad.Scalar) error) (float64, bool) {
		res := ad.NewScalar(lm.stype, 0.0)
		var err error
		if p := fw.Call(func() { err = f(res) }); p != nil {
			cs.Violation(sig(query, "panic"), p.Msg+"\n"+p.Stack, wit)
			return 0, false
		} else if err != nil {
			cs.Violation(sig(query, "error"), err.Error(), wit)
			return 0, false
		}
		return res.GetFloat64(), true
	}
	// LogPdf
	if got, ok := call("LogPdf", lm.logPdf); ok {
		cs.Cover("query:LogPdf")
		if !sameLog(got, all, tolAll) {
			cs.Violation(sig("LogPdf", "value"), fmt.Sprintf("LogPdf = %v, explicit sum over %d components gives %v (difference %.3g, tolerance %.3g)", got, k, all, got-all, tolAll), wit)
		}
	}
	// subsets
	var masks []int
	full := 1<<k - 1
	if k <= 4 {
		for mk := 1; mk <= full; mk++ {
			masks = append(masks, mk)
		}
	} else {
		masks = append(masks, full)
		for i := 0; i < 12; i++ {
			masks = append(masks, r.Range(1, full))
		}
	}
	for _, mk := range masks {
		s := subset(mk, k)
		// the order in which the components are listed must not matter
		p := r.Perm(len(s))
		o := make([]int, len(s))
		for i := range s {
			o[i] = s[p[i]]
		}
		in := func(j int) bool { return mk>>j&1 == 1 }
		num, condN := sumOver(in, true)
		den, condD := sumOver(in, false)
		tolN := tolLog(num, condN, k)
		// Likelihood: p(x | component in S)
		if math.IsInf(den, -1) {
			cs.Cover("query:Likelihood:zero-weight-subset(not judged)")
		} else if got, ok := call("Likelihood", func(r ad.Scalar) error { return lm.likelihood(r, o) }); ok {
			cs.Cover("query:Likelihood")
			want := num - den
			tol := tolN + tolLog(den, condD, k)
			if !sameLog(got, want, tol) {
				cs.Violation(sig("Likelihood", "value"), fmt.Sprintf("Likelihood(%v) = %v, explicit sums give %v (difference %.3g, tolerance %.3g)", o, got, want, got-want, tol), wit)
			}
		}
		// Posterior: P(component in S | x)
		if math.IsInf(all, -1) {
			cs.Cover("query:Posterior:zero-likelihood(not judged)")
		} else if got, ok := call("Posterior", func(r ad.Scalar) error { return lm.posterior(r, o) }); ok {
			cs.Cover("query:Posterior")
			want := num - all
			tol := tolN + tolAll
			if !sameLog(got, want, tol) {
				cs.Violation(sig("Posterior", "value"), fmt.Sprintf("Posterior(%v) = %v, explicit sums give %v (difference %.3g, tolerance %.3g)", o, got, want, got-want, tol), wit)
			}
			if mk == full && !(math.Abs(got) <= tol) {
				cs.Violation(sig("Posterior", "normalisation"), fmt.Sprintf("posterior of all components is exp(%v), not 1", got), wit)
			}
		}
		// classifiers (vector mixtures)
		if vmix != nil {
			xv := ad.NewDenseFloat64Vector(append([]float64{}, ms.X[0]...))
			if !math.IsInf(den, -1) {
				if got, ok := call("MixtureLikelihood.Eval", func(r ad.Scalar) error { return vc.MixtureLikelihood{Mixture: vmix, States: o}.Eval(r, xv) }); ok {
					cs.Cover("query:MixtureLikelihood.Eval")
					if want, tol := num-den, tolN+tolLog(den, condD, k); !sameLog(got, want, tol) {
						cs.Violation(sig("MixtureLikelihood.Eval", "value"), fmt.Sprintf("Eval(%v) = %v, explicit sums give %v", o, got, want), wit)
					}
				}
			}
			if !math.IsInf(all, -1) {
				if got, ok := call("MixturePosterior.Eval", func(r ad.Scalar) error { return vc.MixturePosterior{Mixture: vmix, States: o}.Eval(r, xv) }); ok {
					cs.Cover("query:MixturePosterior.Eval")
					if want, tol := num-all, tolN+tolAll; !sameLog(got, want, tol) {
						cs.Violation(sig("MixturePosterior.Eval", "value"), fmt.Sprintf("Eval(%v) = %v, explicit sums give %v", o, got, want), wit)
					}
				}
			}
		}
	}
	if cs.Violations() == 0 && k >= 2 && !math.IsInf(all, -1) {
		cs.Nontrivial(ms.Level, ms.Elem, ms.Weights, ms.Comp, ms.X)
	}
}

func gcd(a, b int) int {
	for b != 0 {
		a, b = b, a%b
	}
	return a
}

func buildMixture(ms *mixSpec, t ad.ScalarType) (*libMix, *vd.Mixture, error) {
	k := len(ms.Weights)
	w := vecOf(t, ms.Weights)
	switch ms.Level {
	case "scalar":
		ed := make([]stat.ScalarPdf, k)
		for j := range ed {
			d, err := ms.Comp[j][0].build(t)
			if err != nil {
				return nil, nil, err
			}
			ed[j] = d
		}
		mix, err := sd.NewMixture(w, ed)
		if err != nil {
			return nil, nil, err
		}
		x := ad.ConstFloat64(ms.X[0][0])
		return &libMix{
			logWeights: mix.LogWeights, stype: mix.ScalarType(),
			logPdf:     func(r ad.Scalar) error { return mix.LogPdf(r, x) },
			likelihood: func(r ad.Scalar, s []int) error { return mix.Likelihood(r, x, s) },
			posterior:  func(r ad.Scalar, s []int) error { return mix.Posterior(r, x, s) },
			component: func(j int) (float64, error) {
				r := ad.NewFloat64(0.0)
				err := mix.Edist[j].LogPdf(r, x)
				return r.GetFloat64(), err
			},
		}, nil, nil
	case "vector":
		ed := make([]stat.VectorPdf, k)
		for j := range ed {
			d, err := buildVectorPdf(t, ms.VKind, ms.Comp[j], ms.D)
			if err != nil {
				return nil, nil, err
			}
			ed[j] = d
		}
		mix, err := vd.NewMixture(w, ed)
		if err != nil {
			return nil, nil, err
		}
		x := ad.NewDenseFloat64Vector(append([]float64{}, ms.X[0]...))
		return &libMix{
			logWeights: mix.LogWeights, stype: mix.ScalarType(),
			logPdf:     func(r ad.Scalar) error { return mix.LogPdf(r, x) },
			likelihood: func(r ad.Scalar, s []int) error { return mix.Likelihood(r, x, s) },
			posterior:  func(r ad.Scalar, s []int) error { return mix.Posterior(r, x, s) },
			component: func(j int) (float64, error) {
				r := ad.NewFloat64(0.0)
				err := mix.Edist[j].LogPdf(r, x)
				return r.GetFloat64(), err
			},
		}, mix, nil
	case "matrix":
		ed := make([]stat.MatrixPdf, k)
		for j := range ed {
			v, err := buildVectorPdf(t, ms.VKind, ms.Comp[j], ms.D)
			if err != nil {
				return nil, nil, err
			}
			d, err := md.NewVectorIid(v, ms.Rows)
			if err != nil {
				return nil, nil, err
			}
			ed[j] = d
		}
		mix, err := md.NewMixture(w, ed)
		if err != nil {
			return nil, nil, err
		}
		x := matOf(ad.Float64Type, ms.X)
		return &libMix{
			logWeights: mix.LogWeights, stype: mix.ScalarType(),
			logPdf:     func(r ad.Scalar) error { return mix.LogPdf(r, x) },
			likelihood: func(r ad.Scalar, s []int) error { return mix.Likelihood(r, x, s) },
			posterior:  func(r ad.Scalar, s []int) error { return mix.Posterior(r, x, s) },
			component: func(j int) (float64, error) {
				r := ad.NewFloat64(0.0)
				err := mix.Edist[j].LogPdf(r, x)
				return r.GetFloat64(), err
			},
		}, nil, nil
	}
	return nil, nil, fmt.Errorf("unknown level")
}
