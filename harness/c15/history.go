package c15

import (
	"fmt"
	"math"

	ad "github.com/pbenner/autodiff"
	stat "github.com/pbenner/autodiff/statistics"
	vd "github.com/pbenner/autodiff/statistics/vectorDistribution"

	"verifharness/internal/fw"
	"verifharness/internal/prng"
)

// runHistoryCase: an HMM is taken through a short history of mutators
// (SetStartStates, SetFinalStates, SetParameters with new values,
// SetParameters(GetParameters()), Clone + scrambling of the original, and
// overwriting of every caller-owned constructor argument); afterwards every
// query must equal the enumeration of the model AS SPECIFIED by the history:
// the tables are built from the monitor's own record of (pi, tr, start set,
// final set, state map, emission parameters), never from hmm.Pi/Tr/Tf/StateMap.
func runHistoryCase(cs *fw.Case, r *prng.Rand) {
	m := r.Range(1, 4)
	n := r.Range(1, 5)
	s := genHmmSpec(r, m)
	s.Elem = "Float64"
	s.Start, s.Final = nil, nil
	if s.StateMap == nil && r.Chance(0.5) && m >= 2 {
		// an explicit state map (the one argument NewHmm must copy)
		s.StateMap, s.NE = make([]int, m), m
		for i := range s.StateMap {
			s.StateMap[i] = i
		}
		if r.Bool() {
			s.NE = r.Range(1, m-1)
			for i := range s.StateMap {
				s.StateMap[i] = i % s.NE
			}
		}
	}
	var draw func() float64
	s.Edist, draw = genEmissions(r, s.Family, s.NE)
	x := genObs(n, draw, r)
	t := ad.Float64Type

	// the specification the monitor keeps
	piEff := append([]float64{}, s.Pi...) // effective initial distribution (after restrictions)
	tr := make([][]float64, m)
	for i := range tr {
		tr[i] = append([]float64{}, s.Tr[i]...)
	}
	var final []int
	startSet := false
	var history []string
	wit := map[string]any{"model": s, "x": x}

	// caller-owned constructor arguments
	var smArg []int
	if s.StateMap != nil {
		smArg = append([]int{}, s.StateMap...)
	}
	piArg, trArg := vecOf(t, s.Pi), matOf(t, s.Tr)
	type owned struct {
		sc []ad.Scalar
		v  ad.Vector
	}
	var args []owned
	edist := make([]stat.ScalarPdf, len(s.Edist))
	var hmm *vd.Hmm
	var err error
	if p := fw.Call(func() {
		for i, e := range s.Edist {
			var o owned
			edist[i], o.sc, o.v, err = e.buildOwned(t)
			if err != nil {
				return
			}
			args = append(args, o)
		}
		hmm, err = vd.NewHmm(piArg, trArg, smArg, edist)
	}); p != nil || err != nil {
		cs.Skip("constructor")
		return
	}
	scramble := func() {
		// overwrite everything the caller still holds
		for i := range smArg {
			smArg[i] = (smArg[i] + 1 + r.Intn(2)) % maxInt(s.NE, 1)
		}
		for i := 0; i < m; i++ {
			piArg.At(i).SetFloat64(r.Float64())
			for k := 0; k < m; k++ {
				trArg.At(i, k).SetFloat64(r.Float64())
			}
		}
		for _, o := range args {
			for _, sc := range o.sc {
				sc.SetFloat64(0.5 + r.Float64())
			}
			if o.v != nil {
				for i := 0; i < o.v.Dim(); i++ {
					o.v.At(i).SetFloat64(r.Float64())
				}
			}
		}
	}
	steps := r.Range(2, 3)
	ops := []string{"start", "final", "setparams-new", "setparams-same", "clone", "overwrite-args"}
	full := 1<<m - 1
	fail := func(what string, e error) {
		cs.Violation(fmt.Sprintf("C15|%s|%s|%s|error", cs.Monitor, what, mClass(m)), fmt.Sprintf("%s after history %v: %v", what, history, e), wit)
	}
	for st := 0; st < steps; st++ {
		op := r.Pick(ops)
		if st == 0 && r.Chance(0.4) {
			op = "overwrite-args" // right after construction
		}
		var e error
		var pn *fw.Panic
		switch op {
		case "start":
			set := subset(r.Range(1, full), m)
			history = append(history, fmt.Sprintf("SetStartStates(%v)", set))
			pn = fw.Call(func() { e = hmm.SetStartStates(append([]int{}, set...)) })
			sum := 0.0
			for i := range piEff {
				if !inSet(set, i) {
					piEff[i] = 0
				}
				sum += piEff[i]
			}
			if sum == 0 {
				cs.Skip("start-mass-zero")
				return
			}
			for i := range piEff {
				piEff[i] /= sum
			}
			startSet = true
		case "final":
			set := subset(r.Range(1, full), m)
			history = append(history, fmt.Sprintf("SetFinalStates(%v)", set))
			pn = fw.Call(func() { e = hmm.SetFinalStates(append([]int{}, set...)) })
			final = set
		case "setparams-new", "setparams-same":
			var par ad.Vector
			if pp := fw.Call(func() { par = hmm.GetParameters().CloneVector() }); pp != nil {
				cs.Violation(fmt.Sprintf("C15|%s|GetParameters|%s|panic", cs.Monitor, mClass(m)), pp.Msg, wit)
				return
			}
			if op == "setparams-new" {
				// new valid parameters: an initial distribution supported where the
				// current one is (the start restriction stays meaningful), a new
				// row-stochastic transition matrix; emission parameters unchanged
				np := probVector(r, m, r.Intn(2))
				sum := 0.0
				for i := range np {
					if piEff[i] == 0 && startSet {
						np[i] = 0
					}
					sum += np[i]
				}
				if sum == 0 {
					copy(np, piEff)
					sum = 1
				}
				for i := range np {
					np[i] /= sum
				}
				ntr := transMatrix(r, m, r.Pick([]string{"dense", "zeros", "absorbing", "skewed"}))
				for i := 0; i < m; i++ {
					par.At(i).SetFloat64(logOf(np[i]))
					for k := 0; k < m; k++ {
						par.At(m + i*m + k).SetFloat64(logOf(ntr[i][k])) // row-major (AsVector)
					}
				}
				piEff, tr = np, ntr
				history = append(history, fmt.Sprintf("SetParameters(pi=%v, tr=%v)", np, ntr))
			} else {
				history = append(history, "SetParameters(GetParameters())")
			}
			pn = fw.Call(func() { e = hmm.SetParameters(par) })
		case "clone":
			history = append(history, "Clone(), original scrambled")
			orig := hmm
			pn = fw.Call(func() {
				hmm = orig.Clone()
				// scramble the original: its state map, its parameters
				for i := range orig.StateMap {
					orig.StateMap[i] = (orig.StateMap[i] + 1) % maxInt(s.NE, 1)
				}
				par := orig.GetParameters().CloneVector()
				for i := 0; i < m+m*m; i++ {
					par.At(i).SetFloat64(math.Log(0.1 + r.Float64()))
				}
				orig.SetParameters(par)
			})
		case "overwrite-args":
			history = append(history, "caller-owned arguments overwritten")
			scramble()
		}
		cs.Cover("history-op:" + op)
		if pn != nil {
			cs.Violation(fmt.Sprintf("C15|%s|%s|%s|panic", cs.Monitor, op, mClass(m)), pn.Msg+"\n"+pn.Stack, wit)
			return
		}
		if e != nil {
			fail(op, e)
			return
		}
	}
	wit["history"] = history
	if n == 1 && final != nil {
		cs.Skip("n=1-with-final-restriction")
		return
	}
	// tables of the model as specified
	tb := &tables{m: m, n: n}
	tb.pi = make([]float64, m)
	for i := range tb.pi {
		tb.pi[i] = logOf(piEff[i])
	}
	tb.tr, _ = expectedRows(tr, nil)
	var dead []int
	tb.tf, dead = expectedRows(tr, final)
	for _, i := range dead {
		if final != nil && inSet(final, i) {
			// a final state without any way into a final state: what its row of the
			// last-transition matrix should be is not specified
			cs.Skip("final-unreachable-row,i-final")
			return
		}
	}
	if final == nil {
		tb.tf = tb.tr
	}
	sm := s.stateMap()
	em := make([][]float64, s.NE)
	for c := 0; c < s.NE; c++ {
		d, err := s.Edist[c].build(t) // a fresh, independent distribution
		if err != nil {
			cs.Skip("emission-constructor")
			return
		}
		em[c] = make([]float64, n)
		res := ad.NewFloat64(0.0)
		for k := 0; k < n; k++ {
			if err := d.LogPdf(res, ad.ConstFloat64(x[k])); err != nil {
				cs.Skip("emission-error")
				return
			}
			em[c][k] = res.GetFloat64()
		}
	}
	tb.e = make([][]float64, m)
	for i := 0; i < m; i++ {
		tb.e[i] = em[sm[i]]
	}
	restr := "none"
	switch {
	case startSet && final != nil:
		restr = "start+final"
	case startSet:
		restr = "start"
	case final != nil:
		restr = "final"
	}
	j := &hmmJudge{cs: cs, elem: "Float64", witness: wit, class: fmt.Sprintf("%s,%s,%s", mClass(m), nClass(n), restr)}
	h := vectorLib(hmm, x)
	h.spec = tb
	en := judgeQueries(j, h, r, nil)
	if en != nil && cs.Violations() == 0 && m >= 2 && n >= 2 && !math.IsInf(en.logL, -1) {
		cs.Nontrivial(s.Pi, s.Tr, s.StateMap, s.Edist, x, history)
	}
}

func maxInt(a, b int) int {
	if a > b {
		return a
	}
	return b
}

// buildOwned builds the emission distribution like build, and returns the
// scalars / vector that were handed to its constructor (the caller still owns
// them and may overwrite them afterwards).
func (e edSpec) buildOwned(t ad.ScalarType) (stat.ScalarPdf, []ad.Scalar, ad.Vector, error) {
	switch e.Kind {
	case "categorical":
		v := vecOf(t, e.P)
		d, err := newCategorical(v)
		return d, nil, v, err
	case "binomial":
		a := scalarOf(t, e.P[0])
		d, err := newBinomial(a, int(e.P[1]))
		return d, []ad.Scalar{a}, nil, err
	}
	sc := make([]ad.Scalar, len(e.P))
	for i, p := range e.P {
		sc[i] = scalarOf(t, p)
	}
	d, err := e.buildFrom(sc)
	return d, sc, nil, err
}
